(* C09 - the plain-data (pod) form travels through the textual message builder as
   repr(value) and comes back through ast.literal_eval.  A small printer / parser pair
   for exactly the fragment the modelled integer adapters produce:
     ints, bools, identifier-like strings (no quotes / backslashes / non-ASCII: printed
     as 'NAME'), and flat tuples of those - "()", "('A',)" (1-tuple trailing comma),
     "('A', 'B', 4)".
   Definitions and proofs (small file).  Tied to CPython's repr / ast.literal_eval by
   the correspondence of harness/props/c09.py on the generated plain-data values. *)
From Coq Require Import ZArith List Ascii Bool Decimal DecimalZ DecimalPos DecimalN DecimalFacts Lia.
From HV Require Import Subfield.IntAdapters.
Import ListNotations.
Local Open Scope char_scope.

Inductive atom := AInt (z : Z) | AStr (s : name) | ABoolean (b : bool).
Inductive plit := PAtom (a : atom) | PTup (l : list atom).

(* ------------------------------------------------------------------ printer (repr) *)
Fixpoint print_uint (u : uint) : list ascii :=
  match u with
  | Nil => []
  | D0 r => "0" :: print_uint r | D1 r => "1" :: print_uint r | D2 r => "2" :: print_uint r
  | D3 r => "3" :: print_uint r | D4 r => "4" :: print_uint r | D5 r => "5" :: print_uint r
  | D6 r => "6" :: print_uint r | D7 r => "7" :: print_uint r | D8 r => "8" :: print_uint r
  | D9 r => "9" :: print_uint r
  end.

Definition print_int (d : Decimal.int) : list ascii :=
  match d with Pos u => print_uint u | Neg u => "-" :: print_uint u end.

Definition print_Z (z : Z) : list ascii := print_int (Z.to_int z).

Definition print_atom (a : atom) : list ascii :=
  match a with
  | AInt z => print_Z z
  | AStr s => "'" :: s ++ ["'"]
  | ABoolean true => ["T"; "r"; "u"; "e"]
  | ABoolean false => ["F"; "a"; "l"; "s"; "e"]
  end.

Definition print_tail (l : list atom) : list ascii :=
  concat (map (fun a => "," :: " " :: print_atom a) l).

Definition print_plit (p : plit) : list ascii :=
  match p with
  | PAtom a => print_atom a
  | PTup [] => ["("; ")"]
  | PTup [a] => "(" :: print_atom a ++ [","; ")"]
  | PTup (a :: r) => "(" :: print_atom a ++ print_tail r ++ [")"]
  end.

(* ------------------------------------------------------------------ parser (literal_eval) *)
Definition digit_cons (c : ascii) : option (uint -> uint) :=
  if Ascii.eqb c "0" then Some D0 else if Ascii.eqb c "1" then Some D1
  else if Ascii.eqb c "2" then Some D2 else if Ascii.eqb c "3" then Some D3
  else if Ascii.eqb c "4" then Some D4 else if Ascii.eqb c "5" then Some D5
  else if Ascii.eqb c "6" then Some D6 else if Ascii.eqb c "7" then Some D7
  else if Ascii.eqb c "8" then Some D8 else if Ascii.eqb c "9" then Some D9
  else None.

Definition is_digit (c : ascii) : bool :=
  match digit_cons c with Some _ => true | None => false end.

Fixpoint parse_uint (l : list ascii) : option uint :=
  match l with
  | [] => Some Nil
  | c :: r => match digit_cons c, parse_uint r with
              | Some k, Some u => Some (k u)
              | _, _ => None
              end
  end.

Fixpoint span_digits (l : list ascii) : list ascii * list ascii :=
  match l with
  | c :: r => if is_digit c then let (a, b) := span_digits r in (c :: a, b) else ([], l)
  | [] => ([], [])
  end.

(* characters that repr() prints as themselves inside '...' and that cannot end the literal:
   letters, digits, underscore *)
Definition safe_char (c : ascii) : bool :=
  let n := nat_of_ascii c in
  (Nat.leb 48 n && Nat.leb n 57) || (Nat.leb 65 n && Nat.leb n 90) || (Nat.leb 97 n && Nat.leb n 122) || Nat.eqb n 95.
Definition safe_name (s : name) : bool := forallb safe_char s.

Fixpoint span_safe (l : list ascii) : list ascii * list ascii :=
  match l with
  | c :: r => if safe_char c then let (a, b) := span_safe r in (c :: a, b) else ([], l)
  | [] => ([], [])
  end.

(* Python rejects integer literals with leading zeros ("007"); "0" itself is fine *)
Definition no_leading_zero (u : uint) : bool :=
  match u with D0 Nil => true | D0 _ => false | Nil => false | _ => true end.

Definition parse_nat_lit (l : list ascii) : option (Z * list ascii) :=
  let (ds, rest) := span_digits l in
  match parse_uint ds with
  | Some u => if no_leading_zero u then Some (Z.of_uint u, rest) else None
  | None => None
  end.

Definition parse_atom (l : list ascii) : option (atom * list ascii) :=
  match l with
  | "'" :: r =>
      let (s, rest) := span_safe r in
      match rest with
      | "'" :: rest' => Some (AStr s, rest')
      | _ => None
      end
  | "-" :: r =>
      match parse_nat_lit r with
      | Some (z, rest) => Some (AInt (- z), rest)
      | None => None
      end
  | "T" :: "r" :: "u" :: "e" :: rest => Some (ABoolean true, rest)
  | "F" :: "a" :: "l" :: "s" :: "e" :: rest => Some (ABoolean false, rest)
  | _ =>
      match parse_nat_lit l with
      | Some (z, rest) => Some (AInt z, rest)
      | None => None
      end
  end.

(* after an element: ")" ends, ",)" ends (trailing comma), ", " continues *)
Fixpoint parse_elems (fuel : nat) (l : list ascii) : option (list atom * list ascii) :=
  match fuel with
  | O => None
  | S k =>
      match l with
      | ")" :: rest => Some ([], rest)
      | "," :: ")" :: rest => Some ([], rest)
      | "," :: " " :: r =>
          match parse_atom r with
          | Some (a, r') =>
              match parse_elems k r' with
              | Some (es, rest) => Some (a :: es, rest)
              | None => None
              end
          | None => None
          end
      | _ => None
      end
  end.

Definition is_close (l : list ascii) : bool :=
  match l with
  | [c] => Ascii.eqb c ")"
  | _ => false
  end.

Definition atom_only (l : list ascii) : option plit :=
  match parse_atom l with
  | Some (a, []) => Some (PAtom a)
  | _ => None
  end.

(* after an opening parenthesis *)
Definition parse_paren (r : list ascii) : option plit :=
  if is_close r then Some (PTup [])
  else
    match parse_atom r with
    | Some (a, r') =>
        if is_close r' then Some (PAtom a)          (* "(5)" is 5, not a tuple *)
        else match parse_elems (S (length r')) r' with
             | Some (es, []) => Some (PTup (a :: es))
             | _ => None
             end
    | None => None
    end.

Definition parse_plit (l : list ascii) : option plit :=
  match l with
  | c :: r => if Ascii.eqb c "(" then parse_paren r else atom_only l
  | [] => None
  end.

(* ------------------------------------------------------------------ the fragment *)
Definition safe_atom (a : atom) : bool :=
  match a with AStr s => safe_name s | _ => true end.
Definition safe_plit (p : plit) : bool :=
  match p with PAtom a => safe_atom a | PTup l => forallb safe_atom l end.

Definition atom_of_pelem (e : pelem) : atom :=
  match e with EName n => AStr n | EInt z => AInt z end.

(* plain-data values of the integer adapters as literals *)
Definition lit_of_value (v : value) : option plit :=
  match v with
  | VInt z => Some (PAtom (AInt z))
  | VName n => Some (PAtom (AStr n))
  | VBool b => Some (PAtom (ABoolean b))
  | VTuple l => Some (PTup (map atom_of_pelem l))
  | _ => None
  end.

Definition value_of_lit (p : plit) : value :=
  match p with
  | PAtom (AInt z) => VInt z
  | PAtom (AStr s) => VName s
  | PAtom (ABoolean b) => VBool b
  | PTup l => VTuple (map (fun a => match a with
                                    | AStr s => EName s
                                    | AInt z => EInt z
                                    | ABoolean b => EInt (if b then 1 else 0)
                                    end) l)
  end.

(* all member names of a class are identifier-like *)
Definition cls_names_safe (c : cls) : bool :=
  forallb (fun e => safe_name (fst e)) (c_iter c) && forallb (fun e => safe_name (fst e)) (c_names c).

(* ================================================================== proofs *)

Lemma digit_cons_print u : forall k c r,
  print_uint (k u) = c :: r -> In k [D0; D1; D2; D3; D4; D5; D6; D7; D8; D9] ->
  digit_cons c = Some k /\ r = print_uint u.
Proof.
  intros k c r H Hin. cbn [In] in Hin.
  repeat (destruct Hin as [<-|Hin]; [cbn [print_uint] in H; inversion H; subst; split; reflexivity|]).
  destruct Hin.
Qed.

Lemma parse_print_uint u : parse_uint (print_uint u) = Some u.
Proof.
  induction u; cbn [print_uint parse_uint]; try reflexivity;
    (rewrite IHu; reflexivity).
Qed.

Definition no_digit_head (l : list ascii) : bool :=
  match l with c :: _ => negb (is_digit c) | [] => true end.

Lemma span_digits_cons c l : is_digit c = true ->
  span_digits (c :: l) = (c :: fst (span_digits l), snd (span_digits l)).
Proof. intros H. cbn [span_digits]. rewrite H. now destruct (span_digits l). Qed.

Lemma span_digits_print u rest :
  no_digit_head rest = true -> span_digits (print_uint u ++ rest) = (print_uint u, rest).
Proof.
  intros Hr. induction u;
    try (cbn [print_uint List.app]; rewrite span_digits_cons by reflexivity; rewrite IHu; reflexivity).
  cbn [print_uint List.app].
  destruct rest as [|c r]; [reflexivity|]. cbn [List.app span_digits]. cbn [no_digit_head] in Hr.
  apply negb_true_iff in Hr. now rewrite Hr.
Qed.

Lemma nzhead_not_D0 d : match nzhead d with D0 _ => False | _ => True end.
Proof. induction d; cbn [nzhead]; auto. Qed.

Lemma unorm_no_leading_zero d : no_leading_zero (unorm d) = true.
Proof.
  unfold unorm. pose proof (nzhead_not_D0 d) as H.
  destruct (nzhead d); try reflexivity. destruct H.
Qed.

Lemma to_uint_normal p : Pos.to_uint p = unorm (Pos.to_uint p).
Proof.
  pose proof (DecimalPos.Unsigned.to_of (Pos.to_uint p)) as H.
  rewrite DecimalPos.Unsigned.of_to in H. cbn [N.to_uint] in H. exact H.
Qed.

Lemma to_uint_no_leading_zero p : no_leading_zero (Pos.to_uint p) = true.
Proof. rewrite to_uint_normal. apply unorm_no_leading_zero. Qed.

Lemma parse_nat_lit_pos p rest :
  no_digit_head rest = true ->
  parse_nat_lit (print_uint (Pos.to_uint p) ++ rest) = Some (Z.pos p, rest).
Proof.
  intros Hr. unfold parse_nat_lit. rewrite (span_digits_print _ _ Hr), parse_print_uint.
  rewrite to_uint_no_leading_zero. f_equal. f_equal.
  unfold Z.of_uint. now rewrite DecimalPos.Unsigned.of_to.
Qed.

Lemma parse_nat_lit_zero rest :
  no_digit_head rest = true -> parse_nat_lit ("0" :: rest) = Some (0%Z, rest).
Proof.
  intros Hr. change ("0" :: rest) with (print_uint (D0 Nil) ++ rest).
  unfold parse_nat_lit. rewrite (span_digits_print _ _ Hr), parse_print_uint. reflexivity.
Qed.

(* the first character of a printed positive number is a digit, hence none of ' - T F *)
Lemma print_uint_head_digit u c r : print_uint u = c :: r -> is_digit c = true.
Proof. destruct u; cbn [print_uint]; intros H; inversion H; reflexivity. Qed.

Lemma digit_not_special c : is_digit c = true ->
  Ascii.eqb c "'" = false /\ Ascii.eqb c "-" = false /\ Ascii.eqb c "T" = false /\ Ascii.eqb c "F" = false.
Proof.
  unfold is_digit, digit_cons. intros H.
  repeat match type of H with
         | context [Ascii.eqb c ?d] =>
             let E := fresh in destruct (Ascii.eqb c d) eqn:E;
             [apply Ascii.eqb_eq in E; subst; repeat split; reflexivity|]
         end.
  discriminate.
Qed.

Lemma parse_atom_digits l c r :
  l = c :: r -> is_digit c = true ->
  parse_atom l = match parse_nat_lit l with Some (z, rest) => Some (AInt z, rest) | None => None end.
Proof.
  intros -> Hd. destruct (digit_not_special c Hd) as [H1 [H2 [H3 H4]]].
  unfold parse_atom.
  destruct c as [b0 b1 b2 b3 b4 b5 b6 b7].
  destruct b0, b1, b2, b3, b4, b5, b6, b7; try reflexivity; try discriminate.
Qed.

Lemma span_safe_name s rest :
  safe_name s = true -> span_safe (s ++ "'" :: rest) = (s, "'" :: rest).
Proof.
  induction s as [|c r IH]; cbn [safe_name forallb List.app span_safe]; intros H; [reflexivity|].
  apply andb_true_iff in H. destruct H as [Hc Hr]. rewrite Hc. fold (safe_name r) in Hr.
  now rewrite (IH Hr).
Qed.

Lemma parse_atom_print a rest :
  safe_atom a = true -> no_digit_head rest = true ->
  parse_atom (print_atom a ++ rest) = Some (a, rest).
Proof.
  intros Hs Hr. destruct a as [z|s|b].
  - cbn [print_atom]. unfold print_Z. destruct z as [|p|p]; cbn [Z.to_int print_int].
    + change (print_uint zero ++ rest) with ("0" :: rest).
      rewrite (parse_atom_digits _ "0" rest eq_refl eq_refl), (parse_nat_lit_zero _ Hr). reflexivity.
    + destruct (print_uint (Pos.to_uint p)) as [|c r] eqn:E.
      * exfalso. apply (DecimalPos.Unsigned.to_uint_nonnil p). destruct (Pos.to_uint p); try discriminate. reflexivity.
      * rewrite (parse_atom_digits ((c :: r) ++ rest) c (r ++ rest) eq_refl (print_uint_head_digit _ _ _ E)).
        rewrite <- E, (parse_nat_lit_pos _ _ Hr). reflexivity.
    + cbn [List.app parse_atom]. rewrite (parse_nat_lit_pos _ _ Hr). reflexivity.
  - cbn [print_atom safe_atom] in *. cbn [List.app parse_atom].
    rewrite <- List.app_assoc. cbn [List.app]. rewrite (span_safe_name _ _ Hs). reflexivity.
  - destruct b; reflexivity.
Qed.

Lemma parse_elems_print : forall es rest fuel,
  forallb safe_atom es = true -> (length es < fuel)%nat ->
  parse_elems fuel (print_tail es ++ ")" :: rest) = Some (es, rest).
Proof.
  induction es as [|a r IH]; intros rest fuel Hs Hf.
  - destruct fuel; [inversion Hf|]. reflexivity.
  - destruct fuel; [inversion Hf|]. cbn [forallb] in Hs. apply andb_true_iff in Hs. destruct Hs as [Ha Hr].
    unfold print_tail. cbn [map concat]. fold (print_tail r).
    cbn [List.app parse_elems]. rewrite <- List.app_assoc.
    rewrite (parse_atom_print a _ Ha).
    + rewrite (IH rest fuel Hr ltac:(cbn [length] in Hf; lia)). reflexivity.
    + destruct r; reflexivity.
Qed.

Lemma length_print_tail_ge es : (length es <= length (print_tail es))%nat.
Proof.
  induction es as [|a r IH]; [cbn; lia|].
  unfold print_tail. cbn [map concat length]. fold (print_tail r). rewrite List.app_length. cbn [length]. lia.
Qed.

(* a printed atom never ends the way a parenthesised atom would be confused with a tuple:
   helper to discriminate the remaining input *)
Lemma is_close_length l : is_close l = true -> length l = 1%nat.
Proof. destruct l as [|c [|d r]]; cbn [is_close]; try discriminate. reflexivity. Qed.

Lemma print_atom_nonempty a : print_atom a <> [].
Proof.
  destruct a as [z|s|b]; [|discriminate|destruct b; discriminate].
  unfold print_atom, print_Z. destruct z as [|p|p]; cbn [Z.to_int print_int]; try discriminate.
  intros E. apply (DecimalPos.Unsigned.to_uint_nonnil p). destruct (Pos.to_uint p); try discriminate. reflexivity.
Qed.

Lemma print_atom_head a c r : print_atom a = c :: r -> Ascii.eqb c "(" = false.
Proof.
  intros E. destruct a as [z|s|b].
  - unfold print_atom, print_Z in E. destruct z as [|p|p]; cbn [Z.to_int print_int] in E.
    + inversion E; reflexivity.
    + apply print_uint_head_digit in E. unfold is_digit, digit_cons in E.
      destruct (Ascii.eqb c "(") eqn:E2; [|reflexivity]. apply Ascii.eqb_eq in E2. subst. discriminate.
    + inversion E; reflexivity.
  - cbn [print_atom] in E. inversion E; reflexivity.
  - destruct b; cbn [print_atom] in E; inversion E; reflexivity.
Qed.

Theorem parse_print_plit p : safe_plit p = true -> parse_plit (print_plit p) = Some p.
Proof.
  destruct p as [a|l]; cbn [safe_plit]; intros Hs.
  - (* an atom: its text does not start with "(" *)
    cbn [print_plit]. pose proof (parse_atom_print a [] Hs eq_refl) as H. rewrite List.app_nil_r in H.
    destruct (print_atom a) as [|c r] eqn:E; [exfalso; exact (print_atom_nonempty a E)|].
    unfold parse_plit. rewrite (print_atom_head a c r E). unfold atom_only. rewrite H. reflexivity.
  - destruct l as [|a r]; [reflexivity|].
    cbn [forallb] in Hs. apply andb_true_iff in Hs. destruct Hs as [Ha Hr].
    destruct r as [|b r].
    + (* 1-tuple: "(" a ",)" *)
      cbn [print_plit]. unfold parse_plit. rewrite Ascii.eqb_refl. unfold parse_paren.
      assert (Hp : parse_atom (print_atom a ++ [","; ")"]) = Some (a, [","; ")"]))
        by (apply parse_atom_print; [exact Ha|reflexivity]).
      destruct (is_close (print_atom a ++ [","; ")"])) eqn:Ec.
      * apply is_close_length in Ec. rewrite List.app_length in Ec. cbn [length] in Ec. lia.
      * rewrite Hp. reflexivity.
    + (* two or more elements *)
      cbn [print_plit]. unfold parse_plit. rewrite Ascii.eqb_refl. unfold parse_paren.
      set (tail := print_tail (b :: r) ++ [")"]).
      assert (Hp : parse_atom (print_atom a ++ tail) = Some (a, tail)).
      { apply parse_atom_print; [exact Ha|]. unfold tail, print_tail. reflexivity. }
      assert (Ht : tail = "," :: " " :: print_atom b ++ print_tail r ++ [")"]).
      { unfold tail, print_tail. cbn [map concat]. rewrite <- List.app_assoc. reflexivity. }
      destruct (is_close (print_atom a ++ tail)) eqn:Ec.
      * apply is_close_length in Ec. rewrite List.app_length, Ht in Ec. cbn [length] in Ec. lia.
      * rewrite Hp.
        assert (Ect : is_close tail = false) by (rewrite Ht; reflexivity).
        rewrite Ect.
        pose proof (parse_elems_print (b :: r) [] (S (length tail)) Hr) as He.
        fold tail in He. rewrite He; [reflexivity|].
        unfold tail. rewrite List.app_length. pose proof (length_print_tail_ge (b :: r)). cbn [length] in *. lia.
Qed.

(* values: the plain-data forms of the adapters are in the fragment, and survive print / parse *)
Lemma atom_roundtrip l :
  map (fun a => match a with AStr s => EName s | AInt z => EInt z | ABoolean b => EInt (if b then 1 else 0) end)
      (map atom_of_pelem l) = l.
Proof. induction l as [|e r IH]; [reflexivity|]. cbn [map]. rewrite IH. destruct e; reflexivity. Qed.

Lemma value_of_lit_of_value v p : lit_of_value v = Some p -> value_of_lit p = v.
Proof.
  destruct v; cbn [lit_of_value]; intros H; inversion H; subst; cbn [value_of_lit]; try reflexivity.
  now rewrite atom_roundtrip.
Qed.

Definition safe_value (v : value) : bool :=
  match lit_of_value v with Some p => safe_plit p | None => false end.

Theorem value_literal_roundtrip v p :
  lit_of_value v = Some p -> safe_plit p = true ->
  option_map value_of_lit (parse_plit (print_plit p)) = Some v.
Proof.
  intros Hl Hs. rewrite (parse_print_plit p Hs). cbn [option_map]. f_equal. now apply value_of_lit_of_value.
Qed.

(* the plain-data form of every adapter other than the byte-packing ones is in the fragment,
   and it is safe when the class's member names are identifier-like *)
Definition adapter_names_safe (a : adapter) : bool :=
  match a with AEnum _ c | AFlag c => cls_names_safe c | _ => true end.

Lemma by_value_safe t z n :
  forallb (fun e => safe_name (fst e)) t = true -> by_value t z = Some n -> safe_name n = true.
Proof.
  induction t as [|[m v] r IH]; cbn [forallb by_value fst]; [discriminate|].
  intros H. apply andb_true_iff in H. destruct H as [Hm Hr].
  destruct (v =? z)%Z; [intros X; inversion X; subst; exact Hm|apply IH; exact Hr].
Qed.

Lemma set_names_safe t z :
  forallb (fun e => safe_name (fst e)) t = true ->
  forallb safe_atom (map atom_of_pelem (set_names t z)) = true.
Proof.
  unfold set_names. induction t as [|[m v] r IH]; cbn [forallb filter map fst snd]; [reflexivity|].
  intros H. apply andb_true_iff in H. destruct H as [Hm Hr].
  destruct (negb (Z.land z v =? 0)%Z); cbn [map forallb atom_of_pelem safe_atom fst]; [rewrite Hm|]; now apply IH.
Qed.

Theorem adapter_pod_is_literal a z v :
  adapter_names_safe a = true -> decode a true z = Some v ->
  exists p, lit_of_value v = Some p /\ safe_plit p = true.
Proof.
  intros Hs. destruct a as [strict c|c| | |]; cbn [decode adapter_names_safe] in *.
  - unfold cls_names_safe in Hs. apply andb_true_iff in Hs. destruct Hs as [Hi _].
    destruct (by_value (c_iter c) z) as [n|] eqn:Hb.
    + intros H; inversion H; subst. eexists; split; [reflexivity|]. cbn. exact (by_value_safe _ _ _ Hi Hb).
    + destruct strict; [discriminate|]. intros H; inversion H; subst. eexists; split; reflexivity.
  - unfold cls_names_safe in Hs. apply andb_true_iff in Hs. destruct Hs as [Hi _].
    intros H; inversion H; subst. eexists; split; [reflexivity|].
    cbn [safe_plit]. unfold flags_to_pod. rewrite List.map_app, List.forallb_app.
    rewrite (set_names_safe _ z Hi). cbn [andb].
    destruct (left_over (c_iter c) z =? 0)%Z; reflexivity.
  - intros H; inversion H; subst. eexists; split; reflexivity.
  - intros H; inversion H; subst. eexists; split; reflexivity.
  - intros H; inversion H; subst. eexists; split; reflexivity.
Qed.

(* the serializer level: enum / flag fields, plain and context-switched adapters *)
Definition serializer_names_safe (s : serializer) : bool :=
  match s with
  | SEnumField c | SFlagField c => cls_names_safe c
  | SAdapter a => adapter_names_safe a
  | SContext opts dflt =>
      forallb (fun o => adapter_names_safe (snd o)) opts &&
      match dflt with Some a => adapter_names_safe a | None => true end
  | _ => false          (* bit fields print as dicts: outside this fragment *)
  end.

Lemma choose_safe opts dflt ctx a :
  forallb (fun o => adapter_names_safe (snd o)) opts = true ->
  match dflt with Some a => adapter_names_safe a | None => true end = true ->
  choose opts dflt ctx = Some a -> adapter_names_safe a = true.
Proof.
  induction opts as [|[k b] r IH]; cbn [choose forallb snd]; intros Ho Hd.
  - destruct dflt; [intros H; inversion H; subst; exact Hd|discriminate].
  - apply andb_true_iff in Ho. destruct Ho as [Hb Hr].
    destruct (k =? ctx)%Z; [intros H; inversion H; subst; exact Hb|now apply IH].
Qed.

Theorem pod_literal_roundtrip s ctx z v :
  serializer_names_safe s = true ->
  s_deserialize s ctx true z = Some (SV v) -> v <> VUnser ->
  exists p, lit_of_value v = Some p /\ safe_plit p = true /\
            option_map value_of_lit (parse_plit (print_plit p)) = Some v.
Proof.
  intros Hs Hd Hu.
  assert (Hex : exists p, lit_of_value v = Some p /\ safe_plit p = true).
  { destruct s as [c|c|a|opts dflt|shift fs|]; cbn [serializer_names_safe s_deserialize] in *; try discriminate.
    - destruct (decode (AEnum false c) true z) as [w|] eqn:E; [|discriminate].
      destruct (adapter_pod_is_literal (AEnum false c) z w Hs E) as [p [Hp Hsp]].
      destruct w; inversion Hd; subst; try (eexists; split; eassumption).
      contradiction.
    - destruct (decode (AFlag c) true z) as [w|] eqn:E; [|discriminate].
      inversion Hd; subst. exact (adapter_pod_is_literal (AFlag c) z v Hs E).
    - destruct (decode a true z) as [w|] eqn:E; [|discriminate].
      inversion Hd; subst. exact (adapter_pod_is_literal a z v Hs E).
    - apply andb_true_iff in Hs. destruct Hs as [Ho Hdf].
      destruct (choose opts dflt ctx) as [a|] eqn:Ec; [|discriminate].
      destruct (decode a true z) as [w|] eqn:E; [|discriminate].
      inversion Hd; subst. exact (adapter_pod_is_literal a z v (choose_safe _ _ _ _ Ho Hdf Ec) E). }
  destruct Hex as [p [Hp Hsp]]. exists p. repeat split; try assumption.
  now apply value_literal_roundtrip.
Qed.
