(* C14 - executable model of the tracked scene graph of
   hippolyzer/lib/client/object_manager.py (ClientWorldObjectManager,
   ClientObjectManager, RegionObjectsState), as driven by the proxy subclass
   hippolyzer/lib/proxy/object_manager.py with ALLOW_AUTO_REQUEST_OBJECTS off.

   Definitions only; lemmas are in SceneGraphProofs.v.

   Conventions: a Python object is identified by its (immutable) FullID and
   lives in [w_full]; every other structure refers to it by FullID.  dicts are
   association lists keyed by N (insertion order is not observable: the
   harness sorts).  A Python exception (assert, KeyError, AttributeError on
   None) is [None].  One event = one message with one ObjectData block. *)
From Coq Require Import NArith List Bool.
Import ListNotations.
Open Scope N_scope.

(* ---------- association lists ---------- *)
Fixpoint aget {A} (k : N) (m : list (N * A)) : option A :=
  match m with
  | [] => None
  | (k', v) :: t => if k =? k' then Some v else aget k t
  end.

Fixpoint adel {A} (k : N) (m : list (N * A)) : list (N * A) :=
  match m with
  | [] => []
  | (k', v) :: t => if k =? k' then adel k t else (k', v) :: adel k t
  end.

Definition aset {A} (k : N) (v : A) (m : list (N * A)) : list (N * A) := (k, v) :: adel k m.

Definition mem (x : N) (l : list N) : bool := existsb (N.eqb x) l.

(* list.remove(x): first occurrence *)
Fixpoint remove1 (x : N) (l : list N) : list N :=
  match l with
  | [] => []
  | y :: t => if x =? y then t else y :: remove1 x t
  end.

(* del ChildIDs[idx]; del Children[idx]  with idx = ChildIDs.index(x) *)
Fixpoint remove1k {A} (x : N) (l : list (N * A)) : list (N * A) :=
  match l with
  | [] => []
  | (y, v) :: t => if x =? y then t else (y, v) :: remove1k x t
  end.

(* set.add / set -= {x} on a duplicate-free list *)
Definition sadd (x : N) (s : list N) : list N := if mem x s then s else x :: s.
Definition sdel (x : N) (s : list N) : list N := filter (fun y => negb (x =? y)) s.

(* ---------- state ---------- *)
Record obj := mkObj {
  o_lid : N;            (* LocalID *)
  o_full : N;           (* FullID *)
  o_parent : N;         (* ParentID, 0 = none *)
  o_region : N;         (* RegionHandle *)
  o_av : bool;          (* PCode == AVATAR *)
  o_crc : N;
  o_flags : N;          (* UpdateFlags *)
  o_pos : N;            (* Position.X, stands for the terse-updatable fields *)
  o_name : N;           (* Name (0 = None), stands for the ObjectProperties fields *)
  o_vel : bool;         (* Velocity is not None (absent from compressed updates) *)
  o_children : list (N * N);   (* ChildIDs zipped with the FullIDs of Children *)
  o_plink : option N    (* Parent (weakref proxy) as the parent's FullID *)
}.

Record rstate := mkRs {
  r_tracked : bool;                 (* handle in world._region_managers *)
  r_local : list (N * N);           (* localid_lookup : LocalID -> object (FullID) *)
  r_orphans : list (N * list N);    (* _orphans : parent LocalID -> child LocalIDs *)
  r_missing : list N                (* missing_locals *)
}.

Inductive fstate := Pending | Cancelled | Resolved (f : N).
(* kind: true = ObjectUpdateType.UPDATE, false = PROPERTIES *)
Record fut := mkFut { f_region : N; f_lid : N; f_kind : bool; f_state : fstate }.

Record world := mkW {
  w_full : list (N * obj);          (* _fullid_lookup *)
  w_regions : list (N * rstate);    (* the session's registered regions, by handle *)
  w_futs : list fut                 (* every future ever registered, creation order *)
}.

Definition empty_rs : rstate := mkRs false [] [] [].
(* two registered regions (handles 1 and 2), none tracked yet *)
Definition init : world := mkW [] [(1, empty_rs); (2, empty_rs)] [].

Definition bind {A B} (x : option A) (f : A -> option B) : option B :=
  match x with Some a => f a | None => None end.
Notation "x <- e ;; k" := (bind e (fun x => k)) (at level 61, e at next level, right associativity).

Definition get_obj (w : world) (f : N) : option obj := aget f (w_full w).
Definition set_obj (w : world) (o : obj) : world :=
  mkW (aset (o_full o) o (w_full w)) (w_regions w) (w_futs w).
Definition del_obj (w : world) (f : N) : world := mkW (adel f (w_full w)) (w_regions w) (w_futs w).
Definition get_rs (w : world) (r : N) : option rstate := aget r (w_regions w).
Definition set_rs (w : world) (r : N) (rs : rstate) : world :=
  mkW (w_full w) (aset r rs (w_regions w)) (w_futs w).
Definition set_futs (w : world) (fs : list fut) : world := mkW (w_full w) (w_regions w) fs.

(* ClientWorldObjectManager._get_region_state *)
Definition region_state (w : world) (r : N) : option rstate :=
  match get_rs w r with
  | Some rs => if r_tracked rs then Some rs else None
  | None => None
  end.

(* RegionObjectsState.lookup_localid *)
Definition lookup_local (w : world) (r l : N) : option obj :=
  match get_rs w r with
  | Some rs => match aget l (r_local rs) with Some f => get_obj w f | None => None end
  | None => None
  end.

Definition with_children (o : obj) (c : list (N * N)) : obj :=
  mkObj (o_lid o) (o_full o) (o_parent o) (o_region o) (o_av o) (o_crc o) (o_flags o) (o_pos o) (o_name o) (o_vel o) c (o_plink o).
Definition with_plink (o : obj) (p : option N) : obj :=
  mkObj (o_lid o) (o_full o) (o_parent o) (o_region o) (o_av o) (o_crc o) (o_flags o) (o_pos o) (o_name o) (o_vel o) (o_children o) p.
Definition with_lid (o : obj) (l : N) : obj :=
  mkObj l (o_full o) (o_parent o) (o_region o) (o_av o) (o_crc o) (o_flags o) (o_pos o) (o_name o) (o_vel o) (o_children o) (o_plink o).

Definition with_local (rs : rstate) (m : list (N * N)) := mkRs (r_tracked rs) m (r_orphans rs) (r_missing rs).
Definition with_orphans (rs : rstate) (m : list (N * list N)) := mkRs (r_tracked rs) (r_local rs) m (r_missing rs).
Definition with_missing (rs : rstate) (m : list N) := mkRs (r_tracked rs) (r_local rs) (r_orphans rs) m.
Definition with_tracked (rs : rstate) (b : bool) := mkRs b (r_local rs) (r_orphans rs) (r_missing rs).

(* ---------- futures ---------- *)
Definition is_pending (s : fstate) : bool := match s with Pending => true | _ => false end.

(* RegionObjectsState.cancel_futures(local_id) *)
Definition cancel_futures (w : world) (r l : N) : world :=
  set_futs w (map (fun x => if (f_region x =? r) && (f_lid x =? l) && is_pending (f_state x)
                            then mkFut (f_region x) (f_lid x) (f_kind x) Cancelled else x) (w_futs w)).
(* RegionObjectsState.resolve_futures(obj, update_type) *)
Definition resolve_futures (w : world) (r l : N) (k : bool) (f : N) : world :=
  set_futs w (map (fun x => if (f_region x =? r) && (f_lid x =? l) && Bool.eqb (f_kind x) k && is_pending (f_state x)
                            then mkFut (f_region x) (f_lid x) (f_kind x) (Resolved f) else x) (w_futs w)).
(* RegionObjectsState.register_future *)
Definition register_future (w : world) (r l : N) (k : bool) : world :=
  set_futs w (w_futs w ++ [mkFut r l k Pending]).
(* the cancel loop of RegionObjectsState.clear *)
Definition cancel_region_futures (w : world) (r : N) : world :=
  set_futs w (map (fun x => if (f_region x =? r) && is_pending (f_state x)
                            then mkFut (f_region x) (f_lid x) (f_kind x) Cancelled else x) (w_futs w)).

(* ---------- RegionObjectsState: orphans ---------- *)
(* _track_orphan(local_id, parent_id): self._orphans[parent_id].append(local_id) *)
Definition track_orphan (rs : rstate) (l p : N) : rstate :=
  with_orphans rs (aset p (match aget p (r_orphans rs) with Some ls => ls ++ [l] | None => [l] end) (r_orphans rs)).

(* _untrack_orphan(obj, parent_id) *)
Definition untrack_orphan (rs : rstate) (l p : N) : rstate :=
  match aget p (r_orphans rs) with
  | None => rs
  | Some ls =>
    let ls' := if mem l ls then remove1 l ls else ls in
    match ls' with
    | [] => with_orphans rs (adel p (r_orphans rs))
    | _ => with_orphans rs (aset p ls' (r_orphans rs))
    end
  end.

(* collect_orphans(parent_localid): self._orphans.pop(parent_localid, []) *)
Definition collect_orphans (rs : rstate) (p : N) : list N * rstate :=
  match aget p (r_orphans rs) with
  | None => ([], rs)
  | Some ls => (ls, with_orphans rs (adel p (r_orphans rs)))
  end.

(* ---------- RegionObjectsState: parent links ---------- *)
(* _parent_object(obj, insert_at_head) for the object with FullID f, in region r *)
Definition parent_object (w : world) (r f : N) (at_head : bool) : option world :=
  o <- get_obj w f ;;
  rs <- get_rs w r ;;
  if o_parent o =? 0 then Some w else
  match aget (o_parent o) (r_local rs) with
  | Some pf =>
    po <- get_obj w pf ;;
    if mem (o_lid o) (map fst (o_children po)) then None   (* assert obj.LocalID not in parent.ChildIDs *)
    else
      let ch := if at_head then (o_lid o, f) :: o_children po else o_children po ++ [(o_lid o, f)] in
      let w1 := set_obj w (with_children po ch) in
      o1 <- get_obj w1 f ;;      (* the same Python object (it may be its own parent) *)
      Some (set_obj w1 (with_plink o1 (Some pf)))
  | None =>
    let rs1 := with_missing rs (sadd (o_parent o) (r_missing rs)) in
    let rs2 := track_orphan rs1 (o_lid o) (o_parent o) in
    Some (set_obj (set_rs w r rs2) (with_plink o None))
  end.

(* _unparent_object(obj, old_parent_id) *)
Definition unparent_object (w : world) (r f old_parent : N) : option world :=
  o <- get_obj w f ;;
  rs <- get_rs w r ;;
  let w1 := set_obj w (with_plink o None) in
  if old_parent =? 0 then Some w1 else
  let w2 := set_rs w1 r (untrack_orphan rs (o_lid o) old_parent) in
  match aget old_parent (r_local rs) with
  | Some pf =>
    match get_obj w2 pf with
    | Some po =>
      if mem (o_lid o) (map fst (o_children po))
      then Some (set_obj w2 (with_children po (remove1k (o_lid o) (o_children po))))
      else Some w2       (* LOG.warning: old parent didn't correctly adopt *)
    | None => None       (* dangling index entry: cannot happen, see wf_local_full *)
    end
  | None => Some w2
  end.

(* handle_object_reparented(obj, old_parent_id) *)
Definition handle_object_reparented (w : world) (r f old_parent : N) : option world :=
  w1 <- unparent_object w r f old_parent ;;
  o <- get_obj w1 f ;;
  parent_object w1 r f (negb (o_av o)).

(* the adoption loop of track_object *)
Fixpoint adopt (w : world) (r : N) (orph : list N) : option world :=
  match orph with
  | [] => Some w
  | c :: t =>
    rs <- get_rs w r ;;
    match aget c (r_local rs) with
    | None => None                   (* assert child_obj is not None *)
    | Some cf => w1 <- parent_object w r cf false ;; adopt w1 r t
    end
  end.

(* track_object(obj) *)
Definition track_object (w : world) (r f : N) : option world :=
  o <- get_obj w f ;;
  rs <- get_rs w r ;;
  let rs1 := with_missing (with_local rs (aset (o_lid o) f (r_local rs))) (sdel (o_lid o) (r_missing rs)) in
  w2 <- parent_object (set_rs w r rs1) r f false ;;
  rs2 <- get_rs w2 r ;;
  let '(orph, rs3) := collect_orphans rs2 (o_lid o) in
  adopt (set_rs w2 r rs3) r orph.

(* first loop of untrack_object *)
Fixpoint unparent_children (w : world) (r : N) (ids : list N) : option world :=
  match ids with
  | [] => Some w
  | c :: t =>
    rs <- get_rs w r ;;
    match aget c (r_local rs) with
    | None => None                   (* assert child_obj is not None *)
    | Some cf =>
      co <- get_obj w cf ;;
      w1 <- unparent_object w r cf (o_parent co) ;;
      unparent_children w1 r t
    end
  end.

Fixpoint orphan_children (rs : rstate) (ids : list N) (p : N) : rstate :=
  match ids with
  | [] => rs
  | c :: t => orphan_children (track_orphan rs c p) t p
  end.

(* untrack_object(obj) *)
Definition untrack_object (w : world) (r f : N) : option world :=
  o <- get_obj w f ;;
  let former := map fst (o_children o) in
  w1 <- unparent_children w r former ;;
  rs1 <- get_rs w1 r ;;
  let w2 := set_rs w1 r (orphan_children rs1 former (o_lid o)) in
  o2 <- get_obj w2 f ;;
  match o_children o2 with
  | _ :: _ => None                   (* assert not obj.ChildIDs *)
  | [] =>
    w3 <- unparent_object w2 r f (o_parent o2) ;;
    let w4 := cancel_futures w3 r (o_lid o2) in
    rs4 <- get_rs w4 r ;;
    match aget (o_lid o2) (r_local rs4) with
    | None => None                   (* del self.localid_lookup[obj.LocalID] -> KeyError *)
    | Some _ => Some (set_rs w4 r (with_local rs4 (adel (o_lid o2) (r_local rs4))))
    end
  end.

(* ---------- ClientWorldObjectManager ---------- *)
(* new property values carried by a message; None = key absent from the dict *)
Record props := mkProps {
  p_lid : option N; p_parent : option N; p_region : option N; p_av : option bool;
  p_crc : option N; p_flags : option N; p_pos : option N; p_name : option N; p_vel : option bool;
  p_lazy : bool      (* the dict carries a lazily parsed value (TextureEntry...): always counts as updated *)
}.

Definition dflt {A} (x : option A) (d : A) : A := match x with Some a => a | None => d end.
Definition neq_opt (x : option N) (d : N) : bool := match x with Some a => negb (a =? d) | None => false end.

(* Object.update_properties: returns (object, anything changed?) *)
Definition update_properties (o : obj) (p : props) : obj * bool :=
  (mkObj (dflt (p_lid p) (o_lid o)) (o_full o) (dflt (p_parent p) (o_parent o)) (dflt (p_region p) (o_region o))
         (dflt (p_av p) (o_av o)) (dflt (p_crc p) (o_crc o)) (dflt (p_flags p) (o_flags o)) (dflt (p_pos p) (o_pos o))
         (dflt (p_name p) (o_name o)) (dflt (p_vel p) (o_vel o)) (o_children o) (o_plink o),
   p_lazy p || neq_opt (p_lid p) (o_lid o) || neq_opt (p_parent p) (o_parent o) || neq_opt (p_region p) (o_region o)
   || match p_av p with Some b => negb (Bool.eqb b (o_av o)) | None => false end
   || neq_opt (p_crc p) (o_crc o) || neq_opt (p_flags p) (o_flags o) || neq_opt (p_pos p) (o_pos o)
   || neq_opt (p_name p) (o_name o)
   || match p_vel p with Some b => negb (Bool.eqb b (o_vel o)) | None => false end).

Definition is_some {A} (x : option A) : bool := match x with Some _ => true | None => false end.

(* _update_existing_object(obj, new_properties, update_type, msg) *)
Definition update_existing (w : world) (f : N) (p : props) (kind : bool) : option world :=
  o <- get_obj w f ;;
  let old_parent := o_parent o in
  let new_parent := dflt (p_parent p) (o_parent o) in
  let old_lid := o_lid o in
  let new_lid := dflt (p_lid p) (o_lid o) in
  let old_region := o_region o in
  let new_region := dflt (p_region p) (o_region o) in
  let old_rs := region_state w old_region in
  let new_rs := region_state w new_region in
  (* first block *)
  st1 <- (if negb (old_region =? new_region) then
            match old_rs with
            | Some _ => w1 <- untrack_object w old_region f ;; Some (w1, false)
            | None => Some (w, false)
            end
          else if negb (old_lid =? new_lid) && is_some old_rs then
            (* elif old_local_id != new_local_id and old_region_state is not None *)
            w1 <- untrack_object w old_region f ;;
            o1 <- get_obj w1 f ;;
            w2 <- track_object (set_obj w1 (with_lid o1 new_lid)) old_region f ;;
            Some (w2, true)
          else Some (w, false)) ;;
  let '(w1, ch0) := st1 in
  o1 <- get_obj w1 f ;;
  let '(o2, ch1) := update_properties o1 p in
  let w2 := set_obj w1 o2 in
  let changed := ch0 || ch1 in
  (* second block *)
  w3 <- (if negb (new_region =? old_region) then
           match new_rs with
           | Some _ => track_object w2 new_region f
           | None => Some w2           (* regionless object stays in the global lookup *)
           end
         else if negb (new_parent =? old_parent) && is_some new_rs then
           (* elif new_parent_id != old_parent_id and new_region_state is not None *)
           handle_object_reparented w2 new_region f old_parent
         else Some w2) ;;
  (* hooks *)
  if changed && is_some new_rs then
    o3 <- get_obj w3 f ;;
    match region_state w3 (o_region o3) with
    | Some _ => Some (resolve_futures w3 (o_region o3) (o_lid o3) kind f)
    | None => Some w3
    end
  else Some w3.

(* _track_new_object(region, new Object, msg) *)
Definition track_new (w : world) (r : N) (o : obj) : option world :=
  w1 <- track_object (set_obj w o) r (o_full o) ;;
  o1 <- get_obj w1 (o_full o) ;;
  match region_state w1 (o_region o1) with
  | Some _ => Some (resolve_futures w1 (o_region o1) (o_lid o1) true (o_full o))
  | None => Some w1
  end.

(* the cascade loop of _kill_object_by_local_id: for child_id in reversed(child_ids) (ids is already reversed);
   killf is the recursive call *)
Fixpoint kill_children (killf : world -> N -> option world) (r : N) (ids : list N) (w : world) : option world :=
  match ids with
  | [] => Some w
  | c :: t =>
    match lookup_local w r c with
    | Some co => if o_av co then kill_children killf r t w        (* avatars are not killed by the cascade *)
                 else (w1 <- killf w c ;; kill_children killf r t w1)
    | None => w1 <- killf w c ;; kill_children killf r t w1
    end
  end.

(* for child_id in child_ids: if child is an avatar: region_state._track_orphan(child_id, local_id) *)
Fixpoint retrack_avatars (w : world) (r l : N) (ids : list N) (rs : rstate) : rstate :=
  match ids with
  | [] => rs
  | c :: t =>
    match lookup_local w r c with
    | Some co => if o_av co then retrack_avatars w r l t (track_orphan rs c l) else retrack_avatars w r l t rs
    | None => retrack_avatars w r l t rs
    end
  end.

(* _kill_object_by_local_id(region_state, local_id); fuel bounds the recursion depth *)
Fixpoint kill (fuel : nat) (w : world) (r l : N) {struct fuel} : option world :=
  match fuel with
  | O => None
  | S n =>
    rs <- get_rs w r ;;
    let w1 := set_rs w r (with_missing rs (sdel l (r_missing rs))) in
    match lookup_local w1 r l with
    | Some o =>
      w2 <- kill_children (fun w c => kill n w r c) r (rev (map fst (o_children o))) w1 ;;
      w3 <- untrack_object w2 r (o_full o) ;;
      Some (del_obj w3 (o_full o))
    | None =>
      let w2 := cancel_futures w1 r l in
      rs2 <- get_rs w2 r ;;
      let '(ch, rs3) := collect_orphans rs2 l in
      (* avatars are skipped by the cascade below: they stay in the orphanage of l *)
      kill_children (fun w c => kill n w r c) r (rev ch) (set_rs w2 r (retrack_avatars w2 r l ch rs3))
    end
  end.

Definition kill_fuel (w : world) : nat := S (length (w_full w)).

(* ---------- events ---------- *)
Inductive event :=
| EFull (compressed : bool) (r l f p : N) (av : bool) (v : N)   (* ObjectUpdate / ObjectUpdateCompressed *)
| ETerse (r l v : N)
| ECached (r l crc v : N)
| EProps (f v : N)
| EKill (r l : N)
| EClear (r : N)
| ETrack (r : N)
| EReqObj (r l : N)
| EReqProps (r l : N)
| EReqMissing (r : N).

(* ObjectUpdate carries Velocity, ObjectUpdateCompressed does not *)
Definition full_props (compressed : bool) (r l p : N) (av : bool) (v : N) : props :=
  mkProps (Some l) (Some p) (Some r) (Some av) (Some v) (Some v) (Some v) None
          (if compressed then None else Some true) true.

Fixpoint register_all (w : world) (r : N) (ls : list N) : world :=
  match ls with [] => w | l :: t => register_all (register_future w r l true) r t end.

(* untrack_region_objects: for obj in tuple(values): if obj.RegionHandle == handle: del lookup[obj.FullID]
   (the snapshot is walked by key; the value is the one currently stored under it) *)
Fixpoint untrack_region (ks : list N) (m : list (N * obj)) (r : N) : list (N * obj) :=
  match ks with
  | [] => m
  | k :: t =>
    match aget k m with
    | Some o => if o_region o =? r then untrack_region t (adel (o_full o) m) r else untrack_region t m r
    | None => untrack_region t m r
    end
  end.

Definition step (w : world) (e : event) : option world :=
  match e with
  | EFull cmp r l f p av v =>
    match get_obj w f with
    | Some _ => update_existing w f (full_props cmp r l p av v) true
    | None =>
      match region_state w r with
      | None => Some w
      | Some _ => track_new w r (mkObj l f p r av v v v 0 (negb cmp) [] None)
      end
    end
  | ETerse r l v =>
    match region_state w r with
    | None => Some w
    | Some rs =>
      match lookup_local w r l with
      | Some o => update_existing w (o_full o) (mkProps (Some l) None (Some r) None None None (Some v) None (Some true) false) true
      | None => Some (set_rs w r (with_missing rs (sadd l (r_missing rs))))
      end
    end
  | ECached r l crc v =>
    match region_state w r with
    | None => Some w
    | Some rs =>
      match lookup_local w r l with
      | Some o =>
        if o_crc o =? crc
        then update_existing w (o_full o) (mkProps None None (Some r) None None (Some v) None None None false) true
        else Some (set_rs w r (with_missing rs (sadd l (r_missing rs))))
      | None => Some (set_rs w r (with_missing rs (sadd l (r_missing rs))))
      end
    end
  | EProps f v =>
    match get_obj w f with
    | Some _ => update_existing w f (mkProps None None None None None None None (Some v) None false) false
    | None => Some w
    end
  | EKill r l =>
    match get_rs w r with
    | None => None                    (* no region for the sender: AttributeError *)
    | Some _ => kill (kill_fuel w) w r l
    end
  | EClear r =>
    rs <- get_rs w r ;;
    let w1 := cancel_region_futures w r in
    let w2 := set_rs w1 r empty_rs in
    Some (mkW (untrack_region (map fst (w_full w2)) (w_full w2) r) (w_regions w2) (w_futs w2))
  | ETrack r =>
    rs <- get_rs w r ;;               (* region_by_handle(handle) is None: AttributeError *)
    Some (set_rs w r (with_tracked rs true))
  | EReqObj r l =>
    _ <- get_rs w r ;; Some (register_future w r l true)
  | EReqProps r l =>
    _ <- get_rs w r ;; Some (register_future w r l false)
  | EReqMissing r =>
    rs <- get_rs w r ;; Some (register_all w r (r_missing rs))
  end.

Fixpoint run (w : world) (h : list event) : option world :=
  match h with
  | [] => Some w
  | e :: t => match step w e with Some w1 => run w1 t | None => None end
  end.
