(* C14 - the children / orphan clauses of the invariant (Tree) for the scene-graph model.

   Tree w: (C1/C2) c in children(p) <-> c tracked, bookkept parent of c = lid p <> 0, same region, p tracked;
           (C3) children duplicate-free; (O1/O2) c in orphans[p] <-> c tracked, parent of c = p <> 0, p untracked
           in that region; (O3) orphan lists duplicate-free; (P) the Parent reference of an object names exactly
           the object whose children list holds it (None when it is in no list).

   The handlers pass through states where one object is detached or still bookkept under its old parent, and
   where one local id is (un)indexed before its orphan list is fixed up.  TreeG generalises Tree by
     O : full id -> option (option N)   overrides of the parent an object is currently bookkept under
                                        (Some None = detached, Some (Some q) = still under q),
     K : option (region * lid)          one local id whose children are held as orphans whether or not it
                                        is indexed.
   Tree w = TreeG w (fun _ => None) None. *)
From Coq Require Import NArith List Bool Lia.
From HV Require Import Obj.SceneGraph Obj.SceneGraphProofs.
Import ListNotations.
Open Scope N_scope.

Definition ovr := N -> option (option N).
Definition no_ovr : ovr := fun _ => None.
Definition oset (O : ovr) (f : N) (x : option N) : ovr := fun g => if g =? f then Some x else O g.

Definition epar (O : ovr) (co : obj) : option N :=
  match O (o_full co) with Some x => x | None => Some (o_parent co) end.
(* co is bookkept as a child of local id p *)
Definition bk (O : ovr) (co : obj) (p : N) : Prop := epar O co = Some p /\ p <> 0.

(* keys and validity of index entries (implied by Idx and by IdxX) *)
Definition Base (w : world) : Prop :=
  keys_ok w /\
  (forall r rs l f, get_rs w r = Some rs -> aget l (r_local rs) = Some f ->
     exists o, get_obj w f = Some o /\ o_lid o = l /\ o_region o = r).

Definition kne (K : option (N * N)) (r p : N) : Prop := K <> Some (r, p).

Record TreeG (w : world) (O : ovr) (K : option (N * N)) : Prop := mkTree {
  tC1 : forall pf po c cf, get_obj w pf = Some po -> In (c, cf) (o_children po) ->
        exists co rs, get_obj w cf = Some co /\ o_lid co = c /\ o_region co = o_region po /\ bk O co (o_lid po) /\
                      get_rs w (o_region po) = Some rs /\ aget c (r_local rs) = Some cf /\
                      aget (o_lid po) (r_local rs) = Some pf;
  tC2 : forall r rs c cf co p pf po, get_rs w r = Some rs -> aget c (r_local rs) = Some cf ->
        get_obj w cf = Some co -> bk O co p -> aget p (r_local rs) = Some pf -> get_obj w pf = Some po ->
        kne K r p -> In (c, cf) (o_children po);
  tC3 : forall pf po, get_obj w pf = Some po -> NoDup (map fst (o_children po));
  tO1 : forall r rs p ls c, get_rs w r = Some rs -> aget p (r_orphans rs) = Some ls -> In c ls ->
        p <> 0 /\ (kne K r p -> aget p (r_local rs) = None) /\
        exists cf co, aget c (r_local rs) = Some cf /\ get_obj w cf = Some co /\ bk O co p;
  tO2 : forall r rs c cf co p, get_rs w r = Some rs -> aget c (r_local rs) = Some cf ->
        get_obj w cf = Some co -> bk O co p -> (aget p (r_local rs) = None \/ K = Some (r, p)) ->
        exists ls, aget p (r_orphans rs) = Some ls /\ In c ls;
  tO3 : forall r rs p ls, get_rs w r = Some rs -> aget p (r_orphans rs) = Some ls -> NoDup ls;
  (* the Parent back-link: it names the object whose children list holds this object, and is None otherwise *)
  tP : forall f o pf, get_obj w f = Some o ->
       (o_plink o = Some pf <-> exists po, get_obj w pf = Some po /\ In (o_lid o, f) (o_children po))
}.

Definition Tree (w : world) : Prop := TreeG w no_ovr None.

Lemma Idx_Base : forall w, Idx w -> Base w.
Proof. intros w (K & A & _). split; assumption. Qed.
Lemma IdxX_Base : forall w x, IdxX w x -> Base w.
Proof.
  intros w x (K & A & _). split; [assumption|]. intros r rs l f E1 E2. destruct (A _ _ _ _ E1 E2) as [_ H]. exact H.
Qed.

(* pointwise equal overrides *)
Lemma bk_ext : forall O O' co p, (forall g, O g = O' g) -> bk O co p -> bk O' co p.
Proof. intros O O' co p H [H1 H2]. split; [|exact H2]. unfold epar in *. rewrite <- H. exact H1. Qed.

Lemma TreeG_ext : forall w O O' K, (forall g, O g = O' g) -> TreeG w O K -> TreeG w O' K.
Proof.
  intros w O O' K H T. assert (H' : forall g, O' g = O g) by (intro; symmetry; apply H).
  constructor.
  - intros pf po c cf E I. destruct (tC1 _ _ _ T _ _ _ _ E I) as (co & rs & A1 & A2 & A3 & A4 & A5).
    exists co, rs. repeat split; try tauto. eapply bk_ext; [exact H|tauto]. apply A4.
  - intros. eapply (tC2 _ _ _ T); eauto. eapply bk_ext; eauto.
  - apply (tC3 _ _ _ T).
  - intros r rs p ls c E1 E2 I. destruct (tO1 _ _ _ T _ _ _ _ _ E1 E2 I) as (A1 & A2 & cf & co & A3 & A4 & A5).
    split; [exact A1|]. split; [exact A2|]. exists cf, co. repeat split; auto; eapply bk_ext; eauto; apply A5.
  - intros. eapply (tO2 _ _ _ T); eauto. eapply bk_ext; eauto.
  - apply (tO3 _ _ _ T).
  - apply (tP _ _ _ T).
Qed.

(* ---------- frames that keep every field Tree depends on ---------- *)
Definition tcore (o : obj) : N * N * N * N * list (N * N) := (o_lid o, o_full o, o_region o, o_parent o, o_children o).
Definition tridx (rs : rstate) : list (N * N) * list (N * list N) := (r_local rs, r_orphans rs).

Definition tcoreP (o : obj) := (tcore o, o_plink o).
Definition tframe (w w' : world) : Prop :=
  (forall f, option_map tcoreP (get_obj w' f) = option_map tcoreP (get_obj w f)) /\
  (forall r, option_map tridx (get_rs w' r) = option_map tridx (get_rs w r)).

Lemma tframe_refl : forall w, tframe w w.
Proof. split; reflexivity. Qed.
Lemma tframe_trans : forall a b c, tframe a b -> tframe b c -> tframe a c.
Proof. intros a b c [H1 H2] [H3 H4]. split; intros; [rewrite H3, H1|rewrite H4, H2]; reflexivity. Qed.
Lemma tframe_sym : forall a b, tframe a b -> tframe b a.
Proof. intros a b [H1 H2]. split; intros; [rewrite H1|rewrite H2]; reflexivity. Qed.

Lemma tcore_inj : forall o o', tcore o = tcore o' ->
  o_lid o = o_lid o' /\ o_full o = o_full o' /\ o_region o = o_region o' /\ o_parent o = o_parent o' /\
  o_children o = o_children o'.
Proof. unfold tcore. intros o o' H. inversion H. auto. Qed.
Lemma tridx_inj : forall a b, tridx a = tridx b ->
  True /\ r_local a = r_local b /\ r_orphans a = r_orphans b.
Proof. unfold tridx. intros a b H. inversion H. auto. Qed.

Lemma tframe_objP : forall w w' f o', tframe w w' -> get_obj w' f = Some o' ->
  exists o, get_obj w f = Some o /\ tcore o = tcore o' /\ o_plink o = o_plink o'.
Proof.
  intros w w' f o' [H _] E. specialize (H f). rewrite E in H. simpl in H.
  destruct (get_obj w f) as [o|]; simpl in H; [|discriminate]. exists o. unfold tcoreP in H. inversion H. split; [reflexivity|split; congruence].
Qed.
Lemma tframe_obj : forall w w' f o', tframe w w' -> get_obj w' f = Some o' ->
  exists o, get_obj w f = Some o /\ tcore o = tcore o'.
Proof.
  intros w w' f o' F E. destruct (tframe_objP _ _ _ _ F E) as (o & Eo & C & _). eauto.
Qed.
Lemma tframe_rs : forall w w' r rs', tframe w w' -> get_rs w' r = Some rs' ->
  exists rs, get_rs w r = Some rs /\ tridx rs = tridx rs'.
Proof.
  intros w w' r rs' [_ H] E. specialize (H r). rewrite E in H. simpl in H.
  destruct (get_rs w r) as [rs|]; simpl in H; [|discriminate]. exists rs. split; congruence.
Qed.

Lemma tframe_Base : forall w w', tframe w w' -> Base w -> Base w'.
Proof.
  intros w w' F [K A]. pose proof (tframe_sym _ _ F) as F'. split.
  - intros f o' E. destruct (tframe_obj _ _ _ _ F E) as (o & Eo & C). apply tcore_inj in C.
    destruct C as (_ & C & _). rewrite <- C. eauto.
  - intros r rs' l f E1 E2. destruct (tframe_rs _ _ _ _ F E1) as (rs & Ers & C). apply tridx_inj in C.
    destruct C as (_ & C & _). rewrite <- C in E2. destruct (A _ _ _ _ Ers E2) as (o & Eo & H1 & H2).
    destruct (tframe_obj _ _ _ _ F' Eo) as (o' & Eo' & C'). apply tcore_inj in C'.
    exists o'. intuition congruence.
Qed.

Lemma bk_tcore : forall O o o' p, tcore o = tcore o' -> bk O o p -> bk O o' p.
Proof.
  intros O o o' p C [H1 H2]. apply tcore_inj in C. destruct C as (_ & Cf & _ & Cp & _).
  split; [|exact H2]. unfold epar in *. rewrite <- Cf, <- Cp. exact H1.
Qed.

Lemma tframe_TreeG : forall w w' O K, tframe w w' -> TreeG w O K -> TreeG w' O K.
Proof.
  intros w w' O K F T. pose proof (tframe_sym _ _ F) as F'.
  constructor.
  - intros pf po' c cf E I.
    destruct (tframe_obj _ _ _ _ F E) as (po & Epo & Cpo). pose proof (tcore_inj _ _ Cpo) as (P1 & P2 & P3 & P4 & P5).
    rewrite <- P5 in I. destruct (tC1 _ _ _ T _ _ _ _ Epo I) as (co & rs & A1 & A2 & A3 & A4 & A5 & A6 & A7).
    destruct (tframe_obj _ _ _ _ F' A1) as (co' & Eco' & Cco). pose proof (tcore_inj _ _ Cco) as (Q1 & Q2 & Q3 & Q4 & Q5).
    destruct (tframe_rs _ _ _ _ F' A5) as (rs' & Ers' & Crs). pose proof (tridx_inj _ _ Crs) as (R1 & R2 & R3).
    exists co', rs'. rewrite <- P3, <- P1. repeat split; try congruence.
    + eapply bk_tcore; [symmetry; exact Cco|]. apply A4.
    + apply A4.
  - intros r rs' c cf co' p pf po' E1 E2 E3 B E4 E5 Kn.
    destruct (tframe_rs _ _ _ _ F E1) as (rs & Ers & Crs). pose proof (tridx_inj _ _ Crs) as (R1 & R2 & R3).
    destruct (tframe_obj _ _ _ _ F E3) as (co & Eco & Cco).
    destruct (tframe_obj _ _ _ _ F E5) as (po & Epo & Cpo). pose proof (tcore_inj _ _ Cpo) as (P1 & P2 & P3 & P4 & P5).
    rewrite <- P5. rewrite <- R2 in E2, E4.
    eapply (tC2 _ _ _ T); eauto. eapply bk_tcore; [symmetry; exact Cco|exact B].
  - intros pf po' E. destruct (tframe_obj _ _ _ _ F E) as (po & Epo & Cpo). pose proof (tcore_inj _ _ Cpo) as (P1 & P2 & P3 & P4 & P5).
    rewrite <- P5. eapply (tC3 _ _ _ T); eauto.
  - intros r rs' p ls c E1 E2 I.
    destruct (tframe_rs _ _ _ _ F E1) as (rs & Ers & Crs). pose proof (tridx_inj _ _ Crs) as (R1 & R2 & R3).
    rewrite <- R3 in E2. destruct (tO1 _ _ _ T _ _ _ _ _ Ers E2 I) as (A1 & A2 & cf & co & A3 & A4 & A5).
    destruct (tframe_obj _ _ _ _ F' A4) as (co' & Eco' & Cco).
    split; [exact A1|]. split; [rewrite <- R2; exact A2|]. exists cf, co'. rewrite <- R2.
    repeat split; auto; try (eapply bk_tcore; [symmetry; exact Cco|]); apply A5.
  - intros r rs' c cf co' p E1 E2 E3 B H.
    destruct (tframe_rs _ _ _ _ F E1) as (rs & Ers & Crs). pose proof (tridx_inj _ _ Crs) as (R1 & R2 & R3).
    destruct (tframe_obj _ _ _ _ F E3) as (co & Eco & Cco).
    rewrite <- R3. rewrite <- R2 in E2, H. eapply (tO2 _ _ _ T); eauto. eapply bk_tcore; [symmetry; exact Cco|exact B].
  - intros r rs' p ls E1 E2.
    destruct (tframe_rs _ _ _ _ F E1) as (rs & Ers & Crs). pose proof (tridx_inj _ _ Crs) as (R1 & R2 & R3).
    rewrite <- R3 in E2. eapply (tO3 _ _ _ T); eauto.
  - intros f o' pf E.
    destruct (tframe_objP _ _ _ _ F E) as (o & Eo & Co & Po). pose proof (tcore_inj _ _ Co) as (P1 & P2 & P3 & P4 & P5).
    rewrite <- Po, <- P1. rewrite (tP _ _ _ T f o pf Eo). split.
    + intros (po & Epo & I). destruct (tframe_objP _ _ _ _ F' Epo) as (po' & Epo' & Cpo & _). apply tcore_inj in Cpo.
      exists po'. split; [exact Epo'|]. destruct Cpo as (_ & _ & _ & _ & C5). rewrite C5. exact I.
    + intros (po' & Epo' & I). destruct (tframe_objP _ _ _ _ F Epo') as (po & Epo & Cpo & _). apply tcore_inj in Cpo.
      exists po. split; [exact Epo|]. destruct Cpo as (_ & _ & _ & _ & C5). rewrite C5. exact I.
Qed.

(* elementary tframes *)
Lemma tframe_set_obj : forall w f o o', get_obj w f = Some o -> tcore o' = tcore o -> o_plink o' = o_plink o -> o_full o = f ->
  tframe w (set_obj w o').
Proof.
  intros w f o o' E C P K. pose proof (tcore_inj _ _ C) as (_ & Cf & _).
  split; intros; [|reflexivity].
  rewrite get_obj_set_obj. destruct (f0 =? o_full o') eqn:Q; [|reflexivity].
  apply N.eqb_eq in Q. subst f0. rewrite Cf, K, E. simpl. unfold tcoreP. congruence.
Qed.
Lemma tframe_set_rs : forall w r rs rs', get_rs w r = Some rs -> tridx rs' = tridx rs -> tframe w (set_rs w r rs').
Proof.
  intros w r rs rs' E C. split; intros; [reflexivity|].
  rewrite get_rs_set_rs. destruct (r0 =? r) eqn:Q; [|reflexivity].
  apply N.eqb_eq in Q. subst r0. rewrite E. simpl. congruence.
Qed.
Lemma tframe_set_futs : forall w fs, tframe w (set_futs w fs).
Proof. split; reflexivity. Qed.
Lemma tframe_register_all : forall ls w r, tframe w (register_all w r ls).
Proof.
  induction ls; intros; simpl; [apply tframe_refl|].
  eapply tframe_trans; [apply tframe_set_futs|apply IHls].
Qed.

(* ---------- event kinds that do not restructure the graph ---------- *)
Lemma update_properties_tcore : forall o p o' c, update_properties o p = (o', c) ->
  tcore o' = (dflt (p_lid p) (o_lid o), o_full o, dflt (p_region p) (o_region o), dflt (p_parent p) (o_parent o),
              o_children o).
Proof. intros o p o' c H. unfold update_properties in H. inversion H; subst. reflexivity. Qed.
Lemma update_properties_plink : forall o p o' c, update_properties o p = (o', c) -> o_plink o' = o_plink o.
Proof. intros o p o' c H. unfold update_properties in H. inversion H; subst. reflexivity. Qed.

Lemma update_existing_same_tframe : forall w f p k w' o, keys_ok w -> get_obj w f = Some o ->
  dflt (p_region p) (o_region o) = o_region o -> dflt (p_lid p) (o_lid o) = o_lid o ->
  dflt (p_parent p) (o_parent o) = o_parent o ->
  update_existing w f p k = Some w' -> tframe w w'.
Proof.
  intros w f p k w' o K Eo Hr Hl Hp H. unfold update_existing in H. rewrite Eo in H. cbn [bind] in H.
  rewrite Hr, Hl, Hp in H. rewrite !N.eqb_refl in H. cbn [negb andb bind] in H. rewrite Eo in H. cbn [bind] in H.
  destruct (update_properties o p) as [o2 ch1] eqn:Eu. pose proof (update_properties_tcore _ _ _ _ Eu) as C.
  rewrite Hr, Hl, Hp in C. cbn [bind] in H.
  assert (F : tframe w (set_obj w o2)) by (eapply (tframe_set_obj w f o); [exact Eo|exact C|exact (update_properties_plink _ _ _ _ Eu)|eauto]).
  eapply tframe_trans; [exact F|].
  match type of H with (if ?b then _ else _) = _ => destruct b end.
  - bind_inv H. destruct (region_state (set_obj w o2) (o_region o0)); inversion H; [apply tframe_set_futs|apply tframe_refl].
  - inversion H. apply tframe_refl.
Qed.

Lemma clear_spec : forall w r w', keys_ok w -> step w (EClear r) = Some w' ->
  (forall g, get_obj w' g = match get_obj w g with Some o => if o_region o =? r then None else Some o | None => None end) /\
  (forall r', get_rs w' r' = if r' =? r then Some empty_rs else get_rs w r').
Proof.
  intros w r w' K H. cbn [step] in H. bind_inv H. inversion H; subst w'; clear H.
  cbn [set_rs cancel_region_futures set_futs w_full w_regions w_futs]. split.
  - intros g. unfold get_obj at 1. cbn [w_full]. rewrite untrack_region_get by exact K.
    unfold get_obj. destruct (aget g (w_full w)) eqn:Eg; [|reflexivity].
    rewrite (aget_mem_keys _ _ _ _ Eg). reflexivity.
  - intros r'. unfold get_rs. cbn [w_regions]. apply aget_aset.
Qed.

Lemma clear_Tree : forall w r w', Idx w -> Tree w -> step w (EClear r) = Some w' -> Tree w'.
Proof.
  intros w r w' I T H. pose proof I as (K & A & B). destruct (clear_spec _ _ _ K H) as [G R].
  assert (GS : forall g o, get_obj w' g = Some o -> get_obj w g = Some o /\ (o_region o =? r) = false).
  { intros g o E. rewrite G in E. destruct (get_obj w g) as [o0|]; [|discriminate].
    destruct (o_region o0 =? r) eqn:Q; inversion E; subst; auto. }
  assert (RS : forall r' rs, get_rs w' r' = Some rs -> (r' =? r) = false -> get_rs w r' = Some rs).
  { intros r' rs E Q. rewrite R, Q in E. exact E. }
  assert (RE : forall r' rs, get_rs w' r' = Some rs -> (r' =? r) = true -> rs = empty_rs).
  { intros r' rs E Q. rewrite R, Q in E. congruence. }
  assert (GK : forall g o, get_obj w g = Some o -> (o_region o =? r) = false -> get_obj w' g = Some o).
  { intros g o E Q. rewrite G, E, Q. reflexivity. }
  constructor.
  - intros pf po c cf E I0. destruct (GS _ _ E) as [E0 Q].
    destruct (tC1 _ _ _ T _ _ _ _ E0 I0) as (co & rs & A1 & A2 & A3 & A4 & A5 & A6 & A7).
    exists co, rs. repeat split; try tauto; try apply A4.
    + apply GK; [exact A1|congruence].
    + rewrite R, Q. exact A5.
  - intros r' rs c cf co p pf po E1 E2 E3 Bk E4 E5 Kn. destruct (r' =? r) eqn:Q.
    + rewrite (RE _ _ E1 Q) in E2. discriminate.
    + destruct (GS _ _ E3) as [E3' _]. destruct (GS _ _ E5) as [E5' _].
      eapply (tC2 _ _ _ T); eauto.
  - intros pf po E. destruct (GS _ _ E) as [E0 _]. eapply (tC3 _ _ _ T); eauto.
  - intros r' rs p ls c E1 E2 I0. destruct (r' =? r) eqn:Q.
    + rewrite (RE _ _ E1 Q) in E2. discriminate.
    + pose proof (RS _ _ E1 Q) as E1'.
      destruct (tO1 _ _ _ T _ _ _ _ _ E1' E2 I0) as (A1 & A2 & cf & co & A3 & A4 & A5).
      split; [exact A1|]. split; [exact A2|]. exists cf, co. repeat split; auto; try apply A5.
      destruct (A _ _ _ _ E1' A3) as (co' & Eco' & _ & Hr). rewrite A4 in Eco'. inversion Eco'; subst co'.
      apply GK; [exact A4|congruence].
  - intros r' rs c cf co p E1 E2 E3 Bk Hn. destruct (r' =? r) eqn:Q.
    + rewrite (RE _ _ E1 Q) in E2. discriminate.
    + destruct (GS _ _ E3) as [E3' _]. eapply (tO2 _ _ _ T); eauto.
  - intros r' rs p ls E1 E2. destruct (r' =? r) eqn:Q.
    + rewrite (RE _ _ E1 Q) in E2. discriminate.
    + eapply (tO3 _ _ _ T); eauto.
  - intros f o pf E. destruct (GS _ _ E) as [E0 Q]. rewrite (tP _ _ _ T f o pf E0). split.
    + intros (po & Epo & I0). exists po. split; [|exact I0]. apply GK; [exact Epo|].
      destruct (tC1 _ _ _ T _ _ _ _ Epo I0) as (co & rs & A1 & A2 & A3 & _). rewrite E0 in A1. inversion A1; subst co. congruence.
    + intros (po & Epo & I0). destruct (GS _ _ Epo) as [Epo0 _]. eauto.
Qed.

Definition quiet_kind (e : event) : Prop :=
  match e with
  | EFull _ _ _ _ _ _ _ | EKill _ _ => False
  | _ => True
  end.

(* terse / cached / properties / region teardown / track region / the three request kinds preserve Tree *)
Lemma step_Tree_quiet : forall w e w', Idx w -> Tree w -> quiet_kind e -> step w e = Some w' -> Tree w'.
Proof.
  intros w e w' I T Q H. pose proof I as (K & A & B).
  destruct e as [cmp r l f p av v|r l v|r l crc v|f v|r l|r|r|r l|r l|r]; try contradiction.
  - (* terse *)
    cbn [step] in H. destruct (region_state w r) as [rs|] eqn:Ers; [|inversion H; subst; exact T].
    destruct (lookup_local w r l) as [o|] eqn:El.
    + destruct (lookup_local_some _ _ _ _ I El) as (Eo & Hl & Hr).
      eapply tframe_TreeG; [|exact T]. eapply (update_existing_same_tframe _ _ _ _ _ o K Eo); [| | |exact H]; cbn; congruence.
    + inversion H; subst. apply region_state_some in Ers. destruct Ers as [Ers _].
      eapply tframe_TreeG; [eapply tframe_set_rs; [exact Ers|reflexivity]|exact T].
  - (* cached *)
    cbn [step] in H. destruct (region_state w r) as [rs|] eqn:Ers; [|inversion H; subst; exact T].
    assert (Fm : Tree (set_rs w r (with_missing rs (sadd l (r_missing rs))))).
    { pose proof Ers as Ers'. apply region_state_some in Ers'. destruct Ers' as [Ers' _].
      eapply tframe_TreeG; [eapply tframe_set_rs; [exact Ers'|reflexivity]|exact T]. }
    destruct (lookup_local w r l) as [o|] eqn:El; [|inversion H; subst; exact Fm].
    destruct (o_crc o =? crc); [|inversion H; subst; exact Fm].
    destruct (lookup_local_some _ _ _ _ I El) as (Eo & Hl & Hr).
    eapply tframe_TreeG; [|exact T]. eapply (update_existing_same_tframe _ _ _ _ _ o K Eo); [| | |exact H]; cbn; congruence.
  - (* properties *)
    cbn [step] in H. destruct (get_obj w f) as [o|] eqn:Eo; [|inversion H; subst; exact T].
    eapply tframe_TreeG; [|exact T]. eapply (update_existing_same_tframe _ _ _ _ _ o K Eo); [| | |exact H]; reflexivity.
  - eapply clear_Tree; eauto.
  - cbn [step] in H. bind_inv H. inversion H; subst.
    eapply tframe_TreeG; [eapply tframe_set_rs; [exact E|reflexivity]|exact T].
  - cbn [step] in H. bind_inv H. inversion H; subst. eapply tframe_TreeG; [apply tframe_set_futs|exact T].
  - cbn [step] in H. bind_inv H. inversion H; subst. eapply tframe_TreeG; [apply tframe_set_futs|exact T].
  - cbn [step] in H. bind_inv H. inversion H; subst. eapply tframe_TreeG; [apply tframe_register_all|exact T].
Qed.

(* ---------- list lemmas ---------- *)
Lemma mem_In : forall x l, mem x l = true <-> In x l.
Proof.
  intros x l. unfold mem. rewrite existsb_exists. split.
  - intros (y & Hy & E). apply N.eqb_eq in E. subst. exact Hy.
  - intros H. exists x. split; [exact H|apply N.eqb_refl].
Qed.
Lemma mem_false : forall x l, mem x l = false <-> ~ In x l.
Proof. intros. rewrite <- mem_In. destruct (mem x l); split; intros; congruence. Qed.

Lemma remove1_In : forall x y l, In y (remove1 x l) -> In y l.
Proof.
  induction l as [|a t IH]; simpl; intros H; [exact H|].
  destruct (x =? a); [right; exact H|]. destruct H as [H|H]; [left; exact H|right; auto].
Qed.
Lemma remove1_In_neq : forall x y l, In y l -> y <> x -> In y (remove1 x l).
Proof.
  induction l as [|a t IH]; simpl; intros H Hn; [exact H|].
  destruct (x =? a) eqn:Q.
  - apply N.eqb_eq in Q. subst a. destruct H as [H|H]; [congruence|exact H].
  - destruct H as [H|H]; [left; exact H|right; auto].
Qed.
Lemma remove1_NoDup : forall x l, NoDup l -> NoDup (remove1 x l) /\ ~ In x (remove1 x l).
Proof.
  induction l as [|a t IH]; simpl; intros H; [split; [constructor|tauto]|].
  inversion H as [|? ? Hn Ht]; subst. destruct (x =? a) eqn:Q.
  - apply N.eqb_eq in Q. subst a. split; assumption.
  - apply N.eqb_neq in Q. destruct (IH Ht) as [I1 I2]. split.
    + constructor; [|exact I1]. intro Hc. apply Hn. eapply remove1_In; eauto.
    + simpl. intros [Hc|Hc]; [congruence|tauto].
Qed.
Lemma remove1_notin : forall x l, ~ In x l -> remove1 x l = l.
Proof.
  induction l as [|a t IH]; simpl; intros H; [reflexivity|].
  destruct (x =? a) eqn:Q; [apply N.eqb_eq in Q; subst; tauto|]. f_equal. apply IH. tauto.
Qed.

Lemma remove1k_In : forall A x (y : N * A) l, In y (remove1k x l) -> In y l.
Proof.
  induction l as [|[a v] t IH]; simpl; intros H; [exact H|].
  destruct (x =? a); [right; exact H|]. destruct H as [H|H]; [left; exact H|right; auto].
Qed.
Lemma remove1k_In_neq : forall A x c (v : A) l, In (c, v) l -> c <> x -> In (c, v) (remove1k x l).
Proof.
  induction l as [|[a u] t IH]; simpl; intros H Hn; [exact H|].
  destruct (x =? a) eqn:Q.
  - apply N.eqb_eq in Q. subst a. destruct H as [H|H]; [inversion H; congruence|exact H].
  - destruct H as [H|H]; [left; exact H|right; auto].
Qed.
Lemma remove1k_fst_In : forall A x y (l : list (N * A)), In y (map fst (remove1k x l)) -> In y (map fst l).
Proof.
  induction l as [|[a v] t IH]; simpl; intros H; [exact H|].
  destruct (x =? a); [right; exact H|]. simpl in H. destruct H as [H|H]; [left; exact H|right; auto].
Qed.
Lemma remove1k_NoDup : forall A x (l : list (N * A)), NoDup (map fst l) ->
  NoDup (map fst (remove1k x l)) /\ ~ In x (map fst (remove1k x l)).
Proof.
  induction l as [|[a v] t IH]; simpl; intros H; [split; [constructor|tauto]|].
  inversion H as [|? ? Hn Ht]; subst. destruct (x =? a) eqn:Q.
  - apply N.eqb_eq in Q. subst a. split; assumption.
  - apply N.eqb_neq in Q. destruct (IH Ht) as [I1 I2]. split.
    + simpl. constructor; [|exact I1]. intro Hc. apply Hn. eapply remove1k_fst_In; eauto.
    + simpl. intros [Hc|Hc]; [congruence|tauto].
Qed.
Lemma remove1k_notin : forall A x (l : list (N * A)), ~ In x (map fst l) -> remove1k x l = l.
Proof.
  induction l as [|[a v] t IH]; simpl; intros H; [reflexivity|].
  destruct (x =? a) eqn:Q; [apply N.eqb_eq in Q; subst; tauto|]. f_equal. apply IH. tauto.
Qed.
Lemma In_fst : forall A c (v : A) (l : list (N * A)), In (c, v) l -> In c (map fst l).
Proof. intros. change c with (fst (c, v)). apply in_map. assumption. Qed.

(* ---------- orphan table primitives ---------- *)
Lemma track_orphan_get : forall rs l p p',
  aget p' (r_orphans (track_orphan rs l p)) =
  if p' =? p then Some (match aget p (r_orphans rs) with Some ls => ls ++ [l] | None => [l] end)
  else aget p' (r_orphans rs).
Proof. intros. unfold track_orphan. cbn [r_orphans with_orphans]. apply aget_aset. Qed.
Lemma track_orphan_local : forall rs l p, r_local (track_orphan rs l p) = r_local rs.
Proof. reflexivity. Qed.

Lemma untrack_orphan_get : forall rs l q p',
  aget p' (r_orphans (untrack_orphan rs l q)) =
  if p' =? q then
    match aget q (r_orphans rs) with
    | Some ls => match remove1 l ls with [] => None | x => Some x end
    | None => None
    end
  else aget p' (r_orphans rs).
Proof.
  intros. unfold untrack_orphan. destruct (aget q (r_orphans rs)) as [ls|] eqn:E.
  - assert (R : (if mem l ls then remove1 l ls else ls) = remove1 l ls).
    { destruct (mem l ls) eqn:M; [reflexivity|]. symmetry. apply remove1_notin. apply mem_false. exact M. }
    rewrite R. destruct (remove1 l ls) eqn:Er; cbn [r_orphans with_orphans].
    + rewrite aget_adel. destruct (p' =? q); reflexivity.
    + rewrite aget_aset. destruct (p' =? q); reflexivity.
  - destruct (p' =? q) eqn:Q; [|reflexivity]. apply N.eqb_eq in Q. subst. exact E.
Qed.
Lemma untrack_orphan_local : forall rs l q, r_local (untrack_orphan rs l q) = r_local rs.
Proof.
  intros. unfold untrack_orphan. destruct (aget q (r_orphans rs)); [|reflexivity].
  destruct (if mem l l0 then remove1 l l0 else l0); reflexivity.
Qed.

(* ---------- closed forms of _unparent_object / _parent_object ---------- *)
Definition with_ch (og : obj) (ch : list (N * N)) : N * N * N * N * list (N * N) :=
  (o_lid og, o_full og, o_region og, o_parent og, ch).

Lemma tcore_with_ch : forall og, tcore og = with_ch og (o_children og).
Proof. reflexivity. Qed.

Definition is_parent_key (rs : rstate) (q g : N) : bool :=
  negb (q =? 0) && match aget q (r_local rs) with Some pf => pf =? g | None => false end.

Lemma unparent_spec : forall w r f q w' o rs, keys_ok w -> get_obj w f = Some o -> get_rs w r = Some rs ->
  unparent_object w r f q = Some w' ->
  (forall r', get_rs w' r' = if (r' =? r) && negb (q =? 0) then Some (untrack_orphan rs (o_lid o) q) else get_rs w r') /\
  (forall g, option_map tcore (get_obj w' g) =
             option_map (fun og => with_ch og (if is_parent_key rs q g then remove1k (o_lid o) (o_children og)
                                               else o_children og)) (get_obj w g)).
Proof.
  intros w r f q w' o rs K Eo Ers H. unfold unparent_object in H. rewrite Eo, Ers in H. cbn [bind] in H.
  pose proof (K _ _ Eo) as Kf.
  set (w1 := set_obj w (with_plink o None)) in *.
  assert (G1 : forall g, option_map tcore (get_obj w1 g) = option_map tcore (get_obj w g)).
  { intros g. unfold w1. rewrite get_obj_set_obj. cbn [o_full with_plink]. rewrite Kf.
    destruct (g =? f) eqn:Q; [|reflexivity]. apply N.eqb_eq in Q. subst g. rewrite Eo. reflexivity. }
  unfold is_parent_key. destruct (q =? 0) eqn:Q0; cbn [negb andb].
  - inversion H; subst w'. split; [intros r'; rewrite andb_false_r; reflexivity|].
    intros g. rewrite G1. destruct (get_obj w g); reflexivity.
  - set (w2 := set_rs w1 r (untrack_orphan rs (o_lid o) q)) in *.
    assert (R2 : forall r', get_rs w2 r' = if (r' =? r) && true then Some (untrack_orphan rs (o_lid o) q) else get_rs w r').
    { intros r'. unfold w2. rewrite get_rs_set_rs. rewrite andb_true_r. destruct (r' =? r); reflexivity. }
    destruct (aget q (r_local rs)) as [pf|] eqn:Ep.
    + destruct (get_obj w2 pf) as [po|] eqn:Epo; [|discriminate].
      assert (Epo1 : get_obj w1 pf = Some po) by exact Epo.
      pose proof (G1 pf) as Gpf. rewrite Epo1 in Gpf. cbn in Gpf.
      destruct (get_obj w pf) as [og|] eqn:Eog; cbn in Gpf; [|discriminate]. inversion Gpf as [[P1 P2 P3 P4 P5]].
      pose proof (K _ _ Eog) as Kpf.
      destruct (mem (o_lid o) (map fst (o_children po))) eqn:M; inversion H; subst w'; clear H.
      * split; [intros r'; rewrite get_rs_set_obj; apply R2|].
        intros g. rewrite get_obj_set_obj. cbn [o_full with_children]. rewrite P2, Kpf. rewrite (N.eqb_sym pf g).
        destruct (g =? pf) eqn:Q.
        -- apply N.eqb_eq in Q. subst g. rewrite Eog. cbn. unfold with_ch, tcore. cbn. rewrite P1, P2, P3, P4, P5. reflexivity.
        -- change (get_obj w2 g) with (get_obj w1 g). rewrite G1. destruct (get_obj w g); reflexivity.
      * split; [exact R2|]. intros g. change (get_obj w2 g) with (get_obj w1 g). rewrite G1.
        destruct (get_obj w g) as [og'|] eqn:Eg; [|reflexivity]. cbn. destruct (pf =? g) eqn:Q; [|reflexivity].
        apply N.eqb_eq in Q. subst g. rewrite Eog in Eg. inversion Eg; subst og'.
        rewrite remove1k_notin; [reflexivity|]. rewrite <- P5. apply mem_false. exact M.
    + inversion H; subst w'. split; [exact R2|]. intros g. change (get_obj w2 g) with (get_obj w1 g). rewrite G1.
      destruct (get_obj w g); reflexivity.
Qed.

(* the Parent reference after _unparent_object *)
Lemma unparent_plink : forall w r f q w' o rs, keys_ok w -> get_obj w f = Some o -> get_rs w r = Some rs ->
  unparent_object w r f q = Some w' ->
  forall g, option_map o_plink (get_obj w' g) = if g =? f then Some None else option_map o_plink (get_obj w g).
Proof.
  intros w r f q w' o rs K Eo Ers H. unfold unparent_object in H. rewrite Eo, Ers in H. cbn [bind] in H.
  pose proof (K _ _ Eo) as Kf.
  set (w1 := set_obj w (with_plink o None)) in *.
  assert (G1 : forall g, option_map o_plink (get_obj w1 g) = if g =? f then Some None else option_map o_plink (get_obj w g)).
  { intros g. unfold w1. rewrite get_obj_set_obj. cbn [o_full with_plink]. rewrite Kf. destruct (g =? f); reflexivity. }
  destruct (q =? 0); [inversion H; subst w'; exact G1|].
  set (w2 := set_rs w1 r (untrack_orphan rs (o_lid o) q)) in *.
  destruct (aget q (r_local rs)) as [pf|]; [|inversion H; subst w'; exact G1].
  destruct (get_obj w2 pf) as [po|] eqn:Epo; [|discriminate].
  assert (Epo1 : get_obj w1 pf = Some po) by exact Epo.
  assert (Kpo : o_full po = pf).
  { unfold w1 in Epo1. rewrite get_obj_set_obj in Epo1. cbn [o_full with_plink] in Epo1. rewrite Kf in Epo1.
    destruct (pf =? f) eqn:Q; [inversion Epo1; subst po; cbn; apply N.eqb_eq in Q; congruence|eauto]. }
  destruct (mem (o_lid o) (map fst (o_children po))); inversion H; subst w'; clear H; [|exact G1].
  intros g. rewrite get_obj_set_obj. cbn [o_full with_children]. rewrite Kpo. destruct (g =? pf) eqn:Q; [|apply G1].
  apply N.eqb_eq in Q. subst g. rewrite <- G1. rewrite Epo1. reflexivity.
Qed.

Definition ins_child (h : bool) (e : N * N) (ch : list (N * N)) : list (N * N) := if h then e :: ch else ch ++ [e].

Lemma parent_spec : forall w r f h w' o rs, keys_ok w -> get_obj w f = Some o -> get_rs w r = Some rs ->
  parent_object w r f h = Some w' ->
  (o_parent o = 0 -> w' = w) /\
  (o_parent o <> 0 -> forall pf, aget (o_parent o) (r_local rs) = Some pf ->
     exists po, get_obj w pf = Some po /\ ~ In (o_lid o) (map fst (o_children po)) /\
       (forall r', get_rs w' r' = get_rs w r') /\
       (forall g, option_map tcore (get_obj w' g) =
                  option_map (fun og => with_ch og (if g =? pf then ins_child h (o_lid o, f) (o_children og)
                                                    else o_children og)) (get_obj w g))) /\
  (o_parent o <> 0 -> aget (o_parent o) (r_local rs) = None ->
     (forall r', option_map tridx (get_rs w' r') =
                 if r' =? r then Some (tridx (track_orphan rs (o_lid o) (o_parent o))) else option_map tridx (get_rs w r')) /\
     (forall g, option_map tcore (get_obj w' g) = option_map tcore (get_obj w g))).
Proof.
  intros w r f h w' o rs K Eo Ers H. unfold parent_object in H. rewrite Eo, Ers in H. cbn [bind] in H.
  pose proof (K _ _ Eo) as Kf.
  destruct (o_parent o =? 0) eqn:Q0.
  - apply N.eqb_eq in Q0. inversion H; subst w'. split; [reflexivity|]. split; intros; congruence.
  - apply N.eqb_neq in Q0. split; [congruence|].
    destruct (aget (o_parent o) (r_local rs)) as [pf|] eqn:Ep.
    + split; [|intros; congruence]. intros _ pf' Epf'. inversion Epf'; subst pf'.
      bind_inv H. rename o0 into po. destruct (mem (o_lid o) (map fst (o_children po))) eqn:M; [discriminate|].
      bind_inv H. rename o0 into o1. inversion H; subst w'; clear H.
      pose proof (K _ _ E) as Kpf.
      exists po. split; [reflexivity|]. split; [apply mem_false; exact M|]. split; [reflexivity|].
      intros g.
      set (ch := if h then (o_lid o, f) :: o_children po else o_children po ++ [(o_lid o, f)]) in *.
      assert (G1 : forall g, get_obj (set_obj w (with_children po ch)) g = if g =? pf then Some (with_children po ch) else get_obj w g).
      { intros g'. rewrite get_obj_set_obj. cbn [o_full with_children]. rewrite Kpf. reflexivity. }
      assert (Ko1 : o_full o1 = f /\ tcore o1 = if f =? pf then with_ch po ch else tcore o).
      { rewrite G1 in E0. destruct (f =? pf) eqn:Q.
        - inversion E0; subst o1. cbn. apply N.eqb_eq in Q. split; [congruence|reflexivity].
        - rewrite Eo in E0. inversion E0; subst o1. auto. }
      destruct Ko1 as [Ko1 Co1].
      rewrite get_obj_set_obj. cbn [o_full with_plink]. rewrite Ko1. destruct (g =? f) eqn:Qf.
      * apply N.eqb_eq in Qf. subst g. rewrite Eo. cbn. unfold tcore at 1. cbn [o_lid o_full o_region o_parent o_children with_plink].
        change (o_lid o1, o_full o1, o_region o1, o_parent o1, o_children o1) with (tcore o1). rewrite Co1.
        destruct (f =? pf) eqn:Q; [|reflexivity]. apply N.eqb_eq in Q. assert (po = o) by congruence. subst po.
        unfold ins_child, ch. destruct h; reflexivity.
      * rewrite G1. destruct (g =? pf) eqn:Q.
        -- apply N.eqb_eq in Q. subst g. rewrite E. cbn. unfold ins_child, ch. destruct h; reflexivity.
        -- destruct (get_obj w g); reflexivity.
    + split; [intros; congruence|]. intros _ _. inversion H; subst w'; clear H. split.
      * intros r'. rewrite get_rs_set_obj, get_rs_set_rs. destruct (r' =? r); reflexivity.
      * intros g. rewrite get_obj_set_obj. cbn [o_full with_plink]. rewrite Kf. rewrite get_obj_set_rs.
        destruct (g =? f) eqn:Q; [|reflexivity]. apply N.eqb_eq in Q. subst g. rewrite Eo. reflexivity.
Qed.

(* ---------- reading the closed forms ---------- *)
Lemma ospec_fwd : forall w w' (CH : N -> obj -> list (N * N)),
  (forall g, option_map tcore (get_obj w' g) = option_map (fun og => with_ch og (CH g og)) (get_obj w g)) ->
  forall g o', get_obj w' g = Some o' ->
  exists og, get_obj w g = Some og /\ o_lid o' = o_lid og /\ o_full o' = o_full og /\ o_region o' = o_region og /\
             o_parent o' = o_parent og /\ o_children o' = CH g og.
Proof.
  intros w w' CH H g o' E. specialize (H g). rewrite E in H. cbn in H.
  destruct (get_obj w g) as [og|]; cbn in H; [|discriminate]. exists og. unfold tcore, with_ch in H.
  inversion H. auto 10.
Qed.
Lemma ospec_bwd : forall w w' (CH : N -> obj -> list (N * N)),
  (forall g, option_map tcore (get_obj w' g) = option_map (fun og => with_ch og (CH g og)) (get_obj w g)) ->
  forall g og, get_obj w g = Some og ->
  exists o', get_obj w' g = Some o' /\ o_lid o' = o_lid og /\ o_full o' = o_full og /\ o_region o' = o_region og /\
             o_parent o' = o_parent og /\ o_children o' = CH g og.
Proof.
  intros w w' CH H g og E. specialize (H g). rewrite E in H. cbn in H.
  destruct (get_obj w' g) as [o'|]; cbn in H; [|discriminate]. exists o'. unfold tcore, with_ch in H.
  inversion H. auto 10.
Qed.

Lemma bk_same : forall O a b p, o_full a = o_full b -> o_parent a = o_parent b -> bk O a p -> bk O b p.
Proof. intros O a b p Hf Hp [H1 H2]. split; [|exact H2]. unfold epar in *. rewrite <- Hf, <- Hp. exact H1. Qed.

Lemma bk_oset_other : forall O f x co p, o_full co <> f -> (bk (oset O f x) co p <-> bk O co p).
Proof.
  intros O f x co p Hn. unfold bk, epar, oset. destruct (o_full co =? f) eqn:Q; [apply N.eqb_eq in Q; congruence|tauto].
Qed.
Lemma bk_oset_none : forall O f co p, o_full co = f -> ~ bk (oset O f None) co p.
Proof. intros O f co p Hf [H _]. unfold epar, oset in H. rewrite Hf, N.eqb_refl in H. discriminate. Qed.
Lemma bk_oset_some : forall O f q co p, o_full co = f -> (bk (oset O f (Some q)) co p <-> q = p /\ p <> 0).
Proof.
  intros O f q co p Hf. unfold bk, epar, oset. rewrite Hf, N.eqb_refl. split; intros [H1 H2]; split; congruence.
Qed.

(* changing overrides without changing who is bookkept where *)
Lemma TreeG_bk_equiv : forall w O O' K,
  (forall g o, get_obj w g = Some o -> forall p, bk O o p <-> bk O' o p) -> TreeG w O K -> TreeG w O' K.
Proof.
  intros w O O' K H T. constructor.
  - intros pf po c cf E I. destruct (tC1 _ _ _ T _ _ _ _ E I) as (co & rs & A1 & A2 & A3 & A4 & A5).
    exists co, rs. split; [exact A1|]. split; [exact A2|]. split; [exact A3|]. split; [apply (H _ _ A1); exact A4|exact A5].
  - intros r rs c cf co p pf po E1 E2 E3 B. apply (H _ _ E3) in B. eapply (tC2 _ _ _ T); eauto.
  - apply (tC3 _ _ _ T).
  - intros r rs p ls c E1 E2 I. destruct (tO1 _ _ _ T _ _ _ _ _ E1 E2 I) as (A1 & A2 & cf & co & A3 & A4 & A5).
    split; [exact A1|]. split; [exact A2|]. exists cf, co. split; [exact A3|]. split; [exact A4|apply (H _ _ A4); exact A5].
  - intros r rs c cf co p E1 E2 E3 B. apply (H _ _ E3) in B. eapply (tO2 _ _ _ T); eauto.
  - apply (tO3 _ _ _ T).
  - apply (tP _ _ _ T).
Qed.

(* a detached object has no Parent reference *)
Lemma detached_plink_none : forall w O K x ox, keys_ok w -> TreeG w O K -> O x = Some None -> get_obj w x = Some ox ->
  o_plink ox = None.
Proof.
  intros w O K x ox Kw T HO Eox. destruct (o_plink ox) as [pf|] eqn:Ep; [|reflexivity]. exfalso.
  destruct (proj1 (tP _ _ _ T x ox pf Eox) Ep) as (po & Epo & I).
  destruct (tC1 _ _ _ T _ _ _ _ Epo I) as (co & rs0 & A1 & _ & _ & [A4 _] & _). rewrite Eox in A1. inversion A1; subst co.
  unfold epar in A4. rewrite (Kw _ _ Eox), HO in A4. discriminate.
Qed.

(* ---------- _unparent_object detaches the object ---------- *)
Lemma TreeG_unparent : forall w O K r f q o rs w', Base w -> TreeG w O K ->
  get_obj w f = Some o -> o_region o = r -> get_rs w r = Some rs -> aget (o_lid o) (r_local rs) = Some f ->
  epar O o = Some q ->
  unparent_object w r f q = Some w' -> TreeG w' (oset O f None) K.
Proof.
  intros w O K r f q o rs w' [Kw W2] T Eo Hr Ers Eidx Hq H.
  destruct (unparent_spec _ _ _ _ _ _ _ Kw Eo Ers H) as [R G].
  pose proof (ospec_fwd _ _ _ G) as FW. pose proof (ospec_bwd _ _ _ G) as BW.
  pose proof (Kw _ _ Eo) as Kf.
  (* region states of w' *)
  assert (RS : forall r0 rs', get_rs w' r0 = Some rs' ->
            exists rs0, get_rs w r0 = Some rs0 /\ r_local rs' = r_local rs0 /\
              ((r0 =? r) && negb (q =? 0) = false -> r_orphans rs' = r_orphans rs0) /\
              ((r0 =? r) && negb (q =? 0) = true -> rs0 = rs /\ rs' = untrack_orphan rs (o_lid o) q)).
  { intros r0 rs' E. rewrite R in E. destruct ((r0 =? r) && negb (q =? 0)) eqn:Q.
    - inversion E; subst rs'. apply andb_prop in Q. destruct Q as [Q _]. apply N.eqb_eq in Q. subst r0.
      exists rs. rewrite untrack_orphan_local. repeat split; auto; discriminate.
    - exists rs'. repeat split; auto; discriminate. }
  assert (RSb : forall r0 rs0, get_rs w r0 = Some rs0 -> exists rs', get_rs w' r0 = Some rs' /\ r_local rs' = r_local rs0).
  { intros r0 rs0 E. rewrite R. destruct ((r0 =? r) && negb (q =? 0)) eqn:Q.
    - apply andb_prop in Q. destruct Q as [Q _]. apply N.eqb_eq in Q. subst r0. rewrite Ers in E. inversion E; subst rs0.
      eexists; split; [reflexivity|apply untrack_orphan_local].
    - eauto. }
  (* an indexed entry pointing at f is f's own entry *)
  assert (IDX : forall r0 rs0 c, get_rs w r0 = Some rs0 -> aget c (r_local rs0) = Some f -> r0 = r /\ c = o_lid o).
  { intros r0 rs0 c E1 E2. destruct (W2 _ _ _ _ E1 E2) as (o0 & Eo0 & Hl & Hr0). rewrite Eo in Eo0. inversion Eo0; subst o0.
    split; congruence. }
  constructor.
  - (* C1 *)
    intros pf po' c cf E I.
    destruct (FW _ _ E) as (og & Eog & L1 & L2 & L3 & L4 & L5). rewrite L5 in I.
    assert (I0 : In (c, cf) (o_children og)).
    { destruct (is_parent_key rs q pf); [eapply remove1k_In; exact I|exact I]. }
    destruct (tC1 _ _ _ T _ _ _ _ Eog I0) as (co & rs0 & A1 & A2 & A3 & A4 & A5 & A6 & A7).
    assert (Hne : cf <> f).
    { intro; subst cf. rewrite Eo in A1. inversion A1; subst co.
      destruct A4 as [A4 A4']. rewrite Hq in A4. inversion A4 as [Hlq].
      assert (Hrr : o_region og = r) by congruence. rewrite Hrr, Ers in A5. inversion A5; subst rs0.
      assert (Pk : is_parent_key rs q pf = true).
      { unfold is_parent_key. subst q. rewrite A7, N.eqb_refl. apply N.eqb_neq in A4'. rewrite A4'. reflexivity. }
      rewrite Pk in I. apply In_fst in I. rewrite <- A2 in I.
      destruct (remove1k_NoDup _ (o_lid o) _ (tC3 _ _ _ T _ _ Eog)) as [_ Hn]. contradiction. }
    destruct (BW _ _ A1) as (co' & Eco' & M1 & M2 & M3 & M4 & M5).
    destruct (RSb _ _ A5) as (rs' & Ers' & Lrs').
    exists co', rs'. rewrite L3, L1. split; [exact Eco'|]. split; [congruence|]. split; [congruence|]. split.
    + apply bk_oset_other; [rewrite M2, (Kw _ _ A1); exact Hne|]. eapply bk_same; [| |exact A4]; congruence.
    + rewrite Lrs'. auto.
  - (* C2 *)
    intros r0 rs' c cf co' p pf po' E1 E2 E3 B E4 E5 Kn.
    destruct (RS _ _ E1) as (rs0 & Ers0 & Lrs & _). rewrite Lrs in E2, E4.
    destruct (FW _ _ E3) as (co & Eco & M1 & M2 & M3 & M4 & M5).
    destruct (FW _ _ E5) as (og & Eog & L1 & L2 & L3 & L4 & L5).
    assert (Hne : cf <> f).
    { intro; subst cf. eapply bk_oset_none; [|exact B]. rewrite M2. eauto. }
    assert (B0 : bk O co p).
    { eapply bk_same; [exact M2|exact M4|]. apply (bk_oset_other O f None co' p); [|exact B].
      rewrite M2, (Kw _ _ Eco). exact Hne. }
    pose proof (tC2 _ _ _ T _ _ _ _ _ _ _ _ Ers0 E2 Eco B0 E4 Eog Kn) as I0.
    rewrite L5. destruct (is_parent_key rs q pf) eqn:Pk; [|exact I0].
    apply remove1k_In_neq; [exact I0|]. intro; subst c.
    unfold is_parent_key in Pk. apply andb_prop in Pk. destruct Pk as [_ Pk].
    destruct (aget q (r_local rs)) as [pf'|] eqn:Eq; [|discriminate]. apply N.eqb_eq in Pk. subst pf'.
    destruct (W2 _ _ _ _ Ers Eq) as (o1 & Eo1 & _ & Hr1). destruct (W2 _ _ _ _ Ers0 E4) as (o2 & Eo2 & _ & Hr2).
    assert (r0 = r) by congruence. assert (rs0 = rs) by congruence. subst rs0. congruence.
  - (* C3 *)
    intros pf po' E. destruct (FW _ _ E) as (og & Eog & L1 & L2 & L3 & L4 & L5). rewrite L5.
    pose proof (tC3 _ _ _ T _ _ Eog) as N0. destruct (is_parent_key rs q pf); [|exact N0].
    apply remove1k_NoDup. exact N0.
  - (* O1 *)
    intros r0 rs' p ls' c E1 E2 I.
    destruct (RS _ _ E1) as (rs0 & Ers0 & Lrs & Rsame & Rmod).
    assert (OLD : exists ls, aget p (r_orphans rs0) = Some ls /\ In c ls /\ ((r0 =? r) && negb (q =? 0) = true -> p = q -> c <> o_lid o)).
    { destruct ((r0 =? r) && negb (q =? 0)) eqn:Q.
      - destruct (Rmod eq_refl) as [-> ->]. rewrite untrack_orphan_get in E2. destruct (p =? q) eqn:Qp.
        + apply N.eqb_eq in Qp. subst p. destruct (aget q (r_orphans rs)) as [ls|] eqn:El; [|discriminate].
          exists ls. split; [reflexivity|].
          assert (ls' = remove1 (o_lid o) ls) by (destruct (remove1 (o_lid o) ls); congruence). subst ls'.
          split; [eapply remove1_In; exact I|]. intros _ _ ->.
          destruct (remove1_NoDup (o_lid o) ls (tO3 _ _ _ T _ _ _ _ Ers El)) as [_ Hn]. contradiction.
        + exists ls'. repeat split; auto. intros _ ->. rewrite N.eqb_refl in Qp. discriminate.
      - rewrite (Rsame eq_refl) in E2. exists ls'. repeat split; auto. discriminate. }
    destruct OLD as (ls & El & Il & Hc).
    destruct (tO1 _ _ _ T _ _ _ _ _ Ers0 El Il) as (A1 & A2 & cf & co & A3 & A4 & A5).
    split; [exact A1|]. split; [rewrite Lrs; exact A2|].
    assert (Hne : cf <> f).
    { intro; subst cf. destruct (IDX _ _ _ Ers0 A3) as [-> ->]. rewrite Eo in A4. inversion A4; subst co.
      destruct A5 as [A5 _]. rewrite Hq in A5. inversion A5; subst p.
      apply Hc; auto. rewrite N.eqb_refl. apply N.eqb_neq in A1. rewrite A1. reflexivity. }
    destruct (BW _ _ A4) as (co' & Eco' & M1 & M2 & M3 & M4 & M5).
    exists cf, co'. rewrite Lrs. split; [exact A3|]. split; [exact Eco'|].
    apply bk_oset_other; [rewrite M2, (Kw _ _ A4); exact Hne|]. eapply bk_same; [| |exact A5]; congruence.
  - (* O2 *)
    intros r0 rs' c cf co' p E1 E2 E3 B Hn.
    destruct (RS _ _ E1) as (rs0 & Ers0 & Lrs & Rsame & Rmod). rewrite Lrs in E2, Hn.
    destruct (FW _ _ E3) as (co & Eco & M1 & M2 & M3 & M4 & M5).
    assert (Hne : cf <> f).
    { intro; subst cf. eapply bk_oset_none; [|exact B]. rewrite M2. eauto. }
    assert (B0 : bk O co p).
    { eapply bk_same; [exact M2|exact M4|]. apply (bk_oset_other O f None co' p); [|exact B].
      rewrite M2, (Kw _ _ Eco). exact Hne. }
    destruct (tO2 _ _ _ T _ _ _ _ _ _ Ers0 E2 Eco B0 Hn) as (ls & El & Il).
    destruct ((r0 =? r) && negb (q =? 0)) eqn:Q.
    + destruct (Rmod eq_refl) as [-> ->]. rewrite untrack_orphan_get. destruct (p =? q) eqn:Qp.
      * apply N.eqb_eq in Qp. subst p. rewrite El.
        assert (Ic : In c (remove1 (o_lid o) ls)).
        { apply remove1_In_neq; [exact Il|]. intro; subst c. apply andb_prop in Q. destruct Q as [Q _]. apply N.eqb_eq in Q. subst r0.
          congruence. }
        destruct (remove1 (o_lid o) ls) eqn:Er; [destruct Ic|]. eexists; split; [reflexivity|exact Ic].
      * eauto.
    + rewrite (Rsame eq_refl). eauto.
  - (* O3 *)
    intros r0 rs' p ls' E1 E2. destruct (RS _ _ E1) as (rs0 & Ers0 & Lrs & Rsame & Rmod).
    destruct ((r0 =? r) && negb (q =? 0)) eqn:Q.
    + destruct (Rmod eq_refl) as [-> ->]. rewrite untrack_orphan_get in E2. destruct (p =? q) eqn:Qp.
      * apply N.eqb_eq in Qp. subst p. destruct (aget q (r_orphans rs)) as [ls|] eqn:El; [|discriminate].
        assert (ls' = remove1 (o_lid o) ls) by (destruct (remove1 (o_lid o) ls); congruence). subst ls'.
        apply remove1_NoDup. eapply (tO3 _ _ _ T); eauto.
      * eapply (tO3 _ _ _ T); eauto.
    + rewrite (Rsame eq_refl) in E2. eapply (tO3 _ _ _ T); eauto.
  - (* P *)
    intros g a' pf E.
    destruct (FW _ _ E) as (a & Ea & L1 & L2 & L3 & L4 & L5).
    pose proof (unparent_plink _ _ _ _ _ _ _ Kw Eo Ers H g) as Pg. rewrite E, Ea in Pg. cbn in Pg.
    assert (CHF : forall pf' po', get_obj w' pf' = Some po' -> forall c, In (c, f) (o_children po') -> False).
    { intros pf' po' E' c I. destruct (FW _ _ E') as (og & Eog & M1 & M2 & M3 & M4 & M5). rewrite M5 in I.
      assert (I0 : In (c, f) (o_children og)) by (destruct (is_parent_key rs q pf'); [eapply remove1k_In; exact I|exact I]).
      destruct (tC1 _ _ _ T _ _ _ _ Eog I0) as (co & rs0 & A1 & A2 & A3 & A4 & A5 & A6 & A7).
      rewrite Eo in A1. inversion A1; subst co.
      destruct A4 as [A4 A4']. rewrite Hq in A4. inversion A4 as [Hlq].
      assert (Hrr : o_region og = r) by congruence. rewrite Hrr, Ers in A5. inversion A5; subst rs0.
      assert (Pk : is_parent_key rs q pf' = true).
      { unfold is_parent_key. subst q. rewrite A7, N.eqb_refl. apply N.eqb_neq in A4'. rewrite A4'. reflexivity. }
      rewrite Pk in I. apply In_fst in I. rewrite <- A2 in I.
      destruct (remove1k_NoDup _ (o_lid o) _ (tC3 _ _ _ T _ _ Eog)) as [_ Hn]. contradiction. }
    destruct (g =? f) eqn:Qg.
    + apply N.eqb_eq in Qg. subst g. split; [intros Hs; inversion Pg; congruence|].
      intros (po' & Epo' & I). exfalso. eapply CHF; eauto.
    + apply N.eqb_neq in Qg. assert (Pa : o_plink a' = o_plink a) by congruence. rewrite Pa, L1.
      rewrite (tP _ _ _ T g a pf Ea). split.
      * intros (po & Epo & I). destruct (BW _ _ Epo) as (po' & Epo' & M1 & M2 & M3 & M4 & M5).
        exists po'. split; [exact Epo'|]. rewrite M5. destruct (is_parent_key rs q pf) eqn:Pk; [|exact I].
        apply remove1k_In_neq; [exact I|]. intro Hc.
        destruct (tC1 _ _ _ T _ _ _ _ Epo I) as (co & rs0 & A1 & A2 & A3 & A4 & A5 & A6 & A7).
        unfold is_parent_key in Pk. apply andb_prop in Pk. destruct Pk as [_ Pk].
        destruct (aget q (r_local rs)) as [pf'|] eqn:Eq; [|discriminate]. apply N.eqb_eq in Pk. subst pf'.
        destruct (W2 _ _ _ _ Ers Eq) as (o1 & Eo1 & _ & Hr1). rewrite Epo in Eo1. inversion Eo1; subst o1.
        rewrite Hr1, Ers in A5. inversion A5; subst rs0. rewrite Hc, Eidx in A6. congruence.
      * intros (po' & Epo' & I). destruct (FW _ _ Epo') as (po & Epo & M1 & M2 & M3 & M4 & M5). rewrite M5 in I.
        exists po. split; [exact Epo|]. destruct (is_parent_key rs q pf); [eapply remove1k_In; exact I|exact I].
Qed.

Lemma ins_child_In : forall h e ch x, In x (ins_child h e ch) <-> x = e \/ In x ch.
Proof.
  intros h e ch x. unfold ins_child. destruct h; simpl.
  - split; intros [H|H]; auto.
  - rewrite in_app_iff. simpl. split; [intros [H|[H|[]]]|intros [H|H]]; auto.
Qed.
Lemma app_one_NoDup : forall (c : N) l, NoDup l -> ~ In c l -> NoDup (l ++ [c]).
Proof.
  induction l as [|a t IH]; simpl; intros Nl Hl; [constructor; [tauto|constructor]|].
  inversion Nl; subst. constructor; [rewrite in_app_iff; simpl; intuition|apply IH; tauto].
Qed.

Lemma ins_child_NoDup : forall h c v ch, NoDup (map fst ch) -> ~ In c (map fst ch) ->
  NoDup (map fst (ins_child h (c, v) ch)).
Proof.
  intros h c v ch N0 Hn. unfold ins_child. destruct h; simpl; [constructor; assumption|].
  rewrite map_app. simpl. apply app_one_NoDup; assumption.
Qed.

(* the Parent reference after _parent_object *)
Lemma parent_plink : forall w r f h w' o rs, keys_ok w -> get_obj w f = Some o -> get_rs w r = Some rs ->
  parent_object w r f h = Some w' -> o_parent o <> 0 ->
  forall g, option_map o_plink (get_obj w' g) =
            if g =? f then Some (aget (o_parent o) (r_local rs)) else option_map o_plink (get_obj w g).
Proof.
  intros w r f h w' o rs K Eo Ers H P0. unfold parent_object in H. rewrite Eo, Ers in H. cbn [bind] in H.
  pose proof (K _ _ Eo) as Kf. apply N.eqb_neq in P0. rewrite P0 in H.
  destruct (aget (o_parent o) (r_local rs)) as [pf|] eqn:Ep.
  - bind_inv H. rename o0 into po. destruct (mem (o_lid o) (map fst (o_children po))); [discriminate|].
    bind_inv H. rename o0 into o1. inversion H; subst w'; clear H. pose proof (K _ _ E) as Kpf.
    set (ch := if h then (o_lid o, f) :: o_children po else o_children po ++ [(o_lid o, f)]) in *.
    assert (G1 : forall g, get_obj (set_obj w (with_children po ch)) g = if g =? pf then Some (with_children po ch) else get_obj w g).
    { intros g'. rewrite get_obj_set_obj. cbn [o_full with_children]. rewrite Kpf. reflexivity. }
    assert (Ko1 : o_full o1 = f).
    { rewrite G1 in E0. destruct (f =? pf) eqn:Q; [inversion E0; subst o1; cbn; apply N.eqb_eq in Q; congruence|].
      rewrite Eo in E0. inversion E0; subst o1. exact Kf. }
    intros g. rewrite get_obj_set_obj. cbn [o_full with_plink]. rewrite Ko1. destruct (g =? f); [reflexivity|].
    rewrite G1. destruct (g =? pf) eqn:Q; [|reflexivity]. apply N.eqb_eq in Q. subst g. rewrite E. reflexivity.
  - inversion H; subst w'; clear H. intros g. rewrite get_obj_set_obj. cbn [o_full with_plink]. rewrite Kf.
    destruct (g =? f); reflexivity.
Qed.

(* ---------- _parent_object attaches a detached, indexed object ---------- *)
Lemma TreeG_parent : forall w O K r f h o rs w', Base w -> TreeG w O K ->
  get_obj w f = Some o -> o_region o = r -> get_rs w r = Some rs -> aget (o_lid o) (r_local rs) = Some f ->
  O f = Some None -> (o_parent o <> 0 -> kne K r (o_parent o)) ->
  parent_object w r f h = Some w' -> TreeG w' (oset O f (Some (o_parent o))) K.
Proof.
  intros w O K r f h o rs w' [Kw W2] T Eo Hr Ers Eidx HO HK H.
  destruct (parent_spec _ _ _ _ _ _ _ Kw Eo Ers H) as (S0 & S1 & S2).
  pose proof (Kw _ _ Eo) as Kf.
  assert (NB : forall p, ~ bk O o p).
  { intros p [B _]. unfold epar in B. rewrite Kf, HO in B. discriminate. }
  assert (IDX : forall r0 rs0 c, get_rs w r0 = Some rs0 -> aget c (r_local rs0) = Some f -> r0 = r /\ c = o_lid o).
  { intros r0 rs0 c E1 E2. destruct (W2 _ _ _ _ E1 E2) as (o0 & Eo0 & Hl & Hr0). rewrite Eo in Eo0. inversion Eo0; subst o0.
    split; congruence. }
  destruct (N.eq_dec (o_parent o) 0) as [P0|P0].
  { rewrite (S0 P0). eapply TreeG_bk_equiv; [|exact T]. intros g og Eg p.
    destruct (N.eq_dec (o_full og) f) as [Hf|Hf].
    - assert (g = f) by (rewrite <- (Kw _ _ Eg); exact Hf). subst g. rewrite Eo in Eg. inversion Eg; subst og.
      rewrite bk_oset_some by exact Kf. split; [intro B; destruct (NB _ B)|]. intros [E1 E2]. congruence.
    - symmetry. apply bk_oset_other. exact Hf. }
  specialize (HK P0).
  destruct (aget (o_parent o) (r_local rs)) as [pf|] eqn:Ep.
  - (* parent tracked *)
    destruct (S1 P0 pf eq_refl) as (po & Epo & Hnin & R & G). clear S0 S1 S2.
    pose proof (ospec_fwd _ _ _ G) as FW. pose proof (ospec_bwd _ _ _ G) as BW.
    destruct (W2 _ _ _ _ Ers Ep) as (po0 & Epo0 & Hlp & Hrp). rewrite Epo in Epo0. inversion Epo0; subst po0.
    destruct (BW _ _ Eo) as (o' & Eo' & N1 & N2 & N3 & N4 & N5).
    constructor.
    + (* C1 *)
      intros g po' c cf E I. destruct (FW _ _ E) as (og & Eog & L1 & L2 & L3 & L4 & L5). rewrite L5 in I.
      assert (Cases : (g = pf /\ (c, cf) = (o_lid o, f)) \/ In (c, cf) (o_children og)).
      { destruct (g =? pf) eqn:Q; [|right; exact I]. apply N.eqb_eq in Q. apply ins_child_In in I. destruct I; auto. }
      destruct Cases as [[-> Ee]|I0].
      * inversion Ee; subst c cf. rewrite Epo in Eog. inversion Eog; subst og.
        exists o', rs. rewrite L3, L1, Hlp, Hrp. split; [exact Eo'|]. split; [exact N1|]. split; [congruence|]. split.
        -- apply bk_oset_some; [congruence|]. split; congruence.
        -- rewrite R. auto.
      * destruct (tC1 _ _ _ T _ _ _ _ Eog I0) as (co & rs0 & A1 & A2 & A3 & A4 & A5 & A6 & A7).
        assert (Hne : cf <> f) by (intro; subst cf; rewrite Eo in A1; inversion A1; subst co; exact (NB _ A4)).
        destruct (BW _ _ A1) as (co' & Eco' & M1 & M2 & M3 & M4 & M5).
        exists co', rs0. rewrite L3, L1. split; [exact Eco'|]. split; [congruence|]. split; [congruence|]. split.
        -- apply bk_oset_other; [rewrite M2, (Kw _ _ A1); exact Hne|]. eapply bk_same; [| |exact A4]; congruence.
        -- rewrite R. auto.
    + (* C2 *)
      intros r0 rs0 c cf co' p pf' po' E1 E2 E3 B E4 E5 Kn. rewrite R in E1.
      destruct (FW _ _ E3) as (co & Eco & M1 & M2 & M3 & M4 & M5).
      destruct (FW _ _ E5) as (og & Eog & L1 & L2 & L3 & L4 & L5). rewrite L5.
      destruct (N.eq_dec cf f) as [->|Hne].
      * rewrite Eo in Eco. inversion Eco; subst co. apply bk_oset_some in B; [|congruence]. destruct B as [<- _].
        destruct (IDX _ _ _ E1 E2) as [-> ->]. rewrite Ers in E1. inversion E1; subst rs0. rewrite Ep in E4. inversion E4; subst pf'.
        rewrite N.eqb_refl. apply ins_child_In. left. reflexivity.
      * assert (B0 : bk O co p).
        { eapply bk_same; [exact M2|exact M4|]. apply (bk_oset_other O f (Some (o_parent o)) co' p); [|exact B].
          rewrite M2, (Kw _ _ Eco). exact Hne. }
        pose proof (tC2 _ _ _ T _ _ _ _ _ _ _ _ E1 E2 Eco B0 E4 Eog Kn) as I0.
        destruct (pf' =? pf); [apply ins_child_In; right; exact I0|exact I0].
    + (* C3 *)
      intros g po' E. destruct (FW _ _ E) as (og & Eog & L1 & L2 & L3 & L4 & L5). rewrite L5.
      pose proof (tC3 _ _ _ T _ _ Eog) as N0. destruct (g =? pf) eqn:Q; [|exact N0].
      apply N.eqb_eq in Q. subst g. rewrite Epo in Eog. inversion Eog; subst og. apply ins_child_NoDup; assumption.
    + (* O1 *)
      intros r0 rs0 p ls c E1 E2 I. rewrite R in E1.
      destruct (tO1 _ _ _ T _ _ _ _ _ E1 E2 I) as (A1 & A2 & cf & co & A3 & A4 & A5).
      split; [exact A1|]. split; [exact A2|].
      assert (Hne : cf <> f) by (intro; subst cf; rewrite Eo in A4; inversion A4; subst co; exact (NB _ A5)).
      destruct (BW _ _ A4) as (co' & Eco' & M1 & M2 & M3 & M4 & M5).
      exists cf, co'. split; [exact A3|]. split; [exact Eco'|].
      apply bk_oset_other; [rewrite M2, (Kw _ _ A4); exact Hne|]. eapply bk_same; [| |exact A5]; congruence.
    + (* O2 *)
      intros r0 rs0 c cf co' p E1 E2 E3 B Hn. rewrite R in E1.
      destruct (FW _ _ E3) as (co & Eco & M1 & M2 & M3 & M4 & M5).
      destruct (N.eq_dec cf f) as [->|Hne].
      * rewrite Eo in Eco. inversion Eco; subst co. apply bk_oset_some in B; [|congruence]. destruct B as [<- _].
        destruct (IDX _ _ _ E1 E2) as [-> ->]. rewrite Ers in E1. inversion E1; subst rs0.
        destruct Hn as [Hn|Hn]; [congruence|]. exfalso. apply HK. exact Hn.
      * assert (B0 : bk O co p).
        { eapply bk_same; [exact M2|exact M4|]. apply (bk_oset_other O f (Some (o_parent o)) co' p); [|exact B].
          rewrite M2, (Kw _ _ Eco). exact Hne. }
        eapply (tO2 _ _ _ T); eauto.
    + (* O3 *)
      intros r0 rs0 p ls E1 E2. rewrite R in E1. eapply (tO3 _ _ _ T); eauto.
    + (* P *)
      intros g a' pf' E. destruct (FW _ _ E) as (a & Ea & L1 & L2 & L3 & L4 & L5).
      pose proof (parent_plink _ _ _ _ _ _ _ Kw Eo Ers H P0 g) as Pg. rewrite E, Ea, Ep in Pg. cbn in Pg.
      assert (NOF : forall pfx pox c, get_obj w pfx = Some pox -> ~ In (c, f) (o_children pox)).
      { intros pfx pox c Ex Ix. destruct (tC1 _ _ _ T _ _ _ _ Ex Ix) as (co & rsx & A1 & A2 & A3 & A4 & _).
        rewrite Eo in A1. inversion A1; subst co. exact (NB _ A4). }
      destruct (g =? f) eqn:Qg.
      * apply N.eqb_eq in Qg. subst g. rewrite Eo in Ea. inversion Ea; subst a.
        assert (Pa : o_plink a' = Some pf) by congruence. rewrite Pa, L1. split.
        -- intros Hs. inversion Hs; subst pf'. destruct (BW _ _ Epo) as (po' & Epo' & M1 & M2 & M3 & M4 & M5).
           exists po'. split; [exact Epo'|]. rewrite M5, N.eqb_refl. apply ins_child_In. left. reflexivity.
        -- intros (po' & Epo' & I). destruct (FW _ _ Epo') as (og & Eog & M1 & M2 & M3 & M4 & M5). rewrite M5 in I.
           destruct (pf' =? pf) eqn:Q.
           ++ apply N.eqb_eq in Q. congruence.
           ++ exfalso. eapply NOF; eauto.
      * assert (Pa : o_plink a' = o_plink a) by congruence. rewrite Pa, L1. rewrite (tP _ _ _ T g a pf' Ea).
        apply N.eqb_neq in Qg. split.
        -- intros (pox & Epox & I). destruct (BW _ _ Epox) as (po' & Epo' & M1 & M2 & M3 & M4 & M5).
           exists po'. split; [exact Epo'|]. rewrite M5. destruct (pf' =? pf); [apply ins_child_In; right; exact I|exact I].
        -- intros (po' & Epo' & I). destruct (FW _ _ Epo') as (og & Eog & M1 & M2 & M3 & M4 & M5). rewrite M5 in I.
           exists og. split; [exact Eog|]. destruct (pf' =? pf); [|exact I]. apply ins_child_In in I. destruct I as [I|I]; [|exact I].
           inversion I. congruence.
  - (* parent unknown: the object becomes an orphan *)
    destruct (S2 P0 eq_refl) as (R & G). clear S0 S1 S2.
    assert (G' : forall g, option_map tcore (get_obj w' g) = option_map (fun og => with_ch og ((fun _ x => o_children x) g og)) (get_obj w g)).
    { intros g. rewrite G. destruct (get_obj w g); reflexivity. }
    pose proof (ospec_fwd _ _ _ G') as FW. pose proof (ospec_bwd _ _ _ G') as BW. cbn beta in FW, BW.
    destruct (BW _ _ Eo) as (o' & Eo' & N1 & N2 & N3 & N4 & N5).
    set (l := o_lid o) in *. set (P := o_parent o) in *.
    assert (RS : forall r0 rs', get_rs w' r0 = Some rs' ->
              exists rs0, get_rs w r0 = Some rs0 /\ r_local rs' = r_local rs0 /\
                (r0 <> r -> r_orphans rs' = r_orphans rs0) /\
                (r0 = r -> rs0 = rs /\ r_orphans rs' = r_orphans (track_orphan rs l P))).
    { intros r0 rs' E. specialize (R r0). rewrite E in R. cbn [option_map] in R. unfold tridx in R. destruct (r0 =? r) eqn:Q.
      - apply N.eqb_eq in Q. subst r0. exists rs. inversion R as [[R1 R2]]. try rewrite track_orphan_local in R1.
        repeat split; auto; congruence.
      - apply N.eqb_neq in Q. destruct (get_rs w r0) as [rs0|]; cbn [option_map] in R; [|discriminate]. inversion R as [[R1 R2]].
        exists rs0. repeat split; auto; congruence. }
    assert (RSb : forall r0 rs0, get_rs w r0 = Some rs0 -> exists rs', get_rs w' r0 = Some rs' /\ r_local rs' = r_local rs0).
    { intros r0 rs0 E. specialize (R r0). destruct (get_rs w' r0) as [rs'|] eqn:E'.
      - destruct (RS _ _ E') as (rs1 & E1 & L1 & _). exists rs'. split; [reflexivity|congruence].
      - cbn in R. destruct (r0 =? r); [discriminate|]. rewrite E in R. discriminate. }
    constructor.
    + (* C1 *)
      intros g po' c cf E I. destruct (FW _ _ E) as (og & Eog & L1 & L2 & L3 & L4 & L5). rewrite L5 in I.
      destruct (tC1 _ _ _ T _ _ _ _ Eog I) as (co & rs0 & A1 & A2 & A3 & A4 & A5 & A6 & A7).
      assert (Hne : cf <> f) by (intro; subst cf; rewrite Eo in A1; inversion A1; subst co; exact (NB _ A4)).
      destruct (BW _ _ A1) as (co' & Eco' & M1 & M2 & M3 & M4 & M5).
      destruct (RSb _ _ A5) as (rs' & Ers' & Lrs').
      exists co', rs'. rewrite L3, L1. split; [exact Eco'|]. split; [congruence|]. split; [congruence|]. split.
      * apply bk_oset_other; [rewrite M2, (Kw _ _ A1); exact Hne|]. eapply bk_same; [| |exact A4]; congruence.
      * rewrite Lrs'. auto.
    + (* C2 *)
      intros r0 rs' c cf co' p pf' po' E1 E2 E3 B E4 E5 Kn.
      destruct (RS _ _ E1) as (rs0 & Ers0 & Lrs & _). rewrite Lrs in E2, E4.
      destruct (FW _ _ E3) as (co & Eco & M1 & M2 & M3 & M4 & M5).
      destruct (FW _ _ E5) as (og & Eog & L1 & L2 & L3 & L4 & L5). rewrite L5.
      destruct (N.eq_dec cf f) as [->|Hne].
      * rewrite Eo in Eco. inversion Eco; subst co. apply bk_oset_some in B; [|congruence]. destruct B as [<- _].
        destruct (IDX _ _ _ Ers0 E2) as [-> _]. rewrite Ers in Ers0. inversion Ers0; subst rs0. congruence.
      * assert (B0 : bk O co p).
        { eapply bk_same; [exact M2|exact M4|]. apply (bk_oset_other O f (Some P) co' p); [|exact B].
          rewrite M2, (Kw _ _ Eco). exact Hne. }
        eapply (tC2 _ _ _ T); eauto.
    + (* C3 *)
      intros g po' E. destruct (FW _ _ E) as (og & Eog & L1 & L2 & L3 & L4 & L5). rewrite L5. eapply (tC3 _ _ _ T); eauto.
    + (* O1 *)
      intros r0 rs' p ls' c E1 E2 I.
      destruct (RS _ _ E1) as (rs0 & Ers0 & Lrs & Rsame & Rmod).
      assert (Cases : (r0 = r /\ p = P /\ c = l) \/ exists ls, aget p (r_orphans rs0) = Some ls /\ In c ls).
      { destruct (N.eq_dec r0 r) as [->|Hr0].
        - destruct (Rmod eq_refl) as [-> Ro]. rewrite Ro, track_orphan_get in E2. destruct (p =? P) eqn:Qp.
          + apply N.eqb_eq in Qp. subst p. inversion E2; subst ls'. destruct (aget P (r_orphans rs)) as [ls|] eqn:El.
            * apply in_app_iff in I. destruct I as [I|[I|[]]]; [right; eauto|left; auto].
            * destruct I as [I|[]]. left; auto.
          + right; eauto.
        - rewrite (Rsame Hr0) in E2. right; eauto. }
      destruct Cases as [(-> & -> & ->)|(ls & El & Il)].
      * destruct (Rmod eq_refl) as [-> _]. split; [exact P0|]. split; [intros _; rewrite Lrs; exact Ep|].
        exists f, o'. rewrite Lrs. split; [exact Eidx|]. split; [exact Eo'|].
        apply bk_oset_some; [congruence|]. split; [reflexivity|exact P0].
      * destruct (tO1 _ _ _ T _ _ _ _ _ Ers0 El Il) as (A1 & A2 & cf & co & A3 & A4 & A5).
        split; [exact A1|]. split; [rewrite Lrs; exact A2|].
        assert (Hne : cf <> f) by (intro; subst cf; rewrite Eo in A4; inversion A4; subst co; exact (NB _ A5)).
        destruct (BW _ _ A4) as (co' & Eco' & M1 & M2 & M3 & M4 & M5).
        exists cf, co'. rewrite Lrs. split; [exact A3|]. split; [exact Eco'|].
        apply bk_oset_other; [rewrite M2, (Kw _ _ A4); exact Hne|]. eapply bk_same; [| |exact A5]; congruence.
    + (* O2 *)
      intros r0 rs' c cf co' p E1 E2 E3 B Hn.
      destruct (RS _ _ E1) as (rs0 & Ers0 & Lrs & Rsame & Rmod). rewrite Lrs in E2, Hn.
      destruct (FW _ _ E3) as (co & Eco & M1 & M2 & M3 & M4 & M5).
      destruct (N.eq_dec cf f) as [->|Hne].
      * rewrite Eo in Eco. inversion Eco; subst co. apply bk_oset_some in B; [|congruence]. destruct B as [<- _].
        destruct (IDX _ _ _ Ers0 E2) as [-> ->]. destruct (Rmod eq_refl) as [-> Ro]. rewrite Ro, track_orphan_get, N.eqb_refl.
        eexists; split; [reflexivity|]. destruct (aget P (r_orphans rs)); [apply in_app_iff; right|]; left; reflexivity.
      * assert (B0 : bk O co p).
        { eapply bk_same; [exact M2|exact M4|]. apply (bk_oset_other O f (Some P) co' p); [|exact B].
          rewrite M2, (Kw _ _ Eco). exact Hne. }
        destruct (tO2 _ _ _ T _ _ _ _ _ _ Ers0 E2 Eco B0 Hn) as (ls & El & Il).
        destruct (N.eq_dec r0 r) as [->|Hr0].
        -- destruct (Rmod eq_refl) as [-> Ro]. rewrite Ro, track_orphan_get. destruct (p =? P) eqn:Qp; [|eauto].
           apply N.eqb_eq in Qp. subst p. rewrite El. eexists; split; [reflexivity|]. apply in_app_iff. left. exact Il.
        -- rewrite (Rsame Hr0). eauto.
    + (* O3 *)
      intros r0 rs' p ls' E1 E2. destruct (RS _ _ E1) as (rs0 & Ers0 & Lrs & Rsame & Rmod).
      destruct (N.eq_dec r0 r) as [->|Hr0]; [|rewrite (Rsame Hr0) in E2; eapply (tO3 _ _ _ T); eauto].
      destruct (Rmod eq_refl) as [-> Ro]. rewrite Ro, track_orphan_get in E2. destruct (p =? P) eqn:Qp; [|eapply (tO3 _ _ _ T); eauto].
      apply N.eqb_eq in Qp. subst p. inversion E2; subst ls'. destruct (aget P (r_orphans rs)) as [ls|] eqn:El.
      * apply app_one_NoDup; [eapply (tO3 _ _ _ T); eauto|]. intro Il.
        destruct (tO1 _ _ _ T _ _ _ _ _ Ers El Il) as (_ & _ & cf & co & A3 & A4 & A5).
        fold l in Eidx. rewrite Eidx in A3. inversion A3; subst cf. rewrite Eo in A4. inversion A4; subst co. exact (NB _ A5).
      * constructor; [simpl; tauto|constructor].
    + (* P *)
      intros g a' pf' E. destruct (FW _ _ E) as (a & Ea & L1 & L2 & L3 & L4 & L5).
      pose proof (parent_plink _ _ _ _ _ _ _ Kw Eo Ers H P0 g) as Pg. rewrite E, Ea in Pg. fold P in Pg. rewrite Ep in Pg. cbn in Pg.
      destruct (g =? f) eqn:Qg.
      * apply N.eqb_eq in Qg. subst g. split; [intros Hs; inversion Pg; congruence|].
        intros (po' & Epo' & I). exfalso. destruct (FW _ _ Epo') as (og & Eog & M1 & M2 & M3 & M4 & M5). rewrite M5 in I.
        destruct (tC1 _ _ _ T _ _ _ _ Eog I) as (co & rs0 & A1 & A2 & A3 & A4 & _).
        rewrite Eo in A1. inversion A1; subst co. exact (NB _ A4).
      * assert (Pa : o_plink a' = o_plink a) by congruence. rewrite Pa, L1. rewrite (tP _ _ _ T g a pf' Ea). split.
        -- intros (pox & Epox & I). destruct (BW _ _ Epox) as (po' & Epo' & M1 & M2 & M3 & M4 & M5).
           exists po'. split; [exact Epo'|]. rewrite M5. exact I.
        -- intros (po' & Epo' & I). destruct (FW _ _ Epo') as (og & Eog & M1 & M2 & M3 & M4 & M5). rewrite M5 in I. eauto.
Qed.

(* ---------- Base is a frame property ---------- *)
Lemma frame_Base : forall w w', frame w w' -> Base w -> Base w'.
Proof.
  intros w w' F [K A]. split; [eapply frame_keys; eauto|].
  intros r rs' l f Ers El.
  destruct (frame_rs _ _ _ _ F Ers) as [rs [Ers0 C]]. apply ridx_inj in C. destruct C as [_ C].
  rewrite <- C in El. destruct (A _ _ _ _ Ers0 El) as [o [Eo [Hl Hr]]].
  destruct (frame_obj_rev _ _ _ _ F Eo) as [o' [Eo' C']]. apply core_inj in C'.
  exists o'. intuition congruence.
Qed.

(* ---------- rewriting one object's non-structural fields / its parent field under an override ---------- *)
Lemma TreeG_ocorr : forall w O K w' O',
  (forall r, get_rs w' r = get_rs w r) ->
  (forall g, match get_obj w g, get_obj w' g with
             | Some a, Some b => o_lid a = o_lid b /\ o_full a = o_full b /\ o_region a = o_region b /\
                                 o_children a = o_children b /\ (forall p, bk O a p <-> bk O' b p)
             | None, None => True
             | _, _ => False
             end) ->
  (forall g, option_map o_plink (get_obj w' g) = option_map o_plink (get_obj w g)) ->
  TreeG w O K -> TreeG w' O' K.
Proof.
  intros w O K w' O' R G GP T.
  assert (FW : forall g b, get_obj w' g = Some b -> exists a, get_obj w g = Some a /\ o_lid a = o_lid b /\ o_full a = o_full b /\
               o_region a = o_region b /\ o_children a = o_children b /\ (forall p, bk O a p <-> bk O' b p)).
  { intros g b E. specialize (G g). rewrite E in G. destruct (get_obj w g) as [a|]; [eauto|contradiction]. }
  assert (BW : forall g a, get_obj w g = Some a -> exists b, get_obj w' g = Some b /\ o_lid a = o_lid b /\ o_full a = o_full b /\
               o_region a = o_region b /\ o_children a = o_children b /\ (forall p, bk O a p <-> bk O' b p)).
  { intros g a E. specialize (G g). rewrite E in G. destruct (get_obj w' g) as [b|]; [eauto|contradiction]. }
  constructor.
  - intros pf po' c cf E I. destruct (FW _ _ E) as (po & Epo & L1 & L2 & L3 & L4 & _). rewrite <- L4 in I.
    destruct (tC1 _ _ _ T _ _ _ _ Epo I) as (co & rs & A1 & A2 & A3 & A4 & A5 & A6 & A7).
    destruct (BW _ _ A1) as (co' & Eco' & M1 & M2 & M3 & M4 & M5).
    exists co', rs. rewrite <- L3, <- L1, R. split; [exact Eco'|]. split; [congruence|]. split; [congruence|].
    split; [apply M5; exact A4|auto].
  - intros r rs c cf co' p pf po' E1 E2 E3 B E4 E5 Kn. rewrite R in E1.
    destruct (FW _ _ E3) as (co & Eco & M1 & M2 & M3 & M4 & M5). destruct (FW _ _ E5) as (po & Epo & L1 & L2 & L3 & L4 & _).
    rewrite <- L4. eapply (tC2 _ _ _ T); eauto. apply M5. exact B.
  - intros pf po' E. destruct (FW _ _ E) as (po & Epo & L1 & L2 & L3 & L4 & _). rewrite <- L4. eapply (tC3 _ _ _ T); eauto.
  - intros r rs p ls c E1 E2 I. rewrite R in E1.
    destruct (tO1 _ _ _ T _ _ _ _ _ E1 E2 I) as (A1 & A2 & cf & co & A3 & A4 & A5).
    destruct (BW _ _ A4) as (co' & Eco' & M1 & M2 & M3 & M4 & M5).
    split; [exact A1|]. split; [exact A2|]. exists cf, co'. split; [exact A3|]. split; [exact Eco'|apply M5; exact A5].
  - intros r rs c cf co' p E1 E2 E3 B Hn. rewrite R in E1.
    destruct (FW _ _ E3) as (co & Eco & M1 & M2 & M3 & M4 & M5). eapply (tO2 _ _ _ T); eauto. apply M5. exact B.
  - intros r rs p ls E1 E2. rewrite R in E1. eapply (tO3 _ _ _ T); eauto.
  - intros f b pf E. destruct (FW _ _ E) as (a & Ea & L1 & L2 & L3 & L4 & _).
    pose proof (GP f) as Pf. rewrite E, Ea in Pf. cbn in Pf. assert (Pa : o_plink b = o_plink a) by congruence.
    rewrite Pa, <- L1. rewrite (tP _ _ _ T f a pf Ea). split.
    + intros (po & Epo & I). destruct (BW _ _ Epo) as (po' & Epo' & M1 & M2 & M3 & M4 & _).
      exists po'. split; [exact Epo'|]. rewrite <- M4. exact I.
    + intros (po' & Epo' & I). destruct (FW _ _ Epo') as (po & Epo & M1 & M2 & M3 & M4 & _).
      exists po. split; [exact Epo|]. rewrite M4. exact I.
Qed.

(* the object's fields other than lid / full / region / children change; it stays bookkept under its old parent *)
Lemma TreeG_set_fields : forall w O K f o o', Base w -> TreeG w O K -> get_obj w f = Some o -> O f = None ->
  o_lid o' = o_lid o -> o_full o' = o_full o -> o_region o' = o_region o -> o_children o' = o_children o ->
  o_plink o' = o_plink o ->
  TreeG (set_obj w o') (oset O f (Some (o_parent o))) K.
Proof.
  intros w O K f o o' [Kw _] T Eo HO H1 H2 H3 H4 H5. pose proof (Kw _ _ Eo) as Kf.
  eapply TreeG_ocorr; [| | |exact T]; [reflexivity| |].
  2:{ intros g. rewrite get_obj_set_obj, H2, Kf. destruct (g =? f) eqn:Q; [|reflexivity].
      apply N.eqb_eq in Q. subst g. rewrite Eo. cbn. congruence. }
  intros g. rewrite get_obj_set_obj. rewrite H2, Kf. destruct (g =? f) eqn:Q.
  - apply N.eqb_eq in Q. subst g. rewrite Eo.
    split; [congruence|]. split; [congruence|]. split; [congruence|]. split; [congruence|]. intros p. split.
    + intros B. apply bk_oset_some; [congruence|]. destruct B as [B1 B2]. unfold epar in B1. rewrite Kf, HO in B1. split; congruence.
    + intros B. apply bk_oset_some in B; [|congruence]. destruct B as [B1 B2]. split; [|exact B2].
      unfold epar. rewrite Kf, HO. congruence.
  - destruct (get_obj w g) as [a|] eqn:Eg; [|exact I]. do 4 (split; [reflexivity|]). intros p. split.
    + intros B. apply bk_oset_other; [|exact B]. rewrite (Kw _ _ Eg). apply N.eqb_neq. exact Q.
    + intros B. eapply bk_oset_other; [|exact B]. rewrite (Kw _ _ Eg). apply N.eqb_neq. exact Q.
Qed.

(* a brand-new object: in the full-id lookup only, detached, no children *)
Lemma TreeG_new_obj : forall w O K o, Base w -> TreeG w O K -> get_obj w (o_full o) = None -> o_children o = [] ->
  o_plink o = None ->
  TreeG (set_obj w o) (oset O (o_full o) None) K.
Proof.
  intros w O K o [Kw W2] T Hn Hc Hpl.
  assert (GO : forall g a, get_obj w g = Some a -> get_obj (set_obj w o) g = Some a /\ g <> o_full o).
  { intros g a E. rewrite get_obj_set_obj. destruct (g =? o_full o) eqn:Q; [apply N.eqb_eq in Q; congruence|].
    apply N.eqb_neq in Q. auto. }
  assert (GN : forall g a, get_obj (set_obj w o) g = Some a -> (g = o_full o /\ a = o) \/ (g <> o_full o /\ get_obj w g = Some a)).
  { intros g a E. rewrite get_obj_set_obj in E. destruct (g =? o_full o) eqn:Q.
    - apply N.eqb_eq in Q. inversion E. subst. left. auto.
    - apply N.eqb_neq in Q. auto. }
  assert (BKo : forall a p, o_full a <> o_full o -> (bk (oset O (o_full o) None) a p <-> bk O a p)).
  { intros. apply bk_oset_other. assumption. }
  constructor.
  - intros pf po c cf E I. destruct (GN _ _ E) as [[-> ->]|[Hne E0]]; [rewrite Hc in I; destruct I|].
    destruct (tC1 _ _ _ T _ _ _ _ E0 I) as (co & rs & A1 & A2 & A3 & A4 & A5).
    destruct (GO _ _ A1) as [A1' Hcf]. exists co, rs. split; [exact A1'|]. split; [exact A2|]. split; [exact A3|].
    split; [apply BKo; [rewrite (Kw _ _ A1); exact Hcf|exact A4]|exact A5].
  - intros r rs c cf co p pf po E1 E2 E3 B E4 E5 Kn. rewrite get_rs_set_obj in E1.
    destruct (GN _ _ E3) as [[-> ->]|[Hne E3']]; [destruct (bk_oset_none O (o_full o) o p eq_refl B)|].
    destruct (GN _ _ E5) as [[-> ->]|[Hne5 E5']].
    + destruct (W2 _ _ _ _ E1 E4) as (x & Ex & _). congruence.
    + eapply (tC2 _ _ _ T); eauto. apply BKo in B; [exact B|]. rewrite (Kw _ _ E3'). exact Hne.
  - intros pf po E. destruct (GN _ _ E) as [[-> ->]|[Hne E0]]; [rewrite Hc; constructor|]. eapply (tC3 _ _ _ T); eauto.
  - intros r rs p ls c E1 E2 I. rewrite get_rs_set_obj in E1.
    destruct (tO1 _ _ _ T _ _ _ _ _ E1 E2 I) as (A1 & A2 & cf & co & A3 & A4 & A5).
    destruct (GO _ _ A4) as [A4' Hcf]. split; [exact A1|]. split; [exact A2|]. exists cf, co.
    split; [exact A3|]. split; [exact A4'|]. apply BKo; [rewrite (Kw _ _ A4); exact Hcf|exact A5].
  - intros r rs c cf co p E1 E2 E3 B Hn'. rewrite get_rs_set_obj in E1.
    destruct (GN _ _ E3) as [[-> ->]|[Hne E3']]; [destruct (bk_oset_none O (o_full o) o p eq_refl B)|].
    eapply (tO2 _ _ _ T); eauto. apply BKo in B; [exact B|]. rewrite (Kw _ _ E3'). exact Hne.
  - intros r rs p ls E1 E2. rewrite get_rs_set_obj in E1. eapply (tO3 _ _ _ T); eauto.
  - intros g a pf E. destruct (GN _ _ E) as [[-> ->]|[Hne E0]].
    + rewrite Hpl. split; [discriminate|]. intros (po & Epo & I). exfalso.
      destruct (GN _ _ Epo) as [[-> ->]|[_ Epo0]]; [rewrite Hc in I; destruct I|].
      destruct (tC1 _ _ _ T _ _ _ _ Epo0 I) as (co & rs & A1 & _). congruence.
    + rewrite (tP _ _ _ T g a pf E0). split.
      * intros (po & Epo & I). destruct (GO _ _ Epo) as [Epo' _]. eauto.
      * intros (po & Epo & I). destruct (GN _ _ Epo) as [[-> ->]|[_ Epo0]]; [rewrite Hc in I; destruct I|]. eauto.
Qed.

(* ---------- indexing a detached object: its local id becomes the open key ---------- *)
Lemma Base_index : forall w x o r rs m, Base w -> get_obj w x = Some o -> o_region o = r -> get_rs w r = Some rs ->
  Base (set_rs w r (with_missing (with_local rs (aset (o_lid o) x (r_local rs))) m)).
Proof.
  intros w x o r rs m [Kw W2] Eo Hr Ers. split; [exact Kw|].
  intros r0 rs' l f E1 E2. rewrite get_rs_set_rs in E1. rewrite get_obj_set_rs. destruct (r0 =? r) eqn:Q.
  - apply N.eqb_eq in Q. subst r0. inversion E1; subst rs'. cbn [r_local with_local with_missing] in E2.
    rewrite aget_aset in E2. destruct (l =? o_lid o) eqn:Ql.
    + apply N.eqb_eq in Ql. inversion E2; subst. eauto.
    + eauto.
  - eauto.
Qed.

Lemma TreeG_index : forall w O r rs x o m, Base w -> TreeG w O None -> get_obj w x = Some o -> o_region o = r ->
  get_rs w r = Some rs -> aget (o_lid o) (r_local rs) = None -> O x = Some None ->
  TreeG (set_rs w r (with_missing (with_local rs (aset (o_lid o) x (r_local rs))) m)) O (Some (r, o_lid o)).
Proof.
  intros w O r rs x o m [Kw W2] T Eo Hr Ers Hfree HO. set (l := o_lid o) in *.
  set (w1 := set_rs w r (with_missing (with_local rs (aset l x (r_local rs))) m)).
  pose proof (Kw _ _ Eo) as Kx.
  assert (NB : forall p, ~ bk O o p).
  { intros p [B _]. unfold epar in B. rewrite Kx, HO in B. discriminate. }
  assert (LOC : forall r0 rs', get_rs w1 r0 = Some rs' ->
            exists rs0, get_rs w r0 = Some rs0 /\ r_orphans rs' = r_orphans rs0 /\
              forall c, aget c (r_local rs') = if (r0 =? r) && (c =? l) then Some x else aget c (r_local rs0)).
  { intros r0 rs' E. unfold w1 in E. rewrite get_rs_set_rs in E. destruct (r0 =? r) eqn:Q.
    - apply N.eqb_eq in Q. subst r0. inversion E; subst rs'. exists rs. split; [exact Ers|]. split; [reflexivity|].
      intros c. cbn [r_local with_local with_missing andb]. rewrite aget_aset. reflexivity.
    - exists rs'. split; [exact E|]. split; [reflexivity|]. intros c. reflexivity. }
  assert (LOCb : forall r0 rs0, get_rs w r0 = Some rs0 -> exists rs', get_rs w1 r0 = Some rs' /\ r_orphans rs' = r_orphans rs0 /\
              forall c, aget c (r_local rs') = if (r0 =? r) && (c =? l) then Some x else aget c (r_local rs0)).
  { intros r0 rs0 E. unfold w1. rewrite get_rs_set_rs. destruct (r0 =? r) eqn:Q.
    - apply N.eqb_eq in Q. subst r0. rewrite Ers in E. inversion E; subst rs0. eexists. split; [reflexivity|]. split; [reflexivity|].
      intros c. cbn [r_local with_local with_missing andb]. rewrite aget_aset. reflexivity.
    - exists rs0. split; [exact E|]. split; [reflexivity|]. intros c. reflexivity. }
  (* a key that is already indexed is not the fresh key *)
  assert (OLDK : forall r0 rs0 c v, get_rs w r0 = Some rs0 -> aget c (r_local rs0) = Some v -> (r0 =? r) && (c =? l) = false).
  { intros r0 rs0 c v E1 E2. destruct (r0 =? r) eqn:Q1; [|reflexivity]. destruct (c =? l) eqn:Q2; [|reflexivity].
    apply N.eqb_eq in Q1, Q2. subst. rewrite Ers in E1. inversion E1; subst rs0. congruence. }
  constructor.
  - intros pf po c cf E I. change (get_obj w pf = Some po) in E.
    destruct (tC1 _ _ _ T _ _ _ _ E I) as (co & rs0 & A1 & A2 & A3 & A4 & A5 & A6 & A7).
    destruct (LOCb _ _ A5) as (rs' & E' & _ & L').
    exists co, rs'. split; [exact A1|]. split; [exact A2|]. split; [exact A3|]. split; [exact A4|]. split; [exact E'|].
    rewrite !L', (OLDK _ _ _ _ A5 A6), (OLDK _ _ _ _ A5 A7). auto.
  - intros r0 rs' c cf co p pf po E1 E2 E3 B E4 E5 Kn. change (get_obj w cf = Some co) in E3. change (get_obj w pf = Some po) in E5.
    destruct (LOC _ _ E1) as (rs0 & Ers0 & _ & L'). rewrite L' in E2, E4.
    destruct ((r0 =? r) && (c =? l)) eqn:Qc.
    { inversion E2; subst cf. rewrite Eo in E3. inversion E3; subst co. destruct (NB _ B). }
    destruct ((r0 =? r) && (p =? l)) eqn:Qp.
    { apply andb_prop in Qp. destruct Qp as [Q1 Q2]. apply N.eqb_eq in Q1, Q2. subst. exfalso. apply Kn. reflexivity. }
    eapply (tC2 _ _ _ T); eauto. unfold kne. discriminate.
  - intros pf po E. eapply (tC3 _ _ _ T); eauto.
  - intros r0 rs' p ls c E1 E2 I. destruct (LOC _ _ E1) as (rs0 & Ers0 & Lo & L'). rewrite Lo in E2.
    destruct (tO1 _ _ _ T _ _ _ _ _ Ers0 E2 I) as (A1 & A2 & cf & co & A3 & A4 & A5).
    split; [exact A1|]. split.
    + intros Kn. rewrite L'. destruct ((r0 =? r) && (p =? l)) eqn:Qp.
      * apply andb_prop in Qp. destruct Qp as [Q1 Q2]. apply N.eqb_eq in Q1, Q2. subst. exfalso. apply Kn. reflexivity.
      * apply A2. unfold kne. discriminate.
    + exists cf, co. rewrite L', (OLDK _ _ _ _ Ers0 A3). auto.
  - intros r0 rs' c cf co p E1 E2 E3 B Hn. change (get_obj w cf = Some co) in E3.
    destruct (LOC _ _ E1) as (rs0 & Ers0 & Lo & L'). rewrite L' in E2. rewrite Lo.
    destruct ((r0 =? r) && (c =? l)) eqn:Qc.
    { inversion E2; subst cf. rewrite Eo in E3. inversion E3; subst co. destruct (NB _ B). }
    eapply (tO2 _ _ _ T); eauto. left. destruct Hn as [Hn|Hn].
    + rewrite L' in Hn. destruct ((r0 =? r) && (p =? l)); [discriminate|exact Hn].
    + inversion Hn; subst. assert (rs0 = rs) by congruence. subst rs0. exact Hfree.
  - intros r0 rs' p ls E1 E2. destruct (LOC _ _ E1) as (rs0 & Ers0 & Lo & L'). rewrite Lo in E2. eapply (tO3 _ _ _ T); eauto.
  - intros fP aP pfP EP. apply (tP _ _ _ T fP aP pfP EP).
Qed.

(* ---------- collect_orphans closes the open key; the former orphans are detached ---------- *)
Definition fulls (rs : rstate) (ls : list N) : list N :=
  flat_map (fun c => match aget c (r_local rs) with Some cf => [cf] | None => [] end) ls.
Definition odet (O : ovr) (fs : list N) : ovr := fun g => if mem g fs then Some None else O g.

Lemma fulls_In : forall rs ls cf, In cf (fulls rs ls) <-> exists c, In c ls /\ aget c (r_local rs) = Some cf.
Proof.
  intros rs ls cf. unfold fulls. rewrite in_flat_map. split.
  - intros (c & Ic & H). exists c. split; [exact Ic|]. destruct (aget c (r_local rs)); [|destruct H].
    destruct H as [H|[]]. congruence.
  - intros (c & Ic & H). exists c. split; [exact Ic|]. rewrite H. left. reflexivity.
Qed.
Lemma fulls_local : forall rs rs' ls, r_local rs' = r_local rs -> fulls rs' ls = fulls rs ls.
Proof. intros. unfold fulls. rewrite H. reflexivity. Qed.

Lemma bk_odet : forall O fs a p, bk (odet O fs) a p <-> mem (o_full a) fs = false /\ bk O a p.
Proof.
  intros O fs a p. unfold bk, epar, odet. destruct (mem (o_full a) fs); split.
  - intros [H _]. discriminate.
  - intros [H _]. discriminate.
  - tauto.
  - tauto.
Qed.

Lemma collect_spec : forall rs l ls rs', collect_orphans rs l = (ls, rs') ->
  r_local rs' = r_local rs /\
  (forall p, aget p (r_orphans rs') = if p =? l then None else aget p (r_orphans rs)) /\
  ls = match aget l (r_orphans rs) with Some x => x | None => [] end.
Proof.
  intros rs l ls rs' H. unfold collect_orphans in H. destruct (aget l (r_orphans rs)) as [x|] eqn:E; inversion H; subst.
  - split; [reflexivity|]. split; [|reflexivity]. intros p. cbn [r_orphans with_orphans]. apply aget_adel.
  - split; [reflexivity|]. split; [|reflexivity]. intros p. destruct (p =? l) eqn:Q; [|reflexivity].
    apply N.eqb_eq in Q. subst. exact E.
Qed.

Lemma TreeG_collect : forall w O r rs l x ox ls rs', Base w -> TreeG w O (Some (r, l)) -> get_rs w r = Some rs ->
  aget l (r_local rs) = Some x -> get_obj w x = Some ox -> o_children ox = [] ->
  collect_orphans rs l = (ls, rs') ->
  TreeG (set_rs w r rs') (odet O (fulls rs ls)) None.
Proof.
  intros w O r rs l x ox ls rs' [Kw W2] T Ers Elx Eox Hch Hc.
  destruct (collect_spec _ _ _ _ Hc) as (CL & CO & CLs).
  set (fs := fulls rs ls).
  assert (RS : forall r0 rs1, get_rs (set_rs w r rs') r0 = Some rs1 ->
            exists rs0, get_rs w r0 = Some rs0 /\ r_local rs1 = r_local rs0 /\
              forall p, aget p (r_orphans rs1) = if (r0 =? r) && (p =? l) then None else aget p (r_orphans rs0)).
  { intros r0 rs1 E. rewrite get_rs_set_rs in E. destruct (r0 =? r) eqn:Q.
    - apply N.eqb_eq in Q. subst r0. inversion E; subst rs1. exists rs. split; [exact Ers|]. split; [exact CL|]. intros p. cbn [andb]. apply CO.
    - exists rs1. split; [exact E|]. split; [reflexivity|]. intros p. reflexivity. }
  assert (RSb : forall r0 rs0, get_rs w r0 = Some rs0 -> exists rs1, get_rs (set_rs w r rs') r0 = Some rs1 /\ r_local rs1 = r_local rs0).
  { intros r0 rs0 E. rewrite get_rs_set_rs. destruct (r0 =? r) eqn:Q.
    - apply N.eqb_eq in Q. subst r0. rewrite Ers in E. inversion E; subst rs0. eauto.
    - eauto. }
  (* an indexed object bookkept under p that is a collected orphan sits under the open key *)
  assert (F3 : forall r0 rs0 c cf a p, get_rs w r0 = Some rs0 -> aget c (r_local rs0) = Some cf -> get_obj w cf = Some a ->
                 bk O a p -> mem cf fs = true -> r0 = r /\ p = l /\ In c ls).
  { intros r0 rs0 c cf a p E1 E2 E3 B M. apply mem_In in M. apply fulls_In in M. destruct M as (c' & Ic' & Ec').
    destruct (aget l (r_orphans rs)) as [ls0|] eqn:El; [|subst ls; destruct Ic']. subst ls.
    destruct (tO1 _ _ _ T _ _ _ _ _ Ers El Ic') as (_ & _ & cf' & co' & A3 & A4 & A5).
    rewrite Ec' in A3. inversion A3; subst cf'. rewrite E3 in A4. inversion A4; subst co'.
    destruct B as [B1 _]. destruct A5 as [A5 _]. rewrite B1 in A5. inversion A5; subst p.
    destruct (W2 _ _ _ _ Ers Ec') as (a1 & Ea1 & Hl1 & Hr1). destruct (W2 _ _ _ _ E1 E2) as (a2 & Ea2 & Hl2 & Hr2).
    rewrite E3 in Ea1, Ea2. inversion Ea1; subst a1. inversion Ea2; subst a2.
    split; [congruence|]. split; [reflexivity|]. congruence. }
  constructor.
  - intros pf po c cf E I. change (get_obj w pf = Some po) in E.
    destruct (tC1 _ _ _ T _ _ _ _ E I) as (co & rs0 & A1 & A2 & A3 & A4 & A5 & A6 & A7).
    destruct (RSb _ _ A5) as (rs1 & E1 & L1).
    exists co, rs1. split; [exact A1|]. split; [exact A2|]. split; [exact A3|]. split.
    + apply bk_odet. split; [|exact A4]. rewrite (Kw _ _ A1). destruct (mem cf fs) eqn:M; [|reflexivity]. exfalso.
      destruct (F3 _ _ _ _ _ _ A5 A6 A1 A4 M) as (Hr0 & Hp & _).
      rewrite Hr0, Ers in A5. inversion A5; subst rs0. rewrite Hp, Elx in A7. inversion A7; subst pf.
      rewrite Eox in E. inversion E; subst po. rewrite Hch in I. destruct I.
    + rewrite L1. auto.
  - intros r0 rs1 c cf co p pf po E1 E2 E3 B E4 E5 _. change (get_obj w cf = Some co) in E3. change (get_obj w pf = Some po) in E5.
    destruct (RS _ _ E1) as (rs0 & Ers0 & L1 & _). rewrite L1 in E2, E4.
    apply bk_odet in B. destruct B as [M B]. rewrite (Kw _ _ E3) in M.
    destruct ((r0 =? r) && (p =? l)) eqn:Q.
    + exfalso. apply andb_prop in Q. destruct Q as [Q1 Q2]. apply N.eqb_eq in Q1, Q2. subst r0 p.
      assert (rs0 = rs) by congruence. subst rs0.
      destruct (tO2 _ _ _ T _ _ _ _ _ _ Ers E2 E3 B (or_intror eq_refl)) as (ls0 & El0 & Il0).
      rewrite El0 in CLs. subst ls. assert (In cf fs) by (apply fulls_In; eauto).
      apply mem_false in M. contradiction.
    + eapply (tC2 _ _ _ T); eauto. intro Hk. inversion Hk; subst. rewrite !N.eqb_refl in Q. discriminate.
  - intros pf po E. eapply (tC3 _ _ _ T); eauto.
  - intros r0 rs1 p ls0 c E1 E2 I. destruct (RS _ _ E1) as (rs0 & Ers0 & L1 & Lo). rewrite Lo in E2.
    destruct ((r0 =? r) && (p =? l)) eqn:Q; [discriminate|].
    destruct (tO1 _ _ _ T _ _ _ _ _ Ers0 E2 I) as (A1 & A2 & cf & co & A3 & A4 & A5).
    assert (Kn : kne (Some (r, l)) r0 p). { intro Hk. inversion Hk; subst. rewrite !N.eqb_refl in Q. discriminate. }
    split; [exact A1|]. split; [intros _; rewrite L1; exact (A2 Kn)|]. exists cf, co. rewrite L1. split; [exact A3|]. split; [exact A4|].
    apply bk_odet. split; [|exact A5]. rewrite (Kw _ _ A4). destruct (mem cf fs) eqn:M; [|reflexivity]. exfalso.
    destruct (F3 _ _ _ _ _ _ Ers0 A3 A4 A5 M) as (Hr0 & Hp & _). subst. rewrite !N.eqb_refl in Q. discriminate.
  - intros r0 rs1 c cf co p E1 E2 E3 B Hn. change (get_obj w cf = Some co) in E3.
    destruct (RS _ _ E1) as (rs0 & Ers0 & L1 & Lo). rewrite L1 in E2, Hn. rewrite Lo.
    apply bk_odet in B. destruct B as [M B]. rewrite (Kw _ _ E3) in M.
    destruct Hn as [Hn|Hn]; [|discriminate].
    destruct (tO2 _ _ _ T _ _ _ _ _ _ Ers0 E2 E3 B (or_introl Hn)) as (ls0 & El0 & Il0).
    destruct ((r0 =? r) && (p =? l)) eqn:Q; [|eauto]. exfalso.
    apply andb_prop in Q. destruct Q as [Q1 Q2]. apply N.eqb_eq in Q1, Q2. subst r0 p.
    assert (rs0 = rs) by congruence. subst rs0. rewrite El0 in CLs. subst ls.
    assert (In cf fs) by (apply fulls_In; eauto). apply mem_false in M. contradiction.
  - intros r0 rs1 p ls0 E1 E2. destruct (RS _ _ E1) as (rs0 & Ers0 & L1 & Lo). rewrite Lo in E2.
    destruct ((r0 =? r) && (p =? l)); [discriminate|]. eapply (tO3 _ _ _ T); eauto.
  - intros fP aP pfP EP. apply (tP _ _ _ T fP aP pfP EP).
Qed.

(* ---------- what _parent_object leaves alone ---------- *)
Lemma parent_pres : forall w r f h w' o rs, keys_ok w -> get_obj w f = Some o -> get_rs w r = Some rs ->
  parent_object w r f h = Some w' ->
  (forall g a', get_obj w' g = Some a' -> exists a, get_obj w g = Some a /\ o_lid a' = o_lid a /\ o_full a' = o_full a /\
      o_region a' = o_region a /\ o_parent a' = o_parent a /\
      (aget (o_parent o) (r_local rs) <> Some g -> o_children a' = o_children a)) /\
  (forall r0 rs', get_rs w' r0 = Some rs' -> exists rs0, get_rs w r0 = Some rs0 /\ r_local rs' = r_local rs0).
Proof.
  intros w r f h w' o rs K Eo Ers H.
  pose proof (frame_parent_object _ _ _ _ _ K H) as F.
  destruct (parent_spec _ _ _ _ _ _ _ K Eo Ers H) as (S0 & S1 & S2). split.
  - destruct (N.eq_dec (o_parent o) 0) as [P0|P0].
    { rewrite (S0 P0). intros g a' E. exists a'. repeat split; auto. }
    destruct (aget (o_parent o) (r_local rs)) as [pf|] eqn:Ep.
    + destruct (S1 P0 pf eq_refl) as (po & Epo & _ & _ & G). intros g a' E.
      destruct (ospec_fwd _ _ _ G _ _ E) as (a & Ea & L1 & L2 & L3 & L4 & L5).
      exists a. repeat split; auto. intros Hne. rewrite L5. destruct (g =? pf) eqn:Q; [|reflexivity].
      apply N.eqb_eq in Q. congruence.
    + destruct (S2 P0 eq_refl) as (_ & G). intros g a' E. specialize (G g). rewrite E in G. cbn in G.
      destruct (get_obj w g) as [a|]; cbn in G; [|discriminate]. assert (G' : tcore a' = tcore a) by congruence. apply tcore_inj in G'. exists a. intuition congruence.
  - intros r0 rs' E. destruct (frame_rs _ _ _ _ F E) as (rs0 & E0 & C). apply ridx_inj in C. exists rs0. intuition congruence.
Qed.

(* ---------- the adoption loop of track_object ---------- *)
Lemma TreeG_adopt : forall ls w O r rs w', Base w -> TreeG w (odet O (fulls rs ls)) None -> get_rs w r = Some rs ->
  NoDup ls -> (forall c cf, In c ls -> aget c (r_local rs) = Some cf -> O cf = None) ->
  adopt w r ls = Some w' -> TreeG w' O None /\ Base w'.
Proof.
  induction ls as [|c t IH]; intros w O r rs w' Bw T Ers ND HO H; simpl in H.
  - inversion H; subst. split; [|exact Bw]. eapply TreeG_ext; [|exact T]. intros g. reflexivity.
  - rewrite Ers in H. cbn [bind] in H. destruct (aget c (r_local rs)) as [cf|] eqn:Ec; [|discriminate].
    bind_inv H. rename w0 into w1. destruct Bw as [Kw W2].
    destruct (W2 _ _ _ _ Ers Ec) as (co & Eco & Hl & Hr).
    assert (Hfs : fulls rs (c :: t) = cf :: fulls rs t).
    { unfold fulls. simpl. rewrite Ec. reflexivity. }
    rewrite Hfs in T.
    assert (T1 : TreeG w1 (oset (odet O (cf :: fulls rs t)) cf (Some (o_parent co))) None).
    { eapply (TreeG_parent w _ None r cf false co rs w1); [split; assumption|exact T|exact Eco|exact Hr|exact Ers|rewrite Hl; exact Ec| |intros _ Hk; discriminate|exact E].
      unfold odet. cbn. rewrite N.eqb_refl. reflexivity. }
    destruct (parent_pres _ _ _ _ _ _ _ Kw Eco Ers E) as [PO PR].
    pose proof (frame_parent_object _ _ _ _ _ Kw E) as F1.
    assert (B1 : Base w1) by (eapply frame_Base; [exact F1|split; assumption]).
    destruct (frame_rs_rev _ _ _ _ F1 Ers) as (rs1 & Ers1 & C1). apply ridx_inj in C1. destruct C1 as [_ C1].
    assert (Hnc : ~ In c t) by (inversion ND; assumption). assert (NDt : NoDup t) by (inversion ND; assumption).
    assert (Hcf : ~ In cf (fulls rs t)).
    { intro Hi. apply fulls_In in Hi. destruct Hi as (c' & Ic' & Ec'). destruct (W2 _ _ _ _ Ers Ec') as (a & Ea & Hla & _).
      rewrite Eco in Ea. inversion Ea; subst a. congruence. }
    eapply (IH w1 O r rs1); [exact B1| |exact Ers1|exact NDt| |exact H].
    + rewrite (fulls_local rs rs1 t (eq_sym C1)). eapply TreeG_bk_equiv; [|exact T1].
      intros g a Eg p. destruct (PO _ _ Eg) as (a0 & Ea0 & L1 & L2 & L3 & L4 & _).
      destruct B1 as [Kw1 _]. pose proof (Kw1 _ _ Eg) as Kg.
      destruct (N.eq_dec g cf) as [->|Hne].
      * rewrite bk_oset_some by exact Kg. rewrite bk_odet. rewrite Kg.
        assert (M : mem cf (fulls rs t) = false) by (apply mem_false; exact Hcf). rewrite M.
        rewrite Eco in Ea0. inversion Ea0; subst a0.
        unfold bk, epar. rewrite Kg, (HO c cf (or_introl eq_refl) Ec). rewrite L4. split.
        { intros [X Y]. split; [reflexivity|]. split; congruence. }
        { intros [_ [X Y]]. split; congruence. }
      * rewrite bk_oset_other by (rewrite Kg; exact Hne). rewrite !bk_odet. rewrite Kg. cbn [mem existsb].
        apply N.eqb_neq in Hne. rewrite Hne. cbn [orb]. reflexivity.
    + intros c' cf' Ic' Ec'. rewrite <- C1 in Ec'. eapply HO; [right; exact Ic'|exact Ec'].
Qed.

(* ---------- track_object of a detached, un-indexed object ---------- *)
Lemma track_object_Tree : forall w r x o rs w', Base w -> TreeG w (oset no_ovr x None) None ->
  get_obj w x = Some o -> o_region o = r -> get_rs w r = Some rs -> aget (o_lid o) (r_local rs) = None ->
  o_parent o <> o_lid o ->
  track_object w r x = Some w' -> Tree w'.
Proof.
  intros w r x o rs w' Bw T Eo Hr Ers Hfree Hself H. unfold track_object in H. rewrite Eo, Ers in H. cbn [bind] in H.
  set (l := o_lid o) in *. set (m := sdel l (r_missing rs)) in *.
  set (w1 := set_rs w r (with_missing (with_local rs (aset l x (r_local rs))) m)) in *.
  pose proof (Base_index _ _ _ _ _ m Bw Eo Hr Ers) as B1. fold l in B1. fold w1 in B1.
  pose proof (TreeG_index _ _ _ _ _ _ m Bw T Eo Hr Ers Hfree) as T1. fold l in T1. fold w1 in T1.
  specialize (T1 ltac:(unfold oset; rewrite N.eqb_refl; reflexivity)).
  bind_inv H. rename w0 into w2.
  set (rs1 := with_missing (with_local rs (aset l x (r_local rs))) m) in *.
  assert (Ers1 : get_rs w1 r = Some rs1) by (unfold w1; rewrite get_rs_set_rs, N.eqb_refl; reflexivity).
  assert (Eo1 : get_obj w1 x = Some o) by exact Eo.
  assert (Eidx1 : aget (o_lid o) (r_local rs1) = Some x).
  { unfold rs1. cbn [r_local with_local with_missing]. rewrite aget_aset. fold l. rewrite N.eqb_refl. reflexivity. }
  destruct B1 as [K1 W21].
  assert (T2 : TreeG w2 (oset (oset no_ovr x None) x (Some (o_parent o))) (Some (r, l))).
  { eapply (TreeG_parent w1 _ _ r x false o rs1 w2); [split; assumption|exact T1|exact Eo1|exact Hr|exact Ers1|exact Eidx1| | |exact E].
    - unfold oset. rewrite N.eqb_refl. reflexivity.
    - intros _ Hk. inversion Hk. congruence. }
  destruct (parent_pres _ _ _ _ _ _ _ K1 Eo1 Ers1 E) as [PO PR].
  pose proof (frame_parent_object _ _ _ _ _ K1 E) as F2.
  assert (B2 : Base w2) by (eapply frame_Base; [exact F2|split; assumption]).
  destruct (frame_obj_rev _ _ _ _ F2 Eo1) as (o2 & Eo2 & _).
  destruct (PO _ _ Eo2) as (o1' & Eo1' & L1 & L2 & L3 & L4 & L5). rewrite Eo1 in Eo1'. inversion Eo1'; subst o1'.
  (* x's own children list is untouched: its parent is not itself *)
  assert (Hch0 : o_children o = []).
  { destruct (o_children o) as [|[c cf] t] eqn:Ech; [reflexivity|]. exfalso.
    assert (Ic : In (c, cf) (o_children o)) by (rewrite Ech; left; reflexivity).
    destruct (tC1 _ _ _ T _ _ _ _ Eo Ic) as (co & rs0 & _ & _ & _ & _ & A5 & _ & A7).
    rewrite Hr, Ers in A5. inversion A5; subst rs0. fold l in A7. congruence. }
  assert (Hch : o_children o2 = []).
  { rewrite L5; [exact Hch0|].
    intro Hp. unfold rs1 in Hp. cbn [r_local with_local with_missing] in Hp. rewrite aget_aset in Hp.
    destruct (o_parent o =? l) eqn:Q; [apply N.eqb_eq in Q; contradiction|].
    destruct (proj2 Bw _ _ _ _ Ers Hp) as (a & Ea & Hla & _). rewrite Eo in Ea. inversion Ea; subst a. fold l in Hla. congruence. }
  (* back to no overrides: x is now bookkept under its own parent field *)
  assert (T2' : TreeG w2 no_ovr (Some (r, l))).
  { eapply TreeG_bk_equiv; [|exact T2]. intros g a Eg p. destruct B2 as [K2 _]. pose proof (K2 _ _ Eg) as Kg.
    destruct (N.eq_dec g x) as [->|Hne].
    - rewrite bk_oset_some by exact Kg. rewrite Eo2 in Eg. inversion Eg; subst a.
      unfold bk, epar, no_ovr. rewrite L4. split; intros [X Y]; split; congruence.
    - rewrite bk_oset_other by (rewrite Kg; exact Hne). rewrite bk_oset_other by (rewrite Kg; exact Hne). reflexivity. }
  bind_inv H. rename r0 into rs2.
  destruct (PR _ _ E0) as (rs1' & Ers1' & Lrs2). rewrite Ers1 in Ers1'. inversion Ers1'; subst rs1'.
  destruct (collect_orphans rs2 l) as [orph rs3] eqn:Ec.
  assert (Elx2 : aget l (r_local rs2) = Some x) by (rewrite Lrs2; exact Eidx1).
  pose proof (TreeG_collect _ _ _ _ _ _ _ _ _ B2 T2' E0 Elx2 Eo2 Hch Ec) as T3.
  destruct (collect_spec _ _ _ _ Ec) as (CL & CO & CLs).
  assert (B3 : Base (set_rs w2 r rs3)).
  { eapply frame_Base; [|exact B2]. eapply frame_set_rs; [exact E0|]. unfold ridx.
    change rs3 with (snd (orph, rs3)). rewrite <- Ec. apply ridx_collect. }
  assert (Ers3 : get_rs (set_rs w2 r rs3) r = Some rs3) by (rewrite get_rs_set_rs, N.eqb_refl; reflexivity).
  rewrite <- (fulls_local rs2 rs3 orph CL) in T3.
  assert (ND : NoDup orph).
  { subst orph. destruct (aget l (r_orphans rs2)) eqn:El; [|constructor]. eapply (tO3 _ _ _ T2'); eauto. }
  destruct (TreeG_adopt orph _ no_ovr r rs3 w' B3 T3 Ers3 ND ltac:(intros; reflexivity) H) as [T4 _].
  exact T4.
Qed.

(* ---------- what _unparent_object leaves alone ---------- *)
Lemma unparent_pres : forall w r f q w' o rs, keys_ok w -> get_obj w f = Some o -> get_rs w r = Some rs ->
  unparent_object w r f q = Some w' ->
  (forall g a', get_obj w' g = Some a' -> exists a, get_obj w g = Some a /\ o_lid a' = o_lid a /\ o_full a' = o_full a /\
      o_region a' = o_region a /\ o_parent a' = o_parent a /\
      (is_parent_key rs q g = false -> o_children a' = o_children a)) /\
  (forall g a, get_obj w g = Some a -> exists a', get_obj w' g = Some a' /\ o_lid a' = o_lid a /\ o_full a' = o_full a /\
      o_region a' = o_region a /\ o_parent a' = o_parent a /\
      o_children a' = if is_parent_key rs q g then remove1k (o_lid o) (o_children a) else o_children a) /\
  (forall r0 rs', get_rs w' r0 = Some rs' -> exists rs0, get_rs w r0 = Some rs0 /\ r_local rs' = r_local rs0) /\
  (forall r0 rs0, get_rs w r0 = Some rs0 -> exists rs', get_rs w' r0 = Some rs' /\ r_local rs' = r_local rs0).
Proof.
  intros w r f q w' o rs K Eo Ers H.
  destruct (unparent_spec _ _ _ _ _ _ _ K Eo Ers H) as [R G].
  pose proof (ospec_fwd _ _ _ G) as FW. pose proof (ospec_bwd _ _ _ G) as BW. cbn beta in FW, BW.
  split; [|split; [|split]].
  - intros g a' E. destruct (FW _ _ E) as (a & Ea & L1 & L2 & L3 & L4 & L5). exists a. repeat split; auto.
    intros Hk. rewrite L5, Hk. reflexivity.
  - intros g a E. destruct (BW _ _ E) as (a' & Ea' & L1 & L2 & L3 & L4 & L5). exists a'. repeat split; auto.
  - intros r0 rs' E. rewrite R in E. destruct ((r0 =? r) && negb (q =? 0)) eqn:Q.
    + apply andb_prop in Q. destruct Q as [Q _]. apply N.eqb_eq in Q. subst r0. inversion E; subst rs'.
      exists rs. split; [exact Ers|apply untrack_orphan_local].
    + eauto.
  - intros r0 rs0 E. rewrite R. destruct ((r0 =? r) && negb (q =? 0)) eqn:Q.
    + apply andb_prop in Q. destruct Q as [Q _]. apply N.eqb_eq in Q. subst r0. rewrite Ers in E. inversion E; subst rs0.
      eexists. split; [reflexivity|apply untrack_orphan_local].
    + eauto.
Qed.

(* ---------- handle_object_reparented: the object is still bookkept under q, its parent field is already new ---------- *)
Lemma reparent_Tree : forall w r f q o rs w', Base w -> TreeG w (oset no_ovr f (Some q)) None ->
  get_obj w f = Some o -> o_region o = r -> get_rs w r = Some rs -> aget (o_lid o) (r_local rs) = Some f ->
  handle_object_reparented w r f q = Some w' -> Tree w'.
Proof.
  intros w r f q o rs w' Bw T Eo Hr Ers Eidx H. pose proof Bw as [Kw W2]. pose proof (Kw _ _ Eo) as Kf.
  unfold handle_object_reparented in H. bind_inv H. rename w0 into w1. bind_inv H. rename o0 into o1.
  assert (T1 : TreeG w1 (oset (oset no_ovr f (Some q)) f None) None).
  { eapply (TreeG_unparent w _ None r f q o rs w1); eauto. unfold epar, oset. rewrite Kf, N.eqb_refl. reflexivity. }
  destruct (unparent_pres _ _ _ _ _ _ _ Kw Eo Ers E) as (PF & PB & RF & RB).
  pose proof (frame_unparent_object _ _ _ _ _ Kw E) as F1.
  assert (B1 : Base w1) by (eapply frame_Base; eauto). pose proof B1 as [K1 W21].
  destruct (PF _ _ E0) as (o0 & Eo0 & L1 & L2 & L3 & L4 & _). rewrite Eo in Eo0. inversion Eo0; subst o0.
  destruct (RB _ _ Ers) as (rs1 & Ers1 & Lrs1).
  assert (T2 : TreeG w' (oset (oset (oset no_ovr f (Some q)) f None) f (Some (o_parent o1))) None).
  { eapply (TreeG_parent w1 _ None r f _ o1 rs1 w'); [exact B1|exact T1|exact E0|congruence|exact Ers1| | | |exact H].
    - rewrite Lrs1, L1. exact Eidx.
    - unfold oset. rewrite N.eqb_refl. reflexivity.
    - intros _ Hk. discriminate. }
  destruct (parent_pres _ _ _ _ _ _ _ K1 E0 Ers1 H) as [PO _].
  pose proof (frame_parent_object _ _ _ _ _ K1 H) as F2. assert (B2 : Base w') by (eapply frame_Base; eauto).
  eapply TreeG_bk_equiv; [|exact T2]. intros g a Eg p. destruct B2 as [K2 _]. pose proof (K2 _ _ Eg) as Kg.
  destruct (N.eq_dec g f) as [->|Hne].
  - rewrite bk_oset_some by exact Kg. destruct (PO _ _ Eg) as (a1 & Ea1 & _ & _ & _ & M4 & _).
    rewrite E0 in Ea1. inversion Ea1; subst a1. unfold bk, epar, no_ovr. rewrite M4. split; intros [X Y]; split; congruence.
  - rewrite !bk_oset_other by (rewrite Kg; exact Hne). reflexivity.
Qed.

(* ---------- a new object (ObjectUpdate for an unknown full id) ---------- *)
Lemma track_new_Tree : forall w r o w', Idx w -> Tree w -> get_obj w (o_full o) = None -> o_region o = r ->
  o_children o = [] -> o_plink o = None -> region_state w r <> None -> lid_unique w r (o_lid o) (o_full o) -> o_parent o <> o_lid o ->
  track_new w r o = Some w' -> Tree w'.
Proof.
  intros w r o w' I T Hn Hr Hc Hpl Hrs Hu Hself H. pose proof I as (K & A & B). unfold track_new in H.
  bind_inv H. rename w0 into w1. bind_inv H.
  destruct (region_state w r) as [rs|] eqn:Ers; [|congruence]. apply region_state_some in Ers. destruct Ers as [Ers Ht].
  assert (Hfree : aget (o_lid o) (r_local rs) = None).
  { destruct (aget (o_lid o) (r_local rs)) as [g|] eqn:Eg; [|reflexivity].
    pose proof (Hu _ _ Ers Eg) as ->. destruct (A _ _ _ _ Ers Eg) as (og & Eog & _). congruence. }
  assert (Eo : get_obj (set_obj w o) (o_full o) = Some o) by (rewrite get_obj_set_obj, N.eqb_refl; reflexivity).
  assert (T0 : TreeG (set_obj w o) (oset no_ovr (o_full o) None) None).
  { apply TreeG_new_obj; [apply Idx_Base; exact I|exact T|exact Hn|exact Hc|exact Hpl]. }
  assert (B0 : Base (set_obj w o)) by (eapply IdxX_Base; apply IdxX_new; eauto).
  pose proof (track_object_Tree _ _ _ _ _ _ B0 T0 Eo Hr Ers Hfree Hself E) as T1.
  destruct (region_state w1 (o_region o0)); inversion H; subst; [|exact T1].
  eapply tframe_TreeG; [apply tframe_set_futs|exact T1].
Qed.

(* ---------- pframe: lid / full / region / parent of every object and every local-id index are unchanged ---------- *)
Definition pcore (o : obj) : N * N * N * N := (o_lid o, o_full o, o_region o, o_parent o).
Definition pframe (w w' : world) : Prop :=
  (forall g, option_map pcore (get_obj w' g) = option_map pcore (get_obj w g)) /\
  (forall r, option_map r_local (get_rs w' r) = option_map r_local (get_rs w r)).

Lemma pframe_refl : forall w, pframe w w.
Proof. split; reflexivity. Qed.
Lemma pframe_trans : forall a b c, pframe a b -> pframe b c -> pframe a c.
Proof. intros a b c [H1 H2] [H3 H4]. split; intros; [rewrite H3, H1|rewrite H4, H2]; reflexivity. Qed.

Lemma pframe_obj : forall w w' g a', pframe w w' -> get_obj w' g = Some a' ->
  exists a, get_obj w g = Some a /\ o_lid a' = o_lid a /\ o_full a' = o_full a /\ o_region a' = o_region a /\ o_parent a' = o_parent a.
Proof.
  intros w w' g a' [H _] E. specialize (H g). rewrite E in H. cbn in H. destruct (get_obj w g) as [a|]; cbn in H; [|discriminate].
  exists a. unfold pcore in H. inversion H. auto.
Qed.
Lemma pframe_obj_rev : forall w w' g a, pframe w w' -> get_obj w g = Some a ->
  exists a', get_obj w' g = Some a' /\ o_lid a' = o_lid a /\ o_full a' = o_full a /\ o_region a' = o_region a /\ o_parent a' = o_parent a.
Proof.
  intros w w' g a [H _] E. specialize (H g). rewrite E in H. cbn in H. destruct (get_obj w' g) as [a'|]; cbn in H; [|discriminate].
  exists a'. unfold pcore in H. inversion H. auto.
Qed.
Lemma pframe_rs : forall w w' r rs', pframe w w' -> get_rs w' r = Some rs' -> exists rs, get_rs w r = Some rs /\ r_local rs' = r_local rs.
Proof.
  intros w w' r rs' [_ H] E. specialize (H r). rewrite E in H. cbn in H. destruct (get_rs w r) as [rs|]; cbn in H; [|discriminate].
  exists rs. split; congruence.
Qed.
Lemma pframe_rs_rev : forall w w' r rs, pframe w w' -> get_rs w r = Some rs -> exists rs', get_rs w' r = Some rs' /\ r_local rs' = r_local rs.
Proof.
  intros w w' r rs [_ H] E. specialize (H r). rewrite E in H. cbn in H. destruct (get_rs w' r) as [rs'|]; cbn in H; [|discriminate].
  exists rs'. split; congruence.
Qed.

Lemma pframe_Base : forall w w', pframe w w' -> Base w -> Base w'.
Proof.
  intros w w' F [K A]. split.
  - intros g a' E. destruct (pframe_obj _ _ _ _ F E) as (a & Ea & _ & L2 & _). rewrite L2. eauto.
  - intros r rs' l f E1 E2. destruct (pframe_rs _ _ _ _ F E1) as (rs & Ers & L). rewrite L in E2.
    destruct (A _ _ _ _ Ers E2) as (a & Ea & Hl & Hr). destruct (pframe_obj_rev _ _ _ _ F Ea) as (a' & Ea' & L1 & _ & L3 & _).
    exists a'. intuition congruence.
Qed.

Lemma pframe_of_pres : forall w w',
  (forall g a', get_obj w' g = Some a' -> exists a, get_obj w g = Some a /\ o_lid a' = o_lid a /\ o_full a' = o_full a /\
      o_region a' = o_region a /\ o_parent a' = o_parent a) ->
  (forall g a, get_obj w g = Some a -> exists a', get_obj w' g = Some a') ->
  (forall r0 rs', get_rs w' r0 = Some rs' -> exists rs0, get_rs w r0 = Some rs0 /\ r_local rs' = r_local rs0) ->
  (forall r0 rs0, get_rs w r0 = Some rs0 -> exists rs', get_rs w' r0 = Some rs') ->
  pframe w w'.
Proof.
  intros w w' H1 H2 H3 H4. split.
  - intros g. destruct (get_obj w' g) as [a'|] eqn:E'.
    + destruct (H1 _ _ E') as (a & Ea & L1 & L2 & L3 & L4). rewrite Ea. cbn. unfold pcore. congruence.
    + destruct (get_obj w g) as [a|] eqn:E; [|reflexivity]. destruct (H2 _ _ E) as (a' & Ea'). congruence.
  - intros r. destruct (get_rs w' r) as [rs'|] eqn:E'.
    + destruct (H3 _ _ E') as (rs0 & E0 & L). rewrite E0. cbn. congruence.
    + destruct (get_rs w r) as [rs0|] eqn:E; [|reflexivity]. destruct (H4 _ _ E) as (rs' & Ers'). congruence.
Qed.

Lemma pframe_unparent : forall w r f q w', keys_ok w -> unparent_object w r f q = Some w' -> pframe w w'.
Proof.
  intros w r f q w' K H. pose proof H as H0. unfold unparent_object in H0. bind_inv H0. bind_inv H0. clear H0.
  destruct (unparent_pres _ _ _ _ _ _ _ K E E0 H) as (PF & PB & RF & RB).
  apply pframe_of_pres.
  - intros g a' Eg. destruct (PF _ _ Eg) as (a & Ea & L1 & L2 & L3 & L4 & _). eauto 10.
  - intros g a Eg. destruct (PB _ _ Eg) as (a' & Ea' & _). eauto.
  - exact RF.
  - intros rx rsx Er. destruct (RB _ _ Er) as (rs' & Ers' & _). eauto.
Qed.

Lemma pframe_parent : forall w r f h w', keys_ok w -> parent_object w r f h = Some w' -> pframe w w'.
Proof.
  intros w r f h w' K H. pose proof H as H0. unfold parent_object in H0. bind_inv H0. bind_inv H0. clear H0.
  destruct (parent_pres _ _ _ _ _ _ _ K E E0 H) as (PO & PR).
  pose proof (frame_parent_object _ _ _ _ _ K H) as F.
  apply pframe_of_pres.
  - intros g a' Eg. destruct (PO _ _ Eg) as (a & Ea & L1 & L2 & L3 & L4 & _). eauto 10.
  - intros g a Eg. destruct (frame_obj_rev _ _ _ _ F Eg) as (a' & Ea' & _). eauto.
  - exact PR.
  - intros rx rsx Er. destruct (frame_rs_rev _ _ _ _ F Er) as (rs' & Ers' & _). eauto.
Qed.

Lemma pframe_set_rs : forall w r rs rs', get_rs w r = Some rs -> r_local rs' = r_local rs -> pframe w (set_rs w r rs').
Proof.
  intros w r rs rs' E L. split; [reflexivity|]. intros r0. rewrite get_rs_set_rs. destruct (r0 =? r) eqn:Q; [|reflexivity].
  apply N.eqb_eq in Q. subst. rewrite E. cbn. congruence.
Qed.
Lemma pframe_set_futs : forall w fs, pframe w (set_futs w fs).
Proof. split; reflexivity. Qed.

(* ---------- first loop of untrack_object: every child is detached ---------- *)
Lemma odet_cons_ext : forall O f fs g, oset (odet O fs) f None g = odet O (f :: fs) g.
Proof.
  intros. unfold oset, odet. cbn [mem existsb]. destruct (g =? f); cbn [orb]; reflexivity.
Qed.

Lemma unparent_children_TreeG : forall ids w O K r rs w', Base w -> TreeG w O K -> get_rs w r = Some rs -> NoDup ids ->
  (forall c cf, In c ids -> aget c (r_local rs) = Some cf -> O cf = None) ->
  unparent_children w r ids = Some w' ->
  TreeG w' (odet O (fulls rs ids)) K /\ pframe w w'.
Proof.
  induction ids as [|c t IH]; intros w O K r rs w' Bw T Ers ND HO H; simpl in H.
  - inversion H; subst. split; [|apply pframe_refl]. eapply TreeG_ext; [|exact T]. intros g. reflexivity.
  - rewrite Ers in H. cbn [bind] in H. destruct (aget c (r_local rs)) as [cf|] eqn:Ec; [|discriminate].
    bind_inv H. rename o into co. bind_inv H. rename w0 into w1. pose proof Bw as [Kw W2].
    destruct (W2 _ _ _ _ Ers Ec) as (co' & Eco' & Hl & Hr). rewrite E in Eco'. inversion Eco'; subst co'.
    assert (T1 : TreeG w1 (oset O cf None) K).
    { eapply (TreeG_unparent w O K r cf (o_parent co) co rs w1); eauto; [rewrite Hl; exact Ec|].
      unfold epar. rewrite (Kw _ _ E), (HO c cf (or_introl eq_refl) Ec). reflexivity. }
    pose proof (pframe_unparent _ _ _ _ _ Kw E0) as F1. pose proof (pframe_Base _ _ F1 Bw) as B1.
    destruct (pframe_rs_rev _ _ _ _ F1 Ers) as (rs1 & Ers1 & L1).
    assert (Hnc : ~ In c t) by (inversion ND; assumption). assert (NDt : NoDup t) by (inversion ND; assumption).
    destruct (IH w1 (oset O cf None) K r rs1 w' B1 T1 Ers1 NDt) as [T2 F2]; [|exact H|].
    + intros c' cf' Ic' Ec'. rewrite L1 in Ec'. unfold oset. destruct (cf' =? cf) eqn:Q.
      * apply N.eqb_eq in Q. subst cf'. destruct (W2 _ _ _ _ Ers Ec') as (a & Ea & Hla & _). rewrite E in Ea. inversion Ea; subst a. congruence.
      * eapply HO; [right; exact Ic'|exact Ec'].
    + split; [|eapply pframe_trans; eauto].
      eapply TreeG_ext; [|exact T2]. intros g. rewrite (fulls_local rs rs1 t L1).
      assert (Hfs : fulls rs (c :: t) = cf :: fulls rs t) by (unfold fulls; simpl; rewrite Ec; reflexivity).
      rewrite Hfs. unfold odet, oset. cbn [mem existsb]. destruct (g =? cf); cbn [orb]; [|reflexivity].
      destruct (mem g (fulls rs t)); reflexivity.
Qed.

(* ---------- opening a key: nothing is bookkept under it any more ---------- *)
Lemma TreeG_open : forall w O r l, TreeG w O None ->
  (forall rs c cf co, get_rs w r = Some rs -> aget c (r_local rs) = Some cf -> get_obj w cf = Some co -> ~ bk O co l) ->
  TreeG w O (Some (r, l)).
Proof.
  intros w O r l T Hno. assert (KN : forall a b, kne None a b) by (intros a b Hk; discriminate). constructor.
  - apply (tC1 _ _ _ T).
  - intros. eapply (tC2 _ _ _ T); eauto.
  - apply (tC3 _ _ _ T).
  - intros r0 rs p ls c E1 E2 I. destruct (tO1 _ _ _ T _ _ _ _ _ E1 E2 I) as (A1 & A2 & A3). split; [exact A1|]. split; [intros _; apply A2; apply KN|exact A3].
  - intros r0 rs c cf co p E1 E2 E3 B [Hn|Hn].
    + eapply (tO2 _ _ _ T); eauto.
    + inversion Hn; subst. exfalso. eapply Hno; eauto.
  - apply (tO3 _ _ _ T).
  - apply (tP _ _ _ T).
Qed.

(* TreeG only reads the world through get_obj / get_rs *)
Lemma TreeG_wext : forall w w' O K, (forall g, get_obj w' g = get_obj w g) -> (forall r, get_rs w' r = get_rs w r) ->
  TreeG w O K -> TreeG w' O K.
Proof.
  intros w w' O K H1 H2 T. eapply tframe_TreeG; [|exact T]. split; intros; [rewrite H1|rewrite H2]; reflexivity.
Qed.

(* ---------- _track_orphan of a detached, indexed object under an unknown (or open) parent key ---------- *)
Lemma TreeG_track_orphan : forall w O K r rs c cf co l, Base w -> TreeG w O K -> get_rs w r = Some rs ->
  aget c (r_local rs) = Some cf -> get_obj w cf = Some co -> O cf = Some None -> l <> 0 ->
  (aget l (r_local rs) = None \/ K = Some (r, l)) ->
  TreeG (set_rs w r (track_orphan rs c l)) (oset O cf (Some l)) K.
Proof.
  intros w O K r rs c cf co l [Kw W2] T Ers Ec Eco HO Hl0 HK.
  set (w' := set_rs w r (track_orphan rs c l)).
  pose proof (Kw _ _ Eco) as Kcf.
  assert (NB : forall p, ~ bk O co p).
  { intros p [B _]. unfold epar in B. rewrite Kcf, HO in B. discriminate. }
  destruct (W2 _ _ _ _ Ers Ec) as (co0 & Eco0 & Hlc & Hrc). rewrite Eco in Eco0. inversion Eco0; subst co0.
  assert (IDX : forall r0 rs0 c', get_rs w r0 = Some rs0 -> aget c' (r_local rs0) = Some cf -> r0 = r /\ c' = c).
  { intros r0 rs0 c' E1 E2. destruct (W2 _ _ _ _ E1 E2) as (a & Ea & Hla & Hra). rewrite Eco in Ea. inversion Ea; subst a. split; congruence. }
  assert (RS : forall r0 rs', get_rs w' r0 = Some rs' ->
            exists rs0, get_rs w r0 = Some rs0 /\ r_local rs' = r_local rs0 /\
              (r0 <> r -> r_orphans rs' = r_orphans rs0) /\ (r0 = r -> rs0 = rs /\ rs' = track_orphan rs c l)).
  { intros r0 rs' E. unfold w' in E. rewrite get_rs_set_rs in E. destruct (r0 =? r) eqn:Q.
    - apply N.eqb_eq in Q. subst r0. inversion E; subst rs'. exists rs. repeat split; auto; congruence.
    - apply N.eqb_neq in Q. exists rs'. repeat split; auto; congruence. }
  assert (RSb : forall r0 rs0, get_rs w r0 = Some rs0 -> exists rs', get_rs w' r0 = Some rs' /\ r_local rs' = r_local rs0).
  { intros r0 rs0 E. unfold w'. rewrite get_rs_set_rs. destruct (r0 =? r) eqn:Q.
    - apply N.eqb_eq in Q. subst r0. rewrite Ers in E. inversion E; subst rs0. eauto.
    - eauto. }
  assert (BKo : forall g a p, get_obj w g = Some a -> g <> cf -> (bk (oset O cf (Some l)) a p <-> bk O a p)).
  { intros g a p Eg Hne. apply bk_oset_other. rewrite (Kw _ _ Eg). exact Hne. }
  constructor.
  - intros pf po c' cf' E I. change (get_obj w pf = Some po) in E.
    destruct (tC1 _ _ _ T _ _ _ _ E I) as (a & rs0 & A1 & A2 & A3 & A4 & A5 & A6 & A7).
    assert (Hne : cf' <> cf) by (intro; subst cf'; rewrite Eco in A1; inversion A1; subst a; exact (NB _ A4)).
    destruct (RSb _ _ A5) as (rs' & Ers' & Lrs'). exists a, rs'. split; [exact A1|]. split; [exact A2|]. split; [exact A3|].
    split; [apply (BKo _ _ _ A1 Hne); exact A4|]. rewrite Lrs'. auto.
  - intros r0 rs' c' cf' a p pf po E1 E2 E3 B E4 E5 Kn. change (get_obj w cf' = Some a) in E3. change (get_obj w pf = Some po) in E5.
    destruct (RS _ _ E1) as (rs0 & Ers0 & Lrs & _). rewrite Lrs in E2, E4.
    destruct (N.eq_dec cf' cf) as [->|Hne].
    + exfalso. rewrite Eco in E3. inversion E3; subst a. apply bk_oset_some in B; [|exact Kcf]. destruct B as [<- _].
      destruct (IDX _ _ _ Ers0 E2) as [-> _]. assert (rs0 = rs) by congruence. subst rs0.
      destruct HK as [HK|HK]; [congruence|]. apply Kn. exact HK.
    + eapply (tC2 _ _ _ T); eauto. apply (BKo _ _ _ E3 Hne). exact B.
  - intros pf po E. eapply (tC3 _ _ _ T); eauto.
  - intros r0 rs' p ls' c' E1 E2 I.
    destruct (RS _ _ E1) as (rs0 & Ers0 & Lrs & Rsame & Rmod).
    assert (Cases : (r0 = r /\ p = l /\ c' = c) \/ exists ls, aget p (r_orphans rs0) = Some ls /\ In c' ls).
    { destruct (N.eq_dec r0 r) as [->|Hr0].
      - destruct (Rmod eq_refl) as [-> ->]. rewrite track_orphan_get in E2. destruct (p =? l) eqn:Qp.
        + apply N.eqb_eq in Qp. subst p. inversion E2; subst ls'. destruct (aget l (r_orphans rs)) as [ls|] eqn:El.
          * apply in_app_iff in I. destruct I as [I|[I|[]]]; [right; eauto|left; auto].
          * destruct I as [I|[]]. left; auto.
        + right; eauto.
      - rewrite (Rsame Hr0) in E2. right; eauto. }
    destruct Cases as [(-> & -> & ->)|(ls & El & Il)].
    + destruct (Rmod eq_refl) as [-> _]. split; [exact Hl0|]. split.
      * intros Kn. rewrite Lrs. destruct HK as [HK|HK]; [exact HK|]. exfalso. apply Kn. exact HK.
      * exists cf, co. rewrite Lrs. split; [exact Ec|]. split; [exact Eco|]. apply bk_oset_some; [exact Kcf|]. split; [reflexivity|exact Hl0].
    + destruct (tO1 _ _ _ T _ _ _ _ _ Ers0 El Il) as (A1 & A2 & cf' & a & A3 & A4 & A5).
      split; [exact A1|]. split; [rewrite Lrs; exact A2|].
      assert (Hne : cf' <> cf) by (intro; subst cf'; rewrite Eco in A4; inversion A4; subst a; exact (NB _ A5)).
      exists cf', a. rewrite Lrs. split; [exact A3|]. split; [exact A4|]. apply (BKo _ _ _ A4 Hne). exact A5.
  - intros r0 rs' c' cf' a p E1 E2 E3 B Hn. change (get_obj w cf' = Some a) in E3.
    destruct (RS _ _ E1) as (rs0 & Ers0 & Lrs & Rsame & Rmod). rewrite Lrs in E2, Hn.
    destruct (N.eq_dec cf' cf) as [->|Hne].
    + rewrite Eco in E3. inversion E3; subst a. apply bk_oset_some in B; [|exact Kcf]. destruct B as [<- _].
      destruct (IDX _ _ _ Ers0 E2) as [-> ->]. destruct (Rmod eq_refl) as [-> ->]. rewrite track_orphan_get, N.eqb_refl.
      eexists; split; [reflexivity|]. destruct (aget l (r_orphans rs)); [apply in_app_iff; right|]; left; reflexivity.
    + apply (BKo _ _ _ E3 Hne) in B. destruct (tO2 _ _ _ T _ _ _ _ _ _ Ers0 E2 E3 B Hn) as (ls & El & Il).
      destruct (N.eq_dec r0 r) as [->|Hr0].
      * destruct (Rmod eq_refl) as [-> ->]. rewrite track_orphan_get. destruct (p =? l) eqn:Qp; [|eauto].
        apply N.eqb_eq in Qp. subst p. rewrite El. eexists; split; [reflexivity|]. apply in_app_iff. left. exact Il.
      * rewrite (Rsame Hr0). eauto.
  - intros r0 rs' p ls' E1 E2. destruct (RS _ _ E1) as (rs0 & Ers0 & Lrs & Rsame & Rmod).
    destruct (N.eq_dec r0 r) as [->|Hr0]; [|rewrite (Rsame Hr0) in E2; eapply (tO3 _ _ _ T); eauto].
    destruct (Rmod eq_refl) as [-> ->]. rewrite track_orphan_get in E2. destruct (p =? l) eqn:Qp; [|eapply (tO3 _ _ _ T); eauto].
    apply N.eqb_eq in Qp. subst p. inversion E2; subst ls'. destruct (aget l (r_orphans rs)) as [ls|] eqn:El.
    + apply app_one_NoDup; [eapply (tO3 _ _ _ T); eauto|]. intro Il.
      destruct (tO1 _ _ _ T _ _ _ _ _ Ers El Il) as (_ & _ & cf' & a & A3 & A4 & A5).
      rewrite Ec in A3. inversion A3; subst cf'. rewrite Eco in A4. inversion A4; subst a. exact (NB _ A5).
    + constructor; [simpl; tauto|constructor].
  - intros fP aP pfP EP. apply (tP _ _ _ T fP aP pfP EP).
Qed.

(* ---------- second loop of untrack_object: the detached children become orphans of l ---------- *)
Definition oatt (O : ovr) (fs : list N) (l : N) : ovr := fun g => if mem g fs then Some (Some l) else O g.

Lemma set_rs_twice : forall w r a b O K, TreeG (set_rs (set_rs w r a) r b) O K -> TreeG (set_rs w r b) O K.
Proof.
  intros w r a b O K T. eapply TreeG_wext; [| |exact T].
  - intros g. reflexivity.
  - intros r0. rewrite !get_rs_set_rs. destruct (r0 =? r); reflexivity.
Qed.

Lemma orphan_children_TreeG : forall ids w O K r rs l, Base w -> TreeG w O K -> get_rs w r = Some rs -> NoDup ids ->
  (ids <> [] -> l <> 0) -> (aget l (r_local rs) = None \/ K = Some (r, l)) ->
  (forall c, In c ids -> exists cf co, aget c (r_local rs) = Some cf /\ get_obj w cf = Some co /\ O cf = Some None) ->
  TreeG (set_rs w r (orphan_children rs ids l)) (oatt O (fulls rs ids) l) K.
Proof.
  induction ids as [|c t IH]; intros w O K r rs l Bw T Ers ND Hl HK Hc; simpl.
  - eapply TreeG_wext; [| |eapply TreeG_ext; [|exact T]].
    + reflexivity.
    + intros r0. rewrite get_rs_set_rs. destruct (r0 =? r) eqn:Q; [|reflexivity]. apply N.eqb_eq in Q. subst. symmetry. exact Ers.
    + intros g. reflexivity.
  - assert (Hl0 : l <> 0) by (apply Hl; discriminate).
    destruct (Hc c (or_introl eq_refl)) as (cf & co & Ec & Eco & HO).
    pose proof (TreeG_track_orphan _ _ _ _ _ _ _ _ _ Bw T Ers Ec Eco HO Hl0 HK) as T1.
    set (rs1 := track_orphan rs c l) in *. set (w1 := set_rs w r rs1) in *.
    assert (B1 : Base w1) by (eapply pframe_Base; [eapply pframe_set_rs; [exact Ers|reflexivity]|exact Bw]).
    assert (Ers1 : get_rs w1 r = Some rs1) by (unfold w1; rewrite get_rs_set_rs, N.eqb_refl; reflexivity).
    assert (Hnc : ~ In c t) by (inversion ND; assumption). assert (NDt : NoDup t) by (inversion ND; assumption).
    destruct Bw as [Kw W2].
    assert (T2 : TreeG (set_rs w1 r (orphan_children rs1 t l)) (oatt (oset O cf (Some l)) (fulls rs1 t) l) K).
    { apply IH; auto.
      intros c' Ic'. destruct (Hc c' (or_intror Ic')) as (cf' & co' & Ec' & Eco' & HO').
      exists cf', co'. split; [exact Ec'|]. split; [exact Eco'|]. unfold oset. destruct (cf' =? cf) eqn:Q; [|exact HO'].
      apply N.eqb_eq in Q. subst cf'. destruct (W2 _ _ _ _ Ers Ec) as (a & Ea & Hla & _). destruct (W2 _ _ _ _ Ers Ec') as (a' & Ea' & Hla' & _).
      congruence. }
    apply set_rs_twice in T2. eapply TreeG_ext; [|exact T2].
    intros g. rewrite Ec. cbn [app]. rewrite (fulls_local rs rs1 t eq_refl). unfold oatt, oset. cbn [mem existsb].
    destruct (g =? cf); cbn [orb]; [|reflexivity]. destruct (mem g (fulls rs t)); reflexivity.
Qed.

(* ---------- del localid_lookup[l]: the open key closes ---------- *)
Lemma TreeG_unindex : forall w O r rs l x ox, Base w -> TreeG w O (Some (r, l)) -> get_rs w r = Some rs ->
  aget l (r_local rs) = Some x -> get_obj w x = Some ox -> O x = Some None -> o_children ox = [] ->
  TreeG (set_rs w r (with_local rs (adel l (r_local rs)))) O None.
Proof.
  intros w O r rs l x ox [Kw W2] T Ers Elx Eox HO Hch.
  set (w' := set_rs w r (with_local rs (adel l (r_local rs)))).
  pose proof (Kw _ _ Eox) as Kx.
  assert (NB : forall p, ~ bk O ox p).
  { intros p [B _]. unfold epar in B. rewrite Kx, HO in B. discriminate. }
  assert (LOC : forall r0 rs', get_rs w' r0 = Some rs' ->
            exists rs0, get_rs w r0 = Some rs0 /\ r_orphans rs' = r_orphans rs0 /\
              forall c, aget c (r_local rs') = if (r0 =? r) && (c =? l) then None else aget c (r_local rs0)).
  { intros r0 rs' E. unfold w' in E. rewrite get_rs_set_rs in E. destruct (r0 =? r) eqn:Q.
    - apply N.eqb_eq in Q. subst r0. inversion E; subst rs'. exists rs. split; [exact Ers|]. split; [reflexivity|].
      intros c. cbn [r_local with_local andb]. apply aget_adel.
    - exists rs'. split; [exact E|]. split; [reflexivity|]. intros c. reflexivity. }
  assert (LOCb : forall r0 rs0, get_rs w r0 = Some rs0 -> exists rs', get_rs w' r0 = Some rs' /\ r_orphans rs' = r_orphans rs0 /\
              forall c, aget c (r_local rs') = if (r0 =? r) && (c =? l) then None else aget c (r_local rs0)).
  { intros r0 rs0 E. unfold w'. rewrite get_rs_set_rs. destruct (r0 =? r) eqn:Q.
    - apply N.eqb_eq in Q. subst r0. rewrite Ers in E. inversion E; subst rs0. eexists. split; [reflexivity|]. split; [reflexivity|].
      intros c. cbn [r_local with_local andb]. apply aget_adel.
    - exists rs0. split; [exact E|]. split; [reflexivity|]. intros c. reflexivity. }
  (* an entry that resolves to a bookkept object is not x's entry *)
  assert (NOTX : forall r0 rs0 c cf a p, get_rs w r0 = Some rs0 -> aget c (r_local rs0) = Some cf -> get_obj w cf = Some a -> bk O a p ->
                 (r0 =? r) && (c =? l) = false).
  { intros r0 rs0 c cf a p E1 E2 E3 B. destruct (r0 =? r) eqn:Q1; [|reflexivity]. destruct (c =? l) eqn:Q2; [|reflexivity].
    apply N.eqb_eq in Q1, Q2. subst. assert (rs0 = rs) by congruence. subst rs0. rewrite Elx in E2. inversion E2; subst cf.
    rewrite Eox in E3. inversion E3; subst a. destruct (NB _ B). }
  constructor.
  - intros pf po c cf E I. change (get_obj w pf = Some po) in E.
    destruct (tC1 _ _ _ T _ _ _ _ E I) as (a & rs0 & A1 & A2 & A3 & A4 & A5 & A6 & A7).
    destruct (LOCb _ _ A5) as (rs' & E' & _ & L').
    exists a, rs'. split; [exact A1|]. split; [exact A2|]. split; [exact A3|]. split; [exact A4|]. split; [exact E'|].
    rewrite !L', (NOTX _ _ _ _ _ _ A5 A6 A1 A4).
    assert (Q : (o_region po =? r) && (o_lid po =? l) = false).
    { destruct (o_region po =? r) eqn:Q1; [|reflexivity]. destruct (o_lid po =? l) eqn:Q2; [|reflexivity].
      apply N.eqb_eq in Q1, Q2. rewrite Q1 in A5. assert (rs0 = rs) by congruence. subst rs0. rewrite Q2, Elx in A7. inversion A7; subst pf.
      rewrite Eox in E. inversion E; subst po. rewrite Hch in I. destruct I. }
    rewrite Q. auto.
  - intros r0 rs' c cf a p pf po E1 E2 E3 B E4 E5 _. change (get_obj w cf = Some a) in E3. change (get_obj w pf = Some po) in E5.
    destruct (LOC _ _ E1) as (rs0 & Ers0 & _ & L'). rewrite L' in E2, E4.
    destruct ((r0 =? r) && (c =? l)); [discriminate|]. destruct ((r0 =? r) && (p =? l)) eqn:Qp; [discriminate|].
    eapply (tC2 _ _ _ T); eauto. intro Hk. inversion Hk; subst. rewrite !N.eqb_refl in Qp. discriminate.
  - intros pf po E. eapply (tC3 _ _ _ T); eauto.
  - intros r0 rs' p ls c E1 E2 I. destruct (LOC _ _ E1) as (rs0 & Ers0 & Lo & L'). rewrite Lo in E2.
    destruct (tO1 _ _ _ T _ _ _ _ _ Ers0 E2 I) as (A1 & A2 & cf & a & A3 & A4 & A5).
    split; [exact A1|]. split.
    + intros _. rewrite L'. destruct ((r0 =? r) && (p =? l)) eqn:Qp; [reflexivity|]. apply A2. intro Hk. inversion Hk; subst.
      rewrite !N.eqb_refl in Qp. discriminate.
    + exists cf, a. rewrite L', (NOTX _ _ _ _ _ _ Ers0 A3 A4 A5). auto.
  - intros r0 rs' c cf a p E1 E2 E3 B Hn. change (get_obj w cf = Some a) in E3.
    destruct (LOC _ _ E1) as (rs0 & Ers0 & Lo & L'). rewrite L' in E2. rewrite Lo.
    destruct ((r0 =? r) && (c =? l)); [discriminate|]. destruct Hn as [Hn|Hn]; [|discriminate]. rewrite L' in Hn.
    eapply (tO2 _ _ _ T); eauto. destruct ((r0 =? r) && (p =? l)) eqn:Qp; [|left; exact Hn].
    right. apply andb_prop in Qp. destruct Qp as [Q1 Q2]. apply N.eqb_eq in Q1, Q2. subst. reflexivity.
  - intros r0 rs' p ls E1 E2. destruct (LOC _ _ E1) as (rs0 & Ers0 & Lo & L'). rewrite Lo in E2. eapply (tO3 _ _ _ T); eauto.
  - intros fP aP pfP EP. apply (tP _ _ _ T fP aP pfP EP).
Qed.

(* ---------- dropping empty orphan lists is invisible to TreeG ---------- *)
Lemma TreeG_orphans_drop : forall w w' O K,
  (forall g, get_obj w' g = get_obj w g) ->
  (forall r0, match get_rs w' r0, get_rs w r0 with
              | Some rs', Some rs0 => r_local rs' = r_local rs0 /\
                  forall p, aget p (r_orphans rs') = aget p (r_orphans rs0) \/
                            (aget p (r_orphans rs') = None /\ aget p (r_orphans rs0) = Some [])
              | None, None => True
              | _, _ => False
              end) ->
  TreeG w O K -> TreeG w' O K.
Proof.
  intros w w' O K GO R T.
  assert (RF : forall r0 rs', get_rs w' r0 = Some rs' -> exists rs0, get_rs w r0 = Some rs0 /\ r_local rs' = r_local rs0 /\
             forall p, aget p (r_orphans rs') = aget p (r_orphans rs0) \/ (aget p (r_orphans rs') = None /\ aget p (r_orphans rs0) = Some [])).
  { intros r0 rs' E. specialize (R r0). rewrite E in R. destruct (get_rs w r0) as [rs0|]; [|contradiction]. exists rs0. tauto. }
  assert (RB : forall r0 rs0, get_rs w r0 = Some rs0 -> exists rs', get_rs w' r0 = Some rs' /\ r_local rs' = r_local rs0 /\
             forall p, aget p (r_orphans rs') = aget p (r_orphans rs0) \/ (aget p (r_orphans rs') = None /\ aget p (r_orphans rs0) = Some [])).
  { intros r0 rs0 E. specialize (R r0). rewrite E in R. destruct (get_rs w' r0) as [rs'|]; [|contradiction]. exists rs'. tauto. }
  constructor.
  - intros pf po c cf E I. rewrite GO in E. destruct (tC1 _ _ _ T _ _ _ _ E I) as (co & rs & A1 & A2 & A3 & A4 & A5 & A6 & A7).
    destruct (RB _ _ A5) as (rs' & E' & L' & _). exists co, rs'. rewrite GO, L'. auto 10.
  - intros r0 rs' c cf co p pf po E1 E2 E3 B E4 E5 Kn. rewrite GO in E3, E5. destruct (RF _ _ E1) as (rs0 & E0 & L0 & _).
    rewrite L0 in E2, E4. eapply (tC2 _ _ _ T); eauto.
  - intros pf po E. rewrite GO in E. eapply (tC3 _ _ _ T); eauto.
  - intros r0 rs' p ls c E1 E2 I. destruct (RF _ _ E1) as (rs0 & E0 & L0 & Or). destruct (Or p) as [Oe|[On _]]; [|congruence].
    rewrite Oe in E2. destruct (tO1 _ _ _ T _ _ _ _ _ E0 E2 I) as (A1 & A2 & cf & co & A3 & A4 & A5).
    split; [exact A1|]. split; [rewrite L0; exact A2|]. exists cf, co. rewrite L0, GO. auto.
  - intros r0 rs' c cf co p E1 E2 E3 B Hn. rewrite GO in E3. destruct (RF _ _ E1) as (rs0 & E0 & L0 & Or). rewrite L0 in E2, Hn.
    destruct (tO2 _ _ _ T _ _ _ _ _ _ E0 E2 E3 B Hn) as (ls & El & Il). destruct (Or p) as [Oe|[_ On]].
    + rewrite Oe. eauto.
    + rewrite El in On. inversion On; subst ls. destruct Il.
  - intros r0 rs' p ls E1 E2. destruct (RF _ _ E1) as (rs0 & E0 & L0 & Or). destruct (Or p) as [Oe|[On _]]; [|congruence].
    rewrite Oe in E2. eapply (tO3 _ _ _ T); eauto.
  - intros f a pf E. rewrite GO in E. rewrite (tP _ _ _ T f a pf E).
    split; intros (po & Epo & I); exists po; (split; [|exact I]); [rewrite GO; exact Epo|rewrite <- GO; exact Epo].
Qed.

(* ---------- _unparent_object of an object that is already detached changes nothing Tree can see ---------- *)
Lemma TreeG_unparent_detached : forall w O K r x q ox rs w', Base w -> TreeG w O K ->
  get_obj w x = Some ox -> o_region ox = r -> get_rs w r = Some rs -> aget (o_lid ox) (r_local rs) = Some x ->
  O x = Some None -> unparent_object w r x q = Some w' -> TreeG w' O K.
Proof.
  intros w O K r x q ox rs w' [Kw W2] T Eox Hr Ers Eidx HO H.
  destruct (unparent_spec _ _ _ _ _ _ _ Kw Eox Ers H) as [R G].
  pose proof (Kw _ _ Eox) as Kx.
  assert (NB : forall p, ~ bk O ox p).
  { intros p [B _]. unfold epar in B. rewrite Kx, HO in B. discriminate. }
  (* no children list has an entry under x's local id in region r *)
  assert (NOC : forall g og, get_obj w g = Some og -> is_parent_key rs q g = true -> ~ In (o_lid ox) (map fst (o_children og))).
  { intros g og Eg Pk Hi. apply in_map_iff in Hi. destruct Hi as ([c cf] & Hc & Hi). cbn in Hc. subst c.
    destruct (tC1 _ _ _ T _ _ _ _ Eg Hi) as (co & rs0 & A1 & A2 & A3 & A4 & A5 & A6 & A7).
    unfold is_parent_key in Pk. apply andb_prop in Pk. destruct Pk as [_ Pk]. destruct (aget q (r_local rs)) as [pf|] eqn:Eq; [|discriminate].
    apply N.eqb_eq in Pk. subst pf. destruct (W2 _ _ _ _ Ers Eq) as (og' & Eog' & _ & Hrg). rewrite Eg in Eog'. inversion Eog'; subst og'.
    rewrite Hrg, Ers in A5. inversion A5; subst rs0. rewrite Eidx in A6. inversion A6; subst cf. rewrite Eox in A1. inversion A1; subst co.
    exact (NB _ A4). }
  (* no orphan list of region r contains x's local id *)
  assert (NOO : forall p ls, aget p (r_orphans rs) = Some ls -> ~ In (o_lid ox) ls).
  { intros p ls El Hi. destruct (tO1 _ _ _ T _ _ _ _ _ Ers El Hi) as (_ & _ & cf & co & A3 & A4 & A5).
    rewrite Eidx in A3. inversion A3; subst cf. rewrite Eox in A4. inversion A4; subst co. exact (NB _ A5). }
  set (wm := mkW (w_full w') (w_regions w) (w_futs w)).
  assert (PLN : o_plink ox = None).
  { destruct (o_plink ox) as [pf|] eqn:Ep; [|reflexivity]. exfalso.
    destruct (proj1 (tP _ _ _ T x ox pf Eox) Ep) as (po & Epo & I).
    destruct (tC1 _ _ _ T _ _ _ _ Epo I) as (co & rs0 & A1 & _ & _ & A4 & _). rewrite Eox in A1. inversion A1; subst co. exact (NB _ A4). }
  assert (TM : TreeG wm O K).
  { eapply tframe_TreeG; [|exact T]. split; [|reflexivity]. intros g. change (get_obj wm g) with (get_obj w' g).
    pose proof (G g) as Gg. pose proof (unparent_plink _ _ _ _ _ _ _ Kw Eox Ers H g) as Pg.
    destruct (get_obj w' g) as [a'|], (get_obj w g) as [og|] eqn:Eg; cbn in Gg, Pg; try discriminate; [|reflexivity].
    cbn. unfold tcoreP. f_equal. f_equal.
    - injection Gg as G1 G2 G3 G4 G5. unfold tcore. rewrite G1, G2, G3, G4, G5.
      destruct (is_parent_key rs q g) eqn:Pk; [|reflexivity]. rewrite remove1k_notin; [reflexivity|]. eapply NOC; eauto.
    - destruct (g =? x) eqn:Q; [|congruence]. apply N.eqb_eq in Q. subst g. rewrite Eox in Eg. inversion Eg; subst og. congruence. }
  eapply TreeG_orphans_drop; [| |exact TM].
  - intros g. reflexivity.
  - intros r0. change (get_rs wm r0) with (get_rs w r0). rewrite R. destruct ((r0 =? r) && negb (q =? 0)) eqn:Q.
    + apply andb_prop in Q. destruct Q as [Q _]. apply N.eqb_eq in Q. subst r0. rewrite Ers.
      split; [apply untrack_orphan_local|]. intros p. rewrite untrack_orphan_get. destruct (p =? q) eqn:Qp; [|left; reflexivity].
      apply N.eqb_eq in Qp. subst p. destruct (aget q (r_orphans rs)) as [ls|] eqn:El; [|left; reflexivity].
      rewrite (remove1_notin _ _ (NOO _ _ El)). destruct ls; [right; auto|left; reflexivity].
    + destruct (get_rs w r0); [|exact Logic.I]. split; [reflexivity|]. intros p. left. reflexivity.
Qed.

(* ---------- untrack_object of an indexed object (attached, or already detached): it ends detached and un-indexed ---------- *)
Lemma untrack_object_TreeG_gen : forall w O r x o w', Idx w -> TreeG w O None ->
  (forall g, O g = None \/ O g = Some None) -> get_obj w x = Some o -> o_region o = r ->
  untrack_object w r x = Some w' ->
  TreeG w' (oset O x None) None /\
  exists o', get_obj w' x = Some o' /\ pcore o' = pcore o /\ o_children o' = [].
Proof.
  intros w O r x o w' I T FORM Eo Hr H. pose proof I as (Kw & W2 & W3). pose proof (Idx_Base _ I) as Bw.
  destruct (W3 _ _ Eo) as (rs & Ers & _ & Elx). rewrite Hr in Ers. set (l := o_lid o) in *.
  unfold untrack_object in H. rewrite Eo in H. cbn [bind] in H. set (former := map fst (o_children o)) in *.
  bind_inv H. rename w0 into w1.
  assert (ND : NoDup former) by (eapply (tC3 _ _ _ T); eauto).
  assert (CH : forall c, In c former -> exists cf co, aget c (r_local rs) = Some cf /\ get_obj w cf = Some co /\ o_parent co = l /\ l <> 0 /\ O cf = None).
  { intros c Ic. apply in_map_iff in Ic. destruct Ic as ([c' cf] & Hc' & Ic). cbn in Hc'. subst c'.
    destruct (tC1 _ _ _ T _ _ _ _ Eo Ic) as (co & rs0 & A1 & A2 & A3 & A4 & A5 & A6 & A7).
    rewrite Hr, Ers in A5. inversion A5; subst rs0. exists cf, co. destruct A4 as [A4 A4']. unfold epar in A4. rewrite (Kw _ _ A1) in A4.
    destruct (FORM cf) as [F0|F0]; rewrite F0 in A4; [|discriminate]. inversion A4. auto 10. }
  assert (HOc : forall c cf, In c former -> aget c (r_local rs) = Some cf -> O cf = None).
  { intros c cf Ic Ec. destruct (CH c Ic) as (cf' & co & Ec' & _ & _ & _ & HO'). congruence. }
  destruct (unparent_children_TreeG former w O None r rs w1 Bw T Ers ND HOc E) as [T1 F1].
  pose proof (pframe_Base _ _ F1 Bw) as B1.
  bind_inv H. rename r0 into rs1. destruct (pframe_rs _ _ _ _ F1 E0) as (rs' & Ers' & L1). rewrite Ers in Ers'. inversion Ers'; subst rs'.
  set (rs2 := orphan_children rs1 former (o_lid o)) in *. set (w2 := set_rs w1 r rs2) in *.
  bind_inv H. rename o0 into o2. assert (Eo2 : get_obj w1 x = Some o2) by exact E1.
  destruct (pframe_obj _ _ _ _ F1 Eo2) as (o0 & Eo0 & P1 & P2 & P3 & P4). rewrite Eo in Eo0. inversion Eo0; subst o0.
  destruct (o_children o2) eqn:Hch2; [|discriminate].
  set (fs := fulls rs former) in *.
  assert (PAR : forall cf a, In cf fs -> get_obj w1 cf = Some a -> o_parent a = l /\ l <> 0).
  { intros cf a Hi Ea. apply fulls_In in Hi. destruct Hi as (c & Ic & Ec). destruct (CH c Ic) as (cf' & co & Ec' & Eco & Hp & Hl0 & _).
    rewrite Ec in Ec'. inversion Ec'; subst cf'. destruct (pframe_obj _ _ _ _ F1 Ea) as (a0 & Ea0 & _ & _ & _ & Q4).
    rewrite Eco in Ea0. inversion Ea0; subst a0. split; congruence. }
  assert (Elx1 : aget l (r_local rs1) = Some x) by (rewrite L1; exact Elx).
  assert (Topen : TreeG w1 (odet O fs) (Some (r, l))).
  { apply TreeG_open; [exact T1|]. intros rsA c cf co EA Ec Eco Bk. rewrite E0 in EA. inversion EA; subst rsA.
    pose proof (tC2 _ _ _ T1 _ _ _ _ _ _ _ _ E0 Ec Eco Bk Elx1 Eo2 ltac:(intro Hk; discriminate)) as Ic.
    rewrite Hch2 in Ic. destruct Ic. }
  assert (T2 : TreeG w2 (oatt (odet O fs) (fulls rs1 former) l) (Some (r, l))).
  { apply orphan_children_TreeG; auto.
    - intros Hne. destruct former as [|c t] eqn:Ef; [congruence|]. destruct (CH c (or_introl eq_refl)) as (_ & _ & _ & _ & _ & Hl0 & _). exact Hl0.
    - intros c Ic. destruct (CH c Ic) as (cf & co & Ec & Eco & _). destruct (pframe_obj_rev _ _ _ _ F1 Eco) as (co1 & Eco1 & _).
      exists cf, co1. rewrite L1. split; [exact Ec|]. split; [exact Eco1|]. unfold odet.
      assert (M : mem cf fs = true) by (apply mem_In; apply fulls_In; eauto). rewrite M. reflexivity. }
  rewrite (fulls_local rs rs1 former L1) in T2. fold fs in T2.
  assert (L2 : r_local rs2 = r_local rs1).
  { pose proof (ridx_orphan_children former rs1 (o_lid o)) as C. apply ridx_inj in C. apply C. }
  assert (B2 : Base w2) by (eapply pframe_Base; [eapply pframe_set_rs; [exact E0|exact L2]|exact B1]).
  assert (T2' : TreeG w2 O (Some (r, l))).
  { eapply TreeG_bk_equiv; [|exact T2]. intros g a Eg p. change (get_obj w1 g = Some a) in Eg.
    destruct B1 as [K1 _]. pose proof (K1 _ _ Eg) as Kg. unfold bk, epar, oatt, odet. rewrite Kg.
    destruct (mem g fs) eqn:M; [|reflexivity]. apply mem_In in M. destruct (PAR _ _ M Eg) as [Hp Hl0]. rewrite Hp.
    apply fulls_In in M. destruct M as (c & Ic & Ec). rewrite (HOc _ _ Ic Ec). reflexivity. }
  bind_inv H. rename w0 into w3.
  assert (Ers2 : get_rs w2 r = Some rs2) by (unfold w2; rewrite get_rs_set_rs, N.eqb_refl; reflexivity).
  assert (Eo22 : get_obj w2 x = Some o2) by exact Eo2.
  assert (Eidx2 : aget (o_lid o2) (r_local rs2) = Some x) by (rewrite L2, P1; exact Elx1).
  assert (T3 : TreeG w3 (oset O x None) (Some (r, l))).
  { destruct (FORM x) as [F0|F0].
    - eapply (TreeG_unparent w2 O _ r x (o_parent o2) o2 rs2 w3); eauto; [congruence|].
      unfold epar. destruct B2 as [K2' _]. rewrite (K2' _ _ Eo22), F0. reflexivity.
    - eapply TreeG_ext; [|eapply (TreeG_unparent_detached w2 O _ r x (o_parent o2) o2 rs2 w3); eauto; congruence].
      intros g. unfold oset. destruct (g =? x) eqn:Q; [apply N.eqb_eq in Q; subst; exact F0|reflexivity]. }
  destruct B2 as [K2 W22].
  destruct (unparent_pres _ _ _ _ _ _ _ K2 Eo22 Ers2 E2) as (PF & PB & RF & RB).
  pose proof (pframe_unparent _ _ _ _ _ K2 E2) as F3. assert (B3 : Base w3) by (eapply pframe_Base; [exact F3|split; assumption]).
  destruct (PB _ _ Eo22) as (o3 & Eo3 & Q1 & Q2 & Q3 & Q4 & Q5). rewrite Hch2 in Q5.
  assert (Hch3 : o_children o3 = []) by (rewrite Q5; destruct (is_parent_key rs2 (o_parent o2) x); reflexivity).
  set (w4 := cancel_futures w3 r (o_lid o2)) in *.
  bind_inv H. rename r0 into rs4. assert (Ers4 : get_rs w3 r = Some rs4) by exact E3.
  destruct (RF _ _ Ers4) as (rs2' & Ers2' & L4). rewrite Ers2 in Ers2'. inversion Ers2'; subst rs2'.
  destruct (aget (o_lid o2) (r_local rs4)) eqn:El4; [|discriminate]. inversion H; subst w'; clear H.
  assert (T4 : TreeG w4 (oset O x None) (Some (r, l))) by (eapply TreeG_wext; [| |exact T3]; reflexivity).
  assert (B4 : Base w4) by (eapply pframe_Base; [apply pframe_set_futs|exact B3]).
  assert (Elx4 : aget l (r_local rs4) = Some x) by (rewrite L4, L2; exact Elx1).
  rewrite P1. split.
  - eapply (TreeG_unindex w4 _ r rs4 l x o3); eauto. unfold oset. rewrite N.eqb_refl. reflexivity.
  - exists o3. rewrite get_obj_set_rs. split; [exact Eo3|]. split; [|exact Hch3]. unfold pcore. congruence.
Qed.


Lemma untrack_object_TreeG : forall w r x o w', Idx w -> Tree w -> get_obj w x = Some o -> o_region o = r ->
  untrack_object w r x = Some w' ->
  TreeG w' (oset no_ovr x None) None /\
  exists o', get_obj w' x = Some o' /\ pcore o' = pcore o /\ o_children o' = [].
Proof.
  intros w r x o w' I T Eo Hr H. eapply (untrack_object_TreeG_gen w no_ovr); eauto.
Qed.

(* ---------- a detached, un-indexed, childless object may change any field but its full id ---------- *)
Lemma TreeG_set_detached : forall w O K x o', Base w -> TreeG w O K -> O x = Some None ->
  (forall r rs c, get_rs w r = Some rs -> aget c (r_local rs) <> Some x) ->
  (exists ox, get_obj w x = Some ox) -> o_full o' = x -> o_children o' = [] -> o_plink o' = None ->
  TreeG (set_obj w o') O K.
Proof.
  intros w O K x o' [Kw W2] T HO Hun (ox & Eox) Hf Hc Hpl.
  assert (GN : forall g a, get_obj (set_obj w o') g = Some a -> (g = x /\ a = o') \/ (g <> x /\ get_obj w g = Some a)).
  { intros g a E. rewrite get_obj_set_obj, Hf in E. destruct (g =? x) eqn:Q.
    - apply N.eqb_eq in Q. inversion E. subst. left. auto.
    - apply N.eqb_neq in Q. auto. }
  assert (GO : forall g a, get_obj w g = Some a -> g <> x -> get_obj (set_obj w o') g = Some a).
  { intros g a E Hne. rewrite get_obj_set_obj, Hf. apply N.eqb_neq in Hne. rewrite Hne. exact E. }
  assert (NBx : forall a p, get_obj w x = Some a -> ~ bk O a p).
  { intros a p Ea [B _]. unfold epar in B. rewrite (Kw _ _ Ea), HO in B. discriminate. }
  constructor.
  - intros pf po c cf E I. destruct (GN _ _ E) as [[-> ->]|[Hne E0]]; [rewrite Hc in I; destruct I|].
    destruct (tC1 _ _ _ T _ _ _ _ E0 I) as (co & rs & A1 & A2 & A3 & A4 & A5).
    assert (Hcf : cf <> x) by (intro; subst cf; exact (NBx _ _ A1 A4)).
    exists co, rs. split; [apply GO; assumption|]. split; [exact A2|]. split; [exact A3|]. split; [exact A4|exact A5].
  - intros r rs c cf co p pf po E1 E2 E3 B E4 E5 Kn. rewrite get_rs_set_obj in E1.
    destruct (GN _ _ E3) as [[-> _]|[_ E3']]; [destruct (Hun _ _ _ E1 E2)|].
    destruct (GN _ _ E5) as [[-> _]|[_ E5']]; [destruct (Hun _ _ _ E1 E4)|].
    eapply (tC2 _ _ _ T); eauto.
  - intros pf po E. destruct (GN _ _ E) as [[-> ->]|[_ E0]]; [rewrite Hc; constructor|]. eapply (tC3 _ _ _ T); eauto.
  - intros r rs p ls c E1 E2 I. rewrite get_rs_set_obj in E1.
    destruct (tO1 _ _ _ T _ _ _ _ _ E1 E2 I) as (A1 & A2 & cf & co & A3 & A4 & A5).
    split; [exact A1|]. split; [exact A2|]. exists cf, co. split; [exact A3|]. split; [|exact A5].
    apply GO; [exact A4|]. intro; subst cf. exact (Hun _ _ _ E1 A3).
  - intros r rs c cf co p E1 E2 E3 B Hn. rewrite get_rs_set_obj in E1.
    destruct (GN _ _ E3) as [[-> _]|[_ E3']]; [destruct (Hun _ _ _ E1 E2)|]. eapply (tO2 _ _ _ T); eauto.
  - intros r rs p ls E1 E2. rewrite get_rs_set_obj in E1. eapply (tO3 _ _ _ T); eauto.
  - intros g a pf E. destruct (GN _ _ E) as [[-> ->]|[Hne E0]].
    + rewrite Hpl. split; [discriminate|]. intros (po & Epo & I). exfalso.
      destruct (GN _ _ Epo) as [[-> ->]|[_ Epo0]]; [rewrite Hc in I; destruct I|].
      destruct (tC1 _ _ _ T _ _ _ _ Epo0 I) as (co & rs & A1 & _ & _ & A4 & _). exact (NBx _ _ A1 A4).
    + rewrite (tP _ _ _ T g a pf E0). split.
      * intros (po & Epo & I). exists po. split; [|exact I]. apply GO; [exact Epo|]. intro; subst pf.
        destruct (tC1 _ _ _ T _ _ _ _ Epo I) as (co & rs & _ & _ & _ & _ & A5 & _ & A7). exact (Hun _ _ _ A5 A7).
      * intros (po & Epo & I). destruct (GN _ _ Epo) as [[-> ->]|[_ Epo0]]; [rewrite Hc in I; destruct I|]. eauto.
Qed.

(* ---------- second block of _update_existing_object when the region did not change ---------- *)
Lemma second_block_Tree : forall w1 f o1 o2 nr (b : bool) w3, Idx w1 -> Tree w1 -> get_obj w1 f = Some o1 ->
  o_lid o2 = o_lid o1 -> o_full o2 = o_full o1 -> o_region o2 = o_region o1 -> o_children o2 = o_children o1 ->
  o_plink o2 = o_plink o1 ->
  o_region o1 = nr -> (b = false -> o_parent o2 = o_parent o1) ->
  (if b then handle_object_reparented (set_obj w1 o2) nr f (o_parent o1) else Some (set_obj w1 o2)) = Some w3 ->
  Tree w3.
Proof.
  intros w1 f o1 o2 nr b w3 I T Eo H1 H2 H3 H4 H5 Hr Hb H. pose proof I as (K & A & B). pose proof (K _ _ Eo) as Kf.
  destruct b.
  - destruct (B _ _ Eo) as (rs & Ers & _ & Elx). rewrite Hr in Ers.
    assert (T2 : TreeG (set_obj w1 o2) (oset no_ovr f (Some (o_parent o1))) None).
    { eapply TreeG_set_fields; eauto. apply Idx_Base. exact I. }
    assert (B2 : Base (set_obj w1 o2)).
    { eapply frame_Base; [|apply Idx_Base; exact I]. eapply (frame_set_obj w1 f o1); [exact Eo| |exact Kf]. unfold core. congruence. }
    eapply (reparent_Tree (set_obj w1 o2) nr f (o_parent o1) o2 rs w3); eauto.
    + rewrite get_obj_set_obj, H2, Kf, N.eqb_refl. reflexivity.
    + congruence.
    + rewrite H1. exact Elx.
  - inversion H; subst w3. eapply tframe_TreeG; [|exact T]. eapply (tframe_set_obj w1 f o1); [exact Eo| |exact H5|exact Kf].
    unfold tcore. rewrite (Hb eq_refl). congruence.
Qed.

Lemma tcore_inj' : forall o a b c d e, tcore o = (a, b, c, d, e) ->
  o_lid o = a /\ o_full o = b /\ o_region o = c /\ o_parent o = d /\ o_children o = e.
Proof. unfold tcore. intros. inversion H. auto. Qed.

(* ---------- track_object keeps lid / full / region / parent of every object ---------- *)
Lemma adopt_pframe : forall ls w r w', keys_ok w -> adopt w r ls = Some w' -> pframe w w'.
Proof.
  induction ls as [|c t IH]; intros w r w' K H; simpl in H.
  - inversion H. apply pframe_refl.
  - bind_inv H. destruct (aget c (r_local r0)); [|discriminate]. bind_inv H.
    pose proof (pframe_parent _ _ _ _ _ K E0) as F1. eapply pframe_trans; [exact F1|]. eapply IH; [|exact H].
    eapply frame_keys; [eapply frame_parent_object; eauto|exact K].
Qed.

Lemma track_object_pcore : forall w r f w', keys_ok w -> track_object w r f = Some w' ->
  forall g, option_map pcore (get_obj w' g) = option_map pcore (get_obj w g).
Proof.
  intros w r f w' K H. unfold track_object in H. bind_inv H. bind_inv H. rename r0 into rs.
  match type of H with bind (parent_object ?W _ _ _) _ = _ => set (w1 := W) in * end.
  bind_inv H. rename w0 into w2. assert (K1 : keys_ok w1) by exact K.
  pose proof (pframe_parent _ _ _ _ _ K1 E1) as F2.
  bind_inv H. rename r0 into rs2. destruct (collect_orphans rs2 (o_lid o)) as [orph rs3] eqn:Ec.
  assert (K2 : keys_ok w2) by (eapply frame_keys; [eapply frame_parent_object; eauto|exact K1]).
  assert (K3 : keys_ok (set_rs w2 r rs3)) by exact K2.
  pose proof (adopt_pframe _ _ _ _ K3 H) as F4.
  intros g. destruct F4 as [F4 _]. destruct F2 as [F2 _]. rewrite F4. change (get_obj (set_rs w2 r rs3) g) with (get_obj w2 g).
  rewrite F2. reflexivity.
Qed.

Ltac hooks_ttac H :=
  match type of H with (if ?b then _ else _) = _ => destruct b end;
  [ bind_inv H; match type of H with match ?x with _ => _ end = _ => destruct x end;
    inversion H; [apply tframe_set_futs | apply tframe_refl]
  | inversion H; apply tframe_refl ].

(* ---------- _update_existing_object ---------- *)
Lemma update_existing_Tree : forall w f p k w', Idx w -> Tree w ->
  (forall o, get_obj w f = Some o ->
     region_state w (dflt (p_region p) (o_region o)) <> None /\
     lid_unique w (dflt (p_region p) (o_region o)) (dflt (p_lid p) (o_lid o)) f /\
     (o_region o <> dflt (p_region p) (o_region o) ->
        dflt (p_parent p) (o_parent o) <> dflt (p_lid p) (o_lid o)) /\
     (o_region o = dflt (p_region p) (o_region o) -> o_lid o <> dflt (p_lid p) (o_lid o) ->
        o_parent o <> dflt (p_lid p) (o_lid o))) ->
  update_existing w f p k = Some w' -> Tree w'.
Proof.
  intros w f p k w' I T Hok H. pose proof I as (K & A & B). unfold update_existing in H.
  bind_inv H. rename E into Eo. destruct (Hok _ eq_refl) as (Hnew & Huniq & Hself1 & Hself2). clear Hok.
  pose proof (K _ _ Eo) as Kf.
  destruct (B _ _ Eo) as (rso & Erso & Htso & Elo).
  assert (Eold : region_state w (o_region o) = Some rso).
  { unfold region_state. rewrite Erso, Htso. reflexivity. }
  rewrite Eold in H.
  set (nr := dflt (p_region p) (o_region o)) in *. set (nl := dflt (p_lid p) (o_lid o)) in *.
  set (np := dflt (p_parent p) (o_parent o)) in *.
  destruct (region_state w nr) as [rsn|] eqn:Enew; [|congruence]. clear Hnew.
  apply region_state_some in Enew. destruct Enew as [Ersn Htn].
  destruct (o_region o =? nr) eqn:Qr; cbn [negb andb is_some] in H.
  - (* same region *)
    apply N.eqb_eq in Qr.
    assert (Qr2 : (nr =? o_region o) = true) by (apply N.eqb_eq; congruence).
    destruct (o_lid o =? nl) eqn:Ql; cbn [negb andb is_some] in H.
    + (* same lid *)
      apply N.eqb_eq in Ql. cbn [bind] in H. rewrite Eo in H. cbn [bind] in H.
      destruct (update_properties o p) as [o2 ch1] eqn:Eu.
      pose proof (update_properties_tcore _ _ _ _ Eu) as C. apply tcore_inj' in C.
      rewrite Qr2 in H. cbn [negb andb] in H.
      bind_inv H. rename w0 into w3.
      assert (T3 : Tree w3).
      { cbn in C. destruct C as (U1 & U2 & U3 & U4 & U5).
        eapply (second_block_Tree w f o o2 nr _ w3 I T Eo); [| | | | | | |exact E].
        - transitivity nl; [exact U1|symmetry; exact Ql].
        - exact U2.
        - transitivity nr; [exact U3|symmetry; exact Qr].
        - exact U5.
        - exact (update_properties_plink _ _ _ _ Eu).
        - exact Qr.
        - intros Hb. rewrite andb_true_r in Hb. apply negb_false_iff in Hb. apply N.eqb_eq in Hb.
          transitivity np; [exact U4|exact Hb]. }
      eapply tframe_TreeG; [|exact T3]. hooks_ttac H.
    + (* local id changes inside the region *)
      apply N.eqb_neq in Ql.
      bind_inv H. rename w0 into w1. bind_inv H. rename o0 into o1. bind_inv H. rename w0 into w2.
      cbn [bind] in H.
      destruct (untrack_IdxX _ _ _ _ _ I Eo eq_refl E) as (IX1 & (o1' & Eo1' & C1) & FO1 & FR1).
      rewrite E0 in Eo1'. inversion Eo1'; subst o1'; clear Eo1'.
      pose proof (core_inj _ _ C1) as (C1l & C1f & C1r).
      destruct (untrack_object_TreeG _ _ _ _ _ I T Eo eq_refl E) as (TG1 & o1' & Eo1' & P1 & Hch1).
      rewrite E0 in Eo1'. inversion Eo1'; subst o1'; clear Eo1'.
      assert (P1p : o_parent o1 = o_parent o) by (unfold pcore in P1; congruence).
      assert (UNI : forall r rs c, get_rs w1 r = Some rs -> aget c (r_local rs) <> Some f).
      { intros r rs c E1' E2'. destruct IX1 as (_ & AX & _). destruct (AX _ _ _ _ E1' E2') as [Hne _]. congruence. }
      assert (TG1' : TreeG (set_obj w1 (with_lid o1 nl)) (oset no_ovr f None) None).
      { assert (Pl1 : o_plink o1 = None).
        { eapply (detached_plink_none w1 _ None f o1); [apply IX1|exact TG1| |exact E0]. unfold oset. rewrite N.eqb_refl. reflexivity. }
        eapply TreeG_set_detached; [eapply IdxX_Base; exact IX1|exact TG1| |exact UNI|eauto| |exact Hch1|exact Pl1].
        - unfold oset. rewrite N.eqb_refl. reflexivity.
        - cbn. congruence. }
      assert (IX1' : IdxX (set_obj w1 (with_lid o1 nl)) f).
      { apply IdxX_set_obj; [exact IX1|]. cbn. congruence. }
      assert (Eo1n : get_obj (set_obj w1 (with_lid o1 nl)) f = Some (with_lid o1 nl)).
      { rewrite get_obj_set_obj. cbn. rewrite C1f, Kf, N.eqb_refl. reflexivity. }
      assert (Hfree : exists rs, get_rs (set_obj w1 (with_lid o1 nl)) (o_region o) = Some rs /\ r_tracked rs = true /\
                                 aget (o_lid (with_lid o1 nl)) (r_local rs) = None).
      { rewrite get_rs_set_obj. specialize (FR1 (o_region o)). rewrite Erso in FR1. cbn in FR1.
        destruct (get_rs w1 (o_region o)) as [rs1|]; cbn in FR1; [|discriminate].
        unfold ridx, ridx_del in FR1. rewrite N.eqb_refl in FR1. inversion FR1 as [[Ft Fl]].
        exists rs1. split; [reflexivity|]. split; [congruence|]. cbn. rewrite Fl, aget_adel.
        destruct (nl =? o_lid o) eqn:Q; [reflexivity|].
        destruct (aget nl (r_local rso)) as [g|] eqn:Eg; [|reflexivity].
        rewrite <- Qr in Huniq. pose proof (Huniq _ _ Erso Eg) as ->.
        destruct (A _ _ _ _ Erso Eg) as (og & Eog & Hl & _). rewrite Eo in Eog. inversion Eog; subst og.
        rewrite Hl, N.eqb_refl in Q. discriminate. }
      destruct (track_Idx _ _ _ _ _ IX1' Eo1n (eq_trans C1r eq_refl) Hfree E1) as [I2 FO2].
      destruct Hfree as (rsf & Ersf & _ & Hfr).
      assert (T2 : Tree w2).
      { eapply (track_object_Tree _ (o_region o) f (with_lid o1 nl) rsf w2); [eapply IdxX_Base; exact IX1'|exact TG1'|exact Eo1n| |exact Ersf|exact Hfr| |exact E1].
        - cbn. exact C1r.
        - cbn. rewrite P1p. apply Hself2; [exact Qr|exact Ql]. }
      pose proof IX1' as (K1' & _).
      pose proof (track_object_pcore _ _ _ _ K1' E1 f) as PC. rewrite Eo1n in PC.
      bind_inv H. rename o0 into o1b. try rewrite E2 in PC. cbn in PC. inversion PC as [[Cbl Cbf Cbr Cbp]].
      destruct (update_properties o1b p) as [o2 ch1] eqn:Eu.
      pose proof (update_properties_tcore _ _ _ _ Eu) as C. apply tcore_inj' in C.
      rewrite Qr2 in H. cbn [negb andb] in H.
      bind_inv H. rename w0 into w3.
      assert (Dl : dflt (p_lid p) nl = nl) by (unfold nl; destruct (p_lid p); reflexivity).
      assert (Dr : dflt (p_region p) (o_region o) = nr) by reflexivity.
      assert (T3 : Tree w3).
      { rewrite <- P1p, <- Cbp in E3.
        cbn in C. destruct C as (U1 & U2 & U3 & U4 & U5).
        eapply (second_block_Tree w2 f o1b o2 nr _ w3 I2 T2 E2); [| | | | | | |exact E3].
        - rewrite U1, Cbl. exact Dl.
        - exact U2.
        - rewrite U3, Cbr, C1r. transitivity nr; [exact Dr|symmetry; exact Qr].
        - exact U5.
        - exact (update_properties_plink _ _ _ _ Eu).
        - rewrite Cbr, C1r. exact Qr.
        - intros Hb. rewrite andb_true_r in Hb. apply negb_false_iff in Hb. apply N.eqb_eq in Hb.
          transitivity np; [rewrite U4, Cbp, P1p; reflexivity|exact Hb]. }
      eapply tframe_TreeG; [|exact T3]. hooks_ttac H.
  - (* region changes *)
    apply N.eqb_neq in Qr.
    bind_inv H. rename w0 into w1. cbn [bind] in H.
    destruct (untrack_IdxX _ _ _ _ _ I Eo eq_refl E) as (IX1 & (o1 & Eo1 & C1) & FO1 & FR1).
    rewrite Eo1 in H. cbn [bind] in H.
    pose proof (core_inj _ _ C1) as (C1l & C1f & C1r).
    destruct (untrack_object_TreeG _ _ _ _ _ I T Eo eq_refl E) as (TG1 & o1' & Eo1' & P1 & Hch1).
    rewrite Eo1 in Eo1'. inversion Eo1'; subst o1'; clear Eo1'.
    assert (P1p : o_parent o1 = o_parent o) by (unfold pcore in P1; congruence).
    destruct (update_properties o1 p) as [o2 ch1] eqn:Eu.
    pose proof (update_properties_tcore _ _ _ _ Eu) as C. apply tcore_inj' in C. cbn in C. destruct C as (U1 & U2 & U3 & U4 & U5).
    assert (Qr2 : (nr =? o_region o) = false) by (apply N.eqb_neq; congruence).
    rewrite Qr2 in H. cbn [negb] in H.
    bind_inv H. rename w0 into w3.
    assert (UNI : forall r rs c, get_rs w1 r = Some rs -> aget c (r_local rs) <> Some f).
    { intros r rs c E1' E2'. destruct IX1 as (_ & AX & _). destruct (AX _ _ _ _ E1' E2') as [Hne _]. congruence. }
    assert (TG2 : TreeG (set_obj w1 o2) (oset no_ovr f None) None).
    { assert (Pl1 : o_plink o1 = None).
      { eapply (detached_plink_none w1 _ None f o1); [apply IX1|exact TG1| |exact Eo1]. unfold oset. rewrite N.eqb_refl. reflexivity. }
      eapply TreeG_set_detached; [eapply IdxX_Base; exact IX1|exact TG1| |exact UNI|eauto| |congruence|].
      - unfold oset. rewrite N.eqb_refl. reflexivity.
      - congruence.
      - rewrite (update_properties_plink _ _ _ _ Eu). exact Pl1. }
    assert (IX2 : IdxX (set_obj w1 o2) f).
    { apply IdxX_set_obj; [exact IX1|]. congruence. }
    assert (Eo2 : get_obj (set_obj w1 o2) f = Some o2).
    { rewrite get_obj_set_obj. rewrite U2, C1f, Kf, N.eqb_refl. reflexivity. }
    assert (Hr2 : o_region o2 = nr) by (rewrite U3, C1r; reflexivity).
    assert (Hfree : exists rs, get_rs (set_obj w1 o2) nr = Some rs /\ aget (o_lid o2) (r_local rs) = None).
    { rewrite get_rs_set_obj. specialize (FR1 nr). rewrite Ersn in FR1. cbn in FR1.
      destruct (get_rs w1 nr) as [rs1|]; cbn in FR1; [|discriminate].
      unfold ridx, ridx_del in FR1. rewrite Qr2 in FR1. inversion FR1 as [[Ft Fl]].
      exists rs1. split; [reflexivity|]. rewrite Fl, U1, C1l. fold nl.
      destruct (aget nl (r_local rsn)) as [g|] eqn:Eg; [|reflexivity].
      pose proof (Huniq _ _ Ersn Eg) as ->.
      destruct (A _ _ _ _ Ersn Eg) as (og & Eog & _ & Hrg). rewrite Eo in Eog. inversion Eog; subst og. congruence. }
    destruct Hfree as (rsf & Ersf & Hfr).
    assert (T3 : Tree w3).
    { eapply (track_object_Tree _ nr f o2 rsf w3); [eapply IdxX_Base; exact IX2|exact TG2|exact Eo2|exact Hr2|exact Ersf|exact Hfr| |exact E0].
      rewrite U4, U1, P1p, C1l. apply Hself1. exact Qr. }
    eapply tframe_TreeG; [|exact T3]. hooks_ttac H.
Qed.

(* ---------- removing a detached, un-indexed, childless object from the full-id lookup ---------- *)
Lemma TreeG_del : forall w O K x ox, Base w -> TreeG w O K -> O x = Some None -> get_obj w x = Some ox -> o_children ox = [] ->
  (forall r rs c, get_rs w r = Some rs -> aget c (r_local rs) <> Some x) ->
  TreeG (del_obj w x) O K.
Proof.
  intros w O K x ox [Kw W2] T HO Eox Hc Hun.
  assert (NBx : forall p, ~ bk O ox p).
  { intros p [B _]. unfold epar in B. rewrite (Kw _ _ Eox), HO in B. discriminate. }
  assert (GN : forall g a, get_obj (del_obj w x) g = Some a -> g <> x /\ get_obj w g = Some a).
  { intros g a E. rewrite get_obj_del_obj in E. destruct (g =? x) eqn:Q; [discriminate|]. apply N.eqb_neq in Q. auto. }
  assert (GO : forall g a, get_obj w g = Some a -> g <> x -> get_obj (del_obj w x) g = Some a).
  { intros g a E Hne. rewrite get_obj_del_obj. apply N.eqb_neq in Hne. rewrite Hne. exact E. }
  constructor.
  - intros pf po c cf E I. destruct (GN _ _ E) as [Hne E0].
    destruct (tC1 _ _ _ T _ _ _ _ E0 I) as (co & rs & A1 & A2 & A3 & A4 & A5).
    assert (Hcf : cf <> x) by (intro; subst cf; rewrite Eox in A1; inversion A1; subst co; exact (NBx _ A4)).
    exists co, rs. split; [apply GO; assumption|]. split; [exact A2|]. split; [exact A3|]. split; [exact A4|exact A5].
  - intros r rs c cf co p pf po E1 E2 E3 B E4 E5 Kn. destruct (GN _ _ E3) as [_ E3']. destruct (GN _ _ E5) as [_ E5'].
    eapply (tC2 _ _ _ T); eauto.
  - intros pf po E. destruct (GN _ _ E) as [_ E0]. eapply (tC3 _ _ _ T); eauto.
  - intros r rs p ls c E1 E2 I. change (get_rs w r = Some rs) in E1.
    destruct (tO1 _ _ _ T _ _ _ _ _ E1 E2 I) as (A1 & A2 & cf & co & A3 & A4 & A5).
    split; [exact A1|]. split; [exact A2|]. exists cf, co. split; [exact A3|]. split; [|exact A5].
    apply GO; [exact A4|]. intro; subst cf. exact (Hun _ _ _ E1 A3).
  - intros r rs c cf co p E1 E2 E3 B Hn. destruct (GN _ _ E3) as [_ E3']. eapply (tO2 _ _ _ T); eauto.
  - intros r rs p ls E1 E2. eapply (tO3 _ _ _ T); eauto.
  - intros g a pf E. destruct (GN _ _ E) as [Hne E0]. rewrite (tP _ _ _ T g a pf E0). split.
    + intros (po & Epo & I). exists po. split; [|exact I]. apply GO; [exact Epo|]. intro; subst pf.
      rewrite Eox in Epo. inversion Epo; subst po. rewrite Hc in I. destruct I.
    + intros (po & Epo & I). destruct (GN _ _ Epo) as [_ Epo0]. eauto.
Qed.

(* ---------- KillObject without a cascade ---------- *)
(* the killed local id is a tracked object without children, or an unknown id without orphans *)
Definition kill_simple (w : world) (r l : N) : Prop :=
  match lookup_local w r l with
  | Some o => o_children o = []
  | None => forall rs, get_rs w r = Some rs -> aget l (r_orphans rs) = None
  end.

Lemma kill_simple_Tree : forall n w r l w', Idx w -> Tree w -> kill_simple w r l -> kill n w r l = Some w' -> Tree w'.
Proof.
  intros n w r l w' I T Hs H. destruct n as [|n]; simpl in H; [discriminate|].
  bind_inv H. rename r0 into rs.
  set (w1 := set_rs w r (with_missing rs (sdel l (r_missing rs)))) in *.
  assert (F1 : frame w w1) by (eapply frame_set_rs; [exact E|reflexivity]).
  assert (TF1 : tframe w w1) by (eapply tframe_set_rs; [exact E|reflexivity]).
  pose proof (frame_Idx _ _ F1 I) as I1. pose proof (tframe_TreeG _ _ _ _ TF1 T) as T1.
  assert (LL : lookup_local w1 r l = lookup_local w r l).
  { unfold lookup_local, w1. rewrite get_rs_set_rs, N.eqb_refl, E. reflexivity. }
  unfold kill_simple in Hs. rewrite LL in H. destruct (lookup_local w r l) as [o|] eqn:El.
  - rewrite Hs in H. cbn [map rev kill_children bind] in H. bind_inv H. rename w0 into w3. inversion H; subst w'; clear H.
    destruct (lookup_local_some _ _ _ _ I1 LL) as (Eo & Hl & Hr).
    destruct (untrack_object_TreeG _ _ _ _ _ I1 T1 Eo Hr E0) as (TG & o' & Eo' & P & Hch).
    destruct (untrack_IdxX _ _ _ _ _ I1 Eo Hr E0) as (IX & _).
    assert (UNI : forall r0 rs0 c, get_rs w3 r0 = Some rs0 -> aget c (r_local rs0) <> Some (o_full o)).
    { intros r0 rs0 c E1' E2'. destruct IX as (_ & AX & _). destruct (AX _ _ _ _ E1' E2') as [Hne _]. congruence. }
    pose proof (TreeG_del _ _ _ _ _ (IdxX_Base _ _ IX) TG ltac:(unfold oset; rewrite N.eqb_refl; reflexivity) Eo' Hch UNI) as TD.
    eapply TreeG_bk_equiv; [|exact TD]. intros g a Eg p. rewrite get_obj_del_obj in Eg.
    destruct (g =? o_full o) eqn:Q; [discriminate|]. apply N.eqb_neq in Q. destruct IX as (KX & _).
    apply bk_oset_other. rewrite (KX _ _ Eg). exact Q.
  - specialize (Hs _ E). bind_inv H. rename r0 into rs2.
    assert (Ers2 : get_rs w1 r = Some rs2) by exact E0.
    unfold w1 in Ers2. rewrite get_rs_set_rs, N.eqb_refl in Ers2. inversion Ers2; subst rs2.
    unfold collect_orphans in H. cbn [r_orphans with_missing] in H. rewrite Hs in H. cbn [rev retrack_avatars kill_children] in H.
    inversion H; subst w'. eapply tframe_TreeG; [|exact T1].
    eapply tframe_trans; [apply tframe_set_futs|]. eapply tframe_set_rs; [exact E0|reflexivity].
Qed.

