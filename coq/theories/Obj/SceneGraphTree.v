(* C14 - the children / orphan clauses of the invariant (Tree) for the scene-graph model.

   Tree w: (C1/C2) c in children(p) <-> c tracked, bookkept parent of c = lid p <> 0, same region, p tracked;
           (C3) children duplicate-free; (O1/O2) c in orphans[p] <-> c tracked, parent of c = p <> 0, p untracked
           in that region; (O3) orphan lists duplicate-free.

   The handlers pass through states where one object is detached or still bookkept under its old parent, and
   where one local id is (un)indexed before its orphan list is fixed up.  TreeG generalises Tree by
     O : full id -> option (option N)   overrides of the parent an object is currently bookkept under
                                        (Some None = detached, Some (Some q) = still under q),
     K : option (region * lid)          one local id whose children are held as orphans whether or not it
                                        is indexed.
   Tree w = TreeG w (fun _ => None) None. *)
From Coq Require Import NArith List Bool Lia.
From HV Require Import Obj.SceneGraph Obj.SceneGraphProofs.
Import ListNotations.
Open Scope N_scope.

Definition ovr := N -> option (option N).
Definition no_ovr : ovr := fun _ => None.
Definition oset (O : ovr) (f : N) (x : option N) : ovr := fun g => if g =? f then Some x else O g.

Definition epar (O : ovr) (co : obj) : option N :=
  match O (o_full co) with Some x => x | None => Some (o_parent co) end.
(* co is bookkept as a child of local id p *)
Definition bk (O : ovr) (co : obj) (p : N) : Prop := epar O co = Some p /\ p <> 0.

(* keys and validity of index entries (implied by Idx and by IdxX) *)
Definition Base (w : world) : Prop :=
  keys_ok w /\
  (forall r rs l f, get_rs w r = Some rs -> aget l (r_local rs) = Some f ->
     exists o, get_obj w f = Some o /\ o_lid o = l /\ o_region o = r).

Definition kne (K : option (N * N)) (r p : N) : Prop := K <> Some (r, p).

Record TreeG (w : world) (O : ovr) (K : option (N * N)) : Prop := mkTree {
  tC1 : forall pf po c cf, get_obj w pf = Some po -> In (c, cf) (o_children po) ->
        exists co rs, get_obj w cf = Some co /\ o_lid co = c /\ o_region co = o_region po /\ bk O co (o_lid po) /\
                      get_rs w (o_region po) = Some rs /\ aget c (r_local rs) = Some cf /\
                      aget (o_lid po) (r_local rs) = Some pf;
  tC2 : forall r rs c cf co p pf po, get_rs w r = Some rs -> aget c (r_local rs) = Some cf ->
        get_obj w cf = Some co -> bk O co p -> aget p (r_local rs) = Some pf -> get_obj w pf = Some po ->
        kne K r p -> In (c, cf) (o_children po);
  tC3 : forall pf po, get_obj w pf = Some po -> NoDup (map fst (o_children po));
  tO1 : forall r rs p ls c, get_rs w r = Some rs -> aget p (r_orphans rs) = Some ls -> In c ls ->
        p <> 0 /\ (kne K r p -> aget p (r_local rs) = None) /\
        exists cf co, aget c (r_local rs) = Some cf /\ get_obj w cf = Some co /\ bk O co p;
  tO2 : forall r rs c cf co p, get_rs w r = Some rs -> aget c (r_local rs) = Some cf ->
        get_obj w cf = Some co -> bk O co p -> (aget p (r_local rs) = None \/ K = Some (r, p)) ->
        exists ls, aget p (r_orphans rs) = Some ls /\ In c ls;
  tO3 : forall r rs p ls, get_rs w r = Some rs -> aget p (r_orphans rs) = Some ls -> NoDup ls
}.

Definition Tree (w : world) : Prop := TreeG w no_ovr None.

Lemma Idx_Base : forall w, Idx w -> Base w.
Proof. intros w (K & A & _). split; assumption. Qed.
Lemma IdxX_Base : forall w x, IdxX w x -> Base w.
Proof.
  intros w x (K & A & _). split; [assumption|]. intros r rs l f E1 E2. destruct (A _ _ _ _ E1 E2) as [_ H]. exact H.
Qed.

(* pointwise equal overrides *)
Lemma bk_ext : forall O O' co p, (forall g, O g = O' g) -> bk O co p -> bk O' co p.
Proof. intros O O' co p H [H1 H2]. split; [|exact H2]. unfold epar in *. rewrite <- H. exact H1. Qed.

Lemma TreeG_ext : forall w O O' K, (forall g, O g = O' g) -> TreeG w O K -> TreeG w O' K.
Proof.
  intros w O O' K H T. assert (H' : forall g, O' g = O g) by (intro; symmetry; apply H).
  constructor.
  - intros pf po c cf E I. destruct (tC1 _ _ _ T _ _ _ _ E I) as (co & rs & A1 & A2 & A3 & A4 & A5).
    exists co, rs. repeat split; try tauto. eapply bk_ext; [exact H|tauto]. apply A4.
  - intros. eapply (tC2 _ _ _ T); eauto. eapply bk_ext; eauto.
  - apply (tC3 _ _ _ T).
  - intros r rs p ls c E1 E2 I. destruct (tO1 _ _ _ T _ _ _ _ _ E1 E2 I) as (A1 & A2 & cf & co & A3 & A4 & A5).
    split; [exact A1|]. split; [exact A2|]. exists cf, co. repeat split; auto; eapply bk_ext; eauto; apply A5.
  - intros. eapply (tO2 _ _ _ T); eauto. eapply bk_ext; eauto.
  - apply (tO3 _ _ _ T).
Qed.

(* ---------- frames that keep every field Tree depends on ---------- *)
Definition tcore (o : obj) : N * N * N * N * list (N * N) := (o_lid o, o_full o, o_region o, o_parent o, o_children o).
Definition tridx (rs : rstate) : list (N * N) * list (N * list N) := (r_local rs, r_orphans rs).

Definition tframe (w w' : world) : Prop :=
  (forall f, option_map tcore (get_obj w' f) = option_map tcore (get_obj w f)) /\
  (forall r, option_map tridx (get_rs w' r) = option_map tridx (get_rs w r)).

Lemma tframe_refl : forall w, tframe w w.
Proof. split; reflexivity. Qed.
Lemma tframe_trans : forall a b c, tframe a b -> tframe b c -> tframe a c.
Proof. intros a b c [H1 H2] [H3 H4]. split; intros; [rewrite H3, H1|rewrite H4, H2]; reflexivity. Qed.
Lemma tframe_sym : forall a b, tframe a b -> tframe b a.
Proof. intros a b [H1 H2]. split; intros; [rewrite H1|rewrite H2]; reflexivity. Qed.

Lemma tcore_inj : forall o o', tcore o = tcore o' ->
  o_lid o = o_lid o' /\ o_full o = o_full o' /\ o_region o = o_region o' /\ o_parent o = o_parent o' /\
  o_children o = o_children o'.
Proof. unfold tcore. intros o o' H. inversion H. auto. Qed.
Lemma tridx_inj : forall a b, tridx a = tridx b ->
  True /\ r_local a = r_local b /\ r_orphans a = r_orphans b.
Proof. unfold tridx. intros a b H. inversion H. auto. Qed.

Lemma tframe_obj : forall w w' f o', tframe w w' -> get_obj w' f = Some o' ->
  exists o, get_obj w f = Some o /\ tcore o = tcore o'.
Proof.
  intros w w' f o' [H _] E. specialize (H f). rewrite E in H. simpl in H.
  destruct (get_obj w f) as [o|]; simpl in H; [|discriminate]. exists o. split; congruence.
Qed.
Lemma tframe_rs : forall w w' r rs', tframe w w' -> get_rs w' r = Some rs' ->
  exists rs, get_rs w r = Some rs /\ tridx rs = tridx rs'.
Proof.
  intros w w' r rs' [_ H] E. specialize (H r). rewrite E in H. simpl in H.
  destruct (get_rs w r) as [rs|]; simpl in H; [|discriminate]. exists rs. split; congruence.
Qed.

Lemma tframe_Base : forall w w', tframe w w' -> Base w -> Base w'.
Proof.
  intros w w' F [K A]. pose proof (tframe_sym _ _ F) as F'. split.
  - intros f o' E. destruct (tframe_obj _ _ _ _ F E) as (o & Eo & C). apply tcore_inj in C.
    destruct C as (_ & C & _). rewrite <- C. eauto.
  - intros r rs' l f E1 E2. destruct (tframe_rs _ _ _ _ F E1) as (rs & Ers & C). apply tridx_inj in C.
    destruct C as (_ & C & _). rewrite <- C in E2. destruct (A _ _ _ _ Ers E2) as (o & Eo & H1 & H2).
    destruct (tframe_obj _ _ _ _ F' Eo) as (o' & Eo' & C'). apply tcore_inj in C'.
    exists o'. intuition congruence.
Qed.

Lemma bk_tcore : forall O o o' p, tcore o = tcore o' -> bk O o p -> bk O o' p.
Proof.
  intros O o o' p C [H1 H2]. apply tcore_inj in C. destruct C as (_ & Cf & _ & Cp & _).
  split; [|exact H2]. unfold epar in *. rewrite <- Cf, <- Cp. exact H1.
Qed.

Lemma tframe_TreeG : forall w w' O K, tframe w w' -> TreeG w O K -> TreeG w' O K.
Proof.
  intros w w' O K F T. pose proof (tframe_sym _ _ F) as F'.
  constructor.
  - intros pf po' c cf E I.
    destruct (tframe_obj _ _ _ _ F E) as (po & Epo & Cpo). pose proof (tcore_inj _ _ Cpo) as (P1 & P2 & P3 & P4 & P5).
    rewrite <- P5 in I. destruct (tC1 _ _ _ T _ _ _ _ Epo I) as (co & rs & A1 & A2 & A3 & A4 & A5 & A6 & A7).
    destruct (tframe_obj _ _ _ _ F' A1) as (co' & Eco' & Cco). pose proof (tcore_inj _ _ Cco) as (Q1 & Q2 & Q3 & Q4 & Q5).
    destruct (tframe_rs _ _ _ _ F' A5) as (rs' & Ers' & Crs). pose proof (tridx_inj _ _ Crs) as (R1 & R2 & R3).
    exists co', rs'. rewrite <- P3, <- P1. repeat split; try congruence.
    + eapply bk_tcore; [symmetry; exact Cco|]. apply A4.
    + apply A4.
  - intros r rs' c cf co' p pf po' E1 E2 E3 B E4 E5 Kn.
    destruct (tframe_rs _ _ _ _ F E1) as (rs & Ers & Crs). pose proof (tridx_inj _ _ Crs) as (R1 & R2 & R3).
    destruct (tframe_obj _ _ _ _ F E3) as (co & Eco & Cco).
    destruct (tframe_obj _ _ _ _ F E5) as (po & Epo & Cpo). pose proof (tcore_inj _ _ Cpo) as (P1 & P2 & P3 & P4 & P5).
    rewrite <- P5. rewrite <- R2 in E2, E4.
    eapply (tC2 _ _ _ T); eauto. eapply bk_tcore; [symmetry; exact Cco|exact B].
  - intros pf po' E. destruct (tframe_obj _ _ _ _ F E) as (po & Epo & Cpo). pose proof (tcore_inj _ _ Cpo) as (P1 & P2 & P3 & P4 & P5).
    rewrite <- P5. eapply (tC3 _ _ _ T); eauto.
  - intros r rs' p ls c E1 E2 I.
    destruct (tframe_rs _ _ _ _ F E1) as (rs & Ers & Crs). pose proof (tridx_inj _ _ Crs) as (R1 & R2 & R3).
    rewrite <- R3 in E2. destruct (tO1 _ _ _ T _ _ _ _ _ Ers E2 I) as (A1 & A2 & cf & co & A3 & A4 & A5).
    destruct (tframe_obj _ _ _ _ F' A4) as (co' & Eco' & Cco).
    split; [exact A1|]. split; [rewrite <- R2; exact A2|]. exists cf, co'. rewrite <- R2.
    repeat split; auto; try (eapply bk_tcore; [symmetry; exact Cco|]); apply A5.
  - intros r rs' c cf co' p E1 E2 E3 B H.
    destruct (tframe_rs _ _ _ _ F E1) as (rs & Ers & Crs). pose proof (tridx_inj _ _ Crs) as (R1 & R2 & R3).
    destruct (tframe_obj _ _ _ _ F E3) as (co & Eco & Cco).
    rewrite <- R3. rewrite <- R2 in E2, H. eapply (tO2 _ _ _ T); eauto. eapply bk_tcore; [symmetry; exact Cco|exact B].
  - intros r rs' p ls E1 E2.
    destruct (tframe_rs _ _ _ _ F E1) as (rs & Ers & Crs). pose proof (tridx_inj _ _ Crs) as (R1 & R2 & R3).
    rewrite <- R3 in E2. eapply (tO3 _ _ _ T); eauto.
Qed.

(* elementary tframes *)
Lemma tframe_set_obj : forall w f o o', get_obj w f = Some o -> tcore o' = tcore o -> o_full o = f ->
  tframe w (set_obj w o').
Proof.
  intros w f o o' E C K. pose proof (tcore_inj _ _ C) as (_ & Cf & _).
  split; intros; [|reflexivity].
  rewrite get_obj_set_obj. destruct (f0 =? o_full o') eqn:Q; [|reflexivity].
  apply N.eqb_eq in Q. subst f0. rewrite Cf, K, E. simpl. congruence.
Qed.
Lemma tframe_set_rs : forall w r rs rs', get_rs w r = Some rs -> tridx rs' = tridx rs -> tframe w (set_rs w r rs').
Proof.
  intros w r rs rs' E C. split; intros; [reflexivity|].
  rewrite get_rs_set_rs. destruct (r0 =? r) eqn:Q; [|reflexivity].
  apply N.eqb_eq in Q. subst r0. rewrite E. simpl. congruence.
Qed.
Lemma tframe_set_futs : forall w fs, tframe w (set_futs w fs).
Proof. split; reflexivity. Qed.
Lemma tframe_register_all : forall ls w r, tframe w (register_all w r ls).
Proof.
  induction ls; intros; simpl; [apply tframe_refl|].
  eapply tframe_trans; [apply tframe_set_futs|apply IHls].
Qed.

(* ---------- event kinds that do not restructure the graph ---------- *)
Lemma update_properties_tcore : forall o p o' c, update_properties o p = (o', c) ->
  tcore o' = (dflt (p_lid p) (o_lid o), o_full o, dflt (p_region p) (o_region o), dflt (p_parent p) (o_parent o),
              o_children o).
Proof. intros o p o' c H. unfold update_properties in H. inversion H; subst. reflexivity. Qed.

Lemma update_existing_same_tframe : forall w f p k w' o, keys_ok w -> get_obj w f = Some o ->
  dflt (p_region p) (o_region o) = o_region o -> dflt (p_lid p) (o_lid o) = o_lid o ->
  dflt (p_parent p) (o_parent o) = o_parent o ->
  update_existing w f p k = Some w' -> tframe w w'.
Proof.
  intros w f p k w' o K Eo Hr Hl Hp H. unfold update_existing in H. rewrite Eo in H. cbn [bind] in H.
  rewrite Hr, Hl, Hp in H. rewrite !N.eqb_refl in H. cbn [negb andb bind] in H. rewrite Eo in H. cbn [bind] in H.
  destruct (update_properties o p) as [o2 ch1] eqn:Eu. pose proof (update_properties_tcore _ _ _ _ Eu) as C.
  rewrite Hr, Hl, Hp in C. cbn [bind] in H.
  assert (F : tframe w (set_obj w o2)) by (eapply (tframe_set_obj w f o); [exact Eo|exact C|eauto]).
  eapply tframe_trans; [exact F|].
  match type of H with (if ?b then _ else _) = _ => destruct b end.
  - bind_inv H. destruct (region_state (set_obj w o2) (o_region o0)); inversion H; [apply tframe_set_futs|apply tframe_refl].
  - inversion H. apply tframe_refl.
Qed.

Lemma clear_spec : forall w r w', keys_ok w -> step w (EClear r) = Some w' ->
  (forall g, get_obj w' g = match get_obj w g with Some o => if o_region o =? r then None else Some o | None => None end) /\
  (forall r', get_rs w' r' = if r' =? r then Some empty_rs else get_rs w r').
Proof.
  intros w r w' K H. cbn [step] in H. bind_inv H. inversion H; subst w'; clear H.
  cbn [set_rs cancel_region_futures set_futs w_full w_regions w_futs]. split.
  - intros g. unfold get_obj at 1. cbn [w_full]. rewrite untrack_region_get by exact K.
    unfold get_obj. destruct (aget g (w_full w)) eqn:Eg; [|reflexivity].
    rewrite (aget_mem_keys _ _ _ _ Eg). reflexivity.
  - intros r'. unfold get_rs. cbn [w_regions]. apply aget_aset.
Qed.

Lemma clear_Tree : forall w r w', Idx w -> Tree w -> step w (EClear r) = Some w' -> Tree w'.
Proof.
  intros w r w' I T H. pose proof I as (K & A & B). destruct (clear_spec _ _ _ K H) as [G R].
  assert (GS : forall g o, get_obj w' g = Some o -> get_obj w g = Some o /\ (o_region o =? r) = false).
  { intros g o E. rewrite G in E. destruct (get_obj w g) as [o0|]; [|discriminate].
    destruct (o_region o0 =? r) eqn:Q; inversion E; subst; auto. }
  assert (RS : forall r' rs, get_rs w' r' = Some rs -> (r' =? r) = false -> get_rs w r' = Some rs).
  { intros r' rs E Q. rewrite R, Q in E. exact E. }
  assert (RE : forall r' rs, get_rs w' r' = Some rs -> (r' =? r) = true -> rs = empty_rs).
  { intros r' rs E Q. rewrite R, Q in E. congruence. }
  assert (GK : forall g o, get_obj w g = Some o -> (o_region o =? r) = false -> get_obj w' g = Some o).
  { intros g o E Q. rewrite G, E, Q. reflexivity. }
  constructor.
  - intros pf po c cf E I0. destruct (GS _ _ E) as [E0 Q].
    destruct (tC1 _ _ _ T _ _ _ _ E0 I0) as (co & rs & A1 & A2 & A3 & A4 & A5 & A6 & A7).
    exists co, rs. repeat split; try tauto; try apply A4.
    + apply GK; [exact A1|congruence].
    + rewrite R, Q. exact A5.
  - intros r' rs c cf co p pf po E1 E2 E3 Bk E4 E5 Kn. destruct (r' =? r) eqn:Q.
    + rewrite (RE _ _ E1 Q) in E2. discriminate.
    + destruct (GS _ _ E3) as [E3' _]. destruct (GS _ _ E5) as [E5' _].
      eapply (tC2 _ _ _ T); eauto.
  - intros pf po E. destruct (GS _ _ E) as [E0 _]. eapply (tC3 _ _ _ T); eauto.
  - intros r' rs p ls c E1 E2 I0. destruct (r' =? r) eqn:Q.
    + rewrite (RE _ _ E1 Q) in E2. discriminate.
    + pose proof (RS _ _ E1 Q) as E1'.
      destruct (tO1 _ _ _ T _ _ _ _ _ E1' E2 I0) as (A1 & A2 & cf & co & A3 & A4 & A5).
      split; [exact A1|]. split; [exact A2|]. exists cf, co. repeat split; auto; try apply A5.
      destruct (A _ _ _ _ E1' A3) as (co' & Eco' & _ & Hr). rewrite A4 in Eco'. inversion Eco'; subst co'.
      apply GK; [exact A4|congruence].
  - intros r' rs c cf co p E1 E2 E3 Bk Hn. destruct (r' =? r) eqn:Q.
    + rewrite (RE _ _ E1 Q) in E2. discriminate.
    + destruct (GS _ _ E3) as [E3' _]. eapply (tO2 _ _ _ T); eauto.
  - intros r' rs p ls E1 E2. destruct (r' =? r) eqn:Q.
    + rewrite (RE _ _ E1 Q) in E2. discriminate.
    + eapply (tO3 _ _ _ T); eauto.
Qed.

Definition quiet_kind (e : event) : Prop :=
  match e with
  | EFull _ _ _ _ _ _ _ | EKill _ _ => False
  | _ => True
  end.

(* terse / cached / properties / region teardown / track region / the three request kinds preserve Tree *)
Lemma step_Tree_quiet : forall w e w', Idx w -> Tree w -> quiet_kind e -> step w e = Some w' -> Tree w'.
Proof.
  intros w e w' I T Q H. pose proof I as (K & A & B).
  destruct e as [cmp r l f p av v|r l v|r l crc v|f v|r l|r|r|r l|r l|r]; try contradiction.
  - (* terse *)
    cbn [step] in H. destruct (region_state w r) as [rs|] eqn:Ers; [|inversion H; subst; exact T].
    destruct (lookup_local w r l) as [o|] eqn:El.
    + destruct (lookup_local_some _ _ _ _ I El) as (Eo & Hl & Hr).
      eapply tframe_TreeG; [|exact T]. eapply (update_existing_same_tframe _ _ _ _ _ o K Eo); [| | |exact H]; cbn; congruence.
    + inversion H; subst. apply region_state_some in Ers. destruct Ers as [Ers _].
      eapply tframe_TreeG; [eapply tframe_set_rs; [exact Ers|reflexivity]|exact T].
  - (* cached *)
    cbn [step] in H. destruct (region_state w r) as [rs|] eqn:Ers; [|inversion H; subst; exact T].
    assert (Fm : Tree (set_rs w r (with_missing rs (sadd l (r_missing rs))))).
    { pose proof Ers as Ers'. apply region_state_some in Ers'. destruct Ers' as [Ers' _].
      eapply tframe_TreeG; [eapply tframe_set_rs; [exact Ers'|reflexivity]|exact T]. }
    destruct (lookup_local w r l) as [o|] eqn:El; [|inversion H; subst; exact Fm].
    destruct (o_crc o =? crc); [|inversion H; subst; exact Fm].
    destruct (lookup_local_some _ _ _ _ I El) as (Eo & Hl & Hr).
    eapply tframe_TreeG; [|exact T]. eapply (update_existing_same_tframe _ _ _ _ _ o K Eo); [| | |exact H]; cbn; congruence.
  - (* properties *)
    cbn [step] in H. destruct (get_obj w f) as [o|] eqn:Eo; [|inversion H; subst; exact T].
    eapply tframe_TreeG; [|exact T]. eapply (update_existing_same_tframe _ _ _ _ _ o K Eo); [| | |exact H]; reflexivity.
  - eapply clear_Tree; eauto.
  - cbn [step] in H. bind_inv H. inversion H; subst.
    eapply tframe_TreeG; [eapply tframe_set_rs; [exact E|reflexivity]|exact T].
  - cbn [step] in H. bind_inv H. inversion H; subst. eapply tframe_TreeG; [apply tframe_set_futs|exact T].
  - cbn [step] in H. bind_inv H. inversion H; subst. eapply tframe_TreeG; [apply tframe_set_futs|exact T].
  - cbn [step] in H. bind_inv H. inversion H; subst. eapply tframe_TreeG; [apply tframe_register_all|exact T].
Qed.

(* ---------- list lemmas ---------- *)
Lemma mem_In : forall x l, mem x l = true <-> In x l.
Proof.
  intros x l. unfold mem. rewrite existsb_exists. split.
  - intros (y & Hy & E). apply N.eqb_eq in E. subst. exact Hy.
  - intros H. exists x. split; [exact H|apply N.eqb_refl].
Qed.
Lemma mem_false : forall x l, mem x l = false <-> ~ In x l.
Proof. intros. rewrite <- mem_In. destruct (mem x l); split; intros; congruence. Qed.

Lemma remove1_In : forall x y l, In y (remove1 x l) -> In y l.
Proof.
  induction l as [|a t IH]; simpl; intros H; [exact H|].
  destruct (x =? a); [right; exact H|]. destruct H as [H|H]; [left; exact H|right; auto].
Qed.
Lemma remove1_In_neq : forall x y l, In y l -> y <> x -> In y (remove1 x l).
Proof.
  induction l as [|a t IH]; simpl; intros H Hn; [exact H|].
  destruct (x =? a) eqn:Q.
  - apply N.eqb_eq in Q. subst a. destruct H as [H|H]; [congruence|exact H].
  - destruct H as [H|H]; [left; exact H|right; auto].
Qed.
Lemma remove1_NoDup : forall x l, NoDup l -> NoDup (remove1 x l) /\ ~ In x (remove1 x l).
Proof.
  induction l as [|a t IH]; simpl; intros H; [split; [constructor|tauto]|].
  inversion H as [|? ? Hn Ht]; subst. destruct (x =? a) eqn:Q.
  - apply N.eqb_eq in Q. subst a. split; assumption.
  - apply N.eqb_neq in Q. destruct (IH Ht) as [I1 I2]. split.
    + constructor; [|exact I1]. intro Hc. apply Hn. eapply remove1_In; eauto.
    + simpl. intros [Hc|Hc]; [congruence|tauto].
Qed.
Lemma remove1_notin : forall x l, ~ In x l -> remove1 x l = l.
Proof.
  induction l as [|a t IH]; simpl; intros H; [reflexivity|].
  destruct (x =? a) eqn:Q; [apply N.eqb_eq in Q; subst; tauto|]. f_equal. apply IH. tauto.
Qed.

Lemma remove1k_In : forall A x (y : N * A) l, In y (remove1k x l) -> In y l.
Proof.
  induction l as [|[a v] t IH]; simpl; intros H; [exact H|].
  destruct (x =? a); [right; exact H|]. destruct H as [H|H]; [left; exact H|right; auto].
Qed.
Lemma remove1k_In_neq : forall A x c (v : A) l, In (c, v) l -> c <> x -> In (c, v) (remove1k x l).
Proof.
  induction l as [|[a u] t IH]; simpl; intros H Hn; [exact H|].
  destruct (x =? a) eqn:Q.
  - apply N.eqb_eq in Q. subst a. destruct H as [H|H]; [inversion H; congruence|exact H].
  - destruct H as [H|H]; [left; exact H|right; auto].
Qed.
Lemma remove1k_fst_In : forall A x y (l : list (N * A)), In y (map fst (remove1k x l)) -> In y (map fst l).
Proof.
  induction l as [|[a v] t IH]; simpl; intros H; [exact H|].
  destruct (x =? a); [right; exact H|]. simpl in H. destruct H as [H|H]; [left; exact H|right; auto].
Qed.
Lemma remove1k_NoDup : forall A x (l : list (N * A)), NoDup (map fst l) ->
  NoDup (map fst (remove1k x l)) /\ ~ In x (map fst (remove1k x l)).
Proof.
  induction l as [|[a v] t IH]; simpl; intros H; [split; [constructor|tauto]|].
  inversion H as [|? ? Hn Ht]; subst. destruct (x =? a) eqn:Q.
  - apply N.eqb_eq in Q. subst a. split; assumption.
  - apply N.eqb_neq in Q. destruct (IH Ht) as [I1 I2]. split.
    + simpl. constructor; [|exact I1]. intro Hc. apply Hn. eapply remove1k_fst_In; eauto.
    + simpl. intros [Hc|Hc]; [congruence|tauto].
Qed.
Lemma remove1k_notin : forall A x (l : list (N * A)), ~ In x (map fst l) -> remove1k x l = l.
Proof.
  induction l as [|[a v] t IH]; simpl; intros H; [reflexivity|].
  destruct (x =? a) eqn:Q; [apply N.eqb_eq in Q; subst; tauto|]. f_equal. apply IH. tauto.
Qed.
Lemma In_fst : forall A c (v : A) (l : list (N * A)), In (c, v) l -> In c (map fst l).
Proof. intros. change c with (fst (c, v)). apply in_map. assumption. Qed.

(* ---------- orphan table primitives ---------- *)
Lemma track_orphan_get : forall rs l p p',
  aget p' (r_orphans (track_orphan rs l p)) =
  if p' =? p then Some (match aget p (r_orphans rs) with Some ls => ls ++ [l] | None => [l] end)
  else aget p' (r_orphans rs).
Proof. intros. unfold track_orphan. cbn [r_orphans with_orphans]. apply aget_aset. Qed.
Lemma track_orphan_local : forall rs l p, r_local (track_orphan rs l p) = r_local rs.
Proof. reflexivity. Qed.

Lemma untrack_orphan_get : forall rs l q p',
  aget p' (r_orphans (untrack_orphan rs l q)) =
  if p' =? q then
    match aget q (r_orphans rs) with
    | Some ls => match remove1 l ls with [] => None | x => Some x end
    | None => None
    end
  else aget p' (r_orphans rs).
Proof.
  intros. unfold untrack_orphan. destruct (aget q (r_orphans rs)) as [ls|] eqn:E.
  - assert (R : (if mem l ls then remove1 l ls else ls) = remove1 l ls).
    { destruct (mem l ls) eqn:M; [reflexivity|]. symmetry. apply remove1_notin. apply mem_false. exact M. }
    rewrite R. destruct (remove1 l ls) eqn:Er; cbn [r_orphans with_orphans].
    + rewrite aget_adel. destruct (p' =? q); reflexivity.
    + rewrite aget_aset. destruct (p' =? q); reflexivity.
  - destruct (p' =? q) eqn:Q; [|reflexivity]. apply N.eqb_eq in Q. subst. exact E.
Qed.
Lemma untrack_orphan_local : forall rs l q, r_local (untrack_orphan rs l q) = r_local rs.
Proof.
  intros. unfold untrack_orphan. destruct (aget q (r_orphans rs)); [|reflexivity].
  destruct (if mem l l0 then remove1 l l0 else l0); reflexivity.
Qed.

(* ---------- closed forms of _unparent_object / _parent_object ---------- *)
Definition with_ch (og : obj) (ch : list (N * N)) : N * N * N * N * list (N * N) :=
  (o_lid og, o_full og, o_region og, o_parent og, ch).

Lemma tcore_with_ch : forall og, tcore og = with_ch og (o_children og).
Proof. reflexivity. Qed.

Definition is_parent_key (rs : rstate) (q g : N) : bool :=
  negb (q =? 0) && match aget q (r_local rs) with Some pf => pf =? g | None => false end.

Lemma unparent_spec : forall w r f q w' o rs, keys_ok w -> get_obj w f = Some o -> get_rs w r = Some rs ->
  unparent_object w r f q = Some w' ->
  (forall r', get_rs w' r' = if (r' =? r) && negb (q =? 0) then Some (untrack_orphan rs (o_lid o) q) else get_rs w r') /\
  (forall g, option_map tcore (get_obj w' g) =
             option_map (fun og => with_ch og (if is_parent_key rs q g then remove1k (o_lid o) (o_children og)
                                               else o_children og)) (get_obj w g)).
Proof.
  intros w r f q w' o rs K Eo Ers H. unfold unparent_object in H. rewrite Eo, Ers in H. cbn [bind] in H.
  pose proof (K _ _ Eo) as Kf.
  set (w1 := set_obj w (with_plink o None)) in *.
  assert (G1 : forall g, option_map tcore (get_obj w1 g) = option_map tcore (get_obj w g)).
  { intros g. unfold w1. rewrite get_obj_set_obj. cbn [o_full with_plink]. rewrite Kf.
    destruct (g =? f) eqn:Q; [|reflexivity]. apply N.eqb_eq in Q. subst g. rewrite Eo. reflexivity. }
  unfold is_parent_key. destruct (q =? 0) eqn:Q0; cbn [negb andb].
  - inversion H; subst w'. split; [intros r'; rewrite andb_false_r; reflexivity|].
    intros g. rewrite G1. destruct (get_obj w g); reflexivity.
  - set (w2 := set_rs w1 r (untrack_orphan rs (o_lid o) q)) in *.
    assert (R2 : forall r', get_rs w2 r' = if (r' =? r) && true then Some (untrack_orphan rs (o_lid o) q) else get_rs w r').
    { intros r'. unfold w2. rewrite get_rs_set_rs. rewrite andb_true_r. destruct (r' =? r); reflexivity. }
    destruct (aget q (r_local rs)) as [pf|] eqn:Ep.
    + destruct (get_obj w2 pf) as [po|] eqn:Epo; [|discriminate].
      assert (Epo1 : get_obj w1 pf = Some po) by exact Epo.
      pose proof (G1 pf) as Gpf. rewrite Epo1 in Gpf. cbn in Gpf.
      destruct (get_obj w pf) as [og|] eqn:Eog; cbn in Gpf; [|discriminate]. inversion Gpf as [[P1 P2 P3 P4 P5]].
      pose proof (K _ _ Eog) as Kpf.
      destruct (mem (o_lid o) (map fst (o_children po))) eqn:M; inversion H; subst w'; clear H.
      * split; [intros r'; rewrite get_rs_set_obj; apply R2|].
        intros g. rewrite get_obj_set_obj. cbn [o_full with_children]. rewrite P2, Kpf. rewrite (N.eqb_sym pf g).
        destruct (g =? pf) eqn:Q.
        -- apply N.eqb_eq in Q. subst g. rewrite Eog. cbn. unfold with_ch, tcore. cbn. rewrite P1, P2, P3, P4, P5. reflexivity.
        -- change (get_obj w2 g) with (get_obj w1 g). rewrite G1. destruct (get_obj w g); reflexivity.
      * split; [exact R2|]. intros g. change (get_obj w2 g) with (get_obj w1 g). rewrite G1.
        destruct (get_obj w g) as [og'|] eqn:Eg; [|reflexivity]. cbn. destruct (pf =? g) eqn:Q; [|reflexivity].
        apply N.eqb_eq in Q. subst g. rewrite Eog in Eg. inversion Eg; subst og'.
        rewrite remove1k_notin; [reflexivity|]. rewrite <- P5. apply mem_false. exact M.
    + inversion H; subst w'. split; [exact R2|]. intros g. change (get_obj w2 g) with (get_obj w1 g). rewrite G1.
      destruct (get_obj w g); reflexivity.
Qed.

Definition ins_child (h : bool) (e : N * N) (ch : list (N * N)) : list (N * N) := if h then e :: ch else ch ++ [e].

Lemma parent_spec : forall w r f h w' o rs, keys_ok w -> get_obj w f = Some o -> get_rs w r = Some rs ->
  parent_object w r f h = Some w' ->
  (o_parent o = 0 -> w' = w) /\
  (o_parent o <> 0 -> forall pf, aget (o_parent o) (r_local rs) = Some pf ->
     exists po, get_obj w pf = Some po /\ ~ In (o_lid o) (map fst (o_children po)) /\
       (forall r', get_rs w' r' = get_rs w r') /\
       (forall g, option_map tcore (get_obj w' g) =
                  option_map (fun og => with_ch og (if g =? pf then ins_child h (o_lid o, f) (o_children og)
                                                    else o_children og)) (get_obj w g))) /\
  (o_parent o <> 0 -> aget (o_parent o) (r_local rs) = None ->
     (forall r', option_map tridx (get_rs w' r') =
                 if r' =? r then Some (tridx (track_orphan rs (o_lid o) (o_parent o))) else option_map tridx (get_rs w r')) /\
     (forall g, option_map tcore (get_obj w' g) = option_map tcore (get_obj w g))).
Proof.
  intros w r f h w' o rs K Eo Ers H. unfold parent_object in H. rewrite Eo, Ers in H. cbn [bind] in H.
  pose proof (K _ _ Eo) as Kf.
  destruct (o_parent o =? 0) eqn:Q0.
  - apply N.eqb_eq in Q0. inversion H; subst w'. split; [reflexivity|]. split; intros; congruence.
  - apply N.eqb_neq in Q0. split; [congruence|].
    destruct (aget (o_parent o) (r_local rs)) as [pf|] eqn:Ep.
    + split; [|intros; congruence]. intros _ pf' Epf'. inversion Epf'; subst pf'.
      bind_inv H. rename o0 into po. destruct (mem (o_lid o) (map fst (o_children po))) eqn:M; [discriminate|].
      bind_inv H. rename o0 into o1. inversion H; subst w'; clear H.
      pose proof (K _ _ E) as Kpf.
      exists po. split; [reflexivity|]. split; [apply mem_false; exact M|]. split; [reflexivity|].
      intros g.
      set (ch := if h then (o_lid o, f) :: o_children po else o_children po ++ [(o_lid o, f)]) in *.
      assert (G1 : forall g, get_obj (set_obj w (with_children po ch)) g = if g =? pf then Some (with_children po ch) else get_obj w g).
      { intros g'. rewrite get_obj_set_obj. cbn [o_full with_children]. rewrite Kpf. reflexivity. }
      assert (Ko1 : o_full o1 = f /\ tcore o1 = if f =? pf then with_ch po ch else tcore o).
      { rewrite G1 in E0. destruct (f =? pf) eqn:Q.
        - inversion E0; subst o1. cbn. apply N.eqb_eq in Q. split; [congruence|reflexivity].
        - rewrite Eo in E0. inversion E0; subst o1. auto. }
      destruct Ko1 as [Ko1 Co1].
      rewrite get_obj_set_obj. cbn [o_full with_plink]. rewrite Ko1. destruct (g =? f) eqn:Qf.
      * apply N.eqb_eq in Qf. subst g. rewrite Eo. cbn. unfold tcore at 1. cbn [o_lid o_full o_region o_parent o_children with_plink].
        change (o_lid o1, o_full o1, o_region o1, o_parent o1, o_children o1) with (tcore o1). rewrite Co1.
        destruct (f =? pf) eqn:Q; [|reflexivity]. apply N.eqb_eq in Q. assert (po = o) by congruence. subst po.
        unfold ins_child, ch. destruct h; reflexivity.
      * rewrite G1. destruct (g =? pf) eqn:Q.
        -- apply N.eqb_eq in Q. subst g. rewrite E. cbn. unfold ins_child, ch. destruct h; reflexivity.
        -- destruct (get_obj w g); reflexivity.
    + split; [intros; congruence|]. intros _ _. inversion H; subst w'; clear H. split.
      * intros r'. rewrite get_rs_set_obj, get_rs_set_rs. destruct (r' =? r); reflexivity.
      * intros g. rewrite get_obj_set_obj. cbn [o_full with_plink]. rewrite Kf. rewrite get_obj_set_rs.
        destruct (g =? f) eqn:Q; [|reflexivity]. apply N.eqb_eq in Q. subst g. rewrite Eo. reflexivity.
Qed.

(* ---------- reading the closed forms ---------- *)
Lemma ospec_fwd : forall w w' (CH : N -> obj -> list (N * N)),
  (forall g, option_map tcore (get_obj w' g) = option_map (fun og => with_ch og (CH g og)) (get_obj w g)) ->
  forall g o', get_obj w' g = Some o' ->
  exists og, get_obj w g = Some og /\ o_lid o' = o_lid og /\ o_full o' = o_full og /\ o_region o' = o_region og /\
             o_parent o' = o_parent og /\ o_children o' = CH g og.
Proof.
  intros w w' CH H g o' E. specialize (H g). rewrite E in H. cbn in H.
  destruct (get_obj w g) as [og|]; cbn in H; [|discriminate]. exists og. unfold tcore, with_ch in H.
  inversion H. auto 10.
Qed.
Lemma ospec_bwd : forall w w' (CH : N -> obj -> list (N * N)),
  (forall g, option_map tcore (get_obj w' g) = option_map (fun og => with_ch og (CH g og)) (get_obj w g)) ->
  forall g og, get_obj w g = Some og ->
  exists o', get_obj w' g = Some o' /\ o_lid o' = o_lid og /\ o_full o' = o_full og /\ o_region o' = o_region og /\
             o_parent o' = o_parent og /\ o_children o' = CH g og.
Proof.
  intros w w' CH H g og E. specialize (H g). rewrite E in H. cbn in H.
  destruct (get_obj w' g) as [o'|]; cbn in H; [|discriminate]. exists o'. unfold tcore, with_ch in H.
  inversion H. auto 10.
Qed.

Lemma bk_same : forall O a b p, o_full a = o_full b -> o_parent a = o_parent b -> bk O a p -> bk O b p.
Proof. intros O a b p Hf Hp [H1 H2]. split; [|exact H2]. unfold epar in *. rewrite <- Hf, <- Hp. exact H1. Qed.

Lemma bk_oset_other : forall O f x co p, o_full co <> f -> (bk (oset O f x) co p <-> bk O co p).
Proof.
  intros O f x co p Hn. unfold bk, epar, oset. destruct (o_full co =? f) eqn:Q; [apply N.eqb_eq in Q; congruence|tauto].
Qed.
Lemma bk_oset_none : forall O f co p, o_full co = f -> ~ bk (oset O f None) co p.
Proof. intros O f co p Hf [H _]. unfold epar, oset in H. rewrite Hf, N.eqb_refl in H. discriminate. Qed.
Lemma bk_oset_some : forall O f q co p, o_full co = f -> (bk (oset O f (Some q)) co p <-> q = p /\ p <> 0).
Proof.
  intros O f q co p Hf. unfold bk, epar, oset. rewrite Hf, N.eqb_refl. split; intros [H1 H2]; split; congruence.
Qed.

(* changing overrides without changing who is bookkept where *)
Lemma TreeG_bk_equiv : forall w O O' K,
  (forall g o, get_obj w g = Some o -> forall p, bk O o p <-> bk O' o p) -> TreeG w O K -> TreeG w O' K.
Proof.
  intros w O O' K H T. constructor.
  - intros pf po c cf E I. destruct (tC1 _ _ _ T _ _ _ _ E I) as (co & rs & A1 & A2 & A3 & A4 & A5).
    exists co, rs. split; [exact A1|]. split; [exact A2|]. split; [exact A3|]. split; [apply (H _ _ A1); exact A4|exact A5].
  - intros r rs c cf co p pf po E1 E2 E3 B. apply (H _ _ E3) in B. eapply (tC2 _ _ _ T); eauto.
  - apply (tC3 _ _ _ T).
  - intros r rs p ls c E1 E2 I. destruct (tO1 _ _ _ T _ _ _ _ _ E1 E2 I) as (A1 & A2 & cf & co & A3 & A4 & A5).
    split; [exact A1|]. split; [exact A2|]. exists cf, co. split; [exact A3|]. split; [exact A4|apply (H _ _ A4); exact A5].
  - intros r rs c cf co p E1 E2 E3 B. apply (H _ _ E3) in B. eapply (tO2 _ _ _ T); eauto.
  - apply (tO3 _ _ _ T).
Qed.

(* ---------- _unparent_object detaches the object ---------- *)
Lemma TreeG_unparent : forall w O K r f q o rs w', Base w -> TreeG w O K ->
  get_obj w f = Some o -> o_region o = r -> get_rs w r = Some rs -> aget (o_lid o) (r_local rs) = Some f ->
  epar O o = Some q ->
  unparent_object w r f q = Some w' -> TreeG w' (oset O f None) K.
Proof.
  intros w O K r f q o rs w' [Kw W2] T Eo Hr Ers Eidx Hq H.
  destruct (unparent_spec _ _ _ _ _ _ _ Kw Eo Ers H) as [R G].
  pose proof (ospec_fwd _ _ _ G) as FW. pose proof (ospec_bwd _ _ _ G) as BW.
  pose proof (Kw _ _ Eo) as Kf.
  (* region states of w' *)
  assert (RS : forall r0 rs', get_rs w' r0 = Some rs' ->
            exists rs0, get_rs w r0 = Some rs0 /\ r_local rs' = r_local rs0 /\
              ((r0 =? r) && negb (q =? 0) = false -> r_orphans rs' = r_orphans rs0) /\
              ((r0 =? r) && negb (q =? 0) = true -> rs0 = rs /\ rs' = untrack_orphan rs (o_lid o) q)).
  { intros r0 rs' E. rewrite R in E. destruct ((r0 =? r) && negb (q =? 0)) eqn:Q.
    - inversion E; subst rs'. apply andb_prop in Q. destruct Q as [Q _]. apply N.eqb_eq in Q. subst r0.
      exists rs. rewrite untrack_orphan_local. repeat split; auto; discriminate.
    - exists rs'. repeat split; auto; discriminate. }
  assert (RSb : forall r0 rs0, get_rs w r0 = Some rs0 -> exists rs', get_rs w' r0 = Some rs' /\ r_local rs' = r_local rs0).
  { intros r0 rs0 E. rewrite R. destruct ((r0 =? r) && negb (q =? 0)) eqn:Q.
    - apply andb_prop in Q. destruct Q as [Q _]. apply N.eqb_eq in Q. subst r0. rewrite Ers in E. inversion E; subst rs0.
      eexists; split; [reflexivity|apply untrack_orphan_local].
    - eauto. }
  (* an indexed entry pointing at f is f's own entry *)
  assert (IDX : forall r0 rs0 c, get_rs w r0 = Some rs0 -> aget c (r_local rs0) = Some f -> r0 = r /\ c = o_lid o).
  { intros r0 rs0 c E1 E2. destruct (W2 _ _ _ _ E1 E2) as (o0 & Eo0 & Hl & Hr0). rewrite Eo in Eo0. inversion Eo0; subst o0.
    split; congruence. }
  constructor.
  - (* C1 *)
    intros pf po' c cf E I.
    destruct (FW _ _ E) as (og & Eog & L1 & L2 & L3 & L4 & L5). rewrite L5 in I.
    assert (I0 : In (c, cf) (o_children og)).
    { destruct (is_parent_key rs q pf); [eapply remove1k_In; exact I|exact I]. }
    destruct (tC1 _ _ _ T _ _ _ _ Eog I0) as (co & rs0 & A1 & A2 & A3 & A4 & A5 & A6 & A7).
    assert (Hne : cf <> f).
    { intro; subst cf. rewrite Eo in A1. inversion A1; subst co.
      destruct A4 as [A4 A4']. rewrite Hq in A4. inversion A4 as [Hlq].
      assert (Hrr : o_region og = r) by congruence. rewrite Hrr, Ers in A5. inversion A5; subst rs0.
      assert (Pk : is_parent_key rs q pf = true).
      { unfold is_parent_key. subst q. rewrite A7, N.eqb_refl. apply N.eqb_neq in A4'. rewrite A4'. reflexivity. }
      rewrite Pk in I. apply In_fst in I. rewrite <- A2 in I.
      destruct (remove1k_NoDup _ (o_lid o) _ (tC3 _ _ _ T _ _ Eog)) as [_ Hn]. contradiction. }
    destruct (BW _ _ A1) as (co' & Eco' & M1 & M2 & M3 & M4 & M5).
    destruct (RSb _ _ A5) as (rs' & Ers' & Lrs').
    exists co', rs'. rewrite L3, L1. split; [exact Eco'|]. split; [congruence|]. split; [congruence|]. split.
    + apply bk_oset_other; [rewrite M2, (Kw _ _ A1); exact Hne|]. eapply bk_same; [| |exact A4]; congruence.
    + rewrite Lrs'. auto.
  - (* C2 *)
    intros r0 rs' c cf co' p pf po' E1 E2 E3 B E4 E5 Kn.
    destruct (RS _ _ E1) as (rs0 & Ers0 & Lrs & _). rewrite Lrs in E2, E4.
    destruct (FW _ _ E3) as (co & Eco & M1 & M2 & M3 & M4 & M5).
    destruct (FW _ _ E5) as (og & Eog & L1 & L2 & L3 & L4 & L5).
    assert (Hne : cf <> f).
    { intro; subst cf. eapply bk_oset_none; [|exact B]. rewrite M2. eauto. }
    assert (B0 : bk O co p).
    { eapply bk_same; [exact M2|exact M4|]. apply (bk_oset_other O f None co' p); [|exact B].
      rewrite M2, (Kw _ _ Eco). exact Hne. }
    pose proof (tC2 _ _ _ T _ _ _ _ _ _ _ _ Ers0 E2 Eco B0 E4 Eog Kn) as I0.
    rewrite L5. destruct (is_parent_key rs q pf) eqn:Pk; [|exact I0].
    apply remove1k_In_neq; [exact I0|]. intro; subst c.
    unfold is_parent_key in Pk. apply andb_prop in Pk. destruct Pk as [_ Pk].
    destruct (aget q (r_local rs)) as [pf'|] eqn:Eq; [|discriminate]. apply N.eqb_eq in Pk. subst pf'.
    destruct (W2 _ _ _ _ Ers Eq) as (o1 & Eo1 & _ & Hr1). destruct (W2 _ _ _ _ Ers0 E4) as (o2 & Eo2 & _ & Hr2).
    assert (r0 = r) by congruence. assert (rs0 = rs) by congruence. subst rs0. congruence.
  - (* C3 *)
    intros pf po' E. destruct (FW _ _ E) as (og & Eog & L1 & L2 & L3 & L4 & L5). rewrite L5.
    pose proof (tC3 _ _ _ T _ _ Eog) as N0. destruct (is_parent_key rs q pf); [|exact N0].
    apply remove1k_NoDup. exact N0.
  - (* O1 *)
    intros r0 rs' p ls' c E1 E2 I.
    destruct (RS _ _ E1) as (rs0 & Ers0 & Lrs & Rsame & Rmod).
    assert (OLD : exists ls, aget p (r_orphans rs0) = Some ls /\ In c ls /\ ((r0 =? r) && negb (q =? 0) = true -> p = q -> c <> o_lid o)).
    { destruct ((r0 =? r) && negb (q =? 0)) eqn:Q.
      - destruct (Rmod eq_refl) as [-> ->]. rewrite untrack_orphan_get in E2. destruct (p =? q) eqn:Qp.
        + apply N.eqb_eq in Qp. subst p. destruct (aget q (r_orphans rs)) as [ls|] eqn:El; [|discriminate].
          exists ls. split; [reflexivity|].
          assert (ls' = remove1 (o_lid o) ls) by (destruct (remove1 (o_lid o) ls); congruence). subst ls'.
          split; [eapply remove1_In; exact I|]. intros _ _ ->.
          destruct (remove1_NoDup (o_lid o) ls (tO3 _ _ _ T _ _ _ _ Ers El)) as [_ Hn]. contradiction.
        + exists ls'. repeat split; auto. intros _ ->. rewrite N.eqb_refl in Qp. discriminate.
      - rewrite (Rsame eq_refl) in E2. exists ls'. repeat split; auto. discriminate. }
    destruct OLD as (ls & El & Il & Hc).
    destruct (tO1 _ _ _ T _ _ _ _ _ Ers0 El Il) as (A1 & A2 & cf & co & A3 & A4 & A5).
    split; [exact A1|]. split; [rewrite Lrs; exact A2|].
    assert (Hne : cf <> f).
    { intro; subst cf. destruct (IDX _ _ _ Ers0 A3) as [-> ->]. rewrite Eo in A4. inversion A4; subst co.
      destruct A5 as [A5 _]. rewrite Hq in A5. inversion A5; subst p.
      apply Hc; auto. rewrite N.eqb_refl. apply N.eqb_neq in A1. rewrite A1. reflexivity. }
    destruct (BW _ _ A4) as (co' & Eco' & M1 & M2 & M3 & M4 & M5).
    exists cf, co'. rewrite Lrs. split; [exact A3|]. split; [exact Eco'|].
    apply bk_oset_other; [rewrite M2, (Kw _ _ A4); exact Hne|]. eapply bk_same; [| |exact A5]; congruence.
  - (* O2 *)
    intros r0 rs' c cf co' p E1 E2 E3 B Hn.
    destruct (RS _ _ E1) as (rs0 & Ers0 & Lrs & Rsame & Rmod). rewrite Lrs in E2, Hn.
    destruct (FW _ _ E3) as (co & Eco & M1 & M2 & M3 & M4 & M5).
    assert (Hne : cf <> f).
    { intro; subst cf. eapply bk_oset_none; [|exact B]. rewrite M2. eauto. }
    assert (B0 : bk O co p).
    { eapply bk_same; [exact M2|exact M4|]. apply (bk_oset_other O f None co' p); [|exact B].
      rewrite M2, (Kw _ _ Eco). exact Hne. }
    destruct (tO2 _ _ _ T _ _ _ _ _ _ Ers0 E2 Eco B0 Hn) as (ls & El & Il).
    destruct ((r0 =? r) && negb (q =? 0)) eqn:Q.
    + destruct (Rmod eq_refl) as [-> ->]. rewrite untrack_orphan_get. destruct (p =? q) eqn:Qp.
      * apply N.eqb_eq in Qp. subst p. rewrite El.
        assert (Ic : In c (remove1 (o_lid o) ls)).
        { apply remove1_In_neq; [exact Il|]. intro; subst c. apply andb_prop in Q. destruct Q as [Q _]. apply N.eqb_eq in Q. subst r0.
          congruence. }
        destruct (remove1 (o_lid o) ls) eqn:Er; [destruct Ic|]. eexists; split; [reflexivity|exact Ic].
      * eauto.
    + rewrite (Rsame eq_refl). eauto.
  - (* O3 *)
    intros r0 rs' p ls' E1 E2. destruct (RS _ _ E1) as (rs0 & Ers0 & Lrs & Rsame & Rmod).
    destruct ((r0 =? r) && negb (q =? 0)) eqn:Q.
    + destruct (Rmod eq_refl) as [-> ->]. rewrite untrack_orphan_get in E2. destruct (p =? q) eqn:Qp.
      * apply N.eqb_eq in Qp. subst p. destruct (aget q (r_orphans rs)) as [ls|] eqn:El; [|discriminate].
        assert (ls' = remove1 (o_lid o) ls) by (destruct (remove1 (o_lid o) ls); congruence). subst ls'.
        apply remove1_NoDup. eapply (tO3 _ _ _ T); eauto.
      * eapply (tO3 _ _ _ T); eauto.
    + rewrite (Rsame eq_refl) in E2. eapply (tO3 _ _ _ T); eauto.
Qed.

Lemma ins_child_In : forall h e ch x, In x (ins_child h e ch) <-> x = e \/ In x ch.
Proof.
  intros h e ch x. unfold ins_child. destruct h; simpl.
  - split; intros [H|H]; auto.
  - rewrite in_app_iff. simpl. split; [intros [H|[H|[]]]|intros [H|H]]; auto.
Qed.
Lemma app_one_NoDup : forall (c : N) l, NoDup l -> ~ In c l -> NoDup (l ++ [c]).
Proof.
  induction l as [|a t IH]; simpl; intros Nl Hl; [constructor; [tauto|constructor]|].
  inversion Nl; subst. constructor; [rewrite in_app_iff; simpl; intuition|apply IH; tauto].
Qed.

Lemma ins_child_NoDup : forall h c v ch, NoDup (map fst ch) -> ~ In c (map fst ch) ->
  NoDup (map fst (ins_child h (c, v) ch)).
Proof.
  intros h c v ch N0 Hn. unfold ins_child. destruct h; simpl; [constructor; assumption|].
  rewrite map_app. simpl. apply app_one_NoDup; assumption.
Qed.

(* ---------- _parent_object attaches a detached, indexed object ---------- *)
Lemma TreeG_parent : forall w O K r f h o rs w', Base w -> TreeG w O K ->
  get_obj w f = Some o -> o_region o = r -> get_rs w r = Some rs -> aget (o_lid o) (r_local rs) = Some f ->
  O f = Some None -> (o_parent o <> 0 -> kne K r (o_parent o)) ->
  parent_object w r f h = Some w' -> TreeG w' (oset O f (Some (o_parent o))) K.
Proof.
  intros w O K r f h o rs w' [Kw W2] T Eo Hr Ers Eidx HO HK H.
  destruct (parent_spec _ _ _ _ _ _ _ Kw Eo Ers H) as (S0 & S1 & S2).
  pose proof (Kw _ _ Eo) as Kf.
  assert (NB : forall p, ~ bk O o p).
  { intros p [B _]. unfold epar in B. rewrite Kf, HO in B. discriminate. }
  assert (IDX : forall r0 rs0 c, get_rs w r0 = Some rs0 -> aget c (r_local rs0) = Some f -> r0 = r /\ c = o_lid o).
  { intros r0 rs0 c E1 E2. destruct (W2 _ _ _ _ E1 E2) as (o0 & Eo0 & Hl & Hr0). rewrite Eo in Eo0. inversion Eo0; subst o0.
    split; congruence. }
  destruct (N.eq_dec (o_parent o) 0) as [P0|P0].
  { rewrite (S0 P0). eapply TreeG_bk_equiv; [|exact T]. intros g og Eg p.
    destruct (N.eq_dec (o_full og) f) as [Hf|Hf].
    - assert (g = f) by (rewrite <- (Kw _ _ Eg); exact Hf). subst g. rewrite Eo in Eg. inversion Eg; subst og.
      rewrite bk_oset_some by exact Kf. split; [intro B; destruct (NB _ B)|]. intros [E1 E2]. congruence.
    - symmetry. apply bk_oset_other. exact Hf. }
  specialize (HK P0).
  destruct (aget (o_parent o) (r_local rs)) as [pf|] eqn:Ep.
  - (* parent tracked *)
    destruct (S1 P0 pf eq_refl) as (po & Epo & Hnin & R & G). clear S0 S1 S2.
    pose proof (ospec_fwd _ _ _ G) as FW. pose proof (ospec_bwd _ _ _ G) as BW.
    destruct (W2 _ _ _ _ Ers Ep) as (po0 & Epo0 & Hlp & Hrp). rewrite Epo in Epo0. inversion Epo0; subst po0.
    destruct (BW _ _ Eo) as (o' & Eo' & N1 & N2 & N3 & N4 & N5).
    constructor.
    + (* C1 *)
      intros g po' c cf E I. destruct (FW _ _ E) as (og & Eog & L1 & L2 & L3 & L4 & L5). rewrite L5 in I.
      assert (Cases : (g = pf /\ (c, cf) = (o_lid o, f)) \/ In (c, cf) (o_children og)).
      { destruct (g =? pf) eqn:Q; [|right; exact I]. apply N.eqb_eq in Q. apply ins_child_In in I. destruct I; auto. }
      destruct Cases as [[-> Ee]|I0].
      * inversion Ee; subst c cf. rewrite Epo in Eog. inversion Eog; subst og.
        exists o', rs. rewrite L3, L1, Hlp, Hrp. split; [exact Eo'|]. split; [exact N1|]. split; [congruence|]. split.
        -- apply bk_oset_some; [congruence|]. split; congruence.
        -- rewrite R. auto.
      * destruct (tC1 _ _ _ T _ _ _ _ Eog I0) as (co & rs0 & A1 & A2 & A3 & A4 & A5 & A6 & A7).
        assert (Hne : cf <> f) by (intro; subst cf; rewrite Eo in A1; inversion A1; subst co; exact (NB _ A4)).
        destruct (BW _ _ A1) as (co' & Eco' & M1 & M2 & M3 & M4 & M5).
        exists co', rs0. rewrite L3, L1. split; [exact Eco'|]. split; [congruence|]. split; [congruence|]. split.
        -- apply bk_oset_other; [rewrite M2, (Kw _ _ A1); exact Hne|]. eapply bk_same; [| |exact A4]; congruence.
        -- rewrite R. auto.
    + (* C2 *)
      intros r0 rs0 c cf co' p pf' po' E1 E2 E3 B E4 E5 Kn. rewrite R in E1.
      destruct (FW _ _ E3) as (co & Eco & M1 & M2 & M3 & M4 & M5).
      destruct (FW _ _ E5) as (og & Eog & L1 & L2 & L3 & L4 & L5). rewrite L5.
      destruct (N.eq_dec cf f) as [->|Hne].
      * rewrite Eo in Eco. inversion Eco; subst co. apply bk_oset_some in B; [|congruence]. destruct B as [<- _].
        destruct (IDX _ _ _ E1 E2) as [-> ->]. rewrite Ers in E1. inversion E1; subst rs0. rewrite Ep in E4. inversion E4; subst pf'.
        rewrite N.eqb_refl. apply ins_child_In. left. reflexivity.
      * assert (B0 : bk O co p).
        { eapply bk_same; [exact M2|exact M4|]. apply (bk_oset_other O f (Some (o_parent o)) co' p); [|exact B].
          rewrite M2, (Kw _ _ Eco). exact Hne. }
        pose proof (tC2 _ _ _ T _ _ _ _ _ _ _ _ E1 E2 Eco B0 E4 Eog Kn) as I0.
        destruct (pf' =? pf); [apply ins_child_In; right; exact I0|exact I0].
    + (* C3 *)
      intros g po' E. destruct (FW _ _ E) as (og & Eog & L1 & L2 & L3 & L4 & L5). rewrite L5.
      pose proof (tC3 _ _ _ T _ _ Eog) as N0. destruct (g =? pf) eqn:Q; [|exact N0].
      apply N.eqb_eq in Q. subst g. rewrite Epo in Eog. inversion Eog; subst og. apply ins_child_NoDup; assumption.
    + (* O1 *)
      intros r0 rs0 p ls c E1 E2 I. rewrite R in E1.
      destruct (tO1 _ _ _ T _ _ _ _ _ E1 E2 I) as (A1 & A2 & cf & co & A3 & A4 & A5).
      split; [exact A1|]. split; [exact A2|].
      assert (Hne : cf <> f) by (intro; subst cf; rewrite Eo in A4; inversion A4; subst co; exact (NB _ A5)).
      destruct (BW _ _ A4) as (co' & Eco' & M1 & M2 & M3 & M4 & M5).
      exists cf, co'. split; [exact A3|]. split; [exact Eco'|].
      apply bk_oset_other; [rewrite M2, (Kw _ _ A4); exact Hne|]. eapply bk_same; [| |exact A5]; congruence.
    + (* O2 *)
      intros r0 rs0 c cf co' p E1 E2 E3 B Hn. rewrite R in E1.
      destruct (FW _ _ E3) as (co & Eco & M1 & M2 & M3 & M4 & M5).
      destruct (N.eq_dec cf f) as [->|Hne].
      * rewrite Eo in Eco. inversion Eco; subst co. apply bk_oset_some in B; [|congruence]. destruct B as [<- _].
        destruct (IDX _ _ _ E1 E2) as [-> ->]. rewrite Ers in E1. inversion E1; subst rs0.
        destruct Hn as [Hn|Hn]; [congruence|]. exfalso. apply HK. exact Hn.
      * assert (B0 : bk O co p).
        { eapply bk_same; [exact M2|exact M4|]. apply (bk_oset_other O f (Some (o_parent o)) co' p); [|exact B].
          rewrite M2, (Kw _ _ Eco). exact Hne. }
        eapply (tO2 _ _ _ T); eauto.
    + (* O3 *)
      intros r0 rs0 p ls E1 E2. rewrite R in E1. eapply (tO3 _ _ _ T); eauto.
  - (* parent unknown: the object becomes an orphan *)
    destruct (S2 P0 eq_refl) as (R & G). clear S0 S1 S2.
    assert (G' : forall g, option_map tcore (get_obj w' g) = option_map (fun og => with_ch og ((fun _ x => o_children x) g og)) (get_obj w g)).
    { intros g. rewrite G. destruct (get_obj w g); reflexivity. }
    pose proof (ospec_fwd _ _ _ G') as FW. pose proof (ospec_bwd _ _ _ G') as BW. cbn beta in FW, BW.
    destruct (BW _ _ Eo) as (o' & Eo' & N1 & N2 & N3 & N4 & N5).
    set (l := o_lid o) in *. set (P := o_parent o) in *.
    assert (RS : forall r0 rs', get_rs w' r0 = Some rs' ->
              exists rs0, get_rs w r0 = Some rs0 /\ r_local rs' = r_local rs0 /\
                (r0 <> r -> r_orphans rs' = r_orphans rs0) /\
                (r0 = r -> rs0 = rs /\ r_orphans rs' = r_orphans (track_orphan rs l P))).
    { intros r0 rs' E. specialize (R r0). rewrite E in R. cbn [option_map] in R. unfold tridx in R. destruct (r0 =? r) eqn:Q.
      - apply N.eqb_eq in Q. subst r0. exists rs. inversion R as [[R1 R2]]. try rewrite track_orphan_local in R1.
        repeat split; auto; congruence.
      - apply N.eqb_neq in Q. destruct (get_rs w r0) as [rs0|]; cbn [option_map] in R; [|discriminate]. inversion R as [[R1 R2]].
        exists rs0. repeat split; auto; congruence. }
    assert (RSb : forall r0 rs0, get_rs w r0 = Some rs0 -> exists rs', get_rs w' r0 = Some rs' /\ r_local rs' = r_local rs0).
    { intros r0 rs0 E. specialize (R r0). destruct (get_rs w' r0) as [rs'|] eqn:E'.
      - destruct (RS _ _ E') as (rs1 & E1 & L1 & _). exists rs'. split; [reflexivity|congruence].
      - cbn in R. destruct (r0 =? r); [discriminate|]. rewrite E in R. discriminate. }
    constructor.
    + (* C1 *)
      intros g po' c cf E I. destruct (FW _ _ E) as (og & Eog & L1 & L2 & L3 & L4 & L5). rewrite L5 in I.
      destruct (tC1 _ _ _ T _ _ _ _ Eog I) as (co & rs0 & A1 & A2 & A3 & A4 & A5 & A6 & A7).
      assert (Hne : cf <> f) by (intro; subst cf; rewrite Eo in A1; inversion A1; subst co; exact (NB _ A4)).
      destruct (BW _ _ A1) as (co' & Eco' & M1 & M2 & M3 & M4 & M5).
      destruct (RSb _ _ A5) as (rs' & Ers' & Lrs').
      exists co', rs'. rewrite L3, L1. split; [exact Eco'|]. split; [congruence|]. split; [congruence|]. split.
      * apply bk_oset_other; [rewrite M2, (Kw _ _ A1); exact Hne|]. eapply bk_same; [| |exact A4]; congruence.
      * rewrite Lrs'. auto.
    + (* C2 *)
      intros r0 rs' c cf co' p pf' po' E1 E2 E3 B E4 E5 Kn.
      destruct (RS _ _ E1) as (rs0 & Ers0 & Lrs & _). rewrite Lrs in E2, E4.
      destruct (FW _ _ E3) as (co & Eco & M1 & M2 & M3 & M4 & M5).
      destruct (FW _ _ E5) as (og & Eog & L1 & L2 & L3 & L4 & L5). rewrite L5.
      destruct (N.eq_dec cf f) as [->|Hne].
      * rewrite Eo in Eco. inversion Eco; subst co. apply bk_oset_some in B; [|congruence]. destruct B as [<- _].
        destruct (IDX _ _ _ Ers0 E2) as [-> _]. rewrite Ers in Ers0. inversion Ers0; subst rs0. congruence.
      * assert (B0 : bk O co p).
        { eapply bk_same; [exact M2|exact M4|]. apply (bk_oset_other O f (Some P) co' p); [|exact B].
          rewrite M2, (Kw _ _ Eco). exact Hne. }
        eapply (tC2 _ _ _ T); eauto.
    + (* C3 *)
      intros g po' E. destruct (FW _ _ E) as (og & Eog & L1 & L2 & L3 & L4 & L5). rewrite L5. eapply (tC3 _ _ _ T); eauto.
    + (* O1 *)
      intros r0 rs' p ls' c E1 E2 I.
      destruct (RS _ _ E1) as (rs0 & Ers0 & Lrs & Rsame & Rmod).
      assert (Cases : (r0 = r /\ p = P /\ c = l) \/ exists ls, aget p (r_orphans rs0) = Some ls /\ In c ls).
      { destruct (N.eq_dec r0 r) as [->|Hr0].
        - destruct (Rmod eq_refl) as [-> Ro]. rewrite Ro, track_orphan_get in E2. destruct (p =? P) eqn:Qp.
          + apply N.eqb_eq in Qp. subst p. inversion E2; subst ls'. destruct (aget P (r_orphans rs)) as [ls|] eqn:El.
            * apply in_app_iff in I. destruct I as [I|[I|[]]]; [right; eauto|left; auto].
            * destruct I as [I|[]]. left; auto.
          + right; eauto.
        - rewrite (Rsame Hr0) in E2. right; eauto. }
      destruct Cases as [(-> & -> & ->)|(ls & El & Il)].
      * destruct (Rmod eq_refl) as [-> _]. split; [exact P0|]. split; [intros _; rewrite Lrs; exact Ep|].
        exists f, o'. rewrite Lrs. split; [exact Eidx|]. split; [exact Eo'|].
        apply bk_oset_some; [congruence|]. split; [reflexivity|exact P0].
      * destruct (tO1 _ _ _ T _ _ _ _ _ Ers0 El Il) as (A1 & A2 & cf & co & A3 & A4 & A5).
        split; [exact A1|]. split; [rewrite Lrs; exact A2|].
        assert (Hne : cf <> f) by (intro; subst cf; rewrite Eo in A4; inversion A4; subst co; exact (NB _ A5)).
        destruct (BW _ _ A4) as (co' & Eco' & M1 & M2 & M3 & M4 & M5).
        exists cf, co'. rewrite Lrs. split; [exact A3|]. split; [exact Eco'|].
        apply bk_oset_other; [rewrite M2, (Kw _ _ A4); exact Hne|]. eapply bk_same; [| |exact A5]; congruence.
    + (* O2 *)
      intros r0 rs' c cf co' p E1 E2 E3 B Hn.
      destruct (RS _ _ E1) as (rs0 & Ers0 & Lrs & Rsame & Rmod). rewrite Lrs in E2, Hn.
      destruct (FW _ _ E3) as (co & Eco & M1 & M2 & M3 & M4 & M5).
      destruct (N.eq_dec cf f) as [->|Hne].
      * rewrite Eo in Eco. inversion Eco; subst co. apply bk_oset_some in B; [|congruence]. destruct B as [<- _].
        destruct (IDX _ _ _ Ers0 E2) as [-> ->]. destruct (Rmod eq_refl) as [-> Ro]. rewrite Ro, track_orphan_get, N.eqb_refl.
        eexists; split; [reflexivity|]. destruct (aget P (r_orphans rs)); [apply in_app_iff; right|]; left; reflexivity.
      * assert (B0 : bk O co p).
        { eapply bk_same; [exact M2|exact M4|]. apply (bk_oset_other O f (Some P) co' p); [|exact B].
          rewrite M2, (Kw _ _ Eco). exact Hne. }
        destruct (tO2 _ _ _ T _ _ _ _ _ _ Ers0 E2 Eco B0 Hn) as (ls & El & Il).
        destruct (N.eq_dec r0 r) as [->|Hr0].
        -- destruct (Rmod eq_refl) as [-> Ro]. rewrite Ro, track_orphan_get. destruct (p =? P) eqn:Qp; [|eauto].
           apply N.eqb_eq in Qp. subst p. rewrite El. eexists; split; [reflexivity|]. apply in_app_iff. left. exact Il.
        -- rewrite (Rsame Hr0). eauto.
    + (* O3 *)
      intros r0 rs' p ls' E1 E2. destruct (RS _ _ E1) as (rs0 & Ers0 & Lrs & Rsame & Rmod).
      destruct (N.eq_dec r0 r) as [->|Hr0]; [|rewrite (Rsame Hr0) in E2; eapply (tO3 _ _ _ T); eauto].
      destruct (Rmod eq_refl) as [-> Ro]. rewrite Ro, track_orphan_get in E2. destruct (p =? P) eqn:Qp; [|eapply (tO3 _ _ _ T); eauto].
      apply N.eqb_eq in Qp. subst p. inversion E2; subst ls'. destruct (aget P (r_orphans rs)) as [ls|] eqn:El.
      * apply app_one_NoDup; [eapply (tO3 _ _ _ T); eauto|]. intro Il.
        destruct (tO1 _ _ _ T _ _ _ _ _ Ers El Il) as (_ & _ & cf & co & A3 & A4 & A5).
        fold l in Eidx. rewrite Eidx in A3. inversion A3; subst cf. rewrite Eo in A4. inversion A4; subst co. exact (NB _ A5).
      * constructor; [simpl; tauto|constructor].
Qed.

(* ---------- Base is a frame property ---------- *)
Lemma frame_Base : forall w w', frame w w' -> Base w -> Base w'.
Proof.
  intros w w' F [K A]. split; [eapply frame_keys; eauto|].
  intros r rs' l f Ers El.
  destruct (frame_rs _ _ _ _ F Ers) as [rs [Ers0 C]]. apply ridx_inj in C. destruct C as [_ C].
  rewrite <- C in El. destruct (A _ _ _ _ Ers0 El) as [o [Eo [Hl Hr]]].
  destruct (frame_obj_rev _ _ _ _ F Eo) as [o' [Eo' C']]. apply core_inj in C'.
  exists o'. intuition congruence.
Qed.

(* ---------- rewriting one object's non-structural fields / its parent field under an override ---------- *)
Lemma TreeG_ocorr : forall w O K w' O',
  (forall r, get_rs w' r = get_rs w r) ->
  (forall g, match get_obj w g, get_obj w' g with
             | Some a, Some b => o_lid a = o_lid b /\ o_full a = o_full b /\ o_region a = o_region b /\
                                 o_children a = o_children b /\ (forall p, bk O a p <-> bk O' b p)
             | None, None => True
             | _, _ => False
             end) ->
  TreeG w O K -> TreeG w' O' K.
Proof.
  intros w O K w' O' R G T.
  assert (FW : forall g b, get_obj w' g = Some b -> exists a, get_obj w g = Some a /\ o_lid a = o_lid b /\ o_full a = o_full b /\
               o_region a = o_region b /\ o_children a = o_children b /\ (forall p, bk O a p <-> bk O' b p)).
  { intros g b E. specialize (G g). rewrite E in G. destruct (get_obj w g) as [a|]; [eauto|contradiction]. }
  assert (BW : forall g a, get_obj w g = Some a -> exists b, get_obj w' g = Some b /\ o_lid a = o_lid b /\ o_full a = o_full b /\
               o_region a = o_region b /\ o_children a = o_children b /\ (forall p, bk O a p <-> bk O' b p)).
  { intros g a E. specialize (G g). rewrite E in G. destruct (get_obj w' g) as [b|]; [eauto|contradiction]. }
  constructor.
  - intros pf po' c cf E I. destruct (FW _ _ E) as (po & Epo & L1 & L2 & L3 & L4 & _). rewrite <- L4 in I.
    destruct (tC1 _ _ _ T _ _ _ _ Epo I) as (co & rs & A1 & A2 & A3 & A4 & A5 & A6 & A7).
    destruct (BW _ _ A1) as (co' & Eco' & M1 & M2 & M3 & M4 & M5).
    exists co', rs. rewrite <- L3, <- L1, R. split; [exact Eco'|]. split; [congruence|]. split; [congruence|].
    split; [apply M5; exact A4|auto].
  - intros r rs c cf co' p pf po' E1 E2 E3 B E4 E5 Kn. rewrite R in E1.
    destruct (FW _ _ E3) as (co & Eco & M1 & M2 & M3 & M4 & M5). destruct (FW _ _ E5) as (po & Epo & L1 & L2 & L3 & L4 & _).
    rewrite <- L4. eapply (tC2 _ _ _ T); eauto. apply M5. exact B.
  - intros pf po' E. destruct (FW _ _ E) as (po & Epo & L1 & L2 & L3 & L4 & _). rewrite <- L4. eapply (tC3 _ _ _ T); eauto.
  - intros r rs p ls c E1 E2 I. rewrite R in E1.
    destruct (tO1 _ _ _ T _ _ _ _ _ E1 E2 I) as (A1 & A2 & cf & co & A3 & A4 & A5).
    destruct (BW _ _ A4) as (co' & Eco' & M1 & M2 & M3 & M4 & M5).
    split; [exact A1|]. split; [exact A2|]. exists cf, co'. split; [exact A3|]. split; [exact Eco'|apply M5; exact A5].
  - intros r rs c cf co' p E1 E2 E3 B Hn. rewrite R in E1.
    destruct (FW _ _ E3) as (co & Eco & M1 & M2 & M3 & M4 & M5). eapply (tO2 _ _ _ T); eauto. apply M5. exact B.
  - intros r rs p ls E1 E2. rewrite R in E1. eapply (tO3 _ _ _ T); eauto.
Qed.

(* the object's fields other than lid / full / region / children change; it stays bookkept under its old parent *)
Lemma TreeG_set_fields : forall w O K f o o', Base w -> TreeG w O K -> get_obj w f = Some o -> O f = None ->
  o_lid o' = o_lid o -> o_full o' = o_full o -> o_region o' = o_region o -> o_children o' = o_children o ->
  TreeG (set_obj w o') (oset O f (Some (o_parent o))) K.
Proof.
  intros w O K f o o' [Kw _] T Eo HO H1 H2 H3 H4. pose proof (Kw _ _ Eo) as Kf.
  eapply TreeG_ocorr; [| |exact T]; [reflexivity|].
  intros g. rewrite get_obj_set_obj. rewrite H2, Kf. destruct (g =? f) eqn:Q.
  - apply N.eqb_eq in Q. subst g. rewrite Eo.
    split; [congruence|]. split; [congruence|]. split; [congruence|]. split; [congruence|]. intros p. split.
    + intros B. apply bk_oset_some; [congruence|]. destruct B as [B1 B2]. unfold epar in B1. rewrite Kf, HO in B1. split; congruence.
    + intros B. apply bk_oset_some in B; [|congruence]. destruct B as [B1 B2]. split; [|exact B2].
      unfold epar. rewrite Kf, HO. congruence.
  - destruct (get_obj w g) as [a|] eqn:Eg; [|exact I]. do 4 (split; [reflexivity|]). intros p. split.
    + intros B. apply bk_oset_other; [|exact B]. rewrite (Kw _ _ Eg). apply N.eqb_neq. exact Q.
    + intros B. eapply bk_oset_other; [|exact B]. rewrite (Kw _ _ Eg). apply N.eqb_neq. exact Q.
Qed.

(* a brand-new object: in the full-id lookup only, detached, no children *)
Lemma TreeG_new_obj : forall w O K o, Base w -> TreeG w O K -> get_obj w (o_full o) = None -> o_children o = [] ->
  TreeG (set_obj w o) (oset O (o_full o) None) K.
Proof.
  intros w O K o [Kw W2] T Hn Hc.
  assert (GO : forall g a, get_obj w g = Some a -> get_obj (set_obj w o) g = Some a /\ g <> o_full o).
  { intros g a E. rewrite get_obj_set_obj. destruct (g =? o_full o) eqn:Q; [apply N.eqb_eq in Q; congruence|].
    apply N.eqb_neq in Q. auto. }
  assert (GN : forall g a, get_obj (set_obj w o) g = Some a -> (g = o_full o /\ a = o) \/ (g <> o_full o /\ get_obj w g = Some a)).
  { intros g a E. rewrite get_obj_set_obj in E. destruct (g =? o_full o) eqn:Q.
    - apply N.eqb_eq in Q. inversion E. subst. left. auto.
    - apply N.eqb_neq in Q. auto. }
  assert (BKo : forall a p, o_full a <> o_full o -> (bk (oset O (o_full o) None) a p <-> bk O a p)).
  { intros. apply bk_oset_other. assumption. }
  constructor.
  - intros pf po c cf E I. destruct (GN _ _ E) as [[-> ->]|[Hne E0]]; [rewrite Hc in I; destruct I|].
    destruct (tC1 _ _ _ T _ _ _ _ E0 I) as (co & rs & A1 & A2 & A3 & A4 & A5).
    destruct (GO _ _ A1) as [A1' Hcf]. exists co, rs. split; [exact A1'|]. split; [exact A2|]. split; [exact A3|].
    split; [apply BKo; [rewrite (Kw _ _ A1); exact Hcf|exact A4]|exact A5].
  - intros r rs c cf co p pf po E1 E2 E3 B E4 E5 Kn. rewrite get_rs_set_obj in E1.
    destruct (GN _ _ E3) as [[-> ->]|[Hne E3']]; [destruct (bk_oset_none O (o_full o) o p eq_refl B)|].
    destruct (GN _ _ E5) as [[-> ->]|[Hne5 E5']].
    + destruct (W2 _ _ _ _ E1 E4) as (x & Ex & _). congruence.
    + eapply (tC2 _ _ _ T); eauto. apply BKo in B; [exact B|]. rewrite (Kw _ _ E3'). exact Hne.
  - intros pf po E. destruct (GN _ _ E) as [[-> ->]|[Hne E0]]; [rewrite Hc; constructor|]. eapply (tC3 _ _ _ T); eauto.
  - intros r rs p ls c E1 E2 I. rewrite get_rs_set_obj in E1.
    destruct (tO1 _ _ _ T _ _ _ _ _ E1 E2 I) as (A1 & A2 & cf & co & A3 & A4 & A5).
    destruct (GO _ _ A4) as [A4' Hcf]. split; [exact A1|]. split; [exact A2|]. exists cf, co.
    split; [exact A3|]. split; [exact A4'|]. apply BKo; [rewrite (Kw _ _ A4); exact Hcf|exact A5].
  - intros r rs c cf co p E1 E2 E3 B Hn'. rewrite get_rs_set_obj in E1.
    destruct (GN _ _ E3) as [[-> ->]|[Hne E3']]; [destruct (bk_oset_none O (o_full o) o p eq_refl B)|].
    eapply (tO2 _ _ _ T); eauto. apply BKo in B; [exact B|]. rewrite (Kw _ _ E3'). exact Hne.
  - intros r rs p ls E1 E2. rewrite get_rs_set_obj in E1. eapply (tO3 _ _ _ T); eauto.
Qed.

(* ---------- indexing a detached object: its local id becomes the open key ---------- *)
Lemma Base_index : forall w x o r rs m, Base w -> get_obj w x = Some o -> o_region o = r -> get_rs w r = Some rs ->
  Base (set_rs w r (with_missing (with_local rs (aset (o_lid o) x (r_local rs))) m)).
Proof.
  intros w x o r rs m [Kw W2] Eo Hr Ers. split; [exact Kw|].
  intros r0 rs' l f E1 E2. rewrite get_rs_set_rs in E1. rewrite get_obj_set_rs. destruct (r0 =? r) eqn:Q.
  - apply N.eqb_eq in Q. subst r0. inversion E1; subst rs'. cbn [r_local with_local with_missing] in E2.
    rewrite aget_aset in E2. destruct (l =? o_lid o) eqn:Ql.
    + apply N.eqb_eq in Ql. inversion E2; subst. eauto.
    + eauto.
  - eauto.
Qed.

Lemma TreeG_index : forall w O r rs x o m, Base w -> TreeG w O None -> get_obj w x = Some o -> o_region o = r ->
  get_rs w r = Some rs -> aget (o_lid o) (r_local rs) = None -> O x = Some None ->
  TreeG (set_rs w r (with_missing (with_local rs (aset (o_lid o) x (r_local rs))) m)) O (Some (r, o_lid o)).
Proof.
  intros w O r rs x o m [Kw W2] T Eo Hr Ers Hfree HO. set (l := o_lid o) in *.
  set (w1 := set_rs w r (with_missing (with_local rs (aset l x (r_local rs))) m)).
  pose proof (Kw _ _ Eo) as Kx.
  assert (NB : forall p, ~ bk O o p).
  { intros p [B _]. unfold epar in B. rewrite Kx, HO in B. discriminate. }
  assert (LOC : forall r0 rs', get_rs w1 r0 = Some rs' ->
            exists rs0, get_rs w r0 = Some rs0 /\ r_orphans rs' = r_orphans rs0 /\
              forall c, aget c (r_local rs') = if (r0 =? r) && (c =? l) then Some x else aget c (r_local rs0)).
  { intros r0 rs' E. unfold w1 in E. rewrite get_rs_set_rs in E. destruct (r0 =? r) eqn:Q.
    - apply N.eqb_eq in Q. subst r0. inversion E; subst rs'. exists rs. split; [exact Ers|]. split; [reflexivity|].
      intros c. cbn [r_local with_local with_missing andb]. rewrite aget_aset. reflexivity.
    - exists rs'. split; [exact E|]. split; [reflexivity|]. intros c. reflexivity. }
  assert (LOCb : forall r0 rs0, get_rs w r0 = Some rs0 -> exists rs', get_rs w1 r0 = Some rs' /\ r_orphans rs' = r_orphans rs0 /\
              forall c, aget c (r_local rs') = if (r0 =? r) && (c =? l) then Some x else aget c (r_local rs0)).
  { intros r0 rs0 E. unfold w1. rewrite get_rs_set_rs. destruct (r0 =? r) eqn:Q.
    - apply N.eqb_eq in Q. subst r0. rewrite Ers in E. inversion E; subst rs0. eexists. split; [reflexivity|]. split; [reflexivity|].
      intros c. cbn [r_local with_local with_missing andb]. rewrite aget_aset. reflexivity.
    - exists rs0. split; [exact E|]. split; [reflexivity|]. intros c. reflexivity. }
  (* a key that is already indexed is not the fresh key *)
  assert (OLDK : forall r0 rs0 c v, get_rs w r0 = Some rs0 -> aget c (r_local rs0) = Some v -> (r0 =? r) && (c =? l) = false).
  { intros r0 rs0 c v E1 E2. destruct (r0 =? r) eqn:Q1; [|reflexivity]. destruct (c =? l) eqn:Q2; [|reflexivity].
    apply N.eqb_eq in Q1, Q2. subst. rewrite Ers in E1. inversion E1; subst rs0. congruence. }
  constructor.
  - intros pf po c cf E I. change (get_obj w pf = Some po) in E.
    destruct (tC1 _ _ _ T _ _ _ _ E I) as (co & rs0 & A1 & A2 & A3 & A4 & A5 & A6 & A7).
    destruct (LOCb _ _ A5) as (rs' & E' & _ & L').
    exists co, rs'. split; [exact A1|]. split; [exact A2|]. split; [exact A3|]. split; [exact A4|]. split; [exact E'|].
    rewrite !L', (OLDK _ _ _ _ A5 A6), (OLDK _ _ _ _ A5 A7). auto.
  - intros r0 rs' c cf co p pf po E1 E2 E3 B E4 E5 Kn. change (get_obj w cf = Some co) in E3. change (get_obj w pf = Some po) in E5.
    destruct (LOC _ _ E1) as (rs0 & Ers0 & _ & L'). rewrite L' in E2, E4.
    destruct ((r0 =? r) && (c =? l)) eqn:Qc.
    { inversion E2; subst cf. rewrite Eo in E3. inversion E3; subst co. destruct (NB _ B). }
    destruct ((r0 =? r) && (p =? l)) eqn:Qp.
    { apply andb_prop in Qp. destruct Qp as [Q1 Q2]. apply N.eqb_eq in Q1, Q2. subst. exfalso. apply Kn. reflexivity. }
    eapply (tC2 _ _ _ T); eauto. unfold kne. discriminate.
  - intros pf po E. eapply (tC3 _ _ _ T); eauto.
  - intros r0 rs' p ls c E1 E2 I. destruct (LOC _ _ E1) as (rs0 & Ers0 & Lo & L'). rewrite Lo in E2.
    destruct (tO1 _ _ _ T _ _ _ _ _ Ers0 E2 I) as (A1 & A2 & cf & co & A3 & A4 & A5).
    split; [exact A1|]. split.
    + intros Kn. rewrite L'. destruct ((r0 =? r) && (p =? l)) eqn:Qp.
      * apply andb_prop in Qp. destruct Qp as [Q1 Q2]. apply N.eqb_eq in Q1, Q2. subst. exfalso. apply Kn. reflexivity.
      * apply A2. unfold kne. discriminate.
    + exists cf, co. rewrite L', (OLDK _ _ _ _ Ers0 A3). auto.
  - intros r0 rs' c cf co p E1 E2 E3 B Hn. change (get_obj w cf = Some co) in E3.
    destruct (LOC _ _ E1) as (rs0 & Ers0 & Lo & L'). rewrite L' in E2. rewrite Lo.
    destruct ((r0 =? r) && (c =? l)) eqn:Qc.
    { inversion E2; subst cf. rewrite Eo in E3. inversion E3; subst co. destruct (NB _ B). }
    eapply (tO2 _ _ _ T); eauto. left. destruct Hn as [Hn|Hn].
    + rewrite L' in Hn. destruct ((r0 =? r) && (p =? l)); [discriminate|exact Hn].
    + inversion Hn; subst. assert (rs0 = rs) by congruence. subst rs0. exact Hfree.
  - intros r0 rs' p ls E1 E2. destruct (LOC _ _ E1) as (rs0 & Ers0 & Lo & L'). rewrite Lo in E2. eapply (tO3 _ _ _ T); eauto.
Qed.

(* ---------- collect_orphans closes the open key; the former orphans are detached ---------- *)
Definition fulls (rs : rstate) (ls : list N) : list N :=
  flat_map (fun c => match aget c (r_local rs) with Some cf => [cf] | None => [] end) ls.
Definition odet (O : ovr) (fs : list N) : ovr := fun g => if mem g fs then Some None else O g.

Lemma fulls_In : forall rs ls cf, In cf (fulls rs ls) <-> exists c, In c ls /\ aget c (r_local rs) = Some cf.
Proof.
  intros rs ls cf. unfold fulls. rewrite in_flat_map. split.
  - intros (c & Ic & H). exists c. split; [exact Ic|]. destruct (aget c (r_local rs)); [|destruct H].
    destruct H as [H|[]]. congruence.
  - intros (c & Ic & H). exists c. split; [exact Ic|]. rewrite H. left. reflexivity.
Qed.
Lemma fulls_local : forall rs rs' ls, r_local rs' = r_local rs -> fulls rs' ls = fulls rs ls.
Proof. intros. unfold fulls. rewrite H. reflexivity. Qed.

Lemma bk_odet : forall O fs a p, bk (odet O fs) a p <-> mem (o_full a) fs = false /\ bk O a p.
Proof.
  intros O fs a p. unfold bk, epar, odet. destruct (mem (o_full a) fs); split.
  - intros [H _]. discriminate.
  - intros [H _]. discriminate.
  - tauto.
  - tauto.
Qed.

Lemma collect_spec : forall rs l ls rs', collect_orphans rs l = (ls, rs') ->
  r_local rs' = r_local rs /\
  (forall p, aget p (r_orphans rs') = if p =? l then None else aget p (r_orphans rs)) /\
  ls = match aget l (r_orphans rs) with Some x => x | None => [] end.
Proof.
  intros rs l ls rs' H. unfold collect_orphans in H. destruct (aget l (r_orphans rs)) as [x|] eqn:E; inversion H; subst.
  - split; [reflexivity|]. split; [|reflexivity]. intros p. cbn [r_orphans with_orphans]. apply aget_adel.
  - split; [reflexivity|]. split; [|reflexivity]. intros p. destruct (p =? l) eqn:Q; [|reflexivity].
    apply N.eqb_eq in Q. subst. exact E.
Qed.

Lemma TreeG_collect : forall w O r rs l x ox ls rs', Base w -> TreeG w O (Some (r, l)) -> get_rs w r = Some rs ->
  aget l (r_local rs) = Some x -> get_obj w x = Some ox -> o_children ox = [] ->
  collect_orphans rs l = (ls, rs') ->
  TreeG (set_rs w r rs') (odet O (fulls rs ls)) None.
Proof.
  intros w O r rs l x ox ls rs' [Kw W2] T Ers Elx Eox Hch Hc.
  destruct (collect_spec _ _ _ _ Hc) as (CL & CO & CLs).
  set (fs := fulls rs ls).
  assert (RS : forall r0 rs1, get_rs (set_rs w r rs') r0 = Some rs1 ->
            exists rs0, get_rs w r0 = Some rs0 /\ r_local rs1 = r_local rs0 /\
              forall p, aget p (r_orphans rs1) = if (r0 =? r) && (p =? l) then None else aget p (r_orphans rs0)).
  { intros r0 rs1 E. rewrite get_rs_set_rs in E. destruct (r0 =? r) eqn:Q.
    - apply N.eqb_eq in Q. subst r0. inversion E; subst rs1. exists rs. split; [exact Ers|]. split; [exact CL|]. intros p. cbn [andb]. apply CO.
    - exists rs1. split; [exact E|]. split; [reflexivity|]. intros p. reflexivity. }
  assert (RSb : forall r0 rs0, get_rs w r0 = Some rs0 -> exists rs1, get_rs (set_rs w r rs') r0 = Some rs1 /\ r_local rs1 = r_local rs0).
  { intros r0 rs0 E. rewrite get_rs_set_rs. destruct (r0 =? r) eqn:Q.
    - apply N.eqb_eq in Q. subst r0. rewrite Ers in E. inversion E; subst rs0. eauto.
    - eauto. }
  (* an indexed object bookkept under p that is a collected orphan sits under the open key *)
  assert (F3 : forall r0 rs0 c cf a p, get_rs w r0 = Some rs0 -> aget c (r_local rs0) = Some cf -> get_obj w cf = Some a ->
                 bk O a p -> mem cf fs = true -> r0 = r /\ p = l /\ In c ls).
  { intros r0 rs0 c cf a p E1 E2 E3 B M. apply mem_In in M. apply fulls_In in M. destruct M as (c' & Ic' & Ec').
    destruct (aget l (r_orphans rs)) as [ls0|] eqn:El; [|subst ls; destruct Ic']. subst ls.
    destruct (tO1 _ _ _ T _ _ _ _ _ Ers El Ic') as (_ & _ & cf' & co' & A3 & A4 & A5).
    rewrite Ec' in A3. inversion A3; subst cf'. rewrite E3 in A4. inversion A4; subst co'.
    destruct B as [B1 _]. destruct A5 as [A5 _]. rewrite B1 in A5. inversion A5; subst p.
    destruct (W2 _ _ _ _ Ers Ec') as (a1 & Ea1 & Hl1 & Hr1). destruct (W2 _ _ _ _ E1 E2) as (a2 & Ea2 & Hl2 & Hr2).
    rewrite E3 in Ea1, Ea2. inversion Ea1; subst a1. inversion Ea2; subst a2.
    split; [congruence|]. split; [reflexivity|]. congruence. }
  constructor.
  - intros pf po c cf E I. change (get_obj w pf = Some po) in E.
    destruct (tC1 _ _ _ T _ _ _ _ E I) as (co & rs0 & A1 & A2 & A3 & A4 & A5 & A6 & A7).
    destruct (RSb _ _ A5) as (rs1 & E1 & L1).
    exists co, rs1. split; [exact A1|]. split; [exact A2|]. split; [exact A3|]. split.
    + apply bk_odet. split; [|exact A4]. rewrite (Kw _ _ A1). destruct (mem cf fs) eqn:M; [|reflexivity]. exfalso.
      destruct (F3 _ _ _ _ _ _ A5 A6 A1 A4 M) as (Hr0 & Hp & _).
      rewrite Hr0, Ers in A5. inversion A5; subst rs0. rewrite Hp, Elx in A7. inversion A7; subst pf.
      rewrite Eox in E. inversion E; subst po. rewrite Hch in I. destruct I.
    + rewrite L1. auto.
  - intros r0 rs1 c cf co p pf po E1 E2 E3 B E4 E5 _. change (get_obj w cf = Some co) in E3. change (get_obj w pf = Some po) in E5.
    destruct (RS _ _ E1) as (rs0 & Ers0 & L1 & _). rewrite L1 in E2, E4.
    apply bk_odet in B. destruct B as [M B]. rewrite (Kw _ _ E3) in M.
    destruct ((r0 =? r) && (p =? l)) eqn:Q.
    + exfalso. apply andb_prop in Q. destruct Q as [Q1 Q2]. apply N.eqb_eq in Q1, Q2. subst r0 p.
      assert (rs0 = rs) by congruence. subst rs0.
      destruct (tO2 _ _ _ T _ _ _ _ _ _ Ers E2 E3 B (or_intror eq_refl)) as (ls0 & El0 & Il0).
      rewrite El0 in CLs. subst ls. assert (In cf fs) by (apply fulls_In; eauto).
      apply mem_false in M. contradiction.
    + eapply (tC2 _ _ _ T); eauto. intro Hk. inversion Hk; subst. rewrite !N.eqb_refl in Q. discriminate.
  - intros pf po E. eapply (tC3 _ _ _ T); eauto.
  - intros r0 rs1 p ls0 c E1 E2 I. destruct (RS _ _ E1) as (rs0 & Ers0 & L1 & Lo). rewrite Lo in E2.
    destruct ((r0 =? r) && (p =? l)) eqn:Q; [discriminate|].
    destruct (tO1 _ _ _ T _ _ _ _ _ Ers0 E2 I) as (A1 & A2 & cf & co & A3 & A4 & A5).
    assert (Kn : kne (Some (r, l)) r0 p). { intro Hk. inversion Hk; subst. rewrite !N.eqb_refl in Q. discriminate. }
    split; [exact A1|]. split; [intros _; rewrite L1; exact (A2 Kn)|]. exists cf, co. rewrite L1. split; [exact A3|]. split; [exact A4|].
    apply bk_odet. split; [|exact A5]. rewrite (Kw _ _ A4). destruct (mem cf fs) eqn:M; [|reflexivity]. exfalso.
    destruct (F3 _ _ _ _ _ _ Ers0 A3 A4 A5 M) as (Hr0 & Hp & _). subst. rewrite !N.eqb_refl in Q. discriminate.
  - intros r0 rs1 c cf co p E1 E2 E3 B Hn. change (get_obj w cf = Some co) in E3.
    destruct (RS _ _ E1) as (rs0 & Ers0 & L1 & Lo). rewrite L1 in E2, Hn. rewrite Lo.
    apply bk_odet in B. destruct B as [M B]. rewrite (Kw _ _ E3) in M.
    destruct Hn as [Hn|Hn]; [|discriminate].
    destruct (tO2 _ _ _ T _ _ _ _ _ _ Ers0 E2 E3 B (or_introl Hn)) as (ls0 & El0 & Il0).
    destruct ((r0 =? r) && (p =? l)) eqn:Q; [|eauto]. exfalso.
    apply andb_prop in Q. destruct Q as [Q1 Q2]. apply N.eqb_eq in Q1, Q2. subst r0 p.
    assert (rs0 = rs) by congruence. subst rs0. rewrite El0 in CLs. subst ls.
    assert (In cf fs) by (apply fulls_In; eauto). apply mem_false in M. contradiction.
  - intros r0 rs1 p ls0 E1 E2. destruct (RS _ _ E1) as (rs0 & Ers0 & L1 & Lo). rewrite Lo in E2.
    destruct ((r0 =? r) && (p =? l)); [discriminate|]. eapply (tO3 _ _ _ T); eauto.
Qed.

(* ---------- what _parent_object leaves alone ---------- *)
Lemma parent_pres : forall w r f h w' o rs, keys_ok w -> get_obj w f = Some o -> get_rs w r = Some rs ->
  parent_object w r f h = Some w' ->
  (forall g a', get_obj w' g = Some a' -> exists a, get_obj w g = Some a /\ o_lid a' = o_lid a /\ o_full a' = o_full a /\
      o_region a' = o_region a /\ o_parent a' = o_parent a /\
      (aget (o_parent o) (r_local rs) <> Some g -> o_children a' = o_children a)) /\
  (forall r0 rs', get_rs w' r0 = Some rs' -> exists rs0, get_rs w r0 = Some rs0 /\ r_local rs' = r_local rs0).
Proof.
  intros w r f h w' o rs K Eo Ers H.
  pose proof (frame_parent_object _ _ _ _ _ K H) as F.
  destruct (parent_spec _ _ _ _ _ _ _ K Eo Ers H) as (S0 & S1 & S2). split.
  - destruct (N.eq_dec (o_parent o) 0) as [P0|P0].
    { rewrite (S0 P0). intros g a' E. exists a'. repeat split; auto. }
    destruct (aget (o_parent o) (r_local rs)) as [pf|] eqn:Ep.
    + destruct (S1 P0 pf eq_refl) as (po & Epo & _ & _ & G). intros g a' E.
      destruct (ospec_fwd _ _ _ G _ _ E) as (a & Ea & L1 & L2 & L3 & L4 & L5).
      exists a. repeat split; auto. intros Hne. rewrite L5. destruct (g =? pf) eqn:Q; [|reflexivity].
      apply N.eqb_eq in Q. congruence.
    + destruct (S2 P0 eq_refl) as (_ & G). intros g a' E. specialize (G g). rewrite E in G. cbn in G.
      destruct (get_obj w g) as [a|]; cbn in G; [|discriminate]. assert (G' : tcore a' = tcore a) by congruence. apply tcore_inj in G'. exists a. intuition congruence.
  - intros r0 rs' E. destruct (frame_rs _ _ _ _ F E) as (rs0 & E0 & C). apply ridx_inj in C. exists rs0. intuition congruence.
Qed.

(* ---------- the adoption loop of track_object ---------- *)
Lemma TreeG_adopt : forall ls w O r rs w', Base w -> TreeG w (odet O (fulls rs ls)) None -> get_rs w r = Some rs ->
  NoDup ls -> (forall c cf, In c ls -> aget c (r_local rs) = Some cf -> O cf = None) ->
  adopt w r ls = Some w' -> TreeG w' O None /\ Base w'.
Proof.
  induction ls as [|c t IH]; intros w O r rs w' Bw T Ers ND HO H; simpl in H.
  - inversion H; subst. split; [|exact Bw]. eapply TreeG_ext; [|exact T]. intros g. reflexivity.
  - rewrite Ers in H. cbn [bind] in H. destruct (aget c (r_local rs)) as [cf|] eqn:Ec; [|discriminate].
    bind_inv H. rename w0 into w1. destruct Bw as [Kw W2].
    destruct (W2 _ _ _ _ Ers Ec) as (co & Eco & Hl & Hr).
    assert (Hfs : fulls rs (c :: t) = cf :: fulls rs t).
    { unfold fulls. simpl. rewrite Ec. reflexivity. }
    rewrite Hfs in T.
    assert (T1 : TreeG w1 (oset (odet O (cf :: fulls rs t)) cf (Some (o_parent co))) None).
    { eapply (TreeG_parent w _ None r cf false co rs w1); [split; assumption|exact T|exact Eco|exact Hr|exact Ers|rewrite Hl; exact Ec| |intros _ Hk; discriminate|exact E].
      unfold odet. cbn. rewrite N.eqb_refl. reflexivity. }
    destruct (parent_pres _ _ _ _ _ _ _ Kw Eco Ers E) as [PO PR].
    pose proof (frame_parent_object _ _ _ _ _ Kw E) as F1.
    assert (B1 : Base w1) by (eapply frame_Base; [exact F1|split; assumption]).
    destruct (frame_rs_rev _ _ _ _ F1 Ers) as (rs1 & Ers1 & C1). apply ridx_inj in C1. destruct C1 as [_ C1].
    assert (Hnc : ~ In c t) by (inversion ND; assumption). assert (NDt : NoDup t) by (inversion ND; assumption).
    assert (Hcf : ~ In cf (fulls rs t)).
    { intro Hi. apply fulls_In in Hi. destruct Hi as (c' & Ic' & Ec'). destruct (W2 _ _ _ _ Ers Ec') as (a & Ea & Hla & _).
      rewrite Eco in Ea. inversion Ea; subst a. congruence. }
    eapply (IH w1 O r rs1); [exact B1| |exact Ers1|exact NDt| |exact H].
    + rewrite (fulls_local rs rs1 t (eq_sym C1)). eapply TreeG_bk_equiv; [|exact T1].
      intros g a Eg p. destruct (PO _ _ Eg) as (a0 & Ea0 & L1 & L2 & L3 & L4 & _).
      destruct B1 as [Kw1 _]. pose proof (Kw1 _ _ Eg) as Kg.
      destruct (N.eq_dec g cf) as [->|Hne].
      * rewrite bk_oset_some by exact Kg. rewrite bk_odet. rewrite Kg.
        assert (M : mem cf (fulls rs t) = false) by (apply mem_false; exact Hcf). rewrite M.
        rewrite Eco in Ea0. inversion Ea0; subst a0.
        unfold bk, epar. rewrite Kg, (HO c cf (or_introl eq_refl) Ec). rewrite L4. split.
        { intros [X Y]. split; [reflexivity|]. split; congruence. }
        { intros [_ [X Y]]. split; congruence. }
      * rewrite bk_oset_other by (rewrite Kg; exact Hne). rewrite !bk_odet. rewrite Kg. cbn [mem existsb].
        apply N.eqb_neq in Hne. rewrite Hne. cbn [orb]. reflexivity.
    + intros c' cf' Ic' Ec'. rewrite <- C1 in Ec'. eapply HO; [right; exact Ic'|exact Ec'].
Qed.

(* ---------- track_object of a detached, un-indexed object ---------- *)
Lemma track_object_Tree : forall w r x o rs w', Base w -> TreeG w (oset no_ovr x None) None ->
  get_obj w x = Some o -> o_region o = r -> get_rs w r = Some rs -> aget (o_lid o) (r_local rs) = None ->
  o_parent o <> o_lid o ->
  track_object w r x = Some w' -> Tree w'.
Proof.
  intros w r x o rs w' Bw T Eo Hr Ers Hfree Hself H. unfold track_object in H. rewrite Eo, Ers in H. cbn [bind] in H.
  set (l := o_lid o) in *. set (m := sdel l (r_missing rs)) in *.
  set (w1 := set_rs w r (with_missing (with_local rs (aset l x (r_local rs))) m)) in *.
  pose proof (Base_index _ _ _ _ _ m Bw Eo Hr Ers) as B1. fold l in B1. fold w1 in B1.
  pose proof (TreeG_index _ _ _ _ _ _ m Bw T Eo Hr Ers Hfree) as T1. fold l in T1. fold w1 in T1.
  specialize (T1 ltac:(unfold oset; rewrite N.eqb_refl; reflexivity)).
  bind_inv H. rename w0 into w2.
  set (rs1 := with_missing (with_local rs (aset l x (r_local rs))) m) in *.
  assert (Ers1 : get_rs w1 r = Some rs1) by (unfold w1; rewrite get_rs_set_rs, N.eqb_refl; reflexivity).
  assert (Eo1 : get_obj w1 x = Some o) by exact Eo.
  assert (Eidx1 : aget (o_lid o) (r_local rs1) = Some x).
  { unfold rs1. cbn [r_local with_local with_missing]. rewrite aget_aset. fold l. rewrite N.eqb_refl. reflexivity. }
  destruct B1 as [K1 W21].
  assert (T2 : TreeG w2 (oset (oset no_ovr x None) x (Some (o_parent o))) (Some (r, l))).
  { eapply (TreeG_parent w1 _ _ r x false o rs1 w2); [split; assumption|exact T1|exact Eo1|exact Hr|exact Ers1|exact Eidx1| | |exact E].
    - unfold oset. rewrite N.eqb_refl. reflexivity.
    - intros _ Hk. inversion Hk. congruence. }
  destruct (parent_pres _ _ _ _ _ _ _ K1 Eo1 Ers1 E) as [PO PR].
  pose proof (frame_parent_object _ _ _ _ _ K1 E) as F2.
  assert (B2 : Base w2) by (eapply frame_Base; [exact F2|split; assumption]).
  destruct (frame_obj_rev _ _ _ _ F2 Eo1) as (o2 & Eo2 & _).
  destruct (PO _ _ Eo2) as (o1' & Eo1' & L1 & L2 & L3 & L4 & L5). rewrite Eo1 in Eo1'. inversion Eo1'; subst o1'.
  (* x's own children list is untouched: its parent is not itself *)
  assert (Hch0 : o_children o = []).
  { destruct (o_children o) as [|[c cf] t] eqn:Ech; [reflexivity|]. exfalso.
    assert (Ic : In (c, cf) (o_children o)) by (rewrite Ech; left; reflexivity).
    destruct (tC1 _ _ _ T _ _ _ _ Eo Ic) as (co & rs0 & _ & _ & _ & _ & A5 & _ & A7).
    rewrite Hr, Ers in A5. inversion A5; subst rs0. fold l in A7. congruence. }
  assert (Hch : o_children o2 = []).
  { rewrite L5; [exact Hch0|].
    intro Hp. unfold rs1 in Hp. cbn [r_local with_local with_missing] in Hp. rewrite aget_aset in Hp.
    destruct (o_parent o =? l) eqn:Q; [apply N.eqb_eq in Q; contradiction|].
    destruct (proj2 Bw _ _ _ _ Ers Hp) as (a & Ea & Hla & _). rewrite Eo in Ea. inversion Ea; subst a. fold l in Hla. congruence. }
  (* back to no overrides: x is now bookkept under its own parent field *)
  assert (T2' : TreeG w2 no_ovr (Some (r, l))).
  { eapply TreeG_bk_equiv; [|exact T2]. intros g a Eg p. destruct B2 as [K2 _]. pose proof (K2 _ _ Eg) as Kg.
    destruct (N.eq_dec g x) as [->|Hne].
    - rewrite bk_oset_some by exact Kg. rewrite Eo2 in Eg. inversion Eg; subst a.
      unfold bk, epar, no_ovr. rewrite L4. split; intros [X Y]; split; congruence.
    - rewrite bk_oset_other by (rewrite Kg; exact Hne). rewrite bk_oset_other by (rewrite Kg; exact Hne). reflexivity. }
  bind_inv H. rename r0 into rs2.
  destruct (PR _ _ E0) as (rs1' & Ers1' & Lrs2). rewrite Ers1 in Ers1'. inversion Ers1'; subst rs1'.
  destruct (collect_orphans rs2 l) as [orph rs3] eqn:Ec.
  assert (Elx2 : aget l (r_local rs2) = Some x) by (rewrite Lrs2; exact Eidx1).
  pose proof (TreeG_collect _ _ _ _ _ _ _ _ _ B2 T2' E0 Elx2 Eo2 Hch Ec) as T3.
  destruct (collect_spec _ _ _ _ Ec) as (CL & CO & CLs).
  assert (B3 : Base (set_rs w2 r rs3)).
  { eapply frame_Base; [|exact B2]. eapply frame_set_rs; [exact E0|]. unfold ridx.
    change rs3 with (snd (orph, rs3)). rewrite <- Ec. apply ridx_collect. }
  assert (Ers3 : get_rs (set_rs w2 r rs3) r = Some rs3) by (rewrite get_rs_set_rs, N.eqb_refl; reflexivity).
  rewrite <- (fulls_local rs2 rs3 orph CL) in T3.
  assert (ND : NoDup orph).
  { subst orph. destruct (aget l (r_orphans rs2)) eqn:El; [|constructor]. eapply (tO3 _ _ _ T2'); eauto. }
  destruct (TreeG_adopt orph _ no_ovr r rs3 w' B3 T3 Ers3 ND ltac:(intros; reflexivity) H) as [T4 _].
  exact T4.
Qed.

(* ---------- what _unparent_object leaves alone ---------- *)
Lemma unparent_pres : forall w r f q w' o rs, keys_ok w -> get_obj w f = Some o -> get_rs w r = Some rs ->
  unparent_object w r f q = Some w' ->
  (forall g a', get_obj w' g = Some a' -> exists a, get_obj w g = Some a /\ o_lid a' = o_lid a /\ o_full a' = o_full a /\
      o_region a' = o_region a /\ o_parent a' = o_parent a /\
      (is_parent_key rs q g = false -> o_children a' = o_children a)) /\
  (forall g a, get_obj w g = Some a -> exists a', get_obj w' g = Some a' /\ o_lid a' = o_lid a /\ o_full a' = o_full a /\
      o_region a' = o_region a /\ o_parent a' = o_parent a /\
      o_children a' = if is_parent_key rs q g then remove1k (o_lid o) (o_children a) else o_children a) /\
  (forall r0 rs', get_rs w' r0 = Some rs' -> exists rs0, get_rs w r0 = Some rs0 /\ r_local rs' = r_local rs0) /\
  (forall r0 rs0, get_rs w r0 = Some rs0 -> exists rs', get_rs w' r0 = Some rs' /\ r_local rs' = r_local rs0).
Proof.
  intros w r f q w' o rs K Eo Ers H.
  destruct (unparent_spec _ _ _ _ _ _ _ K Eo Ers H) as [R G].
  pose proof (ospec_fwd _ _ _ G) as FW. pose proof (ospec_bwd _ _ _ G) as BW. cbn beta in FW, BW.
  split; [|split; [|split]].
  - intros g a' E. destruct (FW _ _ E) as (a & Ea & L1 & L2 & L3 & L4 & L5). exists a. repeat split; auto.
    intros Hk. rewrite L5, Hk. reflexivity.
  - intros g a E. destruct (BW _ _ E) as (a' & Ea' & L1 & L2 & L3 & L4 & L5). exists a'. repeat split; auto.
  - intros r0 rs' E. rewrite R in E. destruct ((r0 =? r) && negb (q =? 0)) eqn:Q.
    + apply andb_prop in Q. destruct Q as [Q _]. apply N.eqb_eq in Q. subst r0. inversion E; subst rs'.
      exists rs. split; [exact Ers|apply untrack_orphan_local].
    + eauto.
  - intros r0 rs0 E. rewrite R. destruct ((r0 =? r) && negb (q =? 0)) eqn:Q.
    + apply andb_prop in Q. destruct Q as [Q _]. apply N.eqb_eq in Q. subst r0. rewrite Ers in E. inversion E; subst rs0.
      eexists. split; [reflexivity|apply untrack_orphan_local].
    + eauto.
Qed.

(* ---------- handle_object_reparented: the object is still bookkept under q, its parent field is already new ---------- *)
Lemma reparent_Tree : forall w r f q o rs w', Base w -> TreeG w (oset no_ovr f (Some q)) None ->
  get_obj w f = Some o -> o_region o = r -> get_rs w r = Some rs -> aget (o_lid o) (r_local rs) = Some f ->
  handle_object_reparented w r f q = Some w' -> Tree w'.
Proof.
  intros w r f q o rs w' Bw T Eo Hr Ers Eidx H. pose proof Bw as [Kw W2]. pose proof (Kw _ _ Eo) as Kf.
  unfold handle_object_reparented in H. bind_inv H. rename w0 into w1. bind_inv H. rename o0 into o1.
  assert (T1 : TreeG w1 (oset (oset no_ovr f (Some q)) f None) None).
  { eapply (TreeG_unparent w _ None r f q o rs w1); eauto. unfold epar, oset. rewrite Kf, N.eqb_refl. reflexivity. }
  destruct (unparent_pres _ _ _ _ _ _ _ Kw Eo Ers E) as (PF & PB & RF & RB).
  pose proof (frame_unparent_object _ _ _ _ _ Kw E) as F1.
  assert (B1 : Base w1) by (eapply frame_Base; eauto). pose proof B1 as [K1 W21].
  destruct (PF _ _ E0) as (o0 & Eo0 & L1 & L2 & L3 & L4 & _). rewrite Eo in Eo0. inversion Eo0; subst o0.
  destruct (RB _ _ Ers) as (rs1 & Ers1 & Lrs1).
  assert (T2 : TreeG w' (oset (oset (oset no_ovr f (Some q)) f None) f (Some (o_parent o1))) None).
  { eapply (TreeG_parent w1 _ None r f _ o1 rs1 w'); [exact B1|exact T1|exact E0|congruence|exact Ers1| | | |exact H].
    - rewrite Lrs1, L1. exact Eidx.
    - unfold oset. rewrite N.eqb_refl. reflexivity.
    - intros _ Hk. discriminate. }
  destruct (parent_pres _ _ _ _ _ _ _ K1 E0 Ers1 H) as [PO _].
  pose proof (frame_parent_object _ _ _ _ _ K1 H) as F2. assert (B2 : Base w') by (eapply frame_Base; eauto).
  eapply TreeG_bk_equiv; [|exact T2]. intros g a Eg p. destruct B2 as [K2 _]. pose proof (K2 _ _ Eg) as Kg.
  destruct (N.eq_dec g f) as [->|Hne].
  - rewrite bk_oset_some by exact Kg. destruct (PO _ _ Eg) as (a1 & Ea1 & _ & _ & _ & M4 & _).
    rewrite E0 in Ea1. inversion Ea1; subst a1. unfold bk, epar, no_ovr. rewrite M4. split; intros [X Y]; split; congruence.
  - rewrite !bk_oset_other by (rewrite Kg; exact Hne). reflexivity.
Qed.

(* ---------- a new object (ObjectUpdate for an unknown full id) ---------- *)
Lemma track_new_Tree : forall w r o w', Idx w -> Tree w -> get_obj w (o_full o) = None -> o_region o = r ->
  o_children o = [] -> region_state w r <> None -> lid_unique w r (o_lid o) (o_full o) -> o_parent o <> o_lid o ->
  track_new w r o = Some w' -> Tree w'.
Proof.
  intros w r o w' I T Hn Hr Hc Hrs Hu Hself H. pose proof I as (K & A & B). unfold track_new in H.
  bind_inv H. rename w0 into w1. bind_inv H.
  destruct (region_state w r) as [rs|] eqn:Ers; [|congruence]. apply region_state_some in Ers. destruct Ers as [Ers Ht].
  assert (Hfree : aget (o_lid o) (r_local rs) = None).
  { destruct (aget (o_lid o) (r_local rs)) as [g|] eqn:Eg; [|reflexivity].
    pose proof (Hu _ _ Ers Eg) as ->. destruct (A _ _ _ _ Ers Eg) as (og & Eog & _). congruence. }
  assert (Eo : get_obj (set_obj w o) (o_full o) = Some o) by (rewrite get_obj_set_obj, N.eqb_refl; reflexivity).
  assert (T0 : TreeG (set_obj w o) (oset no_ovr (o_full o) None) None).
  { apply TreeG_new_obj; [apply Idx_Base; exact I|exact T|exact Hn|exact Hc]. }
  assert (B0 : Base (set_obj w o)) by (eapply IdxX_Base; apply IdxX_new; eauto).
  pose proof (track_object_Tree _ _ _ _ _ _ B0 T0 Eo Hr Ers Hfree Hself E) as T1.
  destruct (region_state w1 (o_region o0)); inversion H; subst; [|exact T1].
  eapply tframe_TreeG; [apply tframe_set_futs|exact T1].
Qed.

(* ---------- pframe: lid / full / region / parent of every object and every local-id index are unchanged ---------- *)
Definition pcore (o : obj) : N * N * N * N := (o_lid o, o_full o, o_region o, o_parent o).
Definition pframe (w w' : world) : Prop :=
  (forall g, option_map pcore (get_obj w' g) = option_map pcore (get_obj w g)) /\
  (forall r, option_map r_local (get_rs w' r) = option_map r_local (get_rs w r)).

Lemma pframe_refl : forall w, pframe w w.
Proof. split; reflexivity. Qed.
Lemma pframe_trans : forall a b c, pframe a b -> pframe b c -> pframe a c.
Proof. intros a b c [H1 H2] [H3 H4]. split; intros; [rewrite H3, H1|rewrite H4, H2]; reflexivity. Qed.

Lemma pframe_obj : forall w w' g a', pframe w w' -> get_obj w' g = Some a' ->
  exists a, get_obj w g = Some a /\ o_lid a' = o_lid a /\ o_full a' = o_full a /\ o_region a' = o_region a /\ o_parent a' = o_parent a.
Proof.
  intros w w' g a' [H _] E. specialize (H g). rewrite E in H. cbn in H. destruct (get_obj w g) as [a|]; cbn in H; [|discriminate].
  exists a. unfold pcore in H. inversion H. auto.
Qed.
Lemma pframe_obj_rev : forall w w' g a, pframe w w' -> get_obj w g = Some a ->
  exists a', get_obj w' g = Some a' /\ o_lid a' = o_lid a /\ o_full a' = o_full a /\ o_region a' = o_region a /\ o_parent a' = o_parent a.
Proof.
  intros w w' g a [H _] E. specialize (H g). rewrite E in H. cbn in H. destruct (get_obj w' g) as [a'|]; cbn in H; [|discriminate].
  exists a'. unfold pcore in H. inversion H. auto.
Qed.
Lemma pframe_rs : forall w w' r rs', pframe w w' -> get_rs w' r = Some rs' -> exists rs, get_rs w r = Some rs /\ r_local rs' = r_local rs.
Proof.
  intros w w' r rs' [_ H] E. specialize (H r). rewrite E in H. cbn in H. destruct (get_rs w r) as [rs|]; cbn in H; [|discriminate].
  exists rs. split; congruence.
Qed.
Lemma pframe_rs_rev : forall w w' r rs, pframe w w' -> get_rs w r = Some rs -> exists rs', get_rs w' r = Some rs' /\ r_local rs' = r_local rs.
Proof.
  intros w w' r rs [_ H] E. specialize (H r). rewrite E in H. cbn in H. destruct (get_rs w' r) as [rs'|]; cbn in H; [|discriminate].
  exists rs'. split; congruence.
Qed.

Lemma pframe_Base : forall w w', pframe w w' -> Base w -> Base w'.
Proof.
  intros w w' F [K A]. split.
  - intros g a' E. destruct (pframe_obj _ _ _ _ F E) as (a & Ea & _ & L2 & _). rewrite L2. eauto.
  - intros r rs' l f E1 E2. destruct (pframe_rs _ _ _ _ F E1) as (rs & Ers & L). rewrite L in E2.
    destruct (A _ _ _ _ Ers E2) as (a & Ea & Hl & Hr). destruct (pframe_obj_rev _ _ _ _ F Ea) as (a' & Ea' & L1 & _ & L3 & _).
    exists a'. intuition congruence.
Qed.

Lemma pframe_of_pres : forall w w',
  (forall g a', get_obj w' g = Some a' -> exists a, get_obj w g = Some a /\ o_lid a' = o_lid a /\ o_full a' = o_full a /\
      o_region a' = o_region a /\ o_parent a' = o_parent a) ->
  (forall g a, get_obj w g = Some a -> exists a', get_obj w' g = Some a') ->
  (forall r0 rs', get_rs w' r0 = Some rs' -> exists rs0, get_rs w r0 = Some rs0 /\ r_local rs' = r_local rs0) ->
  (forall r0 rs0, get_rs w r0 = Some rs0 -> exists rs', get_rs w' r0 = Some rs') ->
  pframe w w'.
Proof.
  intros w w' H1 H2 H3 H4. split.
  - intros g. destruct (get_obj w' g) as [a'|] eqn:E'.
    + destruct (H1 _ _ E') as (a & Ea & L1 & L2 & L3 & L4). rewrite Ea. cbn. unfold pcore. congruence.
    + destruct (get_obj w g) as [a|] eqn:E; [|reflexivity]. destruct (H2 _ _ E) as (a' & Ea'). congruence.
  - intros r. destruct (get_rs w' r) as [rs'|] eqn:E'.
    + destruct (H3 _ _ E') as (rs0 & E0 & L). rewrite E0. cbn. congruence.
    + destruct (get_rs w r) as [rs0|] eqn:E; [|reflexivity]. destruct (H4 _ _ E) as (rs' & Ers'). congruence.
Qed.

Lemma pframe_unparent : forall w r f q w', keys_ok w -> unparent_object w r f q = Some w' -> pframe w w'.
Proof.
  intros w r f q w' K H. pose proof H as H0. unfold unparent_object in H0. bind_inv H0. bind_inv H0. clear H0.
  destruct (unparent_pres _ _ _ _ _ _ _ K E E0 H) as (PF & PB & RF & RB).
  apply pframe_of_pres.
  - intros g a' Eg. destruct (PF _ _ Eg) as (a & Ea & L1 & L2 & L3 & L4 & _). eauto 10.
  - intros g a Eg. destruct (PB _ _ Eg) as (a' & Ea' & _). eauto.
  - exact RF.
  - intros r0 rs0 Er. destruct (RB _ _ Er) as (rs' & Ers' & _). eauto.
Qed.

Lemma pframe_parent : forall w r f h w', keys_ok w -> parent_object w r f h = Some w' -> pframe w w'.
Proof.
  intros w r f h w' K H. pose proof H as H0. unfold parent_object in H0. bind_inv H0. bind_inv H0. clear H0.
  destruct (parent_pres _ _ _ _ _ _ _ K E E0 H) as (PO & PR).
  pose proof (frame_parent_object _ _ _ _ _ K H) as F.
  apply pframe_of_pres.
  - intros g a' Eg. destruct (PO _ _ Eg) as (a & Ea & L1 & L2 & L3 & L4 & _). eauto 10.
  - intros g a Eg. destruct (frame_obj_rev _ _ _ _ F Eg) as (a' & Ea' & _). eauto.
  - exact PR.
  - intros r0 rs0 Er. destruct (frame_rs_rev _ _ _ _ F Er) as (rs' & Ers' & _). eauto.
Qed.

Lemma pframe_set_rs : forall w r rs rs', get_rs w r = Some rs -> r_local rs' = r_local rs -> pframe w (set_rs w r rs').
Proof.
  intros w r rs rs' E L. split; [reflexivity|]. intros r0. rewrite get_rs_set_rs. destruct (r0 =? r) eqn:Q; [|reflexivity].
  apply N.eqb_eq in Q. subst. rewrite E. cbn. congruence.
Qed.
Lemma pframe_set_futs : forall w fs, pframe w (set_futs w fs).
Proof. split; reflexivity. Qed.

(* ---------- first loop of untrack_object: every child is detached ---------- *)
Lemma odet_cons_ext : forall O f fs g, oset (odet O fs) f None g = odet O (f :: fs) g.
Proof.
  intros. unfold oset, odet. cbn [mem existsb]. destruct (g =? f); cbn [orb]; reflexivity.
Qed.

Lemma unparent_children_TreeG : forall ids w O K r rs w', Base w -> TreeG w O K -> get_rs w r = Some rs -> NoDup ids ->
  (forall c cf, In c ids -> aget c (r_local rs) = Some cf -> O cf = None) ->
  unparent_children w r ids = Some w' ->
  TreeG w' (odet O (fulls rs ids)) K /\ pframe w w'.
Proof.
  induction ids as [|c t IH]; intros w O K r rs w' Bw T Ers ND HO H; simpl in H.
  - inversion H; subst. split; [|apply pframe_refl]. eapply TreeG_ext; [|exact T]. intros g. reflexivity.
  - rewrite Ers in H. cbn [bind] in H. destruct (aget c (r_local rs)) as [cf|] eqn:Ec; [|discriminate].
    bind_inv H. rename o into co. bind_inv H. rename w0 into w1. pose proof Bw as [Kw W2].
    destruct (W2 _ _ _ _ Ers Ec) as (co' & Eco' & Hl & Hr). rewrite E in Eco'. inversion Eco'; subst co'.
    assert (T1 : TreeG w1 (oset O cf None) K).
    { eapply (TreeG_unparent w O K r cf (o_parent co) co rs w1); eauto; [rewrite Hl; exact Ec|].
      unfold epar. rewrite (Kw _ _ E), (HO c cf (or_introl eq_refl) Ec). reflexivity. }
    pose proof (pframe_unparent _ _ _ _ _ Kw E0) as F1. pose proof (pframe_Base _ _ F1 Bw) as B1.
    destruct (pframe_rs_rev _ _ _ _ F1 Ers) as (rs1 & Ers1 & L1).
    assert (Hnc : ~ In c t) by (inversion ND; assumption). assert (NDt : NoDup t) by (inversion ND; assumption).
    destruct (IH w1 (oset O cf None) K r rs1 w' B1 T1 Ers1 NDt) as [T2 F2]; [|exact H|].
    + intros c' cf' Ic' Ec'. rewrite L1 in Ec'. unfold oset. destruct (cf' =? cf) eqn:Q.
      * apply N.eqb_eq in Q. subst cf'. destruct (W2 _ _ _ _ Ers Ec') as (a & Ea & Hla & _). rewrite E in Ea. inversion Ea; subst a. congruence.
      * eapply HO; [right; exact Ic'|exact Ec'].
    + split; [|eapply pframe_trans; eauto].
      eapply TreeG_ext; [|exact T2]. intros g. rewrite (fulls_local rs rs1 t L1).
      assert (Hfs : fulls rs (c :: t) = cf :: fulls rs t) by (unfold fulls; simpl; rewrite Ec; reflexivity).
      rewrite Hfs. unfold odet, oset. cbn [mem existsb]. destruct (g =? cf); cbn [orb]; [|reflexivity].
      destruct (mem g (fulls rs t)); reflexivity.
Qed.
