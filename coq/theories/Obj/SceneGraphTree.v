(* C14 - the children / orphan clauses of the invariant (Tree) for the scene-graph model.

   Tree w: (C1/C2) c in children(p) <-> c tracked, bookkept parent of c = lid p <> 0, same region, p tracked;
           (C3) children duplicate-free; (O1/O2) c in orphans[p] <-> c tracked, parent of c = p <> 0, p untracked
           in that region; (O3) orphan lists duplicate-free.

   The handlers pass through states where one object is detached or still bookkept under its old parent, and
   where one local id is (un)indexed before its orphan list is fixed up.  TreeG generalises Tree by
     O : full id -> option (option N)   overrides of the parent an object is currently bookkept under
                                        (Some None = detached, Some (Some q) = still under q),
     K : option (region * lid)          one local id whose children are held as orphans whether or not it
                                        is indexed.
   Tree w = TreeG w (fun _ => None) None. *)
From Coq Require Import NArith List Bool Lia.
From HV Require Import Obj.SceneGraph Obj.SceneGraphProofs.
Import ListNotations.
Open Scope N_scope.

Definition ovr := N -> option (option N).
Definition no_ovr : ovr := fun _ => None.
Definition oset (O : ovr) (f : N) (x : option N) : ovr := fun g => if g =? f then Some x else O g.

Definition epar (O : ovr) (co : obj) : option N :=
  match O (o_full co) with Some x => x | None => Some (o_parent co) end.
(* co is bookkept as a child of local id p *)
Definition bk (O : ovr) (co : obj) (p : N) : Prop := epar O co = Some p /\ p <> 0.

(* keys and validity of index entries (implied by Idx and by IdxX) *)
Definition Base (w : world) : Prop :=
  keys_ok w /\
  (forall r rs l f, get_rs w r = Some rs -> aget l (r_local rs) = Some f ->
     exists o, get_obj w f = Some o /\ o_lid o = l /\ o_region o = r).

Definition kne (K : option (N * N)) (r p : N) : Prop := K <> Some (r, p).

Record TreeG (w : world) (O : ovr) (K : option (N * N)) : Prop := mkTree {
  tC1 : forall pf po c cf, get_obj w pf = Some po -> In (c, cf) (o_children po) ->
        exists co rs, get_obj w cf = Some co /\ o_lid co = c /\ o_region co = o_region po /\ bk O co (o_lid po) /\
                      get_rs w (o_region po) = Some rs /\ aget c (r_local rs) = Some cf /\
                      aget (o_lid po) (r_local rs) = Some pf;
  tC2 : forall r rs c cf co p pf po, get_rs w r = Some rs -> aget c (r_local rs) = Some cf ->
        get_obj w cf = Some co -> bk O co p -> aget p (r_local rs) = Some pf -> get_obj w pf = Some po ->
        kne K r p -> In (c, cf) (o_children po);
  tC3 : forall pf po, get_obj w pf = Some po -> NoDup (map fst (o_children po));
  tO1 : forall r rs p ls c, get_rs w r = Some rs -> aget p (r_orphans rs) = Some ls -> In c ls ->
        p <> 0 /\ (kne K r p -> aget p (r_local rs) = None) /\
        exists cf co, aget c (r_local rs) = Some cf /\ get_obj w cf = Some co /\ bk O co p;
  tO2 : forall r rs c cf co p, get_rs w r = Some rs -> aget c (r_local rs) = Some cf ->
        get_obj w cf = Some co -> bk O co p -> (aget p (r_local rs) = None \/ K = Some (r, p)) ->
        exists ls, aget p (r_orphans rs) = Some ls /\ In c ls;
  tO3 : forall r rs p ls, get_rs w r = Some rs -> aget p (r_orphans rs) = Some ls -> NoDup ls
}.

Definition Tree (w : world) : Prop := TreeG w no_ovr None.

Lemma Idx_Base : forall w, Idx w -> Base w.
Proof. intros w (K & A & _). split; assumption. Qed.
Lemma IdxX_Base : forall w x, IdxX w x -> Base w.
Proof.
  intros w x (K & A & _). split; [assumption|]. intros r rs l f E1 E2. destruct (A _ _ _ _ E1 E2) as [_ H]. exact H.
Qed.

(* pointwise equal overrides *)
Lemma bk_ext : forall O O' co p, (forall g, O g = O' g) -> bk O co p -> bk O' co p.
Proof. intros O O' co p H [H1 H2]. split; [|exact H2]. unfold epar in *. rewrite <- H. exact H1. Qed.

Lemma TreeG_ext : forall w O O' K, (forall g, O g = O' g) -> TreeG w O K -> TreeG w O' K.
Proof.
  intros w O O' K H T. assert (H' : forall g, O' g = O g) by (intro; symmetry; apply H).
  constructor.
  - intros pf po c cf E I. destruct (tC1 _ _ _ T _ _ _ _ E I) as (co & rs & A1 & A2 & A3 & A4 & A5).
    exists co, rs. repeat split; try tauto. eapply bk_ext; [exact H|tauto]. apply A4.
  - intros. eapply (tC2 _ _ _ T); eauto. eapply bk_ext; eauto.
  - apply (tC3 _ _ _ T).
  - intros r rs p ls c E1 E2 I. destruct (tO1 _ _ _ T _ _ _ _ _ E1 E2 I) as (A1 & A2 & cf & co & A3 & A4 & A5).
    split; [exact A1|]. split; [exact A2|]. exists cf, co. repeat split; auto; eapply bk_ext; eauto; apply A5.
  - intros. eapply (tO2 _ _ _ T); eauto. eapply bk_ext; eauto.
  - apply (tO3 _ _ _ T).
Qed.

(* ---------- frames that keep every field Tree depends on ---------- *)
Definition tcore (o : obj) : N * N * N * N * list (N * N) := (o_lid o, o_full o, o_region o, o_parent o, o_children o).
Definition tridx (rs : rstate) : list (N * N) * list (N * list N) := (r_local rs, r_orphans rs).

Definition tframe (w w' : world) : Prop :=
  (forall f, option_map tcore (get_obj w' f) = option_map tcore (get_obj w f)) /\
  (forall r, option_map tridx (get_rs w' r) = option_map tridx (get_rs w r)).

Lemma tframe_refl : forall w, tframe w w.
Proof. split; reflexivity. Qed.
Lemma tframe_trans : forall a b c, tframe a b -> tframe b c -> tframe a c.
Proof. intros a b c [H1 H2] [H3 H4]. split; intros; [rewrite H3, H1|rewrite H4, H2]; reflexivity. Qed.
Lemma tframe_sym : forall a b, tframe a b -> tframe b a.
Proof. intros a b [H1 H2]. split; intros; [rewrite H1|rewrite H2]; reflexivity. Qed.

Lemma tcore_inj : forall o o', tcore o = tcore o' ->
  o_lid o = o_lid o' /\ o_full o = o_full o' /\ o_region o = o_region o' /\ o_parent o = o_parent o' /\
  o_children o = o_children o'.
Proof. unfold tcore. intros o o' H. inversion H. auto. Qed.
Lemma tridx_inj : forall a b, tridx a = tridx b ->
  True /\ r_local a = r_local b /\ r_orphans a = r_orphans b.
Proof. unfold tridx. intros a b H. inversion H. auto. Qed.

Lemma tframe_obj : forall w w' f o', tframe w w' -> get_obj w' f = Some o' ->
  exists o, get_obj w f = Some o /\ tcore o = tcore o'.
Proof.
  intros w w' f o' [H _] E. specialize (H f). rewrite E in H. simpl in H.
  destruct (get_obj w f) as [o|]; simpl in H; [|discriminate]. exists o. split; congruence.
Qed.
Lemma tframe_rs : forall w w' r rs', tframe w w' -> get_rs w' r = Some rs' ->
  exists rs, get_rs w r = Some rs /\ tridx rs = tridx rs'.
Proof.
  intros w w' r rs' [_ H] E. specialize (H r). rewrite E in H. simpl in H.
  destruct (get_rs w r) as [rs|]; simpl in H; [|discriminate]. exists rs. split; congruence.
Qed.

Lemma tframe_Base : forall w w', tframe w w' -> Base w -> Base w'.
Proof.
  intros w w' F [K A]. pose proof (tframe_sym _ _ F) as F'. split.
  - intros f o' E. destruct (tframe_obj _ _ _ _ F E) as (o & Eo & C). apply tcore_inj in C.
    destruct C as (_ & C & _). rewrite <- C. eauto.
  - intros r rs' l f E1 E2. destruct (tframe_rs _ _ _ _ F E1) as (rs & Ers & C). apply tridx_inj in C.
    destruct C as (_ & C & _). rewrite <- C in E2. destruct (A _ _ _ _ Ers E2) as (o & Eo & H1 & H2).
    destruct (tframe_obj _ _ _ _ F' Eo) as (o' & Eo' & C'). apply tcore_inj in C'.
    exists o'. intuition congruence.
Qed.

Lemma bk_tcore : forall O o o' p, tcore o = tcore o' -> bk O o p -> bk O o' p.
Proof.
  intros O o o' p C [H1 H2]. apply tcore_inj in C. destruct C as (_ & Cf & _ & Cp & _).
  split; [|exact H2]. unfold epar in *. rewrite <- Cf, <- Cp. exact H1.
Qed.

Lemma tframe_TreeG : forall w w' O K, tframe w w' -> TreeG w O K -> TreeG w' O K.
Proof.
  intros w w' O K F T. pose proof (tframe_sym _ _ F) as F'.
  constructor.
  - intros pf po' c cf E I.
    destruct (tframe_obj _ _ _ _ F E) as (po & Epo & Cpo). pose proof (tcore_inj _ _ Cpo) as (P1 & P2 & P3 & P4 & P5).
    rewrite <- P5 in I. destruct (tC1 _ _ _ T _ _ _ _ Epo I) as (co & rs & A1 & A2 & A3 & A4 & A5 & A6 & A7).
    destruct (tframe_obj _ _ _ _ F' A1) as (co' & Eco' & Cco). pose proof (tcore_inj _ _ Cco) as (Q1 & Q2 & Q3 & Q4 & Q5).
    destruct (tframe_rs _ _ _ _ F' A5) as (rs' & Ers' & Crs). pose proof (tridx_inj _ _ Crs) as (R1 & R2 & R3).
    exists co', rs'. rewrite <- P3, <- P1. repeat split; try congruence.
    + eapply bk_tcore; [symmetry; exact Cco|]. apply A4.
    + apply A4.
  - intros r rs' c cf co' p pf po' E1 E2 E3 B E4 E5 Kn.
    destruct (tframe_rs _ _ _ _ F E1) as (rs & Ers & Crs). pose proof (tridx_inj _ _ Crs) as (R1 & R2 & R3).
    destruct (tframe_obj _ _ _ _ F E3) as (co & Eco & Cco).
    destruct (tframe_obj _ _ _ _ F E5) as (po & Epo & Cpo). pose proof (tcore_inj _ _ Cpo) as (P1 & P2 & P3 & P4 & P5).
    rewrite <- P5. rewrite <- R2 in E2, E4.
    eapply (tC2 _ _ _ T); eauto. eapply bk_tcore; [symmetry; exact Cco|exact B].
  - intros pf po' E. destruct (tframe_obj _ _ _ _ F E) as (po & Epo & Cpo). pose proof (tcore_inj _ _ Cpo) as (P1 & P2 & P3 & P4 & P5).
    rewrite <- P5. eapply (tC3 _ _ _ T); eauto.
  - intros r rs' p ls c E1 E2 I.
    destruct (tframe_rs _ _ _ _ F E1) as (rs & Ers & Crs). pose proof (tridx_inj _ _ Crs) as (R1 & R2 & R3).
    rewrite <- R3 in E2. destruct (tO1 _ _ _ T _ _ _ _ _ Ers E2 I) as (A1 & A2 & cf & co & A3 & A4 & A5).
    destruct (tframe_obj _ _ _ _ F' A4) as (co' & Eco' & Cco).
    split; [exact A1|]. split; [rewrite <- R2; exact A2|]. exists cf, co'. rewrite <- R2.
    repeat split; auto; try (eapply bk_tcore; [symmetry; exact Cco|]); apply A5.
  - intros r rs' c cf co' p E1 E2 E3 B H.
    destruct (tframe_rs _ _ _ _ F E1) as (rs & Ers & Crs). pose proof (tridx_inj _ _ Crs) as (R1 & R2 & R3).
    destruct (tframe_obj _ _ _ _ F E3) as (co & Eco & Cco).
    rewrite <- R3. rewrite <- R2 in E2, H. eapply (tO2 _ _ _ T); eauto. eapply bk_tcore; [symmetry; exact Cco|exact B].
  - intros r rs' p ls E1 E2.
    destruct (tframe_rs _ _ _ _ F E1) as (rs & Ers & Crs). pose proof (tridx_inj _ _ Crs) as (R1 & R2 & R3).
    rewrite <- R3 in E2. eapply (tO3 _ _ _ T); eauto.
Qed.

(* elementary tframes *)
Lemma tframe_set_obj : forall w f o o', get_obj w f = Some o -> tcore o' = tcore o -> o_full o = f ->
  tframe w (set_obj w o').
Proof.
  intros w f o o' E C K. pose proof (tcore_inj _ _ C) as (_ & Cf & _).
  split; intros; [|reflexivity].
  rewrite get_obj_set_obj. destruct (f0 =? o_full o') eqn:Q; [|reflexivity].
  apply N.eqb_eq in Q. subst f0. rewrite Cf, K, E. simpl. congruence.
Qed.
Lemma tframe_set_rs : forall w r rs rs', get_rs w r = Some rs -> tridx rs' = tridx rs -> tframe w (set_rs w r rs').
Proof.
  intros w r rs rs' E C. split; intros; [reflexivity|].
  rewrite get_rs_set_rs. destruct (r0 =? r) eqn:Q; [|reflexivity].
  apply N.eqb_eq in Q. subst r0. rewrite E. simpl. congruence.
Qed.
Lemma tframe_set_futs : forall w fs, tframe w (set_futs w fs).
Proof. split; reflexivity. Qed.
Lemma tframe_register_all : forall ls w r, tframe w (register_all w r ls).
Proof.
  induction ls; intros; simpl; [apply tframe_refl|].
  eapply tframe_trans; [apply tframe_set_futs|apply IHls].
Qed.

(* ---------- event kinds that do not restructure the graph ---------- *)
Lemma update_properties_tcore : forall o p o' c, update_properties o p = (o', c) ->
  tcore o' = (dflt (p_lid p) (o_lid o), o_full o, dflt (p_region p) (o_region o), dflt (p_parent p) (o_parent o),
              o_children o).
Proof. intros o p o' c H. unfold update_properties in H. inversion H; subst. reflexivity. Qed.

Lemma update_existing_same_tframe : forall w f p k w' o, keys_ok w -> get_obj w f = Some o ->
  dflt (p_region p) (o_region o) = o_region o -> dflt (p_lid p) (o_lid o) = o_lid o ->
  dflt (p_parent p) (o_parent o) = o_parent o ->
  update_existing w f p k = Some w' -> tframe w w'.
Proof.
  intros w f p k w' o K Eo Hr Hl Hp H. unfold update_existing in H. rewrite Eo in H. cbn [bind] in H.
  rewrite Hr, Hl, Hp in H. rewrite !N.eqb_refl in H. cbn [negb andb bind] in H. rewrite Eo in H. cbn [bind] in H.
  destruct (update_properties o p) as [o2 ch1] eqn:Eu. pose proof (update_properties_tcore _ _ _ _ Eu) as C.
  rewrite Hr, Hl, Hp in C. cbn [bind] in H.
  assert (F : tframe w (set_obj w o2)) by (eapply (tframe_set_obj w f o); [exact Eo|exact C|eauto]).
  eapply tframe_trans; [exact F|].
  match type of H with (if ?b then _ else _) = _ => destruct b end.
  - bind_inv H. destruct (region_state (set_obj w o2) (o_region o0)); inversion H; [apply tframe_set_futs|apply tframe_refl].
  - inversion H. apply tframe_refl.
Qed.

Lemma clear_spec : forall w r w', keys_ok w -> step w (EClear r) = Some w' ->
  (forall g, get_obj w' g = match get_obj w g with Some o => if o_region o =? r then None else Some o | None => None end) /\
  (forall r', get_rs w' r' = if r' =? r then Some empty_rs else get_rs w r').
Proof.
  intros w r w' K H. cbn [step] in H. bind_inv H. inversion H; subst w'; clear H.
  cbn [set_rs cancel_region_futures set_futs w_full w_regions w_futs]. split.
  - intros g. unfold get_obj at 1. cbn [w_full]. rewrite untrack_region_get by exact K.
    unfold get_obj. destruct (aget g (w_full w)) eqn:Eg; [|reflexivity].
    rewrite (aget_mem_keys _ _ _ _ Eg). reflexivity.
  - intros r'. unfold get_rs. cbn [w_regions]. apply aget_aset.
Qed.

Lemma clear_Tree : forall w r w', Idx w -> Tree w -> step w (EClear r) = Some w' -> Tree w'.
Proof.
  intros w r w' I T H. pose proof I as (K & A & B). destruct (clear_spec _ _ _ K H) as [G R].
  assert (GS : forall g o, get_obj w' g = Some o -> get_obj w g = Some o /\ (o_region o =? r) = false).
  { intros g o E. rewrite G in E. destruct (get_obj w g) as [o0|]; [|discriminate].
    destruct (o_region o0 =? r) eqn:Q; inversion E; subst; auto. }
  assert (RS : forall r' rs, get_rs w' r' = Some rs -> (r' =? r) = false -> get_rs w r' = Some rs).
  { intros r' rs E Q. rewrite R, Q in E. exact E. }
  assert (RE : forall r' rs, get_rs w' r' = Some rs -> (r' =? r) = true -> rs = empty_rs).
  { intros r' rs E Q. rewrite R, Q in E. congruence. }
  assert (GK : forall g o, get_obj w g = Some o -> (o_region o =? r) = false -> get_obj w' g = Some o).
  { intros g o E Q. rewrite G, E, Q. reflexivity. }
  constructor.
  - intros pf po c cf E I0. destruct (GS _ _ E) as [E0 Q].
    destruct (tC1 _ _ _ T _ _ _ _ E0 I0) as (co & rs & A1 & A2 & A3 & A4 & A5 & A6 & A7).
    exists co, rs. repeat split; try tauto; try apply A4.
    + apply GK; [exact A1|congruence].
    + rewrite R, Q. exact A5.
  - intros r' rs c cf co p pf po E1 E2 E3 Bk E4 E5 Kn. destruct (r' =? r) eqn:Q.
    + rewrite (RE _ _ E1 Q) in E2. discriminate.
    + destruct (GS _ _ E3) as [E3' _]. destruct (GS _ _ E5) as [E5' _].
      eapply (tC2 _ _ _ T); eauto.
  - intros pf po E. destruct (GS _ _ E) as [E0 _]. eapply (tC3 _ _ _ T); eauto.
  - intros r' rs p ls c E1 E2 I0. destruct (r' =? r) eqn:Q.
    + rewrite (RE _ _ E1 Q) in E2. discriminate.
    + pose proof (RS _ _ E1 Q) as E1'.
      destruct (tO1 _ _ _ T _ _ _ _ _ E1' E2 I0) as (A1 & A2 & cf & co & A3 & A4 & A5).
      split; [exact A1|]. split; [exact A2|]. exists cf, co. repeat split; auto; try apply A5.
      destruct (A _ _ _ _ E1' A3) as (co' & Eco' & _ & Hr). rewrite A4 in Eco'. inversion Eco'; subst co'.
      apply GK; [exact A4|congruence].
  - intros r' rs c cf co p E1 E2 E3 Bk Hn. destruct (r' =? r) eqn:Q.
    + rewrite (RE _ _ E1 Q) in E2. discriminate.
    + destruct (GS _ _ E3) as [E3' _]. eapply (tO2 _ _ _ T); eauto.
  - intros r' rs p ls E1 E2. destruct (r' =? r) eqn:Q.
    + rewrite (RE _ _ E1 Q) in E2. discriminate.
    + eapply (tO3 _ _ _ T); eauto.
Qed.

Definition quiet_kind (e : event) : Prop :=
  match e with
  | EFull _ _ _ _ _ _ _ | EKill _ _ => False
  | _ => True
  end.

(* terse / cached / properties / region teardown / track region / the three request kinds preserve Tree *)
Lemma step_Tree_quiet : forall w e w', Idx w -> Tree w -> quiet_kind e -> step w e = Some w' -> Tree w'.
Proof.
  intros w e w' I T Q H. pose proof I as (K & A & B).
  destruct e as [cmp r l f p av v|r l v|r l crc v|f v|r l|r|r|r l|r l|r]; try contradiction.
  - (* terse *)
    cbn [step] in H. destruct (region_state w r) as [rs|] eqn:Ers; [|inversion H; subst; exact T].
    destruct (lookup_local w r l) as [o|] eqn:El.
    + destruct (lookup_local_some _ _ _ _ I El) as (Eo & Hl & Hr).
      eapply tframe_TreeG; [|exact T]. eapply (update_existing_same_tframe _ _ _ _ _ o K Eo); [| | |exact H]; cbn; congruence.
    + inversion H; subst. apply region_state_some in Ers. destruct Ers as [Ers _].
      eapply tframe_TreeG; [eapply tframe_set_rs; [exact Ers|reflexivity]|exact T].
  - (* cached *)
    cbn [step] in H. destruct (region_state w r) as [rs|] eqn:Ers; [|inversion H; subst; exact T].
    assert (Fm : Tree (set_rs w r (with_missing rs (sadd l (r_missing rs))))).
    { pose proof Ers as Ers'. apply region_state_some in Ers'. destruct Ers' as [Ers' _].
      eapply tframe_TreeG; [eapply tframe_set_rs; [exact Ers'|reflexivity]|exact T]. }
    destruct (lookup_local w r l) as [o|] eqn:El; [|inversion H; subst; exact Fm].
    destruct (o_crc o =? crc); [|inversion H; subst; exact Fm].
    destruct (lookup_local_some _ _ _ _ I El) as (Eo & Hl & Hr).
    eapply tframe_TreeG; [|exact T]. eapply (update_existing_same_tframe _ _ _ _ _ o K Eo); [| | |exact H]; cbn; congruence.
  - (* properties *)
    cbn [step] in H. destruct (get_obj w f) as [o|] eqn:Eo; [|inversion H; subst; exact T].
    eapply tframe_TreeG; [|exact T]. eapply (update_existing_same_tframe _ _ _ _ _ o K Eo); [| | |exact H]; reflexivity.
  - eapply clear_Tree; eauto.
  - cbn [step] in H. bind_inv H. inversion H; subst.
    eapply tframe_TreeG; [eapply tframe_set_rs; [exact E|reflexivity]|exact T].
  - cbn [step] in H. bind_inv H. inversion H; subst. eapply tframe_TreeG; [apply tframe_set_futs|exact T].
  - cbn [step] in H. bind_inv H. inversion H; subst. eapply tframe_TreeG; [apply tframe_set_futs|exact T].
  - cbn [step] in H. bind_inv H. inversion H; subst. eapply tframe_TreeG; [apply tframe_register_all|exact T].
Qed.

(* ---------- list lemmas ---------- *)
Lemma mem_In : forall x l, mem x l = true <-> In x l.
Proof.
  intros x l. unfold mem. rewrite existsb_exists. split.
  - intros (y & Hy & E). apply N.eqb_eq in E. subst. exact Hy.
  - intros H. exists x. split; [exact H|apply N.eqb_refl].
Qed.
Lemma mem_false : forall x l, mem x l = false <-> ~ In x l.
Proof. intros. rewrite <- mem_In. destruct (mem x l); split; intros; congruence. Qed.

Lemma remove1_In : forall x y l, In y (remove1 x l) -> In y l.
Proof.
  induction l as [|a t IH]; simpl; intros H; [exact H|].
  destruct (x =? a); [right; exact H|]. destruct H as [H|H]; [left; exact H|right; auto].
Qed.
Lemma remove1_In_neq : forall x y l, In y l -> y <> x -> In y (remove1 x l).
Proof.
  induction l as [|a t IH]; simpl; intros H Hn; [exact H|].
  destruct (x =? a) eqn:Q.
  - apply N.eqb_eq in Q. subst a. destruct H as [H|H]; [congruence|exact H].
  - destruct H as [H|H]; [left; exact H|right; auto].
Qed.
Lemma remove1_NoDup : forall x l, NoDup l -> NoDup (remove1 x l) /\ ~ In x (remove1 x l).
Proof.
  induction l as [|a t IH]; simpl; intros H; [split; [constructor|tauto]|].
  inversion H as [|? ? Hn Ht]; subst. destruct (x =? a) eqn:Q.
  - apply N.eqb_eq in Q. subst a. split; assumption.
  - apply N.eqb_neq in Q. destruct (IH Ht) as [I1 I2]. split.
    + constructor; [|exact I1]. intro Hc. apply Hn. eapply remove1_In; eauto.
    + simpl. intros [Hc|Hc]; [congruence|tauto].
Qed.
Lemma remove1_notin : forall x l, ~ In x l -> remove1 x l = l.
Proof.
  induction l as [|a t IH]; simpl; intros H; [reflexivity|].
  destruct (x =? a) eqn:Q; [apply N.eqb_eq in Q; subst; tauto|]. f_equal. apply IH. tauto.
Qed.

Lemma remove1k_In : forall A x (y : N * A) l, In y (remove1k x l) -> In y l.
Proof.
  induction l as [|[a v] t IH]; simpl; intros H; [exact H|].
  destruct (x =? a); [right; exact H|]. destruct H as [H|H]; [left; exact H|right; auto].
Qed.
Lemma remove1k_In_neq : forall A x c (v : A) l, In (c, v) l -> c <> x -> In (c, v) (remove1k x l).
Proof.
  induction l as [|[a u] t IH]; simpl; intros H Hn; [exact H|].
  destruct (x =? a) eqn:Q.
  - apply N.eqb_eq in Q. subst a. destruct H as [H|H]; [inversion H; congruence|exact H].
  - destruct H as [H|H]; [left; exact H|right; auto].
Qed.
Lemma remove1k_fst_In : forall A x y (l : list (N * A)), In y (map fst (remove1k x l)) -> In y (map fst l).
Proof.
  induction l as [|[a v] t IH]; simpl; intros H; [exact H|].
  destruct (x =? a); [right; exact H|]. simpl in H. destruct H as [H|H]; [left; exact H|right; auto].
Qed.
Lemma remove1k_NoDup : forall A x (l : list (N * A)), NoDup (map fst l) ->
  NoDup (map fst (remove1k x l)) /\ ~ In x (map fst (remove1k x l)).
Proof.
  induction l as [|[a v] t IH]; simpl; intros H; [split; [constructor|tauto]|].
  inversion H as [|? ? Hn Ht]; subst. destruct (x =? a) eqn:Q.
  - apply N.eqb_eq in Q. subst a. split; assumption.
  - apply N.eqb_neq in Q. destruct (IH Ht) as [I1 I2]. split.
    + simpl. constructor; [|exact I1]. intro Hc. apply Hn. eapply remove1k_fst_In; eauto.
    + simpl. intros [Hc|Hc]; [congruence|tauto].
Qed.
Lemma remove1k_notin : forall A x (l : list (N * A)), ~ In x (map fst l) -> remove1k x l = l.
Proof.
  induction l as [|[a v] t IH]; simpl; intros H; [reflexivity|].
  destruct (x =? a) eqn:Q; [apply N.eqb_eq in Q; subst; tauto|]. f_equal. apply IH. tauto.
Qed.
Lemma In_fst : forall A c (v : A) (l : list (N * A)), In (c, v) l -> In c (map fst l).
Proof. intros. change c with (fst (c, v)). apply in_map. assumption. Qed.

(* ---------- orphan table primitives ---------- *)
Lemma track_orphan_get : forall rs l p p',
  aget p' (r_orphans (track_orphan rs l p)) =
  if p' =? p then Some (match aget p (r_orphans rs) with Some ls => ls ++ [l] | None => [l] end)
  else aget p' (r_orphans rs).
Proof. intros. unfold track_orphan. cbn [r_orphans with_orphans]. apply aget_aset. Qed.
Lemma track_orphan_local : forall rs l p, r_local (track_orphan rs l p) = r_local rs.
Proof. reflexivity. Qed.

Lemma untrack_orphan_get : forall rs l q p',
  aget p' (r_orphans (untrack_orphan rs l q)) =
  if p' =? q then
    match aget q (r_orphans rs) with
    | Some ls => match remove1 l ls with [] => None | x => Some x end
    | None => None
    end
  else aget p' (r_orphans rs).
Proof.
  intros. unfold untrack_orphan. destruct (aget q (r_orphans rs)) as [ls|] eqn:E.
  - assert (R : (if mem l ls then remove1 l ls else ls) = remove1 l ls).
    { destruct (mem l ls) eqn:M; [reflexivity|]. symmetry. apply remove1_notin. apply mem_false. exact M. }
    rewrite R. destruct (remove1 l ls) eqn:Er; cbn [r_orphans with_orphans].
    + rewrite aget_adel. destruct (p' =? q); reflexivity.
    + rewrite aget_aset. destruct (p' =? q); reflexivity.
  - destruct (p' =? q) eqn:Q; [|reflexivity]. apply N.eqb_eq in Q. subst. exact E.
Qed.
Lemma untrack_orphan_local : forall rs l q, r_local (untrack_orphan rs l q) = r_local rs.
Proof.
  intros. unfold untrack_orphan. destruct (aget q (r_orphans rs)); [|reflexivity].
  destruct (if mem l l0 then remove1 l l0 else l0); reflexivity.
Qed.

(* ---------- closed forms of _unparent_object / _parent_object ---------- *)
Definition with_ch (og : obj) (ch : list (N * N)) : N * N * N * N * list (N * N) :=
  (o_lid og, o_full og, o_region og, o_parent og, ch).

Lemma tcore_with_ch : forall og, tcore og = with_ch og (o_children og).
Proof. reflexivity. Qed.

Definition is_parent_key (rs : rstate) (q g : N) : bool :=
  negb (q =? 0) && match aget q (r_local rs) with Some pf => pf =? g | None => false end.

Lemma unparent_spec : forall w r f q w' o rs, keys_ok w -> get_obj w f = Some o -> get_rs w r = Some rs ->
  unparent_object w r f q = Some w' ->
  (forall r', get_rs w' r' = if (r' =? r) && negb (q =? 0) then Some (untrack_orphan rs (o_lid o) q) else get_rs w r') /\
  (forall g, option_map tcore (get_obj w' g) =
             option_map (fun og => with_ch og (if is_parent_key rs q g then remove1k (o_lid o) (o_children og)
                                               else o_children og)) (get_obj w g)).
Proof.
  intros w r f q w' o rs K Eo Ers H. unfold unparent_object in H. rewrite Eo, Ers in H. cbn [bind] in H.
  pose proof (K _ _ Eo) as Kf.
  set (w1 := set_obj w (with_plink o None)) in *.
  assert (G1 : forall g, option_map tcore (get_obj w1 g) = option_map tcore (get_obj w g)).
  { intros g. unfold w1. rewrite get_obj_set_obj. cbn [o_full with_plink]. rewrite Kf.
    destruct (g =? f) eqn:Q; [|reflexivity]. apply N.eqb_eq in Q. subst g. rewrite Eo. reflexivity. }
  unfold is_parent_key. destruct (q =? 0) eqn:Q0; cbn [negb andb].
  - inversion H; subst w'. split; [intros r'; rewrite andb_false_r; reflexivity|].
    intros g. rewrite G1. destruct (get_obj w g); reflexivity.
  - set (w2 := set_rs w1 r (untrack_orphan rs (o_lid o) q)) in *.
    assert (R2 : forall r', get_rs w2 r' = if (r' =? r) && true then Some (untrack_orphan rs (o_lid o) q) else get_rs w r').
    { intros r'. unfold w2. rewrite get_rs_set_rs. rewrite andb_true_r. destruct (r' =? r); reflexivity. }
    destruct (aget q (r_local rs)) as [pf|] eqn:Ep.
    + destruct (get_obj w2 pf) as [po|] eqn:Epo; [|discriminate].
      assert (Epo1 : get_obj w1 pf = Some po) by exact Epo.
      pose proof (G1 pf) as Gpf. rewrite Epo1 in Gpf. cbn in Gpf.
      destruct (get_obj w pf) as [og|] eqn:Eog; cbn in Gpf; [|discriminate]. inversion Gpf as [[P1 P2 P3 P4 P5]].
      pose proof (K _ _ Eog) as Kpf.
      destruct (mem (o_lid o) (map fst (o_children po))) eqn:M; inversion H; subst w'; clear H.
      * split; [intros r'; rewrite get_rs_set_obj; apply R2|].
        intros g. rewrite get_obj_set_obj. cbn [o_full with_children]. rewrite P2, Kpf. rewrite (N.eqb_sym pf g).
        destruct (g =? pf) eqn:Q.
        -- apply N.eqb_eq in Q. subst g. rewrite Eog. cbn. unfold with_ch, tcore. cbn. rewrite P1, P2, P3, P4, P5. reflexivity.
        -- change (get_obj w2 g) with (get_obj w1 g). rewrite G1. destruct (get_obj w g); reflexivity.
      * split; [exact R2|]. intros g. change (get_obj w2 g) with (get_obj w1 g). rewrite G1.
        destruct (get_obj w g) as [og'|] eqn:Eg; [|reflexivity]. cbn. destruct (pf =? g) eqn:Q; [|reflexivity].
        apply N.eqb_eq in Q. subst g. rewrite Eog in Eg. inversion Eg; subst og'.
        rewrite remove1k_notin; [reflexivity|]. rewrite <- P5. apply mem_false. exact M.
    + inversion H; subst w'. split; [exact R2|]. intros g. change (get_obj w2 g) with (get_obj w1 g). rewrite G1.
      destruct (get_obj w g); reflexivity.
Qed.

Definition ins_child (h : bool) (e : N * N) (ch : list (N * N)) : list (N * N) := if h then e :: ch else ch ++ [e].

Lemma parent_spec : forall w r f h w' o rs, keys_ok w -> get_obj w f = Some o -> get_rs w r = Some rs ->
  parent_object w r f h = Some w' ->
  (o_parent o = 0 -> w' = w) /\
  (o_parent o <> 0 -> forall pf, aget (o_parent o) (r_local rs) = Some pf ->
     exists po, get_obj w pf = Some po /\ ~ In (o_lid o) (map fst (o_children po)) /\
       (forall r', get_rs w' r' = get_rs w r') /\
       (forall g, option_map tcore (get_obj w' g) =
                  option_map (fun og => with_ch og (if g =? pf then ins_child h (o_lid o, f) (o_children og)
                                                    else o_children og)) (get_obj w g))) /\
  (o_parent o <> 0 -> aget (o_parent o) (r_local rs) = None ->
     (forall r', option_map tridx (get_rs w' r') =
                 if r' =? r then Some (tridx (track_orphan rs (o_lid o) (o_parent o))) else option_map tridx (get_rs w r')) /\
     (forall g, option_map tcore (get_obj w' g) = option_map tcore (get_obj w g))).
Proof.
  intros w r f h w' o rs K Eo Ers H. unfold parent_object in H. rewrite Eo, Ers in H. cbn [bind] in H.
  pose proof (K _ _ Eo) as Kf.
  destruct (o_parent o =? 0) eqn:Q0.
  - apply N.eqb_eq in Q0. inversion H; subst w'. split; [reflexivity|]. split; intros; congruence.
  - apply N.eqb_neq in Q0. split; [congruence|].
    destruct (aget (o_parent o) (r_local rs)) as [pf|] eqn:Ep.
    + split; [|intros; congruence]. intros _ pf' Epf'. inversion Epf'; subst pf'.
      bind_inv H. rename o0 into po. destruct (mem (o_lid o) (map fst (o_children po))) eqn:M; [discriminate|].
      bind_inv H. rename o0 into o1. inversion H; subst w'; clear H.
      pose proof (K _ _ E) as Kpf.
      exists po. split; [reflexivity|]. split; [apply mem_false; exact M|]. split; [reflexivity|].
      intros g.
      set (ch := if h then (o_lid o, f) :: o_children po else o_children po ++ [(o_lid o, f)]) in *.
      assert (G1 : forall g, get_obj (set_obj w (with_children po ch)) g = if g =? pf then Some (with_children po ch) else get_obj w g).
      { intros g'. rewrite get_obj_set_obj. cbn [o_full with_children]. rewrite Kpf. reflexivity. }
      assert (Ko1 : o_full o1 = f /\ tcore o1 = if f =? pf then with_ch po ch else tcore o).
      { rewrite G1 in E0. destruct (f =? pf) eqn:Q.
        - inversion E0; subst o1. cbn. apply N.eqb_eq in Q. split; [congruence|reflexivity].
        - rewrite Eo in E0. inversion E0; subst o1. auto. }
      destruct Ko1 as [Ko1 Co1].
      rewrite get_obj_set_obj. cbn [o_full with_plink]. rewrite Ko1. destruct (g =? f) eqn:Qf.
      * apply N.eqb_eq in Qf. subst g. rewrite Eo. cbn. unfold tcore at 1. cbn [o_lid o_full o_region o_parent o_children with_plink].
        change (o_lid o1, o_full o1, o_region o1, o_parent o1, o_children o1) with (tcore o1). rewrite Co1.
        destruct (f =? pf) eqn:Q; [|reflexivity]. apply N.eqb_eq in Q. assert (po = o) by congruence. subst po.
        unfold ins_child, ch. destruct h; reflexivity.
      * rewrite G1. destruct (g =? pf) eqn:Q.
        -- apply N.eqb_eq in Q. subst g. rewrite E. cbn. unfold ins_child, ch. destruct h; reflexivity.
        -- destruct (get_obj w g); reflexivity.
    + split; [intros; congruence|]. intros _ _. inversion H; subst w'; clear H. split.
      * intros r'. rewrite get_rs_set_obj, get_rs_set_rs. destruct (r' =? r); reflexivity.
      * intros g. rewrite get_obj_set_obj. cbn [o_full with_plink]. rewrite Kf. rewrite get_obj_set_rs.
        destruct (g =? f) eqn:Q; [|reflexivity]. apply N.eqb_eq in Q. subst g. rewrite Eo. reflexivity.
Qed.

(* ---------- reading the closed forms ---------- *)
Lemma ospec_fwd : forall w w' (CH : N -> obj -> list (N * N)),
  (forall g, option_map tcore (get_obj w' g) = option_map (fun og => with_ch og (CH g og)) (get_obj w g)) ->
  forall g o', get_obj w' g = Some o' ->
  exists og, get_obj w g = Some og /\ o_lid o' = o_lid og /\ o_full o' = o_full og /\ o_region o' = o_region og /\
             o_parent o' = o_parent og /\ o_children o' = CH g og.
Proof.
  intros w w' CH H g o' E. specialize (H g). rewrite E in H. cbn in H.
  destruct (get_obj w g) as [og|]; cbn in H; [|discriminate]. exists og. unfold tcore, with_ch in H.
  inversion H. auto 10.
Qed.
Lemma ospec_bwd : forall w w' (CH : N -> obj -> list (N * N)),
  (forall g, option_map tcore (get_obj w' g) = option_map (fun og => with_ch og (CH g og)) (get_obj w g)) ->
  forall g og, get_obj w g = Some og ->
  exists o', get_obj w' g = Some o' /\ o_lid o' = o_lid og /\ o_full o' = o_full og /\ o_region o' = o_region og /\
             o_parent o' = o_parent og /\ o_children o' = CH g og.
Proof.
  intros w w' CH H g og E. specialize (H g). rewrite E in H. cbn in H.
  destruct (get_obj w' g) as [o'|]; cbn in H; [|discriminate]. exists o'. unfold tcore, with_ch in H.
  inversion H. auto 10.
Qed.

Lemma bk_same : forall O a b p, o_full a = o_full b -> o_parent a = o_parent b -> bk O a p -> bk O b p.
Proof. intros O a b p Hf Hp [H1 H2]. split; [|exact H2]. unfold epar in *. rewrite <- Hf, <- Hp. exact H1. Qed.

Lemma bk_oset_other : forall O f x co p, o_full co <> f -> (bk (oset O f x) co p <-> bk O co p).
Proof.
  intros O f x co p Hn. unfold bk, epar, oset. destruct (o_full co =? f) eqn:Q; [apply N.eqb_eq in Q; congruence|tauto].
Qed.
Lemma bk_oset_none : forall O f co p, o_full co = f -> ~ bk (oset O f None) co p.
Proof. intros O f co p Hf [H _]. unfold epar, oset in H. rewrite Hf, N.eqb_refl in H. discriminate. Qed.
Lemma bk_oset_some : forall O f q co p, o_full co = f -> (bk (oset O f (Some q)) co p <-> q = p /\ p <> 0).
Proof.
  intros O f q co p Hf. unfold bk, epar, oset. rewrite Hf, N.eqb_refl. split; intros [H1 H2]; split; congruence.
Qed.

(* changing overrides without changing who is bookkept where *)
Lemma TreeG_bk_equiv : forall w O O' K,
  (forall g o, get_obj w g = Some o -> forall p, bk O o p <-> bk O' o p) -> TreeG w O K -> TreeG w O' K.
Proof.
  intros w O O' K H T. constructor.
  - intros pf po c cf E I. destruct (tC1 _ _ _ T _ _ _ _ E I) as (co & rs & A1 & A2 & A3 & A4 & A5).
    exists co, rs. split; [exact A1|]. split; [exact A2|]. split; [exact A3|]. split; [apply (H _ _ A1); exact A4|exact A5].
  - intros r rs c cf co p pf po E1 E2 E3 B. apply (H _ _ E3) in B. eapply (tC2 _ _ _ T); eauto.
  - apply (tC3 _ _ _ T).
  - intros r rs p ls c E1 E2 I. destruct (tO1 _ _ _ T _ _ _ _ _ E1 E2 I) as (A1 & A2 & cf & co & A3 & A4 & A5).
    split; [exact A1|]. split; [exact A2|]. exists cf, co. split; [exact A3|]. split; [exact A4|apply (H _ _ A4); exact A5].
  - intros r rs c cf co p E1 E2 E3 B. apply (H _ _ E3) in B. eapply (tO2 _ _ _ T); eauto.
  - apply (tO3 _ _ _ T).
Qed.

(* ---------- _unparent_object detaches the object ---------- *)
Lemma TreeG_unparent : forall w O K r f q o rs w', Base w -> TreeG w O K ->
  get_obj w f = Some o -> o_region o = r -> get_rs w r = Some rs -> aget (o_lid o) (r_local rs) = Some f ->
  epar O o = Some q ->
  unparent_object w r f q = Some w' -> TreeG w' (oset O f None) K.
Proof.
  intros w O K r f q o rs w' [Kw W2] T Eo Hr Ers Eidx Hq H.
  destruct (unparent_spec _ _ _ _ _ _ _ Kw Eo Ers H) as [R G].
  pose proof (ospec_fwd _ _ _ G) as FW. pose proof (ospec_bwd _ _ _ G) as BW.
  pose proof (Kw _ _ Eo) as Kf.
  (* region states of w' *)
  assert (RS : forall r0 rs', get_rs w' r0 = Some rs' ->
            exists rs0, get_rs w r0 = Some rs0 /\ r_local rs' = r_local rs0 /\
              ((r0 =? r) && negb (q =? 0) = false -> r_orphans rs' = r_orphans rs0) /\
              ((r0 =? r) && negb (q =? 0) = true -> rs0 = rs /\ rs' = untrack_orphan rs (o_lid o) q)).
  { intros r0 rs' E. rewrite R in E. destruct ((r0 =? r) && negb (q =? 0)) eqn:Q.
    - inversion E; subst rs'. apply andb_prop in Q. destruct Q as [Q _]. apply N.eqb_eq in Q. subst r0.
      exists rs. rewrite untrack_orphan_local. repeat split; auto; discriminate.
    - exists rs'. repeat split; auto; discriminate. }
  assert (RSb : forall r0 rs0, get_rs w r0 = Some rs0 -> exists rs', get_rs w' r0 = Some rs' /\ r_local rs' = r_local rs0).
  { intros r0 rs0 E. rewrite R. destruct ((r0 =? r) && negb (q =? 0)) eqn:Q.
    - apply andb_prop in Q. destruct Q as [Q _]. apply N.eqb_eq in Q. subst r0. rewrite Ers in E. inversion E; subst rs0.
      eexists; split; [reflexivity|apply untrack_orphan_local].
    - eauto. }
  (* an indexed entry pointing at f is f's own entry *)
  assert (IDX : forall r0 rs0 c, get_rs w r0 = Some rs0 -> aget c (r_local rs0) = Some f -> r0 = r /\ c = o_lid o).
  { intros r0 rs0 c E1 E2. destruct (W2 _ _ _ _ E1 E2) as (o0 & Eo0 & Hl & Hr0). rewrite Eo in Eo0. inversion Eo0; subst o0.
    split; congruence. }
  constructor.
  - (* C1 *)
    intros pf po' c cf E I.
    destruct (FW _ _ E) as (og & Eog & L1 & L2 & L3 & L4 & L5). rewrite L5 in I.
    assert (I0 : In (c, cf) (o_children og)).
    { destruct (is_parent_key rs q pf); [eapply remove1k_In; exact I|exact I]. }
    destruct (tC1 _ _ _ T _ _ _ _ Eog I0) as (co & rs0 & A1 & A2 & A3 & A4 & A5 & A6 & A7).
    assert (Hne : cf <> f).
    { intro; subst cf. rewrite Eo in A1. inversion A1; subst co.
      destruct A4 as [A4 A4']. rewrite Hq in A4. inversion A4 as [Hlq].
      assert (Hrr : o_region og = r) by congruence. rewrite Hrr, Ers in A5. inversion A5; subst rs0.
      assert (Pk : is_parent_key rs q pf = true).
      { unfold is_parent_key. rewrite Hlq, A7, N.eqb_refl. rewrite <- Hlq. apply N.eqb_neq in A4'. rewrite A4'. reflexivity. }
      rewrite Pk in I. apply In_fst in I. rewrite <- A2 in I.
      destruct (remove1k_NoDup _ (o_lid o) _ (tC3 _ _ _ T _ _ Eog)) as [_ Hn]. contradiction. }
    destruct (BW _ _ A1) as (co' & Eco' & M1 & M2 & M3 & M4 & M5).
    destruct (RSb _ _ A5) as (rs' & Ers' & Lrs').
    exists co', rs'. rewrite L3, L1. split; [exact Eco'|]. split; [congruence|]. split; [congruence|]. split.
    + apply bk_oset_other; [rewrite M2, (Kw _ _ A1); exact Hne|]. eapply bk_same; [| |exact A4]; congruence.
    + rewrite Lrs'. auto.
  - (* C2 *)
    intros r0 rs' c cf co' p pf po' E1 E2 E3 B E4 E5 Kn.
    destruct (RS _ _ E1) as (rs0 & Ers0 & Lrs & _). rewrite Lrs in E2, E4.
    destruct (FW _ _ E3) as (co & Eco & M1 & M2 & M3 & M4 & M5).
    destruct (FW _ _ E5) as (og & Eog & L1 & L2 & L3 & L4 & L5).
    assert (Hne : cf <> f).
    { intro; subst cf. eapply bk_oset_none; [|exact B]. rewrite M2. eauto. }
    assert (B0 : bk O co p).
    { eapply bk_same; [symmetry; exact M2|symmetry; exact M4|]. apply (bk_oset_other O f None co' p); [|exact B].
      rewrite M2, (Kw _ _ Eco). exact Hne. }
    pose proof (tC2 _ _ _ T _ _ _ _ _ _ _ _ Ers0 E2 Eco B0 E4 Eog Kn) as I0.
    rewrite L5. destruct (is_parent_key rs q pf) eqn:Pk; [|exact I0].
    apply remove1k_In_neq; [exact I0|]. intro; subst c.
    unfold is_parent_key in Pk. apply andb_prop in Pk. destruct Pk as [_ Pk].
    destruct (aget q (r_local rs)) as [pf'|] eqn:Eq; [|discriminate]. apply N.eqb_eq in Pk. subst pf'.
    destruct (W2 _ _ _ _ Ers Eq) as (o1 & Eo1 & _ & Hr1). destruct (W2 _ _ _ _ Ers0 E4) as (o2 & Eo2 & _ & Hr2).
    assert (r0 = r) by congruence. subst r0. rewrite Ers in Ers0. inversion Ers0; subst rs0. congruence.
  - (* C3 *)
    intros pf po' E. destruct (FW _ _ E) as (og & Eog & L1 & L2 & L3 & L4 & L5). rewrite L5.
    pose proof (tC3 _ _ _ T _ _ Eog) as N0. destruct (is_parent_key rs q pf); [|exact N0].
    apply remove1k_NoDup. exact N0.
  - (* O1 *)
    intros r0 rs' p ls' c E1 E2 I.
    destruct (RS _ _ E1) as (rs0 & Ers0 & Lrs & Rsame & Rmod).
    assert (OLD : exists ls, aget p (r_orphans rs0) = Some ls /\ In c ls /\ ((r0 =? r) && negb (q =? 0) = true -> p = q -> c <> o_lid o)).
    { destruct ((r0 =? r) && negb (q =? 0)) eqn:Q.
      - destruct (Rmod eq_refl) as [-> ->]. rewrite untrack_orphan_get in E2. destruct (p =? q) eqn:Qp.
        + apply N.eqb_eq in Qp. subst p. destruct (aget q (r_orphans rs)) as [ls|] eqn:El; [|discriminate].
          exists ls. split; [reflexivity|].
          assert (ls' = remove1 (o_lid o) ls) by (destruct (remove1 (o_lid o) ls); congruence). subst ls'.
          split; [eapply remove1_In; exact I|]. intros _ _ ->.
          destruct (remove1_NoDup (o_lid o) ls (tO3 _ _ _ T _ _ _ _ Ers El)) as [_ Hn]. contradiction.
        + exists ls'. repeat split; auto. intros _ ->. rewrite N.eqb_refl in Qp. discriminate.
      - rewrite (Rsame eq_refl) in E2. exists ls'. repeat split; auto. discriminate. }
    destruct OLD as (ls & El & Il & Hc).
    destruct (tO1 _ _ _ T _ _ _ _ _ Ers0 El Il) as (A1 & A2 & cf & co & A3 & A4 & A5).
    split; [exact A1|]. split; [rewrite Lrs; exact A2|].
    assert (Hne : cf <> f).
    { intro; subst cf. destruct (IDX _ _ _ Ers0 A3) as [-> ->]. rewrite Eo in A4. inversion A4; subst co.
      destruct A5 as [A5 _]. rewrite Hq in A5. inversion A5; subst p.
      apply Hc; auto. rewrite N.eqb_refl. apply N.eqb_neq in A1. rewrite A1. reflexivity. }
    destruct (BW _ _ A4) as (co' & Eco' & M1 & M2 & M3 & M4 & M5).
    exists cf, co'. rewrite Lrs. split; [exact A3|]. split; [exact Eco'|].
    apply bk_oset_other; [rewrite M2, (Kw _ _ A4); exact Hne|]. eapply bk_same; [| |exact A5]; congruence.
  - (* O2 *)
    intros r0 rs' c cf co' p E1 E2 E3 B Hn.
    destruct (RS _ _ E1) as (rs0 & Ers0 & Lrs & Rsame & Rmod). rewrite Lrs in E2, Hn.
    destruct (FW _ _ E3) as (co & Eco & M1 & M2 & M3 & M4 & M5).
    assert (Hne : cf <> f).
    { intro; subst cf. eapply bk_oset_none; [|exact B]. rewrite M2. eauto. }
    assert (B0 : bk O co p).
    { eapply bk_same; [symmetry; exact M2|symmetry; exact M4|]. apply (bk_oset_other O f None co' p); [|exact B].
      rewrite M2, (Kw _ _ Eco). exact Hne. }
    destruct (tO2 _ _ _ T _ _ _ _ _ _ Ers0 E2 Eco B0 Hn) as (ls & El & Il).
    destruct ((r0 =? r) && negb (q =? 0)) eqn:Q.
    + destruct (Rmod eq_refl) as [-> ->]. rewrite untrack_orphan_get. destruct (p =? q) eqn:Qp.
      * apply N.eqb_eq in Qp. subst p. rewrite El.
        assert (Ic : In c (remove1 (o_lid o) ls)).
        { apply remove1_In_neq; [exact Il|]. intro; subst c. apply andb_prop in Q. destruct Q as [Q _]. apply N.eqb_eq in Q. subst r0.
          congruence. }
        destruct (remove1 (o_lid o) ls) eqn:Er; [destruct Ic|]. eexists; split; [reflexivity|exact Ic].
      * eauto.
    + rewrite (Rsame eq_refl). eauto.
  - (* O3 *)
    intros r0 rs' p ls' E1 E2. destruct (RS _ _ E1) as (rs0 & Ers0 & Lrs & Rsame & Rmod).
    destruct ((r0 =? r) && negb (q =? 0)) eqn:Q.
    + destruct (Rmod eq_refl) as [-> ->]. rewrite untrack_orphan_get in E2. destruct (p =? q) eqn:Qp.
      * apply N.eqb_eq in Qp. subst p. destruct (aget q (r_orphans rs)) as [ls|] eqn:El; [|discriminate].
        assert (ls' = remove1 (o_lid o) ls) by (destruct (remove1 (o_lid o) ls); congruence). subst ls'.
        apply remove1_NoDup. eapply (tO3 _ _ _ T); eauto.
      * eapply (tO3 _ _ _ T); eauto.
    + rewrite (Rsame eq_refl) in E2. eapply (tO3 _ _ _ T); eauto.
Qed.
