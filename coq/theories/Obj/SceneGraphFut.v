(* C14 - the request futures of the scene-graph model: every pending request for a local id is cancelled when
   that id is killed (directly or by the cascade) or its region is torn down, and resolved when the object is
   updated; a request that is done is never touched again and no request is ever dropped from the log. *)
From Coq Require Import NArith List Bool Lia.
From HV Require Import Obj.SceneGraph Obj.SceneGraphProofs.
Import ListNotations.
Open Scope N_scope.

Definition fkey (x : fut) : N * N * bool := (f_region x, f_lid x, f_kind x).
Definition cancelled (x : fut) : fut := mkFut (f_region x) (f_lid x) (f_kind x) Cancelled.
Definition resolved (x : fut) (f : N) : fut := mkFut (f_region x) (f_lid x) (f_kind x) (Resolved f).

(* how one request may move in one step *)
(* fcan: untouched, or pending -> cancelled *)
Definition fcan (x y : fut) : Prop := y = x \/ (f_state x = Pending /\ y = cancelled x).
(* fadv: same key; a request that is done stays exactly as it is *)
Definition fadv (x y : fut) : Prop := fkey y = fkey x /\ (f_state x <> Pending -> y = x).

Lemma fcan_fadv : forall x y, fcan x y -> fadv x y.
Proof.
  intros x y [->|[Hp ->]]; split; auto. intros Hn. contradiction.
Qed.

Lemma fadv_refl : forall x, fadv x x.
Proof. split; auto. Qed.
Lemma fadv_trans : forall x y z, fadv x y -> fadv y z -> fadv x z.
Proof.
  intros x y z [K1 S1] [K2 S2]. split; [congruence|]. intros Hn. pose proof (S1 Hn) as ->. auto.
Qed.
Lemma fcan_refl : forall x, fcan x x.
Proof. left. reflexivity. Qed.
Lemma fcan_trans : forall x y z, fcan x y -> fcan y z -> fcan x z.
Proof.
  intros x y z [->|[Hp ->]] [->|[Hq ->]]; unfold fcan; auto.
Qed.

Section F2.
  Variable A : Type.
  Variable R : A -> A -> Prop.
  Lemma F2_refl : (forall x, R x x) -> forall l, Forall2 R l l.
  Proof. intros H l. induction l; constructor; auto. Qed.
  Lemma F2_trans : (forall x y z, R x y -> R y z -> R x z) ->
    forall a b c, Forall2 R a b -> Forall2 R b c -> Forall2 R a c.
  Proof.
    intros H a b c H1. revert c. induction H1; intros c H2; inversion H2; subst; constructor; eauto.
  Qed.
  Lemma F2_In_r : forall a b y, Forall2 R a b -> In y b -> exists x, In x a /\ R x y.
  Proof.
    intros a b y H. induction H; intros I; [destruct I|].
    destruct I as [<-|I]; [exists x; split; [left; reflexivity|assumption]|].
    destruct (IHForall2 I) as (x0 & I0 & R0). exists x0. split; [right; exact I0|exact R0].
  Qed.
  Lemma F2_In_l : forall a b x, Forall2 R a b -> In x a -> exists y, In y b /\ R x y.
  Proof.
    intros a b x H. induction H; intros I; [destruct I|].
    destruct I as [<-|I]; [exists y; split; [left; reflexivity|assumption]|].
    destruct (IHForall2 I) as (y0 & I0 & R0). exists y0. split; [right; exact I0|exact R0].
  Qed.
  Lemma F2_map : forall (g : A -> A) l, (forall x, R x (g x)) -> Forall2 R l (map g l).
  Proof. intros g l H. induction l; cbn; constructor; auto. Qed.
  Lemma F2_nth : forall a b i x, Forall2 R a b -> nth_error a i = Some x -> exists y, nth_error b i = Some y /\ R x y.
  Proof.
    intros a b i x H. revert i. induction H; intros i E; [destruct i; discriminate|].
    destruct i as [|i]; cbn in *; [inversion E; subst; eauto|eauto].
  Qed.
End F2.
Arguments F2_refl {A R}. Arguments F2_trans {A R}. Arguments F2_In_r {A R}. Arguments F2_In_l {A R}.
Arguments F2_map {A R}. Arguments F2_nth {A R}.

Lemma F2_impl : forall A (R S : A -> A -> Prop) a b, (forall x y, R x y -> S x y) -> Forall2 R a b -> Forall2 S a b.
Proof. intros A R S a b H H1. induction H1; constructor; auto. Qed.

Definition cans (fs fs' : list fut) : Prop := Forall2 fcan fs fs'.
Definition advs (fs fs' : list fut) : Prop := Forall2 fadv fs fs'.

Lemma cans_refl : forall fs, cans fs fs.
Proof. apply F2_refl. exact fcan_refl. Qed.
Lemma cans_trans : forall a b c, cans a b -> cans b c -> cans a c.
Proof. apply F2_trans. exact fcan_trans. Qed.
Lemma advs_refl : forall fs, advs fs fs.
Proof. apply F2_refl. exact fadv_refl. Qed.
Lemma advs_trans : forall a b c, advs a b -> advs b c -> advs a c.
Proof. apply F2_trans. exact fadv_trans. Qed.
Lemma cans_advs : forall a b, cans a b -> advs a b.
Proof. intros a b. apply F2_impl. exact fcan_fadv. Qed.

(* no request for (r, l) is pending / no request of kind k for (r, l) is pending *)
Definition np (fs : list fut) (r l : N) : Prop :=
  forall x, In x fs -> f_region x = r -> f_lid x = l -> f_state x <> Pending.
Definition npk (fs : list fut) (r l : N) (k : bool) : Prop :=
  forall x, In x fs -> f_region x = r -> f_lid x = l -> f_kind x = k -> f_state x <> Pending.

Lemma np_advs : forall a b r l, advs a b -> np a r l -> np b r l.
Proof.
  intros a b r l H N y Iy Hr Hl. destruct (F2_In_r _ _ _ H Iy) as (x & Ix & [K S]).
  unfold fkey in K. inversion K as [[K1 K2 K3]].
  assert (Hx : f_state x <> Pending) by (apply N; congruence).
  rewrite (S Hx). exact Hx.
Qed.
Lemma npk_advs : forall a b r l k, advs a b -> npk a r l k -> npk b r l k.
Proof.
  intros a b r l k H N y Iy Hr Hl Hk. destruct (F2_In_r _ _ _ H Iy) as (x & Ix & [K S]).
  unfold fkey in K. inversion K as [[K1 K2 K3]].
  assert (Hx : f_state x <> Pending) by (apply N; congruence).
  rewrite (S Hx). exact Hx.
Qed.
Lemma np_npk : forall fs r l k, np fs r l -> npk fs r l k.
Proof. intros fs r l k H x I Hr Hl _. eauto. Qed.

(* ---------- the three primitives ---------- *)
Lemma is_pending_false : forall s, is_pending s = false -> s <> Pending.
Proof. intros s H ->. discriminate. Qed.
Lemma is_pending_true : forall s, is_pending s = true -> s = Pending.
Proof. intros [] H; [reflexivity|discriminate|discriminate]. Qed.

Lemma cancel_futures_cans : forall w r l, cans (w_futs w) (w_futs (cancel_futures w r l)).
Proof.
  intros. unfold cancel_futures. cbn [w_futs set_futs]. apply F2_map. intros x.
  destruct ((f_region x =? r) && (f_lid x =? l) && is_pending (f_state x)) eqn:Q; [|left; reflexivity].
  right. apply andb_prop in Q. destruct Q as [_ Q]. split; [apply is_pending_true; exact Q|reflexivity].
Qed.

Lemma cancel_futures_np : forall w r l, np (w_futs (cancel_futures w r l)) r l.
Proof.
  intros w r l y Iy Hr Hl. unfold cancel_futures in Iy. cbn [w_futs set_futs] in Iy.
  apply in_map_iff in Iy. destruct Iy as (x & <- & _).
  destruct ((f_region x =? r) && (f_lid x =? l) && is_pending (f_state x)) eqn:Q; [cbn; discriminate|].
  destruct ((f_region x =? r) && (f_lid x =? l) && is_pending (f_state x)) eqn:Q2 in Hr, Hl; [congruence|].
  rewrite Hr, Hl, !N.eqb_refl in Q. cbn in Q. apply is_pending_false. exact Q.
Qed.

Lemma resolve_futures_advs : forall w r l k f, advs (w_futs w) (w_futs (resolve_futures w r l k f)).
Proof.
  intros. unfold resolve_futures. cbn [w_futs set_futs]. apply F2_map. intros x.
  destruct ((f_region x =? r) && (f_lid x =? l) && Bool.eqb (f_kind x) k && is_pending (f_state x)) eqn:Q; [|apply fadv_refl].
  apply andb_prop in Q. destruct Q as [_ Q]. apply is_pending_true in Q. split; [reflexivity|]. intros Hn. contradiction.
Qed.

Lemma resolve_futures_npk : forall w r l k f, npk (w_futs (resolve_futures w r l k f)) r l k.
Proof.
  intros w r l k f y Iy Hr Hl Hk. unfold resolve_futures in Iy. cbn [w_futs set_futs] in Iy.
  apply in_map_iff in Iy. destruct Iy as (x & <- & _).
  destruct ((f_region x =? r) && (f_lid x =? l) && Bool.eqb (f_kind x) k && is_pending (f_state x)) eqn:Q; [cbn; discriminate|].
  rewrite Hr, Hl, Hk, !N.eqb_refl, eqb_reflx in Q. cbn in Q. apply is_pending_false. exact Q.
Qed.

(* what resolve does to one request *)
Lemma resolve_futures_nth : forall w r l k f i x, nth_error (w_futs w) i = Some x ->
  nth_error (w_futs (resolve_futures w r l k f)) i =
  Some (if (f_region x =? r) && (f_lid x =? l) && Bool.eqb (f_kind x) k && is_pending (f_state x) then resolved x f else x).
Proof.
  intros. unfold resolve_futures. cbn [w_futs set_futs]. rewrite nth_error_map, H. reflexivity.
Qed.

Lemma cancel_region_cans : forall w r, cans (w_futs w) (w_futs (cancel_region_futures w r)).
Proof.
  intros. unfold cancel_region_futures. cbn [w_futs set_futs]. apply F2_map. intros x.
  destruct ((f_region x =? r) && is_pending (f_state x)) eqn:Q; [|left; reflexivity].
  right. apply andb_prop in Q. destruct Q as [_ Q]. split; [apply is_pending_true; exact Q|reflexivity].
Qed.

(* ---------- the graph operations do not touch the requests ---------- *)
Lemma futs_parent_object : forall w r f h w', parent_object w r f h = Some w' -> w_futs w' = w_futs w.
Proof.
  intros w r f h w' H. unfold parent_object in H. bind_inv H. bind_inv H.
  destruct (o_parent o =? 0); [inversion H; reflexivity|].
  destruct (aget (o_parent o) (r_local r0)).
  - bind_inv H. destruct (mem (o_lid o) (map fst (o_children o0))); [discriminate|]. bind_inv H. inversion H. reflexivity.
  - inversion H. reflexivity.
Qed.

Lemma futs_unparent_object : forall w r f q w', unparent_object w r f q = Some w' -> w_futs w' = w_futs w.
Proof.
  intros w r f q w' H. unfold unparent_object in H. bind_inv H. bind_inv H.
  destruct (q =? 0); [inversion H; reflexivity|].
  destruct (aget q (r_local r0)); [|inversion H; reflexivity].
  match type of H with match ?x with _ => _ end = _ => destruct x end; [|discriminate].
  match type of H with (if ?b then _ else _) = _ => destruct b end; inversion H; reflexivity.
Qed.

Lemma futs_reparented : forall w r f q w', handle_object_reparented w r f q = Some w' -> w_futs w' = w_futs w.
Proof.
  intros w r f q w' H. unfold handle_object_reparented in H. bind_inv H. bind_inv H.
  rewrite (futs_parent_object _ _ _ _ _ H). eapply futs_unparent_object; eauto.
Qed.

Lemma futs_adopt : forall ls w r w', adopt w r ls = Some w' -> w_futs w' = w_futs w.
Proof.
  induction ls as [|c t IH]; intros w r w' H; simpl in H; [inversion H; reflexivity|].
  bind_inv H. destruct (aget c (r_local r0)); [|discriminate]. bind_inv H.
  rewrite (IH _ _ _ H). eapply futs_parent_object; eauto.
Qed.

Lemma futs_unparent_children : forall ids w r w', unparent_children w r ids = Some w' -> w_futs w' = w_futs w.
Proof.
  induction ids as [|c t IH]; intros w r w' H; simpl in H; [inversion H; reflexivity|].
  bind_inv H. destruct (aget c (r_local r0)); [|discriminate]. bind_inv H. bind_inv H.
  rewrite (IH _ _ _ H). eapply futs_unparent_object; eauto.
Qed.

Lemma futs_track_object : forall w r f w', track_object w r f = Some w' -> w_futs w' = w_futs w.
Proof.
  intros w r f w' H. unfold track_object in H. bind_inv H. bind_inv H. bind_inv H. bind_inv H.
  destruct (collect_orphans r1 (o_lid o)) as [orph rs3].
  rewrite (futs_adopt _ _ _ _ H). cbn [w_futs set_rs]. rewrite (futs_parent_object _ _ _ _ _ E1). reflexivity.
Qed.

(* untrack_object cancels the requests of the local id the object had *)
Lemma futs_untrack_object : forall w r f o w', keys_ok w -> get_obj w f = Some o ->
  untrack_object w r f = Some w' -> w_futs w' = w_futs (cancel_futures w r (o_lid o)).
Proof.
  intros w r f o w' K Eo H. unfold untrack_object in H. rewrite Eo in H. cbn [bind] in H.
  bind_inv H. rename w0 into w1. pose proof (frame_unparent_children _ _ _ _ K E) as F1.
  pose proof (futs_unparent_children _ _ _ _ E) as U1.
  bind_inv H. rename r0 into rs1.
  assert (F2 : frame w (set_rs w1 r (orphan_children rs1 (map fst (o_children o)) (o_lid o)))).
  { eapply frame_trans; [exact F1|]. eapply frame_set_rs; [exact E0|apply ridx_orphan_children]. }
  set (w2 := set_rs w1 r (orphan_children rs1 (map fst (o_children o)) (o_lid o))) in *.
  bind_inv H. rename o0 into o2. destruct (o_children o2); [|discriminate].
  bind_inv H. rename w0 into w3. pose proof (futs_unparent_object _ _ _ _ _ E2) as U3.
  bind_inv H. destruct (aget (o_lid o2) (r_local r0)); [|discriminate]. inversion H; subst w'; clear H.
  destruct (frame_obj_rev _ _ _ _ F2 Eo) as [o2' [Eo2' C2]]. rewrite E1 in Eo2'. inversion Eo2'; subst o2'.
  apply core_inj in C2. destruct C2 as (C2 & _). rewrite <- C2.
  cbn [w_futs set_rs cancel_futures set_futs]. rewrite U3. unfold w2. cbn [w_futs set_rs]. rewrite U1. reflexivity.
Qed.

(* ---------- KillObject: the killed id and every object removed by the cascade ---------- *)
(* every object of w that is gone in w' was in region r and has no pending request left *)
Definition gone_np (r : N) (w w' : world) : Prop :=
  forall f o, get_obj w f = Some o -> get_obj w' f = None -> o_region o = r /\ np (w_futs w') r (o_lid o).

Definition KF (killf : world -> N -> option world) (r : N) : Prop :=
  forall w c w', Idx w -> killf w c = Some w' ->
    Idx w' /\ shrinks w w' /\ cans (w_futs w) (w_futs w') /\ gone_np r w w'.

Lemma gone_np_seq : forall r w w1 w', shrinks w w1 -> gone_np r w w1 -> gone_np r w1 w' ->
  cans (w_futs w1) (w_futs w') -> gone_np r w w'.
Proof.
  intros r w w1 w' S1 G1 G2 C2 f o Eo En. destruct (get_obj w1 f) as [o1|] eqn:E1.
  - destruct (S1 _ _ E1) as (o0 & Eo0 & C0). rewrite Eo in Eo0. inversion Eo0; subst o0.
    apply core_inj in C0. destruct C0 as (Cl & _ & Cr). destruct (G2 _ _ E1 En) as [Hr Hn]. rewrite <- Cl, <- Cr. auto.
  - destruct (G1 _ _ Eo E1) as [Hr Hn]. split; [exact Hr|]. eapply np_advs; [apply cans_advs; exact C2|exact Hn].
Qed.

Lemma kill_children_futs : forall killf r, KF killf r ->
  forall ids w w', Idx w -> kill_children killf r ids w = Some w' ->
  Idx w' /\ shrinks w w' /\ cans (w_futs w) (w_futs w') /\ gone_np r w w'.
Proof.
  intros killf r HK. induction ids as [|c t IH]; intros w w' I H; simpl in H.
  - inversion H; subst. split; [exact I|]. split; [apply shrinks_refl|]. split; [apply cans_refl|].
    intros f o E1 E2. congruence.
  - assert (STEP : forall w1, killf w c = Some w1 -> kill_children killf r t w1 = Some w' ->
        Idx w' /\ shrinks w w' /\ cans (w_futs w) (w_futs w') /\ gone_np r w w').
    { intros w1 E H1. destruct (HK _ _ _ I E) as (I1 & S1 & C1 & G1). destruct (IH _ _ I1 H1) as (I2 & S2 & C2 & G2).
      split; [exact I2|]. split; [eapply shrinks_trans; eauto|]. split; [eapply cans_trans; eauto|].
      eapply gone_np_seq; eauto. }
    destruct (lookup_local w r c) as [co|].
    + destruct (o_av co); [eauto|]. bind_inv H. eauto.
    + bind_inv H. eauto.
Qed.

Lemma kill_futs : forall n w r l w', Idx w -> kill n w r l = Some w' ->
  Idx w' /\ shrinks w w' /\ cans (w_futs w) (w_futs w') /\ np (w_futs w') r l /\ gone_np r w w'.
Proof.
  induction n as [|n IH]; intros w r l w' I H; [discriminate|].
  destruct (kill_Idx _ _ _ _ _ I H) as [I' S']. split; [exact I'|]. split; [exact S'|].
  simpl in H. bind_inv H. rename r0 into rs.
  assert (F1 : frame w (set_rs w r (with_missing rs (sdel l (r_missing rs))))).
  { eapply frame_set_rs; [exact E|reflexivity]. }
  set (w1 := set_rs w r (with_missing rs (sdel l (r_missing rs)))) in *.
  pose proof (frame_Idx _ _ F1 I) as I1.
  assert (HK : KF (fun w c => kill n w r c) r).
  { intros w0 c w0' I0 H0. destruct (IH _ _ _ _ I0 H0) as (A1 & A2 & A3 & _ & A5). auto. }
  destruct (lookup_local w1 r l) as [o|] eqn:El.
  - bind_inv H. rename w0 into w2. bind_inv H. rename w0 into w3. inversion H; subst w'; clear H.
    destruct (kill_children_futs _ _ HK _ _ _ I1 E0) as (I2 & S2 & C2 & G2).
    destruct (lookup_local_some _ _ _ _ I1 El) as (Eo & Hl & Hr).
    pose proof E1 as E1'. unfold untrack_object in E1'. destruct (get_obj w2 (o_full o)) as [o'|] eqn:Eo'; [|discriminate]. clear E1'.
    destruct (S2 _ _ Eo') as (o0 & Eo0 & C0). rewrite Eo in Eo0. inversion Eo0; subst o0.
    pose proof (core_inj _ _ C0) as (Cl & _ & Cr). pose proof I2 as (K2 & _).
    pose proof (futs_untrack_object _ _ _ _ _ K2 Eo' E1) as U3. rewrite Cl, Hl in U3.
    destruct (untrack_IdxX _ _ _ _ _ I2 Eo' (eq_trans Cr Hr) E1) as (_ & _ & FO & _).
    cbn [w_futs del_obj]. rewrite U3.
    assert (C3 : cans (w_futs w2) (w_futs (cancel_futures w2 r l))) by apply cancel_futures_cans.
    split; [eapply cans_trans; [exact C2|exact C3]|]. split; [apply cancel_futures_np|].
    intros f a Ea En. change (get_obj w f) with (get_obj w1 f) in Ea.
    destruct (get_obj w2 f) as [a2|] eqn:Ea2.
    + rewrite get_obj_del_obj in En. destruct (f =? o_full o) eqn:Q.
      * apply N.eqb_eq in Q. subst f. rewrite Eo in Ea. inversion Ea; subst a. split; [exact Hr|]. rewrite Hl.
        cbn [w_futs del_obj]. rewrite U3. apply cancel_futures_np.
      * specialize (FO f). rewrite Ea2, En in FO. discriminate.
    + destruct (G2 _ _ Ea Ea2) as [Gr Gn]. split; [exact Gr|]. cbn [w_futs del_obj]. rewrite U3.
      eapply np_advs; [apply cans_advs; exact C3|exact Gn].
  - bind_inv H. rename r0 into rs2. destruct (collect_orphans rs2 l) as [ch rs3] eqn:Ec.
    set (w2 := cancel_futures w1 r l) in *.
    assert (F2 : frame w1 (set_rs w2 r (retrack_avatars w2 r l ch rs3))).
    { eapply frame_trans; [apply frame_set_futs|]. eapply frame_set_rs; [exact E0|]. rewrite ridx_retrack.
      change rs3 with (snd (ch, rs3)). rewrite <- Ec. apply ridx_collect. }
    destruct (kill_children_futs _ _ HK _ _ _ (frame_Idx _ _ F2 I1) H) as (I3 & S3 & C3 & G3).
    cbn [w_futs set_rs] in C3.
    assert (C2 : cans (w_futs w) (w_futs w2)) by apply (cancel_futures_cans w1 r l).
    split; [eapply cans_trans; eauto|]. split.
    + eapply np_advs; [apply cans_advs; exact C3|apply cancel_futures_np].
    + intros f a Ea En. apply (G3 f a); [exact Ea|exact En].
Qed.

(* ---------- _update_existing_object ---------- *)
Lemma update_properties_lazy : forall o p, p_lazy p = true -> snd (update_properties o p) = true.
Proof. intros o p H. unfold update_properties. cbn [snd]. rewrite H. reflexivity. Qed.

Lemma hooks_resolve : forall w3 f kind (b : bool) w' o3 nr nl, Idx w3 -> get_obj w3 f = Some o3 ->
  o_lid o3 = nl -> o_region o3 = nr ->
  (if b then
     o3 <- get_obj w3 f ;;
     match region_state w3 (o_region o3) with
     | Some _ => Some (resolve_futures w3 (o_region o3) (o_lid o3) kind f)
     | None => Some w3
     end
   else Some w3) = Some w' ->
  (w' = w3 \/ w' = resolve_futures w3 nr nl kind f) /\ (b = true -> w' = resolve_futures w3 nr nl kind f).
Proof.
  intros w3 f kind b w' o3 nr nl (K & A & B) Eo Hl Hr H. destruct b.
  - rewrite Eo in H. cbn [bind] in H. destruct (B _ _ Eo) as (rs & Ers & Ht & _).
    unfold region_state in H. rewrite Ers, Ht in H. rewrite Hl, Hr in H. inversion H. auto.
  - inversion H. split; [auto|discriminate].
Qed.

Lemma update_existing_futs : forall w f p k w' o, Idx w -> get_obj w f = Some o ->
  region_state w (dflt (p_region p) (o_region o)) <> None ->
  lid_unique w (dflt (p_region p) (o_region o)) (dflt (p_lid p) (o_lid o)) f ->
  update_existing w f p k = Some w' ->
  exists w3, Idx w3 /\
    (w_futs w3 = w_futs w \/
     ((o_region o <> dflt (p_region p) (o_region o) \/ o_lid o <> dflt (p_lid p) (o_lid o)) /\
      w_futs w3 = w_futs (cancel_futures w (o_region o) (o_lid o)))) /\
    (w' = w3 \/ w' = resolve_futures w3 (dflt (p_region p) (o_region o)) (dflt (p_lid p) (o_lid o)) k f) /\
    ((p_lazy p = true \/
      (o_region o = dflt (p_region p) (o_region o) /\ o_lid o = dflt (p_lid p) (o_lid o) /\ snd (update_properties o p) = true)) ->
     w' = resolve_futures w3 (dflt (p_region p) (o_region o)) (dflt (p_lid p) (o_lid o)) k f) /\
    ((o_region o <> dflt (p_region p) (o_region o) \/ o_lid o <> dflt (p_lid p) (o_lid o)) ->
     np (w_futs w3) (o_region o) (o_lid o)).
Proof.
  intros w f p k w' o I Eo Hnew Huniq H. pose proof I as (K & A & B). unfold update_existing in H.
  rewrite Eo in H. cbn [bind] in H.
  pose proof (K _ _ Eo) as Kf.
  destruct (B _ _ Eo) as (rso & Erso & Htso & Elo).
  assert (Eold : region_state w (o_region o) = Some rso).
  { unfold region_state. rewrite Erso, Htso. reflexivity. }
  rewrite Eold in H.
  set (nr := dflt (p_region p) (o_region o)) in *. set (nl := dflt (p_lid p) (o_lid o)) in *.
  destruct (region_state w nr) as [rsn|] eqn:Enew; [|congruence]. clear Hnew.
  apply region_state_some in Enew. destruct Enew as [Ersn Htn].
  destruct (o_region o =? nr) eqn:Qr; cbn [negb andb is_some] in H.
  - (* same region *)
    apply N.eqb_eq in Qr.
    destruct (o_lid o =? nl) eqn:Ql; cbn [negb andb is_some] in H.
    + (* same lid *)
      apply N.eqb_eq in Ql.
      cbn [bind] in H. rewrite Eo in H. cbn [bind] in H.
      destruct (update_properties o p) as [o2 ch1] eqn:Eu.
      destruct (update_properties_core _ _ _ _ Eu) as (U1 & U2 & U3).
      assert (Qr2 : (nr =? o_region o) = true) by (apply N.eqb_eq; congruence).
      rewrite Qr2 in H. cbn [negb andb is_some] in H.
      bind_inv H. rename w0 into w3.
      assert (F2 : frame w (set_obj w o2)).
      { eapply (frame_set_obj w f o); [exact Eo| |exact Kf]. unfold core. fold nl in U1. fold nr in U3. congruence. }
      assert (K2 : keys_ok (set_obj w o2)) by (eapply frame_keys; eauto).
      pose proof (second_same_frame _ _ _ _ _ _ K2 E) as F3.
      assert (I3 : Idx w3) by (eapply frame_Idx; [|exact I]; eapply frame_trans; eauto).
      assert (Eo2 : get_obj (set_obj w o2) f = Some o2).
      { rewrite get_obj_set_obj. rewrite U2, Kf, N.eqb_refl. reflexivity. }
      destruct (frame_obj_rev _ _ _ _ F3 Eo2) as (o3 & Eo3 & C3). apply core_inj in C3. destruct C3 as (C3l & _ & C3r).
      assert (U : w_futs w3 = w_futs w).
      { match type of E with (if ?b then _ else _) = _ => destruct b end.
        - rewrite (futs_reparented _ _ _ _ _ E). reflexivity.
        - inversion E. reflexivity. }
      destruct (hooks_resolve _ _ _ _ _ o3 nr nl I3 Eo3 ltac:(fold nl in U1; congruence) ltac:(fold nr in U3; congruence) H) as [R1 R2].
      exists w3. split; [exact I3|]. split; [left; exact U|]. split; [exact R1|]. split.
      * intros [Hz|(_ & _ & Hc)]; apply R2.
        -- pose proof (update_properties_lazy o p Hz) as L. rewrite Eu in L. cbn in L. rewrite L. reflexivity.
        -- cbn in Hc. rewrite Hc. reflexivity.
      * intros [Hd|Hd]; congruence.
    + (* local id changes inside the region *)
      bind_inv H. rename w0 into w1. bind_inv H. rename o0 into o1. bind_inv H. rename w0 into w2.
      cbn [bind] in H.
      destruct (untrack_IdxX _ _ _ _ _ I Eo eq_refl E) as (IX1 & (o1' & Eo1' & C1) & FO1 & FR1).
      rewrite E0 in Eo1'. inversion Eo1'; subst o1'; clear Eo1'.
      pose proof (core_inj _ _ C1) as (C1l & C1f & C1r).
      assert (IX1' : IdxX (set_obj w1 (with_lid o1 nl)) f).
      { apply IdxX_set_obj; [exact IX1|]. cbn. congruence. }
      assert (Eo1n : get_obj (set_obj w1 (with_lid o1 nl)) f = Some (with_lid o1 nl)).
      { rewrite get_obj_set_obj. cbn. rewrite C1f, Kf, N.eqb_refl. reflexivity. }
      assert (Hfree : exists rs, get_rs (set_obj w1 (with_lid o1 nl)) (o_region o) = Some rs /\ r_tracked rs = true /\
                                 aget (o_lid (with_lid o1 nl)) (r_local rs) = None).
      { rewrite get_rs_set_obj. specialize (FR1 (o_region o)). rewrite Erso in FR1. cbn in FR1.
        destruct (get_rs w1 (o_region o)) as [rs1|]; cbn in FR1; [|discriminate].
        unfold ridx, ridx_del in FR1. rewrite N.eqb_refl in FR1. inversion FR1 as [[Ft Fl]].
        exists rs1. split; [reflexivity|]. split; [congruence|]. cbn. rewrite Fl, aget_adel.
        destruct (nl =? o_lid o) eqn:Q; [reflexivity|].
        destruct (aget nl (r_local rso)) as [g|] eqn:Eg; [|reflexivity].
        rewrite <- Qr in Huniq. pose proof (Huniq _ _ Erso Eg) as ->.
        destruct (A _ _ _ _ Erso Eg) as (og & Eog & Hl & _). rewrite Eo in Eog. inversion Eog; subst og.
        rewrite Hl, N.eqb_refl in Q. discriminate. }
      destruct (track_Idx _ _ _ _ _ IX1' Eo1n (eq_trans C1r eq_refl) Hfree E1) as [I2 FO2].
      bind_inv H. rename o0 into o1b.
      destruct (update_properties o1b p) as [o2 ch1] eqn:Eu.
      destruct (update_properties_core _ _ _ _ Eu) as (U1 & U2 & U3).
      assert (Qr2 : (nr =? o_region o) = true) by (apply N.eqb_eq; congruence).
      rewrite Qr2 in H. cbn [negb andb is_some] in H.
      bind_inv H. rename w0 into w3.
      pose proof (FO2 f) as Cb. rewrite E2, Eo1n in Cb. cbn in Cb. inversion Cb as [[Cbl Cbf Cbr]].
      pose proof I2 as (K2 & _).
      assert (Cn : core o2 = core o1b).
      { unfold core. rewrite U1, U2, U3, Cbl, Cbr. fold nl. fold nr.
        assert (dflt (p_lid p) nl = nl) as ->.
        { unfold nl. destruct (p_lid p); reflexivity. }
        assert (dflt (p_region p) (o_region o1) = nr) as ->.
        { unfold nr. rewrite C1r. reflexivity. }
        rewrite C1r, Qr. reflexivity. }
      assert (F2 : frame w2 (set_obj w2 o2)).
      { eapply (frame_set_obj w2 f o1b); [exact E2|exact Cn|eauto]. }
      assert (K2' : keys_ok (set_obj w2 o2)) by (eapply frame_keys; eauto).
      pose proof (second_same_frame _ _ _ _ _ _ K2' E3) as F3.
      assert (I3 : Idx w3) by (eapply frame_Idx; [|exact I2]; eapply frame_trans; eauto).
      assert (Eo2 : get_obj (set_obj w2 o2) f = Some o2).
      { rewrite get_obj_set_obj. rewrite U2, (K2 _ _ E2), N.eqb_refl. reflexivity. }
      destruct (frame_obj_rev _ _ _ _ F3 Eo2) as (o3 & Eo3 & C3). apply core_inj in C3. destruct C3 as (C3l & _ & C3r).
      apply core_inj in Cn. destruct Cn as (Cnl & _ & Cnr).
      assert (U : w_futs w3 = w_futs (cancel_futures w (o_region o) (o_lid o))).
      { assert (U3' : w_futs w3 = w_futs w2).
        { match type of E3 with (if ?b then _ else _) = _ => destruct b end.
          - rewrite (futs_reparented _ _ _ _ _ E3). reflexivity.
          - inversion E3. reflexivity. }
        rewrite U3'. rewrite (futs_track_object _ _ _ _ E1). cbn [w_futs set_obj].
        apply (futs_untrack_object _ _ _ _ _ K Eo E). }
      destruct (hooks_resolve w3 f k ((true || ch1) && true) w' o3 nr nl I3 Eo3 ltac:(cbn in Cbl; congruence) ltac:(cbn in Cbr; congruence) H) as [R1 R2].
      rewrite ?Cbl. exists w3. split; [exact I3|]. split; [right; split; [right; apply N.eqb_neq; exact Ql|exact U]|]. split; [exact R1|]. split.
      * intros _. apply R2. reflexivity.
      * intros _. rewrite U. apply cancel_futures_np.
  - (* region changes *)
    bind_inv H. rename w0 into w1. cbn [bind] in H.
    destruct (untrack_IdxX _ _ _ _ _ I Eo eq_refl E) as (IX1 & (o1 & Eo1 & C1) & FO1 & FR1).
    rewrite Eo1 in H. cbn [bind] in H.
    pose proof (core_inj _ _ C1) as (C1l & C1f & C1r).
    destruct (update_properties o1 p) as [o2 ch1] eqn:Eu.
    destruct (update_properties_core _ _ _ _ Eu) as (U1 & U2 & U3).
    assert (Qr2 : (nr =? o_region o) = false) by (rewrite N.eqb_sym; exact Qr).
    rewrite Qr2 in H. cbn [negb andb is_some] in H.
    bind_inv H. rename w0 into w3.
    assert (IX2 : IdxX (set_obj w1 o2) f).
    { apply IdxX_set_obj; [exact IX1|]. congruence. }
    assert (Eo2 : get_obj (set_obj w1 o2) f = Some o2).
    { rewrite get_obj_set_obj. rewrite U2, C1f, Kf, N.eqb_refl. reflexivity. }
    assert (Hr2 : o_region o2 = nr) by (rewrite U3, C1r; reflexivity).
    assert (Hfree : exists rs, get_rs (set_obj w1 o2) nr = Some rs /\ r_tracked rs = true /\
                               aget (o_lid o2) (r_local rs) = None).
    { rewrite get_rs_set_obj. specialize (FR1 nr). rewrite Ersn in FR1. cbn in FR1.
      destruct (get_rs w1 nr) as [rs1|]; cbn in FR1; [|discriminate].
      unfold ridx, ridx_del in FR1. rewrite Qr2 in FR1. inversion FR1 as [[Ft Fl]].
      exists rs1. split; [reflexivity|]. split; [congruence|]. rewrite Fl, U1, C1l. fold nl.
      destruct (aget nl (r_local rsn)) as [g|] eqn:Eg; [|reflexivity].
      pose proof (Huniq _ _ Ersn Eg) as ->.
      destruct (A _ _ _ _ Ersn Eg) as (og & Eog & _ & Hrg). rewrite Eo in Eog. inversion Eog; subst og.
      rewrite Hrg, N.eqb_refl in Qr. discriminate. }
    destruct (track_Idx _ _ _ _ _ IX2 Eo2 Hr2 Hfree E0) as [I3 FO3].
    pose proof (FO3 f) as Cb. rewrite Eo2 in Cb. destruct (get_obj w3 f) as [o3|] eqn:Eo3; cbn in Cb; [|discriminate].
    inversion Cb as [[Cbl Cbf Cbr]].
    assert (U : w_futs w3 = w_futs (cancel_futures w (o_region o) (o_lid o))).
    { rewrite (futs_track_object _ _ _ _ E0). cbn [w_futs set_obj]. apply (futs_untrack_object _ _ _ _ _ K Eo E). }
    rewrite <- Eo3 in H.
    destruct (hooks_resolve w3 f k ((false || ch1) && true) w' o3 nr nl I3 Eo3 ltac:(rewrite Cbl, U1, C1l; reflexivity) ltac:(congruence) H) as [R1 R2].
    exists w3. split; [exact I3|]. split; [right; split; [left; apply N.eqb_neq; exact Qr|exact U]|]. split; [exact R1|]. split.
    + intros [Hz|(Hc & _)]; [|apply N.eqb_neq in Qr; contradiction]. apply R2.
      pose proof (update_properties_lazy o1 p Hz) as L. rewrite Eu in L. cbn in L. rewrite L. reflexivity.
    + intros _. rewrite U. apply cancel_futures_np.
Qed.

(* ---------- unconditionally: no handler reopens, rewrites or drops a request ---------- *)
Lemma untrack_cans : forall w r f w', untrack_object w r f = Some w' -> cans (w_futs w) (w_futs w').
Proof.
  intros w r f w' H. unfold untrack_object in H. bind_inv H. bind_inv H. bind_inv H. bind_inv H.
  destruct (o_children o0); [|discriminate]. bind_inv H. bind_inv H.
  destruct (aget (o_lid o0) (r_local r1)); [|discriminate]. inversion H; subst w'; clear H.
  cbn [w_futs set_rs cancel_futures set_futs]. rewrite (futs_unparent_object _ _ _ _ _ E3). cbn [w_futs set_rs].
  rewrite (futs_unparent_children _ _ _ _ E0). apply (cancel_futures_cans w r (o_lid o0)).
Qed.

Lemma update_existing_advs : forall w f p k w', update_existing w f p k = Some w' -> advs (w_futs w) (w_futs w').
Proof.
  intros w f p k w' H. unfold update_existing in H. bind_inv H.
  match type of H with bind ?st _ = _ => destruct st as [[w1 ch0]|] eqn:E1; cbn [bind] in H; [|discriminate] end.
  assert (A1 : cans (w_futs w) (w_futs w1)).
  { destruct (negb (o_region o =? dflt (p_region p) (o_region o))).
    - destruct (region_state w (o_region o)).
      + bind_inv E1. inversion E1; subst. eapply untrack_cans; eauto.
      + inversion E1; subst. apply cans_refl.
    - destruct (negb (o_lid o =? dflt (p_lid p) (o_lid o)) && is_some (region_state w (o_region o))).
      + bind_inv E1. bind_inv E1. bind_inv E1. inversion E1; subst.
        rewrite (futs_track_object _ _ _ _ E3). cbn [w_futs set_obj]. eapply untrack_cans; eauto.
      + inversion E1; subst. apply cans_refl. }
  bind_inv H. destruct (update_properties o0 p) as [o2 ch1]. bind_inv H. rename w0 into w3.
  assert (A2 : w_futs w3 = w_futs w1).
  { destruct (negb (dflt (p_region p) (o_region o) =? o_region o)).
    - destruct (region_state w (dflt (p_region p) (o_region o))).
      + rewrite (futs_track_object _ _ _ _ E2). reflexivity.
      + inversion E2. reflexivity.
    - destruct (negb (dflt (p_parent p) (o_parent o) =? o_parent o) && is_some (region_state w (dflt (p_region p) (o_region o)))).
      + rewrite (futs_reparented _ _ _ _ _ E2). reflexivity.
      + inversion E2. reflexivity. }
  eapply advs_trans; [apply cans_advs; exact A1|]. rewrite <- A2.
  destruct ((ch0 || ch1) && is_some (region_state w (dflt (p_region p) (o_region o)))).
  - bind_inv H. destruct (region_state w3 (o_region o1)); inversion H; [apply resolve_futures_advs|apply advs_refl].
  - inversion H. apply advs_refl.
Qed.

Lemma kill_children_cans : forall killf r,
  (forall w c w', killf w c = Some w' -> cans (w_futs w) (w_futs w')) ->
  forall ids w w', kill_children killf r ids w = Some w' -> cans (w_futs w) (w_futs w').
Proof.
  intros killf r HK. induction ids as [|c t IH]; intros w w' H; simpl in H; [inversion H; apply cans_refl|].
  destruct (lookup_local w r c) as [co|].
  - destruct (o_av co); [eauto|]. bind_inv H. eapply cans_trans; eauto.
  - bind_inv H. eapply cans_trans; eauto.
Qed.

Lemma kill_cans : forall n w r l w', kill n w r l = Some w' -> cans (w_futs w) (w_futs w').
Proof.
  induction n as [|n IH]; intros w r l w' H; simpl in H; [discriminate|]. bind_inv H.
  assert (HK : forall w c w', (fun w c => kill n w r c) w c = Some w' -> cans (w_futs w) (w_futs w')) by (intros; eapply IH; eauto).
  match type of H with match ?x with _ => _ end = _ => destruct x end.
  - bind_inv H. bind_inv H. inversion H; subst w'. cbn [w_futs del_obj].
    eapply cans_trans; [exact (kill_children_cans _ _ HK _ _ _ E0)|]. eapply untrack_cans; eauto.
  - bind_inv H. destruct (collect_orphans r1 l) as [ch rs3].
    eapply cans_trans; [|exact (kill_children_cans _ _ HK _ _ _ H)].
    exact (cancel_futures_cans (set_rs w r (with_missing r0 (sdel l (r_missing r0)))) r l).
Qed.

(* fs' extends fs: the old requests have advanced, new ones are appended *)
Definition futs_ext (fs fs' : list fut) : Prop := exists a new, fs' = a ++ new /\ advs fs a.

Lemma futs_ext_advs : forall a b, advs a b -> futs_ext a b.
Proof. intros a b H. exists b, []. rewrite app_nil_r. auto. Qed.
Lemma futs_ext_refl : forall a, futs_ext a a.
Proof. intros. apply futs_ext_advs. apply advs_refl. Qed.
Lemma futs_ext_trans : forall a b c, futs_ext a b -> futs_ext b c -> futs_ext a c.
Proof.
  intros a b c (a1 & n1 & -> & A1) (a2 & n2 & -> & A2).
  apply Forall2_app_inv_l in A2. destruct A2 as (x & y & Hx & Hy & ->).
  exists x, (y ++ n2). rewrite app_assoc. split; [reflexivity|]. eapply advs_trans; eauto.
Qed.
Lemma futs_ext_app : forall a n, futs_ext a (a ++ n).
Proof. intros. exists a, n. split; [reflexivity|apply advs_refl]. Qed.

(* the i-th request keeps its key, and once done it is never touched again *)
Lemma futs_ext_nth : forall fs fs' i x, futs_ext fs fs' -> nth_error fs i = Some x ->
  exists y, nth_error fs' i = Some y /\ fkey y = fkey x /\ (f_state x <> Pending -> y = x).
Proof.
  intros fs fs' i x (a & n & -> & A) E. destruct (F2_nth _ _ _ _ A E) as (y & Ey & [K S]).
  exists y. split; [|auto]. rewrite nth_error_app1; [exact Ey|]. apply nth_error_Some. congruence.
Qed.

Lemma register_all_ext : forall ls w r, futs_ext (w_futs w) (w_futs (register_all w r ls)).
Proof.
  induction ls as [|l t IH]; intros w r; simpl; [apply futs_ext_refl|].
  eapply futs_ext_trans; [|apply IH]. apply futs_ext_app.
Qed.

Lemma step_futs_ext : forall w e w', step w e = Some w' -> futs_ext (w_futs w) (w_futs w').
Proof.
  intros w e w' H. destruct e as [cmp r l f p av v|r l v|r l crc v|f v|r l|r|r|r l|r l|r]; cbn [step] in H.
  - destruct (get_obj w f).
    + apply futs_ext_advs. eapply update_existing_advs; eauto.
    + destruct (region_state w r); [|inversion H; apply futs_ext_refl].
      unfold track_new in H. bind_inv H. bind_inv H. apply futs_ext_advs.
      pose proof (futs_track_object _ _ _ _ E) as U. cbn [w_futs set_obj] in U. rewrite <- U.
      destruct (region_state w0 (o_region o)); inversion H; [apply resolve_futures_advs|apply advs_refl].
  - destruct (region_state w r); [|inversion H; apply futs_ext_refl].
    destruct (lookup_local w r l); [|inversion H; apply futs_ext_refl].
    apply futs_ext_advs. eapply update_existing_advs; eauto.
  - destruct (region_state w r); [|inversion H; apply futs_ext_refl].
    destruct (lookup_local w r l); [|inversion H; apply futs_ext_refl].
    destruct (o_crc o =? crc); [|inversion H; apply futs_ext_refl].
    apply futs_ext_advs. eapply update_existing_advs; eauto.
  - destruct (get_obj w f); [|inversion H; apply futs_ext_refl].
    apply futs_ext_advs. eapply update_existing_advs; eauto.
  - destruct (get_rs w r); [|discriminate]. apply futs_ext_advs. apply cans_advs. eapply kill_cans; eauto.
  - bind_inv H. inversion H. cbn [w_futs set_rs]. apply futs_ext_advs. apply cans_advs. apply cancel_region_cans.
  - bind_inv H. inversion H. apply futs_ext_refl.
  - bind_inv H. inversion H. apply futs_ext_app.
  - bind_inv H. inversion H. apply futs_ext_app.
  - bind_inv H. inversion H. apply register_all_ext.
Qed.

Lemma run_futs_ext : forall h w w', run w h = Some w' -> futs_ext (w_futs w) (w_futs w').
Proof.
  induction h as [|e t IH]; intros w w' H; simpl in H; [inversion H; apply futs_ext_refl|].
  destruct (step w e) as [w1|] eqn:Es; [|discriminate].
  eapply futs_ext_trans; [eapply step_futs_ext; eauto|eauto].
Qed.

(* ---------- the step-level statements ---------- *)
Lemma step_kill_cancels : forall w r l w', Idx w -> step w (EKill r l) = Some w' ->
  cans (w_futs w) (w_futs w') /\ np (w_futs w') r l /\ gone_np r w w'.
Proof.
  intros w r l w' I H. cbn [step] in H. destruct (get_rs w r); [|discriminate].
  destruct (kill_futs _ _ _ _ _ I H) as (_ & _ & A & B & C). auto.
Qed.

Lemma cancel_nth_other : forall w r0 l0 i x, nth_error (w_futs w) i = Some x -> (f_region x <> r0 \/ f_lid x <> l0) ->
  nth_error (w_futs (cancel_futures w r0 l0)) i = Some x.
Proof.
  intros w r0 l0 i x E D. unfold cancel_futures. cbn [w_futs set_futs]. rewrite nth_error_map, E. cbn [option_map].
  destruct D as [D|D]; apply N.eqb_neq in D; rewrite D; [reflexivity|rewrite andb_false_r; reflexivity].
Qed.

(* all requests of kind k for (nr, nl) that were pending are resolved with the object f, none is left pending *)
Definition resolves (w w' : world) (nr nl : N) (k : bool) (f : N) : Prop :=
  npk (w_futs w') nr nl k /\
  forall i x, nth_error (w_futs w) i = Some x -> f_region x = nr -> f_lid x = nl -> f_kind x = k -> f_state x = Pending ->
    nth_error (w_futs w') i = Some (resolved x f).

Lemma resolves_from : forall w w3 w' r0 l0 nr nl k f,
  (w_futs w3 = w_futs w \/ ((r0 <> nr \/ l0 <> nl) /\ w_futs w3 = w_futs (cancel_futures w r0 l0))) ->
  w' = resolve_futures w3 nr nl k f -> resolves w w' nr nl k f.
Proof.
  intros w w3 w' r0 l0 nr nl k f U ->. split; [apply resolve_futures_npk|].
  intros i x E Hr Hl Hk Hp.
  assert (E3 : nth_error (w_futs w3) i = Some x).
  { destruct U as [U|[D U]]; rewrite U; [exact E|]. apply cancel_nth_other; [exact E|]. rewrite Hr, Hl. destruct D; [left|right]; congruence. }
  rewrite (resolve_futures_nth _ _ _ _ _ _ _ E3). rewrite Hr, Hl, Hk, Hp, !N.eqb_refl, eqb_reflx. reflexivity.
Qed.

Lemma step_full_resolves : forall w cmp r l f p av v w', Idx w -> input_idx_ok w (EFull cmp r l f p av v) ->
  step w (EFull cmp r l f p av v) = Some w' -> resolves w w' r l true f.
Proof.
  intros w cmp r l f p av v w' I [Hrs Hu] H. cbn [step] in H. destruct (get_obj w f) as [o|] eqn:Eo.
  - destruct (update_existing_futs w f (full_props cmp r l p av v) true w' o I Eo Hrs Hu H) as (w3 & I3 & U & _ & R & _).
    cbn [full_props p_region p_lid dflt p_lazy] in *.
    eapply resolves_from; [exact U|]. apply R. left. reflexivity.
  - destruct (region_state w r) as [rs|] eqn:Ers; [|congruence]. apply region_state_some in Ers. destruct Ers as [Ers Ht].
    pose proof I as (K & A & B). unfold track_new in H. cbn [o_full] in H. bind_inv H. rename w0 into w1. bind_inv H. rename o into o1.
    set (o := mkObj l f p r av v v v 0 (negb cmp) [] None) in *.
    assert (Hfree : exists rs, get_rs (set_obj w o) r = Some rs /\ r_tracked rs = true /\ aget (o_lid o) (r_local rs) = None).
    { exists rs. rewrite get_rs_set_obj. split; [exact Ers|]. split; [exact Ht|].
      destruct (aget (o_lid o) (r_local rs)) as [g|] eqn:Eg; [|reflexivity].
      pose proof (Hu _ _ Ers Eg) as ->. destruct (A _ _ _ _ Ers Eg) as (og & Eog & _). congruence. }
    assert (Eo' : get_obj (set_obj w o) (o_full o) = Some o) by (rewrite get_obj_set_obj, N.eqb_refl; reflexivity).
    destruct (track_Idx _ _ _ _ _ (IdxX_new _ o I Eo) Eo' eq_refl Hfree E) as [I1 FO].
    pose proof (FO f) as C. change f with (o_full o) in C at 2. rewrite Eo' in C. rewrite E0 in C. cbn in C. injection C as Cl Cf Cr.
    destruct I1 as (K1 & A1 & B1). destruct (B1 _ _ E0) as (rs1 & Ers1 & Ht1 & _).
    unfold region_state in H. rewrite Ers1, Ht1 in H. rewrite Cl, Cr in H. inversion H.
    eapply (resolves_from w w1 _ r l r l); [left|reflexivity].
    rewrite (futs_track_object _ _ _ _ E). reflexivity.
Qed.

Lemma step_props_resolves : forall w f v w' o, Idx w -> get_obj w f = Some o -> o_name o <> v ->
  step w (EProps f v) = Some w' -> resolves w w' (o_region o) (o_lid o) false f.
Proof.
  intros w f v w' o I Eo Hv H. pose proof I as (K & A & B). cbn [step] in H. rewrite Eo in H.
  destruct (B _ _ Eo) as (rs & Ers & Ht & El).
  assert (Hrs : region_state w (o_region o) <> None) by (unfold region_state; rewrite Ers, Ht; discriminate).
  assert (Hu : lid_unique w (o_region o) (o_lid o) f) by (intros rs' g Ers' El'; congruence).
  destruct (update_existing_futs w f (mkProps None None None None None None None (Some v) None false) false w' o I Eo Hrs Hu H) as (w3 & I3 & U & _ & R & _).
  cbn [p_region p_lid dflt p_lazy] in *.
  eapply resolves_from; [exact U|]. apply R. right. split; [reflexivity|]. split; [reflexivity|].
  unfold update_properties. cbn. destruct (v =? o_name o) eqn:Q; [apply N.eqb_eq in Q; congruence|reflexivity].
Qed.

Lemma step_terse_resolves : forall w r l v w' o, Idx w -> region_state w r <> None -> lookup_local w r l = Some o ->
  o_pos o <> v -> step w (ETerse r l v) = Some w' -> resolves w w' r l true (o_full o).
Proof.
  intros w r l v w' o I Hrs El Hv H. cbn [step] in H.
  destruct (region_state w r) as [rs|] eqn:Ers; [|congruence]. rewrite El in H.
  destruct (lookup_local_some _ _ _ _ I El) as (Eo & Hl & Hr).
  assert (Hrs' : region_state w r <> None) by congruence.
  pose proof (lookup_unique _ _ _ _ I El) as Hu.
    destruct (update_existing_futs w (o_full o) (mkProps (Some l) None (Some r) None None None (Some v) None (Some true) false) true w' o I Eo Hrs' Hu H) as (w3 & I3 & U & _ & R & _).
  cbn [p_region p_lid dflt p_lazy] in *.
  eapply resolves_from; [exact U|]. apply R. right. split; [congruence|]. split; [congruence|].
  unfold update_properties. cbn. rewrite Hl, Hr, !N.eqb_refl. cbn.
  destruct (v =? o_pos o) eqn:Q; [apply N.eqb_eq in Q; congruence|reflexivity].
Qed.

(* an object that changes local id or region leaves no pending request behind under its old id *)
Lemma step_full_moved_cancels : forall w cmp r l f p av v w' o, Idx w -> input_idx_ok w (EFull cmp r l f p av v) ->
  get_obj w f = Some o -> (o_region o <> r \/ o_lid o <> l) ->
  step w (EFull cmp r l f p av v) = Some w' -> np (w_futs w') (o_region o) (o_lid o).
Proof.
  intros w cmp r l f p av v w' o I [Hrs Hu] Eo D H. cbn [step] in H. rewrite Eo in H.
  destruct (update_existing_futs w f (full_props cmp r l p av v) true w' o I Eo Hrs Hu H) as (w3 & I3 & _ & R1 & _ & N3).
  cbn [full_props p_region p_lid dflt] in *. specialize (N3 D).
  destruct R1 as [->| ->]; [exact N3|]. eapply np_advs; [apply resolve_futures_advs|exact N3].
Qed.

(* ---------- over histories ---------- *)
(* a request made for (r, l) before a KillObject of (r, l) is done for good afterwards, whatever follows;
   if it was still pending at the kill, it was cancelled *)
Lemma history_kill_cancelled : forall h1 r l h2 w1 w2 w3,
  hist_ok input_idx_ok init h1 -> run init h1 = Some w1 -> step w1 (EKill r l) = Some w2 -> run w2 h2 = Some w3 ->
  forall i x, nth_error (w_futs w1) i = Some x -> f_region x = r -> f_lid x = l ->
  exists y, nth_error (w_futs w3) i = Some y /\ fkey y = fkey x /\ f_state y <> Pending /\
            (f_state x = Pending -> f_state y = Cancelled).
Proof.
  intros h1 r l h2 w1 w2 w3 Hok R1 S R2 i x E Hr Hl.
  pose proof (run_Idx _ _ _ init_Idx Hok R1) as I1.
  destruct (step_kill_cancels _ _ _ _ I1 S) as (C & Np & _).
  destruct (F2_nth _ _ _ _ C E) as (y2 & E2 & Fc).
  assert (K2 : fkey y2 = fkey x) by (apply (fcan_fadv _ _ Fc)).
  assert (N2 : f_state y2 <> Pending).
  { apply Np; [eapply nth_error_In; eauto| |]; unfold fkey in K2; congruence. }
  destruct (futs_ext_nth _ _ _ _ (run_futs_ext _ _ _ R2) E2) as (y & E3 & K3 & S3).
  rewrite (S3 N2) in *. exists y2. split; [exact E3|]. split; [exact K2|]. split; [exact N2|].
  intros Hp. destruct Fc as [->|[_ ->]]; [contradiction|reflexivity].
Qed.

(* a request for an object update of (r, l) that is pending when ObjectUpdate(Compressed) for local id l arrives in
   region r is resolved with that object, and stays so whatever follows *)
Lemma history_update_resolved : forall h1 cmp r l f p av v h2 w1 w2 w3,
  hist_ok input_idx_ok init h1 -> run init h1 = Some w1 -> input_idx_ok w1 (EFull cmp r l f p av v) ->
  step w1 (EFull cmp r l f p av v) = Some w2 -> run w2 h2 = Some w3 ->
  forall i x, nth_error (w_futs w1) i = Some x -> f_region x = r -> f_lid x = l -> f_kind x = true -> f_state x = Pending ->
  nth_error (w_futs w3) i = Some (resolved x f).
Proof.
  intros h1 cmp r l f p av v h2 w1 w2 w3 Hok R1 Hin S R2 i x E Hr Hl Hk Hp.
  pose proof (run_Idx _ _ _ init_Idx Hok R1) as I1.
  destruct (step_full_resolves _ _ _ _ _ _ _ _ _ I1 Hin S) as [_ Rs].
  pose proof (Rs _ _ E Hr Hl Hk Hp) as E2.
  destruct (futs_ext_nth _ _ _ _ (run_futs_ext _ _ _ R2) E2) as (y & E3 & _ & S3).
  rewrite S3 in E3; [exact E3|]. cbn. discriminate.
Qed.
