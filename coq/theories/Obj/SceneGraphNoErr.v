(* C14 - no handler of the scene-graph model raises: under the invariant (Idx, Tree), the input assumptions of the
   statement and acyclic parent links, every step returns Some (incl.: the fuel of the kill cascade suffices). *)
From Coq Require Import NArith PeanoNat List Bool Lia.
From HV Require Import Obj.SceneGraph Obj.SceneGraphProofs Obj.SceneGraphTree Obj.SceneGraphKill.
Import ListNotations.
Open Scope N_scope.

(* ---------- the primitives ---------- *)
(* assert obj.LocalID not in parent.ChildIDs: a detached object is in no children list *)
Lemma parent_object_ok : forall w O K r f h o rs, Base w -> TreeG w O K ->
  get_obj w f = Some o -> o_region o = r -> get_rs w r = Some rs -> aget (o_lid o) (r_local rs) = Some f ->
  O f = Some None -> parent_object w r f h <> None.
Proof.
  intros w O K r f h o rs [Kw W2] T Eo Hr Ers Eidx HO. unfold parent_object. rewrite Eo, Ers. cbn [bind].
  destruct (o_parent o =? 0); [discriminate|].
  destruct (aget (o_parent o) (r_local rs)) as [pf|] eqn:Ep; [|discriminate].
  destruct (W2 _ _ _ _ Ers Ep) as (po & Epo & Hlp & Hrp). rewrite Epo. cbn [bind].
  destruct (mem (o_lid o) (map fst (o_children po))) eqn:M.
  - exfalso. apply mem_In in M. apply in_map_iff in M. destruct M as ([c cf] & Hc & Ic). cbn in Hc. subst c.
    destruct (tC1 _ _ _ T _ _ _ _ Epo Ic) as (co & rs0 & A1 & A2 & A3 & A4 & A5 & A6 & A7).
    rewrite Hrp, Ers in A5. inversion A5; subst rs0. rewrite Eidx in A6. inversion A6; subst cf. rewrite Eo in A1. inversion A1; subst co.
    destruct A4 as [A4 _]. unfold epar in A4. rewrite (Kw _ _ Eo), HO in A4. discriminate.
  - rewrite get_obj_set_obj. cbn [o_full with_children]. destruct (f =? o_full po); cbn [bind]; [discriminate|].
    rewrite Eo. cbn [bind]. discriminate.
Qed.

Lemma unparent_object_ok : forall w r f q o rs, Base w -> get_obj w f = Some o -> get_rs w r = Some rs ->
  unparent_object w r f q <> None.
Proof.
  intros w r f q o rs [Kw W2] Eo Ers. unfold unparent_object. rewrite Eo, Ers. cbn [bind].
  destruct (q =? 0); [discriminate|].
  destruct (aget q (r_local rs)) as [pf|] eqn:Ep; [|discriminate].
  destruct (W2 _ _ _ _ Ers Ep) as (po & Epo & _).
  rewrite get_obj_set_rs, get_obj_set_obj. cbn [o_full with_plink].
  destruct (pf =? o_full o).
  - destruct (mem (o_lid o) (map fst (o_children (with_plink o None)))); discriminate.
  - rewrite Epo. destruct (mem (o_lid o) (map fst (o_children po))); discriminate.
Qed.

Ltac some_or_absurd E := match goal with |- (bind ?x _) <> None => destruct x eqn:E; cbn [bind] end.

(* ---------- the adoption loop: assert child_obj is not None ---------- *)
Lemma adopt_ok : forall ls w O r rs, Base w -> TreeG w (odet O (fulls rs ls)) None -> get_rs w r = Some rs ->
  NoDup ls -> (forall c cf, In c ls -> aget c (r_local rs) = Some cf -> O cf = None) ->
  (forall c, In c ls -> aget c (r_local rs) <> None) ->
  adopt w r ls <> None.
Proof.
  induction ls as [|c t IH]; intros w O r rs Bw T Ers ND HO Hidx; simpl; [discriminate|].
  rewrite Ers. cbn [bind]. destruct (aget c (r_local rs)) as [cf|] eqn:Ec; [|exfalso; eapply Hidx; [left; reflexivity|exact Ec]].
  destruct Bw as [Kw W2]. destruct (W2 _ _ _ _ Ers Ec) as (co & Eco & Hl & Hr).
  assert (Hfs : fulls rs (c :: t) = cf :: fulls rs t).
  { unfold fulls. simpl. rewrite Ec. reflexivity. }
  rewrite Hfs in T.
  assert (HOcf : odet O (cf :: fulls rs t) cf = Some None) by (unfold odet; cbn; rewrite N.eqb_refl; reflexivity).
  destruct (parent_object w r cf false) as [w1|] eqn:E; cbn [bind].
  2:{ exfalso. eapply (parent_object_ok w _ None r cf false co rs); [split; assumption|exact T|exact Eco|exact Hr|exact Ers|rewrite Hl; exact Ec|exact HOcf|exact E]. }
  assert (T1 : TreeG w1 (oset (odet O (cf :: fulls rs t)) cf (Some (o_parent co))) None).
  { eapply (TreeG_parent w _ None r cf false co rs w1); [split; assumption|exact T|exact Eco|exact Hr|exact Ers|rewrite Hl; exact Ec|exact HOcf|intros _ Hk; discriminate|exact E]. }
  destruct (parent_pres _ _ _ _ _ _ _ Kw Eco Ers E) as [PO PR].
  pose proof (frame_parent_object _ _ _ _ _ Kw E) as F1.
  assert (B1 : Base w1) by (eapply frame_Base; [exact F1|split; assumption]).
  destruct (frame_rs_rev _ _ _ _ F1 Ers) as (rs1 & Ers1 & C1). apply ridx_inj in C1. destruct C1 as [_ C1].
  assert (Hnc : ~ In c t) by (inversion ND; assumption). assert (NDt : NoDup t) by (inversion ND; assumption).
  assert (Hcf : ~ In cf (fulls rs t)).
  { intro Hi. apply fulls_In in Hi. destruct Hi as (c' & Ic' & Ec'). destruct (W2 _ _ _ _ Ers Ec') as (a & Ea & Hla & _).
    rewrite Eco in Ea. inversion Ea; subst a. congruence. }
  eapply (IH w1 O r rs1); [exact B1| |exact Ers1|exact NDt| |].
  + rewrite (fulls_local rs rs1 t (eq_sym C1)). eapply TreeG_bk_equiv; [|exact T1].
    intros g a Eg p. destruct (PO _ _ Eg) as (a0 & Ea0 & L1 & L2 & L3 & L4 & _).
    destruct B1 as [Kw1 _]. pose proof (Kw1 _ _ Eg) as Kg.
    destruct (N.eq_dec g cf) as [->|Hne].
    * rewrite bk_oset_some by exact Kg. rewrite bk_odet. rewrite Kg.
      assert (M : mem cf (fulls rs t) = false) by (apply mem_false; exact Hcf). rewrite M.
      rewrite Eco in Ea0. inversion Ea0; subst a0.
      unfold bk, epar. rewrite Kg, (HO c cf (or_introl eq_refl) Ec). rewrite L4. split.
      { intros [X Y]. split; [reflexivity|]. split; congruence. }
      { intros [_ [X Y]]. split; congruence. }
    * rewrite bk_oset_other by (rewrite Kg; exact Hne). rewrite !bk_odet. rewrite Kg. cbn [mem existsb].
      apply N.eqb_neq in Hne. rewrite Hne. cbn [orb]. reflexivity.
  + intros c' cf' Ic' Ec'. rewrite <- C1 in Ec'. eapply HO; [right; exact Ic'|exact Ec'].
  + intros c' Ic'. rewrite <- C1. apply Hidx. right. exact Ic'.
Qed.

(* ---------- first loop of untrack_object: assert child_obj is not None ---------- *)
Lemma unparent_children_ok : forall ids w O K r rs, Base w -> TreeG w O K -> get_rs w r = Some rs -> NoDup ids ->
  (forall c cf, In c ids -> aget c (r_local rs) = Some cf -> O cf = None) ->
  (forall c, In c ids -> aget c (r_local rs) <> None) ->
  unparent_children w r ids <> None.
Proof.
  induction ids as [|c t IH]; intros w O K r rs Bw T Ers ND HO Hidx; simpl; [discriminate|].
  rewrite Ers. cbn [bind]. destruct (aget c (r_local rs)) as [cf|] eqn:Ec; [|exfalso; eapply Hidx; [left; reflexivity|exact Ec]].
  pose proof Bw as [Kw W2]. destruct (W2 _ _ _ _ Ers Ec) as (co & Eco & Hl & Hr). rewrite Eco. cbn [bind].
  destruct (unparent_object w r cf (o_parent co)) as [w1|] eqn:E0; cbn [bind].
  2:{ exfalso. eapply unparent_object_ok; eauto. }
  assert (T1 : TreeG w1 (oset O cf None) K).
  { eapply (TreeG_unparent w O K r cf (o_parent co) co rs w1); eauto; [rewrite Hl; exact Ec|].
    unfold epar. rewrite (Kw _ _ Eco), (HO c cf (or_introl eq_refl) Ec). reflexivity. }
  pose proof (pframe_unparent _ _ _ _ _ Kw E0) as F1. pose proof (pframe_Base _ _ F1 Bw) as B1.
  destruct (pframe_rs_rev _ _ _ _ F1 Ers) as (rs1 & Ers1 & L1).
  assert (Hnc : ~ In c t) by (inversion ND; assumption). assert (NDt : NoDup t) by (inversion ND; assumption).
  eapply (IH w1 (oset O cf None) K r rs1 B1 T1 Ers1 NDt).
  + intros c' cf' Ic' Ec'. rewrite L1 in Ec'. unfold oset. destruct (cf' =? cf) eqn:Q.
    * apply N.eqb_eq in Q. subst cf'. destruct (W2 _ _ _ _ Ers Ec') as (a & Ea & Hla & _). rewrite Eco in Ea. inversion Ea; subst a. congruence.
    * eapply HO; [right; exact Ic'|exact Ec'].
  + intros c' Ic'. rewrite L1. apply Hidx. right. exact Ic'.
Qed.

(* ---------- untrack_object: the three asserts and the del ---------- *)
Lemma untrack_object_ok : forall w O r x o, Idx w -> TreeG w O None ->
  (forall g, O g = None \/ O g = Some None) -> get_obj w x = Some o -> o_region o = r ->
  untrack_object w r x <> None.
Proof.
  intros w O r x o I T FORM Eo Hr. pose proof I as (Kw & W2 & W3). pose proof (Idx_Base _ I) as Bw.
  destruct (W3 _ _ Eo) as (rs & Ers & _ & Elx). rewrite Hr in Ers. set (l := o_lid o) in *.
  unfold untrack_object. rewrite Eo. cbn [bind]. set (former := map fst (o_children o)) in *.
  assert (ND : NoDup former) by (eapply (tC3 _ _ _ T); eauto).
  assert (CH : forall c, In c former -> exists cf co, aget c (r_local rs) = Some cf /\ get_obj w cf = Some co /\ o_parent co = l /\ l <> 0 /\ O cf = None).
  { intros c Ic. apply in_map_iff in Ic. destruct Ic as ([c' cf] & Hc' & Ic). cbn in Hc'. subst c'.
    destruct (tC1 _ _ _ T _ _ _ _ Eo Ic) as (co & rs0 & A1 & A2 & A3 & A4 & A5 & A6 & A7).
    rewrite Hr, Ers in A5. inversion A5; subst rs0. exists cf, co. destruct A4 as [A4 A4']. unfold epar in A4. rewrite (Kw _ _ A1) in A4.
    destruct (FORM cf) as [F0|F0]; rewrite F0 in A4; [|discriminate]. inversion A4. auto 10. }
  assert (HOc : forall c cf, In c former -> aget c (r_local rs) = Some cf -> O cf = None).
  { intros c cf Ic Ec. destruct (CH c Ic) as (cf' & co & Ec' & _ & _ & _ & HO'). congruence. }
  destruct (unparent_children w r former) as [w1|] eqn:E; cbn [bind].
  2:{ exfalso. eapply (unparent_children_ok former w O None r rs); eauto.
      intros c Ic. destruct (CH c Ic) as (cf & co & Ec & _). congruence. }
  destruct (unparent_children_TreeG former w O None r rs w1 Bw T Ers ND HOc E) as [T1 F1].
  pose proof (pframe_Base _ _ F1 Bw) as B1.
  destruct (pframe_rs_rev _ _ _ _ F1 Ers) as (rs1 & E0 & L1). rewrite E0. cbn [bind].
  set (rs2 := orphan_children rs1 former (o_lid o)) in *. set (w2 := set_rs w1 r rs2) in *.
  destruct (pframe_obj_rev _ _ _ _ F1 Eo) as (o2 & Eo2 & P1 & P2 & P3 & P4).
  change (get_obj w2 x) with (get_obj w1 x). rewrite Eo2. cbn [bind].
  set (fs := fulls rs former) in *.
  assert (Elx1 : aget l (r_local rs1) = Some x) by (rewrite L1; exact Elx).
  assert (Hch2 : o_children o2 = []).
  { destruct (o_children o2) as [|[c cf] tl] eqn:Ech; [reflexivity|]. exfalso.
    assert (Ic : In (c, cf) (o_children o2)) by (rewrite Ech; left; reflexivity).
    destruct (tC1 _ _ _ T1 _ _ _ _ Eo2 Ic) as (co & rsA & A1 & A2 & A3 & A4 & A5 & A6 & A7).
    rewrite P3, Hr, E0 in A5. inversion A5; subst rsA. apply bk_odet in A4. destruct A4 as [M A4].
    destruct (pframe_obj _ _ _ _ F1 A1) as (co0 & Eco0 & Q1 & Q2 & Q3 & Q4).
    assert (B0 : bk O co0 l).
    { destruct A4 as [A4 A4']. rewrite P1 in A4, A4'. split; [|exact A4']. unfold epar in *. rewrite <- Q2, <- Q4. exact A4. }
    rewrite L1 in A6.
    pose proof (tC2 _ _ _ T _ _ _ _ _ _ _ _ Ers A6 Eco0 B0 Elx Eo ltac:(intro Hk; discriminate)) as Ic0.
    assert (Icf : In cf fs) by (apply fulls_In; exists c; split; [apply in_map_iff; exists (c, cf); auto|exact A6]).
    apply mem_In in Icf. destruct B1 as [K1 _]. rewrite (K1 _ _ A1) in M. congruence. }
  rewrite Hch2.
  assert (L2 : r_local rs2 = r_local rs1).
  { pose proof (ridx_orphan_children former rs1 (o_lid o)) as C. apply ridx_inj in C. apply C. }
  assert (B2 : Base w2) by (eapply pframe_Base; [eapply pframe_set_rs; [exact E0|exact L2]|exact B1]).
  assert (Ers2 : get_rs w2 r = Some rs2) by (unfold w2; rewrite get_rs_set_rs, N.eqb_refl; reflexivity).
  assert (Eo22 : get_obj w2 x = Some o2) by exact Eo2.
  destruct (unparent_object w2 r x (o_parent o2)) as [w3|] eqn:E2; cbn [bind].
  2:{ exfalso. eapply unparent_object_ok; eauto. }
  destruct B2 as [K2 W22].
  destruct (unparent_pres _ _ _ _ _ _ _ K2 Eo22 Ers2 E2) as (PF & PB & RF & RB).
  destruct (RB _ _ Ers2) as (rs4 & Ers4 & L4).
  change (get_rs (cancel_futures w3 r (o_lid o2)) r) with (get_rs w3 r). rewrite Ers4. cbn [bind].
  rewrite L4, L2, P1. fold l. rewrite Elx1. discriminate.
Qed.

(* ---------- registered regions stay registered ---------- *)
Definition same_regs (w w' : world) : Prop := forall r0, get_rs w r0 <> None -> get_rs w' r0 <> None.

Lemma same_regs_refl : forall w, same_regs w w.
Proof. intros w r0 H. exact H. Qed.
Lemma same_regs_trans : forall a b c, same_regs a b -> same_regs b c -> same_regs a c.
Proof. intros a b c H1 H2 r0 H. auto. Qed.
Lemma frame_same_regs : forall w w', frame w w' -> same_regs w w'.
Proof.
  intros w w' [_ F] r0 H. specialize (F r0). destruct (get_rs w r0); [|congruence]. destruct (get_rs w' r0); [discriminate|discriminate F].
Qed.

Lemma untrack_same_regs : forall w r f o w', Idx w -> get_obj w f = Some o -> o_region o = r ->
  untrack_object w r f = Some w' -> same_regs w w'.
Proof.
  intros w r f o w' I Eo Hr H. destruct (untrack_IdxX _ _ _ _ _ I Eo Hr H) as (_ & _ & _ & FR).
  intros r0 Hs. specialize (FR r0). destruct (get_rs w r0); [|congruence]. destruct (get_rs w' r0); [discriminate|discriminate FR].
Qed.

Lemma kill_children_same_regs : forall killf r,
  (forall w c w', Idx w -> killf w c = Some w' -> Idx w' /\ same_regs w w') ->
  forall ids w w', Idx w -> kill_children killf r ids w = Some w' -> Idx w' /\ same_regs w w'.
Proof.
  intros killf r HK. induction ids as [|c t IH]; intros w w' I H; simpl in H.
  - inversion H; subst. split; [exact I|apply same_regs_refl].
  - destruct (lookup_local w r c) as [co|].
    + destruct (o_av co); [eauto|]. bind_inv H. destruct (HK _ _ _ I E) as [I1 S1].
      destruct (IH _ _ I1 H) as [I2 S2]. split; [exact I2|eapply same_regs_trans; eauto].
    + bind_inv H. destruct (HK _ _ _ I E) as [I1 S1].
      destruct (IH _ _ I1 H) as [I2 S2]. split; [exact I2|eapply same_regs_trans; eauto].
Qed.

Lemma kill_same_regs : forall n w r l w', Idx w -> kill n w r l = Some w' -> Idx w' /\ same_regs w w'.
Proof.
  induction n as [|n IH]; intros w r l w' I H; [discriminate|].
  destruct (kill_Idx _ _ _ _ _ I H) as [I' _]. split; [exact I'|]. simpl in H.
  bind_inv H. rename r0 into rs.
  assert (F1 : frame w (set_rs w r (with_missing rs (sdel l (r_missing rs))))) by (eapply frame_set_rs; [exact E|reflexivity]).
  set (w1 := set_rs w r (with_missing rs (sdel l (r_missing rs)))) in *.
  pose proof (frame_Idx _ _ F1 I) as I1.
  assert (HK : forall w c w', Idx w -> (fun w c => kill n w r c) w c = Some w' -> Idx w' /\ same_regs w w') by (intros; eapply IH; eauto).
  eapply same_regs_trans; [apply frame_same_regs; exact F1|].
  destruct (lookup_local w1 r l) as [o|] eqn:El.
  - bind_inv H. rename w0 into w2. bind_inv H. rename w0 into w3. inversion H; subst w'; clear H.
    destruct (kill_children_same_regs _ _ HK _ _ _ I1 E0) as [I2 S2].
    destruct (kill_children_Idx _ r (fun w c w' I0 H0 => kill_Idx n w r c w' I0 H0) _ _ _ I1 E0) as [_ Sh].
    destruct (lookup_local_some _ _ _ _ I1 El) as (Eo & Hl & Hr).
    pose proof E1 as E1'. unfold untrack_object in E1'. destruct (get_obj w2 (o_full o)) as [o'|] eqn:Eo'; [|discriminate]. clear E1'.
    destruct (Sh _ _ Eo') as (o0 & Eo0 & C0). rewrite Eo in Eo0. inversion Eo0; subst o0.
    pose proof (core_inj _ _ C0) as (_ & _ & Cr).
    eapply same_regs_trans; [exact S2|]. eapply same_regs_trans; [exact (untrack_same_regs w2 r (o_full o) o' w3 I2 Eo' (eq_trans Cr Hr) E1)|].
    intros r0 Hs. exact Hs.
  - bind_inv H. rename r0 into rs2. destruct (collect_orphans rs2 l) as [ch rs3] eqn:Ec.
    set (w2 := cancel_futures w1 r l) in *.
    assert (F2 : frame w1 (set_rs w2 r (retrack_avatars w2 r l ch rs3))).
    { eapply frame_trans; [apply frame_set_futs|]. eapply frame_set_rs; [exact E0|]. rewrite ridx_retrack.
      change rs3 with (snd (ch, rs3)). rewrite <- Ec. apply ridx_collect. }
    destruct (kill_children_same_regs _ _ HK _ _ _ (frame_Idx _ _ F2 I1) H) as [_ S3].
    eapply same_regs_trans; [apply frame_same_regs; exact F2|exact S3].
Qed.

(* ---------- ranks: parent links form no cycle ---------- *)
(* ht ranks (region, local id) keys; every object ranks strictly below the key of its parent *)
Definition Rk (ht : N -> N -> nat) (w : world) : Prop :=
  forall f o, get_obj w f = Some o -> o_parent o <> 0 -> (ht (o_region o) (o_lid o) < ht (o_region o) (o_parent o))%nat.

Definition acyclic (w : world) : Prop := exists ht, Rk ht w.

Lemma Rk_sub : forall ht w w', sub w w' -> Rk ht w -> Rk ht w'.
Proof.
  intros ht w w' [S1 _] R f o' E Hp. destruct (S1 _ _ E) as (o & Eo & P & _). unfold pcore in P. inversion P as [[P1 P2 P3 P4]].
  rewrite P1, P3, P4. apply (R f o Eo). congruence.
Qed.

(* compressing a ranking: the rank of a key is the number of objects strictly below it *)
Definition below (ht : N -> N -> nat) (r l : N) (kv : N * obj) : bool :=
  Nat.ltb (ht (o_region (snd kv)) (o_lid (snd kv))) (ht r l).
Definition crank (ht : N -> N -> nat) (w : world) (r l : N) : nat := length (filter (below ht r l) (w_full w)).

Lemma filter_length_le' : forall A (P : A -> bool) l, (length (filter P l) <= length l)%nat.
Proof. intros A P l. induction l as [|a t IH]; simpl; [lia|]. destruct (P a); simpl; lia. Qed.

Lemma filter_length_mono : forall A (P Q : A -> bool) l, (forall x, P x = true -> Q x = true) ->
  (length (filter P l) <= length (filter Q l))%nat.
Proof.
  intros A P Q l H. induction l as [|a t IH]; simpl; [lia|].
  destruct (P a) eqn:Pa; [rewrite (H _ Pa); simpl; lia|]. destruct (Q a); simpl; lia.
Qed.

Lemma filter_length_lt : forall A (P Q : A -> bool) l y, (forall x, P x = true -> Q x = true) ->
  In y l -> P y = false -> Q y = true -> (length (filter P l) < length (filter Q l))%nat.
Proof.
  intros A P Q l y H. induction l as [|a t IH]; intros I Py Qy; [destruct I|]. simpl.
  destruct I as [->|I].
  - rewrite Py, Qy. simpl. pose proof (filter_length_mono A P Q t H). lia.
  - specialize (IH I Py Qy). destruct (P a) eqn:Pa; [rewrite (H _ Pa); simpl; lia|]. destruct (Q a); simpl; lia.
Qed.

Lemma aget_In : forall A (m : list (N * A)) k v, aget k m = Some v -> In (k, v) m.
Proof.
  induction m as [|[k' v'] t IH]; intros k v H; simpl in H; [discriminate|].
  destruct (k =? k') eqn:Q; [apply N.eqb_eq in Q; inversion H; subst; left; reflexivity|right; auto].
Qed.

Lemma crank_le : forall ht w r l, (crank ht w r l <= length (w_full w))%nat.
Proof. intros. apply filter_length_le'. Qed.

Lemma crank_Rk : forall ht w, Rk ht w -> Rk (crank ht w) w.
Proof.
  intros ht w R f o Eo Hp. specialize (R f o Eo Hp). unfold crank.
  apply (filter_length_lt _ _ _ _ (f, o)).
  - intros kv Hb. unfold below in *. apply Nat.ltb_lt in Hb. apply Nat.ltb_lt. lia.
  - apply aget_In. exact Eo.
  - unfold below. cbn [snd]. apply Nat.ltb_ge. lia.
  - unfold below. cbn [snd]. apply Nat.ltb_lt. exact R.
Qed.

(* ---------- the kill cascade: fuel above the rank of the killed key suffices ---------- *)
(* the objects of w that are gone in w' were in region r and rank at most b *)
Definition gone_below (ht : N -> N -> nat) (r : N) (b : nat) (w w' : world) : Prop :=
  forall f o, get_obj w f = Some o -> get_obj w' f = None -> o_region o = r /\ (ht r (o_lid o) <= b)%nat.

Definition KOK (killf : world -> N -> option world) (r : N) (n : nat) (ht : N -> N -> nat) : Prop :=
  forall w c D, Idx w -> TreeG w (odet no_ovr D) None -> Rk ht w -> get_rs w r <> None -> (ht r c < n)%nat ->
    exists w', killf w c = Some w' /\ gone_below ht r (ht r c) w w'.
Definition KR (killf : world -> N -> option world) : Prop :=
  forall w c w', Idx w -> killf w c = Some w' -> Idx w' /\ same_regs w w'.

Lemma gone_below_seq : forall ht r b w w1 w', sub w w1 -> gone_below ht r b w w1 -> gone_below ht r b w1 w' ->
  gone_below ht r b w w'.
Proof.
  intros ht r b w w1 w' [S1 _] G1 G2 f o Eo En. destruct (get_obj w1 f) as [o1|] eqn:E1.
  - destruct (S1 _ _ E1) as (o0 & Eo0 & P & _). rewrite Eo in Eo0. inversion Eo0; subst o0.
    unfold pcore in P. injection P as P1 P2 P3 P4. destruct (G2 _ _ E1 En) as [Hr Hb]. rewrite <- P1, <- P3. auto.
  - exact (G1 _ _ Eo E1).
Qed.

Lemma gone_below_le : forall ht r b b' w w', (b <= b')%nat -> gone_below ht r b w w' -> gone_below ht r b' w w'.
Proof. intros ht r b b' w w' H G f o E1 E2. destruct (G _ _ E1 E2) as [A B]. split; [exact A|lia]. Qed.

Lemma kill_children_ok : forall killf r n ht b, KI killf r -> KS killf -> KR killf -> KOK killf r n ht ->
  forall ids w D, Idx w -> TreeG w (odet no_ovr D) None -> Rk ht w -> get_rs w r <> None ->
  (forall c, In c ids -> (ht r c < n)%nat /\ (ht r c <= b)%nat) ->
  exists w', kill_children killf r ids w = Some w' /\ gone_below ht r b w w'.
Proof.
  intros killf r n ht b HKI HKS HKR HOK. induction ids as [|c t IH]; intros w D I T R Hrs Hn; simpl.
  - exists w. split; [reflexivity|]. intros f o E1 E2. congruence.
  - assert (Ht : forall c0, In c0 t -> (ht r c0 < n)%nat /\ (ht r c0 <= b)%nat) by (intros c0 Ic0; apply Hn; right; exact Ic0).
    assert (STEP : exists w', (w1 <- killf w c ;; kill_children killf r t w1) = Some w' /\ gone_below ht r b w w').
    { destruct (Hn c (or_introl eq_refl)) as [Hc1 Hc2].
      destruct (HOK w c D I T R Hrs Hc1) as (w1 & E & G1). rewrite E. cbn [bind].
      destruct (HKI _ _ _ _ I T E) as [T1 _]. destruct (HKS _ _ _ I E) as [I1 S1]. destruct (HKR _ _ _ I E) as [_ SR1].
      destruct (IH w1 D I1 T1 (Rk_sub _ _ _ S1 R) (SR1 _ Hrs) Ht) as (w' & E' & G2).
      exists w'. split; [exact E'|]. eapply gone_below_seq; [exact S1| |exact G2]. eapply gone_below_le; [exact Hc2|exact G1]. }
    destruct (lookup_local w r c) as [co|]; [|exact STEP].
    destruct (o_av co); [|exact STEP]. apply (IH w D I T R Hrs Ht).
Qed.

Lemma kill_ok : forall ht n r, KOK (fun w c => kill n w r c) r n ht.
Proof.
  intros ht. induction n as [|n IHn]; intros r w l D I T R Hrs Hn; [lia|]. simpl.
  assert (HKS : KS (fun w c => kill n w r c)) by (intros w0 c w0' I0 H0; eapply kill_sub; eauto).
  assert (HKR : KR (fun w c => kill n w r c)) by (intros w0 c w0' I0 H0; eapply kill_same_regs; eauto).
  pose proof (kill_KI n r) as HKI. specialize (IHn r).
  destruct (get_rs w r) as [rs|] eqn:E; [|congruence]. cbn [bind].
  set (rs1 := with_missing rs (sdel l (r_missing rs))) in *. set (w1 := set_rs w r rs1) in *.
  assert (F1 : frame w w1) by (eapply frame_set_rs; [exact E|reflexivity]).
  assert (TF1 : tframe w w1) by (eapply tframe_set_rs; [exact E|reflexivity]).
  pose proof (frame_Idx _ _ F1 I) as I1. pose proof (tframe_TreeG _ _ _ _ TF1 T) as T1.
  assert (Ers1 : get_rs w1 r = Some rs1) by (unfold w1; rewrite get_rs_set_rs, N.eqb_refl; reflexivity).
  assert (R1 : Rk ht w1) by exact R.
  assert (Hrs1 : get_rs w1 r <> None) by congruence.
  set (O := odet no_ovr D) in *.
  destruct (lookup_local w1 r l) as [o|] eqn:El.
  - (* a tracked object *)
    destruct (lookup_local_some _ _ _ _ I1 El) as (Eo & Hl & Hr).
    assert (RANK : forall c, In c (rev (map fst (o_children o))) -> (ht r c < n)%nat /\ (ht r c <= ht r l - 1)%nat).
    { intros c Ic. apply in_rev in Ic. apply in_map_iff in Ic. destruct Ic as ([c' cf] & Hc' & Ic). cbn in Hc'; subst c'.
      destruct (tC1 _ _ _ T1 _ _ _ _ Eo Ic) as (co & rs0 & A1 & A2 & A3 & A4 & _).
      apply bk_odet in A4. destruct A4 as [_ [A4 A4']]. unfold epar, no_ovr in A4. inversion A4 as [A4p].
      pose proof (R1 _ _ A1 ltac:(rewrite A4p; exact A4')) as Rc. rewrite A3, Hr, A2, A4p, Hl in Rc. lia. }
    destruct (kill_children_ok _ r n ht (ht r l - 1)%nat HKI HKS HKR IHn _ w1 D I1 T1 R1 Hrs1 RANK) as (w2 & E0 & G2).
    rewrite E0. cbn [bind].
    destruct (kill_children_KI _ _ HKI HKS _ _ _ D I1 T1 E0) as (T2 & I2 & S2 & _).
    assert (Eo' : exists o', get_obj w2 (o_full o) = Some o').
    { destruct (get_obj w2 (o_full o)) as [o'|] eqn:Eo'; [eauto|]. exfalso.
      destruct (G2 _ _ Eo Eo') as [_ Hb]. rewrite Hl in Hb.
      destruct (o_children o) as [|[c cf] tl] eqn:Ech.
      - simpl in E0. inversion E0; subst w2. congruence.
      - destruct (RANK c) as [_ Hc]; [apply in_rev; rewrite rev_involutive; left; reflexivity|]. lia. }
    destruct Eo' as (o' & Eo').
    destruct S2 as [S21 S22]. destruct (S21 _ _ Eo') as (o0 & Eo0 & P0 & _). rewrite Eo in Eo0. inversion Eo0; subst o0.
    assert (Hr' : o_region o' = r) by (unfold pcore in P0; congruence).
    destruct (untrack_object w2 r (o_full o)) as [w3|] eqn:E1; cbn [bind].
    2:{ exfalso. eapply (untrack_object_ok w2 O r (o_full o) o'); eauto. apply odet_form. }
    eexists. split; [reflexivity|].
    destruct (untrack_IdxX _ _ _ _ _ I2 Eo' Hr' E1) as (_ & _ & FO & _).
    intros f a Ea En. change (get_obj w f) with (get_obj w1 f) in Ea.
    destruct (get_obj w2 f) as [a2|] eqn:Ea2.
    + rewrite get_obj_del_obj in En. destruct (f =? o_full o) eqn:Q.
      * apply N.eqb_eq in Q. subst f. rewrite Eo in Ea. inversion Ea; subst a. split; [exact Hr|]. rewrite Hl. lia.
      * specialize (FO f). rewrite Ea2, En in FO. discriminate.
    + destruct (G2 _ _ Ea Ea2) as [Gr Gb]. split; [exact Gr|]. lia.
  - (* an unknown local id: its orphans die, except avatars *)
    assert (LL : lookup_local w1 r l = lookup_local w r l).
    { unfold lookup_local. rewrite Ers1, E. reflexivity. }
    assert (Hnone : aget l (r_local rs1) = None).
    { unfold lookup_local in El. rewrite Ers1 in El. destruct (aget l (r_local rs1)) as [f|] eqn:Ef; [|reflexivity].
      destruct I1 as (_ & A1 & _). destruct (A1 _ _ _ _ Ers1 Ef) as (a & Ea & _). congruence. }
    set (w2 := cancel_futures w1 r l) in *.
    assert (T2 : TreeG w2 O None) by (eapply TreeG_wext; [| |exact T1]; reflexivity).
    assert (I2 : Idx w2) by (eapply frame_Idx; [apply frame_set_futs|exact I1]).
    pose proof (Idx_Base _ I2) as B2. pose proof B2 as [K2 W22].
    change (get_rs w2 r) with (get_rs w1 r). rewrite Ers1. cbn [bind].
    assert (E0 : get_rs w2 r = Some rs1) by exact Ers1.
    destruct (collect_orphans rs1 l) as [ch rs3] eqn:Ec.
    destruct (collect_spec _ _ _ _ Ec) as (CL & CO & CLs).
    pose proof (TreeG_collect_unknown _ _ _ _ _ _ _ B2 T2 E0 Hnone Ec) as TC.
    set (fs := fulls rs1 ch) in *.
    rewrite retrack_eq. set (avs := filter (isav w2 r) ch) in *.
    set (nvs := filter (fun c => negb (isav w2 r c)) ch).
    assert (MEM : forall c, In c ch -> exists cf co, aget c (r_local rs1) = Some cf /\ get_obj w2 cf = Some co /\ o_parent co = l /\ l <> 0 /\ mem cf D = false).
    { intros c Ic. destruct (aget l (r_orphans rs1)) as [ls0|] eqn:El0; [|subst ch; destruct Ic]. subst ch.
      destruct (tO1 _ _ _ T2 _ _ _ _ _ E0 El0 Ic) as (A1 & _ & cf & co & A3 & A4 & A5).
      exists cf, co. split; [exact A3|]. split; [exact A4|]. destruct A5 as [A5 _]. unfold epar, O, odet, no_ovr in A5. rewrite (K2 _ _ A4) in A5.
      destruct (mem cf D) eqn:MD; [discriminate|]. injection A5 as Hp. split; [exact Hp|]. split; [exact A1|reflexivity]. }
    assert (NDch : NoDup ch).
    { destruct (aget l (r_orphans rs1)) as [ls0|] eqn:El0; [|subst ch; constructor]. subst ch. eapply (tO3 _ _ _ T2); eauto. }
    set (W := set_rs w2 r rs3) in *.
    assert (BW : Base W) by (eapply pframe_Base; [eapply pframe_set_rs; [exact E0|exact CL]|exact B2]).
    assert (ErsW : get_rs W r = Some rs3) by (unfold W; rewrite get_rs_set_rs, N.eqb_refl; reflexivity).
    assert (TR : TreeG (set_rs W r (orphan_children rs3 avs l)) (oatt (odet O fs) (fulls rs3 avs) l) None).
    { apply orphan_children_TreeG; auto.
      - apply NoDup_filter. exact NDch.
      - intros Hne. destruct avs as [|c t] eqn:Ea; [congruence|].
        assert (Ic : In c ch). { assert (In c (c :: t)) by (left; reflexivity). rewrite <- Ea in H. apply filter_In in H. tauto. }
        destruct (MEM c Ic) as (_ & _ & _ & _ & _ & Hl0 & _). exact Hl0.
      - left. rewrite CL. exact Hnone.
      - intros c Ic. apply filter_In in Ic. destruct Ic as [Ic _]. destruct (MEM c Ic) as (cf & co & Ec' & Eco & _).
        exists cf, co. rewrite CL. split; [exact Ec'|]. split; [exact Eco|]. unfold odet at 1.
        assert (M : mem cf fs = true) by (apply mem_In; apply fulls_In; eauto). rewrite M. reflexivity. }
    apply set_rs_twice in TR. set (w3 := set_rs w2 r (orphan_children rs3 avs l)) in *.
    rewrite (fulls_local rs1 rs3 avs CL) in TR.
    assert (GO3 : forall g, get_obj w3 g = get_obj w2 g) by reflexivity.
    assert (T3 : TreeG w3 (odet no_ovr (D ++ fulls rs1 nvs)) None).
    { eapply TreeG_bk_equiv; [|exact TR]. intros g a Eg p. rewrite GO3 in Eg. pose proof (K2 _ _ Eg) as Kg.
      assert (R1' : odet O fs g = if mem g fs then Some None else (if mem g D then Some None else None)) by reflexivity.
      assert (R2 : odet no_ovr (D ++ fulls rs1 nvs) g = if mem g D || mem g (fulls rs1 nvs) then Some None else None)
        by (unfold odet, no_ovr; rewrite mem_app; reflexivity).
      assert (EQ : match oatt (odet O fs) (fulls rs1 avs) l g with Some x => x | None => Some (o_parent a) end =
                   match odet no_ovr (D ++ fulls rs1 nvs) g with Some x => x | None => Some (o_parent a) end).
      { unfold oatt. rewrite R1', R2. destruct (mem g (fulls rs1 avs)) eqn:Ma.
        - apply mem_In in Ma. apply fulls_In in Ma. destruct Ma as (c & Ic & Ec'). apply filter_In in Ic. destruct Ic as [Ic Hv].
          destruct (MEM c Ic) as (cf & co & Ec'' & Eco & Hp & Hl0 & HD). rewrite Ec' in Ec''. inversion Ec''; subst cf.
          rewrite Eg in Eco. inversion Eco; subst co. rewrite HD. cbn [orb].
          assert (Mn : mem g (fulls rs1 nvs) = false).
          { apply mem_false. intro Hi. apply fulls_In in Hi. destruct Hi as (c' & Ic' & Ec3). apply filter_In in Ic'. destruct Ic' as [_ Hv'].
            destruct (W22 _ _ _ _ E0 Ec') as (a1 & Ea1 & Hl1 & _). destruct (W22 _ _ _ _ E0 Ec3) as (a2 & Ea2 & Hl2 & _).
            assert (Hcc : c = c') by congruence. rewrite <- Hcc in Hv'. rewrite Hv in Hv'. discriminate. }
          rewrite Mn. congruence.
        - destruct (mem g fs) eqn:Mf.
          + apply mem_In in Mf. apply (fulls_partition rs1 (isav w2 r) ch g) in Mf. destruct Mf as [Mf|Mf].
            * apply mem_In in Mf. fold avs in Mf. congruence.
            * apply mem_In in Mf. fold nvs in Mf. rewrite Mf, orb_true_r. reflexivity.
          + assert (Mn : mem g (fulls rs1 nvs) = false).
            { apply mem_false. intro Hi. apply mem_false in Mf. apply Mf. apply (fulls_partition rs1 (isav w2 r) ch g). right. exact Hi. }
            rewrite Mn, orb_false_r. reflexivity. }
      unfold bk, epar. rewrite Kg, EQ. reflexivity. }
    assert (I3 : Idx w3).
    { eapply frame_Idx; [|exact I2]. eapply frame_set_rs; [exact E0|]. rewrite ridx_orphan_children.
      change rs3 with (snd (ch, rs3)). rewrite <- Ec. apply ridx_collect. }
    assert (R3 : Rk ht w3) by exact R.
    assert (Hrs3 : get_rs w3 r <> None) by (unfold w3; rewrite get_rs_set_rs, N.eqb_refl; discriminate).
    assert (RANK : forall c, In c (rev ch) -> (ht r c < n)%nat /\ (ht r c <= ht r l)%nat).
    { intros c Ic. apply in_rev in Ic. destruct (MEM c Ic) as (cf & co & Ec' & Eco & Hp & Hl0 & _).
      destruct (W22 _ _ _ _ E0 Ec') as (co' & Eco' & Hlc & Hrc). rewrite Eco in Eco'. inversion Eco'; subst co'.
      pose proof (R _ _ Eco ltac:(rewrite Hp; exact Hl0)) as Rc. rewrite Hrc, Hlc, Hp in Rc. lia. }
    destruct (kill_children_ok _ r n ht (ht r l) HKI HKS HKR IHn _ w3 _ I3 T3 R3 Hrs3 RANK) as (w' & E' & G').
    exists w'. split; [exact E'|]. exact G'.
Qed.
