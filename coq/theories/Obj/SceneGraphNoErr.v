(* C14 - no handler of the scene-graph model raises: under the invariant (Idx, Tree), the input assumptions of the
   statement and acyclic parent links, every step returns Some (incl.: the fuel of the kill cascade suffices). *)
From Coq Require Import NArith PeanoNat List Bool Lia.
From HV Require Import Obj.SceneGraph Obj.SceneGraphProofs Obj.SceneGraphTree Obj.SceneGraphKill.
Import ListNotations.
Open Scope N_scope.

(* ---------- the primitives ---------- *)
(* assert obj.LocalID not in parent.ChildIDs: a detached object is in no children list *)
Lemma parent_object_ok : forall w O K r f h o rs, Base w -> TreeG w O K ->
  get_obj w f = Some o -> o_region o = r -> get_rs w r = Some rs -> aget (o_lid o) (r_local rs) = Some f ->
  O f = Some None -> parent_object w r f h <> None.
Proof.
  intros w O K r f h o rs [Kw W2] T Eo Hr Ers Eidx HO. unfold parent_object. rewrite Eo, Ers. cbn [bind].
  destruct (o_parent o =? 0); [discriminate|].
  destruct (aget (o_parent o) (r_local rs)) as [pf|] eqn:Ep; [|discriminate].
  destruct (W2 _ _ _ _ Ers Ep) as (po & Epo & Hlp & Hrp). rewrite Epo. cbn [bind].
  destruct (mem (o_lid o) (map fst (o_children po))) eqn:M.
  - exfalso. apply mem_In in M. apply in_map_iff in M. destruct M as ([c cf] & Hc & Ic). cbn in Hc. subst c.
    destruct (tC1 _ _ _ T _ _ _ _ Epo Ic) as (co & rs0 & A1 & A2 & A3 & A4 & A5 & A6 & A7).
    rewrite Hrp, Ers in A5. inversion A5; subst rs0. rewrite Eidx in A6. inversion A6; subst cf. rewrite Eo in A1. inversion A1; subst co.
    destruct A4 as [A4 _]. unfold epar in A4. rewrite (Kw _ _ Eo), HO in A4. discriminate.
  - rewrite get_obj_set_obj. cbn [o_full with_children]. destruct (f =? o_full po); cbn [bind]; [discriminate|].
    rewrite Eo. cbn [bind]. discriminate.
Qed.

Lemma unparent_object_ok : forall w r f q o rs, Base w -> get_obj w f = Some o -> get_rs w r = Some rs ->
  unparent_object w r f q <> None.
Proof.
  intros w r f q o rs [Kw W2] Eo Ers. unfold unparent_object. rewrite Eo, Ers. cbn [bind].
  destruct (q =? 0); [discriminate|].
  destruct (aget q (r_local rs)) as [pf|] eqn:Ep; [|discriminate].
  destruct (W2 _ _ _ _ Ers Ep) as (po & Epo & _).
  rewrite get_obj_set_rs, get_obj_set_obj. cbn [o_full with_plink].
  destruct (pf =? o_full o).
  - destruct (mem (o_lid o) (map fst (o_children (with_plink o None)))); discriminate.
  - rewrite Epo. destruct (mem (o_lid o) (map fst (o_children po))); discriminate.
Qed.

Ltac some_or_absurd E := match goal with |- (bind ?x _) <> None => destruct x eqn:E; cbn [bind] end.

(* ---------- the adoption loop: assert child_obj is not None ---------- *)
Lemma adopt_ok : forall ls w O r rs, Base w -> TreeG w (odet O (fulls rs ls)) None -> get_rs w r = Some rs ->
  NoDup ls -> (forall c cf, In c ls -> aget c (r_local rs) = Some cf -> O cf = None) ->
  (forall c, In c ls -> aget c (r_local rs) <> None) ->
  adopt w r ls <> None.
Proof.
  induction ls as [|c t IH]; intros w O r rs Bw T Ers ND HO Hidx; simpl; [discriminate|].
  rewrite Ers. cbn [bind]. destruct (aget c (r_local rs)) as [cf|] eqn:Ec; [|exfalso; eapply Hidx; [left; reflexivity|exact Ec]].
  destruct Bw as [Kw W2]. destruct (W2 _ _ _ _ Ers Ec) as (co & Eco & Hl & Hr).
  assert (Hfs : fulls rs (c :: t) = cf :: fulls rs t).
  { unfold fulls. simpl. rewrite Ec. reflexivity. }
  rewrite Hfs in T.
  assert (HOcf : odet O (cf :: fulls rs t) cf = Some None) by (unfold odet; cbn; rewrite N.eqb_refl; reflexivity).
  destruct (parent_object w r cf false) as [w1|] eqn:E; cbn [bind].
  2:{ exfalso. eapply (parent_object_ok w _ None r cf false co rs); [split; assumption|exact T|exact Eco|exact Hr|exact Ers|rewrite Hl; exact Ec|exact HOcf|exact E]. }
  assert (T1 : TreeG w1 (oset (odet O (cf :: fulls rs t)) cf (Some (o_parent co))) None).
  { eapply (TreeG_parent w _ None r cf false co rs w1); [split; assumption|exact T|exact Eco|exact Hr|exact Ers|rewrite Hl; exact Ec|exact HOcf|intros _ Hk; discriminate|exact E]. }
  destruct (parent_pres _ _ _ _ _ _ _ Kw Eco Ers E) as [PO PR].
  pose proof (frame_parent_object _ _ _ _ _ Kw E) as F1.
  assert (B1 : Base w1) by (eapply frame_Base; [exact F1|split; assumption]).
  destruct (frame_rs_rev _ _ _ _ F1 Ers) as (rs1 & Ers1 & C1). apply ridx_inj in C1. destruct C1 as [_ C1].
  assert (Hnc : ~ In c t) by (inversion ND; assumption). assert (NDt : NoDup t) by (inversion ND; assumption).
  assert (Hcf : ~ In cf (fulls rs t)).
  { intro Hi. apply fulls_In in Hi. destruct Hi as (c' & Ic' & Ec'). destruct (W2 _ _ _ _ Ers Ec') as (a & Ea & Hla & _).
    rewrite Eco in Ea. inversion Ea; subst a. congruence. }
  eapply (IH w1 O r rs1); [exact B1| |exact Ers1|exact NDt| |].
  + rewrite (fulls_local rs rs1 t (eq_sym C1)). eapply TreeG_bk_equiv; [|exact T1].
    intros g a Eg p. destruct (PO _ _ Eg) as (a0 & Ea0 & L1 & L2 & L3 & L4 & _).
    destruct B1 as [Kw1 _]. pose proof (Kw1 _ _ Eg) as Kg.
    destruct (N.eq_dec g cf) as [->|Hne].
    * rewrite bk_oset_some by exact Kg. rewrite bk_odet. rewrite Kg.
      assert (M : mem cf (fulls rs t) = false) by (apply mem_false; exact Hcf). rewrite M.
      rewrite Eco in Ea0. inversion Ea0; subst a0.
      unfold bk, epar. rewrite Kg, (HO c cf (or_introl eq_refl) Ec). rewrite L4. split.
      { intros [X Y]. split; [reflexivity|]. split; congruence. }
      { intros [_ [X Y]]. split; congruence. }
    * rewrite bk_oset_other by (rewrite Kg; exact Hne). rewrite !bk_odet. rewrite Kg. cbn [mem existsb].
      apply N.eqb_neq in Hne. rewrite Hne. cbn [orb]. reflexivity.
  + intros c' cf' Ic' Ec'. rewrite <- C1 in Ec'. eapply HO; [right; exact Ic'|exact Ec'].
  + intros c' Ic'. rewrite <- C1. apply Hidx. right. exact Ic'.
Qed.

(* ---------- first loop of untrack_object: assert child_obj is not None ---------- *)
Lemma unparent_children_ok : forall ids w O K r rs, Base w -> TreeG w O K -> get_rs w r = Some rs -> NoDup ids ->
  (forall c cf, In c ids -> aget c (r_local rs) = Some cf -> O cf = None) ->
  (forall c, In c ids -> aget c (r_local rs) <> None) ->
  unparent_children w r ids <> None.
Proof.
  induction ids as [|c t IH]; intros w O K r rs Bw T Ers ND HO Hidx; simpl; [discriminate|].
  rewrite Ers. cbn [bind]. destruct (aget c (r_local rs)) as [cf|] eqn:Ec; [|exfalso; eapply Hidx; [left; reflexivity|exact Ec]].
  pose proof Bw as [Kw W2]. destruct (W2 _ _ _ _ Ers Ec) as (co & Eco & Hl & Hr). rewrite Eco. cbn [bind].
  destruct (unparent_object w r cf (o_parent co)) as [w1|] eqn:E0; cbn [bind].
  2:{ exfalso. eapply unparent_object_ok; eauto. }
  assert (T1 : TreeG w1 (oset O cf None) K).
  { eapply (TreeG_unparent w O K r cf (o_parent co) co rs w1); eauto; [rewrite Hl; exact Ec|].
    unfold epar. rewrite (Kw _ _ Eco), (HO c cf (or_introl eq_refl) Ec). reflexivity. }
  pose proof (pframe_unparent _ _ _ _ _ Kw E0) as F1. pose proof (pframe_Base _ _ F1 Bw) as B1.
  destruct (pframe_rs_rev _ _ _ _ F1 Ers) as (rs1 & Ers1 & L1).
  assert (Hnc : ~ In c t) by (inversion ND; assumption). assert (NDt : NoDup t) by (inversion ND; assumption).
  eapply (IH w1 (oset O cf None) K r rs1 B1 T1 Ers1 NDt).
  + intros c' cf' Ic' Ec'. rewrite L1 in Ec'. unfold oset. destruct (cf' =? cf) eqn:Q.
    * apply N.eqb_eq in Q. subst cf'. destruct (W2 _ _ _ _ Ers Ec') as (a & Ea & Hla & _). rewrite Eco in Ea. inversion Ea; subst a. congruence.
    * eapply HO; [right; exact Ic'|exact Ec'].
  + intros c' Ic'. rewrite L1. apply Hidx. right. exact Ic'.
Qed.

(* ---------- untrack_object: the three asserts and the del ---------- *)
Lemma untrack_object_ok : forall w O r x o, Idx w -> TreeG w O None ->
  (forall g, O g = None \/ O g = Some None) -> get_obj w x = Some o -> o_region o = r ->
  untrack_object w r x <> None.
Proof.
  intros w O r x o I T FORM Eo Hr. pose proof I as (Kw & W2 & W3). pose proof (Idx_Base _ I) as Bw.
  destruct (W3 _ _ Eo) as (rs & Ers & _ & Elx). rewrite Hr in Ers. set (l := o_lid o) in *.
  unfold untrack_object. rewrite Eo. cbn [bind]. set (former := map fst (o_children o)) in *.
  assert (ND : NoDup former) by (eapply (tC3 _ _ _ T); eauto).
  assert (CH : forall c, In c former -> exists cf co, aget c (r_local rs) = Some cf /\ get_obj w cf = Some co /\ o_parent co = l /\ l <> 0 /\ O cf = None).
  { intros c Ic. apply in_map_iff in Ic. destruct Ic as ([c' cf] & Hc' & Ic). cbn in Hc'. subst c'.
    destruct (tC1 _ _ _ T _ _ _ _ Eo Ic) as (co & rs0 & A1 & A2 & A3 & A4 & A5 & A6 & A7).
    rewrite Hr, Ers in A5. inversion A5; subst rs0. exists cf, co. destruct A4 as [A4 A4']. unfold epar in A4. rewrite (Kw _ _ A1) in A4.
    destruct (FORM cf) as [F0|F0]; rewrite F0 in A4; [|discriminate]. inversion A4. auto 10. }
  assert (HOc : forall c cf, In c former -> aget c (r_local rs) = Some cf -> O cf = None).
  { intros c cf Ic Ec. destruct (CH c Ic) as (cf' & co & Ec' & _ & _ & _ & HO'). congruence. }
  destruct (unparent_children w r former) as [w1|] eqn:E; cbn [bind].
  2:{ exfalso. eapply (unparent_children_ok former w O None r rs); eauto.
      intros c Ic. destruct (CH c Ic) as (cf & co & Ec & _). congruence. }
  destruct (unparent_children_TreeG former w O None r rs w1 Bw T Ers ND HOc E) as [T1 F1].
  pose proof (pframe_Base _ _ F1 Bw) as B1.
  destruct (pframe_rs_rev _ _ _ _ F1 Ers) as (rs1 & E0 & L1). rewrite E0. cbn [bind].
  set (rs2 := orphan_children rs1 former (o_lid o)) in *. set (w2 := set_rs w1 r rs2) in *.
  destruct (pframe_obj_rev _ _ _ _ F1 Eo) as (o2 & Eo2 & P1 & P2 & P3 & P4).
  change (get_obj w2 x) with (get_obj w1 x). rewrite Eo2. cbn [bind].
  set (fs := fulls rs former) in *.
  assert (Elx1 : aget l (r_local rs1) = Some x) by (rewrite L1; exact Elx).
  assert (Hch2 : o_children o2 = []).
  { destruct (o_children o2) as [|[c cf] tl] eqn:Ech; [reflexivity|]. exfalso.
    assert (Ic : In (c, cf) (o_children o2)) by (rewrite Ech; left; reflexivity).
    destruct (tC1 _ _ _ T1 _ _ _ _ Eo2 Ic) as (co & rsA & A1 & A2 & A3 & A4 & A5 & A6 & A7).
    rewrite P3, Hr, E0 in A5. inversion A5; subst rsA. apply bk_odet in A4. destruct A4 as [M A4].
    destruct (pframe_obj _ _ _ _ F1 A1) as (co0 & Eco0 & Q1 & Q2 & Q3 & Q4).
    assert (B0 : bk O co0 l).
    { destruct A4 as [A4 A4']. rewrite P1 in A4, A4'. split; [|exact A4']. unfold epar in *. rewrite <- Q2, <- Q4. exact A4. }
    rewrite L1 in A6.
    pose proof (tC2 _ _ _ T _ _ _ _ _ _ _ _ Ers A6 Eco0 B0 Elx Eo ltac:(intro Hk; discriminate)) as Ic0.
    assert (Icf : In cf fs) by (apply fulls_In; exists c; split; [apply in_map_iff; exists (c, cf); auto|exact A6]).
    apply mem_In in Icf. destruct B1 as [K1 _]. rewrite (K1 _ _ A1) in M. congruence. }
  rewrite Hch2.
  assert (L2 : r_local rs2 = r_local rs1).
  { pose proof (ridx_orphan_children former rs1 (o_lid o)) as C. apply ridx_inj in C. apply C. }
  assert (B2 : Base w2) by (eapply pframe_Base; [eapply pframe_set_rs; [exact E0|exact L2]|exact B1]).
  assert (Ers2 : get_rs w2 r = Some rs2) by (unfold w2; rewrite get_rs_set_rs, N.eqb_refl; reflexivity).
  assert (Eo22 : get_obj w2 x = Some o2) by exact Eo2.
  destruct (unparent_object w2 r x (o_parent o2)) as [w3|] eqn:E2; cbn [bind].
  2:{ exfalso. eapply unparent_object_ok; eauto. }
  destruct B2 as [K2 W22].
  destruct (unparent_pres _ _ _ _ _ _ _ K2 Eo22 Ers2 E2) as (PF & PB & RF & RB).
  destruct (RB _ _ Ers2) as (rs4 & Ers4 & L4).
  change (get_rs (cancel_futures w3 r (o_lid o2)) r) with (get_rs w3 r). rewrite Ers4. cbn [bind].
  rewrite L4, L2, P1. fold l. rewrite Elx1. discriminate.
Qed.

(* ---------- registered regions stay registered ---------- *)
Definition same_regs (w w' : world) : Prop := forall r0, get_rs w r0 <> None -> get_rs w' r0 <> None.

Lemma same_regs_refl : forall w, same_regs w w.
Proof. intros w r0 H. exact H. Qed.
Lemma same_regs_trans : forall a b c, same_regs a b -> same_regs b c -> same_regs a c.
Proof. intros a b c H1 H2 r0 H. auto. Qed.
Lemma frame_same_regs : forall w w', frame w w' -> same_regs w w'.
Proof.
  intros w w' [_ F] r0 H. specialize (F r0). destruct (get_rs w r0); [|congruence]. destruct (get_rs w' r0); [discriminate|discriminate F].
Qed.

Lemma untrack_same_regs : forall w r f o w', Idx w -> get_obj w f = Some o -> o_region o = r ->
  untrack_object w r f = Some w' -> same_regs w w'.
Proof.
  intros w r f o w' I Eo Hr H. destruct (untrack_IdxX _ _ _ _ _ I Eo Hr H) as (_ & _ & _ & FR).
  intros r0 Hs. specialize (FR r0). destruct (get_rs w r0); [|congruence]. destruct (get_rs w' r0); [discriminate|discriminate FR].
Qed.

Lemma kill_children_same_regs : forall killf r,
  (forall w c w', Idx w -> killf w c = Some w' -> Idx w' /\ same_regs w w') ->
  forall ids w w', Idx w -> kill_children killf r ids w = Some w' -> Idx w' /\ same_regs w w'.
Proof.
  intros killf r HK. induction ids as [|c t IH]; intros w w' I H; simpl in H.
  - inversion H; subst. split; [exact I|apply same_regs_refl].
  - destruct (lookup_local w r c) as [co|].
    + destruct (o_av co); [eauto|]. bind_inv H. destruct (HK _ _ _ I E) as [I1 S1].
      destruct (IH _ _ I1 H) as [I2 S2]. split; [exact I2|eapply same_regs_trans; eauto].
    + bind_inv H. destruct (HK _ _ _ I E) as [I1 S1].
      destruct (IH _ _ I1 H) as [I2 S2]. split; [exact I2|eapply same_regs_trans; eauto].
Qed.

Lemma kill_same_regs : forall n w r l w', Idx w -> kill n w r l = Some w' -> Idx w' /\ same_regs w w'.
Proof.
  induction n as [|n IH]; intros w r l w' I H; [discriminate|].
  destruct (kill_Idx _ _ _ _ _ I H) as [I' _]. split; [exact I'|]. simpl in H.
  bind_inv H. rename r0 into rs.
  assert (F1 : frame w (set_rs w r (with_missing rs (sdel l (r_missing rs))))) by (eapply frame_set_rs; [exact E|reflexivity]).
  set (w1 := set_rs w r (with_missing rs (sdel l (r_missing rs)))) in *.
  pose proof (frame_Idx _ _ F1 I) as I1.
  assert (HK : forall w c w', Idx w -> (fun w c => kill n w r c) w c = Some w' -> Idx w' /\ same_regs w w') by (intros; eapply IH; eauto).
  eapply same_regs_trans; [apply frame_same_regs; exact F1|].
  destruct (lookup_local w1 r l) as [o|] eqn:El.
  - bind_inv H. rename w0 into w2. bind_inv H. rename w0 into w3. inversion H; subst w'; clear H.
    destruct (kill_children_same_regs _ _ HK _ _ _ I1 E0) as [I2 S2].
    destruct (kill_children_Idx _ r (fun w c w' I0 H0 => kill_Idx n w r c w' I0 H0) _ _ _ I1 E0) as [_ Sh].
    destruct (lookup_local_some _ _ _ _ I1 El) as (Eo & Hl & Hr).
    pose proof E1 as E1'. unfold untrack_object in E1'. destruct (get_obj w2 (o_full o)) as [o'|] eqn:Eo'; [|discriminate]. clear E1'.
    destruct (Sh _ _ Eo') as (o0 & Eo0 & C0). rewrite Eo in Eo0. inversion Eo0; subst o0.
    pose proof (core_inj _ _ C0) as (_ & _ & Cr).
    eapply same_regs_trans; [exact S2|]. eapply same_regs_trans; [exact (untrack_same_regs w2 r (o_full o) o' w3 I2 Eo' (eq_trans Cr Hr) E1)|].
    intros r0 Hs. exact Hs.
  - bind_inv H. rename r0 into rs2. destruct (collect_orphans rs2 l) as [ch rs3] eqn:Ec.
    set (w2 := cancel_futures w1 r l) in *.
    assert (F2 : frame w1 (set_rs w2 r (retrack_avatars w2 r l ch rs3))).
    { eapply frame_trans; [apply frame_set_futs|]. eapply frame_set_rs; [exact E0|]. rewrite ridx_retrack.
      change rs3 with (snd (ch, rs3)). rewrite <- Ec. apply ridx_collect. }
    destruct (kill_children_same_regs _ _ HK _ _ _ (frame_Idx _ _ F2 I1) H) as [_ S3].
    eapply same_regs_trans; [apply frame_same_regs; exact F2|exact S3].
Qed.

(* ---------- ranks: parent links form no cycle ---------- *)
(* ht ranks (region, local id) keys; every object ranks strictly below the key of its parent *)
Definition Rk (ht : N -> N -> nat) (w : world) : Prop :=
  forall f o, get_obj w f = Some o -> o_parent o <> 0 -> (ht (o_region o) (o_lid o) < ht (o_region o) (o_parent o))%nat.

Definition acyclic (w : world) : Prop := exists ht, Rk ht w.

Lemma Rk_sub : forall ht w w', sub w w' -> Rk ht w -> Rk ht w'.
Proof.
  intros ht w w' [S1 _] R f o' E Hp. destruct (S1 _ _ E) as (o & Eo & P & _). unfold pcore in P. inversion P as [[P1 P2 P3 P4]].
  rewrite P1, P3, P4. apply (R f o Eo). congruence.
Qed.

(* compressing a ranking: the rank of a key is the number of objects strictly below it *)
Definition below (ht : N -> N -> nat) (r l : N) (kv : N * obj) : bool :=
  Nat.ltb (ht (o_region (snd kv)) (o_lid (snd kv))) (ht r l).
Definition crank (ht : N -> N -> nat) (w : world) (r l : N) : nat := length (filter (below ht r l) (w_full w)).

Lemma filter_length_le' : forall A (P : A -> bool) l, (length (filter P l) <= length l)%nat.
Proof. intros A P l. induction l as [|a t IH]; simpl; [lia|]. destruct (P a); simpl; lia. Qed.

Lemma filter_length_mono : forall A (P Q : A -> bool) l, (forall x, P x = true -> Q x = true) ->
  (length (filter P l) <= length (filter Q l))%nat.
Proof.
  intros A P Q l H. induction l as [|a t IH]; simpl; [lia|].
  destruct (P a) eqn:Pa; [rewrite (H _ Pa); simpl; lia|]. destruct (Q a); simpl; lia.
Qed.

Lemma filter_length_lt : forall A (P Q : A -> bool) l y, (forall x, P x = true -> Q x = true) ->
  In y l -> P y = false -> Q y = true -> (length (filter P l) < length (filter Q l))%nat.
Proof.
  intros A P Q l y H. induction l as [|a t IH]; intros I Py Qy; [destruct I|]. simpl.
  destruct I as [->|I].
  - rewrite Py, Qy. simpl. pose proof (filter_length_mono A P Q t H). lia.
  - specialize (IH I Py Qy). destruct (P a) eqn:Pa; [rewrite (H _ Pa); simpl; lia|]. destruct (Q a); simpl; lia.
Qed.

Lemma aget_In : forall A (m : list (N * A)) k v, aget k m = Some v -> In (k, v) m.
Proof.
  induction m as [|[k' v'] t IH]; intros k v H; simpl in H; [discriminate|].
  destruct (k =? k') eqn:Q; [apply N.eqb_eq in Q; inversion H; subst; left; reflexivity|right; auto].
Qed.

Lemma crank_le : forall ht w r l, (crank ht w r l <= length (w_full w))%nat.
Proof. intros. apply filter_length_le'. Qed.

Lemma crank_Rk : forall ht w, Rk ht w -> Rk (crank ht w) w.
Proof.
  intros ht w R f o Eo Hp. specialize (R f o Eo Hp). unfold crank.
  apply (filter_length_lt _ _ _ _ (f, o)).
  - intros kv Hb. unfold below in *. apply Nat.ltb_lt in Hb. apply Nat.ltb_lt. lia.
  - apply aget_In. exact Eo.
  - unfold below. cbn [snd]. apply Nat.ltb_ge. lia.
  - unfold below. cbn [snd]. apply Nat.ltb_lt. exact R.
Qed.
