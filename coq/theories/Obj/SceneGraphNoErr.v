(* C14 - no handler of the scene-graph model raises: under the invariant (Idx, Tree), the input assumptions of the
   statement and acyclic parent links, every step returns Some (incl.: the fuel of the kill cascade suffices). *)
From Coq Require Import NArith PeanoNat List Bool Lia.
From HV Require Import Obj.SceneGraph Obj.SceneGraphProofs Obj.SceneGraphTree Obj.SceneGraphKill.
Import ListNotations.
Open Scope N_scope.

(* ---------- the primitives ---------- *)
(* assert obj.LocalID not in parent.ChildIDs: a detached object is in no children list *)
Lemma parent_object_ok : forall w O K r f h o rs, Base w -> TreeG w O K ->
  get_obj w f = Some o -> o_region o = r -> get_rs w r = Some rs -> aget (o_lid o) (r_local rs) = Some f ->
  O f = Some None -> parent_object w r f h <> None.
Proof.
  intros w O K r f h o rs [Kw W2] T Eo Hr Ers Eidx HO. unfold parent_object. rewrite Eo, Ers. cbn [bind].
  destruct (o_parent o =? 0); [discriminate|].
  destruct (aget (o_parent o) (r_local rs)) as [pf|] eqn:Ep; [|discriminate].
  destruct (W2 _ _ _ _ Ers Ep) as (po & Epo & Hlp & Hrp). rewrite Epo. cbn [bind].
  destruct (mem (o_lid o) (map fst (o_children po))) eqn:M.
  - exfalso. apply mem_In in M. apply in_map_iff in M. destruct M as ([c cf] & Hc & Ic). cbn in Hc. subst c.
    destruct (tC1 _ _ _ T _ _ _ _ Epo Ic) as (co & rs0 & A1 & A2 & A3 & A4 & A5 & A6 & A7).
    rewrite Hrp, Ers in A5. inversion A5; subst rs0. rewrite Eidx in A6. inversion A6; subst cf. rewrite Eo in A1. inversion A1; subst co.
    destruct A4 as [A4 _]. unfold epar in A4. rewrite (Kw _ _ Eo), HO in A4. discriminate.
  - rewrite get_obj_set_obj. cbn [o_full with_children]. destruct (f =? o_full po); cbn [bind]; [discriminate|].
    rewrite Eo. cbn [bind]. discriminate.
Qed.

Lemma unparent_object_ok : forall w r f q o rs, Base w -> get_obj w f = Some o -> get_rs w r = Some rs ->
  unparent_object w r f q <> None.
Proof.
  intros w r f q o rs [Kw W2] Eo Ers. unfold unparent_object. rewrite Eo, Ers. cbn [bind].
  destruct (q =? 0); [discriminate|].
  destruct (aget q (r_local rs)) as [pf|] eqn:Ep; [|discriminate].
  destruct (W2 _ _ _ _ Ers Ep) as (po & Epo & _).
  rewrite get_obj_set_rs, get_obj_set_obj. cbn [o_full with_plink].
  destruct (pf =? o_full o).
  - destruct (mem (o_lid o) (map fst (o_children (with_plink o None)))); discriminate.
  - rewrite Epo. destruct (mem (o_lid o) (map fst (o_children po))); discriminate.
Qed.

Ltac some_or_absurd E := match goal with |- (bind ?x _) <> None => destruct x eqn:E; cbn [bind] end.

(* ---------- the adoption loop: assert child_obj is not None ---------- *)
Lemma adopt_ok : forall ls w O r rs, Base w -> TreeG w (odet O (fulls rs ls)) None -> get_rs w r = Some rs ->
  NoDup ls -> (forall c cf, In c ls -> aget c (r_local rs) = Some cf -> O cf = None) ->
  (forall c, In c ls -> aget c (r_local rs) <> None) ->
  adopt w r ls <> None.
Proof.
  induction ls as [|c t IH]; intros w O r rs Bw T Ers ND HO Hidx; simpl; [discriminate|].
  rewrite Ers. cbn [bind]. destruct (aget c (r_local rs)) as [cf|] eqn:Ec; [|exfalso; eapply Hidx; [left; reflexivity|exact Ec]].
  destruct Bw as [Kw W2]. destruct (W2 _ _ _ _ Ers Ec) as (co & Eco & Hl & Hr).
  assert (Hfs : fulls rs (c :: t) = cf :: fulls rs t).
  { unfold fulls. simpl. rewrite Ec. reflexivity. }
  rewrite Hfs in T.
  assert (HOcf : odet O (cf :: fulls rs t) cf = Some None) by (unfold odet; cbn; rewrite N.eqb_refl; reflexivity).
  destruct (parent_object w r cf false) as [w1|] eqn:E; cbn [bind].
  2:{ exfalso. eapply (parent_object_ok w _ None r cf false co rs); [split; assumption|exact T|exact Eco|exact Hr|exact Ers|rewrite Hl; exact Ec|exact HOcf|exact E]. }
  assert (T1 : TreeG w1 (oset (odet O (cf :: fulls rs t)) cf (Some (o_parent co))) None).
  { eapply (TreeG_parent w _ None r cf false co rs w1); [split; assumption|exact T|exact Eco|exact Hr|exact Ers|rewrite Hl; exact Ec|exact HOcf|intros _ Hk; discriminate|exact E]. }
  destruct (parent_pres _ _ _ _ _ _ _ Kw Eco Ers E) as [PO PR].
  pose proof (frame_parent_object _ _ _ _ _ Kw E) as F1.
  assert (B1 : Base w1) by (eapply frame_Base; [exact F1|split; assumption]).
  destruct (frame_rs_rev _ _ _ _ F1 Ers) as (rs1 & Ers1 & C1). apply ridx_inj in C1. destruct C1 as [_ C1].
  assert (Hnc : ~ In c t) by (inversion ND; assumption). assert (NDt : NoDup t) by (inversion ND; assumption).
  assert (Hcf : ~ In cf (fulls rs t)).
  { intro Hi. apply fulls_In in Hi. destruct Hi as (c' & Ic' & Ec'). destruct (W2 _ _ _ _ Ers Ec') as (a & Ea & Hla & _).
    rewrite Eco in Ea. inversion Ea; subst a. congruence. }
  eapply (IH w1 O r rs1); [exact B1| |exact Ers1|exact NDt| |].
  + rewrite (fulls_local rs rs1 t (eq_sym C1)). eapply TreeG_bk_equiv; [|exact T1].
    intros g a Eg p. destruct (PO _ _ Eg) as (a0 & Ea0 & L1 & L2 & L3 & L4 & _).
    destruct B1 as [Kw1 _]. pose proof (Kw1 _ _ Eg) as Kg.
    destruct (N.eq_dec g cf) as [->|Hne].
    * rewrite bk_oset_some by exact Kg. rewrite bk_odet. rewrite Kg.
      assert (M : mem cf (fulls rs t) = false) by (apply mem_false; exact Hcf). rewrite M.
      rewrite Eco in Ea0. inversion Ea0; subst a0.
      unfold bk, epar. rewrite Kg, (HO c cf (or_introl eq_refl) Ec). rewrite L4. split.
      { intros [X Y]. split; [reflexivity|]. split; congruence. }
      { intros [_ [X Y]]. split; congruence. }
    * rewrite bk_oset_other by (rewrite Kg; exact Hne). rewrite !bk_odet. rewrite Kg. cbn [mem existsb].
      apply N.eqb_neq in Hne. rewrite Hne. cbn [orb]. reflexivity.
  + intros c' cf' Ic' Ec'. rewrite <- C1 in Ec'. eapply HO; [right; exact Ic'|exact Ec'].
  + intros c' Ic'. rewrite <- C1. apply Hidx. right. exact Ic'.
Qed.

(* ---------- first loop of untrack_object: assert child_obj is not None ---------- *)
Lemma unparent_children_ok : forall ids w O K r rs, Base w -> TreeG w O K -> get_rs w r = Some rs -> NoDup ids ->
  (forall c cf, In c ids -> aget c (r_local rs) = Some cf -> O cf = None) ->
  (forall c, In c ids -> aget c (r_local rs) <> None) ->
  unparent_children w r ids <> None.
Proof.
  induction ids as [|c t IH]; intros w O K r rs Bw T Ers ND HO Hidx; simpl; [discriminate|].
  rewrite Ers. cbn [bind]. destruct (aget c (r_local rs)) as [cf|] eqn:Ec; [|exfalso; eapply Hidx; [left; reflexivity|exact Ec]].
  pose proof Bw as [Kw W2]. destruct (W2 _ _ _ _ Ers Ec) as (co & Eco & Hl & Hr). rewrite Eco. cbn [bind].
  destruct (unparent_object w r cf (o_parent co)) as [w1|] eqn:E0; cbn [bind].
  2:{ exfalso. eapply unparent_object_ok; eauto. }
  assert (T1 : TreeG w1 (oset O cf None) K).
  { eapply (TreeG_unparent w O K r cf (o_parent co) co rs w1); eauto; [rewrite Hl; exact Ec|].
    unfold epar. rewrite (Kw _ _ Eco), (HO c cf (or_introl eq_refl) Ec). reflexivity. }
  pose proof (pframe_unparent _ _ _ _ _ Kw E0) as F1. pose proof (pframe_Base _ _ F1 Bw) as B1.
  destruct (pframe_rs_rev _ _ _ _ F1 Ers) as (rs1 & Ers1 & L1).
  assert (Hnc : ~ In c t) by (inversion ND; assumption). assert (NDt : NoDup t) by (inversion ND; assumption).
  eapply (IH w1 (oset O cf None) K r rs1 B1 T1 Ers1 NDt).
  + intros c' cf' Ic' Ec'. rewrite L1 in Ec'. unfold oset. destruct (cf' =? cf) eqn:Q.
    * apply N.eqb_eq in Q. subst cf'. destruct (W2 _ _ _ _ Ers Ec') as (a & Ea & Hla & _). rewrite Eco in Ea. inversion Ea; subst a. congruence.
    * eapply HO; [right; exact Ic'|exact Ec'].
  + intros c' Ic'. rewrite L1. apply Hidx. right. exact Ic'.
Qed.

(* ---------- untrack_object: the three asserts and the del ---------- *)
Lemma untrack_object_ok : forall w O r x o, Idx w -> TreeG w O None ->
  (forall g, O g = None \/ O g = Some None) -> get_obj w x = Some o -> o_region o = r ->
  untrack_object w r x <> None.
Proof.
  intros w O r x o I T FORM Eo Hr. pose proof I as (Kw & W2 & W3). pose proof (Idx_Base _ I) as Bw.
  destruct (W3 _ _ Eo) as (rs & Ers & _ & Elx). rewrite Hr in Ers. set (l := o_lid o) in *.
  unfold untrack_object. rewrite Eo. cbn [bind]. set (former := map fst (o_children o)) in *.
  assert (ND : NoDup former) by (eapply (tC3 _ _ _ T); eauto).
  assert (CH : forall c, In c former -> exists cf co, aget c (r_local rs) = Some cf /\ get_obj w cf = Some co /\ o_parent co = l /\ l <> 0 /\ O cf = None).
  { intros c Ic. apply in_map_iff in Ic. destruct Ic as ([c' cf] & Hc' & Ic). cbn in Hc'. subst c'.
    destruct (tC1 _ _ _ T _ _ _ _ Eo Ic) as (co & rs0 & A1 & A2 & A3 & A4 & A5 & A6 & A7).
    rewrite Hr, Ers in A5. inversion A5; subst rs0. exists cf, co. destruct A4 as [A4 A4']. unfold epar in A4. rewrite (Kw _ _ A1) in A4.
    destruct (FORM cf) as [F0|F0]; rewrite F0 in A4; [|discriminate]. inversion A4. auto 10. }
  assert (HOc : forall c cf, In c former -> aget c (r_local rs) = Some cf -> O cf = None).
  { intros c cf Ic Ec. destruct (CH c Ic) as (cf' & co & Ec' & _ & _ & _ & HO'). congruence. }
  destruct (unparent_children w r former) as [w1|] eqn:E; cbn [bind].
  2:{ exfalso. eapply (unparent_children_ok former w O None r rs); eauto.
      intros c Ic. destruct (CH c Ic) as (cf & co & Ec & _). congruence. }
  destruct (unparent_children_TreeG former w O None r rs w1 Bw T Ers ND HOc E) as [T1 F1].
  pose proof (pframe_Base _ _ F1 Bw) as B1.
  destruct (pframe_rs_rev _ _ _ _ F1 Ers) as (rs1 & E0 & L1). rewrite E0. cbn [bind].
  set (rs2 := orphan_children rs1 former (o_lid o)) in *. set (w2 := set_rs w1 r rs2) in *.
  destruct (pframe_obj_rev _ _ _ _ F1 Eo) as (o2 & Eo2 & P1 & P2 & P3 & P4).
  change (get_obj w2 x) with (get_obj w1 x). rewrite Eo2. cbn [bind].
  set (fs := fulls rs former) in *.
  assert (Elx1 : aget l (r_local rs1) = Some x) by (rewrite L1; exact Elx).
  assert (Hch2 : o_children o2 = []).
  { destruct (o_children o2) as [|[c cf] tl] eqn:Ech; [reflexivity|]. exfalso.
    assert (Ic : In (c, cf) (o_children o2)) by (rewrite Ech; left; reflexivity).
    destruct (tC1 _ _ _ T1 _ _ _ _ Eo2 Ic) as (co & rsA & A1 & A2 & A3 & A4 & A5 & A6 & A7).
    rewrite P3, Hr, E0 in A5. inversion A5; subst rsA. apply bk_odet in A4. destruct A4 as [M A4].
    destruct (pframe_obj _ _ _ _ F1 A1) as (co0 & Eco0 & Q1 & Q2 & Q3 & Q4).
    assert (B0 : bk O co0 l).
    { destruct A4 as [A4 A4']. rewrite P1 in A4, A4'. split; [|exact A4']. unfold epar in *. rewrite <- Q2, <- Q4. exact A4. }
    rewrite L1 in A6.
    pose proof (tC2 _ _ _ T _ _ _ _ _ _ _ _ Ers A6 Eco0 B0 Elx Eo ltac:(intro Hk; discriminate)) as Ic0.
    assert (Icf : In cf fs) by (apply fulls_In; exists c; split; [apply in_map_iff; exists (c, cf); auto|exact A6]).
    apply mem_In in Icf. destruct B1 as [K1 _]. rewrite (K1 _ _ A1) in M. congruence. }
  rewrite Hch2.
  assert (L2 : r_local rs2 = r_local rs1).
  { pose proof (ridx_orphan_children former rs1 (o_lid o)) as C. apply ridx_inj in C. apply C. }
  assert (B2 : Base w2) by (eapply pframe_Base; [eapply pframe_set_rs; [exact E0|exact L2]|exact B1]).
  assert (Ers2 : get_rs w2 r = Some rs2) by (unfold w2; rewrite get_rs_set_rs, N.eqb_refl; reflexivity).
  assert (Eo22 : get_obj w2 x = Some o2) by exact Eo2.
  destruct (unparent_object w2 r x (o_parent o2)) as [w3|] eqn:E2; cbn [bind].
  2:{ exfalso. eapply unparent_object_ok; eauto. }
  destruct B2 as [K2 W22].
  destruct (unparent_pres _ _ _ _ _ _ _ K2 Eo22 Ers2 E2) as (PF & PB & RF & RB).
  destruct (RB _ _ Ers2) as (rs4 & Ers4 & L4).
  change (get_rs (cancel_futures w3 r (o_lid o2)) r) with (get_rs w3 r). rewrite Ers4. cbn [bind].
  rewrite L4, L2, P1. fold l. rewrite Elx1. discriminate.
Qed.

(* ---------- registered regions stay registered ---------- *)
Definition same_regs (w w' : world) : Prop := forall r0, get_rs w r0 <> None -> get_rs w' r0 <> None.

Lemma same_regs_refl : forall w, same_regs w w.
Proof. intros w r0 H. exact H. Qed.
Lemma same_regs_trans : forall a b c, same_regs a b -> same_regs b c -> same_regs a c.
Proof. intros a b c H1 H2 r0 H. auto. Qed.
Lemma frame_same_regs : forall w w', frame w w' -> same_regs w w'.
Proof.
  intros w w' [_ F] r0 H. specialize (F r0). destruct (get_rs w r0); [|congruence]. destruct (get_rs w' r0); [discriminate|discriminate F].
Qed.

Lemma untrack_same_regs : forall w r f o w', Idx w -> get_obj w f = Some o -> o_region o = r ->
  untrack_object w r f = Some w' -> same_regs w w'.
Proof.
  intros w r f o w' I Eo Hr H. destruct (untrack_IdxX _ _ _ _ _ I Eo Hr H) as (_ & _ & _ & FR).
  intros r0 Hs. specialize (FR r0). destruct (get_rs w r0); [|congruence]. destruct (get_rs w' r0); [discriminate|discriminate FR].
Qed.

Lemma kill_children_same_regs : forall killf r,
  (forall w c w', Idx w -> killf w c = Some w' -> Idx w' /\ same_regs w w') ->
  forall ids w w', Idx w -> kill_children killf r ids w = Some w' -> Idx w' /\ same_regs w w'.
Proof.
  intros killf r HK. induction ids as [|c t IH]; intros w w' I H; simpl in H.
  - inversion H; subst. split; [exact I|apply same_regs_refl].
  - destruct (lookup_local w r c) as [co|].
    + destruct (o_av co); [eauto|]. bind_inv H. destruct (HK _ _ _ I E) as [I1 S1].
      destruct (IH _ _ I1 H) as [I2 S2]. split; [exact I2|eapply same_regs_trans; eauto].
    + bind_inv H. destruct (HK _ _ _ I E) as [I1 S1].
      destruct (IH _ _ I1 H) as [I2 S2]. split; [exact I2|eapply same_regs_trans; eauto].
Qed.

Lemma kill_same_regs : forall n w r l w', Idx w -> kill n w r l = Some w' -> Idx w' /\ same_regs w w'.
Proof.
  induction n as [|n IH]; intros w r l w' I H; [discriminate|].
  destruct (kill_Idx _ _ _ _ _ I H) as [I' _]. split; [exact I'|]. simpl in H.
  bind_inv H. rename r0 into rs.
  assert (F1 : frame w (set_rs w r (with_missing rs (sdel l (r_missing rs))))) by (eapply frame_set_rs; [exact E|reflexivity]).
  set (w1 := set_rs w r (with_missing rs (sdel l (r_missing rs)))) in *.
  pose proof (frame_Idx _ _ F1 I) as I1.
  assert (HK : forall w c w', Idx w -> (fun w c => kill n w r c) w c = Some w' -> Idx w' /\ same_regs w w') by (intros; eapply IH; eauto).
  eapply same_regs_trans; [apply frame_same_regs; exact F1|].
  destruct (lookup_local w1 r l) as [o|] eqn:El.
  - bind_inv H. rename w0 into w2. bind_inv H. rename w0 into w3. inversion H; subst w'; clear H.
    destruct (kill_children_same_regs _ _ HK _ _ _ I1 E0) as [I2 S2].
    destruct (kill_children_Idx _ r (fun w c w' I0 H0 => kill_Idx n w r c w' I0 H0) _ _ _ I1 E0) as [_ Sh].
    destruct (lookup_local_some _ _ _ _ I1 El) as (Eo & Hl & Hr).
    pose proof E1 as E1'. unfold untrack_object in E1'. destruct (get_obj w2 (o_full o)) as [o'|] eqn:Eo'; [|discriminate]. clear E1'.
    destruct (Sh _ _ Eo') as (o0 & Eo0 & C0). rewrite Eo in Eo0. inversion Eo0; subst o0.
    pose proof (core_inj _ _ C0) as (_ & _ & Cr).
    eapply same_regs_trans; [exact S2|]. eapply same_regs_trans; [exact (untrack_same_regs w2 r (o_full o) o' w3 I2 Eo' (eq_trans Cr Hr) E1)|].
    intros r0 Hs. exact Hs.
  - bind_inv H. rename r0 into rs2. destruct (collect_orphans rs2 l) as [ch rs3] eqn:Ec.
    set (w2 := cancel_futures w1 r l) in *.
    assert (F2 : frame w1 (set_rs w2 r (retrack_avatars w2 r l ch rs3))).
    { eapply frame_trans; [apply frame_set_futs|]. eapply frame_set_rs; [exact E0|]. rewrite ridx_retrack.
      change rs3 with (snd (ch, rs3)). rewrite <- Ec. apply ridx_collect. }
    destruct (kill_children_same_regs _ _ HK _ _ _ (frame_Idx _ _ F2 I1) H) as [_ S3].
    eapply same_regs_trans; [apply frame_same_regs; exact F2|exact S3].
Qed.

(* ---------- ranks: parent links form no cycle ---------- *)
(* ht ranks (region, local id) keys; every object ranks strictly below the key of its parent *)
Definition Rk (ht : N -> N -> nat) (w : world) : Prop :=
  forall f o, get_obj w f = Some o -> o_parent o <> 0 -> (ht (o_region o) (o_lid o) < ht (o_region o) (o_parent o))%nat.

Definition acyclic (w : world) : Prop := exists ht, Rk ht w.

Lemma Rk_sub : forall ht w w', sub w w' -> Rk ht w -> Rk ht w'.
Proof.
  intros ht w w' [S1 _] R f o' E Hp. destruct (S1 _ _ E) as (o & Eo & P & _). unfold pcore in P. inversion P as [[P1 P2 P3 P4]].
  rewrite P1, P3, P4. apply (R f o Eo). congruence.
Qed.

(* compressing a ranking: the rank of a key is the number of objects strictly below it *)
Definition below (ht : N -> N -> nat) (r l : N) (kv : N * obj) : bool :=
  Nat.ltb (ht (o_region (snd kv)) (o_lid (snd kv))) (ht r l).
Definition crank (ht : N -> N -> nat) (w : world) (r l : N) : nat := length (filter (below ht r l) (w_full w)).

Lemma filter_length_le' : forall A (P : A -> bool) l, (length (filter P l) <= length l)%nat.
Proof. intros A P l. induction l as [|a t IH]; simpl; [lia|]. destruct (P a); simpl; lia. Qed.

Lemma filter_length_mono : forall A (P Q : A -> bool) l, (forall x, P x = true -> Q x = true) ->
  (length (filter P l) <= length (filter Q l))%nat.
Proof.
  intros A P Q l H. induction l as [|a t IH]; simpl; [lia|].
  destruct (P a) eqn:Pa; [rewrite (H _ Pa); simpl; lia|]. destruct (Q a); simpl; lia.
Qed.

Lemma filter_length_lt : forall A (P Q : A -> bool) l y, (forall x, P x = true -> Q x = true) ->
  In y l -> P y = false -> Q y = true -> (length (filter P l) < length (filter Q l))%nat.
Proof.
  intros A P Q l y H. induction l as [|a t IH]; intros I Py Qy; [destruct I|]. simpl.
  destruct I as [->|I].
  - rewrite Py, Qy. simpl. pose proof (filter_length_mono A P Q t H). lia.
  - specialize (IH I Py Qy). destruct (P a) eqn:Pa; [rewrite (H _ Pa); simpl; lia|]. destruct (Q a); simpl; lia.
Qed.

Lemma aget_In : forall A (m : list (N * A)) k v, aget k m = Some v -> In (k, v) m.
Proof.
  induction m as [|[k' v'] t IH]; intros k v H; simpl in H; [discriminate|].
  destruct (k =? k') eqn:Q; [apply N.eqb_eq in Q; inversion H; subst; left; reflexivity|right; auto].
Qed.

Lemma crank_le : forall ht w r l, (crank ht w r l <= length (w_full w))%nat.
Proof. intros. apply filter_length_le'. Qed.

Lemma crank_Rk : forall ht w, Rk ht w -> Rk (crank ht w) w.
Proof.
  intros ht w R f o Eo Hp. specialize (R f o Eo Hp). unfold crank.
  apply (filter_length_lt _ _ _ _ (f, o)).
  - intros kv Hb. unfold below in *. apply Nat.ltb_lt in Hb. apply Nat.ltb_lt. lia.
  - apply aget_In. exact Eo.
  - unfold below. cbn [snd]. apply Nat.ltb_ge. lia.
  - unfold below. cbn [snd]. apply Nat.ltb_lt. exact R.
Qed.

(* ---------- the kill cascade: fuel above the rank of the killed key suffices ---------- *)
(* the objects of w that are gone in w' were in region r and rank at most b *)
Definition gone_below (ht : N -> N -> nat) (r : N) (b : nat) (w w' : world) : Prop :=
  forall f o, get_obj w f = Some o -> get_obj w' f = None -> o_region o = r /\ (ht r (o_lid o) <= b)%nat.

Definition KOK (killf : world -> N -> option world) (r : N) (n : nat) (ht : N -> N -> nat) : Prop :=
  forall w c D, Idx w -> TreeG w (odet no_ovr D) None -> Rk ht w -> get_rs w r <> None -> (ht r c < n)%nat ->
    exists w', killf w c = Some w' /\ gone_below ht r (ht r c) w w'.
Definition KR (killf : world -> N -> option world) : Prop :=
  forall w c w', Idx w -> killf w c = Some w' -> Idx w' /\ same_regs w w'.

Lemma gone_below_seq : forall ht r b w w1 w', sub w w1 -> gone_below ht r b w w1 -> gone_below ht r b w1 w' ->
  gone_below ht r b w w'.
Proof.
  intros ht r b w w1 w' [S1 _] G1 G2 f o Eo En. destruct (get_obj w1 f) as [o1|] eqn:E1.
  - destruct (S1 _ _ E1) as (o0 & Eo0 & P & _). rewrite Eo in Eo0. inversion Eo0; subst o0.
    unfold pcore in P. injection P as P1 P2 P3 P4. destruct (G2 _ _ E1 En) as [Hr Hb]. rewrite <- P1, <- P3. auto.
  - exact (G1 _ _ Eo E1).
Qed.

Lemma gone_below_le : forall ht r b b' w w', (b <= b')%nat -> gone_below ht r b w w' -> gone_below ht r b' w w'.
Proof. intros ht r b b' w w' H G f o E1 E2. destruct (G _ _ E1 E2) as [A B]. split; [exact A|lia]. Qed.

Lemma kill_children_ok : forall killf r n ht b, KI killf r -> KS killf -> KR killf -> KOK killf r n ht ->
  forall ids w D, Idx w -> TreeG w (odet no_ovr D) None -> Rk ht w -> get_rs w r <> None ->
  (forall c, In c ids -> (ht r c < n)%nat /\ (ht r c <= b)%nat) ->
  exists w', kill_children killf r ids w = Some w' /\ gone_below ht r b w w'.
Proof.
  intros killf r n ht b HKI HKS HKR HOK. induction ids as [|c t IH]; intros w D I T R Hrs Hn; simpl.
  - exists w. split; [reflexivity|]. intros f o E1 E2. congruence.
  - assert (Ht : forall c0, In c0 t -> (ht r c0 < n)%nat /\ (ht r c0 <= b)%nat) by (intros c0 Ic0; apply Hn; right; exact Ic0).
    assert (STEP : exists w', (w1 <- killf w c ;; kill_children killf r t w1) = Some w' /\ gone_below ht r b w w').
    { destruct (Hn c (or_introl eq_refl)) as [Hc1 Hc2].
      destruct (HOK w c D I T R Hrs Hc1) as (w1 & E & G1). rewrite E. cbn [bind].
      destruct (HKI _ _ _ _ I T E) as [T1 _]. destruct (HKS _ _ _ I E) as [I1 S1]. destruct (HKR _ _ _ I E) as [_ SR1].
      destruct (IH w1 D I1 T1 (Rk_sub _ _ _ S1 R) (SR1 _ Hrs) Ht) as (w' & E' & G2).
      exists w'. split; [exact E'|]. eapply gone_below_seq; [exact S1| |exact G2]. eapply gone_below_le; [exact Hc2|exact G1]. }
    destruct (lookup_local w r c) as [co|]; [|exact STEP].
    destruct (o_av co); [|exact STEP]. apply (IH w D I T R Hrs Ht).
Qed.

Lemma kill_ok : forall ht n r, KOK (fun w c => kill n w r c) r n ht.
Proof.
  intros ht. induction n as [|n IHn]; intros r w l D I T R Hrs Hn; [lia|]. simpl.
  assert (HKS : KS (fun w c => kill n w r c)) by (intros w0 c w0' I0 H0; eapply kill_sub; eauto).
  assert (HKR : KR (fun w c => kill n w r c)) by (intros w0 c w0' I0 H0; eapply kill_same_regs; eauto).
  pose proof (kill_KI n r) as HKI. specialize (IHn r).
  destruct (get_rs w r) as [rs|] eqn:E; [|congruence]. cbn [bind].
  set (rs1 := with_missing rs (sdel l (r_missing rs))) in *. set (w1 := set_rs w r rs1) in *.
  assert (F1 : frame w w1) by (eapply frame_set_rs; [exact E|reflexivity]).
  assert (TF1 : tframe w w1) by (eapply tframe_set_rs; [exact E|reflexivity]).
  pose proof (frame_Idx _ _ F1 I) as I1. pose proof (tframe_TreeG _ _ _ _ TF1 T) as T1.
  assert (Ers1 : get_rs w1 r = Some rs1) by (unfold w1; rewrite get_rs_set_rs, N.eqb_refl; reflexivity).
  assert (R1 : Rk ht w1) by exact R.
  assert (Hrs1 : get_rs w1 r <> None) by congruence.
  set (O := odet no_ovr D) in *.
  destruct (lookup_local w1 r l) as [o|] eqn:El.
  - (* a tracked object *)
    destruct (lookup_local_some _ _ _ _ I1 El) as (Eo & Hl & Hr).
    assert (RANK0 : forall c, In c (rev (map fst (o_children o))) -> (ht r c < ht r l)%nat).
    { intros c Ic. apply in_rev in Ic. apply in_map_iff in Ic. destruct Ic as ([c' cf] & Hc' & Ic). cbn in Hc'; subst c'.
      destruct (tC1 _ _ _ T1 _ _ _ _ Eo Ic) as (co & rs0 & A1 & A2 & A3 & A4 & _).
      apply bk_odet in A4. destruct A4 as [_ [A4 A4']]. unfold epar, no_ovr in A4. inversion A4 as [A4p].
      pose proof (R1 _ _ A1 ltac:(rewrite A4p; exact A4')) as Rc. rewrite A3, Hr, A2, A4p, Hl in Rc. exact Rc. }
    assert (RANK : forall c, In c (rev (map fst (o_children o))) -> (ht r c < n)%nat /\ (ht r c <= ht r l - 1)%nat).
    { intros c Ic. specialize (RANK0 c Ic). lia. }
    destruct (kill_children_ok _ r n ht (ht r l - 1)%nat HKI HKS HKR IHn _ w1 D I1 T1 R1 Hrs1 RANK) as (w2 & E0 & G2).
    rewrite E0. cbn [bind].
    destruct (kill_children_KI _ _ HKI HKS _ _ _ D I1 T1 E0) as (T2 & I2 & S2 & _).
    assert (Eo' : exists o', get_obj w2 (o_full o) = Some o').
    { destruct (get_obj w2 (o_full o)) as [o'|] eqn:Eo'; [eauto|]. exfalso.
      destruct (G2 _ _ Eo Eo') as [_ Hb]. rewrite Hl in Hb.
      destruct (o_children o) as [|[c cf] tl] eqn:Ech.
      - simpl in E0. inversion E0; subst w2. congruence.
      - assert (Hc : (ht r c < ht r l)%nat) by (apply RANK0; apply in_rev; rewrite rev_involutive; left; reflexivity). lia. }
    destruct Eo' as (o' & Eo').
    destruct S2 as [S21 S22]. destruct (S21 _ _ Eo') as (o0 & Eo0 & P0 & _). rewrite Eo in Eo0. inversion Eo0; subst o0.
    assert (Hr' : o_region o' = r) by (unfold pcore in P0; congruence).
    destruct (untrack_object w2 r (o_full o)) as [w3|] eqn:E1; cbn [bind].
    2:{ exfalso. eapply (untrack_object_ok w2 O r (o_full o) o'); eauto. apply odet_form. }
    eexists. split; [reflexivity|].
    destruct (untrack_IdxX _ _ _ _ _ I2 Eo' Hr' E1) as (_ & _ & FO & _).
    intros f a Ea En. change (get_obj w f) with (get_obj w1 f) in Ea.
    destruct (get_obj w2 f) as [a2|] eqn:Ea2.
    + rewrite get_obj_del_obj in En. destruct (f =? o_full o) eqn:Q.
      * apply N.eqb_eq in Q. subst f. rewrite Eo in Ea. inversion Ea; subst a. split; [exact Hr|]. rewrite Hl. lia.
      * specialize (FO f). rewrite Ea2, En in FO. discriminate.
    + destruct (G2 _ _ Ea Ea2) as [Gr Gb]. split; [exact Gr|]. lia.
  - (* an unknown local id: its orphans die, except avatars *)
    assert (LL : lookup_local w1 r l = lookup_local w r l).
    { unfold lookup_local. rewrite Ers1, E. reflexivity. }
    assert (Hnone : aget l (r_local rs1) = None).
    { unfold lookup_local in El. rewrite Ers1 in El. destruct (aget l (r_local rs1)) as [f|] eqn:Ef; [|reflexivity].
      destruct I1 as (_ & A1 & _). destruct (A1 _ _ _ _ Ers1 Ef) as (a & Ea & _). congruence. }
    set (w2 := cancel_futures w1 r l) in *.
    assert (T2 : TreeG w2 O None) by (eapply TreeG_wext; [| |exact T1]; reflexivity).
    assert (I2 : Idx w2) by (eapply frame_Idx; [apply frame_set_futs|exact I1]).
    pose proof (Idx_Base _ I2) as B2. pose proof B2 as [K2 W22].
    change (get_rs w2 r) with (get_rs w1 r). rewrite Ers1. cbn [bind].
    assert (E0 : get_rs w2 r = Some rs1) by exact Ers1.
    destruct (collect_orphans rs1 l) as [ch rs3] eqn:Ec.
    destruct (collect_spec _ _ _ _ Ec) as (CL & CO & CLs).
    pose proof (TreeG_collect_unknown _ _ _ _ _ _ _ B2 T2 E0 Hnone Ec) as TC.
    set (fs := fulls rs1 ch) in *.
    rewrite retrack_eq. set (avs := filter (isav w2 r) ch) in *.
    set (nvs := filter (fun c => negb (isav w2 r c)) ch).
    assert (MEM : forall c, In c ch -> exists cf co, aget c (r_local rs1) = Some cf /\ get_obj w2 cf = Some co /\ o_parent co = l /\ l <> 0 /\ mem cf D = false).
    { intros c Ic. destruct (aget l (r_orphans rs1)) as [ls0|] eqn:El0; [|subst ch; destruct Ic]. subst ch.
      destruct (tO1 _ _ _ T2 _ _ _ _ _ E0 El0 Ic) as (A1 & _ & cf & co & A3 & A4 & A5).
      exists cf, co. split; [exact A3|]. split; [exact A4|]. destruct A5 as [A5 _]. unfold epar, O, odet, no_ovr in A5. rewrite (K2 _ _ A4) in A5.
      destruct (mem cf D) eqn:MD; [discriminate|]. injection A5 as Hp. split; [exact Hp|]. split; [exact A1|reflexivity]. }
    assert (NDch : NoDup ch).
    { destruct (aget l (r_orphans rs1)) as [ls0|] eqn:El0; [|subst ch; constructor]. subst ch. eapply (tO3 _ _ _ T2); eauto. }
    set (W := set_rs w2 r rs3) in *.
    assert (BW : Base W) by (eapply pframe_Base; [eapply pframe_set_rs; [exact E0|exact CL]|exact B2]).
    assert (ErsW : get_rs W r = Some rs3) by (unfold W; rewrite get_rs_set_rs, N.eqb_refl; reflexivity).
    assert (TR : TreeG (set_rs W r (orphan_children rs3 avs l)) (oatt (odet O fs) (fulls rs3 avs) l) None).
    { apply orphan_children_TreeG; auto.
      - apply NoDup_filter. exact NDch.
      - intros Hne. destruct avs as [|c t] eqn:Ea; [congruence|].
        assert (Ic : In c ch). { assert (In c (c :: t)) by (left; reflexivity). rewrite <- Ea in H. apply filter_In in H. tauto. }
        destruct (MEM c Ic) as (_ & _ & _ & _ & _ & Hl0 & _). exact Hl0.
      - left. rewrite CL. exact Hnone.
      - intros c Ic. apply filter_In in Ic. destruct Ic as [Ic _]. destruct (MEM c Ic) as (cf & co & Ec' & Eco & _).
        exists cf, co. rewrite CL. split; [exact Ec'|]. split; [exact Eco|]. unfold odet at 1.
        assert (M : mem cf fs = true) by (apply mem_In; apply fulls_In; eauto). rewrite M. reflexivity. }
    apply set_rs_twice in TR. set (w3 := set_rs w2 r (orphan_children rs3 avs l)) in *.
    rewrite (fulls_local rs1 rs3 avs CL) in TR.
    assert (GO3 : forall g, get_obj w3 g = get_obj w2 g) by reflexivity.
    assert (T3 : TreeG w3 (odet no_ovr (D ++ fulls rs1 nvs)) None).
    { eapply TreeG_bk_equiv; [|exact TR]. intros g a Eg p. rewrite GO3 in Eg. pose proof (K2 _ _ Eg) as Kg.
      assert (R1' : odet O fs g = if mem g fs then Some None else (if mem g D then Some None else None)) by reflexivity.
      assert (R2 : odet no_ovr (D ++ fulls rs1 nvs) g = if mem g D || mem g (fulls rs1 nvs) then Some None else None)
        by (unfold odet, no_ovr; rewrite mem_app; reflexivity).
      assert (EQ : match oatt (odet O fs) (fulls rs1 avs) l g with Some x => x | None => Some (o_parent a) end =
                   match odet no_ovr (D ++ fulls rs1 nvs) g with Some x => x | None => Some (o_parent a) end).
      { unfold oatt. rewrite R1', R2. destruct (mem g (fulls rs1 avs)) eqn:Ma.
        - apply mem_In in Ma. apply fulls_In in Ma. destruct Ma as (c & Ic & Ec'). apply filter_In in Ic. destruct Ic as [Ic Hv].
          destruct (MEM c Ic) as (cf & co & Ec'' & Eco & Hp & Hl0 & HD). rewrite Ec' in Ec''. inversion Ec''; subst cf.
          rewrite Eg in Eco. inversion Eco; subst co. rewrite HD. cbn [orb].
          assert (Mn : mem g (fulls rs1 nvs) = false).
          { apply mem_false. intro Hi. apply fulls_In in Hi. destruct Hi as (c' & Ic' & Ec3). apply filter_In in Ic'. destruct Ic' as [_ Hv'].
            destruct (W22 _ _ _ _ E0 Ec') as (a1 & Ea1 & Hl1 & _). destruct (W22 _ _ _ _ E0 Ec3) as (a2 & Ea2 & Hl2 & _).
            assert (Hcc : c = c') by congruence. rewrite <- Hcc in Hv'. rewrite Hv in Hv'. discriminate. }
          rewrite Mn. congruence.
        - destruct (mem g fs) eqn:Mf.
          + apply mem_In in Mf. apply (fulls_partition rs1 (isav w2 r) ch g) in Mf. destruct Mf as [Mf|Mf].
            * apply mem_In in Mf. fold avs in Mf. congruence.
            * apply mem_In in Mf. fold nvs in Mf. rewrite Mf, orb_true_r. reflexivity.
          + assert (Mn : mem g (fulls rs1 nvs) = false).
            { apply mem_false. intro Hi. apply mem_false in Mf. apply Mf. apply (fulls_partition rs1 (isav w2 r) ch g). right. exact Hi. }
            rewrite Mn, orb_false_r. reflexivity. }
      unfold bk, epar. rewrite Kg, EQ. reflexivity. }
    assert (I3 : Idx w3).
    { eapply frame_Idx; [|exact I2]. eapply frame_set_rs; [exact E0|]. rewrite ridx_orphan_children.
      change rs3 with (snd (ch, rs3)). rewrite <- Ec. apply ridx_collect. }
    assert (R3 : Rk ht w3) by exact R.
    assert (Hrs3 : get_rs w3 r <> None) by (unfold w3; rewrite get_rs_set_rs, N.eqb_refl; discriminate).
    assert (RANK : forall c, In c (rev ch) -> (ht r c < n)%nat /\ (ht r c <= ht r l)%nat).
    { intros c Ic. apply in_rev in Ic. destruct (MEM c Ic) as (cf & co & Ec' & Eco & Hp & Hl0 & _).
      destruct (W22 _ _ _ _ E0 Ec') as (co' & Eco' & Hlc & Hrc). rewrite Eco in Eco'. inversion Eco'; subst co'.
      pose proof (R _ _ Eco ltac:(rewrite Hp; exact Hl0)) as Rc. rewrite Hrc, Hlc, Hp in Rc. lia. }
    destruct (kill_children_ok _ r n ht (ht r l) HKI HKS HKR IHn _ w3 _ I3 T3 R3 Hrs3 RANK) as (w' & E' & G').
    exists w'. split; [exact E'|]. exact G'.
Qed.

Lemma step_kill_ok : forall w r l, Idx w -> Tree w -> acyclic w -> get_rs w r <> None -> step w (EKill r l) <> None.
Proof.
  intros w r l I T (ht & R) Hrs. cbn [step]. destruct (get_rs w r) eqn:E; [|congruence].
  pose proof (crank_Rk _ _ R) as R'.
  assert (T0 : TreeG w (odet no_ovr []) None) by (eapply TreeG_ext; [|exact T]; intros g; reflexivity).
  destruct (kill_ok (crank ht w) (kill_fuel w) r w l [] I T0 R') as (w' & E' & _).
  - congruence.
  - unfold kill_fuel. pose proof (crank_le ht w r l). lia.
  - rewrite E'. discriminate.
Qed.

(* ---------- track_object of a detached, un-indexed object ---------- *)
Lemma track_object_ok : forall w r x o rs, Base w -> TreeG w (oset no_ovr x None) None ->
  get_obj w x = Some o -> o_region o = r -> get_rs w r = Some rs -> aget (o_lid o) (r_local rs) = None ->
  o_parent o <> o_lid o ->
  track_object w r x <> None.
Proof.
  intros w r x o rs Bw T Eo Hr Ers Hfree Hself. unfold track_object. rewrite Eo, Ers. cbn [bind].
  set (l := o_lid o) in *. set (m := sdel l (r_missing rs)) in *.
  set (w1 := set_rs w r (with_missing (with_local rs (aset l x (r_local rs))) m)) in *.
  pose proof (Base_index _ _ _ _ _ m Bw Eo Hr Ers) as B1. fold l in B1. fold w1 in B1.
  pose proof (TreeG_index _ _ _ _ _ _ m Bw T Eo Hr Ers Hfree) as T1. fold l in T1. fold w1 in T1.
  specialize (T1 ltac:(unfold oset; rewrite N.eqb_refl; reflexivity)).
  set (rs1 := with_missing (with_local rs (aset l x (r_local rs))) m) in *.
  assert (Ers1 : get_rs w1 r = Some rs1) by (unfold w1; rewrite get_rs_set_rs, N.eqb_refl; reflexivity).
  assert (Eo1 : get_obj w1 x = Some o) by exact Eo.
  assert (Eidx1 : aget (o_lid o) (r_local rs1) = Some x).
  { unfold rs1. cbn [r_local with_local with_missing]. rewrite aget_aset. fold l. rewrite N.eqb_refl. reflexivity. }
  assert (HOx : oset no_ovr x None x = Some None) by (unfold oset; rewrite N.eqb_refl; reflexivity).
  destruct (parent_object w1 r x false) as [w2|] eqn:E; cbn [bind].
  2:{ exfalso. eapply (parent_object_ok w1 _ _ r x false o rs1); eauto. }
  destruct B1 as [K1 W21].
  assert (T2 : TreeG w2 (oset (oset no_ovr x None) x (Some (o_parent o))) (Some (r, l))).
  { eapply (TreeG_parent w1 _ _ r x false o rs1 w2); [split; assumption|exact T1|exact Eo1|exact Hr|exact Ers1|exact Eidx1|exact HOx| |exact E].
    intros _ Hk. inversion Hk. congruence. }
  destruct (parent_pres _ _ _ _ _ _ _ K1 Eo1 Ers1 E) as [PO PR].
  pose proof (frame_parent_object _ _ _ _ _ K1 E) as F2.
  assert (B2 : Base w2) by (eapply frame_Base; [exact F2|split; assumption]).
  destruct (frame_obj_rev _ _ _ _ F2 Eo1) as (o2 & Eo2 & _).
  destruct (PO _ _ Eo2) as (o1' & Eo1' & L1 & L2 & L3 & L4 & L5). rewrite Eo1 in Eo1'. inversion Eo1'; subst o1'.
  assert (Hch0 : o_children o = []).
  { destruct (o_children o) as [|[c cf] t] eqn:Ech; [reflexivity|]. exfalso.
    assert (Ic : In (c, cf) (o_children o)) by (rewrite Ech; left; reflexivity).
    destruct (tC1 _ _ _ T _ _ _ _ Eo Ic) as (co & rs0 & _ & _ & _ & _ & A5 & _ & A7).
    rewrite Hr, Ers in A5. inversion A5; subst rs0. fold l in A7. congruence. }
  assert (Hch : o_children o2 = []).
  { rewrite L5; [exact Hch0|].
    intro Hp. unfold rs1 in Hp. cbn [r_local with_local with_missing] in Hp. rewrite aget_aset in Hp.
    destruct (o_parent o =? l) eqn:Q; [apply N.eqb_eq in Q; contradiction|].
    destruct (proj2 Bw _ _ _ _ Ers Hp) as (a & Ea & Hla & _). rewrite Eo in Ea. inversion Ea; subst a. fold l in Hla. congruence. }
  assert (T2' : TreeG w2 no_ovr (Some (r, l))).
  { eapply TreeG_bk_equiv; [|exact T2]. intros g a Eg p. destruct B2 as [K2 _]. pose proof (K2 _ _ Eg) as Kg.
    destruct (N.eq_dec g x) as [->|Hne].
    - rewrite bk_oset_some by exact Kg. rewrite Eo2 in Eg. inversion Eg; subst a.
      unfold bk, epar, no_ovr. rewrite L4. split; intros [X Y]; split; congruence.
    - rewrite bk_oset_other by (rewrite Kg; exact Hne). rewrite bk_oset_other by (rewrite Kg; exact Hne). reflexivity. }
  destruct (frame_rs_rev _ _ _ _ F2 Ers1) as (rs2 & E0 & C2). rewrite E0. cbn [bind].
  destruct (PR _ _ E0) as (rs1' & Ers1' & Lrs2). rewrite Ers1 in Ers1'. inversion Ers1'; subst rs1'.
  destruct (collect_orphans rs2 l) as [orph rs3] eqn:Ec.
  assert (Elx2 : aget l (r_local rs2) = Some x) by (rewrite Lrs2; exact Eidx1).
  pose proof (TreeG_collect _ _ _ _ _ _ _ _ _ B2 T2' E0 Elx2 Eo2 Hch Ec) as T3.
  destruct (collect_spec _ _ _ _ Ec) as (CL & CO & CLs).
  assert (B3 : Base (set_rs w2 r rs3)).
  { eapply frame_Base; [|exact B2]. eapply frame_set_rs; [exact E0|]. unfold ridx.
    change rs3 with (snd (orph, rs3)). rewrite <- Ec. apply ridx_collect. }
  assert (Ers3 : get_rs (set_rs w2 r rs3) r = Some rs3) by (rewrite get_rs_set_rs, N.eqb_refl; reflexivity).
  rewrite <- (fulls_local rs2 rs3 orph CL) in T3.
  assert (ND : NoDup orph).
  { subst orph. destruct (aget l (r_orphans rs2)) eqn:El; [|constructor]. eapply (tO3 _ _ _ T2'); eauto. }
  apply (adopt_ok orph _ no_ovr r rs3 B3 T3 Ers3 ND ltac:(intros; reflexivity)).
  intros c Ic. subst orph. destruct (aget l (r_orphans rs2)) as [ls|] eqn:El; [|destruct Ic].
  destruct (tO1 _ _ _ T2' _ _ _ _ _ E0 El Ic) as (_ & _ & cf & co & A3 & _). rewrite CL. congruence.
Qed.

(* ---------- handle_object_reparented ---------- *)
Lemma reparent_ok : forall w r f q o rs, Base w -> TreeG w (oset no_ovr f (Some q)) None ->
  get_obj w f = Some o -> o_region o = r -> get_rs w r = Some rs -> aget (o_lid o) (r_local rs) = Some f ->
  handle_object_reparented w r f q <> None.
Proof.
  intros w r f q o rs Bw T Eo Hr Ers Eidx. pose proof Bw as [Kw W2]. pose proof (Kw _ _ Eo) as Kf.
  unfold handle_object_reparented.
  destruct (unparent_object w r f q) as [w1|] eqn:E; cbn [bind].
  2:{ exfalso. eapply unparent_object_ok; eauto. }
  assert (T1 : TreeG w1 (oset (oset no_ovr f (Some q)) f None) None).
  { eapply (TreeG_unparent w _ None r f q o rs w1); eauto. unfold epar, oset. rewrite Kf, N.eqb_refl. reflexivity. }
  destruct (unparent_pres _ _ _ _ _ _ _ Kw Eo Ers E) as (PF & PB & RF & RB).
  pose proof (frame_unparent_object _ _ _ _ _ Kw E) as F1.
  assert (B1 : Base w1) by (eapply frame_Base; eauto).
  destruct (PB _ _ Eo) as (o1 & E0 & L1 & L2 & L3 & L4 & _). rewrite E0. cbn [bind].
  destruct (RB _ _ Ers) as (rs1 & Ers1 & Lrs1).
  eapply (parent_object_ok w1 _ None r f _ o1 rs1); [exact B1|exact T1|exact E0|congruence|exact Ers1| |].
  - rewrite Lrs1, L1. exact Eidx.
  - unfold oset. rewrite N.eqb_refl. reflexivity.
Qed.

(* ---------- _track_new_object ---------- *)
Lemma track_new_ok : forall w r o, Idx w -> Tree w -> get_obj w (o_full o) = None -> o_region o = r ->
  o_children o = [] -> o_plink o = None -> region_state w r <> None -> lid_unique w r (o_lid o) (o_full o) -> o_parent o <> o_lid o ->
  track_new w r o <> None.
Proof.
  intros w r o I T Hn Hr Hc Hpl Hrs Hu Hself. pose proof I as (K & A & B). unfold track_new.
  destruct (region_state w r) as [rs|] eqn:Ers; [|congruence]. apply region_state_some in Ers. destruct Ers as [Ers Ht].
  assert (Hfree : aget (o_lid o) (r_local rs) = None).
  { destruct (aget (o_lid o) (r_local rs)) as [g|] eqn:Eg; [|reflexivity].
    pose proof (Hu _ _ Ers Eg) as ->. destruct (A _ _ _ _ Ers Eg) as (og & Eog & _). congruence. }
  assert (Eo : get_obj (set_obj w o) (o_full o) = Some o) by (rewrite get_obj_set_obj, N.eqb_refl; reflexivity).
  assert (T0 : TreeG (set_obj w o) (oset no_ovr (o_full o) None) None).
  { apply TreeG_new_obj; [apply Idx_Base; exact I|exact T|exact Hn|exact Hc|exact Hpl]. }
  assert (B0 : Base (set_obj w o)) by (eapply IdxX_Base; apply IdxX_new; eauto).
  destruct (track_object (set_obj w o) r (o_full o)) as [w1|] eqn:E; cbn [bind].
  2:{ exfalso. eapply (track_object_ok (set_obj w o) r (o_full o) o rs); eauto. }
  assert (Hfree' : exists rs, get_rs (set_obj w o) r = Some rs /\ r_tracked rs = true /\ aget (o_lid o) (r_local rs) = None).
  { exists rs. rewrite get_rs_set_obj. auto. }
  destruct (track_Idx _ _ _ _ _ (IdxX_new _ o I Hn) Eo Hr Hfree' E) as [I1 FO].
  pose proof (FO (o_full o)) as C. rewrite Eo in C. destruct (get_obj w1 (o_full o)) as [o1|]; cbn in C; [|discriminate].
  cbn [bind]. destruct (region_state w1 (o_region o1)); discriminate.
Qed.

(* ---------- _update_existing_object ---------- *)
Lemma hooks_ok : forall w3 f kind (b : bool) o3, get_obj w3 f = Some o3 ->
  (if b then
     o3 <- get_obj w3 f ;;
     match region_state w3 (o_region o3) with
     | Some _ => Some (resolve_futures w3 (o_region o3) (o_lid o3) kind f)
     | None => Some w3
     end
   else Some w3) <> None.
Proof.
  intros w3 f kind b o3 E. destruct b; [|discriminate]. rewrite E. cbn [bind].
  destruct (region_state w3 (o_region o3)); discriminate.
Qed.

Lemma second_block_ok : forall w1 f o1 o2 nr (b : bool), Idx w1 -> Tree w1 -> get_obj w1 f = Some o1 ->
  o_lid o2 = o_lid o1 -> o_full o2 = o_full o1 -> o_region o2 = o_region o1 -> o_children o2 = o_children o1 ->
  o_plink o2 = o_plink o1 -> o_region o1 = nr ->
  (if b then handle_object_reparented (set_obj w1 o2) nr f (o_parent o1) else Some (set_obj w1 o2)) <> None.
Proof.
  intros w1 f o1 o2 nr b I T Eo H1 H2 H3 H4 H5 Hr. pose proof I as (K & A & B). pose proof (K _ _ Eo) as Kf.
  destruct b; [|discriminate].
  destruct (B _ _ Eo) as (rs & Ers & _ & Elx). rewrite Hr in Ers.
  assert (T2 : TreeG (set_obj w1 o2) (oset no_ovr f (Some (o_parent o1))) None).
  { eapply TreeG_set_fields; eauto. apply Idx_Base. exact I. }
  assert (B2 : Base (set_obj w1 o2)).
  { eapply frame_Base; [|apply Idx_Base; exact I]. eapply (frame_set_obj w1 f o1); [exact Eo| |exact Kf]. unfold core. congruence. }
  eapply (reparent_ok (set_obj w1 o2) nr f (o_parent o1) o2 rs); eauto.
  + rewrite get_obj_set_obj, H2, Kf, N.eqb_refl. reflexivity.
  + congruence.
  + rewrite H1. exact Elx.
Qed.

Lemma update_existing_ok : forall w f p k o, Idx w -> Tree w -> get_obj w f = Some o ->
  region_state w (dflt (p_region p) (o_region o)) <> None ->
  lid_unique w (dflt (p_region p) (o_region o)) (dflt (p_lid p) (o_lid o)) f ->
  (o_region o <> dflt (p_region p) (o_region o) -> dflt (p_parent p) (o_parent o) <> dflt (p_lid p) (o_lid o)) ->
  (o_region o = dflt (p_region p) (o_region o) -> o_lid o <> dflt (p_lid p) (o_lid o) -> o_parent o <> dflt (p_lid p) (o_lid o)) ->
  update_existing w f p k <> None.
Proof.
  intros w f p k o I T Eo Hnew Huniq Hself1 Hself2. pose proof I as (K & A & B). unfold update_existing.
  rewrite Eo. cbn [bind].
  pose proof (K _ _ Eo) as Kf.
  destruct (B _ _ Eo) as (rso & Erso & Htso & Elo).
  assert (Eold : region_state w (o_region o) = Some rso).
  { unfold region_state. rewrite Erso, Htso. reflexivity. }
  rewrite Eold.
  set (nr := dflt (p_region p) (o_region o)) in *. set (nl := dflt (p_lid p) (o_lid o)) in *.
  set (np := dflt (p_parent p) (o_parent o)) in *.
  destruct (region_state w nr) as [rsn|] eqn:Enew; [|congruence]. clear Hnew.
  apply region_state_some in Enew. destruct Enew as [Ersn Htn].
  destruct (o_region o =? nr) eqn:Qr; cbn [negb andb is_some].
  - (* same region *)
    apply N.eqb_eq in Qr.
    assert (Qr2 : (nr =? o_region o) = true) by (apply N.eqb_eq; congruence).
    destruct (o_lid o =? nl) eqn:Ql; cbn [negb andb is_some].
    + (* same lid *)
      apply N.eqb_eq in Ql. cbn [bind]. rewrite Eo. cbn [bind].
      destruct (update_properties o p) as [o2 ch1] eqn:Eu.
      pose proof (update_properties_tcore _ _ _ _ Eu) as C. apply tcore_inj' in C. cbn in C. destruct C as (U1 & U2 & U3 & U4 & U5).
      rewrite Qr2. cbn [negb andb].
      match goal with |- bind ?x _ <> None => destruct x as [w3|] eqn:E end; cbn [bind].
      2:{ exfalso. revert E. eapply (second_block_ok w f o o2 nr _ I T Eo); [| | |exact U5|exact (update_properties_plink _ _ _ _ Eu)|exact Qr].
          - transitivity nl; [exact U1|symmetry; exact Ql].
          - exact U2.
          - transitivity nr; [exact U3|symmetry; exact Qr]. }
      assert (F2 : frame w (set_obj w o2)).
      { eapply (frame_set_obj w f o); [exact Eo| |exact Kf]. unfold core. fold nl in U1. fold nr in U3. congruence. }
      assert (K2 : keys_ok (set_obj w o2)) by (eapply frame_keys; eauto).
      pose proof (second_same_frame _ _ _ _ _ _ K2 E) as F3.
      assert (Eo2 : get_obj (set_obj w o2) f = Some o2) by (rewrite get_obj_set_obj, U2, Kf, N.eqb_refl; reflexivity).
      destruct (frame_obj_rev _ _ _ _ F3 Eo2) as (o3 & Eo3 & _).
      eapply hooks_ok; eauto.
    + (* local id changes inside the region *)
      apply N.eqb_neq in Ql.
      destruct (untrack_object w (o_region o) f) as [w1|] eqn:E; cbn [bind].
      2:{ exfalso. eapply (untrack_object_ok w no_ovr (o_region o) f o); eauto. }
      destruct (untrack_IdxX _ _ _ _ _ I Eo eq_refl E) as (IX1 & (o1 & E0 & C1) & FO1 & FR1).
      rewrite E0. cbn [bind].
      pose proof (core_inj _ _ C1) as (C1l & C1f & C1r).
      destruct (untrack_object_TreeG _ _ _ _ _ I T Eo eq_refl E) as (TG1 & o1' & Eo1' & P1 & Hch1).
      rewrite E0 in Eo1'. inversion Eo1'; subst o1'; clear Eo1'.
      assert (P1p : o_parent o1 = o_parent o) by (unfold pcore in P1; congruence).
      assert (UNI : forall r rs c, get_rs w1 r = Some rs -> aget c (r_local rs) <> Some f).
      { intros r rs c E1' E2'. destruct IX1 as (_ & AX & _). destruct (AX _ _ _ _ E1' E2') as [Hne _]. congruence. }
      assert (TG1' : TreeG (set_obj w1 (with_lid o1 nl)) (oset no_ovr f None) None).
      { assert (Pl1 : o_plink o1 = None).
        { eapply (detached_plink_none w1 _ None f o1); [apply IX1|exact TG1| |exact E0]. unfold oset. rewrite N.eqb_refl. reflexivity. }
        eapply TreeG_set_detached; [eapply IdxX_Base; exact IX1|exact TG1| |exact UNI|eauto| |exact Hch1|exact Pl1].
        - unfold oset. rewrite N.eqb_refl. reflexivity.
        - cbn. congruence. }
      assert (IX1' : IdxX (set_obj w1 (with_lid o1 nl)) f).
      { apply IdxX_set_obj; [exact IX1|]. cbn. congruence. }
      assert (Eo1n : get_obj (set_obj w1 (with_lid o1 nl)) f = Some (with_lid o1 nl)).
      { rewrite get_obj_set_obj. cbn. rewrite C1f, Kf, N.eqb_refl. reflexivity. }
      assert (Hfree : exists rs, get_rs (set_obj w1 (with_lid o1 nl)) (o_region o) = Some rs /\ r_tracked rs = true /\
                                 aget (o_lid (with_lid o1 nl)) (r_local rs) = None).
      { rewrite get_rs_set_obj. specialize (FR1 (o_region o)). rewrite Erso in FR1. cbn in FR1.
        destruct (get_rs w1 (o_region o)) as [rs1|]; cbn in FR1; [|discriminate].
        unfold ridx, ridx_del in FR1. rewrite N.eqb_refl in FR1. inversion FR1 as [[Ft Fl]].
        exists rs1. split; [reflexivity|]. split; [congruence|]. cbn. rewrite Fl, aget_adel.
        destruct (nl =? o_lid o) eqn:Q; [reflexivity|].
        destruct (aget nl (r_local rso)) as [g|] eqn:Eg; [|reflexivity].
        rewrite <- Qr in Huniq. pose proof (Huniq _ _ Erso Eg) as ->.
        destruct (A _ _ _ _ Erso Eg) as (og & Eog & Hl & _). rewrite Eo in Eog. inversion Eog; subst og.
        rewrite Hl, N.eqb_refl in Q. discriminate. }
      pose proof Hfree as (rsf & Ersf & _ & Hfr).
      destruct (track_object (set_obj w1 (with_lid o1 nl)) (o_region o) f) as [w2|] eqn:E1; cbn [bind].
      2:{ exfalso. revert E1. eapply (track_object_ok _ (o_region o) f (with_lid o1 nl) rsf); [eapply IdxX_Base; exact IX1'|exact TG1'|exact Eo1n| |exact Ersf|exact Hfr|].
          - cbn. exact C1r.
          - cbn. rewrite P1p. apply Hself2; [exact Qr|exact Ql]. }
      destruct (track_Idx _ _ _ _ _ IX1' Eo1n (eq_trans C1r eq_refl) Hfree E1) as [I2 FO2].
      assert (T2 : Tree w2).
      { eapply (track_object_Tree _ (o_region o) f (with_lid o1 nl) rsf w2); [eapply IdxX_Base; exact IX1'|exact TG1'|exact Eo1n| |exact Ersf|exact Hfr| |exact E1].
        - cbn. exact C1r.
        - cbn. rewrite P1p. apply Hself2; [exact Qr|exact Ql]. }
      pose proof IX1' as (K1' & _).
      pose proof (track_object_pcore _ _ _ _ K1' E1 f) as PC. rewrite Eo1n in PC.
      destruct (get_obj w2 f) as [o1b|] eqn:E2; cbn in PC; [|discriminate]. cbn [bind]. inversion PC as [[Cbl Cbf Cbr Cbp]].
      destruct (update_properties o1b p) as [o2 ch1] eqn:Eu.
      pose proof (update_properties_tcore _ _ _ _ Eu) as C. apply tcore_inj' in C. cbn in C. destruct C as (U1 & U2 & U3 & U4 & U5).
      rewrite Qr2. cbn [negb andb].
      assert (Dl : dflt (p_lid p) nl = nl) by (unfold nl; destruct (p_lid p); reflexivity).
      assert (Dr : dflt (p_region p) (o_region o) = nr) by reflexivity.
      pose proof I2 as (K2 & _).
      match goal with |- bind ?x _ <> None => destruct x as [w3|] eqn:E3 end; cbn [bind].
      2:{ exfalso. revert E3. rewrite <- P1p, <- Cbp.
          eapply (second_block_ok w2 f o1b o2 nr _ I2 T2 E2); [| | |exact U5|exact (update_properties_plink _ _ _ _ Eu)|].
          - rewrite U1, Cbl. exact Dl.
          - exact U2.
          - rewrite U3, Cbr, C1r. transitivity nr; [exact Dr|symmetry; exact Qr].
          - rewrite Cbr, C1r. exact Qr. }
      assert (F2 : frame w2 (set_obj w2 o2)).
      { eapply (frame_set_obj w2 f o1b); [exact E2| |eauto]. unfold core. rewrite U1, U2, U3, Cbl, Cbr, C1r, Dl. fold nr. congruence. }
      assert (K2' : keys_ok (set_obj w2 o2)) by (eapply frame_keys; eauto).
      pose proof (second_same_frame _ _ _ _ _ _ K2' E3) as F3.
      assert (Eo2 : get_obj (set_obj w2 o2) f = Some o2) by (rewrite get_obj_set_obj, U2, (K2 _ _ E2), N.eqb_refl; reflexivity).
      destruct (frame_obj_rev _ _ _ _ F3 Eo2) as (o3 & Eo3 & _).
      eapply hooks_ok; eauto.
  - (* region changes *)
    apply N.eqb_neq in Qr.
    destruct (untrack_object w (o_region o) f) as [w1|] eqn:E; cbn [bind].
    2:{ exfalso. eapply (untrack_object_ok w no_ovr (o_region o) f o); eauto. }
    destruct (untrack_IdxX _ _ _ _ _ I Eo eq_refl E) as (IX1 & (o1 & Eo1 & C1) & FO1 & FR1).
    rewrite Eo1. cbn [bind].
    pose proof (core_inj _ _ C1) as (C1l & C1f & C1r).
    destruct (untrack_object_TreeG _ _ _ _ _ I T Eo eq_refl E) as (TG1 & o1' & Eo1' & P1 & Hch1).
    rewrite Eo1 in Eo1'. inversion Eo1'; subst o1'; clear Eo1'.
    assert (P1p : o_parent o1 = o_parent o) by (unfold pcore in P1; congruence).
    destruct (update_properties o1 p) as [o2 ch1] eqn:Eu.
    pose proof (update_properties_tcore _ _ _ _ Eu) as C. apply tcore_inj' in C. cbn in C. destruct C as (U1 & U2 & U3 & U4 & U5).
    assert (Qr2 : (nr =? o_region o) = false) by (apply N.eqb_neq; congruence).
    rewrite Qr2. cbn [negb].
    assert (UNI : forall r rs c, get_rs w1 r = Some rs -> aget c (r_local rs) <> Some f).
    { intros r rs c E1' E2'. destruct IX1 as (_ & AX & _). destruct (AX _ _ _ _ E1' E2') as [Hne _]. congruence. }
    assert (TG2 : TreeG (set_obj w1 o2) (oset no_ovr f None) None).
    { assert (Pl1 : o_plink o1 = None).
      { eapply (detached_plink_none w1 _ None f o1); [apply IX1|exact TG1| |exact Eo1]. unfold oset. rewrite N.eqb_refl. reflexivity. }
      eapply TreeG_set_detached; [eapply IdxX_Base; exact IX1|exact TG1| |exact UNI|eauto| |congruence|].
      - unfold oset. rewrite N.eqb_refl. reflexivity.
      - congruence.
      - rewrite (update_properties_plink _ _ _ _ Eu). exact Pl1. }
    assert (IX2 : IdxX (set_obj w1 o2) f).
    { apply IdxX_set_obj; [exact IX1|]. congruence. }
    assert (Eo2 : get_obj (set_obj w1 o2) f = Some o2).
    { rewrite get_obj_set_obj. rewrite U2, C1f, Kf, N.eqb_refl. reflexivity. }
    assert (Hr2 : o_region o2 = nr) by (rewrite U3, C1r; reflexivity).
    assert (Hfree : exists rs, get_rs (set_obj w1 o2) nr = Some rs /\ r_tracked rs = true /\ aget (o_lid o2) (r_local rs) = None).
    { rewrite get_rs_set_obj. specialize (FR1 nr). rewrite Ersn in FR1. cbn in FR1.
      destruct (get_rs w1 nr) as [rs1|]; cbn in FR1; [|discriminate].
      unfold ridx, ridx_del in FR1. rewrite Qr2 in FR1. inversion FR1 as [[Ft Fl]].
      exists rs1. split; [reflexivity|]. split; [congruence|]. rewrite Fl, U1, C1l. fold nl.
      destruct (aget nl (r_local rsn)) as [g|] eqn:Eg; [|reflexivity].
      pose proof (Huniq _ _ Ersn Eg) as ->.
      destruct (A _ _ _ _ Ersn Eg) as (og & Eog & _ & Hrg). rewrite Eo in Eog. inversion Eog; subst og. congruence. }
    pose proof Hfree as (rsf & Ersf & _ & Hfr).
    destruct (track_object (set_obj w1 o2) nr f) as [w3|] eqn:E0; cbn [bind].
    2:{ exfalso. revert E0. eapply (track_object_ok _ nr f o2 rsf); [eapply IdxX_Base; exact IX2|exact TG2|exact Eo2|exact Hr2|exact Ersf|exact Hfr|].
        rewrite U4, U1, P1p, C1l. apply Hself1. exact Qr. }
    destruct (track_Idx _ _ _ _ _ IX2 Eo2 Hr2 Hfree E0) as [I3 FO3].
    pose proof (FO3 f) as Cb. rewrite Eo2 in Cb. destruct (get_obj w3 f) as [o3|] eqn:Eo3; cbn in Cb; [|discriminate].
    rewrite <- Eo3. eapply hooks_ok; eauto.
Qed.

(* ---------- every event kind ---------- *)
(* the statement's input assumptions (input_tree_ok) + the message comes from / the call names a registered region *)
Definition input_noerr_ok (w : world) (e : event) : Prop :=
  input_tree_ok w e /\
  match e with
  | EKill r _ | EClear r | ETrack r | EReqObj r _ | EReqProps r _ | EReqMissing r => get_rs w r <> None
  | _ => True
  end.

Lemma update_existing_same_ok : forall w f p k o, Idx w -> Tree w -> get_obj w f = Some o ->
  dflt (p_region p) (o_region o) = o_region o -> dflt (p_lid p) (o_lid o) = o_lid o ->
  update_existing w f p k <> None.
Proof.
  intros w f p k o I T Eo Hr Hl. pose proof I as (K & A & B). destruct (B _ _ Eo) as (rs & Ers & Ht & El).
  apply (update_existing_ok w f p k o I T Eo).
  - rewrite Hr. unfold region_state. rewrite Ers, Ht. discriminate.
  - rewrite Hr, Hl. intros rs' g Ers' El'. congruence.
  - intros Hd. congruence.
  - intros _ Hd. congruence.
Qed.

Lemma step_ok : forall w e, Idx w -> Tree w -> acyclic w -> input_noerr_ok w e -> step w e <> None.
Proof.
  intros w e I T AC [Hok Hreg]. pose proof I as (K & A & B).
  destruct e as [cmp r l f p av v|r l v|r l crc v|f v|r l|r|r|r l|r l|r]; cbn [step].
  - destruct Hok as (Hrs & Hu & Hp). destruct (get_obj w f) as [o|] eqn:Eo.
    + destruct Hp as [Hp1 Hp2]. eapply (update_existing_ok w f _ true o); eauto.
    + destruct (region_state w r) eqn:Ers; [|discriminate].
      eapply track_new_ok; eauto; cbn; congruence.
  - destruct (region_state w r) as [rs|] eqn:Ers; [|discriminate].
    destruct (lookup_local w r l) as [o|] eqn:El; [|discriminate].
    destruct (lookup_local_some _ _ _ _ I El) as (Eo & Hl & Hr).
    eapply (update_existing_same_ok w (o_full o) _ true o); eauto.
  - destruct (region_state w r) as [rs|] eqn:Ers; [|discriminate].
    destruct (lookup_local w r l) as [o|] eqn:El; [|discriminate].
    destruct (o_crc o =? crc); [|discriminate].
    destruct (lookup_local_some _ _ _ _ I El) as (Eo & Hl & Hr).
    eapply (update_existing_same_ok w (o_full o) _ true o); eauto.
  - destruct (get_obj w f) as [o|] eqn:Eo; [|discriminate].
    eapply (update_existing_same_ok w f _ false o); eauto.
  - apply step_kill_ok; auto.
  - destruct (get_rs w r); [discriminate|congruence].
  - destruct (get_rs w r); [discriminate|congruence].
  - destruct (get_rs w r); [discriminate|congruence].
  - destruct (get_rs w r); [discriminate|congruence].
  - destruct (get_rs w r); [discriminate|congruence].
Qed.

Definition input_full_ok (w : world) (e : event) : Prop := input_noerr_ok w e /\ acyclic w.

Lemma hist_ok_weaken : forall (P Q : world -> event -> Prop), (forall w e, P w e -> Q w e) ->
  forall h w, hist_ok P w h -> hist_ok Q w h.
Proof.
  intros P Q H. induction h as [|e t IH]; intros w Hh; simpl in *; [exact Logic.I|].
  destruct Hh as [H1 H2]. split; [auto|]. destruct (step w e); [auto|exact Logic.I].
Qed.

(* no handler raises along any history inside the assumptions, and the invariant holds at the end *)
Lemma run_ok : forall h w, Inv w -> hist_ok input_full_ok w h -> exists w', run w h = Some w' /\ Inv w'.
Proof.
  induction h as [|e t IH]; intros w Iw Hh; simpl in *; [eauto|].
  destruct Hh as [[Hn Hac] Hrest]. destruct Iw as [I T].
  destruct (step w e) as [w1|] eqn:Es; [|exfalso; eapply step_ok; eauto].
  apply IH; [|exact Hrest]. eapply step_Inv; [split; eassumption|apply Hn|exact Es].
Qed.

(* ---------- executable versions, for non-vacuity examples ---------- *)
Definition Rkb (ht : N -> N -> nat) (w : world) : bool :=
  forallb (fun kv => (o_parent (snd kv) =? 0) || Nat.ltb (ht (o_region (snd kv)) (o_lid (snd kv))) (ht (o_region (snd kv)) (o_parent (snd kv))))
          (w_full w).

Lemma Rkb_ok : forall ht w, Rkb ht w = true -> Rk ht w.
Proof.
  intros ht w H f o Eo Hp. unfold Rkb in H. rewrite forallb_forall in H. specialize (H (f, o) (aget_In _ _ _ _ Eo)).
  cbn [snd] in H. apply orb_prop in H. destruct H as [H|H]; [apply N.eqb_eq in H; contradiction|]. apply Nat.ltb_lt. exact H.
Qed.

Definition input_full_okb (ht : N -> N -> nat) (w : world) (e : event) : bool :=
  input_tree_okb w e && Rkb ht w &&
  match e with
  | EKill r _ | EClear r | ETrack r | EReqObj r _ | EReqProps r _ | EReqMissing r => is_some (get_rs w r)
  | _ => true
  end.

Lemma input_full_okb_ok : forall ht w e, input_full_okb ht w e = true -> input_full_ok w e.
Proof.
  intros ht w e H. unfold input_full_okb in H. apply andb_prop in H. destruct H as [H H3]. apply andb_prop in H. destruct H as [H1 H2].
  split; [split; [apply input_tree_okb_ok; exact H1|]|exists ht; apply Rkb_ok; exact H2].
  destruct e; auto; destruct (get_rs w r); try discriminate; discriminate.
Qed.

Fixpoint hist_full_okb (ht : N -> N -> nat) (w : world) (h : list event) : bool :=
  match h with
  | [] => true
  | e :: t => input_full_okb ht w e && match step w e with Some w1 => hist_full_okb ht w1 t | None => true end
  end.

Lemma hist_full_okb_ok : forall ht h w, hist_full_okb ht w h = true -> hist_ok input_full_ok w h.
Proof.
  intros ht. induction h as [|e t IH]; intros w H; simpl in *; [exact Logic.I|].
  apply andb_prop in H. destruct H as [H1 H2]. split; [eapply input_full_okb_ok; exact H1|].
  destruct (step w e); [apply IH; exact H2|exact Logic.I].
Qed.
