(* C14 - the reference-set clause: the objects found by full id after any history are exactly those of the flat
   reference semantics ref_set (SceneGraphRef.v): announced and not since killed (directly or through a killed
   ancestor, avatars spared) or unloaded.  Lemmas only. *)
From Coq Require Import NArith List Bool Lia Arith.
From HV Require Import Obj.SceneGraph Obj.SceneGraphProofs Obj.SceneGraphTree Obj.SceneGraphKill Obj.SceneGraphFut
  Obj.SceneGraphNoErr Obj.SceneGraphRef.
Import ListNotations.
Open Scope N_scope.

(* ====================================================================================================================
   1. association lists with duplicate-free keys
   ==================================================================================================================== *)
Definition nodupk {A} (m : list (N * A)) : Prop := NoDup (map fst m).

Lemma adel_keys_In : forall A (m : list (N * A)) k x, In x (map fst (adel k m)) -> In x (map fst m) /\ x <> k.
Proof.
  induction m as [|[a v] t IH]; intros k x H; simpl in *; [contradiction|].
  destruct (k =? a) eqn:Q.
  - destruct (IH _ _ H) as [H1 H2]. auto.
  - simpl in H. destruct H as [->|H].
    + split; [auto|]. apply N.eqb_neq in Q. congruence.
    + destruct (IH _ _ H) as [H1 H2]. auto.
Qed.

Lemma nodupk_adel : forall A (m : list (N * A)) k, nodupk m -> nodupk (adel k m).
Proof.
  unfold nodupk. induction m as [|[a v] t IH]; intros k H; simpl in *; [constructor|].
  inversion H as [|? ? Hn Ht]; subst. destruct (k =? a); [apply IH; exact Ht|].
  simpl. constructor; [|apply IH; exact Ht]. intro Hi. apply adel_keys_In in Hi. tauto.
Qed.

Lemma nodupk_aset : forall A (m : list (N * A)) k v, nodupk m -> nodupk (aset k v m).
Proof.
  intros A m k v H. unfold aset, nodupk. simpl. constructor; [|apply nodupk_adel; exact H].
  intro Hi. apply adel_keys_In in Hi. destruct Hi as [_ Hi]. congruence.
Qed.

Lemma filter_keys_In : forall A (P : N * A -> bool) (m : list (N * A)) x, In x (map fst (filter P m)) -> In x (map fst m).
Proof.
  intros A P m x H. apply in_map_iff in H. destruct H as (kv & E & I). apply filter_In in I. destruct I as [I _].
  apply in_map_iff. eauto.
Qed.

Lemma nodupk_filter : forall A (P : N * A -> bool) (m : list (N * A)), nodupk m -> nodupk (filter P m).
Proof.
  unfold nodupk. induction m as [|[a v] t IH]; intros H; simpl in *; [constructor|].
  inversion H as [|? ? Hn Ht]; subst. destruct (P (a, v)); [|auto].
  simpl. constructor; [|auto]. intro Hi. apply Hn. eapply filter_keys_In; eauto.
Qed.

Lemma aget_none_notin : forall A (m : list (N * A)) k, aget k m = None -> ~ In k (map fst m).
Proof.
  induction m as [|[a v] t IH]; intros k H; simpl in *; [tauto|].
  destruct (k =? a) eqn:Q; [discriminate|]. apply N.eqb_neq in Q. intros [E|I]; [congruence|]. eapply IH; eauto.
Qed.

Lemma In_aget : forall A (m : list (N * A)) k v, nodupk m -> In (k, v) m -> aget k m = Some v.
Proof.
  unfold nodupk. induction m as [|[a x] t IH]; intros k v H I; simpl in *; [contradiction|].
  inversion H as [|? ? Hn Ht]; subst. destruct I as [E|I].
  - inversion E; subst. rewrite N.eqb_refl. reflexivity.
  - destruct (k =? a) eqn:Q; [|auto]. apply N.eqb_eq in Q. subst a. exfalso. apply Hn. apply in_map_iff. exists (k, v). auto.
Qed.

Lemma aget_filter : forall A (P : N * A -> bool) (m : list (N * A)) k, nodupk m ->
  aget k (filter P m) = match aget k m with Some v => if P (k, v) then Some v else None | None => None end.
Proof.
  unfold nodupk. induction m as [|[a x] t IH]; intros k H; simpl in *; [reflexivity|].
  inversion H as [|? ? Hn Ht]; subst. destruct (k =? a) eqn:Q.
  - apply N.eqb_eq in Q. subst a. destruct (P (k, x)) eqn:Pk.
    + simpl. rewrite N.eqb_refl. reflexivity.
    + rewrite IH by exact Ht. destruct (aget k t) as [v|] eqn:E; [|reflexivity].
      exfalso. apply Hn. apply in_map_iff. exists (k, v). split; [reflexivity|]. eapply aget_In; eauto.
  - destruct (P (a, x)); [simpl; rewrite Q|]; apply IH; exact Ht.
Qed.

Lemma aget_map_snd : forall A B (g : A -> B) (m : list (N * A)) k,
  aget k (map (fun kv => (fst kv, g (snd kv))) m) = option_map g (aget k m).
Proof.
  induction m as [|[a x] t IH]; intros k; simpl; [reflexivity|]. destruct (k =? a); [reflexivity|apply IH].
Qed.

Lemma aget_tracked : forall w g, aget g (tracked w) = option_map rob_of (get_obj w g).
Proof. intros. unfold tracked, get_obj. apply aget_map_snd. Qed.

Lemma mem_sadd : forall x y s, mem x (sadd y s) = (x =? y) || mem x s.
Proof.
  intros x y s. unfold sadd. destruct (mem y s) eqn:M.
  - destruct (x =? y) eqn:Q; [|reflexivity]. apply N.eqb_eq in Q. subst. rewrite M. reflexivity.
  - reflexivity.
Qed.

Lemma mem_sdel : forall x y s, mem x (sdel y s) = negb (x =? y) && mem x s.
Proof.
  intros x y s. unfold sdel. induction s as [|a t IH]; simpl; [rewrite andb_false_r; reflexivity|].
  destruct (y =? a) eqn:Q; simpl.
  - apply N.eqb_eq in Q. subst a. rewrite IH. destruct (x =? y); reflexivity.
  - rewrite IH. destruct (x =? a) eqn:Q2; [|reflexivity]. apply N.eqb_eq in Q2. subst a. rewrite N.eqb_sym, Q. reflexivity.
Qed.

(* ====================================================================================================================
   2. sfr: a step that keeps (local id, full id, region, parent id, avatar?) of every object and the tracked flag of
      every region - everything the reference set can see
   ==================================================================================================================== *)
Definition sg (o : obj) : N * N * N * N * bool := (o_lid o, o_full o, o_region o, o_parent o, o_av o).

Definition sfr (w w' : world) : Prop :=
  (forall g, option_map sg (get_obj w' g) = option_map sg (get_obj w g)) /\
  (forall r, option_map r_tracked (get_rs w' r) = option_map r_tracked (get_rs w r)).

Lemma sfr_refl : forall w, sfr w w.
Proof. split; reflexivity. Qed.
Lemma sfr_trans : forall a b c, sfr a b -> sfr b c -> sfr a c.
Proof. intros a b c [H1 H2] [H3 H4]. split; intros; [rewrite H3, H1|rewrite H4, H2]; reflexivity. Qed.

Lemma sg_inj : forall a b, sg a = sg b ->
  o_lid a = o_lid b /\ o_full a = o_full b /\ o_region a = o_region b /\ o_parent a = o_parent b /\ o_av a = o_av b.
Proof. unfold sg. intros a b H. inversion H. auto. Qed.

Lemma sg_rob : forall a b, sg a = sg b -> rob_of a = rob_of b.
Proof. intros a b H. apply sg_inj in H. destruct H as (H1 & H2 & H3 & H4 & H5). unfold rob_of. congruence. Qed.

Lemma sfr_obj : forall w w' g a', sfr w w' -> get_obj w' g = Some a' -> exists a, get_obj w g = Some a /\ sg a' = sg a.
Proof.
  intros w w' g a' [H _] E. specialize (H g). rewrite E in H. cbn in H. destruct (get_obj w g) as [a|]; cbn in H; [|discriminate].
  exists a. split; [reflexivity|congruence].
Qed.
Lemma sfr_obj_rev : forall w w' g a, sfr w w' -> get_obj w g = Some a -> exists a', get_obj w' g = Some a' /\ sg a' = sg a.
Proof.
  intros w w' g a [H _] E. specialize (H g). rewrite E in H. cbn in H. destruct (get_obj w' g) as [a'|]; cbn in H; [|discriminate].
  exists a'. split; [reflexivity|congruence].
Qed.

Lemma sfr_keys : forall w w', sfr w w' -> keys_ok w -> keys_ok w'.
Proof.
  intros w w' F K g a' E. destruct (sfr_obj _ _ _ _ F E) as (a & Ea & C). apply sg_inj in C. destruct C as (_ & C & _).
  rewrite C. eauto.
Qed.

Lemma sfr_set_obj : forall w f o o', get_obj w f = Some o -> sg o' = sg o -> o_full o = f -> sfr w (set_obj w o').
Proof.
  intros w f o o' E C K. pose proof (sg_inj _ _ C) as (_ & Cf & _). split; [|reflexivity].
  intros g. rewrite get_obj_set_obj. destruct (g =? o_full o') eqn:Q; [|reflexivity].
  apply N.eqb_eq in Q. subst g. rewrite Cf, K, E. cbn. congruence.
Qed.

Lemma sfr_set_rs : forall w r rs rs', get_rs w r = Some rs -> r_tracked rs' = r_tracked rs -> sfr w (set_rs w r rs').
Proof.
  intros w r rs rs' E C. split; [reflexivity|]. intros r0. rewrite get_rs_set_rs. destruct (r0 =? r) eqn:Q; [|reflexivity].
  apply N.eqb_eq in Q. subst r0. rewrite E. cbn. congruence.
Qed.

Lemma sfr_set_futs : forall w fs, sfr w (set_futs w fs).
Proof. split; reflexivity. Qed.

Lemma sfr_register_all : forall ls w r, sfr w (register_all w r ls).
Proof. induction ls; intros; simpl; [apply sfr_refl|]. eapply sfr_trans; [apply sfr_set_futs|apply IHls]. Qed.

Lemma tracked_untrack_orphan : forall rs l p, r_tracked (untrack_orphan rs l p) = r_tracked rs.
Proof.
  intros. unfold untrack_orphan. destruct (aget p (r_orphans rs)); [|reflexivity].
  destruct (if mem l l0 then remove1 l l0 else l0); reflexivity.
Qed.
Lemma tracked_orphan_children : forall ids rs p, r_tracked (orphan_children rs ids p) = r_tracked rs.
Proof. induction ids; intros; simpl; [reflexivity|]. rewrite IHids. reflexivity. Qed.
Lemma tracked_collect : forall rs p, r_tracked (snd (collect_orphans rs p)) = r_tracked rs.
Proof. intros. unfold collect_orphans. destruct (aget p (r_orphans rs)); reflexivity. Qed.

Lemma sfr_parent_object : forall w r f h w', keys_ok w -> parent_object w r f h = Some w' -> sfr w w'.
Proof.
  intros w r f h w' K H. unfold parent_object in H.
  bind_inv H. bind_inv H. rename o into o0, r0 into rs.
  destruct (o_parent o0 =? 0); [inversion H; apply sfr_refl|].
  destruct (aget (o_parent o0) (r_local rs)) as [pf|] eqn:Ep.
  - bind_inv H. rename o into po.
    destruct (mem (o_lid o0) (map fst (o_children po))); [discriminate|].
    bind_inv H. rename o into o1. inversion H; subst w'; clear H.
    match type of E2 with get_obj ?W _ = _ => apply sfr_trans with (b := W) end.
    + eapply (sfr_set_obj w pf po); [eauto|reflexivity|eauto].
    + eapply (sfr_set_obj _ f o1); [eauto|reflexivity|].
      rewrite get_obj_set_obj in E2. cbn [o_full with_children] in E2.
      destruct (f =? o_full po) eqn:Q.
      * inversion E2; subst o1. cbn. apply N.eqb_eq in Q. congruence.
      * eauto.
  - inversion H; subst w'; clear H.
    match goal with |- sfr _ (set_obj ?W _) => apply sfr_trans with (b := W) end.
    + eapply (sfr_set_rs w r rs); [eauto|reflexivity].
    + eapply (sfr_set_obj _ f o0); [rewrite get_obj_set_rs; eauto|reflexivity|eauto].
Qed.

Lemma sfr_unparent_object : forall w r f p w', keys_ok w -> unparent_object w r f p = Some w' -> sfr w w'.
Proof.
  intros w r f p w' K H. unfold unparent_object in H.
  bind_inv H. bind_inv H. rename o into o0, r0 into rs.
  assert (F1 : sfr w (set_obj w (with_plink o0 None))).
  { eapply (sfr_set_obj w f o0); [eauto|reflexivity|eauto]. }
  destruct (p =? 0); [inversion H; subst; exact F1|].
  set (w1 := set_obj w (with_plink o0 None)) in *.
  assert (F2 : sfr w (set_rs w1 r (untrack_orphan rs (o_lid o0) p))).
  { eapply sfr_trans; [exact F1|]. eapply (sfr_set_rs w1 r rs); [exact E0|apply tracked_untrack_orphan]. }
  set (w2 := set_rs w1 r (untrack_orphan rs (o_lid o0) p)) in *.
  destruct (aget p (r_local rs)) as [pf|]; [|inversion H; subst; exact F2].
  destruct (get_obj w2 pf) as [po|] eqn:Epo; [|discriminate].
  destruct (mem (o_lid o0) (map fst (o_children po))); inversion H; subst; [|exact F2].
  eapply sfr_trans; [exact F2|].
  eapply (sfr_set_obj w2 pf po); [eauto|reflexivity|].
  eapply (sfr_keys w w2); eauto.
Qed.

Lemma sfr_reparented : forall w r f p w', keys_ok w -> handle_object_reparented w r f p = Some w' -> sfr w w'.
Proof.
  intros w r f p w' K H. unfold handle_object_reparented in H. bind_inv H. bind_inv H.
  pose proof (sfr_unparent_object _ _ _ _ _ K E) as F1.
  eapply sfr_trans; [exact F1|]. eapply sfr_parent_object; [|exact H]. eapply sfr_keys; eauto.
Qed.

Lemma sfr_adopt : forall orph w r w', keys_ok w -> adopt w r orph = Some w' -> sfr w w'.
Proof.
  induction orph as [|c t IH]; intros w r w' K H; simpl in H.
  - inversion H. apply sfr_refl.
  - bind_inv H. destruct (aget c (r_local r0)); [|discriminate]. bind_inv H.
    pose proof (sfr_parent_object _ _ _ _ _ K E0) as F1.
    eapply sfr_trans; [exact F1|]. eapply IH; [|exact H]. eapply sfr_keys; eauto.
Qed.

Lemma sfr_unparent_children : forall ids w r w', keys_ok w -> unparent_children w r ids = Some w' -> sfr w w'.
Proof.
  induction ids as [|c t IH]; intros w r w' K H; simpl in H.
  - inversion H. apply sfr_refl.
  - bind_inv H. destruct (aget c (r_local r0)); [|discriminate]. bind_inv H. bind_inv H.
    pose proof (sfr_unparent_object _ _ _ _ _ K E1) as F1.
    eapply sfr_trans; [exact F1|]. eapply IH; [|exact H]. eapply sfr_keys; eauto.
Qed.

Lemma sfr_untrack : forall w r f w', keys_ok w -> untrack_object w r f = Some w' -> sfr w w'.
Proof.
  intros w r f w' K H. unfold untrack_object in H. bind_inv H. bind_inv H. rename w0 into w1.
  pose proof (sfr_unparent_children _ _ _ _ K E0) as F1. bind_inv H. rename r0 into rs1.
  assert (F2 : sfr w (set_rs w1 r (orphan_children rs1 (map fst (o_children o)) (o_lid o)))).
  { eapply sfr_trans; [exact F1|]. eapply sfr_set_rs; [exact E1|apply tracked_orphan_children]. }
  set (w2 := set_rs w1 r (orphan_children rs1 (map fst (o_children o)) (o_lid o))) in *.
  bind_inv H. destruct (o_children o0); [|discriminate]. bind_inv H. rename w0 into w3.
  assert (K2 : keys_ok w2) by (eapply sfr_keys; eauto).
  pose proof (sfr_unparent_object _ _ _ _ _ K2 E3) as F3.
  bind_inv H. destruct (aget (o_lid o0) (r_local r0)); [|discriminate]. inversion H; subst w'; clear H.
  eapply sfr_trans; [exact F2|]. eapply sfr_trans; [exact F3|]. eapply sfr_trans; [apply sfr_set_futs|].
  eapply sfr_set_rs; [exact E4|reflexivity].
Qed.

Lemma sfr_track : forall w r f w', keys_ok w -> track_object w r f = Some w' -> sfr w w'.
Proof.
  intros w r f w' K H. unfold track_object in H. bind_inv H. bind_inv H. rename r0 into rs.
  match type of H with bind (parent_object ?W _ _ _) _ = _ => set (w1 := W) in * end.
  assert (F1 : sfr w w1) by (eapply sfr_set_rs; [exact E0|reflexivity]).
  assert (K1 : keys_ok w1) by exact K.
  bind_inv H. rename w0 into w2. pose proof (sfr_parent_object _ _ _ _ _ K1 E1) as F2.
  bind_inv H. rename r0 into rs2. destruct (collect_orphans rs2 (o_lid o)) as [orph rs3] eqn:Ec.
  assert (K2 : keys_ok w2) by (eapply sfr_keys; eauto).
  assert (F3 : sfr w2 (set_rs w2 r rs3)).
  { eapply sfr_set_rs; [exact E2|]. change rs3 with (snd (orph, rs3)). rewrite <- Ec. apply tracked_collect. }
  assert (K3 : keys_ok (set_rs w2 r rs3)) by exact K2.
  pose proof (sfr_adopt _ _ _ _ K3 H) as F4.
  eapply sfr_trans; [exact F1|]. eapply sfr_trans; [exact F2|]. eapply sfr_trans; eauto.
Qed.

(* ====================================================================================================================
   3. object updates: every other object keeps its signature, the updated one takes the message's values
   ==================================================================================================================== *)
Definition upd_sg (o : obj) (p : props) : N * N * N * N * bool :=
  (dflt (p_lid p) (o_lid o), o_full o, dflt (p_region p) (o_region o), dflt (p_parent p) (o_parent o), dflt (p_av p) (o_av o)).

Lemma update_properties_sg : forall o p o' c, update_properties o p = (o', c) -> sg o' = upd_sg o p.
Proof. intros o p o' c H. unfold update_properties in H. inversion H; subst. reflexivity. Qed.

(* sfr except at f, which ends with the signature s *)
Definition sfr_at (w w' : world) (f : N) (s : N * N * N * N * bool) : Prop :=
  (forall g, option_map sg (get_obj w' g) = if g =? f then Some s else option_map sg (get_obj w g)) /\
  (forall r, option_map r_tracked (get_rs w' r) = option_map r_tracked (get_rs w r)).

Lemma sfr_at_then : forall w w1 w' f s, sfr_at w w1 f s -> sfr w1 w' -> sfr_at w w' f s.
Proof. intros w w1 w' f s [H1 H2] [H3 H4]. split; intros; [rewrite H3, H1|rewrite H4, H2]; reflexivity. Qed.

Lemma sfr_then_set : forall w w1 f o1 o2, sfr w w1 -> get_obj w1 f = Some o1 -> o_full o2 = f ->
  sfr_at w (set_obj w1 o2) f (sg o2).
Proof.
  intros w w1 f o1 o2 [H1 H2] E K. split; [|exact H2]. intros g. rewrite get_obj_set_obj, K.
  destruct (g =? f); [reflexivity|apply H1].
Qed.

Lemma hooks_sfr : forall w3 f kind (b : bool) w',
  (if b then
     o3 <- get_obj w3 f ;;
     match region_state w3 (o_region o3) with
     | Some _ => Some (resolve_futures w3 (o_region o3) (o_lid o3) kind f)
     | None => Some w3
     end
   else Some w3) = Some w' -> sfr w3 w'.
Proof.
  intros w3 f kind b w' H. destruct b; [|inversion H; apply sfr_refl].
  bind_inv H. destruct (region_state w3 (o_region o)); inversion H; [apply sfr_set_futs|apply sfr_refl].
Qed.

Lemma update_existing_sg : forall w f p k w' o, keys_ok w -> get_obj w f = Some o -> update_existing w f p k = Some w' ->
  sfr_at w w' f (upd_sg o p).
Proof.
  intros w f p k w' o K Eo H. unfold update_existing in H. rewrite Eo in H. cbn [bind] in H.
  pose proof (K _ _ Eo) as Kf.
  match type of H with bind ?st _ = _ => destruct st as [[w1 ch0]|] eqn:E1; cbn [bind] in H; [|discriminate] end.
  (* first block: a frame step, after which f carries o's signature except possibly the new local id *)
  assert (A1 : sfr_at w w1 f (if negb (o_region o =? dflt (p_region p) (o_region o)) then sg o
                              else if negb (o_lid o =? dflt (p_lid p) (o_lid o)) && is_some (region_state w (o_region o))
                                   then (dflt (p_lid p) (o_lid o), o_full o, o_region o, o_parent o, o_av o) else sg o) /\ keys_ok w1).
  { assert (SAME : sfr_at w w f (sg o)).
    { split; [|reflexivity]. intros g. destruct (g =? f) eqn:Q; [|reflexivity]. apply N.eqb_eq in Q. subst g. rewrite Eo. reflexivity. }
    assert (FR : forall w1, sfr w w1 -> sfr_at w w1 f (sg o)).
    { intros wx F. eapply sfr_at_then; [exact SAME|exact F]. }
    destruct (negb (o_region o =? dflt (p_region p) (o_region o))).
    - destruct (region_state w (o_region o)).
      + bind_inv E1. injection E1 as <- <-. pose proof (sfr_untrack _ _ _ _ K E) as F. split; [apply FR; exact F|eapply sfr_keys; eauto].
      + injection E1 as <- <-. split; [exact SAME|exact K].
    - destruct (negb (o_lid o =? dflt (p_lid p) (o_lid o)) && is_some (region_state w (o_region o))).
      + bind_inv E1. bind_inv E1. bind_inv E1. injection E1 as <- <-. rename w0 into wa, o0 into oa.
        pose proof (sfr_untrack _ _ _ _ K E) as Fa. pose proof (sfr_keys _ _ Fa K) as Ka.
        destruct (sfr_obj _ _ _ _ Fa E0) as (o' & Eo' & Ca). rewrite Eo in Eo'. inversion Eo'; subst o'.
        pose proof (sg_inj _ _ Ca) as (Ca1 & Ca2 & Ca3 & Ca4 & Ca5).
        assert (Kb : o_full (with_lid oa (dflt (p_lid p) (o_lid o))) = f) by (cbn; congruence).
        pose proof (sfr_then_set w wa f oa _ Fa E0 Kb) as Fb.
        assert (Kb' : keys_ok (set_obj wa (with_lid oa (dflt (p_lid p) (o_lid o))))).
        { intros g a Eg. rewrite get_obj_set_obj, Kb in Eg. destruct (g =? f) eqn:Q; [|eauto].
          apply N.eqb_eq in Q. inversion Eg; subst. exact Kb. }
        pose proof (sfr_track _ _ _ _ Kb' E2) as Fc. split.
        * eapply sfr_at_then; [|exact Fc]. unfold sg in Fb. cbn [with_lid o_lid o_full o_region o_parent o_av] in Fb.
          rewrite Ca2, Ca3, Ca4, Ca5 in Fb. exact Fb.
        * eapply sfr_keys; eauto.
      + injection E1 as <- <-. split; [exact SAME|exact K]. }
  destruct A1 as [A1 K1]. bind_inv H. rename o0 into o1. destruct (update_properties o1 p) as [o2 ch1] eqn:Eu.
  pose proof (update_properties_sg _ _ _ _ Eu) as C2.
  (* the signature of o1 is known from A1 *)
  assert (S2 : sg o2 = upd_sg o p).
  { rewrite C2. destruct A1 as [A1 _]. specialize (A1 f). rewrite E, N.eqb_refl in A1. cbn in A1. injection A1 as A1.
    unfold upd_sg. destruct (negb (o_region o =? dflt (p_region p) (o_region o))).
    - apply sg_inj in A1. destruct A1 as (B1 & B2 & B3 & B4 & B5). congruence.
    - destruct (negb (o_lid o =? dflt (p_lid p) (o_lid o)) && is_some (region_state w (o_region o))).
      + unfold sg in A1. injection A1 as B1 B2 B3 B4 B5. rewrite B1, B2, B3, B4, B5.
        destruct (p_lid p); reflexivity.
      + apply sg_inj in A1. destruct A1 as (B1 & B2 & B3 & B4 & B5). congruence. }
  assert (Kf2 : o_full o2 = f).
  { apply (f_equal (fun t => snd (fst (fst (fst t))))) in S2. cbn in S2. congruence. }
  assert (A2 : sfr_at w (set_obj w1 o2) f (upd_sg o p)).
  { destruct A1 as [A1 A1r]. split; [|exact A1r]. intros g. rewrite get_obj_set_obj, Kf2.
    destruct (g =? f) eqn:Q; [cbn; congruence|]. rewrite A1, Q. reflexivity. }
  assert (K2 : keys_ok (set_obj w1 o2)).
  { intros g a Eg. rewrite get_obj_set_obj, Kf2 in Eg. destruct (g =? f) eqn:Q; [|eauto].
    apply N.eqb_eq in Q. inversion Eg; subst. exact Kf2. }
  bind_inv H. rename w0 into w3.
  assert (F3 : sfr (set_obj w1 o2) w3).
  { destruct (negb (dflt (p_region p) (o_region o) =? o_region o)).
    - destruct (region_state w (dflt (p_region p) (o_region o))).
      + eapply sfr_track; eauto.
      + inversion E0. apply sfr_refl.
    - destruct (negb (dflt (p_parent p) (o_parent o) =? o_parent o) && is_some (region_state w (dflt (p_region p) (o_region o)))).
      + eapply sfr_reparented; eauto.
      + inversion E0. apply sfr_refl. }
  eapply sfr_at_then; [eapply sfr_at_then; [exact A2|exact F3]|]. eapply hooks_sfr; exact H.
Qed.

Lemma track_new_sg : forall w r o w', keys_ok w -> get_obj w (o_full o) = None -> track_new w r o = Some w' ->
  sfr_at w w' (o_full o) (sg o).
Proof.
  intros w r o w' K Hn H. unfold track_new in H. bind_inv H. rename w0 into w1. bind_inv H.
  assert (Ko : keys_ok (set_obj w o)).
  { intros x a Ex. rewrite get_obj_set_obj in Ex. destruct (x =? o_full o) eqn:Q; [|eauto].
    apply N.eqb_eq in Q. inversion Ex; subst. reflexivity. }
  pose proof (sfr_track _ _ _ _ Ko E) as F1.
  assert (A0 : sfr_at w (set_obj w o) (o_full o) (sg o)).
  { split; [|reflexivity]. intros g. rewrite get_obj_set_obj. destruct (g =? o_full o); reflexivity. }
  eapply sfr_at_then; [eapply sfr_at_then; [exact A0|exact F1]|].
  destruct (region_state w1 (o_region o0)); inversion H; [apply sfr_set_futs|apply sfr_refl].
Qed.

(* ====================================================================================================================
   4. the walk-up test [doomed] decides any removal set that is closed the way a kill cascade is
   ==================================================================================================================== *)
Lemma ref_at_some : forall live r p g o, ref_at live r p = Some (g, o) -> In (g, o) live /\ x_region o = r /\ x_lid o = p.
Proof.
  induction live as [|[f a] t IH]; intros r p g o H; simpl in H; [discriminate|].
  destruct ((x_region a =? r) && (x_lid a =? p)) eqn:Q.
  - inversion H; subst. apply andb_prop in Q. destruct Q as [Q1 Q2]. apply N.eqb_eq in Q1, Q2. split; [left; reflexivity|auto].
  - destruct (IH _ _ _ _ H) as (H1 & H2). split; [right; exact H1|exact H2].
Qed.

Lemma ref_at_in : forall live r p g o, In (g, o) live -> x_region o = r -> x_lid o = p -> ref_at live r p <> None.
Proof.
  induction live as [|[f a] t IH]; intros r p g o I Hr Hl; simpl; [destruct I|].
  destruct ((x_region a =? r) && (x_lid a =? p)) eqn:Q; [discriminate|].
  destruct I as [E|I]; [|eauto]. inversion E; subst. rewrite !N.eqb_refl in Q. discriminate.
Qed.

Definition crankL (ht : N -> N -> nat) (live : list (N * rob)) (r l : N) : nat :=
  length (filter (fun kv => Nat.ltb (ht (x_region (snd kv)) (x_lid (snd kv))) (ht r l)) live).

Section DoomedExact.
  Variable live : list (N * rob).
  Variables r l : N.
  Variable gone : N -> Prop.
  Variable ht : N -> N -> nat.
  Hypothesis RK : forall g o, In (g, o) live -> x_parent o <> 0 ->
    (ht (x_region o) (x_lid o) < ht (x_region o) (x_parent o))%nat.
  (* soundness of the removal: whatever goes is the killed id, or a non-avatar whose parent id is the killed id or
     names an object that goes too *)
  Hypothesis SND : forall g o, In (g, o) live -> gone g ->
    x_region o = r /\ (x_lid o = l \/ (x_av o = false /\ x_parent o <> 0 /\
      (x_parent o = l \/ exists g' o', ref_at live r (x_parent o) = Some (g', o') /\ gone g'))).
  (* completeness *)
  Hypothesis C1 : forall g o, In (g, o) live -> x_region o = r -> x_lid o = l -> gone g.
  Hypothesis C2 : forall g o, In (g, o) live -> x_region o = r -> x_av o = false -> x_parent o <> 0 -> x_parent o = l -> gone g.
  Hypothesis C3 : forall g o g' o', In (g, o) live -> x_region o = r -> x_av o = false -> x_parent o <> 0 ->
    ref_at live r (x_parent o) = Some (g', o') -> gone g' -> gone g.

  Lemma doomed_gone : forall n g o, In (g, o) live -> doomed n live r l o = true -> gone g.
  Proof.
    induction n as [|n IH]; intros g o I H; simpl in H; [discriminate|].
    apply andb_prop in H. destruct H as [Hr H]. apply N.eqb_eq in Hr.
    apply orb_prop in H. destruct H as [H|H]; [apply N.eqb_eq in H; eapply C1; eauto|].
    apply andb_prop in H. destruct H as [H H3]. apply andb_prop in H. destruct H as [H1 H2].
    apply negb_true_iff in H1. apply negb_true_iff in H2. apply N.eqb_neq in H2.
    apply orb_prop in H3. destruct H3 as [H3|H3]; [apply N.eqb_eq in H3; eapply C2; eauto|].
    destruct (ref_at live r (x_parent o)) as [[g' o']|] eqn:Ea; [|discriminate].
    destruct (ref_at_some _ _ _ _ _ Ea) as (I' & _). eapply C3; eauto.
  Qed.

  Let crk := crankL ht live.

  Lemma crk_le : forall a b, (crk a b <= length live)%nat.
  Proof. intros. apply filter_length_le'. Qed.

  Lemma crk_lt : forall g o, In (g, o) live -> x_parent o <> 0 ->
    (crk (x_region o) (x_lid o) < crk (x_region o) (x_parent o))%nat.
  Proof.
    intros g o I Hp. specialize (RK g o I Hp). unfold crk, crankL.
    apply (filter_length_lt _ _ _ _ (g, o)).
    - intros kv Hb. apply Nat.ltb_lt in Hb. apply Nat.ltb_lt. lia.
    - exact I.
    - cbn [snd]. apply Nat.ltb_ge. lia.
    - cbn [snd]. apply Nat.ltb_lt. exact RK.
  Qed.

  Lemma gone_doomed_fuel : forall n g o, In (g, o) live -> gone g ->
    (length live - crk (x_region o) (x_lid o) < n)%nat -> doomed n live r l o = true.
  Proof.
    induction n as [|n IH]; intros g o I G Hn; [lia|]. simpl.
    destruct (SND g o I G) as (Hr & Hc). rewrite Hr, N.eqb_refl. cbn [andb].
    destruct Hc as [Hl|(Hav & Hp & Hc)]; [rewrite Hl, N.eqb_refl; reflexivity|].
    rewrite Hav. cbn [negb andb]. assert (Q : (x_parent o =? 0) = false) by (apply N.eqb_neq; exact Hp). rewrite Q. cbn [negb andb].
    destruct Hc as [Hl|(g' & o' & Ea & G')]; [rewrite Hl, N.eqb_refl, orb_true_r; reflexivity|].
    rewrite Ea. destruct (ref_at_some _ _ _ _ _ Ea) as (I' & Hr' & Hl').
    assert (D : doomed n live r l o' = true).
    { apply (IH g' o' I' G'). pose proof (crk_lt g o I Hp) as Hlt. pose proof (crk_le (x_region o) (x_parent o)) as Hle.
      rewrite Hr', Hl'. rewrite Hr in Hlt, Hle, Hn. lia. }
    rewrite D, !orb_true_r. reflexivity.
  Qed.

  Lemma doomed_exact : forall g o, In (g, o) live -> (gone g <-> doomed (S (length live)) live r l o = true).
  Proof.
    intros g o I. split.
    - intros G. apply (gone_doomed_fuel _ g o I G). lia.
    - apply doomed_gone. exact I.
  Qed.
End DoomedExact.

(* ====================================================================================================================
   5. the refinement relation between a model state and a reference state
   ==================================================================================================================== *)
Definition Rrel (w : world) (s : refst) : Prop :=
  (forall g, aget g (rf_live s) = option_map rob_of (get_obj w g)) /\
  nodupk (rf_live s) /\
  (forall r, mem r (rf_tracked s) = is_some (region_state w r)).

Lemma lookup_of_obj : forall w g a, Idx w -> get_obj w g = Some a -> lookup_local w (o_region a) (o_lid a) = Some a.
Proof.
  intros w g a (K & A & B) E. destruct (B _ _ E) as (rs & Ers & _ & El). unfold lookup_local. rewrite Ers, El. exact E.
Qed.

Lemma Rrel_In : forall w s g o, Rrel w s -> (In (g, o) (rf_live s) <-> exists a, get_obj w g = Some a /\ rob_of a = o).
Proof.
  intros w s g o (R1 & R2 & _). split.
  - intros I. apply (In_aget _ _ _ _ R2) in I. rewrite R1 in I. destruct (get_obj w g) as [a|]; cbn in I; [|discriminate].
    exists a. split; [reflexivity|congruence].
  - intros (a & Ea & Ho). apply aget_In. rewrite R1, Ea. cbn. congruence.
Qed.

Lemma Rrel_at_fwd : forall w s r p g o, Idx w -> Rrel w s -> ref_at (rf_live s) r p = Some (g, o) ->
  exists a, lookup_local w r p = Some a /\ o_full a = g /\ rob_of a = o.
Proof.
  intros w s r p g o I R H. destruct (ref_at_some _ _ _ _ _ H) as (Hin & Hr & Hl).
  apply (Rrel_In _ _ _ _ R) in Hin. destruct Hin as (a & Ea & Ho). exists a.
  pose proof (lookup_of_obj _ _ _ I Ea) as L. subst o. cbn in Hr, Hl. rewrite Hr, Hl in L.
  destruct I as (K & _). split; [exact L|]. split; [exact (K _ _ Ea)|reflexivity].
Qed.

Lemma Rrel_at_bwd : forall w s r p a, Idx w -> Rrel w s -> lookup_local w r p = Some a ->
  ref_at (rf_live s) r p = Some (o_full a, rob_of a).
Proof.
  intros w s r p a I R L. destruct (lookup_local_some _ _ _ _ I L) as (Ea & Hl & Hr).
  assert (Hin : In (o_full a, rob_of a) (rf_live s)) by (apply (Rrel_In _ _ _ _ R); eauto).
  destruct (ref_at (rf_live s) r p) as [[g o]|] eqn:E.
  - destruct (Rrel_at_fwd _ _ _ _ _ _ I R E) as (a' & L' & Hf & Ho). rewrite L in L'. inversion L'; subst a'. congruence.
  - exfalso. eapply (ref_at_in (rf_live s) r p); eauto.
Qed.

Lemma opt_sg_rob : forall x y : option obj, option_map sg x = option_map sg y -> option_map rob_of x = option_map rob_of y.
Proof.
  intros [a|] [b|] H; cbn in H; try discriminate; [|reflexivity]. cbn. f_equal. apply sg_rob. congruence.
Qed.

Lemma opt_tracked_rs : forall w w' r, option_map r_tracked (get_rs w' r) = option_map r_tracked (get_rs w r) ->
  is_some (region_state w' r) = is_some (region_state w r).
Proof.
  intros w w' r H. unfold region_state. destruct (get_rs w' r) as [a|], (get_rs w r) as [b|]; cbn in H; try discriminate; [|reflexivity].
  injection H as H. rewrite H. destruct (r_tracked b); reflexivity.
Qed.

Lemma Rrel_sfr : forall w w' s, Rrel w s -> sfr w w' -> Rrel w' s.
Proof.
  intros w w' s (R1 & R2 & R3) [F1 F2]. split; [|split; [exact R2|]].
  - intros g. rewrite R1. symmetry. apply opt_sg_rob. apply F1.
  - intros r. rewrite R3. symmetry. apply opt_tracked_rs. apply F2.
Qed.

Lemma Rrel_sfr_at : forall w w' s f x, Rrel w s -> sfr_at w w' f (x_lid x, f, x_region x, x_parent x, x_av x) ->
  Rrel w' (mkRefSt (aset f x (rf_live s)) (rf_tracked s)).
Proof.
  intros w w' s f x (R1 & R2 & R3) [F1 F2]. split; [|split; [apply nodupk_aset; exact R2|]].
  - intros g. cbn [rf_live]. rewrite aget_aset. specialize (F1 g). destruct (g =? f) eqn:Q.
    + destruct (get_obj w' g) as [a'|]; cbn [option_map] in F1; [|discriminate]. injection F1 as B1 B2 B3 B4 B5.
      cbn [option_map]. unfold rob_of. rewrite B1, B3, B4, B5. destruct x; reflexivity.
    + rewrite R1. symmetry. apply opt_sg_rob. exact F1.
  - intros r. cbn [rf_tracked]. rewrite R3. symmetry. apply opt_tracked_rs. apply F2.
Qed.

(* ====================================================================================================================
   6. the KillObject cascade removes exactly a closed set: soundness and completeness of the removal, through the
      recursion (generalised invariant TreeG with a set D of detached objects, as in SceneGraphKill.v)
   ==================================================================================================================== *)
Lemma sub_obj_sg : forall w w' g a', sub w w' -> get_obj w' g = Some a' -> exists a, get_obj w g = Some a /\ sg a' = sg a.
Proof.
  intros w w' g a' [S1 _] E. destruct (S1 _ _ E) as (a & Ea & P & V). exists a. split; [exact Ea|].
  unfold pcore in P. injection P as P1 P2 P3 P4. unfold sg. congruence.
Qed.

Lemma bk_sg : forall O a b p, sg a = sg b -> bk O a p -> bk O b p.
Proof. intros O a b p H. apply sg_inj in H. destruct H as (_ & H2 & _ & H4 & _). apply bk_same; assumption. Qed.

Lemma lookup_sub_rev : forall w w1 r p b1, Idx w -> Idx w1 -> sub w w1 -> lookup_local w1 r p = Some b1 ->
  exists b, lookup_local w r p = Some b /\ o_full b = o_full b1.
Proof.
  intros w w1 r p b1 I I1 [S1 S2] L. destruct (lookup_local_some _ _ _ _ I1 L) as (Eb1 & _).
  unfold lookup_local in L. destruct (get_rs w1 r) as [rs1|] eqn:Ers1; [|discriminate].
  destruct (aget p (r_local rs1)) as [cf|] eqn:Ec; [|discriminate].
  destruct (S2 _ _ _ _ Ers1 Ec) as (rs0 & Ers0 & Ec0). destruct I as (K & A & _). destruct (A _ _ _ _ Ers0 Ec0) as (b & Eb & _).
  exists b. split; [unfold lookup_local; rewrite Ers0, Ec0; exact Eb|].
  destruct I1 as (K1 & _). rewrite (K _ _ Eb), (K1 _ _ L). reflexivity.
Qed.

Lemma lookup_survivor : forall w w1 r p b b1, Idx w -> Idx w1 -> sub w w1 -> lookup_local w r p = Some b ->
  get_obj w1 (o_full b) = Some b1 -> lookup_local w1 r p = Some b1.
Proof.
  intros w w1 r p b b1 I I1 S L E. destruct (lookup_sub _ _ _ _ _ I I1 S L) as [(co1 & L1 & Hf & _)|[_ Hg]]; [|congruence].
  destruct (lookup_local_some _ _ _ _ I1 L1) as (E1 & _). rewrite Hf, E in E1. congruence.
Qed.

Definition KX (killf : world -> N -> option world) (r : N) : Prop :=
  forall w c w' D, Idx w -> TreeG w (odet no_ovr D) None -> killf w c = Some w' ->
    (forall g a, get_obj w g = Some a -> get_obj w' g = None ->
       o_region a = r /\ (o_lid a = c \/
         (o_av a = false /\ exists p, bk (odet no_ovr D) a p /\
            (p = c \/ exists b, lookup_local w r p = Some b /\ get_obj w' (o_full b) = None)))) /\
    (forall g a p, get_obj w' g = Some a -> o_region a = r -> o_av a = false -> bk (odet no_ovr D) a p ->
       p <> c /\ forall b, lookup_local w r p = Some b -> get_obj w' (o_full b) <> None).

Lemma kill_children_KX : forall killf r, KX killf r -> KI killf r -> KS killf ->
  forall ids w w' D, Idx w -> TreeG w (odet no_ovr D) None -> kill_children killf r ids w = Some w' ->
  (forall g a, get_obj w g = Some a -> get_obj w' g = None ->
     o_region a = r /\ o_av a = false /\
     (In (o_lid a) ids \/ exists p, bk (odet no_ovr D) a p /\
        ((In p ids /\ forall b, lookup_local w r p = Some b -> get_obj w' (o_full b) = None) \/
         exists b, lookup_local w r p = Some b /\ get_obj w' (o_full b) = None))) /\
  (forall g a p, get_obj w' g = Some a -> o_region a = r -> o_av a = false -> bk (odet no_ovr D) a p ->
     forall b, lookup_local w r p = Some b -> get_obj w' (o_full b) <> None).
Proof.
  intros killf r HKX HKI HKS. induction ids as [|c t IH]; intros w w' D I T H; simpl in H.
  - inversion H; subst. split; [intros g a E1 E2; congruence|]. intros g a p Ea _ _ _ b L.
    destruct (lookup_local_some _ _ _ _ I L) as (Eb & _). congruence.
  - set (O := odet no_ovr D) in *.
    assert (STEP : forall w1, (lookup_local w r c = None \/ exists co, lookup_local w r c = Some co /\ o_av co = false) ->
        killf w c = Some w1 -> kill_children killf r t w1 = Some w' ->
        (forall g a, get_obj w g = Some a -> get_obj w' g = None ->
           o_region a = r /\ o_av a = false /\
           (In (o_lid a) (c :: t) \/ exists p, bk O a p /\
              ((In p (c :: t) /\ forall b, lookup_local w r p = Some b -> get_obj w' (o_full b) = None) \/
               exists b, lookup_local w r p = Some b /\ get_obj w' (o_full b) = None))) /\
        (forall g a p, get_obj w' g = Some a -> o_region a = r -> o_av a = false -> bk O a p ->
           forall b, lookup_local w r p = Some b -> get_obj w' (o_full b) <> None)).
    { intros w1 LK E H1. destruct (HKX _ _ _ _ I T E) as [SN1 CM1]. destruct (HKI _ _ _ _ I T E) as [T1 G1].
      destruct (HKS _ _ _ I E) as [I1 S1]. destruct (IH _ _ _ I1 T1 H1) as [SN2 CM2].
      destruct (kill_children_KI _ _ HKI HKS _ _ _ _ I1 T1 H1) as (T2 & I2 & S2 & _). split.
      - intros g a Ea En. destruct (get_obj w1 g) as [a1|] eqn:E1.
        + destruct (sub_obj_sg _ _ _ _ S1 E1) as (a0 & Ea0 & C). rewrite Ea in Ea0. inversion Ea0; subst a0.
          pose proof (sg_inj _ _ C) as (C1 & C2 & C3 & C4 & C5).
          destruct (SN2 _ _ E1 En) as (Hr & Hav & Hc). split; [congruence|]. split; [congruence|].
          destruct Hc as [Hc|(p & Hbk & Hc)]; [left; right; congruence|]. right. exists p. split; [eapply bk_sg; eauto|].
          destruct Hc as [[Hin Hall]|(b1 & L1 & Hg)].
          * left. split; [right; exact Hin|]. intros b L.
            destruct (lookup_sub _ _ _ _ _ I I1 S1 L) as [(co1 & L1 & Hf & _)|[_ Hg]]; [rewrite <- Hf; apply Hall; exact L1|].
            eapply gone_sub; eauto.
          * right. destruct (lookup_sub_rev _ _ _ _ _ I I1 S1 L1) as (b & L & Hf). exists b. split; [exact L|congruence].
        + destruct (SN1 _ _ Ea E1) as (Hr & Hc). split; [exact Hr|].
          destruct Hc as [Hl|(Hav & p & Hbk & Hc)].
          * pose proof (lookup_of_obj _ _ _ I Ea) as L. rewrite Hr, Hl in L.
            destruct LK as [LK|(co & LK & Hav)]; [congruence|]. rewrite L in LK. inversion LK; subst co.
            split; [exact Hav|]. left. left. congruence.
          * split; [exact Hav|]. right. exists p. split; [exact Hbk|]. destruct Hc as [Hp|(b & L & Hg)].
            -- left. split; [left; congruence|]. intros b L. subst p. eapply gone_sub; [exact S2|]. apply G1. exact L.
            -- right. exists b. split; [exact L|]. eapply gone_sub; eauto.
      - intros g a p Ea Hr Hav Hbk b L.
        destruct (sub_obj_sg _ _ _ _ S2 Ea) as (a1 & Ea1 & C). pose proof (sg_inj _ _ C) as (C1 & C2 & C3 & C4 & C5).
        destruct (CM1 g a1 p Ea1 ltac:(congruence) ltac:(congruence) ltac:(eapply bk_sg; eauto)) as [_ HB].
        specialize (HB b L). destruct (get_obj w1 (o_full b)) as [b1|] eqn:Eb1; [|congruence].
        pose proof (lookup_survivor _ _ _ _ _ _ I I1 S1 L Eb1) as L1.
        pose proof (CM2 g a p Ea Hr Hav Hbk b1 L1) as Hs. destruct I1 as (K1 & _). rewrite (K1 _ _ Eb1) in Hs. exact Hs. }
    destruct (lookup_local w r c) as [co|] eqn:L.
    + destruct (o_av co) eqn:Hav.
      * destruct (IH _ _ _ I T H) as [SN CM]. split; [|exact CM].
        intros g a Ea En. destruct (SN _ _ Ea En) as (Hr & Hv & Hc). split; [exact Hr|]. split; [exact Hv|].
        destruct Hc as [Hc|(p & Hbk & Hc)]; [left; right; exact Hc|]. right. exists p. split; [exact Hbk|].
        destruct Hc as [[Hin Hall]|Hc]; [left; split; [right; exact Hin|exact Hall]|right; exact Hc].
      * bind_inv H. eapply STEP; eauto.
    + bind_inv H. eapply STEP; eauto.
Qed.

Lemma bk_odet_app : forall D X a p, bk (odet no_ovr (D ++ X)) a p <-> mem (o_full a) X = false /\ bk (odet no_ovr D) a p.
Proof.
  intros D X a p. rewrite !bk_odet, mem_app. split.
  - intros [H1 H2]. apply orb_false_elim in H1. tauto.
  - intros [H1 [H2 H3]]. rewrite H1, H2. tauto.
Qed.

Lemma kill_KX : forall n r, KX (fun w c => kill n w r c) r.
Proof.
  induction n as [|n IHn]; intros r w l w' D I T H; simpl in H; [discriminate|].
  assert (HKS : KS (fun w c => kill n w r c)) by (intros w0 c w0' I0 H0; eapply kill_sub; eauto).
  pose proof (kill_KI n r) as HKI. specialize (IHn r).
  bind_inv H. rename r0 into rs.
  set (rs1 := with_missing rs (sdel l (r_missing rs))) in *. set (w1 := set_rs w r rs1) in *.
  assert (F1 : frame w w1) by (eapply frame_set_rs; [exact E|reflexivity]).
  assert (TF1 : tframe w w1) by (eapply tframe_set_rs; [exact E|reflexivity]).
  pose proof (frame_Idx _ _ F1 I) as I1. pose proof (tframe_TreeG _ _ _ _ TF1 T) as T1.
  assert (Ers1 : get_rs w1 r = Some rs1) by (unfold w1; rewrite get_rs_set_rs, N.eqb_refl; reflexivity).
  assert (LL : forall c, lookup_local w1 r c = lookup_local w r c).
  { intros c. unfold lookup_local. rewrite Ers1, E. reflexivity. }
  assert (GO1 : forall g, get_obj w1 g = get_obj w g) by reflexivity.
  set (O := odet no_ovr D) in *.
  pose proof I1 as (K1 & A1 & B1).
  destruct (lookup_local w1 r l) as [o|] eqn:El.
  - (* a tracked object: cascade into its children, then untrack and forget it *)
    bind_inv H. rename w0 into w2. bind_inv H. rename w0 into w3. inversion H; subst w'; clear H.
    destruct (lookup_local_some _ _ _ _ I1 El) as (Eo & Hl & Hr).
    destruct (kill_children_KI _ _ HKI HKS _ _ _ D I1 T1 E0) as (T2 & I2 & S2 & GONE).
    destruct (kill_children_KX _ _ IHn HKI HKS _ _ _ D I1 T1 E0) as [SNch CMch].
    pose proof I2 as (K2 & _). pose proof (sfr_untrack _ _ _ _ K2 E1) as [F3 _].
    assert (G3 : forall x, get_obj w3 x = None <-> get_obj w2 x = None).
    { intros x. specialize (F3 x). destruct (get_obj w3 x), (get_obj w2 x); cbn in F3; try discriminate; split; congruence. }
    assert (G2' : forall x, get_obj w2 x = None -> get_obj (del_obj w3 (o_full o)) x = None).
    { intros x Hx. rewrite get_obj_del_obj. destruct (x =? o_full o); [reflexivity|]. apply G3. exact Hx. }
    destruct (B1 _ _ Eo) as (rso & Erso & _ & Elo). rewrite Hr, Ers1 in Erso. inversion Erso; subst rso. rewrite Hl in Elo.
    (* the children of o are tracked objects bookkept under l *)
    assert (CH : forall c, In c (rev (map fst (o_children o))) ->
              exists cf co, aget c (r_local rs1) = Some cf /\ get_obj w1 cf = Some co /\ bk O co l /\ lookup_local w1 r c = Some co).
    { intros c Ic. apply in_rev in Ic. apply in_map_iff in Ic. destruct Ic as ([c' cf] & Hc' & Ic). cbn in Hc'; subst c'.
      destruct (tC1 _ _ _ T1 _ _ _ _ Eo Ic) as (co & rs0 & C1 & C2 & C3 & C4 & C5 & C6 & _).
      rewrite Hr, Ers1 in C5. inversion C5; subst rs0. rewrite Hl in C4. exists cf, co. split; [exact C6|]. split; [exact C1|].
      split; [exact C4|]. unfold lookup_local. rewrite Ers1, C6. exact C1. }
    split.
    + intros g a Ea En. rewrite <- GO1 in Ea. rewrite get_obj_del_obj in En. destruct (g =? o_full o) eqn:Q.
      * apply N.eqb_eq in Q. subst g. rewrite Eo in Ea. inversion Ea; subst a. split; [exact Hr|]. left. exact Hl.
      * apply G3 in En. destruct (SNch _ _ Ea En) as (Hra & Hav & Hc). split; [exact Hra|]. right. split; [exact Hav|].
        destruct Hc as [Hc|(p & Hbk & Hc)].
        -- destruct (CH _ Hc) as (cf & co & C1 & C2 & C3 & _).
           destruct (B1 _ _ Ea) as (rsa & Ersa & _ & Ela). rewrite Hra, Ers1 in Ersa. inversion Ersa; subst rsa.
           rewrite Ela in C1. inversion C1; subst cf. rewrite Ea in C2. inversion C2; subst co.
           exists l. split; [exact C3|]. left. reflexivity.
        -- exists p. split; [exact Hbk|]. right. destruct Hc as [[Hin Hall]|(b & L & Hg)].
           ++ destruct (CH _ Hin) as (cf & co & _ & _ & _ & L). exists co. split; [rewrite <- LL; exact L|]. apply G2'. apply Hall. exact L.
           ++ exists b. split; [rewrite <- LL; exact L|]. apply G2'. exact Hg.
    + intros g a p Ea Hra Hav Hbk. rewrite get_obj_del_obj in Ea. destruct (g =? o_full o) eqn:Q; [discriminate|].
      assert (Ea2 : exists a2, get_obj w2 g = Some a2 /\ sg a = sg a2).
      { specialize (F3 g). rewrite Ea in F3. destruct (get_obj w2 g) as [a2|]; cbn in F3; [|discriminate]. exists a2. split; [reflexivity|congruence]. }
      destruct Ea2 as (a2 & Ea2 & C2). destruct (sub_obj_sg _ _ _ _ S2 Ea2) as (a1 & Ea1 & C1).
      pose proof (sg_inj _ _ C2) as (X1 & X2 & X3 & X4 & X5). pose proof (sg_inj _ _ C1) as (Y1 & Y2 & Y3 & Y4 & Y5).
      assert (NE : p <> l).
      { intro; subst p. destruct (B1 _ _ Ea1) as (rsa & Ersa & _ & Ela).
        assert (Hra1 : o_region a1 = r) by congruence. rewrite Hra1, Ers1 in Ersa. inversion Ersa; subst rsa.
        assert (Ic : In (o_lid a1, g) (o_children o)).
        { eapply (tC2 _ _ _ T1 r rs1 (o_lid a1) g a1 l (o_full o) o); eauto.
          - eapply bk_sg; [|exact Hbk]. congruence.
          - intro Hk; discriminate. }
        assert (Hg : get_obj w2 (o_full a1) = None).
        { eapply (GONE (o_lid a1) a1).
          - apply in_rev. rewrite rev_involutive. apply in_map_iff. exists (o_lid a1, g). split; [reflexivity|exact Ic].
          - rewrite <- Hra1. eapply lookup_of_obj; eauto.
          - congruence. }
        rewrite (K1 _ _ Ea1) in Hg. congruence. }
      split; [exact NE|]. intros b L. rewrite <- LL in L.
      pose proof (CMch g a2 p Ea2 ltac:(congruence) ltac:(congruence) ltac:(eapply bk_sg; eauto) b L) as Hs.
      rewrite get_obj_del_obj. destruct (o_full b =? o_full o) eqn:Qb.
      * exfalso. apply N.eqb_eq in Qb. destruct (lookup_local_some _ _ _ _ I1 L) as (Eb & Hlb & _).
        rewrite Qb, Eo in Eb. inversion Eb; subst b. congruence.
      * intro Hn. apply G3 in Hn. contradiction.
  - (* an unknown local id: its orphans die, except avatars *)
    assert (Hnone : aget l (r_local rs1) = None).
    { unfold lookup_local in El. rewrite Ers1 in El. destruct (aget l (r_local rs1)) as [f|] eqn:Ef; [|reflexivity].
      destruct (A1 _ _ _ _ Ers1 Ef) as (a & Ea & _). congruence. }
    set (w2 := cancel_futures w1 r l) in *.
    assert (T2 : TreeG w2 O None) by (eapply TreeG_wext; [| |exact T1]; reflexivity).
    assert (I2 : Idx w2) by (eapply frame_Idx; [apply frame_set_futs|exact I1]).
    pose proof (Idx_Base _ I2) as B2. pose proof B2 as [K2 W22]. pose proof I2 as (_ & _ & BB2).
    bind_inv H. rename r0 into rs2. assert (Ers2 : get_rs w1 r = Some rs2) by exact E0. rewrite Ers1 in Ers2. inversion Ers2; subst rs2. clear Ers2.
    destruct (collect_orphans rs1 l) as [ch rs3] eqn:Ec.
    destruct (collect_spec _ _ _ _ Ec) as (CL & CO & CLs).
    pose proof (TreeG_collect_unknown _ _ _ _ _ _ _ B2 T2 E0 Hnone Ec) as TC.
    set (fs := fulls rs1 ch) in *.
    rewrite retrack_eq in H. set (avs := filter (isav w2 r) ch) in *.
    set (nvs := filter (fun c => negb (isav w2 r c)) ch).
    assert (MEM : forall c, In c ch -> exists cf co, aget c (r_local rs1) = Some cf /\ get_obj w2 cf = Some co /\ o_parent co = l /\ l <> 0 /\ mem cf D = false).
    { intros c Ic. destruct (aget l (r_orphans rs1)) as [ls0|] eqn:El0; [|subst ch; destruct Ic]. subst ch.
      destruct (tO1 _ _ _ T2 _ _ _ _ _ E0 El0 Ic) as (X1 & _ & cf & co & X3 & X4 & X5).
      exists cf, co. split; [exact X3|]. split; [exact X4|]. destruct X5 as [X5 _]. unfold epar, O, odet, no_ovr in X5. rewrite (K2 _ _ X4) in X5.
      destruct (mem cf D) eqn:MD; [discriminate|]. injection X5 as Hp. split; [exact Hp|]. split; [exact X1|reflexivity]. }
    assert (NDch : NoDup ch).
    { destruct (aget l (r_orphans rs1)) as [ls0|] eqn:El0; [|subst ch; constructor]. subst ch. eapply (tO3 _ _ _ T2); eauto. }
    set (W := set_rs w2 r rs3) in *.
    assert (BW : Base W) by (eapply pframe_Base; [eapply pframe_set_rs; [exact E0|exact CL]|exact B2]).
    assert (ErsW : get_rs W r = Some rs3) by (unfold W; rewrite get_rs_set_rs, N.eqb_refl; reflexivity).
    assert (TR : TreeG (set_rs W r (orphan_children rs3 avs l)) (oatt (odet O fs) (fulls rs3 avs) l) None).
    { apply orphan_children_TreeG; auto.
      - apply NoDup_filter. exact NDch.
      - intros Hne. destruct avs as [|c t] eqn:Ea; [congruence|].
        assert (Ic : In c ch). { assert (In c (c :: t)) by (left; reflexivity). rewrite <- Ea in H0. apply filter_In in H0. tauto. }
        destruct (MEM c Ic) as (_ & _ & _ & _ & _ & Hl0 & _). exact Hl0.
      - left. rewrite CL. exact Hnone.
      - intros c Ic. apply filter_In in Ic. destruct Ic as [Ic _]. destruct (MEM c Ic) as (cf & co & Ec' & Eco & _).
        exists cf, co. rewrite CL. split; [exact Ec'|]. split; [exact Eco|]. unfold odet at 1.
        assert (M : mem cf fs = true) by (apply mem_In; apply fulls_In; eauto). rewrite M. reflexivity. }
    apply set_rs_twice in TR. set (w3 := set_rs w2 r (orphan_children rs3 avs l)) in *.
    rewrite (fulls_local rs1 rs3 avs CL) in TR.
    assert (GO3 : forall g, get_obj w3 g = get_obj w2 g) by reflexivity.
    assert (L3 : r_local (orphan_children rs3 avs l) = r_local rs1).
    { pose proof (ridx_orphan_children avs rs3 l) as C. apply ridx_inj in C. destruct C as [_ C]. congruence. }
    assert (LK3 : forall c, lookup_local w3 r c = lookup_local w2 r c).
    { intros c. apply lookup_local_ext; [exact GO3|]. unfold w3. rewrite get_rs_set_rs, N.eqb_refl.
      change (get_rs w2 r) with (get_rs w1 r). rewrite Ers1. cbn [option_map]. rewrite L3. reflexivity. }
    assert (LK2 : forall c, lookup_local w2 r c = lookup_local w r c).
    { intros c. rewrite <- LL. reflexivity. }
    assert (T3 : TreeG w3 (odet no_ovr (D ++ fulls rs1 nvs)) None).
    { eapply TreeG_bk_equiv; [|exact TR]. intros g a Eg p. rewrite GO3 in Eg. pose proof (K2 _ _ Eg) as Kg.
      assert (R1 : odet O fs g = if mem g fs then Some None else (if mem g D then Some None else None)) by reflexivity.
      assert (R2 : odet no_ovr (D ++ fulls rs1 nvs) g = if mem g D || mem g (fulls rs1 nvs) then Some None else None)
        by (unfold odet, no_ovr; rewrite mem_app; reflexivity).
      assert (EQ : match oatt (odet O fs) (fulls rs1 avs) l g with Some x => x | None => Some (o_parent a) end =
                   match odet no_ovr (D ++ fulls rs1 nvs) g with Some x => x | None => Some (o_parent a) end).
      { unfold oatt. rewrite R1, R2. destruct (mem g (fulls rs1 avs)) eqn:Ma.
        - apply mem_In in Ma. apply fulls_In in Ma. destruct Ma as (c & Ic & Ec'). apply filter_In in Ic. destruct Ic as [Ic Hv].
          destruct (MEM c Ic) as (cf & co & Ec'' & Eco & Hp & Hl0 & HD). rewrite Ec' in Ec''. inversion Ec''; subst cf.
          rewrite Eg in Eco. inversion Eco; subst co. rewrite HD. cbn [orb].
          assert (Mn : mem g (fulls rs1 nvs) = false).
          { apply mem_false. intro Hi. apply fulls_In in Hi. destruct Hi as (c' & Ic' & Ec3). apply filter_In in Ic'. destruct Ic' as [_ Hv'].
            destruct (W22 _ _ _ _ E0 Ec') as (a1 & Ea1 & Hl1 & _). destruct (W22 _ _ _ _ E0 Ec3) as (a2 & Ea2 & Hl2 & _).
            assert (Hcc : c = c') by congruence. rewrite <- Hcc in Hv'. rewrite Hv in Hv'. discriminate. }
          rewrite Mn. congruence.
        - destruct (mem g fs) eqn:Mf.
          + apply mem_In in Mf. apply (fulls_partition rs1 (isav w2 r) ch g) in Mf. destruct Mf as [Mf|Mf].
            * apply mem_In in Mf. fold avs in Mf. congruence.
            * apply mem_In in Mf. fold nvs in Mf. rewrite Mf, orb_true_r. reflexivity.
          + assert (Mn : mem g (fulls rs1 nvs) = false).
            { apply mem_false. intro Hi. apply mem_false in Mf. apply Mf. apply (fulls_partition rs1 (isav w2 r) ch g). right. exact Hi. }
            rewrite Mn, orb_false_r. reflexivity. }
      unfold bk, epar. rewrite Kg, EQ. reflexivity. }
    assert (I3 : Idx w3).
    { eapply frame_Idx; [|exact I2]. eapply frame_set_rs; [exact E0|]. rewrite ridx_orphan_children.
      change rs3 with (snd (ch, rs3)). rewrite <- Ec. apply ridx_collect. }
    destruct (kill_children_KI _ _ HKI HKS _ _ _ _ I3 T3 H) as (T4 & I4 & S4 & GONE).
    destruct (kill_children_KX _ _ IHn HKI HKS _ _ _ _ I3 T3 H) as [SNch CMch].
    (* a member of the popped list is the object indexed under that local id, bookkept under l *)
    assert (MEMl : forall c, In c ch -> exists co, lookup_local w r c = Some co /\ bk O co l).
    { intros c Ic. destruct (MEM c Ic) as (cf & co & X1 & X2 & X3 & X4 & X5). exists co. split.
      - rewrite <- LK2. unfold lookup_local. rewrite E0, X1. exact X2.
      - unfold bk, epar, O, odet, no_ovr. rewrite (K2 _ _ X2), X5. split; [congruence|exact X4]. }
    split.
    + intros g a Ea En. assert (Ea3 : get_obj w3 g = Some a) by exact Ea.
      destruct (SNch _ _ Ea3 En) as (Hra & Hav & Hc). split; [exact Hra|]. right. split; [exact Hav|].
      destruct Hc as [Hc|(p & Hbk & Hc)].
      * apply in_rev in Hc. destruct (MEMl _ Hc) as (co & L & Hb).
        pose proof (lookup_of_obj _ _ _ I Ea) as La. rewrite Hra in La. rewrite L in La. inversion La; subst co.
        exists l. split; [exact Hb|]. left. reflexivity.
      * apply bk_odet_app in Hbk. destruct Hbk as [_ Hbk]. exists p. split; [exact Hbk|]. right.
        destruct Hc as [[Hin Hall]|(b & L & Hg)].
        -- apply in_rev in Hin. destruct (MEMl _ Hin) as (co & L & _). exists co. split; [exact L|]. apply Hall. rewrite LK3, LK2. exact L.
        -- exists b. split; [rewrite <- LK2, <- LK3; exact L|exact Hg].
    + intros g a p Ea Hra Hav Hbk.
      destruct (sub_obj_sg _ _ _ _ S4 Ea) as (a3 & Ea3 & C3). pose proof (sg_inj _ _ C3) as (X1 & X2 & X3 & X4 & X5).
      assert (Ea2 : get_obj w2 g = Some a3) by exact Ea3.
      (* a survivor is none of the popped non-avatars *)
      assert (Mn : mem (o_full a) (fulls rs1 nvs) = false).
      { destruct I4 as (K4 & _). rewrite (K4 _ _ Ea).
        apply mem_false. intro Hi. apply fulls_In in Hi. destruct Hi as (c & Ic & Ec'). apply filter_In in Ic. destruct Ic as [Ic Hv].
        destruct (MEM c Ic) as (cf & co & Ec'' & Eco & _). rewrite Ec' in Ec''. inversion Ec''; subst cf.
        assert (Lc : lookup_local w3 r c = Some co).
        { rewrite LK3. unfold lookup_local. change (get_rs w2 r) with (get_rs w1 r). rewrite Ers1, Ec'. exact Eco. }
        assert (Hav' : o_av co = false).
        { unfold isav in Hv. rewrite <- LK3, Lc in Hv. apply negb_true_iff in Hv. exact Hv. }
        pose proof (GONE c co ltac:(apply in_rev; rewrite rev_involutive; exact Ic) Lc Hav') as Hg.
        rewrite (K2 _ _ Eco) in Hg. congruence. }
      assert (NE : p <> l).
      { intro; subst p. destruct (BB2 _ _ Ea2) as (rsa & Ersa & _ & Ela).
        assert (Hra3 : o_region a3 = r) by congruence. rewrite Hra3 in Ersa. change (get_rs w2 r) with (get_rs w1 r) in Ersa.
        rewrite Ers1 in Ersa. inversion Ersa; subst rsa.
        destruct (tO2 _ _ _ T2 r rs1 (o_lid a3) g a3 l E0 Ela Ea2 ltac:(eapply bk_sg; eauto) (or_introl Hnone)) as (ls & Els & Ils).
        rewrite Els in CLs. subst ch.
        assert (Hnv : In (o_lid a3) nvs).
        { apply filter_In. split; [exact Ils|]. unfold isav. rewrite <- Hra3. rewrite (lookup_of_obj _ _ _ I2 Ea2). rewrite <- X5, Hav. reflexivity. }
        assert (Hi : In g (fulls rs1 nvs)) by (apply fulls_In; exists (o_lid a3); split; [exact Hnv|exact Ela]).
        apply mem_In in Hi. destruct I4 as (K4 & _). rewrite (K4 _ _ Ea) in Mn. congruence. }
      split; [exact NE|]. intros b L.
      apply (CMch g a p Ea Hra Hav ltac:(apply bk_odet_app; split; [exact Mn|exact Hbk]) b). rewrite LK3, LK2. exact L.
Qed.

(* ---------- the cascade never changes which regions are tracked ---------- *)
Definition trk (w w' : world) : Prop := forall r, option_map r_tracked (get_rs w' r) = option_map r_tracked (get_rs w r).

Lemma trk_refl : forall w, trk w w.
Proof. intros w r. reflexivity. Qed.
Lemma trk_trans : forall a b c, trk a b -> trk b c -> trk a c.
Proof. intros a b c H1 H2 r. rewrite H2, H1. reflexivity. Qed.
Lemma frame_trk : forall w w', frame w w' -> trk w w'.
Proof.
  intros w w' [_ F] r. specialize (F r). destruct (get_rs w' r), (get_rs w r); cbn in *; try discriminate; [|reflexivity].
  unfold ridx in F. congruence.
Qed.

Lemma kill_children_trk : forall killf r,
  (forall w c w', Idx w -> killf w c = Some w' -> Idx w' /\ trk w w') ->
  forall ids w w', Idx w -> kill_children killf r ids w = Some w' -> Idx w' /\ trk w w'.
Proof.
  intros killf r HK. induction ids as [|c t IH]; intros w w' I H; simpl in H.
  - inversion H; subst. split; [exact I|apply trk_refl].
  - destruct (lookup_local w r c) as [co|].
    + destruct (o_av co); [eauto|]. bind_inv H. destruct (HK _ _ _ I E) as [I1 S1].
      destruct (IH _ _ I1 H) as [I2 S2]. split; [exact I2|eapply trk_trans; eauto].
    + bind_inv H. destruct (HK _ _ _ I E) as [I1 S1].
      destruct (IH _ _ I1 H) as [I2 S2]. split; [exact I2|eapply trk_trans; eauto].
Qed.

Lemma kill_trk : forall n w r l w', Idx w -> kill n w r l = Some w' -> Idx w' /\ trk w w'.
Proof.
  induction n as [|n IH]; intros w r l w' I H; [discriminate|].
  destruct (kill_Idx _ _ _ _ _ I H) as [I' _]. split; [exact I'|]. simpl in H.
  bind_inv H. rename r0 into rs.
  assert (F1 : frame w (set_rs w r (with_missing rs (sdel l (r_missing rs))))) by (eapply frame_set_rs; [exact E|reflexivity]).
  set (w1 := set_rs w r (with_missing rs (sdel l (r_missing rs)))) in *.
  pose proof (frame_Idx _ _ F1 I) as I1.
  assert (HK : forall w c w', Idx w -> (fun w c => kill n w r c) w c = Some w' -> Idx w' /\ trk w w') by (intros; eapply IH; eauto).
  eapply trk_trans; [apply frame_trk; exact F1|].
  destruct (lookup_local w1 r l) as [o|] eqn:El.
  - bind_inv H. rename w0 into w2. bind_inv H. rename w0 into w3. inversion H; subst w'; clear H.
    destruct (kill_children_trk _ _ HK _ _ _ I1 E0) as [I2 S2]. pose proof I2 as (K2 & _).
    pose proof (sfr_untrack _ _ _ _ K2 E1) as [_ F3].
    eapply trk_trans; [exact S2|]. intros r0. exact (F3 r0).
  - bind_inv H. rename r0 into rs2. destruct (collect_orphans rs2 l) as [ch rs3] eqn:Ec.
    set (w2 := cancel_futures w1 r l) in *.
    assert (F2 : frame w1 (set_rs w2 r (retrack_avatars w2 r l ch rs3))).
    { eapply frame_trans; [apply frame_set_futs|]. eapply frame_set_rs; [exact E0|]. rewrite ridx_retrack.
      change rs3 with (snd (ch, rs3)). rewrite <- Ec. apply ridx_collect. }
    destruct (kill_children_trk _ _ HK _ _ _ (frame_Idx _ _ F2 I1) H) as [_ S3].
    eapply trk_trans; [apply frame_trk; exact F2|exact S3].
Qed.

(* ====================================================================================================================
   7. every step refines the reference step
   ==================================================================================================================== *)
Lemma bk_nil : forall a p, bk (odet no_ovr []) a p <-> o_parent a = p /\ p <> 0.
Proof.
  intros a p. unfold bk, epar, odet, no_ovr. cbn. split.
  - intros [H1 H2]. split; congruence.
  - intros [H1 H2]. split; congruence.
Qed.

Lemma Rrel_same_objs : forall w w' s, Rrel w s -> sub w w' -> trk w w' ->
  (forall g a, get_obj w g = Some a -> get_obj w' g <> None) -> Rrel w' s.
Proof.
  intros w w' s (R1 & R2 & R3) S TK ALL. split; [|split; [exact R2|]].
  - intros g. rewrite R1. destruct (get_obj w g) as [a|] eqn:Ea.
    + destruct (get_obj w' g) as [a'|] eqn:Ea'; [|exfalso; eapply ALL; eauto].
      destruct (sub_obj_sg _ _ _ _ S Ea') as (a0 & Ea0 & C). rewrite Ea in Ea0. inversion Ea0; subst a0.
      cbn. f_equal. symmetry. apply sg_rob. exact C.
    + rewrite (gone_sub _ _ _ S Ea). reflexivity.
  - intros r. rewrite R3. symmetry. apply opt_tracked_rs. apply TK.
Qed.

Lemma step_kill_Rrel : forall w r l w' s, Idx w -> Tree w -> acyclic w -> Rrel w s ->
  step w (EKill r l) = Some w' -> Rrel w' (ref_kill s r l).
Proof.
  intros w r l w' s I T (ht & RK) R H. cbn [step] in H. destruct (get_rs w r) as [rs|] eqn:Ers; [|discriminate].
  assert (T0 : TreeG w (odet no_ovr []) None) by (eapply TreeG_ext; [|exact T]; intros g; reflexivity).
  destruct (kill_KX _ r w l w' [] I T0 H) as [SN CM].
  destruct (kill_KI _ r w l w' [] I T0 H) as [_ TG].
  destruct (kill_sub _ _ _ _ _ I H) as [I' SB]. destruct (kill_trk _ _ _ _ _ I H) as [_ TK].
  pose proof R as (R1 & R2 & R3). pose proof I as (K & A & B).
  unfold ref_kill. destruct (mem r (rf_tracked s)) eqn:M.
  - set (live := rf_live s) in *. set (gone := fun g => get_obj w' g = None).
    assert (EX : forall g o, In (g, o) live -> (gone g <-> doomed (S (length live)) live r l o = true)).
    { apply (doomed_exact live r l gone ht).
      - intros g o Hin Hp. apply (Rrel_In _ _ _ _ R) in Hin. destruct Hin as (a & Ea & <-). cbn in *. apply (RK _ _ Ea Hp).
      - intros g o Hin G. apply (Rrel_In _ _ _ _ R) in Hin. destruct Hin as (a & Ea & <-). cbn [rob_of x_region x_lid x_parent x_av].
        destruct (SN _ _ Ea G) as (Hr & Hc). split; [exact Hr|]. destruct Hc as [Hl|(Hav & p & Hbk & Hc)]; [left; exact Hl|].
        apply bk_nil in Hbk. destruct Hbk as [Hp Hp0]. right. split; [exact Hav|]. split; [congruence|].
        destruct Hc as [->|(b & L & Gb)]; [left; exact Hp|]. right. exists (o_full b), (rob_of b). split; [|exact Gb].
        rewrite Hp. exact (Rrel_at_bwd w s r p b I R L).
      - intros g o Hin Hr Hl. apply (Rrel_In _ _ _ _ R) in Hin. destruct Hin as (a & Ea & <-). cbn in Hr, Hl.
        pose proof (lookup_of_obj _ _ _ I Ea) as L. rewrite Hr, Hl in L. unfold gone. rewrite <- (K _ _ Ea). apply TG. exact L.
      - intros g o Hin Hr Hav Hp0 Hp. apply (Rrel_In _ _ _ _ R) in Hin. destruct Hin as (a & Ea & <-). cbn in Hr, Hav, Hp0, Hp.
        unfold gone. destruct (get_obj w' g) as [a'|] eqn:Ea'; [exfalso|reflexivity].
        destruct (sub_obj_sg _ _ _ _ SB Ea') as (a0 & Ea0 & C). rewrite Ea in Ea0. inversion Ea0; subst a0.
        pose proof (sg_inj _ _ C) as (X1 & X2 & X3 & X4 & X5).
        destruct (CM g a' l Ea' ltac:(congruence) ltac:(congruence) ltac:(apply bk_nil; split; congruence)) as [NE _]. congruence.
      - intros g o g' o' Hin Hr Hav Hp0 Hat Gg'. apply (Rrel_In _ _ _ _ R) in Hin. destruct Hin as (a & Ea & <-). cbn in Hr, Hav, Hp0, Hat.
        unfold gone. destruct (get_obj w' g) as [a'|] eqn:Ea'; [exfalso|reflexivity].
        destruct (sub_obj_sg _ _ _ _ SB Ea') as (a0 & Ea0 & C). rewrite Ea in Ea0. inversion Ea0; subst a0.
        pose proof (sg_inj _ _ C) as (X1 & X2 & X3 & X4 & X5).
        destruct (CM g a' (o_parent a) Ea' ltac:(congruence) ltac:(congruence) ltac:(apply bk_nil; split; congruence)) as [_ HB].
        destruct (Rrel_at_fwd _ _ _ _ _ _ I R Hat) as (b & L & Hf & _). apply (HB b L). rewrite Hf. exact Gg'. }
    split; [|split; [apply nodupk_filter; exact R2|]].
    + intros g. cbn [rf_live]. rewrite aget_filter by exact R2. fold live. rewrite R1.
      destruct (get_obj w g) as [a|] eqn:Ea; cbn [option_map snd].
      * assert (Hin : In (g, rob_of a) live) by (apply (Rrel_In _ _ _ _ R); eauto). specialize (EX _ _ Hin).
        destruct (doomed (S (length live)) live r l (rob_of a)) eqn:Dm; cbn [negb].
        -- assert (G : gone g) by (apply EX; reflexivity). unfold gone in G. rewrite G. reflexivity.
        -- destruct (get_obj w' g) as [a'|] eqn:Ea'.
           ++ destruct (sub_obj_sg _ _ _ _ SB Ea') as (a0 & Ea0 & C). rewrite Ea in Ea0. inversion Ea0; subst a0.
              cbn. f_equal. symmetry. apply sg_rob. exact C.
           ++ assert (X : false = true) by (apply EX; exact Ea'). discriminate.
      * rewrite (gone_sub _ _ _ SB Ea). reflexivity.
    + intros r0. cbn [rf_tracked]. rewrite R3. symmetry. apply opt_tracked_rs. apply TK.
  - apply (Rrel_same_objs w w' s R SB TK). intros g a Ea En.
    destruct (SN _ _ Ea En) as (Hr & _). destruct (B _ _ Ea) as (rsa & Ersa & Ht & _).
    rewrite R3 in M. unfold region_state in M. rewrite <- Hr, Ersa, Ht in M. discriminate.
Qed.

Lemma sfr_at_same : forall w w' f o, get_obj w f = Some o -> sfr_at w w' f (sg o) -> sfr w w'.
Proof.
  intros w w' f o E [H1 H2]. split; [|exact H2]. intros g. rewrite H1. destruct (g =? f) eqn:Q; [|reflexivity].
  apply N.eqb_eq in Q. subst g. rewrite E. reflexivity.
Qed.

Lemma step_Rrel : forall w e w' s, Idx w ->
  (forall r l, e = EKill r l -> Tree w /\ acyclic w) ->
  Rrel w s -> step w e = Some w' -> Rrel w' (ref_step s e).
Proof.
  intros w e w' s I HK R H. pose proof I as (K & A & B). pose proof R as (R1 & R2 & R3).
  destruct e as [cmp r l f p av v|r l v|r l crc v|f v|r l|r|r|r l|r l|r]; cbn [step ref_step] in *.
  - (* ObjectUpdate / ObjectUpdateCompressed *)
    rewrite R1. destruct (get_obj w f) as [o|] eqn:Eo; cbn [option_map].
    + pose proof (update_existing_sg _ _ _ _ _ _ K Eo H) as F. unfold upd_sg in F. cbn [full_props p_lid p_region p_parent p_av dflt] in F.
      rewrite (K _ _ Eo) in F. apply (Rrel_sfr_at w w' s f (mkRob r l p av) R F).
    + rewrite R3. destruct (region_state w r) eqn:Ers; cbn [is_some].
      * pose proof (track_new_sg w r (mkObj l f p r av v v v 0 (negb cmp) [] None) w' K Eo H) as F.
        apply (Rrel_sfr_at w w' s f (mkRob r l p av) R F).
      * inversion H; subst. exact R.
  - (* terse *)
    destruct (region_state w r) as [rs|] eqn:Ers; [|inversion H; subst; exact R].
    destruct (lookup_local w r l) as [o|] eqn:El.
    + destruct (lookup_local_some _ _ _ _ I El) as (Eo & Hl & Hr).
      pose proof (update_existing_sg _ _ _ _ _ _ K Eo H) as F. unfold upd_sg in F. cbn [p_lid p_region p_parent p_av dflt] in F.
      rewrite <- Hl, <- Hr in F. eapply Rrel_sfr; [exact R|]. eapply sfr_at_same; [exact Eo|exact F].
    + inversion H; subst. apply region_state_some in Ers. destruct Ers as [Ers _].
      eapply Rrel_sfr; [exact R|]. eapply sfr_set_rs; [exact Ers|reflexivity].
  - (* cached *)
    destruct (region_state w r) as [rs|] eqn:Ers; [|inversion H; subst; exact R].
    assert (Fm : Rrel (set_rs w r (with_missing rs (sadd l (r_missing rs)))) s).
    { pose proof Ers as Ers'. apply region_state_some in Ers'. destruct Ers' as [Ers' _].
      eapply Rrel_sfr; [exact R|]. eapply sfr_set_rs; [exact Ers'|reflexivity]. }
    destruct (lookup_local w r l) as [o|] eqn:El; [|inversion H; subst; exact Fm].
    destruct (o_crc o =? crc); [|inversion H; subst; exact Fm].
    destruct (lookup_local_some _ _ _ _ I El) as (Eo & Hl & Hr).
    pose proof (update_existing_sg _ _ _ _ _ _ K Eo H) as F. unfold upd_sg in F. cbn [p_lid p_region p_parent p_av dflt] in F.
    rewrite <- Hr in F. eapply Rrel_sfr; [exact R|]. eapply sfr_at_same; [exact Eo|exact F].
  - (* properties *)
    destruct (get_obj w f) as [o|] eqn:Eo; [|inversion H; subst; exact R].
    pose proof (update_existing_sg _ _ _ _ _ _ K Eo H) as F.
    eapply Rrel_sfr; [exact R|]. eapply sfr_at_same; [exact Eo|exact F].
  - (* KillObject *)
    destruct (HK r l eq_refl) as [T AC]. eapply step_kill_Rrel; eauto.
  - (* region teardown *)
    destruct (clear_spec _ _ _ K H) as [G RS]. split; [|split; [apply nodupk_filter; exact R2|]].
    + intros g. cbn [rf_live]. rewrite aget_filter by exact R2. rewrite R1, G.
      destruct (get_obj w g) as [o|]; cbn [option_map snd rob_of x_region]; [|reflexivity].
      destruct (o_region o =? r); reflexivity.
    + intros r0. cbn [rf_tracked]. rewrite mem_sdel, R3. unfold region_state. rewrite RS.
      destruct (r0 =? r); reflexivity.
  - (* track region *)
    bind_inv H. inversion H; subst w'; clear H. rename r0 into rs. split; [|split; [exact R2|]].
    + intros g. rewrite get_obj_set_rs. apply R1.
    + intros r0. cbn [rf_tracked]. rewrite mem_sadd, R3. unfold region_state. rewrite get_rs_set_rs.
      destruct (r0 =? r); reflexivity.
  - bind_inv H. inversion H; subst. eapply Rrel_sfr; [exact R|apply sfr_set_futs].
  - bind_inv H. inversion H; subst. eapply Rrel_sfr; [exact R|apply sfr_set_futs].
  - bind_inv H. inversion H; subst. eapply Rrel_sfr; [exact R|apply sfr_register_all].
Qed.

Lemma init_Rrel : Rrel init ref_init.
Proof.
  split; [|split].
  - intros g. reflexivity.
  - constructor.
  - intros r. cbn. unfold region_state, get_rs, init. cbn.
    destruct (r =? 1); [reflexivity|]. destruct (r =? 2); reflexivity.
Qed.

(* ====================================================================================================================
   8. histories
   ==================================================================================================================== *)
Lemma fold_ref_cons : forall h s e, fold_left ref_step (e :: h) s = fold_left ref_step h (ref_step s e).
Proof. reflexivity. Qed.

(* inside the statement's assumptions (input_full_ok: no local id given to two live objects, updates name a tracked
   region, parent links acyclic, messages come from registered regions) *)
Lemma run_Rrel_full : forall h w s w', Inv w -> Rrel w s -> hist_ok input_full_ok w h -> run w h = Some w' ->
  Rrel w' (fold_left ref_step h s) /\ Inv w'.
Proof.
  induction h as [|e t IH]; intros w s w' Iw R Hh Hr; simpl in Hh, Hr.
  - inversion Hr; subst. split; [exact R|exact Iw].
  - destruct Hh as [[Hn Hac] Hrest]. destruct (step w e) as [w1|] eqn:Es; [|discriminate].
    destruct Iw as [I T]. rewrite fold_ref_cons. apply (IH w1 (ref_step s e) w').
    + eapply step_Inv; [split; eassumption|apply Hn|exact Es].
    + eapply step_Rrel; eauto.
    + exact Hrest.
    + exact Hr.
Qed.

(* histories without KillObject need only the index assumption (no acyclicity, no Tree): this covers the local-id-change
   case that input_tree_ok excludes *)
Definition is_kill (e : event) : bool := match e with EKill _ _ => true | _ => false end.

Lemma run_Rrel_nokill : forall h w s w', Idx w -> Rrel w s -> hist_ok input_idx_ok w h -> forallb (fun e => negb (is_kill e)) h = true ->
  run w h = Some w' -> Rrel w' (fold_left ref_step h s) /\ Idx w'.
Proof.
  induction h as [|e t IH]; intros w s w' I R Hh Hk Hr; simpl in Hh, Hk, Hr.
  - inversion Hr; subst. split; [exact R|exact I].
  - destruct Hh as [Hn Hrest]. destruct (step w e) as [w1|] eqn:Es; [|discriminate].
    apply andb_prop in Hk. destruct Hk as [Hk1 Hk2]. rewrite fold_ref_cons. apply (IH w1 (ref_step s e) w').
    + eapply step_Idx; eauto.
    + eapply step_Rrel; eauto. intros r l ->. discriminate.
    + exact Hrest.
    + exact Hk2.
    + exact Hr.
Qed.

(* the refinement theorem: after every history inside the assumptions, the objects found by full id are exactly the
   reference set, with the announced (region, local id, parent id, avatar?) *)
Lemma reference_exact : forall h w, hist_ok input_full_ok init h -> run init h = Some w ->
  forall g, aget g (tracked w) = aget g (ref_set h).
Proof.
  intros h w Hh Hr g. destruct (run_Rrel_full h init ref_init w (conj init_Idx init_Tree) init_Rrel Hh Hr) as [(R1 & _) _].
  rewrite aget_tracked. unfold ref_set, ref_run. symmetry. apply R1.
Qed.

Lemma reference_exact_nokill : forall h w, hist_ok input_idx_ok init h -> forallb (fun e => negb (is_kill e)) h = true ->
  run init h = Some w -> forall g, aget g (tracked w) = aget g (ref_set h).
Proof.
  intros h w Hh Hk Hr g. destruct (run_Rrel_nokill h init ref_init w init_Idx init_Rrel Hh Hk Hr) as [(R1 & _) _].
  rewrite aget_tracked. unfold ref_set, ref_run. symmetry. apply R1.
Qed.

(* as a set of (region, local id, full id, parent id) tuples, for both lookups of the implementation *)
Lemma tuples_In : forall m r l f p, In (r, l, f, p) (tuples m) <-> exists o, In (f, o) m /\ x_region o = r /\ x_lid o = l /\ x_parent o = p.
Proof.
  intros m r l f p. unfold tuples. rewrite in_map_iff. split.
  - intros ([k o] & E & Hin). cbn in E. inversion E; subst. exists o. auto.
  - intros (o & Hin & <- & <- & <-). exists (f, o). split; [reflexivity|exact Hin].
Qed.

Lemma reference_exact_set : forall h w, hist_ok input_full_ok init h -> run init h = Some w ->
  forall r l f p, In (r, l, f, p) (tuples (ref_set h)) <->
    (exists o, get_obj w f = Some o /\ o_region o = r /\ o_lid o = l /\ o_parent o = p) /\
    (exists o, lookup_local w r l = Some o /\ o_full o = f /\ o_parent o = p).
Proof.
  intros h w Hh Hr r l f p.
  destruct (run_Rrel_full h init ref_init w (conj init_Idx init_Tree) init_Rrel Hh Hr) as [R [I _]].
  change (fold_left ref_step h ref_init) with (ref_run h) in R. pose proof I as (K & _).
  rewrite tuples_In. split.
  - intros (o & Hin & Hr' & Hl & Hp). apply (Rrel_In _ _ _ _ R) in Hin. destruct Hin as (a & Ea & <-). cbn in Hr', Hl, Hp.
    split; [exists a; auto|]. exists a. split; [|split; [exact (K _ _ Ea)|exact Hp]].
    rewrite <- Hr', <- Hl. eapply lookup_of_obj; eauto.
  - intros [(a & Ea & Hr' & Hl & Hp) _]. exists (rob_of a). split; [|auto].
    apply (Rrel_In _ _ _ _ R). eauto.
Qed.

(* the reference set never holds two live objects under one (region, local id) inside the assumptions, and the
   local-id lookup of the implementation is the reference's at() *)
Lemma reference_local_lookup : forall h w, hist_ok input_full_ok init h -> run init h = Some w ->
  forall r l, option_map (fun o => (o_full o, rob_of o)) (lookup_local w r l) = ref_at (ref_set h) r l.
Proof.
  intros h w Hh Hr r l.
  destruct (run_Rrel_full h init ref_init w (conj init_Idx init_Tree) init_Rrel Hh Hr) as [R [I _]].
  change (fold_left ref_step h ref_init) with (ref_run h) in R. unfold ref_set.
  destruct (lookup_local w r l) as [a|] eqn:L; cbn [option_map].
  - symmetry. exact (Rrel_at_bwd w (ref_run h) r l a I R L).
  - destruct (ref_at (rf_live (ref_run h)) r l) as [[g o]|] eqn:E; [|reflexivity].
    destruct (Rrel_at_fwd _ _ _ _ _ _ I R E) as (a & L' & _). congruence.
Qed.
