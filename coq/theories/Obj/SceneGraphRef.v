(* C14 - which objects are tracked: objects enter the full-id lookup only by being announced (ObjectUpdate /
   ObjectUpdateCompressed into a tracked region) and leave it only through KillObject of their region or the teardown
   of their region; teardown removes exactly the region's objects; KillObject removes the named object. *)
From Coq Require Import NArith List Bool Lia.
From HV Require Import Obj.SceneGraph Obj.SceneGraphProofs Obj.SceneGraphTree Obj.SceneGraphKill Obj.SceneGraphFut.
Import ListNotations.
Open Scope N_scope.

(* the same full ids are tracked *)
Definition dom_eq (w w' : world) : Prop := forall g, get_obj w' g = None <-> get_obj w g = None.

Lemma dom_eq_refl : forall w, dom_eq w w.
Proof. intros w g. tauto. Qed.
Lemma dom_eq_trans : forall a b c, dom_eq a b -> dom_eq b c -> dom_eq a c.
Proof. intros a b c H1 H2 g. split; intro X; [apply H1, H2, X|apply H2, H1, X]. Qed.
Lemma frame_dom_eq : forall w w', frame w w' -> dom_eq w w'.
Proof.
  intros w w' [F _] g. specialize (F g). destruct (get_obj w' g), (get_obj w g); cbn in F; try discriminate; split; congruence.
Qed.

Lemma untrack_dom : forall w r f w', keys_ok w -> untrack_object w r f = Some w' -> dom_eq w w' /\ keys_ok w'.
Proof.
  intros w r f w' K H. unfold untrack_object in H. bind_inv H. bind_inv H. rename w0 into w1.
  pose proof (frame_unparent_children _ _ _ _ K E0) as F1. bind_inv H. rename r0 into rs1.
  assert (F2 : frame w (set_rs w1 r (orphan_children rs1 (map fst (o_children o)) (o_lid o)))).
  { eapply frame_trans; [exact F1|]. eapply frame_set_rs; [exact E1|apply ridx_orphan_children]. }
  set (w2 := set_rs w1 r (orphan_children rs1 (map fst (o_children o)) (o_lid o))) in *.
  bind_inv H. destruct (o_children o0); [|discriminate]. bind_inv H. rename w0 into w3.
  assert (K2 : keys_ok w2) by (eapply frame_keys; eauto).
  pose proof (frame_unparent_object _ _ _ _ _ K2 E3) as F3.
  bind_inv H. destruct (aget (o_lid o0) (r_local r0)); [|discriminate]. inversion H; subst w'; clear H.
  assert (F4 : frame w (cancel_futures w3 r (o_lid o0))).
  { eapply frame_trans; [exact F2|]. eapply frame_trans; [exact F3|]. apply frame_set_futs. }
  split.
  - intros g. rewrite get_obj_set_rs. apply (frame_dom_eq _ _ F4).
  - intros g a Eg. rewrite get_obj_set_rs in Eg. exact (frame_keys _ _ F4 K g a Eg).
Qed.

Lemma track_dom : forall w r f w', keys_ok w -> track_object w r f = Some w' -> dom_eq w w' /\ keys_ok w'.
Proof.
  intros w r f w' K H. unfold track_object in H. bind_inv H. bind_inv H. rename r0 into rs.
  match type of H with bind (parent_object ?W _ _ _) _ = _ => set (w1 := W) in * end.
  assert (K1 : keys_ok w1) by exact K.
  bind_inv H. rename w0 into w2. pose proof (frame_parent_object _ _ _ _ _ K1 E1) as F2.
  bind_inv H. rename r0 into rs2. destruct (collect_orphans rs2 (o_lid o)) as [orph rs3].
  assert (K2 : keys_ok w2) by (eapply frame_keys; eauto).
  assert (K3 : keys_ok (set_rs w2 r rs3)) by exact K2.
  pose proof (frame_adopt _ _ _ _ K3 H) as F4. split.
  - intros g. rewrite (frame_dom_eq _ _ F4 g). rewrite get_obj_set_rs. rewrite (frame_dom_eq _ _ F2 g). unfold w1. rewrite get_obj_set_rs. tauto.
  - eapply frame_keys; eauto.
Qed.

Lemma set_obj_dom : forall w f o o', get_obj w f = Some o -> o_full o' = f -> keys_ok w ->
  dom_eq w (set_obj w o') /\ keys_ok (set_obj w o').
Proof.
  intros w f o o' E Hf K. split.
  - intros g. rewrite get_obj_set_obj, Hf. destruct (g =? f) eqn:Q; [|tauto]. apply N.eqb_eq in Q. subst g. rewrite E. split; discriminate.
  - intros g a Eg. rewrite get_obj_set_obj, Hf in Eg. destruct (g =? f) eqn:Q; [|eauto]. apply N.eqb_eq in Q. inversion Eg. subst a. congruence.
Qed.

Lemma reparent_dom : forall w r f q w', keys_ok w -> handle_object_reparented w r f q = Some w' -> dom_eq w w' /\ keys_ok w'.
Proof.
  intros w r f q w' K H. pose proof (frame_reparented _ _ _ _ _ K H) as F. split; [apply frame_dom_eq; exact F|eapply frame_keys; eauto].
Qed.

Lemma update_existing_dom : forall w f p k w', keys_ok w -> update_existing w f p k = Some w' -> dom_eq w w'.
Proof.
  intros w f p k w' K H. unfold update_existing in H. bind_inv H.
  match type of H with bind ?st _ = _ => destruct st as [[w1 ch0]|] eqn:E1; cbn [bind] in H; [|discriminate] end.
  assert (A1 : dom_eq w w1 /\ keys_ok w1).
  { destruct (negb (o_region o =? dflt (p_region p) (o_region o))).
    - destruct (region_state w (o_region o)).
      + bind_inv E1. inversion E1; subst. eapply untrack_dom; eauto.
      + inversion E1; subst. split; [apply dom_eq_refl|exact K].
    - destruct (negb (o_lid o =? dflt (p_lid p) (o_lid o)) && is_some (region_state w (o_region o))).
      + bind_inv E1. bind_inv E1. bind_inv E1. inversion E1; subst.
        destruct (untrack_dom _ _ _ _ K E0) as [D1 K1]. pose proof (K1 _ _ E2) as Kf1.
        destruct (set_obj_dom w0 f o0 (with_lid o0 (dflt (p_lid p) (o_lid o))) E2 Kf1 K1) as [D2 K2].
        destruct (track_dom _ _ _ _ K2 E3) as [D3 K3].
        split; [eapply dom_eq_trans; [exact D1|eapply dom_eq_trans; eauto]|exact K3].
      + inversion E1; subst. split; [apply dom_eq_refl|exact K]. }
  destruct A1 as [D1 K1]. bind_inv H. rename o0 into o1. destruct (update_properties o1 p) as [o2 ch1] eqn:Eu.
  assert (Hf2 : o_full o2 = f).
  { destruct (update_properties_core _ _ _ _ Eu) as (_ & U2 & _). rewrite U2. exact (K1 _ _ E0). }
  destruct (set_obj_dom w1 f o1 o2 E0 Hf2 K1) as [D2 K2].
  bind_inv H. rename w0 into w3.
  assert (A3 : dom_eq (set_obj w1 o2) w3).
  { destruct (negb (dflt (p_region p) (o_region o) =? o_region o)).
    - destruct (region_state w (dflt (p_region p) (o_region o))).
      + eapply track_dom; eauto.
      + inversion E2. apply dom_eq_refl.
    - destruct (negb (dflt (p_parent p) (o_parent o) =? o_parent o) && is_some (region_state w (dflt (p_region p) (o_region o)))).
      + eapply reparent_dom; eauto.
      + inversion E2. apply dom_eq_refl. }
  eapply dom_eq_trans; [exact D1|]. eapply dom_eq_trans; [exact D2|]. eapply dom_eq_trans; [exact A3|].
  destruct ((ch0 || ch1) && is_some (region_state w (dflt (p_region p) (o_region o)))).
  - bind_inv H. destruct (region_state w3 (o_region o0)); inversion H; intros g; cbn; tauto.
  - inversion H. apply dom_eq_refl.
Qed.

Lemma register_all_dom : forall ls w r, dom_eq w (register_all w r ls).
Proof. intros. apply frame_dom_eq. apply frame_register_all. Qed.

Ltac dom_same H := inversion H; let x := fresh "x" in intros x; cbn; tauto.

(* an object enters the lookup only by being announced into a tracked region *)
Lemma step_enter : forall w e w' g, Idx w -> step w e = Some w' -> get_obj w g = None -> get_obj w' g <> None ->
  exists cmp r l p av v, e = EFull cmp r l g p av v /\ region_state w r <> None.
Proof.
  intros w e w' g I H Hn Hs. pose proof I as (K & _).
  assert (NO : dom_eq w w' -> False) by (intros D; apply Hs; apply D; exact Hn).
  destruct e as [cmp r l f p av v|r l v|r l crc v|f v|r l|r|r|r l|r l|r]; cbn [step] in H.
  - destruct (get_obj w f) as [o|] eqn:Eo.
    + exfalso. apply NO. eapply update_existing_dom; eauto.
    + destruct (region_state w r) eqn:Ers; [|inversion H; subst; contradiction].
      unfold track_new in H. bind_inv H. rename w0 into w1. bind_inv H.
      assert (Ko : keys_ok (set_obj w (mkObj l f p r av v v v 0 (negb cmp) [] None))).
      { intros x a Ex. rewrite get_obj_set_obj in Ex. cbn [o_full] in Ex. destruct (x =? f) eqn:Q; [|eauto].
        apply N.eqb_eq in Q. inversion Ex; subst. reflexivity. }
      destruct (track_dom _ _ _ _ Ko E) as [D _].
      assert (G : get_obj w' g = get_obj w1 g) by (destruct (region_state w1 (o_region o)); inversion H; reflexivity).
      destruct (N.eq_dec g f) as [->|Hne].
      * exists cmp, r, l, p, av, v. split; [reflexivity|congruence].
      * exfalso. apply Hs. rewrite G. apply D. rewrite get_obj_set_obj. cbn [o_full]. apply N.eqb_neq in Hne. rewrite Hne. exact Hn.
  - exfalso. apply NO. destruct (region_state w r); [|dom_same H].
    destruct (lookup_local w r l); [eapply update_existing_dom; eauto|dom_same H].
  - exfalso. apply NO. destruct (region_state w r); [|dom_same H].
    destruct (lookup_local w r l); [|dom_same H].
    destruct (o_crc o =? crc); [eapply update_existing_dom; eauto|dom_same H].
  - exfalso. apply NO. destruct (get_obj w f); [eapply update_existing_dom; eauto|dom_same H].
  - exfalso. destruct (get_rs w r); [|discriminate]. destruct (kill_Idx _ _ _ _ _ I H) as [_ Sh].
    destruct (get_obj w' g) as [a|] eqn:Ea; [|congruence]. destruct (Sh _ _ Ea) as (a0 & Ea0 & _). congruence.
  - exfalso. destruct (clear_spec _ _ _ K H) as [G _]. rewrite G, Hn in Hs. congruence.
  - exfalso. apply NO. bind_inv H. dom_same H.
  - exfalso. apply NO. bind_inv H. dom_same H.
  - exfalso. apply NO. bind_inv H. dom_same H.
  - exfalso. apply NO. bind_inv H. inversion H. apply register_all_dom.
Qed.

(* an object leaves the lookup only through a KillObject in its region or the teardown of its region *)
Lemma step_leave : forall w e w' g o, Idx w -> step w e = Some w' -> get_obj w g = Some o -> get_obj w' g = None ->
  (exists l, e = EKill (o_region o) l) \/ e = EClear (o_region o).
Proof.
  intros w e w' g o I H Eo Hn. pose proof I as (K & _).
  assert (NO : dom_eq w w' -> False) by (intros D; apply D in Hn; congruence).
  destruct e as [cmp r l f p av v|r l v|r l crc v|f v|r l|r|r|r l|r l|r]; cbn [step] in H.
  - exfalso. destruct (get_obj w f) as [of|] eqn:Ef.
    + apply NO. eapply update_existing_dom; eauto.
    + destruct (region_state w r) eqn:Ers; [|inversion H; subst; congruence].
      unfold track_new in H. bind_inv H. rename w0 into w1. bind_inv H.
      assert (Ko : keys_ok (set_obj w (mkObj l f p r av v v v 0 (negb cmp) [] None))).
      { intros x a Ex. rewrite get_obj_set_obj in Ex. cbn [o_full] in Ex. destruct (x =? f) eqn:Q; [|eauto].
        apply N.eqb_eq in Q. inversion Ex; subst. reflexivity. }
      destruct (track_dom _ _ _ _ Ko E) as [D _].
      assert (G : get_obj w' g = get_obj w1 g) by (destruct (region_state w1 (o_region o0)); inversion H; reflexivity).
      rewrite G in Hn. apply D in Hn. rewrite get_obj_set_obj in Hn. cbn [o_full] in Hn. destruct (g =? f); [discriminate|congruence].
  - exfalso. apply NO. destruct (region_state w r); [|dom_same H].
    destruct (lookup_local w r l); [eapply update_existing_dom; eauto|dom_same H].
  - exfalso. apply NO. destruct (region_state w r); [|dom_same H].
    destruct (lookup_local w r l) as [ol|]; [|dom_same H].
    destruct (o_crc ol =? crc); [eapply update_existing_dom; eauto|dom_same H].
  - exfalso. apply NO. destruct (get_obj w f); [eapply update_existing_dom; eauto|dom_same H].
  - left. exists l. destruct (get_rs w r); [|discriminate].
    destruct (kill_futs _ _ _ _ _ I H) as (_ & _ & _ & _ & G). destruct (G _ _ Eo Hn) as [Hr _]. rewrite Hr. reflexivity.
  - right. destruct (clear_spec _ _ _ K H) as [G _]. rewrite G, Eo in Hn. destruct (o_region o =? r) eqn:Q; [|discriminate].
    apply N.eqb_eq in Q. rewrite Q. reflexivity.
  - exfalso. apply NO. bind_inv H. dom_same H.
  - exfalso. apply NO. bind_inv H. dom_same H.
  - exfalso. apply NO. bind_inv H. dom_same H.
  - exfalso. apply NO. bind_inv H. inversion H. apply register_all_dom.
Qed.

(* KillObject removes the object it names *)
Lemma kill_target_removed : forall w r l w' o, Idx w -> Tree w -> step w (EKill r l) = Some w' ->
  lookup_local w r l = Some o -> get_obj w' (o_full o) = None.
Proof.
  intros w r l w' o I T H L. cbn [step] in H. destruct (get_rs w r); [|discriminate].
  assert (T0 : TreeG w (odet no_ovr []) None) by (eapply TreeG_ext; [|exact T]; intros g; reflexivity).
  destruct (kill_KI _ r w l w' [] I T0 H) as [_ G]. exact (G o L).
Qed.

(* an announced object is tracked afterwards *)
Lemma step_announce : forall w cmp r l f p av v w', keys_ok w -> region_state w r <> None ->
  step w (EFull cmp r l f p av v) = Some w' -> get_obj w' f <> None.
Proof.
  intros w cmp r l f p av v w' K Hrs H. cbn [step] in H. destruct (get_obj w f) as [o|] eqn:Eo.
  - intro Hn. apply (update_existing_dom _ _ _ _ _ K H) in Hn. congruence.
  - destruct (region_state w r) eqn:Ers; [|congruence]. unfold track_new in H. cbn [o_full] in H. bind_inv H. rename w0 into w1. bind_inv H.
    assert (G : get_obj w' f = get_obj w1 f) by (destruct (region_state w1 (o_region o)); inversion H; reflexivity).
    rewrite G. congruence.
Qed.

(* over histories: every tracked object was announced *)
Lemma run_tracked_announced : forall h w0 w g, Idx w0 -> hist_ok input_idx_ok w0 h -> run w0 h = Some w ->
  get_obj w g <> None ->
  get_obj w0 g <> None \/ exists cmp r l p av v, In (EFull cmp r l g p av v) h.
Proof.
  induction h as [|e t IH]; intros w0 w g I Hok R Hs; simpl in *.
  - inversion R; subst. left. exact Hs.
  - destruct Hok as [Hok Hrest]. destruct (step w0 e) as [w1|] eqn:Es; [|discriminate].
    pose proof (step_Idx _ _ _ I Hok Es) as I1.
    destruct (IH w1 w g I1 Hrest R Hs) as [H1|(cmp & r & l & p & av & v & Hin)].
    + destruct (get_obj w0 g) eqn:E0; [left; discriminate|]. right.
      destruct (step_enter _ _ _ _ I Es E0 H1) as (cmp & r & l & p & av & v & -> & _).
      exists cmp, r, l, p, av, v. left. reflexivity.
    + right. exists cmp, r, l, p, av, v. right. exact Hin.
Qed.

(* ====================================================================================================================
   The abstract reference semantics of the statement's "contain exactly the objects announced and not since killed
   (directly or through a killed ancestor) or unloaded".  Definitions only (lemmas: SceneGraphRefProofs.v).

   A flat state: which full ids are live, with the (region, local id, parent id, avatar?) they were last announced
   with, and which regions are tracked.  No local-id index, no child lists, no orphan lists, no recursion over the
   model's structures.  harness/props/c14.py:Spec is the literal Python transcription (tied by the "reference"
   correspondence suite: extracted ref_step vs Spec vs the real managers after every step). *)
Record rob := mkRob { x_region : N; x_lid : N; x_parent : N; x_av : bool }.
Record refst := mkRefSt { rf_live : list (N * rob); rf_tracked : list N }.

Definition ref_init : refst := mkRefSt [] [].

(* Spec.at: the live object announced at (region, local id) *)
Fixpoint ref_at (live : list (N * rob)) (r l : N) : option (N * rob) :=
  match live with
  | [] => None
  | (f, o) :: t => if (x_region o =? r) && (x_lid o =? l) then Some (f, o) else ref_at t r l
  end.

(* Spec.doomed: does KillObject (r, l) remove o?  Walk up the parent ids: o dies when it is the killed id, or when it
   is not an avatar and its parent id is the killed id or names a live object of the region that dies.
   (avatars sitting on a killed object are spared, and with them everything sitting on them; parent id 0 = none) *)
Fixpoint doomed (fuel : nat) (live : list (N * rob)) (r l : N) (o : rob) : bool :=
  match fuel with
  | O => false
  | S n =>
    (x_region o =? r) &&
    ((x_lid o =? l) ||
     (negb (x_av o) && negb (x_parent o =? 0) &&
      ((x_parent o =? l) ||
       match ref_at live r (x_parent o) with Some (_, po) => doomed n live r l po | None => false end)))
  end.

(* Spec.kill *)
Definition ref_kill (s : refst) (r l : N) : refst :=
  if mem r (rf_tracked s)
  then mkRefSt (filter (fun kv => negb (doomed (S (length (rf_live s))) (rf_live s) r l (snd kv))) (rf_live s)) (rf_tracked s)
  else s.

(* Spec.step *)
Definition ref_step (s : refst) (e : event) : refst :=
  match e with
  | EFull _ r l f p av _ =>
    match aget f (rf_live s) with
    | Some _ => mkRefSt (aset f (mkRob r l p av) (rf_live s)) (rf_tracked s)      (* announced again: moved / re-parented *)
    | None => if mem r (rf_tracked s) then mkRefSt (aset f (mkRob r l p av) (rf_live s)) (rf_tracked s) else s
    end
  | EKill r l => ref_kill s r l
  | EClear r => mkRefSt (filter (fun kv => negb (x_region (snd kv) =? r)) (rf_live s)) (sdel r (rf_tracked s))
  | ETrack r => mkRefSt (rf_live s) (sadd r (rf_tracked s))
  | _ => s
  end.

Definition ref_run (h : list event) : refst := fold_left ref_step h ref_init.

(* the reference set of a history: full id -> (region, local id, parent id, avatar?) *)
Definition ref_set (h : list event) : list (N * rob) := rf_live (ref_run h).

(* what the model tracks, in the same shape *)
Definition rob_of (o : obj) : rob := mkRob (o_region o) (o_lid o) (o_parent o) (o_av o).
Definition tracked (w : world) : list (N * rob) := map (fun kv => (fst kv, rob_of (snd kv))) (w_full w).

(* (region, local id, full id, parent id) tuples *)
Definition tuples (m : list (N * rob)) : list (N * N * N * N) :=
  map (fun kv => (x_region (snd kv), x_lid (snd kv), fst kv, x_parent (snd kv))) m.
