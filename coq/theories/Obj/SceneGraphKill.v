(* C14 - the children / orphan invariant (Tree) across the KillObject cascade. *)
From Coq Require Import NArith List Bool Lia.
From HV Require Import Obj.SceneGraph Obj.SceneGraphProofs Obj.SceneGraphTree.
Import ListNotations.
Open Scope N_scope.

(* ---------- w' is a sub-world of w: surviving objects keep lid/full/region/parent/avatar-ness,
              index entries only disappear ---------- *)
Definition sub (w w' : world) : Prop :=
  (forall g a', get_obj w' g = Some a' -> exists a, get_obj w g = Some a /\ pcore a' = pcore a /\ o_av a' = o_av a) /\
  (forall r0 rs' c cf, get_rs w' r0 = Some rs' -> aget c (r_local rs') = Some cf ->
     exists rs0, get_rs w r0 = Some rs0 /\ aget c (r_local rs0) = Some cf).

Lemma sub_refl : forall w, sub w w.
Proof. split; intros; eauto. Qed.
Lemma sub_trans : forall a b c, sub a b -> sub b c -> sub a c.
Proof.
  intros a b c [H1 H2] [H3 H4]. split.
  - intros g x E. destruct (H3 _ _ E) as (y & Ey & P & V). destruct (H1 _ _ Ey) as (z & Ez & P' & V'). exists z. split; [exact Ez|]. split; congruence.
  - intros r0 rs' k cf E1 E2. destruct (H4 _ _ _ _ E1 E2) as (rs1 & E3 & E4). eauto.
Qed.

Lemma sub_same_objs_local : forall w w',
  (forall g, option_map (fun o => (pcore o, o_av o)) (get_obj w' g) = option_map (fun o => (pcore o, o_av o)) (get_obj w g)) ->
  (forall r, option_map r_local (get_rs w' r) = option_map r_local (get_rs w r)) -> sub w w'.
Proof.
  intros w w' H1 H2. split.
  - intros g a' E. specialize (H1 g). rewrite E in H1. cbn in H1. destruct (get_obj w g) as [a|]; cbn in H1; [|discriminate].
    exists a. split; [reflexivity|]. split; congruence.
  - intros r0 rs' c cf E1 E2. specialize (H2 r0). rewrite E1 in H2. cbn in H2. destruct (get_rs w r0) as [rs0|]; cbn in H2; [|discriminate].
    exists rs0. split; [reflexivity|]. congruence.
Qed.

Lemma sub_set_rs : forall w r rs rs', get_rs w r = Some rs -> r_local rs' = r_local rs -> sub w (set_rs w r rs').
Proof.
  intros w r rs rs' E L. apply sub_same_objs_local; [reflexivity|]. intros r0. rewrite get_rs_set_rs. destruct (r0 =? r) eqn:Q; [|reflexivity].
  apply N.eqb_eq in Q. subst. rewrite E. cbn. congruence.
Qed.
Lemma sub_set_futs : forall w fs, sub w (set_futs w fs).
Proof. intros. apply sub_same_objs_local; reflexivity. Qed.

Lemma unparent_av : forall w r f q w', keys_ok w -> unparent_object w r f q = Some w' ->
  forall g, option_map o_av (get_obj w' g) = option_map o_av (get_obj w g).
Proof.
  intros w r f q w' K H. unfold unparent_object in H. bind_inv H. bind_inv H. rename o into o0, r0 into rs.
  pose proof (K _ _ E) as Kf.
  assert (G1 : forall g, option_map o_av (get_obj (set_obj w (with_plink o0 None)) g) = option_map o_av (get_obj w g)).
  { intros g. rewrite get_obj_set_obj. cbn [o_full with_plink]. rewrite Kf. destruct (g =? f) eqn:Q; [|reflexivity].
    apply N.eqb_eq in Q. subst. rewrite E. reflexivity. }
  destruct (q =? 0); [injection H as <-; exact G1|].
  set (w2 := set_rs (set_obj w (with_plink o0 None)) r (untrack_orphan rs (o_lid o0) q)) in *.
  destruct (aget q (r_local rs)) as [pf|]; [|injection H as <-; exact G1].
  destruct (get_obj w2 pf) as [po|] eqn:Epo; [|discriminate].
  destruct (mem (o_lid o0) (map fst (o_children po))); injection H as <-; [|exact G1].
  intros g. rewrite get_obj_set_obj. cbn [o_full with_children].
  assert (Kpo : o_full po = pf).
  { change (get_obj (set_obj w (with_plink o0 None)) pf = Some po) in Epo. rewrite get_obj_set_obj in Epo. cbn [o_full with_plink] in Epo.
    rewrite Kf in Epo. destruct (pf =? f) eqn:Q; [inversion Epo; subst; cbn; apply N.eqb_eq in Q; congruence|eauto]. }
  rewrite Kpo. destruct (g =? pf) eqn:Q; [|apply G1].
  apply N.eqb_eq in Q. subst g. rewrite <- G1. change (get_obj w2 pf) with (get_obj (set_obj w (with_plink o0 None)) pf) in Epo.
  rewrite Epo. reflexivity.
Qed.

Lemma sub_unparent : forall w r f q w', keys_ok w -> unparent_object w r f q = Some w' -> sub w w'.
Proof.
  intros w r f q w' K H. pose proof (pframe_unparent _ _ _ _ _ K H) as [P1 P2]. pose proof (unparent_av _ _ _ _ _ K H) as AV.
  apply sub_same_objs_local; [|exact P2]. intros g. specialize (P1 g). specialize (AV g).
  destruct (get_obj w' g) as [a'|], (get_obj w g) as [a|]; cbn in *; try congruence.
Qed.

Lemma sub_unparent_children : forall ids w r w', keys_ok w -> unparent_children w r ids = Some w' -> sub w w' /\ keys_ok w'.
Proof.
  induction ids as [|c t IH]; intros w r w' K H; simpl in H.
  - inversion H; subst. split; [apply sub_refl|exact K].
  - bind_inv H. destruct (aget c (r_local r0)); [|discriminate]. bind_inv H. bind_inv H.
    pose proof (sub_unparent _ _ _ _ _ K E1) as S1.
    assert (K1 : keys_ok w0) by (eapply frame_keys; [eapply frame_unparent_object; eauto|exact K]).
    destruct (IH _ _ _ K1 H) as [S2 K2]. split; [eapply sub_trans; eauto|exact K2].
Qed.

Lemma sub_untrack : forall w r f w', keys_ok w -> untrack_object w r f = Some w' -> sub w w'.
Proof.
  intros w r f w' K H. unfold untrack_object in H. bind_inv H. bind_inv H. rename w0 into w1.
  destruct (sub_unparent_children _ _ _ _ K E0) as [S1 K1].
  bind_inv H. rename r0 into rs1.
  assert (S2 : sub w1 (set_rs w1 r (orphan_children rs1 (map fst (o_children o)) (o_lid o)))).
  { eapply sub_set_rs; [exact E1|]. pose proof (ridx_orphan_children (map fst (o_children o)) rs1 (o_lid o)) as C.
    apply ridx_inj in C. apply C. }
  set (w2 := set_rs w1 r (orphan_children rs1 (map fst (o_children o)) (o_lid o))) in *.
  bind_inv H. rename o0 into o2. destruct (o_children o2); [|discriminate]. bind_inv H. rename w0 into w3.
  assert (K2 : keys_ok w2) by exact K1.
  pose proof (sub_unparent _ _ _ _ _ K2 E3) as S3.
  set (w4 := cancel_futures w3 r (o_lid o2)) in *.
  bind_inv H. rename r0 into rs4. destruct (aget (o_lid o2) (r_local rs4)); [|discriminate]. inversion H; subst w'; clear H.
  eapply sub_trans; [exact S1|]. eapply sub_trans; [exact S2|]. eapply sub_trans; [exact S3|].
  eapply sub_trans; [apply sub_set_futs|]. split.
  - intros g a' Eg. exists a'. auto.
  - intros r0 rs' c cf E1' E2'. rewrite get_rs_set_rs in E1'. destruct (r0 =? r) eqn:Q.
    + apply N.eqb_eq in Q. subst r0. inversion E1'; subst rs'. cbn [r_local with_local] in E2'. rewrite aget_adel in E2'.
      destruct (c =? o_lid o2); [discriminate|]. exists rs4. split; [exact E4|exact E2'].
    + eauto.
Qed.

Lemma sub_del_obj : forall w f, sub w (del_obj w f).
Proof.
  intros w f. split.
  - intros g a' E. rewrite get_obj_del_obj in E. destruct (g =? f); [discriminate|]. eauto.
  - intros; eauto.
Qed.

Lemma kill_children_sub : forall killf r,
  (forall w c w', Idx w -> killf w c = Some w' -> Idx w' /\ sub w w') ->
  forall ids w w', Idx w -> kill_children killf r ids w = Some w' -> Idx w' /\ sub w w'.
Proof.
  intros killf r IHk. induction ids as [|c t IH]; intros w w' I H; simpl in H.
  - inversion H; subst. split; [exact I|apply sub_refl].
  - destruct (lookup_local w r c) as [co|].
    + destruct (o_av co); [eauto|]. bind_inv H. destruct (IHk _ _ _ I E) as [I1 S1].
      destruct (IH _ _ I1 H) as [I2 S2]. split; [exact I2|eapply sub_trans; eauto].
    + bind_inv H. destruct (IHk _ _ _ I E) as [I1 S1].
      destruct (IH _ _ I1 H) as [I2 S2]. split; [exact I2|eapply sub_trans; eauto].
Qed.

Lemma kill_sub : forall n w r l w', Idx w -> kill n w r l = Some w' -> Idx w' /\ sub w w'.
Proof.
  induction n as [|n IH]; intros w r l w' I H; simpl in H; [discriminate|].
  pose proof (kill_Idx (S n) w r l w' I) as KI. simpl in KI. specialize (KI H). destruct KI as [I' _]. split; [exact I'|].
  bind_inv H. rename r0 into rs.
  assert (S1 : sub w (set_rs w r (with_missing rs (sdel l (r_missing rs))))) by (eapply sub_set_rs; [exact E|reflexivity]).
  assert (F1 : frame w (set_rs w r (with_missing rs (sdel l (r_missing rs))))) by (eapply frame_set_rs; [exact E|reflexivity]).
  set (w1 := set_rs w r (with_missing rs (sdel l (r_missing rs)))) in *.
  pose proof (frame_Idx _ _ F1 I) as I1.
  assert (IHk : forall w c w', Idx w -> (fun w c => kill n w r c) w c = Some w' -> Idx w' /\ sub w w') by (intros; eapply IH; eauto).
  destruct (lookup_local w1 r l) as [o|] eqn:El.
  - bind_inv H. rename w0 into w2. bind_inv H. rename w0 into w3. inversion H; subst w'; clear H.
    destruct (kill_children_sub _ _ IHk _ _ _ I1 E0) as [I2 S2]. pose proof I2 as (K2 & _).
    eapply sub_trans; [exact S1|]. eapply sub_trans; [exact S2|]. eapply sub_trans; [eapply sub_untrack; eauto|apply sub_del_obj].
  - bind_inv H. rename r0 into rs2. destruct (collect_orphans rs2 l) as [ch rs3] eqn:Ec.
    set (w2 := cancel_futures w1 r l) in *.
    assert (S2 : sub w1 (set_rs w2 r (retrack_avatars w2 r l ch rs3))).
    { eapply sub_trans; [apply sub_set_futs|]. eapply sub_set_rs; [exact E0|].
      pose proof (ridx_retrack ch w2 r l rs3) as C. apply ridx_inj in C. destruct C as [_ C]. rewrite C.
      pose proof (ridx_collect rs2 l) as C2. rewrite Ec in C2. apply ridx_inj in C2. apply C2. }
    assert (F2 : frame w1 (set_rs w2 r (retrack_avatars w2 r l ch rs3))).
    { eapply frame_trans; [apply frame_set_futs|]. eapply frame_set_rs; [exact E0|]. rewrite ridx_retrack.
      change rs3 with (snd (ch, rs3)). rewrite <- Ec. apply ridx_collect. }
    destruct (kill_children_sub _ _ IHk _ _ _ (frame_Idx _ _ F2 I1) H) as [I3 S3].
    eapply sub_trans; [exact S1|]. eapply sub_trans; [exact S2|exact S3].
Qed.

(* ---------- collect_orphans of an unknown local id: its orphans are detached ---------- *)
Lemma TreeG_collect_unknown : forall w O r rs l ls rs', Base w -> TreeG w O None -> get_rs w r = Some rs ->
  aget l (r_local rs) = None -> collect_orphans rs l = (ls, rs') ->
  TreeG (set_rs w r rs') (odet O (fulls rs ls)) None.
Proof.
  intros w O r rs l ls rs' [Kw W2] T Ers Hnone Hc.
  destruct (collect_spec _ _ _ _ Hc) as (CL & CO & CLs).
  set (fs := fulls rs ls).
  assert (KN : forall a b, kne None a b) by (intros a b Hk; discriminate).
  assert (RS : forall r0 rs1, get_rs (set_rs w r rs') r0 = Some rs1 ->
            exists rs0, get_rs w r0 = Some rs0 /\ r_local rs1 = r_local rs0 /\
              forall p, aget p (r_orphans rs1) = if (r0 =? r) && (p =? l) then None else aget p (r_orphans rs0)).
  { intros r0 rs1 E. rewrite get_rs_set_rs in E. destruct (r0 =? r) eqn:Q.
    - apply N.eqb_eq in Q. subst r0. inversion E; subst rs1. exists rs. split; [exact Ers|]. split; [exact CL|]. intros p. cbn [andb]. apply CO.
    - exists rs1. split; [exact E|]. split; [reflexivity|]. intros p. reflexivity. }
  assert (RSb : forall r0 rs0, get_rs w r0 = Some rs0 -> exists rs1, get_rs (set_rs w r rs') r0 = Some rs1 /\ r_local rs1 = r_local rs0).
  { intros r0 rs0 E. rewrite get_rs_set_rs. destruct (r0 =? r) eqn:Q.
    - apply N.eqb_eq in Q. subst r0. rewrite Ers in E. inversion E; subst rs0. eauto.
    - eauto. }
  assert (F3 : forall r0 rs0 c cf a p, get_rs w r0 = Some rs0 -> aget c (r_local rs0) = Some cf -> get_obj w cf = Some a ->
                 bk O a p -> mem cf fs = true -> r0 = r /\ p = l /\ In c ls).
  { intros r0 rs0 c cf a p E1 E2 E3 B M. apply mem_In in M. apply fulls_In in M. destruct M as (c' & Ic' & Ec').
    destruct (aget l (r_orphans rs)) as [ls0|] eqn:El; [|subst ls; destruct Ic']. subst ls.
    destruct (tO1 _ _ _ T _ _ _ _ _ Ers El Ic') as (_ & _ & cf' & co' & A3 & A4 & A5).
    rewrite Ec' in A3. inversion A3; subst cf'. rewrite E3 in A4. inversion A4; subst co'.
    destruct B as [B1 _]. destruct A5 as [A5 _]. rewrite B1 in A5. inversion A5; subst p.
    destruct (W2 _ _ _ _ Ers Ec') as (a1 & Ea1 & Hl1 & Hr1). destruct (W2 _ _ _ _ E1 E2) as (a2 & Ea2 & Hl2 & Hr2).
    rewrite E3 in Ea1, Ea2. inversion Ea1; subst a1. inversion Ea2; subst a2.
    split; [congruence|]. split; [reflexivity|]. congruence. }
  constructor.
  - intros pf po c cf E I. change (get_obj w pf = Some po) in E.
    destruct (tC1 _ _ _ T _ _ _ _ E I) as (co & rs0 & A1 & A2 & A3 & A4 & A5 & A6 & A7).
    destruct (RSb _ _ A5) as (rs1 & E1 & L1).
    exists co, rs1. split; [exact A1|]. split; [exact A2|]. split; [exact A3|]. split.
    + apply bk_odet. split; [|exact A4]. rewrite (Kw _ _ A1). destruct (mem cf fs) eqn:M; [|reflexivity]. exfalso.
      destruct (F3 _ _ _ _ _ _ A5 A6 A1 A4 M) as (Hr0 & Hp & _).
      rewrite Hr0, Ers in A5. inversion A5; subst rs0. rewrite Hp in A7. congruence.
    + rewrite L1. auto.
  - intros r0 rs1 c cf co p pf po E1 E2 E3 B E4 E5 _. change (get_obj w cf = Some co) in E3. change (get_obj w pf = Some po) in E5.
    destruct (RS _ _ E1) as (rs0 & Ers0 & L1 & _). rewrite L1 in E2, E4.
    apply bk_odet in B. destruct B as [M B]. eapply (tC2 _ _ _ T); eauto.
  - intros pf po E. eapply (tC3 _ _ _ T); eauto.
  - intros r0 rs1 p ls0 c E1 E2 I. destruct (RS _ _ E1) as (rs0 & Ers0 & L1 & Lo). rewrite Lo in E2.
    destruct ((r0 =? r) && (p =? l)) eqn:Q; [discriminate|].
    destruct (tO1 _ _ _ T _ _ _ _ _ Ers0 E2 I) as (A1 & A2 & cf & co & A3 & A4 & A5).
    split; [exact A1|]. split; [intros _; rewrite L1; apply A2; apply KN|]. exists cf, co. rewrite L1. split; [exact A3|]. split; [exact A4|].
    apply bk_odet. split; [|exact A5]. rewrite (Kw _ _ A4). destruct (mem cf fs) eqn:M; [|reflexivity]. exfalso.
    destruct (F3 _ _ _ _ _ _ Ers0 A3 A4 A5 M) as (Hr0 & Hp & _). subst. rewrite !N.eqb_refl in Q. discriminate.
  - intros r0 rs1 c cf co p E1 E2 E3 B Hn. change (get_obj w cf = Some co) in E3.
    destruct (RS _ _ E1) as (rs0 & Ers0 & L1 & Lo). rewrite L1 in E2, Hn. rewrite Lo.
    apply bk_odet in B. destruct B as [M B]. rewrite (Kw _ _ E3) in M.
    destruct Hn as [Hn|Hn]; [|discriminate].
    destruct (tO2 _ _ _ T _ _ _ _ _ _ Ers0 E2 E3 B (or_introl Hn)) as (ls0 & El0 & Il0).
    destruct ((r0 =? r) && (p =? l)) eqn:Q; [|eauto]. exfalso.
    apply andb_prop in Q. destruct Q as [Q1 Q2]. apply N.eqb_eq in Q1, Q2. subst r0 p.
    assert (rs0 = rs) by congruence. subst rs0. rewrite El0 in CLs. subst ls.
    assert (In cf fs) by (apply fulls_In; eauto). apply mem_false in M. contradiction.
  - intros r0 rs1 p ls0 E1 E2. destruct (RS _ _ E1) as (rs0 & Ers0 & L1 & Lo). rewrite Lo in E2.
    destruct ((r0 =? r) && (p =? l)); [discriminate|]. eapply (tO3 _ _ _ T); eauto.
  - intros fP aP pfP EP. apply (tP _ _ _ T fP aP pfP EP).
Qed.

(* ---------- looking a local id up again in a sub-world ---------- *)
Lemma lookup_sub : forall w w1 r c co, Idx w -> Idx w1 -> sub w w1 -> lookup_local w r c = Some co ->
  (exists co1, lookup_local w1 r c = Some co1 /\ o_full co1 = o_full co /\ o_av co1 = o_av co) \/
  (lookup_local w1 r c = None /\ get_obj w1 (o_full co) = None).
Proof.
  intros w w1 r c co I I1 [S1 S2] L. destruct (lookup_local_some _ _ _ _ I L) as (Eco & Hl & Hr).
  destruct (lookup_local w1 r c) as [co1|] eqn:L1.
  - left. exists co1. split; [reflexivity|]. destruct (lookup_local_some _ _ _ _ I1 L1) as (Eco1 & Hl1 & Hr1).
    unfold lookup_local in L1. destruct (get_rs w1 r) as [rs1|] eqn:Ers1; [|discriminate].
    destruct (aget c (r_local rs1)) as [cf1|] eqn:Ec1; [|discriminate].
    destruct (S2 _ _ _ _ Ers1 Ec1) as (rs0 & Ers0 & Ec0).
    unfold lookup_local in L. rewrite Ers0, Ec0 in L.
    destruct I1 as (K1 & _). pose proof (K1 _ _ L1) as Kc1. destruct I as (K0 & _). pose proof (K0 _ _ L) as Kc.
    destruct (S1 _ _ L1) as (a & Ea & P & V). rewrite L in Ea. inversion Ea; subst a. split; congruence.
  - right. split; [reflexivity|]. destruct (get_obj w1 (o_full co)) as [a|] eqn:Ea; [|reflexivity]. exfalso.
    destruct (S1 _ _ Ea) as (a0 & Ea0 & P & _). rewrite Eco in Ea0. inversion Ea0; subst a0. unfold pcore in P. inversion P as [[P1 P2 P3 P4]].
    destruct I1 as (_ & _ & B1). destruct (B1 _ _ Ea) as (rs1 & Ers1 & _ & El1).
    unfold lookup_local in L1. rewrite P3, Hr in Ers1. rewrite Ers1 in L1. rewrite P1, Hl in El1. rewrite El1, Ea in L1. discriminate.
Qed.

(* ---------- the cascade loop, for a recursive call that preserves TreeG with a fixed detached set ---------- *)
Definition KI (killf : world -> N -> option world) (r : N) : Prop :=
  forall w c w' D, Idx w -> TreeG w (odet no_ovr D) None -> killf w c = Some w' ->
    TreeG w' (odet no_ovr D) None /\ (forall o, lookup_local w r c = Some o -> get_obj w' (o_full o) = None).
Definition KS (killf : world -> N -> option world) : Prop :=
  forall w c w', Idx w -> killf w c = Some w' -> Idx w' /\ sub w w'.

Lemma gone_sub : forall w w' g, sub w w' -> get_obj w g = None -> get_obj w' g = None.
Proof.
  intros w w' g [S1 _] H. destruct (get_obj w' g) as [a|] eqn:E; [|reflexivity]. destruct (S1 _ _ E) as (a0 & Ea0 & _). congruence.
Qed.

Lemma kill_children_KI : forall killf r, KI killf r -> KS killf ->
  forall ids w w' D, Idx w -> TreeG w (odet no_ovr D) None -> kill_children killf r ids w = Some w' ->
  TreeG w' (odet no_ovr D) None /\ Idx w' /\ sub w w' /\
  (forall c co, In c ids -> lookup_local w r c = Some co -> o_av co = false -> get_obj w' (o_full co) = None).
Proof.
  intros killf r HKI HKS. induction ids as [|c t IH]; intros w w' D I T H; simpl in H.
  - inversion H; subst. split; [exact T|]. split; [exact I|]. split; [apply sub_refl|]. intros c co [].
  - assert (STEP : forall w1, killf w c = Some w1 -> kill_children killf r t w1 = Some w' ->
        TreeG w' (odet no_ovr D) None /\ Idx w' /\ sub w w' /\
        (forall c0 co, In c0 (c :: t) -> lookup_local w r c0 = Some co -> o_av co = false -> get_obj w' (o_full co) = None)).
    { intros w1 E H1. destruct (HKI _ _ _ _ I T E) as [T1 G1]. destruct (HKS _ _ _ I E) as [I1 S1].
      destruct (IH _ _ _ I1 T1 H1) as (T2 & I2 & S2 & G2). split; [exact T2|]. split; [exact I2|]. split; [eapply sub_trans; eauto|].
      intros c0 co [->|Ic0] L Hav.
      - eapply gone_sub; [exact S2|]. apply G1. exact L.
      - destruct (lookup_sub _ _ _ _ _ I I1 S1 L) as [(co1 & L1 & Hf & Hv)|[_ Hg]].
        + rewrite <- Hf. eapply G2; [exact Ic0|exact L1|congruence].
        + eapply gone_sub; eauto. }
    destruct (lookup_local w r c) as [co|] eqn:L.
    + destruct (o_av co) eqn:Hav.
      * destruct (IH _ _ _ I T H) as (T2 & I2 & S2 & G2). split; [exact T2|]. split; [exact I2|]. split; [exact S2|].
        intros c0 co0 [->|Ic0] L0 Hav0; [congruence|eauto].
      * bind_inv H. eapply STEP; eauto.
    + bind_inv H. eapply STEP; eauto.
Qed.

(* ---------- retrack_avatars is the orphan loop over the avatar members ---------- *)
Definition isav (w : world) (r c : N) : bool :=
  match lookup_local w r c with Some co => o_av co | None => false end.

Lemma retrack_eq : forall ids w r l rs, retrack_avatars w r l ids rs = orphan_children rs (filter (isav w r) ids) l.
Proof.
  induction ids as [|c t IH]; intros w r l rs; simpl; [reflexivity|]. unfold isav at 1.
  destruct (lookup_local w r c) as [co|]; [destruct (o_av co)|]; simpl; apply IH.
Qed.

Lemma mem_app : forall g a b, mem g (a ++ b) = mem g a || mem g b.
Proof. intros. unfold mem. apply existsb_app. Qed.

Lemma fulls_partition : forall rs (p : N -> bool) ls g,
  In g (fulls rs ls) <-> In g (fulls rs (filter p ls)) \/ In g (fulls rs (filter (fun c => negb (p c)) ls)).
Proof.
  intros rs p ls g. rewrite !fulls_In. split.
  - intros (c & Ic & Ec). destruct (p c) eqn:Pc; [left|right]; exists c; (split; [apply filter_In; split; [exact Ic|]|exact Ec]).
    + exact Pc.
    + rewrite Pc. reflexivity.
  - intros [(c & Ic & Ec)|(c & Ic & Ec)]; apply filter_In in Ic; destruct Ic as [Ic _]; eauto.
Qed.

Lemma lookup_local_ext : forall w w' r c, (forall g, get_obj w' g = get_obj w g) ->
  option_map r_local (get_rs w' r) = option_map r_local (get_rs w r) -> lookup_local w' r c = lookup_local w r c.
Proof.
  intros w w' r c GO R. unfold lookup_local. destruct (get_rs w' r) as [rs'|], (get_rs w r) as [rs|]; cbn in R; try discriminate; [|reflexivity].
  inversion R as [R']. rewrite R'. destruct (aget c (r_local rs)); [apply GO|reflexivity].
Qed.

Lemma odet_form : forall D g, odet no_ovr D g = None \/ odet no_ovr D g = Some None.
Proof. intros. unfold odet, no_ovr. destruct (mem g D); auto. Qed.

(* ---------- the cascade preserves TreeG with any fixed set of detached objects ---------- *)
Lemma kill_KI : forall n r, KI (fun w c => kill n w r c) r.
Proof.
  induction n as [|n IHn]; intros r w l w' D I T H; simpl in H; [discriminate|].
  assert (HKS : KS (fun w c => kill n w r c)) by (intros w0 c w0' I0 H0; eapply kill_sub; eauto).
  specialize (IHn r).
  bind_inv H. rename r0 into rs.
  set (rs1 := with_missing rs (sdel l (r_missing rs))) in *. set (w1 := set_rs w r rs1) in *.
  assert (F1 : frame w w1) by (eapply frame_set_rs; [exact E|reflexivity]).
  assert (TF1 : tframe w w1) by (eapply tframe_set_rs; [exact E|reflexivity]).
  pose proof (frame_Idx _ _ F1 I) as I1. pose proof (tframe_TreeG _ _ _ _ TF1 T) as T1.
  assert (Ers1 : get_rs w1 r = Some rs1) by (unfold w1; rewrite get_rs_set_rs, N.eqb_refl; reflexivity).
  assert (LL : lookup_local w1 r l = lookup_local w r l).
  { unfold lookup_local. rewrite Ers1, E. reflexivity. }
  set (O := odet no_ovr D) in *.
  destruct (lookup_local w1 r l) as [o|] eqn:El.
  - (* a tracked object: cascade into its children, then untrack and forget it *)
    bind_inv H. rename w0 into w2. bind_inv H. rename w0 into w3. inversion H; subst w'; clear H.
    destruct (lookup_local_some _ _ _ _ I1 El) as (Eo & Hl & Hr).
    destruct (kill_children_KI _ _ IHn HKS _ _ _ D I1 T1 E0) as (T2 & I2 & S2 & _).
    pose proof E1 as E1'. unfold untrack_object in E1'. destruct (get_obj w2 (o_full o)) as [o'|] eqn:Eo'; [|discriminate]. clear E1'.
    destruct S2 as [S21 S22]. destruct (S21 _ _ Eo') as (o0 & Eo0 & P0 & _). rewrite Eo in Eo0. inversion Eo0; subst o0.
    assert (Hr' : o_region o' = r) by (unfold pcore in P0; congruence).
    destruct (untrack_object_TreeG_gen _ O _ _ _ _ I2 T2 (odet_form D) Eo' Hr' E1) as (TG3 & o3 & Eo3 & P3 & Hch3).
    destruct (untrack_IdxX _ _ _ _ _ I2 Eo' Hr' E1) as (IX3 & _).
    assert (UNI : forall r0 rs0 c, get_rs w3 r0 = Some rs0 -> aget c (r_local rs0) <> Some (o_full o)).
    { intros r0 rs0 c E1' E2'. destruct IX3 as (_ & AX & _). destruct (AX _ _ _ _ E1' E2') as [Hne _]. congruence. }
    pose proof (TreeG_del _ _ _ _ _ (IdxX_Base _ _ IX3) TG3 ltac:(unfold oset; rewrite N.eqb_refl; reflexivity) Eo3 Hch3 UNI) as TD.
    split.
    + eapply TreeG_bk_equiv; [|exact TD]. intros g a Eg p. rewrite get_obj_del_obj in Eg.
      destruct (g =? o_full o) eqn:Q; [discriminate|]. apply N.eqb_neq in Q. destruct IX3 as (KX & _).
      apply bk_oset_other. rewrite (KX _ _ Eg). exact Q.
    + intros o0 L0. rewrite <- LL in L0. inversion L0; subst o0. rewrite get_obj_del_obj, N.eqb_refl. reflexivity.
  - (* an unknown local id: its orphans die, except avatars *)
    assert (Hnone : aget l (r_local rs1) = None).
    { unfold lookup_local in El. rewrite Ers1 in El. destruct (aget l (r_local rs1)) as [f|] eqn:Ef; [|reflexivity].
      destruct I1 as (_ & A1 & _). destruct (A1 _ _ _ _ Ers1 Ef) as (a & Ea & _). congruence. }
    set (w2 := cancel_futures w1 r l) in *.
    assert (T2 : TreeG w2 O None) by (eapply TreeG_wext; [| |exact T1]; reflexivity).
    assert (I2 : Idx w2) by (eapply frame_Idx; [apply frame_set_futs|exact I1]).
    pose proof (Idx_Base _ I2) as B2. pose proof B2 as [K2 W22].
    bind_inv H. rename r0 into rs2. assert (Ers2 : get_rs w1 r = Some rs2) by exact E0. rewrite Ers1 in Ers2. inversion Ers2; subst rs2. clear Ers2.
    destruct (collect_orphans rs1 l) as [ch rs3] eqn:Ec.
    destruct (collect_spec _ _ _ _ Ec) as (CL & CO & CLs).
    pose proof (TreeG_collect_unknown _ _ _ _ _ _ _ B2 T2 E0 Hnone Ec) as TC.
    set (fs := fulls rs1 ch) in *.
    rewrite retrack_eq in H. set (avs := filter (isav w2 r) ch) in *.
    set (nvs := filter (fun c => negb (isav w2 r c)) ch).
    (* the members of the popped list *)
    assert (MEM : forall c, In c ch -> exists cf co, aget c (r_local rs1) = Some cf /\ get_obj w2 cf = Some co /\ o_parent co = l /\ l <> 0 /\ mem cf D = false).
    { intros c Ic. destruct (aget l (r_orphans rs1)) as [ls0|] eqn:El0; [|subst ch; destruct Ic]. subst ch.
      destruct (tO1 _ _ _ T2 _ _ _ _ _ E0 El0 Ic) as (A1 & _ & cf & co & A3 & A4 & A5).
      exists cf, co. split; [exact A3|]. split; [exact A4|]. destruct A5 as [A5 _]. unfold epar, O, odet, no_ovr in A5. rewrite (K2 _ _ A4) in A5.
      destruct (mem cf D) eqn:MD; [discriminate|]. injection A5 as Hp. split; [exact Hp|]. split; [exact A1|reflexivity]. }
    assert (NDch : NoDup ch).
    { destruct (aget l (r_orphans rs1)) as [ls0|] eqn:El0; [|subst ch; constructor]. subst ch. eapply (tO3 _ _ _ T2); eauto. }
    set (W := set_rs w2 r rs3) in *.
    assert (BW : Base W) by (eapply pframe_Base; [eapply pframe_set_rs; [exact E0|exact CL]|exact B2]).
    assert (ErsW : get_rs W r = Some rs3) by (unfold W; rewrite get_rs_set_rs, N.eqb_refl; reflexivity).
    assert (TR : TreeG (set_rs W r (orphan_children rs3 avs l)) (oatt (odet O fs) (fulls rs3 avs) l) None).
    { apply orphan_children_TreeG; auto.
      - apply NoDup_filter. exact NDch.
      - intros Hne. destruct avs as [|c t] eqn:Ea; [congruence|].
        assert (Ic : In c ch). { assert (In c (c :: t)) by (left; reflexivity). rewrite <- Ea in H0. apply filter_In in H0. tauto. }
        destruct (MEM c Ic) as (_ & _ & _ & _ & _ & Hl0 & _). exact Hl0.
      - left. rewrite CL. exact Hnone.
      - intros c Ic. apply filter_In in Ic. destruct Ic as [Ic _]. destruct (MEM c Ic) as (cf & co & Ec' & Eco & _).
        exists cf, co. rewrite CL. split; [exact Ec'|]. split; [exact Eco|]. unfold odet at 1.
        assert (M : mem cf fs = true) by (apply mem_In; apply fulls_In; eauto). rewrite M. reflexivity. }
    apply set_rs_twice in TR. set (w3 := set_rs w2 r (orphan_children rs3 avs l)) in *.
    rewrite (fulls_local rs1 rs3 avs CL) in TR.
    assert (GO3 : forall g, get_obj w3 g = get_obj w2 g) by reflexivity.
    assert (L3 : r_local (orphan_children rs3 avs l) = r_local rs1).
    { pose proof (ridx_orphan_children avs rs3 l) as C. apply ridx_inj in C. destruct C as [_ C]. congruence. }
    assert (LK3 : forall c, lookup_local w3 r c = lookup_local w2 r c).
    { intros c. apply lookup_local_ext; [exact GO3|]. unfold w3. rewrite get_rs_set_rs, N.eqb_refl.
      change (get_rs w2 r) with (get_rs w1 r). rewrite Ers1. cbn [option_map]. rewrite L3. reflexivity. }
    (* normal form of the overrides: D plus the non-avatar members *)
    assert (T3 : TreeG w3 (odet no_ovr (D ++ fulls rs1 nvs)) None).
    { eapply TreeG_bk_equiv; [|exact TR]. intros g a Eg p. rewrite GO3 in Eg. pose proof (K2 _ _ Eg) as Kg.
      assert (R1 : odet O fs g = if mem g fs then Some None else (if mem g D then Some None else None)) by reflexivity.
      assert (R2 : odet no_ovr (D ++ fulls rs1 nvs) g = if mem g D || mem g (fulls rs1 nvs) then Some None else None)
        by (unfold odet, no_ovr; rewrite mem_app; reflexivity).
      assert (EQ : match oatt (odet O fs) (fulls rs1 avs) l g with Some x => x | None => Some (o_parent a) end =
                   match odet no_ovr (D ++ fulls rs1 nvs) g with Some x => x | None => Some (o_parent a) end).
      { unfold oatt. rewrite R1, R2. destruct (mem g (fulls rs1 avs)) eqn:Ma.
        - apply mem_In in Ma. apply fulls_In in Ma. destruct Ma as (c & Ic & Ec'). apply filter_In in Ic. destruct Ic as [Ic Hv].
          destruct (MEM c Ic) as (cf & co & Ec'' & Eco & Hp & Hl0 & HD). rewrite Ec' in Ec''. inversion Ec''; subst cf.
          rewrite Eg in Eco. inversion Eco; subst co. rewrite HD. cbn [orb].
          assert (Mn : mem g (fulls rs1 nvs) = false).
          { apply mem_false. intro Hi. apply fulls_In in Hi. destruct Hi as (c' & Ic' & Ec3). apply filter_In in Ic'. destruct Ic' as [_ Hv'].
            destruct (W22 _ _ _ _ E0 Ec') as (a1 & Ea1 & Hl1 & _). destruct (W22 _ _ _ _ E0 Ec3) as (a2 & Ea2 & Hl2 & _).
            assert (Hcc : c = c') by congruence. rewrite <- Hcc in Hv'. rewrite Hv in Hv'. discriminate. }
          rewrite Mn. congruence.
        - destruct (mem g fs) eqn:Mf.
          + apply mem_In in Mf. apply (fulls_partition rs1 (isav w2 r) ch g) in Mf. destruct Mf as [Mf|Mf].
            * apply mem_In in Mf. fold avs in Mf. congruence.
            * apply mem_In in Mf. fold nvs in Mf. rewrite Mf, orb_true_r. reflexivity.
          + assert (Mn : mem g (fulls rs1 nvs) = false).
            { apply mem_false. intro Hi. apply mem_false in Mf. apply Mf. apply (fulls_partition rs1 (isav w2 r) ch g). right. exact Hi. }
            rewrite Mn, orb_false_r. reflexivity. }
      unfold bk, epar. rewrite Kg, EQ. reflexivity. }
    assert (I3 : Idx w3).
    { eapply frame_Idx; [|exact I2]. eapply frame_set_rs; [exact E0|]. rewrite ridx_orphan_children.
      change rs3 with (snd (ch, rs3)). rewrite <- Ec. apply ridx_collect. }
    destruct (kill_children_KI _ _ IHn HKS _ _ _ _ I3 T3 H) as (T4 & I4 & S4 & GONE).
    split; [|intros o0 L0; rewrite <- LL in L0; discriminate].
    eapply TreeG_bk_equiv; [|exact T4]. intros g a Eg p. destruct I4 as (K4 & _). pose proof (K4 _ _ Eg) as Kg.
    assert (R2 : odet no_ovr (D ++ fulls rs1 nvs) g = if mem g D || mem g (fulls rs1 nvs) then Some None else None)
      by (unfold odet, no_ovr; rewrite mem_app; reflexivity).
    assert (Mn : mem g (fulls rs1 nvs) = false).
    { apply mem_false. intro Hi. apply fulls_In in Hi. destruct Hi as (c & Ic & Ec'). apply filter_In in Ic. destruct Ic as [Ic Hv].
      destruct (MEM c Ic) as (cf & co & Ec'' & Eco & _). rewrite Ec' in Ec''. inversion Ec''; subst cf.
      assert (Lc : lookup_local w3 r c = Some co).
      { rewrite LK3. unfold lookup_local. change (get_rs w2 r) with (get_rs w1 r). rewrite Ers1, Ec'. exact Eco. }
      assert (Hav : o_av co = false).
      { unfold isav in Hv. rewrite <- LK3, Lc in Hv. apply negb_true_iff in Hv. exact Hv. }
      pose proof (GONE c co ltac:(apply in_rev; rewrite rev_involutive; exact Ic) Lc Hav) as Hg.
      rewrite (K2 _ _ Eco) in Hg. congruence. }
    unfold bk, epar. rewrite Kg, R2, Mn, orb_false_r. reflexivity.
Qed.

Lemma kill_Tree : forall n w r l w', Idx w -> Tree w -> kill n w r l = Some w' -> Tree w'.
Proof.
  intros n w r l w' I T H.
  assert (T0 : TreeG w (odet no_ovr []) None) by (eapply TreeG_ext; [|exact T]; intros g; reflexivity).
  destruct (kill_KI n r w l w' [] I T0 H) as [T1 _]. eapply TreeG_ext; [|exact T1]. intros g. reflexivity.
Qed.

(* ---------- every event kind ---------- *)
Definition input_tree_ok (w : world) (e : event) : Prop :=
  match e with
  | EFull _ r l f p _ _ =>
    region_state w r <> None /\ lid_unique w r l f /\
    match get_obj w f with
    | None => p <> l
    | Some o => (o_region o <> r -> p <> l) /\ (o_region o = r -> o_lid o <> l -> o_parent o <> l)
    end
  | _ => True
  end.

Lemma input_tree_idx : forall w e, input_tree_ok w e -> input_idx_ok w e.
Proof. intros w e H. destruct e; cbn in *; tauto. Qed.

Lemma step_Tree : forall w e w', Idx w -> Tree w -> input_tree_ok w e -> step w e = Some w' -> Tree w'.
Proof.
  intros w e w' I T Hok H. pose proof I as (K & A & B).
  destruct e as [cmp r l f p av v|r l v|r l crc v|f v|r l|r|r|r l|r l|r];
    try (eapply step_Tree_quiet; eauto; exact Logic.I).
  - (* ObjectUpdate / ObjectUpdateCompressed *)
    destruct Hok as (Hrs & Hu & Hp). cbn [step] in H. destruct (get_obj w f) as [o|] eqn:Eo.
    + eapply update_existing_Tree; [exact I|exact T| |exact H]. intros o' Eo'. rewrite Eo in Eo'. inversion Eo'; subst o'. cbn. tauto.
    + destruct (region_state w r) eqn:Ers; [|congruence].
      eapply track_new_Tree; [exact I|exact T| | | | | | | |exact H]; cbn; auto. congruence.
  - (* KillObject *)
    cbn [step] in H. destruct (get_rs w r); [|discriminate]. eapply kill_Tree; eauto.
Qed.

Definition Inv (w : world) : Prop := Idx w /\ Tree w.

Lemma init_Tree : Tree init.
Proof.
  constructor.
  - intros pf po c cf E. discriminate.
  - intros r rs c cf co p pf po _ _ E. discriminate.
  - intros pf po E. discriminate.
  - intros r rs p ls c E1 E2. unfold init, get_rs in E1. cbn in E1.
    destruct (r =? 1); [inversion E1; subst; discriminate|]. destruct (r =? 2); [inversion E1; subst; discriminate|discriminate].
  - intros r rs c cf co p _ _ E. discriminate.
  - intros r rs p ls E1 E2. unfold init, get_rs in E1. cbn in E1.
    destruct (r =? 1); [inversion E1; subst; discriminate|]. destruct (r =? 2); [inversion E1; subst; discriminate|discriminate].
  - intros f o pf E. discriminate.
Qed.

Lemma step_Inv : forall w e w', Inv w -> input_tree_ok w e -> step w e = Some w' -> Inv w'.
Proof.
  intros w e w' [I T] Hok H. split; [eapply step_Idx; eauto; apply input_tree_idx; exact Hok|eapply step_Tree; eauto].
Qed.

Lemma run_Inv : forall h w w', Inv w -> hist_ok input_tree_ok w h -> run w h = Some w' -> Inv w'.
Proof.
  induction h as [|e t IH]; intros w w' I Hok H; simpl in *.
  - inversion H; subst; exact I.
  - destruct Hok as [Hok Hrest]. destruct (step w e) as [w1|] eqn:Es; [|discriminate].
    eapply IH; [eapply step_Inv; eauto|exact Hrest|exact H].
Qed.

(* executable version of the assumption, for non-vacuity examples *)
Definition input_tree_okb (w : world) (e : event) : bool :=
  input_idx_okb w e &&
  match e with
  | EFull _ r l f p _ _ =>
    match get_obj w f with
    | None => negb (p =? l)
    | Some o => (if o_region o =? r then (if o_lid o =? l then true else negb (o_parent o =? l)) else negb (p =? l))
    end
  | _ => true
  end.

Lemma input_tree_okb_ok : forall w e, input_tree_okb w e = true -> input_tree_ok w e.
Proof.
  intros w e H. unfold input_tree_okb in H. apply andb_prop in H. destruct H as [H1 H2].
  pose proof (input_idx_okb_ok _ _ H1) as HI. destruct e; cbn in *; auto.
  - destruct HI as [HI1 HI2]. split; [exact HI1|]. split; [exact HI2|].
    destruct (get_obj w f) as [o|].
    + destruct (o_region o =? r) eqn:Qr.
      * apply N.eqb_eq in Qr. split; [congruence|]. intros _ Hl. destruct (o_lid o =? l) eqn:Ql; [apply N.eqb_eq in Ql; congruence|].
        apply negb_true_iff in H2. apply N.eqb_neq in H2. exact H2.
      * apply N.eqb_neq in Qr. split; [|congruence]. intros _. apply negb_true_iff in H2. apply N.eqb_neq in H2. exact H2.
    + apply negb_true_iff in H2. apply N.eqb_neq in H2. exact H2.
Qed.

Fixpoint hist_tree_okb (w : world) (h : list event) : bool :=
  match h with
  | [] => true
  | e :: t => input_tree_okb w e && match step w e with Some w1 => hist_tree_okb w1 t | None => true end
  end.

Lemma hist_tree_okb_ok : forall h w, hist_tree_okb w h = true -> hist_ok input_tree_ok w h.
Proof.
  induction h as [|e t IH]; intros w H; simpl in *; [exact Logic.I|].
  apply andb_prop in H. destruct H as [H1 H2]. split; [apply input_tree_okb_ok; exact H1|].
  destruct (step w e); [apply IH; exact H2|exact Logic.I].
Qed.

(* ---------- the Parent back-link, read off Idx and Tree ---------- *)
(* obj.Parent is the tracked object that has local id obj.ParentID in obj's region, and None when ParentID is 0 or
   no such object is tracked *)
Lemma Tree_parent_link : forall w f o, Idx w -> Tree w -> get_obj w f = Some o ->
  o_plink o = if o_parent o =? 0 then None
              else match get_rs w (o_region o) with Some rs => aget (o_parent o) (r_local rs) | None => None end.
Proof.
  intros w f o I T Eo. pose proof I as (K & A & B). destruct (B _ _ Eo) as (rs & Ers & _ & Elx). rewrite Ers.
  assert (FWD : forall pf, o_plink o = Some pf -> o_parent o <> 0 /\ aget (o_parent o) (r_local rs) = Some pf).
  { intros pf Hp. destruct (proj1 (tP _ _ _ T f o pf Eo) Hp) as (po & Epo & Ic).
    destruct (tC1 _ _ _ T _ _ _ _ Epo Ic) as (co & rs0 & A1 & A2 & A3 & [A4 A4'] & A5 & A6 & A7).
    rewrite Eo in A1. inversion A1; subst co. unfold epar, no_ovr in A4. inversion A4 as [A4p].
    rewrite <- A3, Ers in A5. inversion A5; subst rs0. rewrite A4p. auto. }
  destruct (o_parent o =? 0) eqn:Q0.
  - apply N.eqb_eq in Q0. destruct (o_plink o) as [pf|] eqn:Ep; [|reflexivity]. destruct (FWD pf eq_refl) as [H _]. contradiction.
  - apply N.eqb_neq in Q0. destruct (aget (o_parent o) (r_local rs)) as [pf|] eqn:Epf.
    + destruct (A _ _ _ _ Ers Epf) as (po & Epo & _).
      apply (tP _ _ _ T f o pf Eo). exists po. split; [exact Epo|].
      eapply (tC2 _ _ _ T _ _ _ _ o (o_parent o)); eauto; [|intro Hk; discriminate]. split; [reflexivity|exact Q0].
    + destruct (o_plink o) as [pf|] eqn:Ep; [|reflexivity]. destruct (FWD pf eq_refl) as [_ H]. congruence.
Qed.

(* ... equivalently: it names exactly the object whose children list holds this object *)
Lemma Tree_parent_children : forall w f o pf, Tree w -> get_obj w f = Some o ->
  (o_plink o = Some pf <-> exists po, get_obj w pf = Some po /\ In (o_lid o, f) (o_children po)).
Proof. intros w f o pf T Eo. exact (tP _ _ _ T f o pf Eo). Qed.
