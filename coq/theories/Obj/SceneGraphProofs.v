(* C14 - lemmas about the scene-graph model (SceneGraph.v). *)
From Coq Require Import NArith List Bool Lia.
From HV Require Import Obj.SceneGraph.
Import ListNotations.
Open Scope N_scope.

(* ---------- association lists ---------- *)
Lemma aget_adel : forall A (m : list (N * A)) k k',
  aget k (adel k' m) = if k =? k' then None else aget k m.
Proof.
  induction m as [|[a v] t IH]; intros k k'; simpl.
  - destruct (k =? k'); reflexivity.
  - destruct (k' =? a) eqn:E1.
    + apply N.eqb_eq in E1; subst. rewrite IH.
      destruct (k =? a) eqn:E2; reflexivity.
    + simpl. destruct (k =? a) eqn:E2.
      * apply N.eqb_eq in E2; subst. rewrite N.eqb_sym, E1. reflexivity.
      * apply IH.
Qed.

Lemma aget_aset : forall A (m : list (N * A)) k k' v,
  aget k (aset k' v m) = if k =? k' then Some v else aget k m.
Proof.
  intros. unfold aset. simpl. destruct (k =? k') eqn:E; [reflexivity|].
  rewrite aget_adel, E. reflexivity.
Qed.

(* ---------- futures ---------- *)
Definition pending_at (w : world) (r l : N) : Prop :=
  exists x, In x (w_futs w) /\ f_region x = r /\ f_lid x = l /\ f_state x = Pending.

Lemma clear_cancels : forall w r w',
  step w (EClear r) = Some w' ->
  forall x, In x (w_futs w') -> f_region x = r -> f_state x <> Pending.
Proof.
  intros w r w' H x Hin Hr. unfold step in H.
  destruct (get_rs w r); simpl in H; [|discriminate].
  injection H as H; subst w'. simpl in Hin.
  apply in_map_iff in Hin. destruct Hin as [y [Hy _]].
  destruct ((f_region y =? r) && is_pending (f_state y)) eqn:E.
  - subst x. simpl. discriminate.
  - subst x. rewrite Hr, N.eqb_refl in E. simpl in E.
    destruct (f_state y); simpl in E; congruence.
Qed.

(* ---------- basic accessors ---------- *)
Lemma get_obj_set_obj : forall w o g,
  get_obj (set_obj w o) g = if g =? o_full o then Some o else get_obj w g.
Proof. intros. unfold get_obj, set_obj. simpl. apply aget_aset. Qed.
Lemma get_rs_set_obj : forall w o r, get_rs (set_obj w o) r = get_rs w r.
Proof. reflexivity. Qed.
Lemma get_obj_set_rs : forall w r rs g, get_obj (set_rs w r rs) g = get_obj w g.
Proof. reflexivity. Qed.
Lemma get_rs_set_rs : forall w r rs r',
  get_rs (set_rs w r rs) r' = if r' =? r then Some rs else get_rs w r'.
Proof. intros. unfold get_rs, set_rs. simpl. apply aget_aset. Qed.
Lemma get_obj_del_obj : forall w f g,
  get_obj (del_obj w f) g = if g =? f then None else get_obj w g.
Proof. intros. unfold get_obj, del_obj. simpl. apply aget_adel. Qed.

Ltac bind_inv H :=
  match type of H with
  | bind (bind ?x _) _ = Some _ => let E := fresh "E" in destruct x eqn:E; cbn [bind] in H; [|discriminate]
  | bind ?x _ = Some _ => let E := fresh "E" in destruct x eqn:E; cbn [bind] in H; [|discriminate]
  end.

(* ---------- the index part of the invariant ---------- *)
(* the fields of an object / region state the two indices depend on *)
Definition core (o : obj) : N * N * N := (o_lid o, o_full o, o_region o).
Definition ridx (rs : rstate) : bool * list (N * N) := (r_tracked rs, r_local rs).

Definition keys_ok (w : world) : Prop := forall f o, get_obj w f = Some o -> o_full o = f.

(* lookup by local id and lookup by full id agree and contain the same objects *)
Definition Idx (w : world) : Prop :=
  keys_ok w /\
  (forall r rs l f, get_rs w r = Some rs -> aget l (r_local rs) = Some f ->
     exists o, get_obj w f = Some o /\ o_lid o = l /\ o_region o = r) /\
  (forall f o, get_obj w f = Some o ->
     exists rs, get_rs w (o_region o) = Some rs /\ r_tracked rs = true /\ aget (o_lid o) (r_local rs) = Some f).

(* w' differs from w only in fields the indices do not depend on *)
Definition frame (w w' : world) : Prop :=
  (forall f, option_map core (get_obj w' f) = option_map core (get_obj w f)) /\
  (forall r, option_map ridx (get_rs w' r) = option_map ridx (get_rs w r)).

Lemma frame_refl : forall w, frame w w.
Proof. split; reflexivity. Qed.
Lemma frame_trans : forall a b c, frame a b -> frame b c -> frame a c.
Proof. intros a b c [H1 H2] [H3 H4]. split; intros; [rewrite H3, H1|rewrite H4, H2]; reflexivity. Qed.

Lemma frame_obj : forall w w' f o', frame w w' -> get_obj w' f = Some o' ->
  exists o, get_obj w f = Some o /\ core o = core o'.
Proof.
  intros w w' f o' [H _] E. specialize (H f). rewrite E in H. simpl in H.
  destruct (get_obj w f) as [o|]; simpl in H; [|discriminate]. exists o. split; congruence.
Qed.
Lemma frame_obj_rev : forall w w' f o, frame w w' -> get_obj w f = Some o ->
  exists o', get_obj w' f = Some o' /\ core o = core o'.
Proof.
  intros w w' f o [H _] E. specialize (H f). rewrite E in H. simpl in H.
  destruct (get_obj w' f) as [o'|]; simpl in H; [|discriminate]. exists o'. split; congruence.
Qed.
Lemma frame_rs : forall w w' r rs', frame w w' -> get_rs w' r = Some rs' ->
  exists rs, get_rs w r = Some rs /\ ridx rs = ridx rs'.
Proof.
  intros w w' r rs' [_ H] E. specialize (H r). rewrite E in H. simpl in H.
  destruct (get_rs w r) as [rs|]; simpl in H; [|discriminate]. exists rs. split; congruence.
Qed.
Lemma frame_rs_rev : forall w w' r rs, frame w w' -> get_rs w r = Some rs ->
  exists rs', get_rs w' r = Some rs' /\ ridx rs = ridx rs'.
Proof.
  intros w w' r rs [_ H] E. specialize (H r). rewrite E in H. simpl in H.
  destruct (get_rs w' r) as [rs'|]; simpl in H; [|discriminate]. exists rs'. split; congruence.
Qed.

Lemma core_inj : forall o o', core o = core o' ->
  o_lid o = o_lid o' /\ o_full o = o_full o' /\ o_region o = o_region o'.
Proof. unfold core. intros o o' H. inversion H. auto. Qed.
Lemma ridx_inj : forall a b, ridx a = ridx b -> r_tracked a = r_tracked b /\ r_local a = r_local b.
Proof. unfold ridx. intros a b H. inversion H. auto. Qed.

Lemma frame_keys : forall w w', frame w w' -> keys_ok w -> keys_ok w'.
Proof.
  intros w w' F K f o' E. destruct (frame_obj _ _ _ _ F E) as [o [Eo C]].
  apply core_inj in C. destruct C as (_ & C & _). rewrite <- C. eauto.
Qed.

Lemma frame_Idx : forall w w', frame w w' -> Idx w -> Idx w'.
Proof.
  intros w w' F (K & A & B). split; [eapply frame_keys; eauto|]. split.
  - intros r rs' l f Ers El.
    destruct (frame_rs _ _ _ _ F Ers) as [rs [Ers0 C]]. apply ridx_inj in C. destruct C as [_ C].
    rewrite <- C in El. destruct (A _ _ _ _ Ers0 El) as [o [Eo [Hl Hr]]].
    destruct (frame_obj_rev _ _ _ _ F Eo) as [o' [Eo' C']]. apply core_inj in C'.
    exists o'. intuition congruence.
  - intros f o' Eo'. destruct (frame_obj _ _ _ _ F Eo') as [o [Eo C]]. apply core_inj in C.
    destruct (B _ _ Eo) as [rs [Ers [Ht El]]].
    destruct C as (C1 & _ & C4). rewrite C4 in Ers.
    destruct (frame_rs_rev _ _ _ _ F Ers) as [rs' [Ers' C']]. apply ridx_inj in C'. destruct C' as [C5 C6].
    exists rs'. rewrite <- C5, <- C6, <- C1. auto.
Qed.

(* writing back an object with the same core fields is a frame step *)
Lemma frame_set_obj : forall w f o o', get_obj w f = Some o -> core o' = core o -> o_full o = f ->
  frame w (set_obj w o').
Proof.
  intros w f o o' E C K. pose proof (core_inj _ _ C) as (_ & Cf & _).
  split; intros; [|reflexivity].
  rewrite get_obj_set_obj. destruct (f0 =? o_full o') eqn:Q; [|reflexivity].
  apply N.eqb_eq in Q. subst f0. rewrite Cf, K, E. simpl. congruence.
Qed.

Lemma frame_set_rs : forall w r rs rs', get_rs w r = Some rs -> ridx rs' = ridx rs ->
  frame w (set_rs w r rs').
Proof.
  intros w r rs rs' E C. split; intros; [reflexivity|].
  rewrite get_rs_set_rs. destruct (r0 =? r) eqn:Q; [|reflexivity].
  apply N.eqb_eq in Q. subst r0. rewrite E. simpl. congruence.
Qed.

Lemma frame_set_futs : forall w fs, frame w (set_futs w fs).
Proof. split; reflexivity. Qed.

Lemma ridx_track_orphan : forall rs l p, ridx (track_orphan rs l p) = ridx rs.
Proof. reflexivity. Qed.
Lemma ridx_untrack_orphan : forall rs l p, ridx (untrack_orphan rs l p) = ridx rs.
Proof.
  intros. unfold untrack_orphan. destruct (aget p (r_orphans rs)); [|reflexivity].
  destruct (if mem l l0 then remove1 l l0 else l0); reflexivity.
Qed.
Lemma ridx_orphan_children : forall ids rs p, ridx (orphan_children rs ids p) = ridx rs.
Proof. induction ids; intros; simpl; [reflexivity|]. rewrite IHids. reflexivity. Qed.
Lemma ridx_retrack : forall ids w r l rs, ridx (retrack_avatars w r l ids rs) = ridx rs.
Proof.
  induction ids as [|c t IH]; intros; simpl; [reflexivity|].
  destruct (lookup_local w r c) as [co|]; [destruct (o_av co)|]; rewrite IH; reflexivity.
Qed.
Lemma ridx_collect : forall rs p, ridx (snd (collect_orphans rs p)) = ridx rs.
Proof. intros. unfold collect_orphans. destruct (aget p (r_orphans rs)); reflexivity. Qed.

Lemma frame_parent_object : forall w r f h w', keys_ok w ->
  parent_object w r f h = Some w' -> frame w w'.
Proof.
  intros w r f h w' K H. unfold parent_object in H.
  bind_inv H. bind_inv H. rename o into o0, r0 into rs.
  destruct (o_parent o0 =? 0); [inversion H; apply frame_refl|].
  destruct (aget (o_parent o0) (r_local rs)) as [pf|] eqn:Ep.
  - bind_inv H. rename o into po.
    destruct (mem (o_lid o0) (map fst (o_children po))); [discriminate|].
    bind_inv H. rename o into o1. inversion H; subst w'; clear H.
    match type of E2 with get_obj ?W _ = _ => apply frame_trans with (b := W) end.
    + eapply (frame_set_obj w pf po); [eauto|reflexivity|eauto].
    + eapply (frame_set_obj _ f o1); [eauto|reflexivity|].
      rewrite get_obj_set_obj in E2. cbn [o_full with_children] in E2.
      destruct (f =? o_full po) eqn:Q.
      * inversion E2; subst o1. cbn. apply N.eqb_eq in Q. congruence.
      * eauto.
  - inversion H; subst w'; clear H.
    match goal with |- frame _ (set_obj ?W _) => apply frame_trans with (b := W) end.
    + eapply (frame_set_rs w r rs); [eauto|]. rewrite ridx_track_orphan. reflexivity.
    + eapply (frame_set_obj _ f o0); [rewrite get_obj_set_rs; eauto|reflexivity|eauto].
Qed.

Lemma frame_unparent_object : forall w r f p w', keys_ok w ->
  unparent_object w r f p = Some w' -> frame w w'.
Proof.
  intros w r f p w' K H. unfold unparent_object in H.
  bind_inv H. bind_inv H. rename o into o0, r0 into rs.
  assert (F1 : frame w (set_obj w (with_plink o0 None))).
  { eapply (frame_set_obj w f o0); [eauto|reflexivity|eauto]. }
  destruct (p =? 0); [inversion H; subst; exact F1|].
  set (w1 := set_obj w (with_plink o0 None)) in *.
  assert (F2 : frame w (set_rs w1 r (untrack_orphan rs (o_lid o0) p))).
  { eapply frame_trans; [exact F1|]. eapply (frame_set_rs w1 r rs); [exact E0|apply ridx_untrack_orphan]. }
  set (w2 := set_rs w1 r (untrack_orphan rs (o_lid o0) p)) in *.
  destruct (aget p (r_local rs)) as [pf|]; [|inversion H; subst; exact F2].
  destruct (get_obj w2 pf) as [po|] eqn:Epo; [|discriminate].
  destruct (mem (o_lid o0) (map fst (o_children po))); inversion H; subst; [|exact F2].
  eapply frame_trans; [exact F2|].
  eapply (frame_set_obj w2 pf po); [eauto|reflexivity|].
  eapply (frame_keys w w2); eauto.
Qed.

Lemma frame_reparented : forall w r f p w', keys_ok w ->
  handle_object_reparented w r f p = Some w' -> frame w w'.
Proof.
  intros w r f p w' K H. unfold handle_object_reparented in H.
  bind_inv H. bind_inv H.
  pose proof (frame_unparent_object _ _ _ _ _ K E) as F1.
  eapply frame_trans; [exact F1|]. eapply frame_parent_object; [|exact H]. eapply frame_keys; eauto.
Qed.

Lemma frame_adopt : forall orph w r w', keys_ok w -> adopt w r orph = Some w' -> frame w w'.
Proof.
  induction orph as [|c t IH]; intros w r w' K H; simpl in H.
  - inversion H. apply frame_refl.
  - bind_inv H. destruct (aget c (r_local r0)); [|discriminate]. bind_inv H.
    pose proof (frame_parent_object _ _ _ _ _ K E0) as F1.
    eapply frame_trans; [exact F1|]. eapply IH; [|exact H]. eapply frame_keys; eauto.
Qed.

Lemma frame_unparent_children : forall ids w r w', keys_ok w ->
  unparent_children w r ids = Some w' -> frame w w'.
Proof.
  induction ids as [|c t IH]; intros w r w' K H; simpl in H.
  - inversion H. apply frame_refl.
  - bind_inv H. destruct (aget c (r_local r0)); [|discriminate]. bind_inv H. bind_inv H.
    pose proof (frame_unparent_object _ _ _ _ _ K E1) as F1.
    eapply frame_trans; [exact F1|]. eapply IH; [|exact H]. eapply frame_keys; eauto.
Qed.

(* ---------- Idx with one object (x) taken out of the local-id index ---------- *)
Definition IdxX (w : world) (x : N) : Prop :=
  keys_ok w /\
  (forall r rs l g, get_rs w r = Some rs -> aget l (r_local rs) = Some g ->
     g <> x /\ exists o, get_obj w g = Some o /\ o_lid o = l /\ o_region o = r) /\
  (forall g o, get_obj w g = Some o -> g <> x ->
     exists rs, get_rs w (o_region o) = Some rs /\ r_tracked rs = true /\ aget (o_lid o) (r_local rs) = Some g).

Lemma IdxX_unindex : forall w f o r rs, Idx w -> get_obj w f = Some o -> o_region o = r ->
  get_rs w r = Some rs ->
  IdxX (set_rs w r (with_local rs (adel (o_lid o) (r_local rs)))) f.
Proof.
  intros w f o r rs (K & A & B) Eo Hr Ers. split; [exact K|]. split.
  - intros r' rs' l g Ers' El. rewrite get_rs_set_rs in Ers'.
    destruct (r' =? r) eqn:Q.
    + apply N.eqb_eq in Q. subst r'. inversion Ers'; subst rs'; clear Ers'. cbn in El.
      rewrite aget_adel in El. destruct (l =? o_lid o) eqn:Q2; [discriminate|].
      destruct (A _ _ _ _ Ers El) as [og [Eg [Hl Hrg]]]. split; [|eauto].
      intro; subst g. rewrite Eo in Eg. inversion Eg; subst og. rewrite <- Hl, N.eqb_refl in Q2. discriminate.
    + destruct (A _ _ _ _ Ers' El) as [og [Eg [Hl Hrg]]]. split; [|eauto].
      intro; subst g. rewrite Eo in Eg. inversion Eg; subst og. rewrite Hr in Hrg. rewrite Hrg, N.eqb_refl in Q. discriminate.
  - intros g og Eg Hne. rewrite get_obj_set_rs in Eg. destruct (B _ _ Eg) as [rsg [Ersg [Ht El]]].
    rewrite get_rs_set_rs. destruct (o_region og =? r) eqn:Q.
    + apply N.eqb_eq in Q. rewrite Q in Ersg. rewrite Ers in Ersg. inversion Ersg; subst rsg.
      eexists; split; [reflexivity|]. split; [exact Ht|]. cbn. rewrite aget_adel.
      destruct (o_lid og =? o_lid o) eqn:Q2; [|exact El].
      apply N.eqb_eq in Q2. destruct (B _ _ Eo) as [rso [Erso [_ Elo]]]. rewrite Hr, Ers in Erso.
      inversion Erso; subst rso. rewrite Q2 in El. congruence.
    + eauto.
Qed.

Lemma IdxX_set_obj : forall w x o', IdxX w x -> o_full o' = x -> IdxX (set_obj w o') x.
Proof.
  intros w x o' (K & A & B) Hf. split; [|split].
  - intros g og Eg. rewrite get_obj_set_obj in Eg. destruct (g =? o_full o') eqn:Q.
    + apply N.eqb_eq in Q. inversion Eg; subst. reflexivity.
    + eauto.
  - intros r rs l g Ers El. rewrite get_rs_set_obj in Ers. destruct (A _ _ _ _ Ers El) as [Hne [og [Eg H]]].
    split; [exact Hne|]. exists og. rewrite get_obj_set_obj.
    destruct (g =? o_full o') eqn:Q; [apply N.eqb_eq in Q; congruence|auto].
  - intros g og Eg Hne. rewrite get_obj_set_obj in Eg.
    destruct (g =? o_full o') eqn:Q; [apply N.eqb_eq in Q; congruence|]. rewrite get_rs_set_obj. eauto.
Qed.

Lemma IdxX_new : forall w o, Idx w -> get_obj w (o_full o) = None -> IdxX (set_obj w o) (o_full o).
Proof.
  intros w o (K & A & B) Hn. apply IdxX_set_obj; [|reflexivity]. split; [exact K|]. split.
  - intros r rs l g Ers El. destruct (A _ _ _ _ Ers El) as [og [Eg H]]. split; [congruence|eauto].
  - intros g og Eg _. eauto.
Qed.

Lemma IdxX_del : forall w x, IdxX w x -> Idx (del_obj w x).
Proof.
  intros w x (K & A & B). split; [|split].
  - intros g og Eg. rewrite get_obj_del_obj in Eg. destruct (g =? x); [discriminate|eauto].
  - intros r rs l g Ers El. destruct (A _ _ _ _ Ers El) as [Hne [og [Eg H]]].
    exists og. rewrite get_obj_del_obj. destruct (g =? x) eqn:Q; [apply N.eqb_eq in Q; congruence|auto].
  - intros g og Eg. rewrite get_obj_del_obj in Eg. destruct (g =? x) eqn:Q; [discriminate|].
    apply N.eqb_neq in Q. eauto.
Qed.

Lemma IdxX_index : forall w f o r rs miss, IdxX w f -> get_obj w f = Some o -> o_region o = r ->
  get_rs w r = Some rs -> r_tracked rs = true -> aget (o_lid o) (r_local rs) = None ->
  Idx (set_rs w r (with_missing (with_local rs (aset (o_lid o) f (r_local rs))) miss)).
Proof.
  intros w f o r rs miss (K & A & B) Eo Hr Ers Ht Hfree. split; [exact K|]. split.
  - intros r' rs' l g Ers' El. rewrite get_rs_set_rs in Ers'. rewrite get_obj_set_rs.
    destruct (r' =? r) eqn:Q.
    + apply N.eqb_eq in Q. subst r'. inversion Ers'; subst rs'; clear Ers'. cbn [r_local with_local with_missing] in El.
      rewrite aget_aset in El. destruct (l =? o_lid o) eqn:Q2.
      * apply N.eqb_eq in Q2. inversion El; subst g. eauto.
      * destruct (A _ _ _ _ Ers El) as [_ H]. exact H.
    + destruct (A _ _ _ _ Ers' El) as [_ H]. exact H.
  - intros g og Eg. rewrite get_obj_set_rs in Eg. rewrite get_rs_set_rs.
    destruct (N.eq_dec g f) as [->|Hne].
    + rewrite Eo in Eg. inversion Eg; subst og. rewrite Hr, N.eqb_refl.
      eexists; split; [reflexivity|]. split; [exact Ht|]. cbn [r_local with_local with_missing]. rewrite aget_aset, N.eqb_refl. reflexivity.
    + destruct (B _ _ Eg Hne) as [rsg [Ersg [Htg El]]].
      destruct (o_region og =? r) eqn:Q; [|eauto].
      apply N.eqb_eq in Q. rewrite Q, Ers in Ersg. inversion Ersg; subst rsg.
      eexists; split; [reflexivity|]. split; [exact Ht|]. cbn [r_local with_local with_missing]. rewrite aget_aset.
      destruct (o_lid og =? o_lid o) eqn:Q2; [|exact El].
      apply N.eqb_eq in Q2. rewrite Q2 in El. congruence.
Qed.

(* ---------- untrack_object / track_object ---------- *)
Lemma untrack_spec : forall w r f o w', Idx w -> get_obj w f = Some o -> o_region o = r ->
  untrack_object w r f = Some w' ->
  exists w4 rs4 o4, frame w w4 /\ get_rs w4 r = Some rs4 /\ get_obj w4 f = Some o4 /\ core o4 = core o /\
    w' = set_rs w4 r (with_local rs4 (adel (o_lid o) (r_local rs4))).
Proof.
  intros w r f o w' I Eo Hr H. pose proof I as (K & _). unfold untrack_object in H.
  rewrite Eo in H. cbn [bind] in H. bind_inv H. rename w0 into w1.
  pose proof (frame_unparent_children _ _ _ _ K E) as F1.
  bind_inv H. rename r0 into rs1.
  assert (F2 : frame w (set_rs w1 r (orphan_children rs1 (map fst (o_children o)) (o_lid o)))).
  { eapply frame_trans; [exact F1|]. eapply frame_set_rs; [exact E0|apply ridx_orphan_children]. }
  set (w2 := set_rs w1 r (orphan_children rs1 (map fst (o_children o)) (o_lid o))) in *.
  bind_inv H. rename o0 into o2. destruct (o_children o2); [|discriminate].
  bind_inv H. rename w0 into w3.
  assert (K2 : keys_ok w2) by (eapply frame_keys; eauto).
  pose proof (frame_unparent_object _ _ _ _ _ K2 E2) as F3.
  assert (F4 : frame w (cancel_futures w3 r (o_lid o2))).
  { eapply frame_trans; [exact F2|]. eapply frame_trans; [exact F3|]. apply frame_set_futs. }
  set (w4 := cancel_futures w3 r (o_lid o2)) in *.
  bind_inv H. rename r0 into rs4. destruct (aget (o_lid o2) (r_local rs4)); [|discriminate].
  inversion H; subst w'; clear H.
  destruct (frame_obj_rev _ _ _ _ F2 Eo) as [o2' [Eo2' C2]]. rewrite E1 in Eo2'. inversion Eo2'; subst o2'.
  destruct (frame_obj_rev _ _ _ _ F4 Eo) as [o4 [Eo4 C4]].
  exists w4, rs4, o4. split; [exact F4|]. split; [assumption|]. split; [exact Eo4|]. split; [auto|].
  apply core_inj in C2. destruct C2 as (C2 & _). rewrite C2. reflexivity.
Qed.

Definition ridx_del (r l r' : N) (rs : rstate) : bool * list (N * N) :=
  (r_tracked rs, if r' =? r then adel l (r_local rs) else r_local rs).

Lemma untrack_IdxX : forall w r f o w', Idx w -> get_obj w f = Some o -> o_region o = r ->
  untrack_object w r f = Some w' ->
  IdxX w' f /\ (exists o', get_obj w' f = Some o' /\ core o' = core o) /\
  (forall g, option_map core (get_obj w' g) = option_map core (get_obj w g)) /\
  (forall r', option_map ridx (get_rs w' r') = option_map (ridx_del r (o_lid o) r') (get_rs w r')).
Proof.
  intros w r f o w' I Eo Hr H.
  destruct (untrack_spec _ _ _ _ _ I Eo Hr H) as (w4 & rs4 & o4 & F & Ers4 & Eo4 & C4 & ->).
  pose proof (frame_Idx _ _ F I) as I4. pose proof (core_inj _ _ C4) as (Cl & Cf & Cr).
  split; [|split; [|split]].
  - rewrite <- Cl. apply (IdxX_unindex w4 f o4 r rs4); auto. congruence.
  - exists o4. rewrite get_obj_set_rs. auto.
  - intros g. rewrite get_obj_set_rs. apply F.
  - intros r'. rewrite get_rs_set_rs. destruct F as [_ F]. specialize (F r'). unfold ridx_del.
    destruct (r' =? r) eqn:Q.
    + apply N.eqb_eq in Q. subst r'. rewrite Ers4 in F. cbn in F.
      destruct (get_rs w r) as [rs|]; cbn in F; [|discriminate]. inversion F as [[Ft Fl]].
      cbn. unfold ridx. cbn. rewrite Fl, Ft. reflexivity.
    + rewrite F. destruct (get_rs w r'); reflexivity.
Qed.

Lemma track_Idx : forall w r f o w', IdxX w f -> get_obj w f = Some o -> o_region o = r ->
  (exists rs, get_rs w r = Some rs /\ r_tracked rs = true /\ aget (o_lid o) (r_local rs) = None) ->
  track_object w r f = Some w' ->
  Idx w' /\ (forall g, option_map core (get_obj w' g) = option_map core (get_obj w g)).
Proof.
  intros w r f o w' IX Eo Hr (rs & Ers & Ht & Hfree) H. unfold track_object in H.
  rewrite Eo, Ers in H. cbn [bind] in H.
  pose proof (IdxX_index w f o r rs (sdel (o_lid o) (r_missing rs)) IX Eo Hr Ers Ht Hfree) as I1.
  match type of H with bind (parent_object ?W _ _ _) _ = _ => set (w1 := W) in * end.
  bind_inv H. rename w0 into w2. pose proof I1 as (K1 & _).
  pose proof (frame_parent_object _ _ _ _ _ K1 E) as F2. pose proof (frame_Idx _ _ F2 I1) as I2.
  bind_inv H. rename r0 into rs2.
  destruct (collect_orphans rs2 (o_lid o)) as [orph rs3] eqn:Ec.
  assert (F3 : frame w2 (set_rs w2 r rs3)).
  { eapply frame_set_rs; [exact E0|]. change rs3 with (snd (orph, rs3)). rewrite <- Ec. apply ridx_collect. }
  pose proof (frame_Idx _ _ F3 I2) as I3. pose proof I3 as (K3 & _).
  pose proof (frame_adopt _ _ _ _ K3 H) as F4. split; [eapply frame_Idx; eauto|].
  intros g. destruct F4 as [F4 _]. destruct F3 as [F3 _]. destruct F2 as [F2 _].
  rewrite F4, F3, F2. reflexivity.
Qed.

(* ---------- _update_existing_object ---------- *)
Definition lid_unique (w : world) (r l f : N) : Prop :=
  forall rs g, get_rs w r = Some rs -> aget l (r_local rs) = Some g -> g = f.

Lemma update_properties_core : forall o p o' c, update_properties o p = (o', c) ->
  o_lid o' = dflt (p_lid p) (o_lid o) /\ o_full o' = o_full o /\ o_region o' = dflt (p_region p) (o_region o).
Proof. intros o p o' c H. unfold update_properties in H. inversion H; subst. cbn. auto. Qed.

Lemma region_state_some : forall w r rs, region_state w r = Some rs -> get_rs w r = Some rs /\ r_tracked rs = true.
Proof.
  intros w r rs H. unfold region_state in H. destruct (get_rs w r) as [x|]; [|discriminate].
  destruct (r_tracked x) eqn:T; inversion H; subst; auto.
Qed.

Lemma hooks_frame : forall w3 f kind (b : bool) w',
  (if b then
     o3 <- get_obj w3 f ;;
     match region_state w3 (o_region o3) with
     | Some _ => Some (resolve_futures w3 (o_region o3) (o_lid o3) kind f)
     | None => Some w3
     end
   else Some w3) = Some w' -> frame w3 w'.
Proof.
  intros w3 f kind b w' H. destruct b; [|inversion H; apply frame_refl].
  bind_inv H. destruct (region_state w3 (o_region o)); inversion H; [apply frame_set_futs|apply frame_refl].
Qed.

Ltac hooks_tac H :=
  match type of H with (if ?b then _ else _) = _ => destruct b end;
  [ bind_inv H; match type of H with match ?x with _ => _ end = _ => destruct x end;
    inversion H; [apply frame_set_futs | apply frame_refl]
  | inversion H; apply frame_refl ].

Lemma second_same_frame : forall w2 r f oldp (b : bool) w3, keys_ok w2 ->
  (if b then handle_object_reparented w2 r f oldp else Some w2) = Some w3 ->
  frame w2 w3.
Proof.
  intros w2 r f oldp b w3 K H. destruct b; [|inversion H; apply frame_refl].
  eapply frame_reparented; eauto.
Qed.

Lemma update_existing_Idx : forall w f p k w', Idx w ->
  (forall o, get_obj w f = Some o ->
     region_state w (dflt (p_region p) (o_region o)) <> None /\
     lid_unique w (dflt (p_region p) (o_region o)) (dflt (p_lid p) (o_lid o)) f) ->
  update_existing w f p k = Some w' -> Idx w'.
Proof.
  intros w f p k w' I Hok H. pose proof I as (K & A & B). unfold update_existing in H.
  bind_inv H. rename E into Eo. destruct (Hok _ eq_refl) as [Hnew Huniq]. clear Hok.
  pose proof (K _ _ Eo) as Kf.
  destruct (B _ _ Eo) as (rso & Erso & Htso & Elo).
  assert (Eold : region_state w (o_region o) = Some rso).
  { unfold region_state. rewrite Erso, Htso. reflexivity. }
  rewrite Eold in H.
  set (nr := dflt (p_region p) (o_region o)) in *. set (nl := dflt (p_lid p) (o_lid o)) in *.
  destruct (region_state w nr) as [rsn|] eqn:Enew; [|congruence]. clear Hnew.
  apply region_state_some in Enew. destruct Enew as [Ersn Htn].
  destruct (o_region o =? nr) eqn:Qr; cbn [negb andb is_some] in H.
  - (* same region *)
    apply N.eqb_eq in Qr.
    destruct (o_lid o =? nl) eqn:Ql; cbn [negb andb is_some] in H.
    + (* same lid *)
      cbn [bind] in H. rewrite Eo in H. cbn [bind] in H.
      destruct (update_properties o p) as [o2 ch1] eqn:Eu.
      destruct (update_properties_core _ _ _ _ Eu) as (U1 & U2 & U3).
      rewrite N.eqb_sym, Qr' in H || idtac.
      assert (Qr2 : (nr =? o_region o) = true) by (apply N.eqb_eq; congruence).
      rewrite Qr2 in H. cbn [negb andb is_some] in H.
      bind_inv H. rename w0 into w3.
      assert (F2 : frame w (set_obj w o2)).
      { eapply (frame_set_obj w f o); [exact Eo| |exact Kf]. unfold core. fold nl in U1. fold nr in U3.
        apply N.eqb_eq in Ql. congruence. }
      assert (K2 : keys_ok (set_obj w o2)) by (eapply frame_keys; eauto).
      pose proof (second_same_frame _ _ _ _ _ _ K2 E) as F3.
      assert (F4 : frame w3 w') by (hooks_tac H).
      eapply frame_Idx; [|exact I]. eapply frame_trans; [exact F2|]. eapply frame_trans; eauto.
    + (* local id changes inside the region *)
      bind_inv H. rename w0 into w1. bind_inv H. rename o0 into o1. bind_inv H. rename w0 into w2.
      cbn [bind] in H.
      destruct (untrack_IdxX _ _ _ _ _ I Eo eq_refl E) as (IX1 & (o1' & Eo1' & C1) & FO1 & FR1).
      rewrite E0 in Eo1'. inversion Eo1'; subst o1'; clear Eo1'.
      pose proof (core_inj _ _ C1) as (C1l & C1f & C1r).
      assert (IX1' : IdxX (set_obj w1 (with_lid o1 nl)) f).
      { apply IdxX_set_obj; [exact IX1|]. cbn. congruence. }
      assert (Eo1n : get_obj (set_obj w1 (with_lid o1 nl)) f = Some (with_lid o1 nl)).
      { rewrite get_obj_set_obj. cbn. rewrite C1f, Kf, N.eqb_refl. reflexivity. }
      assert (Hfree : exists rs, get_rs (set_obj w1 (with_lid o1 nl)) (o_region o) = Some rs /\ r_tracked rs = true /\
                                 aget (o_lid (with_lid o1 nl)) (r_local rs) = None).
      { rewrite get_rs_set_obj. specialize (FR1 (o_region o)). rewrite Erso in FR1. cbn in FR1.
        destruct (get_rs w1 (o_region o)) as [rs1|]; cbn in FR1; [|discriminate].
        unfold ridx, ridx_del in FR1. rewrite N.eqb_refl in FR1. inversion FR1 as [[Ft Fl]].
        exists rs1. split; [reflexivity|]. split; [congruence|]. cbn. rewrite Fl, aget_adel.
        destruct (nl =? o_lid o) eqn:Q; [reflexivity|].
        destruct (aget nl (r_local rso)) as [g|] eqn:Eg; [|reflexivity].
        rewrite <- Qr in Huniq. pose proof (Huniq _ _ Erso Eg) as ->.
        destruct (A _ _ _ _ Erso Eg) as (og & Eog & Hl & _). rewrite Eo in Eog. inversion Eog; subst og.
        rewrite Hl, N.eqb_refl in Q. discriminate. }
      destruct (track_Idx _ _ _ _ _ IX1' Eo1n (eq_trans C1r eq_refl) Hfree E1) as [I2 FO2].
      bind_inv H. rename o0 into o1b.
      destruct (update_properties o1b p) as [o2 ch1] eqn:Eu.
      destruct (update_properties_core _ _ _ _ Eu) as (U1 & U2 & U3).
      assert (Qr2 : (nr =? o_region o) = true) by (apply N.eqb_eq; congruence).
      rewrite Qr2 in H. cbn [negb andb is_some] in H.
      bind_inv H. rename w0 into w3.
      (* core of o1b = core (with_lid o1 nl) *)
      pose proof (FO2 f) as Cb. rewrite E2, Eo1n in Cb. cbn in Cb. inversion Cb as [[Cbl Cbf Cbr]].
      pose proof I2 as (K2 & _).
      assert (F2 : frame w2 (set_obj w2 o2)).
      { eapply (frame_set_obj w2 f o1b); [exact E2| |eauto]. unfold core.
        rewrite U1, U2, U3, Cbl, Cbr. fold nl. fold nr.
        assert (dflt (p_lid p) nl = nl) as ->.
        { unfold nl. destruct (p_lid p); reflexivity. }
        assert (dflt (p_region p) (o_region o1) = nr) as ->.
        { unfold nr. rewrite C1r. reflexivity. }
        rewrite C1r, Qr. reflexivity. }
      assert (K2' : keys_ok (set_obj w2 o2)) by (eapply frame_keys; eauto).
      pose proof (second_same_frame _ _ _ _ _ _ K2' E3) as F3.
      assert (F4 : frame w3 w') by (hooks_tac H).
      eapply frame_Idx; [|exact I2]. eapply frame_trans; [exact F2|]. eapply frame_trans; eauto.
  - (* region changes *)
    bind_inv H. rename w0 into w1. cbn [bind] in H.
    destruct (untrack_IdxX _ _ _ _ _ I Eo eq_refl E) as (IX1 & (o1 & Eo1 & C1) & FO1 & FR1).
    rewrite Eo1 in H. cbn [bind] in H.
    pose proof (core_inj _ _ C1) as (C1l & C1f & C1r).
    destruct (update_properties o1 p) as [o2 ch1] eqn:Eu.
    destruct (update_properties_core _ _ _ _ Eu) as (U1 & U2 & U3).
    assert (Qr2 : (nr =? o_region o) = false) by (rewrite N.eqb_sym; exact Qr).
    rewrite Qr2 in H. cbn [negb andb is_some] in H.
    bind_inv H. rename w0 into w3.
    assert (IX2 : IdxX (set_obj w1 o2) f).
    { apply IdxX_set_obj; [exact IX1|]. congruence. }
    assert (Eo2 : get_obj (set_obj w1 o2) f = Some o2).
    { rewrite get_obj_set_obj. rewrite U2, C1f, Kf, N.eqb_refl. reflexivity. }
    assert (Hr2 : o_region o2 = nr) by (rewrite U3, C1r; reflexivity).
    assert (Hfree : exists rs, get_rs (set_obj w1 o2) nr = Some rs /\ r_tracked rs = true /\
                               aget (o_lid o2) (r_local rs) = None).
    { rewrite get_rs_set_obj. specialize (FR1 nr). rewrite Ersn in FR1. cbn in FR1.
      destruct (get_rs w1 nr) as [rs1|]; cbn in FR1; [|discriminate].
      unfold ridx, ridx_del in FR1. rewrite Qr2 in FR1. inversion FR1 as [[Ft Fl]].
      exists rs1. split; [reflexivity|]. split; [congruence|]. rewrite Fl, U1, C1l. fold nl.
      destruct (aget nl (r_local rsn)) as [g|] eqn:Eg; [|reflexivity].
      pose proof (Huniq _ _ Ersn Eg) as ->.
      destruct (A _ _ _ _ Ersn Eg) as (og & Eog & _ & Hrg). rewrite Eo in Eog. inversion Eog; subst og.
      rewrite Hrg, N.eqb_refl in Qr. discriminate. }
    destruct (track_Idx _ _ _ _ _ IX2 Eo2 Hr2 Hfree E0) as [I3 _].
    assert (F4 : frame w3 w') by (hooks_tac H). eapply frame_Idx; eauto.
Qed.

(* ---------- _track_new_object ---------- *)
Lemma track_new_Idx : forall w r o w', Idx w -> get_obj w (o_full o) = None -> o_region o = r ->
  region_state w r <> None -> lid_unique w r (o_lid o) (o_full o) ->
  track_new w r o = Some w' -> Idx w'.
Proof.
  intros w r o w' I Hn Hr Hrs Hu H. pose proof I as (K & A & B). unfold track_new in H.
  bind_inv H. rename w0 into w1. bind_inv H.
  destruct (region_state w r) as [rs|] eqn:Ers; [|congruence]. apply region_state_some in Ers. destruct Ers as [Ers Ht].
  assert (Hfree : exists rs, get_rs (set_obj w o) r = Some rs /\ r_tracked rs = true /\ aget (o_lid o) (r_local rs) = None).
  { exists rs. rewrite get_rs_set_obj. split; [exact Ers|]. split; [exact Ht|].
    destruct (aget (o_lid o) (r_local rs)) as [g|] eqn:Eg; [|reflexivity].
    pose proof (Hu _ _ Ers Eg) as ->. destruct (A _ _ _ _ Ers Eg) as (og & Eog & _). congruence. }
  assert (Eo : get_obj (set_obj w o) (o_full o) = Some o) by (rewrite get_obj_set_obj, N.eqb_refl; reflexivity).
  destruct (track_Idx _ _ _ _ _ (IdxX_new _ _ I Hn) Eo Hr Hfree E) as [I1 _].
  destruct (region_state w1 (o_region o0)); inversion H; subst; [|exact I1].
  eapply frame_Idx; [apply frame_set_futs|exact I1].
Qed.

(* ---------- _kill_object_by_local_id ---------- *)
Definition shrinks (w w' : world) : Prop :=
  forall g o', get_obj w' g = Some o' -> exists o, get_obj w g = Some o /\ core o' = core o.

Lemma shrinks_refl : forall w, shrinks w w.
Proof. intros w g o' E. eauto. Qed.
Lemma shrinks_trans : forall a b c, shrinks a b -> shrinks b c -> shrinks a c.
Proof.
  intros a b c H1 H2 g o' E. destruct (H2 _ _ E) as (o1 & E1 & C1). destruct (H1 _ _ E1) as (o0 & E0 & C0).
  exists o0. split; congruence.
Qed.
Lemma frame_shrinks : forall w w', frame w w' -> shrinks w w'.
Proof. intros w w' F g o' E. destruct (frame_obj _ _ _ _ F E) as (o & Eo & C). eauto. Qed.

Lemma kill_children_Idx : forall killf r,
  (forall w c w', Idx w -> killf w c = Some w' -> Idx w' /\ shrinks w w') ->
  forall ids w w', Idx w -> kill_children killf r ids w = Some w' -> Idx w' /\ shrinks w w'.
Proof.
  intros killf r IHk. induction ids as [|c t IH]; intros w w' I H; simpl in H.
  - inversion H; subst. split; [exact I|apply shrinks_refl].
  - destruct (lookup_local w r c) as [co|].
    + destruct (o_av co); [eauto|]. bind_inv H. destruct (IHk _ _ _ I E) as [I1 S1].
      destruct (IH _ _ I1 H) as [I2 S2]. split; [exact I2|eapply shrinks_trans; eauto].
    + bind_inv H. destruct (IHk _ _ _ I E) as [I1 S1].
      destruct (IH _ _ I1 H) as [I2 S2]. split; [exact I2|eapply shrinks_trans; eauto].
Qed.

Lemma lookup_local_some : forall w r l o, Idx w -> lookup_local w r l = Some o ->
  get_obj w (o_full o) = Some o /\ o_lid o = l /\ o_region o = r.
Proof.
  intros w r l o (K & A & B) H. unfold lookup_local in H.
  destruct (get_rs w r) as [rs|] eqn:Ers; [|discriminate].
  destruct (aget l (r_local rs)) as [f|] eqn:El; [|discriminate].
  destruct (A _ _ _ _ Ers El) as (o' & Eo & Hl & Hr). rewrite Eo in H. inversion H; subst o'.
  rewrite (K _ _ Eo). auto.
Qed.

Lemma kill_Idx : forall n w r l w', Idx w -> kill n w r l = Some w' -> Idx w' /\ shrinks w w'.
Proof.
  induction n as [|n IH]; intros w r l w' I H; simpl in H; [discriminate|].
  bind_inv H. rename r0 into rs.
  assert (F1 : frame w (set_rs w r (with_missing rs (sdel l (r_missing rs))))).
  { eapply frame_set_rs; [exact E|reflexivity]. }
  set (w1 := set_rs w r (with_missing rs (sdel l (r_missing rs)))) in *.
  pose proof (frame_Idx _ _ F1 I) as I1.
  assert (IHk : forall w c w', Idx w -> (fun w c => kill n w r c) w c = Some w' -> Idx w' /\ shrinks w w').
  { intros. eapply IH; eauto. }
  destruct (lookup_local w1 r l) as [o|] eqn:El.
  - bind_inv H. rename w0 into w2. bind_inv H. rename w0 into w3. inversion H; subst w'; clear H.
    destruct (kill_children_Idx _ _ IHk _ _ _ I1 E0) as [I2 S2].
    destruct (lookup_local_some _ _ _ _ I1 El) as (Eo & Hl & Hr).
    unfold untrack_object in E1. destruct (get_obj w2 (o_full o)) as [o'|] eqn:Eo'; [|discriminate].
    destruct (S2 _ _ Eo') as (o0 & Eo0 & C0). rewrite Eo in Eo0. inversion Eo0; subst o0.
    pose proof (core_inj _ _ C0) as (_ & _ & Cr).
    assert (E1' : untrack_object w2 r (o_full o) = Some w3).
    { unfold untrack_object. rewrite Eo'. exact E1. }
    destruct (untrack_IdxX _ _ _ _ _ I2 Eo' (eq_trans Cr Hr) E1') as (IX & _ & FO & _).
    split; [apply IdxX_del; exact IX|].
    eapply shrinks_trans; [apply frame_shrinks; exact F1|]. eapply shrinks_trans; [exact S2|].
    intros g og Eg. rewrite get_obj_del_obj in Eg. destruct (g =? o_full o); [discriminate|].
    specialize (FO g). rewrite Eg in FO. cbn in FO.
    destruct (get_obj w2 g) as [o2|]; cbn in FO; [|discriminate]. exists o2. split; congruence.
  - bind_inv H. rename r0 into rs2.
    destruct (collect_orphans rs2 l) as [ch rs3] eqn:Ec.
    assert (F2 : frame w1 (set_rs (cancel_futures w1 r l) r (retrack_avatars (cancel_futures w1 r l) r l ch rs3))).
    { eapply frame_trans; [apply frame_set_futs|]. eapply frame_set_rs; [exact E0|]. rewrite ridx_retrack.
      change rs3 with (snd (ch, rs3)). rewrite <- Ec. apply ridx_collect. }
    destruct (kill_children_Idx _ _ IHk _ _ _ (frame_Idx _ _ F2 I1) H) as [I3 S3].
    split; [exact I3|]. eapply shrinks_trans; [apply frame_shrinks; exact F1|].
    eapply shrinks_trans; [apply frame_shrinks; exact F2|exact S3].
Qed.

(* ---------- region teardown ---------- *)
Lemma untrack_region_get : forall ks m r g, (forall k o, aget k m = Some o -> o_full o = k) ->
  aget g (untrack_region ks m r) =
  match aget g m with
  | Some o => if mem g ks && (o_region o =? r) then None else Some o
  | None => None
  end.
Proof.
  induction ks as [|k t IH]; intros m r g K; simpl.
  - destruct (aget g m); reflexivity.
  - destruct (aget k m) as [o|] eqn:Ek.
    + destruct (o_region o =? r) eqn:Qr.
      * rewrite (K _ _ Ek). rewrite IH.
        2:{ intros k' o' E'. rewrite aget_adel in E'. destruct (k' =? k); [discriminate|eauto]. }
        rewrite aget_adel. destruct (g =? k) eqn:Qg.
        -- apply N.eqb_eq in Qg. subst g. rewrite Ek. cbn. rewrite Qr. reflexivity.
        -- cbn. reflexivity.
      * rewrite IH by exact K. destruct (g =? k) eqn:Qg.
        -- apply N.eqb_eq in Qg. subst g. rewrite Ek, Qr. rewrite ?andb_false_r. cbn. rewrite ?andb_false_r. reflexivity.
        -- cbn. reflexivity.
    + rewrite IH by exact K. destruct (g =? k) eqn:Qg.
      * apply N.eqb_eq in Qg. subst g. rewrite Ek. reflexivity.
      * cbn. reflexivity.
Qed.

Lemma aget_mem_keys : forall A (m : list (N * A)) g v, aget g m = Some v -> mem g (map fst m) = true.
Proof.
  induction m as [|[k x] t IH]; intros g v H; simpl in *; [discriminate|].
  destruct (g =? k); [reflexivity|]. cbn. eauto.
Qed.

Lemma clear_Idx : forall w r w', Idx w -> step w (EClear r) = Some w' -> Idx w'.
Proof.
  intros w r w' (K & A & B) H. cbn [step] in H. bind_inv H. inversion H; subst w'; clear H.
  assert (G : forall g, get_obj (mkW (untrack_region (map fst (w_full w)) (w_full w) r)
                                     (aset r empty_rs (w_regions w)) (w_futs (cancel_region_futures w r))) g =
                        match get_obj w g with Some o => if o_region o =? r then None else Some o | None => None end).
  { intros g. unfold get_obj at 1. cbn [w_full]. rewrite untrack_region_get by exact K.
    unfold get_obj. destruct (aget g (w_full w)) eqn:Eg; [|reflexivity].
    rewrite (aget_mem_keys _ _ _ _ Eg). reflexivity. }
  assert (R : forall r', get_rs (mkW (untrack_region (map fst (w_full w)) (w_full w) r)
                                     (aset r empty_rs (w_regions w)) (w_futs (cancel_region_futures w r))) r' =
                         if r' =? r then Some empty_rs else get_rs w r').
  { intros r'. unfold get_rs. cbn [w_regions]. apply aget_aset. }
  cbn [set_rs cancel_region_futures set_futs w_full w_regions w_futs].
  split; [|split].
  - intros g o Eg. rewrite G in Eg. destruct (get_obj w g) as [o0|] eqn:E0; [|discriminate].
    destruct (o_region o0 =? r); inversion Eg; subst. eauto.
  - intros r' rs l g Ers El. rewrite R in Ers. destruct (r' =? r) eqn:Q.
    + inversion Ers; subst rs. discriminate.
    + destruct (A _ _ _ _ Ers El) as (o & Eo & Hl & Hr). exists o. rewrite G, Eo, Hr, Q. auto.
  - intros g o Eg. rewrite G in Eg. destruct (get_obj w g) as [o0|] eqn:E0; [|discriminate].
    destruct (o_region o0 =? r) eqn:Q; inversion Eg; subst o0. rewrite R, Q. eauto.
Qed.

(* ---------- every step ---------- *)
Definition input_idx_ok (w : world) (e : event) : Prop :=
  match e with
  | EFull _ r l f _ _ _ => region_state w r <> None /\ lid_unique w r l f
  | _ => True
  end.

Lemma lookup_unique : forall w r l o, Idx w -> lookup_local w r l = Some o -> lid_unique w r l (o_full o).
Proof.
  intros w r l o (K & A & B) H rs g Ers El. unfold lookup_local in H. rewrite Ers, El in H.
  symmetry. eauto.
Qed.

Lemma frame_register_all : forall ls w r, frame w (register_all w r ls).
Proof.
  induction ls; intros; simpl; [apply frame_refl|].
  eapply frame_trans; [apply frame_set_futs|apply IHls].
Qed.

Lemma step_Idx : forall w e w', Idx w -> input_idx_ok w e -> step w e = Some w' -> Idx w'.
Proof.
  intros w e w' I Hok H. pose proof I as (K & A & B).
  destruct e as [cmp r l f p av v|r l v|r l crc v|f v|r l|r|r|r l|r l|r].
  - (* ObjectUpdate / ObjectUpdateCompressed *)
    destruct Hok as [Hrs Hu]. cbn [step] in H. destruct (get_obj w f) as [o|] eqn:Eo.
    + eapply update_existing_Idx; [exact I| |exact H]. intros o' _. cbn. auto.
    + destruct (region_state w r) eqn:Ers; [|congruence].
      eapply track_new_Idx; [exact I| | | | |exact H]; cbn; auto. congruence.
  - (* terse *)
    cbn [step] in H. destruct (region_state w r) as [rs|] eqn:Ers; [|inversion H; subst; exact I].
    destruct (lookup_local w r l) as [o|] eqn:El.
    + destruct (lookup_local_some _ _ _ _ I El) as (Eo & Hl & Hr).
      eapply update_existing_Idx; [exact I| |exact H]. intros o' Eo'. rewrite Eo in Eo'. inversion Eo'; subst o'.
      cbn. split; [congruence|]. eapply lookup_unique; eauto.
    + inversion H; subst. apply region_state_some in Ers. destruct Ers as [Ers _].
      eapply frame_Idx; [eapply frame_set_rs; [exact Ers|reflexivity]|exact I].
  - (* cached *)
    cbn [step] in H. destruct (region_state w r) as [rs|] eqn:Ers; [|inversion H; subst; exact I].
    assert (Fm : Idx (set_rs w r (with_missing rs (sadd l (r_missing rs))))).
    { pose proof Ers as Ers'. apply region_state_some in Ers'. destruct Ers' as [Ers' _].
      eapply frame_Idx; [eapply frame_set_rs; [exact Ers'|reflexivity]|exact I]. }
    destruct (lookup_local w r l) as [o|] eqn:El; [|inversion H; subst; exact Fm].
    destruct (o_crc o =? crc); [|inversion H; subst; exact Fm].
    destruct (lookup_local_some _ _ _ _ I El) as (Eo & Hl & Hr).
    eapply update_existing_Idx; [exact I| |exact H]. intros o' Eo'. rewrite Eo in Eo'. inversion Eo'; subst o'.
    cbn. split; [congruence|]. rewrite Hl. eapply lookup_unique; eauto.
  - (* properties *)
    cbn [step] in H. destruct (get_obj w f) as [o|] eqn:Eo; [|inversion H; subst; exact I].
    eapply update_existing_Idx; [exact I| |exact H]. intros o' Eo'. rewrite Eo in Eo'. inversion Eo'; subst o'.
    cbn. destruct (B _ _ Eo) as (rs & Ers & Ht & El). split.
    + unfold region_state. rewrite Ers, Ht. discriminate.
    + intros rs' g Ers' El'. congruence.
  - (* kill *)
    cbn [step] in H. destruct (get_rs w r); [|discriminate]. eapply kill_Idx; eauto.
  - eapply clear_Idx; eauto.
  - (* track region *)
    cbn [step] in H. bind_inv H. inversion H; subst w'; clear H. rename r0 into rs. split; [exact K|]. split.
    + intros r' rs' l g Ers' El. rewrite get_rs_set_rs in Ers'. rewrite get_obj_set_rs.
      destruct (r' =? r) eqn:Q; [|eauto]. apply N.eqb_eq in Q. subst r'. inversion Ers'; subst rs'. cbn in El. eauto.
    + intros g o Eg. rewrite get_obj_set_rs in Eg. destruct (B _ _ Eg) as (rsg & Ersg & Ht & El).
      rewrite get_rs_set_rs. destruct (o_region o =? r) eqn:Q; [|eauto].
      apply N.eqb_eq in Q. rewrite Q, E in Ersg. inversion Ersg; subst rsg. eexists; split; [reflexivity|]. cbn. auto.
  - cbn [step] in H. bind_inv H. inversion H; subst. eapply frame_Idx; [apply frame_set_futs|exact I].
  - cbn [step] in H. bind_inv H. inversion H; subst. eapply frame_Idx; [apply frame_set_futs|exact I].
  - cbn [step] in H. bind_inv H. inversion H; subst. eapply frame_Idx; [apply frame_register_all|exact I].
Qed.

Lemma init_Idx : Idx init.
Proof.
  split; [|split].
  - intros f o H. discriminate.
  - intros r rs l f Ers El. unfold init, get_rs in Ers. cbn in Ers.
    destruct (r =? 1); [inversion Ers; subst; discriminate|].
    destruct (r =? 2); [inversion Ers; subst; discriminate|discriminate].
  - intros f o H. discriminate.
Qed.

(* a history each of whose events satisfies the input assumption in the state it arrives in *)
Fixpoint hist_ok (ok : world -> event -> Prop) (w : world) (h : list event) : Prop :=
  match h with
  | [] => True
  | e :: t => ok w e /\ match step w e with Some w1 => hist_ok ok w1 t | None => True end
  end.

Lemma run_Idx : forall h w w', Idx w -> hist_ok input_idx_ok w h -> run w h = Some w' -> Idx w'.
Proof.
  induction h as [|e t IH]; intros w w' I Hok H; simpl in *.
  - inversion H; subst; exact I.
  - destruct Hok as [Hok Hrest]. destruct (step w e) as [w1|] eqn:Es; [|discriminate].
    eapply IH; [eapply step_Idx; eauto|exact Hrest|exact H].
Qed.

(* ---------- executable version of the input assumption (for non-vacuity examples) ---------- *)
Definition input_idx_okb (w : world) (e : event) : bool :=
  match e with
  | EFull _ r l f _ _ _ =>
    is_some (region_state w r) &&
    match get_rs w r with
    | Some rs => match aget l (r_local rs) with Some g => g =? f | None => true end
    | None => true
    end
  | _ => true
  end.

Lemma input_idx_okb_ok : forall w e, input_idx_okb w e = true -> input_idx_ok w e.
Proof.
  intros w e H. destruct e; cbn in *; auto. apply andb_prop in H. destruct H as [H1 H2]. split.
  - destruct (region_state w r); [discriminate|discriminate H1].
  - intros rs g Ers El. rewrite Ers, El in H2. apply N.eqb_eq in H2. exact H2.
Qed.

Fixpoint hist_okb (w : world) (h : list event) : bool :=
  match h with
  | [] => true
  | e :: t => input_idx_okb w e && match step w e with Some w1 => hist_okb w1 t | None => true end
  end.

Lemma hist_okb_ok : forall h w, hist_okb w h = true -> hist_ok input_idx_ok w h.
Proof.
  induction h as [|e t IH]; intros w H; simpl in *; [exact I|].
  apply andb_prop in H. destruct H as [H1 H2]. split; [apply input_idx_okb_ok; exact H1|].
  destruct (step w e); [apply IH; exact H2|exact I].
Qed.
