(* Composition layer: the injection-free behaviour of the proxied circuit (Circuit/ProxCircuit.v,
   Inj/InjTracker.v - the models of C05/C04) IS the closed form [prepare_noinj] that the decoding
   oracle [decode_real] (Compose/Glue.v) uses.

   ProxCircuit works on abstract packets (rmsg / emit: direction, ID, flags, acks, kind); the
   codec works on template messages.  [to_rmsg] abstracts a received codec message, [apply_emit]
   writes what the circuit emits back into it (the in-place mutations of prepare_message /
   _rewrite_packet_ack / _rewrite_start_ping_check).  IDs are N in the codec, Z in the circuit. *)
From Coq Require Import Arith NArith ZArith Ascii String List Bool Lia.
From HV Require Import Base.Bytes Tmpl.Template Tmpl.TemplateProofs Tmpl.Codec Tmpl.PassProofs
  Compose.Glue Compose.GlueProofs.
From HV Require Import Inj.InjTracker Inj.InjTrackerProofs Circuit.ProxCircuit Circuit.ProxCircuitProofs.
Import ListNotations.
Local Open Scope Z_scope.

(* ---------- codec message <-> abstract packet ---------- *)

Definition reliable (fl : N) : bool := N.testbit fl 6.     (* PacketFlags.RELIABLE = 0x40 *)
Definition resent (fl : N) : bool := N.testbit fl 5.       (* PacketFlags.RESENT   = 0x20 *)

(* None: a block the circuit reads is missing (KeyError) *)
Definition kind_of (mv : msg) : option kind :=
  if is_msg "PacketAck" mv then
    match msg_packet_ids mv with Some ids => Some (PacketAck (map Z.of_N ids)) | None => None end
  else if is_msg "StartPingCheck" mv then
    match ping_oldest mv with Some o => Some (StartPing (Z.of_N o)) | None => None end
  else Some Plain.

Definition to_rmsg (dr : dir) (mv : msg) (k : kind) : rmsg :=
  mkR dr (Z.of_N (pid_or_0 (m_pid mv))) (reliable (m_flags mv)) (resent (m_flags mv))
      (map Z.of_N (m_acks mv)) k.

(* dict assignment d[k] = v *)
Fixpoint set_kv {A} (k : ident) (v : A) (l : list (ident * A)) : list (ident * A) :=
  match l with
  | [] => [(k, v)]
  | (k', v') :: r => if ident_eqb k' k then (k', v) :: r else (k', v') :: set_kv k v r
  end.

Definition set_var (k : ident) (v : wval) (b : blk) : blk :=
  {| b_fill := b_fill b; b_vars := set_kv k v (b_vars b) |}.

Definition mk_packet (id : Z) : blk := {| b_fill := false; b_vars := [(I "ID", WU (Z.to_N id))] |}.

(* block["ID"] = new id, block by block, when no block was filtered out *)
Fixpoint zip_ids (l : list blk) (nb : list Z) : list blk :=
  match l, nb with
  | b :: l', id :: nb' => set_var (I "ID") (WU (Z.to_N id)) b :: zip_ids l' nb'
  | _, _ => []
  end.

Definition apply_kind (k : kind) (bd : body) : body :=
  match k with
  | Plain => bd
  | PacketAck nb =>
      (* message["Packets"] = new_blocks; the surviving Block objects carry their new IDs.  The abstract
         circuit only reports the new ID list: with as many IDs as blocks every block survived;
         otherwise the list is rebuilt (ID is the only variable of the block) *)
      match lookup (I "Packets") bd with
      | Some l => set_kv (I "Packets") (if (length l =? length nb)%nat then zip_ids l nb else map mk_packet nb) bd
      | None => bd
      end
  | StartPing n =>
      (* message["PingID"]["OldestUnacked"] = new_id *)
      match lookup (I "PingID") bd with
      | Some (b :: r) => set_kv (I "PingID") (set_var (I "OldestUnacked") (WU (Z.to_N n)) b :: r) bd
      | _ => bd
      end
  end.

(* the received message after prepare_message, given what the abstract circuit emitted for it *)
Definition apply_emit (mv : msg) (e : emit) : msg :=
  let acks := map Z.to_N (e_acks e) in
  {| m_name := m_name mv; m_flags := ack_flag (m_flags mv) acks; m_pid := Some (Z.to_N (e_id e));
     m_extra := m_extra mv; m_acks := acks; m_raw := m_raw mv;
     m_body := apply_kind (e_kind e) (m_body mv) |}.

(* circuit.send(message) then serializer.serialize: the datagram bytes, in circuit state [st] *)
Definition circuit_out (d : dict) (st : pc) (dr : dir) (mv : msg) : option (list N) :=
  match kind_of mv with
  | None => None
  | Some k =>
      match snd (send_forward st (to_rmsg dr mv k)) with
      | [e] => serialize d (apply_emit mv e)
      | _ => None
      end
  end.

(* ---------- the injection-free states ---------- *)

Definition quiet_tr (t : tracker) : Prop := inj t = [] /\ ibase t = 0.

(* neither tracker has injected anything, the proxy has no reliable packet of its own in flight *)
Definition Quiet (st : pc) : Prop := quiet_tr (t_in st) /\ quiet_tr (t_out st) /\ unacked st = [].

Lemma quiet_init mx e : Quiet (pc_init mx e).
Proof. repeat split. Qed.

(* "with nothing injected the ID translation is the identity": C04's closed form eff = E (window) ... *)
Lemma quiet_eff t o : quiet_tr t -> eff t o = o.
Proof.
  intros [Hi Hb]. rewrite eff_E by (rewrite Hi; constructor). rewrite Hi, Hb. cbn [E]. lia.
Qed.

Lemma quiet_was_injected t w : quiet_tr t -> was_injected t w = false.
Proof. intros [Hi _]. unfold was_injected. now rewrite Hi. Qed.

(* ... and "the ack rewrite keeps all acks" *)
Lemma quiet_orig t w : quiet_tr t -> orig t w = Some w.
Proof. intros [Hi Hb]. unfold orig. rewrite Hi, Hb. cbn. f_equal. lia. Qed.

Lemma quiet_rewrite_acks t l : quiet_tr t -> rewrite_acks t l = l.
Proof.
  intros Hq. unfold rewrite_acks. induction l as [|x l IH]; [reflexivity|].
  cbn [flat_map]. rewrite (quiet_was_injected t x Hq), (quiet_orig t x Hq), IH. reflexivity.
Qed.

Lemma quiet_track_seen t w : quiet_tr t -> quiet_tr (track_seen t w).
Proof. intros [Hi Hb]. unfold track_seen. destruct (w >? pbase t); split; assumption. Qed.

Lemma quiet_fwd_tr st d : Quiet st -> quiet_tr (fwd_tr st d).
Proof. intros (H1 & H2 & _). destruct d; assumption. Qed.

Lemma quiet_set_fwd st d t : Quiet st -> quiet_tr t -> Quiet (set_fwd st d t).
Proof. intros (H1 & H2 & H3) Ht. destruct d; (split; [|split]); cbn; assumption. Qed.

(* what a quiet circuit emits for a received packet: the packet itself, unless it is an empty PacketAck *)
Definition noinj_emits (m : rmsg) : list emit :=
  match r_kind m, r_acks m with
  | PacketAck [], [] => []
  | k, _ => [mkE (r_dir m) (r_pid m) (r_rel m) (r_resent m) (r_acks m) k false]
  end.

Lemma send_forward_quiet st m : Quiet st ->
  snd (send_forward st m) = noinj_emits m /\ Quiet (fst (send_forward st m)).
Proof.
  intros Hq. pose proof (quiet_fwd_tr st (r_dir m) Hq) as Hf.
  pose proof (quiet_fwd_tr st (inv_dir (r_dir m)) Hq) as Hr.
  assert (Hq1 : Quiet (set_fwd st (r_dir m) (track_seen (fwd_tr st (r_dir m)) (r_pid m)))).
  { apply quiet_set_fwd; [exact Hq|]. now apply quiet_track_seen. }
  unfold send_forward, noinj_emits, rev_tr.
  rewrite (quiet_eff _ (r_pid m) Hf), (quiet_rewrite_acks _ (r_acks m) Hr).
  destruct (r_kind m) as [|ids|o].
  - split; [reflexivity|exact Hq1].
  - rewrite (quiet_rewrite_acks _ ids Hr). destruct ids as [|i ids].
    + destruct (r_acks m); (split; [reflexivity|exact Hq1]).
    + split; [reflexivity|exact Hq1].
  - destruct Hq as (_ & _ & Hu). rewrite Hu. cbn [filter map unacked_ids min_list].
    rewrite (quiet_eff _ o (quiet_track_seen _ _ Hf)). split; [reflexivity|exact Hq1].
Qed.

Lemma collect_nil d acks : collect [] d acks = ([], []).
Proof. induction acks as [|a t IH]; [reflexivity|]. cbn [collect dict_has existsb]. exact IH. Qed.

Lemma collect_acks_quiet st m : Quiet st -> collect_acks st m = (st, []).
Proof.
  intros (H1 & H2 & H3). unfold collect_acks. rewrite H3, collect_nil.
  unfold set_unacked. rewrite <- H3. now destruct st.
Qed.

(* one received packet through a quiet circuit (handle_proxied_packet: collect_acks, then send) *)
Lemma step_recv_quiet st m : Quiet st ->
  step st (Recv m) = (fst (send_forward st m), noinj_emits m, []) /\ Quiet (next st (Recv m)).
Proof.
  intros Hq. unfold next. cbn [step]. rewrite (collect_acks_quiet st m Hq).
  destruct (send_forward_quiet st m Hq) as [E Q]. destruct (send_forward st m) as [st2 es]. cbn [fst snd] in *.
  subst es. split; [reflexivity|exact Q].
Qed.

Lemma step_tick_quiet st dt : Quiet st -> Quiet (next st (Tick dt)).
Proof.
  intros (H1 & H2 & H3). unfold next. cbn [step]. rewrite H3. cbn [resend fst]. repeat split; try apply H1; apply H2.
Qed.

(* histories in which the proxy originates nothing: packets are received and forwarded, time passes *)
Definition quiet_ev (ev : event) : bool := match ev with Recv _ | Tick _ => true | _ => false end.

Lemma run_state_quiet : forall evs st, Quiet st -> forallb quiet_ev evs = true -> Quiet (run_state st evs).
Proof.
  induction evs as [|ev evs IH]; intros st Hq H; [exact Hq|].
  cbn [forallb] in H. apply andb_prop in H as [He H].
  change (run_state st (ev :: evs)) with (run_state (next st ev) evs). apply IH; [|exact H].
  destruct ev; try discriminate; [apply (step_recv_quiet st m Hq) | now apply step_tick_quiet].
Qed.

Theorem reach_quiet mx e pre : forallb quiet_ev pre = true -> Quiet (reach mx e pre).
Proof. intros H. apply run_state_quiet; [apply quiet_init|exact H]. Qed.

(* the same fact read through C04/C05: the trackers of a reachable circuit state are C04 runs with
   C04's invariant (C05_trackers_are_C04_runs), so orig (eff o) = o (C04_orig_eff); on an
   injection-free history eff is the identity, hence every ID translates to itself both ways *)
Theorem reach_quiet_translation mx e pre d o : forallb quiet_ev pre = true ->
  eff (fwd_tr (reach mx e pre) d) o = o /\ orig (fwd_tr (reach mx e pre) d) o = Some o /\
  was_injected (fwd_tr (reach mx e pre) d) o = false.
Proof.
  intros H. pose proof (quiet_fwd_tr _ d (reach_quiet mx e pre H)) as Hq.
  pose proof (quiet_eff _ o Hq) as He. split; [exact He|]. split.
  - rewrite (reach_tracker mx e pre d) in *.
    pose proof (orig_eff (ghost mx d pre) (ghost_Inv mx d pre) o) as Ho. cbv zeta in Ho.
    now rewrite He in Ho.
  - now apply quiet_was_injected.
Qed.

(* ---------- writing the emission back: nothing changes but the ACK flag ---------- *)

Lemma set_kv_same {A} k (v : A) : forall l, lookup k l = Some v -> set_kv k v l = l.
Proof.
  induction l as [|[k' v'] l IH]; cbn [lookup set_kv]; [discriminate|].
  destruct (ident_eqb k' k); [now intros [= ->]|]. intros H. now rewrite IH.
Qed.

Lemma set_var_same k v b : lookup k (b_vars b) = Some v -> set_var k v b = b.
Proof. intros H. unfold set_var. rewrite (set_kv_same k v _ H). now destruct b. Qed.

Lemma var_u_lookup k b n : var_u k b = Some n -> lookup k (b_vars b) = Some (WU n).
Proof. unfold var_u. destruct (lookup k (b_vars b)) as [[]|]; congruence. Qed.

Lemma zip_ids_same : forall l ids, packet_ids l = Some ids ->
  zip_ids l (map Z.of_N ids) = l /\ length ids = length l.
Proof.
  induction l as [|b l IH]; intros ids H; cbn [packet_ids] in H.
  - injection H as <-. split; reflexivity.
  - destruct (var_u (I "ID") b) as [n|] eqn:En; [|discriminate].
    destruct (packet_ids l) as [ns|]; [|discriminate]. injection H as <-.
    destruct (IH ns eq_refl) as [E L]. cbn [map zip_ids length]. rewrite N2Z.id, E, L.
    rewrite (set_var_same _ _ _ (var_u_lookup _ _ _ En)). split; reflexivity.
Qed.

Lemma map_to_of l : map Z.to_N (map Z.of_N l) = l.
Proof. rewrite map_map. rewrite <- (map_id l) at 2. apply map_ext. intros. apply N2Z.id. Qed.

Lemma apply_kind_same mv k : kind_of mv = Some k -> apply_kind k (m_body mv) = m_body mv.
Proof.
  unfold kind_of. destruct (is_msg "PacketAck" mv).
  - unfold msg_packet_ids, blocks_of. destruct (lookup (I "Packets") (m_body mv)) as [l|] eqn:El; [|discriminate].
    destruct (packet_ids l) as [ids|] eqn:Ei; [|discriminate]. intros [= <-]. cbn [apply_kind]. rewrite El.
    destruct (zip_ids_same l ids Ei) as [E L]. rewrite map_length, L, Nat.eqb_refl, E.
    now apply set_kv_same.
  - destruct (is_msg "StartPingCheck" mv); [|now intros [= <-]].
    unfold ping_oldest, first_block, blocks_of.
    destruct (lookup (I "PingID") (m_body mv)) as [[|b r]|] eqn:El; try discriminate.
    destruct (var_u (I "OldestUnacked") b) as [o|] eqn:Eo; [|discriminate]. intros [= <-].
    cbn [apply_kind]. rewrite El, N2Z.id, (set_var_same _ _ _ (var_u_lookup _ _ _ Eo)).
    now apply set_kv_same.
Qed.

Lemma apply_emit_same mv dr k : kind_of mv = Some k -> m_pid mv <> None ->
  apply_emit mv (mkE dr (Z.of_N (pid_or_0 (m_pid mv))) (reliable (m_flags mv)) (resent (m_flags mv))
                     (map Z.of_N (m_acks mv)) k false) = with_ack_flag mv.
Proof.
  intros Hk Hp. unfold apply_emit, with_ack_flag, with_flags. cbn [e_acks e_id e_kind].
  rewrite map_to_of, N2Z.id, (apply_kind_same mv k Hk).
  destruct (m_pid mv) as [p|]; [reflexivity|congruence].
Qed.

Definition opt_list {A} (o : option A) : list A := match o with Some x => [x] | None => [] end.

(* THE BRIDGE: in every injection-free circuit state, in either direction, the message the abstract
   circuit of C05 forwards - written back into the codec message - is [prepare_noinj] *)
Theorem bridge_quiet st dr mv k : Quiet st -> kind_of mv = Some k -> m_pid mv <> None ->
  map (apply_emit mv) (snd (send_forward st (to_rmsg dr mv k))) = opt_list (prepare_noinj mv)
  /\ Quiet (fst (send_forward st (to_rmsg dr mv k))).
Proof.
  intros Hq Hk Hp. destruct (send_forward_quiet st (to_rmsg dr mv k) Hq) as [E Q]. split; [|exact Q].
  rewrite E. unfold noinj_emits, to_rmsg. cbn [r_kind r_acks r_dir r_pid r_rel r_resent].
  pose proof (apply_emit_same mv dr k Hk Hp) as Ha.
  unfold prepare_noinj. unfold kind_of in Hk.
  destruct (is_msg "PacketAck" mv).
  - destruct (msg_packet_ids mv) as [ids|]; [|discriminate]. injection Hk as <-.
    destruct ids as [|i ids]; cbn [map is_nil andb].
    + destruct (m_acks mv) as [|a acks]; cbn [map is_nil]; [reflexivity|].
      cbn [opt_list]. f_equal. exact Ha.
    + cbn [opt_list]. f_equal. exact Ha.
  - destruct (is_msg "StartPingCheck" mv).
    + destruct (ping_oldest mv) as [o|]; [|discriminate]. injection Hk as <-.
      cbn [map opt_list]. f_equal. exact Ha.
    + injection Hk as <-. cbn [map opt_list]. f_equal. exact Ha.
Qed.

Lemma kind_of_none mv : kind_of mv = None -> prepare_noinj mv = None.
Proof.
  unfold kind_of, prepare_noinj. destruct (is_msg "PacketAck" mv).
  - destruct (msg_packet_ids mv); [discriminate|reflexivity].
  - destruct (is_msg "StartPingCheck" mv); [|discriminate].
    destruct (ping_oldest mv); [discriminate|reflexivity].
Qed.

(* ... so the bytes the oracle reports are the bytes the C05 circuit model puts on the wire *)
Theorem circuit_out_quiet d st dr mv : Quiet st -> m_pid mv <> None ->
  circuit_out d st dr mv = match prepare_noinj mv with Some pm => serialize d pm | None => None end.
Proof.
  intros Hq Hp. unfold circuit_out. destruct (kind_of mv) as [k|] eqn:Hk.
  - destruct (bridge_quiet st dr mv k Hq Hk Hp) as [E _].
    destruct (prepare_noinj mv) as [pm|]; cbn [opt_list] in E.
    + destruct (snd (send_forward st (to_rmsg dr mv k))) as [|e [|e2 es]]; try discriminate.
      cbn [map] in E. now injection E as ->.
    + destruct (snd (send_forward st (to_rmsg dr mv k))) as [|e es]; [reflexivity|discriminate].
  - now rewrite (kind_of_none mv Hk).
Qed.

Lemma ensure_parsed_pid d m : m_pid (ensure_parsed d m) = m_pid m.
Proof.
  unfold ensure_parsed. destruct (m_raw m) as [[|x r]|]; try reflexivity.
  destruct (parse_body d m) as [m'|] eqn:E; [|reflexivity].
  now destruct (parse_body_fields d m m' E) as (_ & _ & -> & _).
Qed.

(* the oracle's [mi_out], stated against the circuit model: for every datagram the header parser
   accepts, every injection-free circuit state (in particular every state reached by forwarding and
   clock ticks alone) and either direction *)
Theorem decode_real_out_is_circuit d touch b mi st dr : bytes_okb b = true ->
  decode_real d touch b = Some mi -> Quiet st ->
  exists m0, parse_header d b = Some m0 /\ UdpProxy.mi_out mi = circuit_out d st dr (lazy_view d touch m0).
Proof.
  intros Hb Hd Hq. unfold decode_real in Hd. destruct (parse_header d b) as [m0|] eqn:Eh; [|discriminate].
  exists m0. split; [reflexivity|]. injection Hd as <-. cbn [UdpProxy.mi_out].
  rewrite circuit_out_quiet; [reflexivity|exact Hq|].
  destruct (SameProofs.header_facts d b m0 Hb Eh) as (t & p & raw & _ & _ & _ & Ep & _).
  unfold lazy_view. destruct (_ || _); [rewrite ensure_parsed_pid|]; rewrite Ep; discriminate.
Qed.
