(* Composition layer, definitions only: the decoding oracle of the routing model
   (Proxy/UdpProxy.v, C06) filled with the real template codec (Tmpl/Codec.v, C01/C02) and the
   injection-free behaviour of the proxied circuit (Circuit/ProxCircuit.v, C04/C05).

   How the pieces connect in the code (lludp_proxy.py, handle_proxied_packet):
       message = self.deserializer.deserialize(packet.data)     header parse only (deferred body)
       ... routing decisions on message.name / a few blocks ...  (UdpProxy.handle)
       region.circuit.send(message)                              ProxiedCircuit.prepare_message,
                                                                 then UDPMessageSerializer.serialize
   Conventions: all three developments use [list N] for byte strings and [option] for
   "raises"; what differs is
     - message names: Tmpl has [ident = list ascii], UdpProxy has [name = list N]   ([name_of_ident])
     - the message records: Codec.msg / UdpProxy.msginfo / ProxCircuit.rmsg          ([decode_real] here,
       [to_rmsg] / [apply_emit] in Compose/CircuitBridge.v)
     - packet IDs and acks: [N] in the codec, [Z] in the circuit                    (Z.of_N / Z.to_N)
   Lemmas are in GlueProofs.v and CircuitBridge.v. *)
From Coq Require Import Arith NArith ZArith Ascii String List Bool.
From HV Require Import Base.Bytes Tmpl.Template Tmpl.Codec Proxy.Socks Proxy.UdpProxy.
Import ListNotations.
Open Scope N_scope.

(* ---------- names ---------- *)

Definition I (s : string) : ident := list_ascii_of_string s.

Definition name_of_ident (i : ident) : name := map N_of_ascii i.

Definition is_msg (s : string) (m : msg) : bool := ident_eqb (m_name m) (I s).

(* ---------- Message / Block item access ---------- *)

(* message["Blk"] : the block list; None = KeyError *)
Definition blocks_of (k : ident) (m : msg) : option (list blk) := lookup k (m_body m).

(* block["Var"] for an integer variable *)
Definition var_u (k : ident) (b : blk) : option N :=
  match lookup k (b_vars b) with Some (WU n) => Some n | _ => None end.
Definition var_s (k : ident) (b : blk) : option Z :=
  match lookup k (b_vars b) with Some (WS z) => Some z | _ => None end.
Definition var_b (k : ident) (b : blk) : option (list N) :=
  match lookup k (b_vars b) with Some (WB l) => Some l | _ => None end.

(* message["Blk"]["Var"] = message["Blk"][0]["Var"] (MsgBlockList.__getitem__ with a str) *)
Definition first_block (k : ident) (m : msg) : option blk :=
  match blocks_of k m with Some (b :: _) => Some b | _ => None end.

(* [x["ID"] for x in message["Packets"]] *)
Fixpoint packet_ids (l : list blk) : option (list N) :=
  match l with
  | [] => Some []
  | b :: r =>
      match var_u (I "ID") b, packet_ids r with
      | Some n, Some ns => Some (n :: ns)
      | _, _ => None
      end
  end.

Definition msg_packet_ids (m : msg) : option (list N) :=
  match blocks_of (I "Packets") m with Some l => packet_ids l | None => None end.

(* message["PingID"]["OldestUnacked"] *)
Definition ping_oldest (m : msg) : option N :=
  match first_block (I "PingID") m with Some b => var_u (I "OldestUnacked") b | None => None end.

(* message["CircuitCode"][0]["SessionID"] as UUID.int (16 bytes, big endian) *)
Definition session_id (m : msg) : option N :=
  match first_block (I "CircuitCode") m with
  | Some b => match var_b (I "SessionID") b with Some l => Some (of_be l) | None => None end
  | None => None
  end.

(* AddonManager.handle_lludp_message with no addon loaded returns truthy exactly for
     message.name == "ChatFromViewer" and "ChatData" in message
       and message["ChatData"]["Channel"] == COMMAND_CHANNEL (= 524)
   (the ChatFromSimulator / RLV branch returns all_cmds_handled, which is False without an
   addon since /repo 40d86e5) *)
Definition COMMAND_CHANNEL : Z := 524.
Definition command_chat (m : msg) : bool :=
  is_msg "ChatFromViewer" m &&
  match first_block (I "ChatData") m with
  | Some b => match var_s (I "Channel") b with Some z => Z.eqb z COMMAND_CHANNEL | None => false end
  | None => false
  end.

(* ---------- the circuit with nothing injected (closed form) ---------- *)

(* prepare_message's last lines:
     if message.acks: message.send_flags |= PacketFlags.ACK
     else:            message.send_flags &= ~PacketFlags.ACK            (PacketFlags.ACK = 0x10) *)
Definition ack_flag (fl : N) (acks : list N) : N :=
  if is_nil acks then N.ldiff fl 16 else N.lor fl 16.

Definition with_flags (m : msg) (fl : N) : msg :=
  {| m_name := m_name m; m_flags := fl; m_pid := m_pid m; m_extra := m_extra m;
     m_acks := m_acks m; m_raw := m_raw m; m_body := m_body m |}.

Definition with_ack_flag (m : msg) : msg := with_flags m (ack_flag (m_flags m) (m_acks m)).

(* ProxiedCircuit.prepare_message for a received (non-synthetic) message when neither
   InjectionTracker has ever injected and the proxy has no unacked reliable packet of its own:
   get_effective_id / get_original_id are the identity, was_injected is False, so packet_id,
   acks, the PacketAck block list and StartPingCheck.OldestUnacked are all rewritten to
   themselves; what remains is the ACK flag normalisation and "an empty PacketAck is not sent".
   That this closed form IS ProxCircuit.send_forward in every injection-free state is
   Compose/CircuitBridge.v (bridge_quiet).
   None: prepare_message returned False (message not sent) - or a block it reads is missing
   (KeyError/IndexError; cannot happen for a body the template parser produced). *)
Definition prepare_noinj (mv : msg) : option msg :=
  if is_msg "PacketAck" mv then
    match msg_packet_ids mv with
    | Some ids => if is_nil ids && is_nil (m_acks mv) then None else Some (with_ack_flag mv)
    | None => None
    end
  else if is_msg "StartPingCheck" mv then
    match ping_oldest mv with
    | Some _ => Some (with_ack_flag mv)
    | None => None
    end
  else Some (with_ack_flag mv).

(* ---------- the decoding oracle ---------- *)

(* Which state of the lazily parsed Message reaches circuit.send: handle_proxied_packet itself reads
   blocks of the [needs_body] names; internal subscribers of session/region.message_handler
   (object manager, inventory manager, ...) may read the blocks of further names - [touch] says
   which (every theorem is for an arbitrary [touch]).  A failing parse inside a subscriber is
   caught and leaves the message raw (C02_failed_parse_keeps_raw).  The one state-dependent read -
   UseCircuitCode's SessionID, read only while the association has no session yet - is covered by
   the same quantification (touch "UseCircuitCode" = true or false). *)
Definition lazy_view (d : dict) (touch : ident -> bool) (m0 : msg) : msg :=
  if needs_body (name_of_ident (m_name m0)) || touch (m_name m0) then ensure_parsed d m0 else m0.

Definition is_some {A} (o : option A) : bool := match o with Some _ => true | None => false end.

(* UDPMessageDeserializer.deserialize under ENABLE_DEFERRED_PACKET_PARSING (= _parse_message_header),
   then everything the router asks of the message, then ProxiedCircuit.send + serialize *)
Definition decode_real (d : dict) (touch : ident -> bool) (b : list N) : option msginfo :=
  match parse_header d b with
  | None => None
  | Some m0 =>
      let nm := name_of_ident (m_name m0) in
      let parsed := parse_body d m0 in                         (* message.blocks *)
      let is_ucc := name_eqb nm n_UseCircuitCode in
      let sid := if is_ucc then match parsed with Some mp => session_id mp | None => None end else None in
      Some {| mi_name := nm;
              mi_body_ok := match parsed with Some _ => negb is_ucc || is_some sid | None => false end;
              mi_sid := match sid with Some s => s | None => 0 end;
              mi_consumed := match parsed with Some mp => command_chat mp | None => false end;
              mi_out := match prepare_noinj (lazy_view d touch m0) with
                        | Some pm => serialize d pm
                        | None => None
                        end |}
  end.

(* a PacketAck with no IDs and no appended acks: the circuit refuses to emit it *)
Definition empty_ack (m : msg) : bool :=
  is_msg "PacketAck" m && is_nil (m_acks m)
  && match blocks_of (I "Packets") m with Some [] => true | _ => false end.

(* no subscriber reads anything *)
Definition touch_none : ident -> bool := fun _ => false.
(* every subscriber reads everything *)
Definition touch_all : ident -> bool := fun _ => true.
