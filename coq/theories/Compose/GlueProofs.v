(* Composition layer, lemmas: what [decode_real] (Compose/Glue.v) answers on the datagram of a
   template-conformant message, from the C01/C02 theorems of Tmpl/*Proofs.v. *)
From Coq Require Import Arith NArith ZArith Ascii String List Bool Lia ZifyBool ZifyNat ZifyN.
From HV Require Import Base.Bytes ZC.ZeroCode Tmpl.Template Tmpl.TemplateProofs Tmpl.Codec
  Tmpl.CodecProofs Tmpl.PassProofs Tmpl.NormProofs Tmpl.SameProofs
  Proxy.Socks Proxy.SocksProofs Proxy.UdpProxy Proxy.UdpProxyProofs Compose.Glue.
Import ListNotations.
Open Scope N_scope.

(* ---------- names: list ascii (codec) vs list N (router) ---------- *)

Lemma N_of_ascii_eqb x y : (N_of_ascii x =? N_of_ascii y) = Ascii.eqb x y.
Proof.
  destruct (Ascii.eqb_spec x y) as [->|Hne]; [apply N.eqb_refl|].
  apply N.eqb_neq. intros H. apply Hne.
  rewrite <- (ascii_N_embedding x), <- (ascii_N_embedding y), H. reflexivity.
Qed.

Lemma name_eqb_ident : forall a b, name_eqb (name_of_ident a) (name_of_ident b) = ident_eqb a b.
Proof.
  unfold name_eqb, name_of_ident.
  induction a as [|x a IH]; intros [|y b]; cbn [map bytes_eqb ident_eqb]; try reflexivity.
  now rewrite N_of_ascii_eqb, IH.
Qed.

Lemma name_of_ident_inj a b : name_of_ident a = name_of_ident b -> a = b.
Proof.
  intros H. apply ident_eqb_eq. rewrite <- name_eqb_ident, H.
  clear. unfold name_eqb. induction (name_of_ident b) as [|x l IH]; cbn [bytes_eqb]; [reflexivity|].
  now rewrite N.eqb_refl, IH.
Qed.

(* the router's name constants are the codec's names *)
Lemma n_UseCircuitCode_ident : n_UseCircuitCode = name_of_ident (I "UseCircuitCode"). Proof. reflexivity. Qed.
Lemma n_PacketAck_ident : n_PacketAck = name_of_ident (I "PacketAck"). Proof. reflexivity. Qed.
Lemma n_StartPingCheck_ident : n_StartPingCheck = name_of_ident (I "StartPingCheck"). Proof. reflexivity. Qed.
Lemma n_ChatFromViewer_ident : n_ChatFromViewer = name_of_ident (I "ChatFromViewer"). Proof. reflexivity. Qed.

Lemma is_ucc_ident i : name_eqb (name_of_ident i) n_UseCircuitCode = ident_eqb i (I "UseCircuitCode").
Proof. rewrite n_UseCircuitCode_ident. apply name_eqb_ident. Qed.

(* ---------- the ACK flag ---------- *)

Lemma testbit16 n : N.testbit 16 n = (4 =? n).
Proof. change 16 with (2 ^ 4). apply N.pow2_bits_eqb. Qed.

Lemma lor16_set fl : has_acks fl = true -> N.lor fl 16 = fl.
Proof.
  unfold has_acks. intros H. apply N.bits_inj. intros n. rewrite N.lor_spec, testbit16.
  destruct (4 =? n) eqn:E; [|apply orb_false_r]. apply N.eqb_eq in E. subst n. now rewrite H.
Qed.

Lemma ldiff16_clear fl : has_acks fl = false -> N.ldiff fl 16 = fl.
Proof.
  unfold has_acks. intros H. apply N.bits_inj. intros n. rewrite N.ldiff_spec, testbit16.
  destruct (4 =? n) eqn:E; [|apply andb_true_r]. apply N.eqb_eq in E. subst n. now rewrite H.
Qed.

Lemma ldiff16_sub fl : has_acks fl = true -> N.ldiff fl 16 = fl - 16.
Proof.
  unfold has_acks. intros H. symmetry. apply N.sub_nocarry_ldiff.
  apply N.bits_inj. intros n. rewrite N.ldiff_spec, N.bits_0, testbit16.
  destruct (4 =? n) eqn:E; [|reflexivity]. apply N.eqb_eq in E. subst n. now rewrite H.
Qed.

Lemma ldiff16_lt fl : fl < 256 -> N.ldiff fl 16 < 256.
Proof.
  intros H. destruct (has_acks fl) eqn:E.
  - rewrite (ldiff16_sub fl E). lia.
  - now rewrite (ldiff16_clear fl E).
Qed.

Lemma has_acks_ldiff16 fl : has_acks (N.ldiff fl 16) = false.
Proof. unfold has_acks. rewrite N.ldiff_spec, testbit16. cbn. apply andb_false_r. Qed.

Lemma zerocoded_ldiff16 fl : zerocoded (N.ldiff fl 16) = zerocoded fl.
Proof. unfold zerocoded. rewrite N.ldiff_spec, testbit16. cbn. apply andb_true_r. Qed.

(* on a message whose ACK flag and ack list agree the normalisation does nothing *)
Definition ack_consistent (m : msg) : bool := negb (has_acks (m_flags m)) || negb (is_nil (m_acks m)).

Lemma with_ack_flag_id m : acks_ok (m_flags m) (m_acks m) = true -> ack_consistent m = true ->
  with_ack_flag m = m.
Proof.
  unfold acks_ok, ack_consistent, with_ack_flag, with_flags, ack_flag. intros Ha Hc.
  destruct m as [nm fl pid ex acks raw bd]. cbn [m_name m_flags m_pid m_extra m_acks m_raw m_body] in *.
  f_equal. destruct (has_acks fl) eqn:E.
  - destruct acks; [discriminate|]. cbn [is_nil]. now apply lor16_set.
  - destruct acks; [|discriminate]. cbn [is_nil]. now apply ldiff16_clear.
Qed.

(* ---------- conformance is stable under the flag normalisation ---------- *)

Lemma ser_body_with_flags t m fl : ser_body t (with_flags m fl) = ser_body t m.
Proof. reflexivity. Qed.

Lemma conforms_with_ack_flag d m : conforms d m = true -> conforms d (with_ack_flag m) = true.
Proof.
  intros Hc. destruct (conforms_parts d m Hc) as (t & p & Ft & Ep & Eraw & Hfl & Hp & Hex & Bex & Hacks & Hunk & Hblk & Hfirst & Hlen).
  destruct (ack_consistent m) eqn:Ec; [now rewrite (with_ack_flag_id m Hacks Ec)|].
  unfold ack_consistent in Ec. apply orb_false_elim in Ec as [E1 E2].
  apply negb_false_iff in E1. apply negb_false_iff in E2.
  destruct (m_acks m) eqn:Eacks; [|discriminate].
  unfold conforms, with_ack_flag, with_flags, ack_flag. rewrite Eacks.
  cbn [is_nil m_name m_flags m_pid m_extra m_acks m_raw m_body].
  rewrite Ft, Ep, Eraw, Bex, Hunk, Hblk, Hfirst.
  unfold acks_ok. rewrite has_acks_ldiff16. cbn [is_nil].
  unfold body_len_ok in *. cbn [m_flags]. rewrite zerocoded_ldiff16.
  change (ser_body t {| m_name := m_name m; m_flags := N.ldiff (m_flags m) 16; m_pid := Some p;
                        m_extra := m_extra m; m_acks := []; m_raw := None; m_body := m_body m |})
    with (ser_body t m).
  rewrite Hlen.
  pose proof (ldiff16_lt _ Hfl) as Hl.
  replace (N.ldiff (m_flags m) 16 <? 256) with true by (clear - Hl; lia).
  replace (p <? 2 ^ 32) with true by (clear - Hp; lia).
  replace (length (m_extra m) <? 256)%nat with true by (clear - Hex; lia). reflexivity.
Qed.

Lemma normalize_with_flags d m fl : normalize d (with_flags m fl) = with_flags (normalize d m) fl.
Proof.
  unfold normalize, with_flags. cbn [m_name m_flags m_pid m_extra m_acks m_raw m_body].
  destruct (find_name d (m_name m)); reflexivity.
Qed.

Lemma normalize_acks d m : m_acks (normalize d m) = m_acks m.
Proof. unfold normalize. destruct (find_name d (m_name m)); reflexivity. Qed.
Lemma normalize_flags d m : m_flags (normalize d m) = m_flags m.
Proof. unfold normalize. destruct (find_name d (m_name m)); reflexivity. Qed.
Lemma normalize_name d m : m_name (normalize d m) = m_name m.
Proof. unfold normalize. destruct (find_name d (m_name m)); reflexivity. Qed.

Lemma normalize_with_ack_flag d m : normalize d (with_ack_flag m) = with_ack_flag (normalize d m).
Proof.
  unfold with_ack_flag. rewrite normalize_with_flags, normalize_acks, normalize_flags. reflexivity.
Qed.

(* ---------- the header parse of a conformant message's datagram ---------- *)

(* the bytes between the fixed header and the ack trailer *)
Definition wire_body (d : dict) (m : msg) : option (list N) :=
  match find_name d (m_name m) with
  | Some t => match ser_body t m with
              | Some b => Some (if zerocoded (m_flags m) then zc_compress b else b)
              | None => None
              end
  | None => None
  end.

Definition rawform (m : msg) (raw : list N) : msg :=
  {| m_name := m_name m; m_flags := m_flags m; m_pid := m_pid m; m_extra := m_extra m;
     m_acks := m_acks m; m_raw := Some raw; m_body := [] |}.

Lemma parse_body_fields d m m' : parse_body d m = Some m' ->
  m_name m' = m_name m /\ m_flags m' = m_flags m /\ m_pid m' = m_pid m /\
  m_extra m' = m_extra m /\ m_acks m' = m_acks m.
Proof.
  unfold parse_body, parse_body_rest, parse_body_rest_q.
  destruct (m_raw m) as [[|x raw]|]; try (intros H; injection H as <-; repeat split).
  destruct (if zerocoded (m_flags m) then zc_expand (x :: raw) else Some (x :: raw)); [|discriminate].
  destruct (find_name d (m_name m)); [|discriminate].
  destruct (rd _ _) as [[? ?]|]; [|discriminate].
  destruct (parse_blocks _ _ _) as [[bd rest]|]; [|discriminate].
  destruct (is_nil bd && negb (is_nil (mblocks t))); [discriminate|].
  intros H. injection H as <-. repeat split.
Qed.

Lemma wire_body_with_ack_flag d m : wire_body d (with_ack_flag m) = wire_body d m.
Proof.
  unfold wire_body, with_ack_flag, with_flags, ack_flag. cbn [m_name m_flags].
  destruct (find_name d (m_name m)) as [t|]; [|reflexivity].
  change (ser_body t _) with (ser_body t m) at 1.
  destruct (ser_body t m); [|reflexivity].
  destruct (is_nil (m_acks m)).
  - now rewrite zerocoded_ldiff16.
  - unfold zerocoded. rewrite N.lor_spec, testbit16. cbn. now rewrite orb_false_r.
Qed.

Lemma rawform_with_ack_flag m raw : rawform (with_ack_flag m) raw = with_ack_flag (rawform m raw).
Proof. reflexivity. Qed.

(* C01 + C02: the header parser reads back, from the datagram of a conformant message, exactly the
   message's header fields and its encoded body *)
Lemma header_of_conformant d m bs : wf_dict d = true -> conforms d m = true ->
  serialize d m = Some bs ->
  exists raw, wire_body d m = Some raw /\ parse_header d bs = Some (rawform m raw)
              /\ parse_body d (rawform m raw) = Some (normalize d m) /\ raw <> [] /\ bytes_okb bs = true.
Proof.
  intros Hwf Hc Hs.
  destruct (roundtrip d m Hwf Hc) as (bs0 & Hs0 & Hok & Hd). rewrite Hs in Hs0. injection Hs0 as <-.
  unfold deserialize in Hd. destruct (parse_header d bs) as [m0|] eqn:Eh; [|discriminate].
  destruct (header_facts d bs m0 Hok Eh) as (t0 & p0 & raw & _ & _ & _ & _ & _ & _ & _ & _ & Eraw & Nraw & _ & Ebd).
  destruct (parse_body_fields d m0 _ Hd) as (F1 & F2 & F3 & F4 & F5).
  rewrite normalize_name in F1. rewrite normalize_flags in F2. rewrite normalize_acks in F5.
  assert (F3' : m_pid m0 = m_pid m).
  { rewrite <- F3. unfold normalize. destruct (find_name d (m_name m)); reflexivity. }
  assert (F4' : m_extra m0 = m_extra m).
  { rewrite <- F4. unfold normalize. destruct (find_name d (m_name m)); reflexivity. }
  assert (E0 : m0 = rawform m raw).
  { destruct m0 as [a b c e f g h]. cbn [m_name m_flags m_pid m_extra m_acks m_raw m_body] in *.
    unfold rawform. congruence. }
  subst m0. exists raw.
  split; [|split; [reflexivity|split; [exact Hd|split; [exact Nraw|exact Hok]]]].
  (* the raw body is the encoded body: both serializations give bs *)
  pose proof (raw_passthrough d bs _ Hok Eh) as Hs1.
  destruct (conforms_parts d m Hc) as (t & p & Ft & Ep & Eraw0 & _).
  unfold wire_body. rewrite Ft.
  unfold serialize in Hs, Hs1. cbn [rawform m_name m_flags m_pid m_extra m_acks m_raw m_body] in Hs1.
  rewrite Ft in Hs, Hs1. rewrite Eraw0 in Hs.
  destruct ((256 <=? m_flags m) || (2 ^ 32 <=? pid_or_0 (m_pid m)) || (256 <=? length (m_extra m))%nat); [discriminate|].
  destruct (ser_body t m) as [b|]; [|discriminate].
  destruct (if has_acks (m_flags m) then ser_acks (m_acks m) else Some []) as [tail|]; [|discriminate].
  injection Hs as Hs. injection Hs1 as Hs1. rewrite <- Hs1 in Hs.
  injection Hs as Hs. apply app_inv_tail in Hs. now rewrite Hs.
Qed.

(* ---------- what the circuit re-encodes, in either lazy-parse state ---------- *)

Section OnConformant.
  Variable d : dict.
  Hypothesis Hwf : wf_dict d = true.
  Variable m : msg.
  Hypothesis Hc : conforms d m = true.

  (* the datagram on the wire after the circuit: the encoding of the message with its ACK flag
     made consistent with its ack list *)
  Lemma reencode_raw_and_parsed bs raw :
    serialize d m = Some bs -> wire_body d m = Some raw ->
    exists bs', serialize d (with_ack_flag m) = Some bs' /\ bytes_okb bs' = true
      /\ deserialize d bs' = Some (normalize d (with_ack_flag m))
      /\ serialize d (with_ack_flag (rawform m raw)) = Some bs'
      /\ serialize d (with_ack_flag (normalize d m)) = Some bs'.
  Proof.
    intros Hs Hraw.
    pose proof (conforms_with_ack_flag d m Hc) as Hc'.
    destruct (roundtrip d _ Hwf Hc') as (bs' & Hs' & Hok' & Hd').
    exists bs'. split; [exact Hs'|]. split; [exact Hok'|]. split; [exact Hd'|]. split.
    - destruct (header_of_conformant d _ bs' Hwf Hc' Hs') as (raw' & Hw' & Hh' & _).
      rewrite wire_body_with_ack_flag, Hraw in Hw'. injection Hw' as <-.
      rewrite rawform_with_ack_flag in Hh'. exact (raw_passthrough d bs' _ Hok' Hh').
    - rewrite <- normalize_with_ack_flag, <- (serialize_normalize d _ Hwf Hc'). exact Hs'.
  Qed.
End OnConformant.

(* ---------- the oracle's answer on the datagram of a conformant message ---------- *)

(* what the circuit's block reads find in the decoded form of a conformant message; holds for every
   conformant message of the live template (readable_current in Compose/Live.v) *)
Definition readable (d : dict) (m : msg) : Prop :=
  (is_msg "PacketAck" m = true ->
     exists l ids, blocks_of (I "Packets") m = Some l /\ msg_packet_ids (normalize d m) = Some ids /\
                   length ids = length l) /\
  (is_msg "StartPingCheck" m = true -> exists o, ping_oldest (normalize d m) = Some o).

Lemma needs_body_false_names i : needs_body (name_of_ident i) = false ->
  ident_eqb i (I "PacketAck") = false /\ ident_eqb i (I "StartPingCheck") = false.
Proof.
  unfold needs_body. intros H. repeat (apply orb_false_elim in H as [H ?]).
  rewrite <- !name_eqb_ident. rewrite <- n_PacketAck_ident, <- n_StartPingCheck_ident. auto.
Qed.

Lemma needs_body_not_ucc nm : needs_body nm = true -> name_eqb nm n_UseCircuitCode = false.
Proof.
  intros H. destruct (name_eqb nm n_UseCircuitCode) eqn:E; [|reflexivity].
  apply bytes_eqb_eq in E. subst nm. vm_compute in H. discriminate.
Qed.

Section Decode.
  Variable d : dict.
  Hypothesis Hwf : wf_dict d = true.
  Variable touch : ident -> bool.

  Lemma ensure_parsed_rawform m raw nm : raw <> [] ->
    parse_body d (rawform m raw) = Some nm -> ensure_parsed d (rawform m raw) = nm.
  Proof.
    unfold ensure_parsed. cbn [m_raw rawform]. destruct raw; [congruence|]. now intros _ ->.
  Qed.

  (* the lazy-parse state in which a conformant message reaches the circuit *)
  Definition view_of (m : msg) (raw : list N) : msg :=
    if needs_body (name_of_ident (m_name m)) || touch (m_name m) then normalize d m else rawform m raw.

  Lemma decode_conformant m bs : conforms d m = true -> serialize d m = Some bs ->
    exists raw, wire_body d m = Some raw /\ bytes_okb bs = true /\
      parse_header d bs = Some (rawform m raw) /\
      decode_real d touch bs =
      let nm := name_of_ident (m_name m) in
      let is_ucc := name_eqb nm n_UseCircuitCode in
      let sid := if is_ucc then session_id (normalize d m) else None in
      Some {| mi_name := nm;
              mi_body_ok := negb is_ucc || is_some sid;
              mi_sid := match sid with Some s => s | None => 0 end;
              mi_consumed := command_chat (normalize d m);
              mi_out := match prepare_noinj (view_of m raw) with
                        | Some pm => serialize d pm
                        | None => None
                        end |}.
  Proof.
    intros Hc Hs. destruct (header_of_conformant d m bs Hwf Hc Hs) as (raw & Hw & Hh & Hpb & Nraw & Hok).
    exists raw. split; [exact Hw|]. split; [exact Hok|]. split; [exact Hh|].
    unfold decode_real. rewrite Hh, Hpb. unfold lazy_view, view_of.
    rewrite (ensure_parsed_rawform m raw _ Nraw Hpb). cbn [rawform m_name]. reflexivity.
  Qed.

  (* ... and the bytes it says the circuit emits *)
  Lemma out_conformant m bs raw : conforms d m = true -> serialize d m = Some bs ->
    wire_body d m = Some raw -> readable d m -> empty_ack m = false ->
    exists bs', serialize d (with_ack_flag m) = Some bs' /\ bytes_okb bs' = true
      /\ deserialize d bs' = Some (normalize d (with_ack_flag m))
      /\ match prepare_noinj (view_of m raw) with Some pm => serialize d pm | None => None end = Some bs'.
  Proof.
    intros Hc Hs Hw [Rpa Rping] Hea.
    destruct (reencode_raw_and_parsed d Hwf m Hc bs raw Hs Hw) as (bs' & E1 & E2 & E3 & E4 & E5).
    exists bs'. split; [exact E1|]. split; [exact E2|]. split; [exact E3|].
    unfold view_of. destruct (needs_body (name_of_ident (m_name m)) || touch (m_name m)) eqn:En.
    - (* parsed *)
      unfold prepare_noinj, is_msg. rewrite normalize_name, normalize_acks.
      destruct (ident_eqb (m_name m) (I "PacketAck")) eqn:Epa.
      + destruct (Rpa Epa) as (l & ids & Hl & Hids & Hlen). rewrite Hids.
        assert (Hnil : is_nil ids && is_nil (m_acks m) = false).
        { unfold empty_ack, is_msg in Hea. rewrite Epa, Hl in Hea. cbn [andb] in Hea.
          destruct ids, l; try discriminate; cbn [is_nil andb] in *; try reflexivity.
          now rewrite andb_true_r in Hea. }
        rewrite Hnil. exact E5.
      + destruct (ident_eqb (m_name m) (I "StartPingCheck")) eqn:Epi.
        * destruct (Rping Epi) as (o & ->). exact E5.
        * exact E5.
    - (* never parsed: not one of the names the circuit reads blocks of *)
      apply orb_false_elim in En as [En _]. destruct (needs_body_false_names _ En) as [Epa Epi].
      unfold prepare_noinj, is_msg. cbn [rawform m_name]. rewrite Epa, Epi. exact E4.
  Qed.

  Lemma body_fine_conformant (mi : msginfo) (sid : option N) :
    mi_body_ok mi = negb (name_eqb (mi_name mi) n_UseCircuitCode) || is_some sid -> body_fine mi.
  Proof.
    intros E Hn. rewrite E, (needs_body_not_ucc _ Hn). reflexivity.
  Qed.

  (* ---------- E1 / E2: one conformant message through the proxy ---------- *)

  Theorem e1_viewer_to_sim : forall m bs ss p src S i s k r c,
    conforms d m = true -> serialize d m = Some bs -> readable d m ->
    empty_ack m = false -> command_chat (normalize d m) = false -> is_msg "UseCircuitCode" m = false ->
    ipaddr_ok S -> f2n_get (p_f2n p) (ip_addr src) = None -> fst src = p_client p -> S <> src ->
    p_sess p = Some i -> nth_error ss i = Some s ->
    find_region (s_regions s) (ip_addr S) = Some (k, r, c) ->
    let res := recv (decode_real d touch) ss p (wrap S bs) src in
    exists bs' mi,
      serialize d (with_ack_flag m) = Some bs' /\
      deserialize d bs' = Some (normalize d (with_ack_flag m)) /\
      decode_real d touch bs = Some mi /\ mi_name mi = name_of_ident (m_name m) /\
      rs_outcome res = OForward /\
      rs_sends res = [(bs', S)] /\
      rs_sessions res = upd_nth i (after_forward s mi k r) ss /\
      rs_proto res = set_f2n p (f2n_set (p_f2n p) (ip_addr S) src).
  Proof.
    intros m bs ss p src S i s k r c Hc Hs Hr Hea Hcc Hucc HS Hf Hcl Hne Hp Hn Hfind res.
    destruct (decode_conformant m bs Hc Hs) as (raw & Hw & Hok & Hh & Hdec).
    destruct (out_conformant m bs raw Hc Hs Hw Hr Hea) as (bs' & E1 & E2 & E3 & E4).
    cbv zeta in Hdec. rewrite E4, Hcc in Hdec.
    match type of Hdec with _ = Some ?x => set (mi := x) in * end.
    exists bs', mi. split; [exact E1|]. split; [exact E3|]. split; [exact Hdec|]. split; [reflexivity|].
    assert (Hu : name_eqb (mi_name mi) n_UseCircuitCode = false).
    { unfold mi. cbn [mi_name]. rewrite is_ucc_ident. exact Hucc. }
    assert (Hb : body_fine mi) by (eapply body_fine_conformant; reflexivity).
    destruct (viewer_to_sim (decode_real d touch) ss p (wrap S bs) src S bs mi i s k r c
                Hf Hcl Hne (socks_inverse S bs HS) Hdec Hp Hn Hu Hfind Hb eq_refl) as (R1 & R2 & R3 & R4).
    subst res. rewrite R1, R2, R3, R4. repeat split.
  Qed.

  Theorem e2_sim_to_viewer : forall m bs ss p S v i s k r c,
    conforms d m = true -> serialize d m = Some bs -> readable d m ->
    empty_ack m = false -> command_chat (normalize d m) = false ->
    validate_udp_msg (name_of_ident (m_name m)) = Some true ->
    f2n_get (p_f2n p) (ip_addr S) = Some v ->
    p_sess p = Some i -> nth_error ss i = Some s ->
    find_region (s_regions s) (ip_addr S) = Some (k, r, c) ->
    let res := recv (decode_real d touch) ss p bs S in
    exists bs' mi,
      serialize d (with_ack_flag m) = Some bs' /\
      deserialize d bs' = Some (normalize d (with_ack_flag m)) /\
      decode_real d touch bs = Some mi /\ mi_name mi = name_of_ident (m_name m) /\
      rs_outcome res = OForward /\
      rs_sends res = [(wrap S bs', c_near c)] /\
      rs_sessions res = upd_nth i (after_forward s mi k r) ss /\
      rs_proto res = p.
  Proof.
    intros m bs ss p S v i s k r c Hc Hs Hr Hea Hcc Hval Hf Hp Hn Hfind res.
    destruct (decode_conformant m bs Hc Hs) as (raw & Hw & Hok & Hh & Hdec).
    destruct (out_conformant m bs raw Hc Hs Hw Hr Hea) as (bs' & E1 & E2 & E3 & E4).
    cbv zeta in Hdec. rewrite E4, Hcc in Hdec.
    match type of Hdec with _ = Some ?x => set (mi := x) in * end.
    exists bs', mi. split; [exact E1|]. split; [exact E3|]. split; [exact Hdec|]. split; [reflexivity|].
    assert (Hb : body_fine mi) by (eapply body_fine_conformant; reflexivity).
    destruct (sim_to_viewer (decode_real d touch) ss p bs S v mi i s k r c
                Hf Hdec Hval Hp Hn Hfind Hb eq_refl) as (R1 & R2 & R3 & R4).
    subst res. rewrite R1, R2, R3, R4. repeat split.
  Qed.

  (* the flag normalisation is invisible unless the ACK flag was set over an empty ack list *)
  Lemma consistent_same_bytes m bs bs' : conforms d m = true -> ack_consistent m = true ->
    serialize d m = Some bs -> serialize d (with_ack_flag m) = Some bs' ->
    bs' = bs /\ with_ack_flag m = m.
  Proof.
    intros Hc Hk Hs Hs'.
    destruct (conforms_parts d m Hc) as (t & p & _ & _ & _ & _ & _ & _ & _ & Hacks & _).
    rewrite (with_ack_flag_id m Hacks Hk) in Hs'. rewrite Hs in Hs'. injection Hs' as <-.
    split; [reflexivity|]. exact (with_ack_flag_id m Hacks Hk).
  Qed.

  (* an empty PacketAck is the one conformant message the circuit withholds *)
  Lemma out_empty_ack m bs raw : conforms d m = true -> serialize d m = Some bs ->
    wire_body d m = Some raw -> readable d m -> empty_ack m = true ->
    match prepare_noinj (view_of m raw) with Some pm => serialize d pm | None => None end = None.
  Proof.
    intros Hc Hs Hw [Rpa _] Hea. unfold empty_ack in Hea.
    apply andb_prop in Hea as [Hea H3]. apply andb_prop in Hea as [H1 H2].
    assert (Hn : needs_body (name_of_ident (m_name m)) = true).
    { unfold needs_body. rewrite n_PacketAck_ident, name_eqb_ident. unfold is_msg in H1. now rewrite H1. }
    unfold view_of. rewrite Hn. cbn [orb].
    unfold prepare_noinj, is_msg. rewrite normalize_name, normalize_acks. unfold is_msg in H1. rewrite H1.
    destruct (Rpa H1) as (l & ids & Hl & Hids & Hlen). rewrite Hids. rewrite Hl in H3.
    destruct l; [|discriminate]. destruct ids; [|discriminate]. cbn [is_nil andb]. now rewrite H2.
  Qed.

  (* ---------- E3: undecodable datagrams ---------- *)

  (* the LLUDP payload the proxy hands to the deserializer, when it gets that far *)
  Definition lludp_payload (p : proto) (data : list N) (src : ipaddr) : option (list N) :=
    match f2n_get (p_f2n p) (ip_addr src) with
    | Some _ => Some data
    | None =>
        if fst src =? p_client p then
          match parse_socks data with
          | POk far pl => if addr_eqb far (ip_addr src) then None else Some pl
          | _ => None
          end
        else None
    end.

  Lemma decode_real_none b : parse_header d b = None -> decode_real d touch b = None.
  Proof. unfold decode_real. now intros ->. Qed.

  Theorem e3_from_sim : forall ss p data S v,
    f2n_get (p_f2n p) (ip_addr S) = Some v -> parse_header d data = None ->
    recv (decode_real d touch) ss p data S = stop ss p OExcDecode.
  Proof.
    intros ss p data S v Hf Hh. unfold recv. rewrite Hf. unfold handle. now rewrite (decode_real_none _ Hh).
  Qed.

  Theorem e3_from_viewer : forall ss p data src far pl,
    f2n_get (p_f2n p) (ip_addr src) = None -> fst src = p_client p ->
    parse_socks data = POk far pl -> far <> ip_addr src -> parse_header d pl = None ->
    recv (decode_real d touch) ss p data src = stop ss (set_f2n p (f2n_set (p_f2n p) far src)) OExcDecode.
  Proof.
    intros ss p data src far pl Hf Hc Hp Hne Hh. unfold recv. rewrite Hf, Hc, N.eqb_refl, Hp.
    apply addr_eqb_neq in Hne. rewrite Hne. unfold handle. now rewrite (decode_real_none _ Hh).
  Qed.

  Theorem e3_undecodable : forall ss p data src pl,
    lludp_payload p data src = Some pl -> parse_header d pl = None ->
    let res := recv (decode_real d touch) ss p data src in
    rs_outcome res = OExcDecode /\ is_discard (rs_outcome res) = true /\
    rs_sends res = [] /\ rs_sessions res = ss /\ p_sess (rs_proto res) = p_sess p.
  Proof.
    intros ss p data src pl Hpl Hh res. subst res. unfold lludp_payload in Hpl.
    destruct (f2n_get (p_f2n p) (ip_addr src)) as [v|] eqn:Hf.
    - injection Hpl as <-. rewrite (e3_from_sim ss p data src v Hf Hh). repeat split.
    - destruct (fst src =? p_client p) eqn:Hc; [|discriminate]. apply N.eqb_eq in Hc.
      destruct (parse_socks data) as [| |far pl'] eqn:Hp; try discriminate.
      destruct (addr_eqb far (ip_addr src)) eqn:Hne; [discriminate|]. injection Hpl as <-.
      apply addr_eqb_neq in Hne. rewrite (e3_from_viewer ss p data src far pl' Hf Hc Hp Hne Hh).
      repeat split.
  Qed.
End Decode.

(* ---------- E1 for the handshake: the UseCircuitCode that claims the session and opens the circuit ---------- *)

Section Handshake.
  Variable d : dict.
  Hypothesis Hwf : wf_dict d = true.
  Variable touch : ident -> bool.

  Lemma is_msg_excl m a b : is_msg a m = true -> I a <> I b -> is_msg b m = false.
  Proof.
    unfold is_msg. intros Ha Hne. apply ident_eqb_eq in Ha. rewrite Ha. now apply ident_eqb_neq.
  Qed.

  Theorem e1_handshake : forall m bs sid ss p src S i ss1 s,
    conforms d m = true -> serialize d m = Some bs -> is_msg "UseCircuitCode" m = true ->
    session_id (normalize d m) = Some sid ->
    ((p_sess p = Some i /\ ss1 = ss) \/ (p_sess p = None /\ claim ss sid = Some (i, ss1))) ->
    nth_error ss1 i = Some s -> (exists r, In r (s_regions s) /\ r_addr r = S) ->
    ipaddr_ok S -> f2n_get (p_f2n p) (ip_addr src) = None -> fst src = p_client p -> S <> src ->
    let res := recv (decode_real d touch) ss p (wrap S bs) src in
    exists bs',
      serialize d (with_ack_flag m) = Some bs' /\
      deserialize d bs' = Some (normalize d (with_ack_flag m)) /\
      rs_outcome res = OForward /\
      rs_sends res = [(bs', S)] /\
      p_sess (rs_proto res) = Some i /\
      truthy (p_f2n (rs_proto res)) (ip_addr S) = true /\
      exists s' k r' c', nth_error (rs_sessions res) i = Some s' /\
        find_region (s_regions s') (ip_addr S) = Some (k, r', c') /\
        (find_region (s_regions s) (ip_addr S) = None -> c' = {| c_near := src; c_alive := true |}).
  Proof.
    intros m bs sid ss p src S i ss1 s Hc Hs Hucc Hsid Hready Hn Hreg HS Hf Hcl Hne res.
    assert (Hr : readable d m).
    { split; intros H.
      - rewrite (is_msg_excl m _ "PacketAck" Hucc) in H by discriminate. discriminate.
      - rewrite (is_msg_excl m _ "StartPingCheck" Hucc) in H by discriminate. discriminate. }
    assert (Hea : empty_ack m = false).
    { unfold empty_ack. now rewrite (is_msg_excl m _ "PacketAck" Hucc) by discriminate. }
    assert (Hcc : command_chat (normalize d m) = false).
    { unfold command_chat, is_msg. rewrite normalize_name.
      fold (is_msg "ChatFromViewer" m). now rewrite (is_msg_excl m _ "ChatFromViewer" Hucc) by discriminate. }
    destruct (decode_conformant d Hwf touch m bs Hc Hs) as (raw & Hw & Hok & Hh & Hdec).
    destruct (out_conformant d Hwf touch m bs raw Hc Hs Hw Hr Hea) as (bs' & E1 & E2 & E3 & E4).
    cbv zeta in Hdec. rewrite E4, Hcc in Hdec.
    assert (Hu : name_eqb (name_of_ident (m_name m)) n_UseCircuitCode = true).
    { rewrite is_ucc_ident. exact Hucc. }
    rewrite Hu, Hsid in Hdec. cbn [negb orb is_some] in Hdec.
    match type of Hdec with _ = Some ?x => set (mi := x) in * end.
    assert (Hready' : session_ready ss p mi i ss1).
    { destruct Hready as [H|[H1 H2]]; [left; exact H|right]. split; [exact H1|]. split; [reflexivity|exact H2]. }
    destruct (circuit_handshake (decode_real d touch) ss p (wrap S bs) src S bs mi i ss1 s
                Hf Hcl Hne (socks_inverse S bs HS) Hdec Hu Hready' Hn Hreg eq_refl) as (R1 & R2 & R3 & R4 & R5).
    exists bs'. subst res. rewrite R1, R2. cbn [mi_out mi]. repeat split; assumption.
  Qed.
End Handshake.

(* ---------- every decodable datagram, conformant sender or not ---------- *)

Section AnyDatagram.
  Variable d : dict.
  Hypothesis Hwf : wf_dict d = true.
  Variable touch : ident -> bool.

  Lemma ack_consistent_fields m m' : m_flags m' = m_flags m -> m_acks m' = m_acks m ->
    ack_consistent m' = ack_consistent m.
  Proof. unfold ack_consistent. now intros -> ->. Qed.

  (* never parsed (or parsed in vain) and not a message the circuit reads blocks of: the circuit
     re-emits the received bytes - C02_raw_passthrough through the circuit *)
  Lemma out_raw b m0 : bytes_okb b = true -> parse_header d b = Some m0 ->
    lazy_view d touch m0 = m0 -> needs_body (name_of_ident (m_name m0)) = false ->
    ack_consistent m0 = true ->
    match prepare_noinj (lazy_view d touch m0) with Some pm => serialize d pm | None => None end = Some b.
  Proof.
    intros Hb Hh Hv Hn Hk. rewrite Hv.
    destruct (needs_body_false_names _ Hn) as [Epa Epi].
    unfold prepare_noinj, is_msg. rewrite Epa, Epi.
    destruct (header_facts d b m0 Hb Hh) as (t & p & raw & _ & _ & _ & _ & _ & _ & _ & Hacks & _).
    rewrite (with_ack_flag_id m0 Hacks Hk). exact (raw_passthrough d b m0 Hb Hh).
  Qed.

  (* parsed on the way: the circuit emits a datagram that decodes to the same message -
     C02_same_message through the circuit *)
  Lemma out_parsed b m0 mp : bytes_okb b = true -> parse_header d b = Some m0 ->
    parse_body d m0 = Some mp -> recode_within_cap d mp = true ->
    lazy_view d touch m0 = mp -> ack_consistent m0 = true -> readable d mp -> empty_ack mp = false ->
    exists bs', match prepare_noinj (lazy_view d touch m0) with Some pm => serialize d pm | None => None end = Some bs'
                /\ bytes_okb bs' = true /\ deserialize d bs' = Some mp.
  Proof.
    intros Hb Hh Hp Hcap Hv Hk [Rpa Rping] Hea. rewrite Hv.
    destruct (parsed_conforms d b m0 mp Hwf Hb Hh Hp Hcap) as [Hc Hnorm].
    destruct (parse_body_fields d m0 mp Hp) as (_ & F2 & _ & _ & F5).
    destruct (conforms_parts d mp Hc) as (t & p & _ & _ & _ & _ & _ & _ & _ & Hacks & _).
    assert (Hid : with_ack_flag mp = mp).
    { apply with_ack_flag_id; [exact Hacks|]. now rewrite (ack_consistent_fields m0 mp F2 F5). }
    destruct (roundtrip d mp Hwf Hc) as (bs' & E1 & E2 & E3). rewrite Hnorm in E3.
    exists bs'. split; [|split; [exact E2|exact E3]].
    unfold prepare_noinj. rewrite Hid.
    destruct (is_msg "PacketAck" mp) eqn:Epa.
    - destruct (Rpa eq_refl) as (l & ids & Hl & Hids & Hlen). rewrite Hnorm in Hids. rewrite Hids.
      assert (Hnil : is_nil ids && is_nil (m_acks mp) = false).
      { unfold empty_ack in Hea. rewrite Epa, Hl in Hea. cbn [andb] in Hea.
        destruct ids, l; try discriminate; cbn [is_nil andb] in *; try reflexivity.
        now rewrite andb_true_r in Hea. }
      now rewrite Hnil.
    - destruct (is_msg "StartPingCheck" mp) eqn:Epi; [|exact E1].
      destruct (Rping eq_refl) as (o & Ho). rewrite Hnorm in Ho. now rewrite Ho.
  Qed.

  (* the two lazy-parse states *)
  Lemma lazy_view_cases b m0 : bytes_okb b = true -> parse_header d b = Some m0 ->
    (lazy_view d touch m0 = m0 /\
       (needs_body (name_of_ident (m_name m0)) || touch (m_name m0) = false \/ parse_body d m0 = None)) \/
    (exists mp, parse_body d m0 = Some mp /\ lazy_view d touch m0 = mp /\
       needs_body (name_of_ident (m_name m0)) || touch (m_name m0) = true).
  Proof.
    intros Hb Hh. unfold lazy_view.
    destruct (needs_body (name_of_ident (m_name m0)) || touch (m_name m0)); [|left; auto].
    destruct (header_facts d b m0 Hb Hh) as (t & p & raw & _ & _ & _ & _ & _ & _ & _ & _ & Eraw & Nraw & _).
    unfold ensure_parsed. rewrite Eraw. destruct raw; [congruence|].
    destruct (parse_body d m0) as [mp|]; [right; eauto|left; auto].
  Qed.

  (* what the oracle says the circuit emits for ANY datagram the header parser accepts *)
  Lemma out_any_datagram : forall b m0 mi,
    bytes_okb b = true -> parse_header d b = Some m0 -> decode_real d touch b = Some mi ->
    ack_consistent m0 = true -> body_fine mi ->
    (forall mp, parse_body d m0 = Some mp -> lazy_view d touch m0 = mp ->
       recode_within_cap d mp = true /\ readable d mp /\ empty_ack mp = false) ->
    exists bs', mi_out mi = Some bs' /\
      (lazy_view d touch m0 = m0 -> bs' = b) /\
      (forall mp, parse_body d m0 = Some mp -> deserialize d bs' = Some mp).
  Proof.
    intros b m0 mi Hb Hh Hdec Hk Hbf Hpar.
    assert (Hout : mi_out mi = match prepare_noinj (lazy_view d touch m0) with
                               | Some pm => serialize d pm | None => None end).
    { unfold decode_real in Hdec. rewrite Hh in Hdec. now injection Hdec as <-. }
    assert (Hnb : needs_body (mi_name mi) = needs_body (name_of_ident (m_name m0))).
    { unfold decode_real in Hdec. rewrite Hh in Hdec. now injection Hdec as <-. }
    assert (Hbok : needs_body (name_of_ident (m_name m0)) = true -> parse_body d m0 <> None).
    { intros E. rewrite <- Hnb in E. specialize (Hbf E).
      unfold decode_real in Hdec. rewrite Hh in Hdec. injection Hdec as <-. cbn [mi_body_ok] in Hbf.
      destruct (parse_body d m0); [discriminate|discriminate]. }
    rewrite Hout.
    destruct (lazy_view_cases b m0 Hb Hh) as [[Hv Hwhy]|(mp & Hpb & Hv & _)].
    - (* raw *)
      assert (Hnn : needs_body (name_of_ident (m_name m0)) = false).
      { destruct Hwhy as [E|E]; [now apply orb_false_elim in E as [E _]|].
        destruct (needs_body (name_of_ident (m_name m0))) eqn:En; [|reflexivity].
        exfalso. now apply (Hbok eq_refl). }
      rewrite (out_raw b m0 Hb Hh Hv Hnn Hk). exists b. repeat split.
      intros mp Hpb. destruct Hwhy as [_|E]; [|congruence].
      (* not touched but parseable: the unchanged datagram decodes to mp by definition *)
      unfold deserialize. now rewrite Hh.
    - destruct (Hpar mp Hpb Hv) as (Hcap & Hr & Hea).
      destruct (out_parsed b m0 mp Hb Hh Hpb Hcap Hv Hk Hr Hea) as (bs' & E1 & E2 & E3).
      rewrite E1. exists bs'. repeat split.
      + intros Hv'. rewrite Hv' in Hv. subst mp.
        (* a non-empty raw body never parses to the raw message itself *)
        destruct (header_facts d b m0 Hb Hh) as (t & p0 & raw & _ & _ & _ & _ & _ & _ & _ & _ & Eraw & Nraw & _).
        pose proof (parse_body_parsed d m0 m0 Hpb) as Hnone. rewrite Eraw in Hnone.
        exfalso. assert (Some raw = None) by (apply Hnone; [discriminate|congruence]). discriminate.
      + intros mp' Hpb'. rewrite Hpb in Hpb'. now injection Hpb' as <-.
  Qed.

  Lemma decode_real_name b m0 mi : parse_header d b = Some m0 -> decode_real d touch b = Some mi ->
    mi_name mi = name_of_ident (m_name m0).
  Proof. intros Hh Hdec. unfold decode_real in Hdec. rewrite Hh in Hdec. now injection Hdec as <-. Qed.

  (* one decodable datagram (other than the handshake) through the proxy, viewer -> simulator *)
  Theorem e1_any_datagram : forall b m0 mi ss p src S i s k r c,
    bytes_okb b = true -> parse_header d b = Some m0 -> decode_real d touch b = Some mi ->
    ack_consistent m0 = true -> body_fine mi -> mi_consumed mi = false ->
    is_msg "UseCircuitCode" m0 = false ->
    (forall mp, parse_body d m0 = Some mp -> lazy_view d touch m0 = mp ->
       recode_within_cap d mp = true /\ readable d mp /\ empty_ack mp = false) ->
    ipaddr_ok S -> f2n_get (p_f2n p) (ip_addr src) = None -> fst src = p_client p -> S <> src ->
    p_sess p = Some i -> nth_error ss i = Some s ->
    find_region (s_regions s) (ip_addr S) = Some (k, r, c) ->
    let res := recv (decode_real d touch) ss p (wrap S b) src in
    exists bs',
      rs_outcome res = OForward /\ rs_sends res = [(bs', S)] /\
      (lazy_view d touch m0 = m0 -> bs' = b) /\
      (forall mp, parse_body d m0 = Some mp -> deserialize d bs' = Some mp) /\
      rs_sessions res = upd_nth i (after_forward s mi k r) ss /\
      rs_proto res = set_f2n p (f2n_set (p_f2n p) (ip_addr S) src).
  Proof.
    intros b m0 mi ss p src S i s k r c Hb Hh Hdec Hk Hbf Hcons Hucc Hpar HS Hf Hcl Hne Hp Hn Hfind res.
    assert (Hu : name_eqb (mi_name mi) n_UseCircuitCode = false).
    { rewrite (decode_real_name b m0 mi Hh Hdec), is_ucc_ident. exact Hucc. }
    destruct (viewer_to_sim (decode_real d touch) ss p (wrap S b) src S b mi i s k r c
                Hf Hcl Hne (socks_inverse S b HS) Hdec Hp Hn Hu Hfind Hbf Hcons) as (R1 & R2 & R3 & R4).
    destruct (out_any_datagram b m0 mi Hb Hh Hdec Hk Hbf Hpar) as (bs' & O1 & O2 & O3).
    subst res. rewrite R1, R2, R3, R4, O1. exists bs'. repeat split; assumption.
  Qed.

  (* ... and simulator -> viewer *)
  Theorem e2_any_datagram : forall b m0 mi ss p S v i s k r c,
    bytes_okb b = true -> parse_header d b = Some m0 -> decode_real d touch b = Some mi ->
    ack_consistent m0 = true -> body_fine mi -> mi_consumed mi = false ->
    validate_udp_msg (name_of_ident (m_name m0)) = Some true ->
    (forall mp, parse_body d m0 = Some mp -> lazy_view d touch m0 = mp ->
       recode_within_cap d mp = true /\ readable d mp /\ empty_ack mp = false) ->
    f2n_get (p_f2n p) (ip_addr S) = Some v ->
    p_sess p = Some i -> nth_error ss i = Some s ->
    find_region (s_regions s) (ip_addr S) = Some (k, r, c) ->
    let res := recv (decode_real d touch) ss p b S in
    exists bs',
      rs_outcome res = OForward /\ rs_sends res = [(wrap S bs', c_near c)] /\
      (lazy_view d touch m0 = m0 -> bs' = b) /\
      (forall mp, parse_body d m0 = Some mp -> deserialize d bs' = Some mp) /\
      rs_sessions res = upd_nth i (after_forward s mi k r) ss /\
      rs_proto res = p.
  Proof.
    intros b m0 mi ss p S v i s k r c Hb Hh Hdec Hk Hbf Hcons Hval Hpar Hf Hp Hn Hfind res.
    rewrite <- (decode_real_name b m0 mi Hh Hdec) in Hval.
    destruct (sim_to_viewer (decode_real d touch) ss p b S v mi i s k r c
                Hf Hdec Hval Hp Hn Hfind Hbf Hcons) as (R1 & R2 & R3 & R4).
    destruct (out_any_datagram b m0 mi Hb Hh Hdec Hk Hbf Hpar) as (bs' & O1 & O2 & O3).
    subst res. rewrite R1, R2, R3, R4, O1. exists bs'. repeat split; assumption.
  Qed.
End AnyDatagram.

(* ---------- the empty PacketAck: forwarded nowhere, harmlessly ---------- *)

Section EmptyAck.
  Variable d : dict.
  Hypothesis Hwf : wf_dict d = true.
  Variable touch : ident -> bool.

  Theorem e1_empty_ack : forall m bs ss p src S i s k r c,
    conforms d m = true -> serialize d m = Some bs -> readable d m -> empty_ack m = true ->
    ipaddr_ok S -> f2n_get (p_f2n p) (ip_addr src) = None -> fst src = p_client p -> S <> src ->
    p_sess p = Some i -> nth_error ss i = Some s ->
    find_region (s_regions s) (ip_addr S) = Some (k, r, c) ->
    let res := recv (decode_real d touch) ss p (wrap S bs) src in
    rs_outcome res = OForward /\ rs_sends res = [] /\ rs_sessions res = ss.
  Proof.
    intros m bs ss p src S i s k r c Hc Hs Hr Hea HS Hf Hcl Hne Hp Hn Hfind res.
    assert (Hpa : is_msg "PacketAck" m = true).
    { unfold empty_ack in Hea. apply andb_prop in Hea as [Hea _]. now apply andb_prop in Hea as [Hea _]. }
    destruct (decode_conformant d Hwf touch m bs Hc Hs) as (raw & Hw & Hok & Hh & Hdec).
    cbv zeta in Hdec. rewrite (out_empty_ack d touch m bs raw Hc Hs Hw Hr Hea) in Hdec.
    assert (Hcc : command_chat (normalize d m) = false).
    { unfold command_chat, is_msg. rewrite normalize_name. fold (is_msg "ChatFromViewer" m).
      now rewrite (is_msg_excl m _ "ChatFromViewer" Hpa) by discriminate. }
    rewrite Hcc in Hdec.
    match type of Hdec with _ = Some ?x => set (mi := x) in * end.
    assert (Hu : name_eqb (mi_name mi) n_UseCircuitCode = false).
    { unfold mi. cbn [mi_name]. rewrite is_ucc_ident.
      fold (is_msg "UseCircuitCode" m). now rewrite (is_msg_excl m _ "UseCircuitCode" Hpa) by discriminate. }
    assert (Hb : body_fine mi) by (eapply body_fine_conformant; reflexivity).
    destruct (viewer_to_sim (decode_real d touch) ss p (wrap S bs) src S bs mi i s k r c
                Hf Hcl Hne (socks_inverse S bs HS) Hdec Hp Hn Hu Hfind Hb eq_refl) as (R1 & R2 & R3 & R4).
    subst res. rewrite R1, R2, R3. cbn [mi_out mi]. split; [reflexivity|]. split; [reflexivity|].
    (* a PacketAck neither closes a circuit nor moves the main region *)
    unfold after_forward. cbn [mi_name mi].
    assert (Hname : m_name m = I "PacketAck") by (unfold is_msg in Hpa; now apply ident_eqb_eq).
    rewrite Hname.
    replace (closes_circuit (name_of_ident (I "PacketAck"))) with false by reflexivity.
    replace (name_eqb (name_of_ident (I "PacketAck")) n_AgentMovementComplete) with false by reflexivity.
    rewrite session_eta. apply upd_nth_same. exact Hn.
  Qed.
End EmptyAck.
