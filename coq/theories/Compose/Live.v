(* Composition layer on the live template (gen/Template_gen.v, regenerated from /repo on every
   run): the blocks the proxied circuit reads - PacketAck.Packets[*].ID and
   StartPingCheck.PingID.OldestUnacked - are present, as integers, in the decoded form of every
   conformant message.  If message_template.msg changes the shape of these two messages the
   [find_name] computations below stop matching and this file fails to compile (fail closed). *)
From Coq Require Import Arith NArith ZArith Ascii String List Bool Lia.
From HV Require Import Base.Bytes Tmpl.Template Tmpl.TemplateProofs Tmpl.Codec Tmpl.CodecProofs Tmpl.SameProofs
  Proxy.Socks Proxy.SocksProofs Proxy.UdpProxy Proxy.UdpProxyProofs Compose.Glue Compose.GlueProofs.
From HVgen Require Import Template_gen.
Import ListNotations.
Open Scope list_scope.
Open Scope N_scope.

Definition tv_ID : tvar := {| vname := I "ID"; vty := TU32; vsize := 4; vbin := false; vtext := false |}.
Definition tb_Packets : tblock := {| bname := I "Packets"; bkind_of := BVarcount; bvars := [tv_ID] |}.
Definition tm_PacketAck : tmsg :=
  {| mname := I "PacketAck"; mfreq := FFixed; mnum := 251; mblocks := [tb_Packets] |}.

Definition tv_PingID : tvar := {| vname := I "PingID"; vty := TU8; vsize := 1; vbin := false; vtext := false |}.
Definition tv_Oldest : tvar := {| vname := I "OldestUnacked"; vty := TU32; vsize := 4; vbin := false; vtext := false |}.
Definition tb_PingID : tblock := {| bname := I "PingID"; bkind_of := BSingle; bvars := [tv_PingID; tv_Oldest] |}.
Definition tm_StartPingCheck : tmsg :=
  {| mname := I "StartPingCheck"; mfreq := FHigh; mnum := 1; mblocks := [tb_PingID] |}.

Lemma live_PacketAck : find_name current_dict (I "PacketAck") = Some tm_PacketAck.
Proof. vm_compute. reflexivity. Qed.

Lemma live_StartPingCheck : find_name current_dict (I "StartPingCheck") = Some tm_StartPingCheck.
Proof. vm_compute. reflexivity. Qed.

(* an in-range value of a 4-byte unsigned variable is an integer *)
Lemma u32_value tv b : classify (vty tv) = CUle 4 -> default_val tv = WU 0 ->
  match lookup (vname tv) (b_vars b) with Some v => val_ok tv v | None => b_fill b end = true ->
  exists n, var_or_default tv b = WU n.
Proof.
  unfold var_or_default, val_ok. intros Hk Hd H. destruct (lookup (vname tv) (b_vars b)) as [v|].
  - rewrite Hk in H. destruct v; try discriminate. eauto.
  - rewrite Hd. eauto.
Qed.

Lemma packet_ids_norm : forall l, forallb (inst_ok [tv_ID]) l = true ->
  exists ids, packet_ids (map (norm_inst [tv_ID]) l) = Some ids /\ length ids = length l.
Proof.
  induction l as [|b l IH]; intros H; [exists []; split; reflexivity|].
  cbn [forallb] in H. apply andb_prop in H as [Hb Hl]. destruct (IH Hl) as (ids & E & Hlen).
  unfold inst_ok in Hb. apply andb_prop in Hb as [Hb _]. cbn [forallb] in Hb. rewrite andb_true_r in Hb.
  destruct (u32_value tv_ID b eq_refl eq_refl Hb) as [n Hn].
  exists (n :: ids). split; [|cbn [length]; now rewrite Hlen].
  cbn [map packet_ids]. rewrite E.
  unfold var_u, norm_inst. cbn [b_vars map vname tv_ID lookup]. rewrite ident_eqb_refl.
  change {| vname := I "ID"; vty := TU32; vsize := 4; vbin := false; vtext := false |} with tv_ID.
  now rewrite Hn.
Qed.

Theorem readable_current : forall m, conforms current_dict m = true -> readable current_dict m.
Proof.
  intros m Hc.
  destruct (conforms_parts _ m Hc) as (t & p & Ft & _ & _ & _ & _ & _ & _ & _ & _ & Hblk & Hfirst & _).
  split; intros Hn; unfold is_msg in Hn; apply ident_eqb_eq in Hn.
  - rewrite Hn, live_PacketAck in Ft. injection Ft as <-.
    cbn [mblocks tm_PacketAck blocks_ok first_present bname tb_Packets] in Hblk, Hfirst.
    destruct (lookup (I "Packets") (m_body m)) as [l|] eqn:El; [|discriminate].
    cbn [negb andb] in Hblk. rewrite andb_true_r in Hblk. unfold block_ok in Hblk.
    apply andb_prop in Hblk as [_ Hin]. cbn [bvars] in Hin.
    destruct (packet_ids_norm l Hin) as (ids & E & Hlen).
    exists l, ids. split; [exact El|]. split; [|exact Hlen].
    unfold msg_packet_ids, blocks_of, normalize. rewrite Hn, live_PacketAck.
    cbn [m_body mblocks tm_PacketAck norm_body bname tb_Packets bvars]. rewrite El.
    cbn [lookup]. rewrite ident_eqb_refl. exact E.
  - rewrite Hn, live_StartPingCheck in Ft. injection Ft as <-.
    cbn [mblocks tm_StartPingCheck blocks_ok first_present bname tb_PingID] in Hblk, Hfirst.
    destruct (lookup (I "PingID") (m_body m)) as [l|] eqn:El; [|discriminate].
    cbn [negb andb] in Hblk. rewrite andb_true_r in Hblk. unfold block_ok in Hblk.
    apply andb_prop in Hblk as [Hcnt Hin]. cbn [bkind_of tb_PingID count_ok bvars] in Hcnt, Hin.
    destruct l as [|b [|b2 l]]; try discriminate.
    cbn [forallb] in Hin. rewrite andb_true_r in Hin. unfold inst_ok in Hin.
    apply andb_prop in Hin as [Hin _]. cbn [forallb] in Hin.
    apply andb_prop in Hin as [_ Hin]. rewrite andb_true_r in Hin.
    destruct (u32_value tv_Oldest b eq_refl eq_refl Hin) as [n En].
    exists n. unfold ping_oldest, first_block, blocks_of, normalize. rewrite Hn, live_StartPingCheck.
    cbn [m_body mblocks tm_StartPingCheck norm_body bname tb_PingID bvars]. rewrite El.
    cbn [lookup map]. rewrite ident_eqb_refl.
    unfold var_u, norm_inst. cbn [b_vars map vname tv_PingID tv_Oldest lookup].
    replace (ident_eqb (I "PingID") (I "OldestUnacked")) with false by reflexivity.
    rewrite ident_eqb_refl.
    change {| vname := I "OldestUnacked"; vty := TU32; vsize := 4; vbin := false; vtext := false |} with tv_Oldest.
    now rewrite En.
Qed.

(* UseCircuitCode.CircuitCode.SessionID is a 16-byte value in the decoded form of every conformant message *)
Definition tv_Code : tvar := {| vname := I "Code"; vty := TU32; vsize := 4; vbin := false; vtext := false |}.
Definition tv_SessionID : tvar := {| vname := I "SessionID"; vty := TUUID; vsize := 16; vbin := false; vtext := false |}.
Definition tv_UccID : tvar := {| vname := I "ID"; vty := TUUID; vsize := 16; vbin := false; vtext := false |}.
Definition tb_CircuitCode : tblock :=
  {| bname := I "CircuitCode"; bkind_of := BSingle; bvars := [tv_Code; tv_SessionID; tv_UccID] |}.
Definition tm_UseCircuitCode : tmsg :=
  {| mname := I "UseCircuitCode"; mfreq := FLow; mnum := 3; mblocks := [tb_CircuitCode] |}.

Lemma live_UseCircuitCode : find_name current_dict (I "UseCircuitCode") = Some tm_UseCircuitCode.
Proof. vm_compute. reflexivity. Qed.

Lemma raw_value tv b k : classify (vty tv) = CRaw k -> default_val tv = WB (nzeros k) ->
  match lookup (vname tv) (b_vars b) with Some v => val_ok tv v | None => b_fill b end = true ->
  exists l, var_or_default tv b = WB l.
Proof.
  unfold var_or_default, val_ok. intros Hk Hd H. destruct (lookup (vname tv) (b_vars b)) as [v|].
  - rewrite Hk in H. destruct v; try discriminate. eauto.
  - rewrite Hd. eauto.
Qed.

Theorem ucc_session_id_current : forall m, conforms current_dict m = true ->
  is_msg "UseCircuitCode" m = true -> exists sid, session_id (normalize current_dict m) = Some sid.
Proof.
  intros m Hc Hn.
  destruct (conforms_parts _ m Hc) as (t & p & Ft & _ & _ & _ & _ & _ & _ & _ & _ & Hblk & Hfirst & _).
  unfold is_msg in Hn. apply ident_eqb_eq in Hn.
  rewrite Hn, live_UseCircuitCode in Ft. injection Ft as <-.
  cbn [mblocks tm_UseCircuitCode blocks_ok first_present bname tb_CircuitCode] in Hblk, Hfirst.
  destruct (lookup (I "CircuitCode") (m_body m)) as [l|] eqn:El; [|discriminate].
  cbn [negb andb] in Hblk. rewrite andb_true_r in Hblk. unfold block_ok in Hblk.
  apply andb_prop in Hblk as [Hcnt Hin]. cbn [bkind_of tb_CircuitCode count_ok bvars] in Hcnt, Hin.
  destruct l as [|b [|b2 l]]; try discriminate.
  cbn [forallb] in Hin. rewrite andb_true_r in Hin. unfold inst_ok in Hin.
  apply andb_prop in Hin as [Hin _]. cbn [forallb] in Hin.
  apply andb_prop in Hin as [_ Hin]. apply andb_prop in Hin as [Hin _].
  destruct (raw_value tv_SessionID b 16 eq_refl eq_refl Hin) as [bytes En].
  exists (of_be bytes). unfold session_id, first_block, blocks_of, normalize. rewrite Hn, live_UseCircuitCode.
  cbn [m_body mblocks tm_UseCircuitCode norm_body bname tb_CircuitCode bvars]. rewrite El.
  cbn [lookup map]. rewrite ident_eqb_refl.
  unfold var_b, norm_inst. cbn [b_vars map vname tv_Code tv_SessionID tv_UccID lookup].
  replace (ident_eqb (I "Code") (I "SessionID")) with false by reflexivity.
  rewrite ident_eqb_refl.
  change {| vname := I "SessionID"; vty := TUUID; vsize := 16; vbin := false; vtext := false |} with tv_SessionID.
  now rewrite En.
Qed.

(* ---------- the end-to-end statements on the live template ---------- *)

Local Notation D := current_dict.

Section Current.
  Variable touch : ident -> bool.
  Let dec := decode_real D touch.

  (* E1 *)
  Theorem e1_current : forall m bs ss p src S i s k r c,
    conforms D m = true -> serialize D m = Some bs ->
    empty_ack m = false -> command_chat (normalize D m) = false -> is_msg "UseCircuitCode" m = false ->
    ipaddr_ok S -> f2n_get (p_f2n p) (ip_addr src) = None -> fst src = p_client p -> S <> src ->
    p_sess p = Some i -> nth_error ss i = Some s ->
    find_region (s_regions s) (ip_addr S) = Some (k, r, c) ->
    let res := recv dec ss p (wrap S bs) src in
    exists bs' mi,
      serialize D (with_ack_flag m) = Some bs' /\
      deserialize D bs' = Some (normalize D (with_ack_flag m)) /\
      dec bs = Some mi /\ mi_name mi = name_of_ident (m_name m) /\
      rs_outcome res = OForward /\
      rs_sends res = [(bs', S)] /\
      rs_sessions res = upd_nth i (after_forward s mi k r) ss /\
      rs_proto res = set_f2n p (f2n_set (p_f2n p) (ip_addr S) src).
  Proof.
    intros m bs ss p src S i s k r c Hc Hs. intros.
    apply (e1_viewer_to_sim D current_dict_wf touch m bs ss p src S i s k r c Hc Hs (readable_current m Hc)); assumption.
  Qed.

  (* E1 when the ACK flag agrees with the ack list (always, for a viewer that sets the flag only when it
     appends acks): the simulator receives the very bytes the viewer sent, and they decode to the message *)
  Theorem e1_current_identical : forall m bs ss p src S i s k r c,
    conforms D m = true -> serialize D m = Some bs -> ack_consistent m = true ->
    empty_ack m = false -> command_chat (normalize D m) = false -> is_msg "UseCircuitCode" m = false ->
    ipaddr_ok S -> f2n_get (p_f2n p) (ip_addr src) = None -> fst src = p_client p -> S <> src ->
    p_sess p = Some i -> nth_error ss i = Some s ->
    find_region (s_regions s) (ip_addr S) = Some (k, r, c) ->
    let res := recv dec ss p (wrap S bs) src in
    rs_outcome res = OForward /\ rs_sends res = [(bs, S)] /\
    deserialize D bs = Some (normalize D m).
  Proof.
    intros m bs ss p src S i s k r c Hc Hs Hk Hea Hcc Hu HS Hf Hcl Hne Hp Hn Hfind res.
    destruct (e1_current m bs ss p src S i s k r c Hc Hs Hea Hcc Hu HS Hf Hcl Hne Hp Hn Hfind)
      as (bs' & mi & E1 & E2 & _ & _ & R1 & R2 & _).
    destruct (consistent_same_bytes D m bs bs' Hc Hk Hs E1) as [-> Hid]. rewrite Hid in E2.
    subst res. auto.
  Qed.

  (* E2 *)
  Theorem e2_current : forall m bs ss p S v i s k r c,
    conforms D m = true -> serialize D m = Some bs ->
    empty_ack m = false -> command_chat (normalize D m) = false ->
    validate_udp_msg (name_of_ident (m_name m)) = Some true ->
    f2n_get (p_f2n p) (ip_addr S) = Some v ->
    p_sess p = Some i -> nth_error ss i = Some s ->
    find_region (s_regions s) (ip_addr S) = Some (k, r, c) ->
    let res := recv dec ss p bs S in
    exists bs' mi,
      serialize D (with_ack_flag m) = Some bs' /\
      deserialize D bs' = Some (normalize D (with_ack_flag m)) /\
      dec bs = Some mi /\ mi_name mi = name_of_ident (m_name m) /\
      rs_outcome res = OForward /\
      rs_sends res = [(wrap S bs', c_near c)] /\
      rs_sessions res = upd_nth i (after_forward s mi k r) ss /\
      rs_proto res = p.
  Proof.
    intros m bs ss p S v i s k r c Hc Hs. intros.
    apply (e2_sim_to_viewer D current_dict_wf touch m bs ss p S v i s k r c Hc Hs (readable_current m Hc)); assumption.
  Qed.

  Theorem e2_current_identical : forall m bs ss p S v i s k r c,
    conforms D m = true -> serialize D m = Some bs -> ack_consistent m = true ->
    empty_ack m = false -> command_chat (normalize D m) = false ->
    validate_udp_msg (name_of_ident (m_name m)) = Some true ->
    f2n_get (p_f2n p) (ip_addr S) = Some v ->
    p_sess p = Some i -> nth_error ss i = Some s ->
    find_region (s_regions s) (ip_addr S) = Some (k, r, c) ->
    let res := recv dec ss p bs S in
    rs_outcome res = OForward /\ rs_sends res = [(wrap S bs, c_near c)] /\
    deserialize D bs = Some (normalize D m).
  Proof.
    intros m bs ss p S v i s k r c Hc Hs Hk Hea Hcc Hval Hf Hp Hn Hfind res.
    destruct (e2_current m bs ss p S v i s k r c Hc Hs Hea Hcc Hval Hf Hp Hn Hfind)
      as (bs' & mi & E1 & E2 & _ & _ & R1 & R2 & _).
    destruct (consistent_same_bytes D m bs bs' Hc Hk Hs E1) as [-> Hid]. rewrite Hid in E2.
    subst res. auto.
  Qed.

  (* E2 on every state reachable from a circuit-free start (C06's invariant): the far_to_near premise
     holds by construction *)
  Theorem e2_current_reachable : forall m bs ss p S i s k r c,
    Inv ss p ->
    conforms D m = true -> serialize D m = Some bs -> ack_consistent m = true ->
    empty_ack m = false -> command_chat (normalize D m) = false ->
    validate_udp_msg (name_of_ident (m_name m)) = Some true ->
    p_sess p = Some i -> nth_error ss i = Some s ->
    find_region (s_regions s) (ip_addr S) = Some (k, r, c) ->
    let res := recv dec ss p bs S in
    rs_outcome res = OForward /\ rs_sends res = [(wrap S bs, c_near c)] /\
    deserialize D bs = Some (normalize D m).
  Proof.
    intros m bs ss p S i s k r c HI Hc Hs Hk Hea Hcc Hval Hp Hn Hfind.
    assert (T : truthy (p_f2n p) (ip_addr S) = true).
    { apply (HI i s); [split; auto|congruence]. }
    unfold truthy in T. destruct (f2n_get (p_f2n p) (ip_addr S)) as [v|] eqn:E; [|discriminate].
    exact (e2_current_identical m bs ss p S v i s k r c Hc Hs Hk Hea Hcc Hval E Hp Hn Hfind).
  Qed.

  (* E1 for the handshake *)
  Theorem e1_handshake_current : forall m bs ss p src S,
    conforms D m = true -> serialize D m = Some bs -> is_msg "UseCircuitCode" m = true ->
    ipaddr_ok S -> f2n_get (p_f2n p) (ip_addr src) = None -> fst src = p_client p -> S <> src ->
    exists sid, session_id (normalize D m) = Some sid /\
    forall i ss1 s,
    ((p_sess p = Some i /\ ss1 = ss) \/ (p_sess p = None /\ claim ss sid = Some (i, ss1))) ->
    nth_error ss1 i = Some s -> (exists r, In r (s_regions s) /\ r_addr r = S) ->
    let res := recv dec ss p (wrap S bs) src in
    exists bs',
      serialize D (with_ack_flag m) = Some bs' /\
      deserialize D bs' = Some (normalize D (with_ack_flag m)) /\
      rs_outcome res = OForward /\
      rs_sends res = [(bs', S)] /\
      p_sess (rs_proto res) = Some i /\
      truthy (p_f2n (rs_proto res)) (ip_addr S) = true /\
      exists s' k r' c', nth_error (rs_sessions res) i = Some s' /\
        find_region (s_regions s') (ip_addr S) = Some (k, r', c') /\
        (find_region (s_regions s) (ip_addr S) = None -> c' = {| c_near := src; c_alive := true |}).
  Proof.
    intros m bs ss p src S Hc Hs Hu HS Hf Hcl Hne.
    destruct (ucc_session_id_current m Hc Hu) as [sid Hsid]. exists sid. split; [exact Hsid|].
    intros i ss1 s Hready Hn Hreg.
    exact (e1_handshake D current_dict_wf touch m bs sid ss p src S i ss1 s Hc Hs Hu Hsid Hready Hn Hreg HS Hf Hcl Hne).
  Qed.

  (* the one conformant message the circuit withholds *)
  Theorem e1_empty_ack_current : forall m bs ss p src S i s k r c,
    conforms D m = true -> serialize D m = Some bs -> empty_ack m = true ->
    ipaddr_ok S -> f2n_get (p_f2n p) (ip_addr src) = None -> fst src = p_client p -> S <> src ->
    p_sess p = Some i -> nth_error ss i = Some s ->
    find_region (s_regions s) (ip_addr S) = Some (k, r, c) ->
    let res := recv dec ss p (wrap S bs) src in
    rs_outcome res = OForward /\ rs_sends res = [] /\ rs_sessions res = ss.
  Proof.
    intros m bs ss p src S i s k r c Hc Hs. intros.
    apply (e1_empty_ack D current_dict_wf touch m bs ss p src S i s k r c Hc Hs (readable_current m Hc)); assumption.
  Qed.

  (* every decodable datagram: the side conditions on the parsed state reduce to the zero-coding cap
     of C02 and "not an empty PacketAck" *)
  Lemma parsed_side_conditions b m0 : bytes_okb b = true -> parse_header D b = Some m0 ->
    (forall mp, parse_body D m0 = Some mp -> recode_within_cap D mp = true /\ empty_ack mp = false) ->
    forall mp, parse_body D m0 = Some mp -> lazy_view D touch m0 = mp ->
      recode_within_cap D mp = true /\ readable D mp /\ empty_ack mp = false.
  Proof.
    intros Hb Hh H mp Hp _. destruct (H mp Hp) as [Hcap Hea]. split; [exact Hcap|]. split; [|exact Hea].
    apply readable_current. exact (proj1 (SameProofs.parsed_conforms D b m0 mp current_dict_wf Hb Hh Hp Hcap)).
  Qed.

  Theorem e1_any_current : forall b m0 mi ss p src S i s k r c,
    bytes_okb b = true -> parse_header D b = Some m0 -> dec b = Some mi ->
    ack_consistent m0 = true -> body_fine mi -> mi_consumed mi = false ->
    is_msg "UseCircuitCode" m0 = false ->
    (forall mp, parse_body D m0 = Some mp -> recode_within_cap D mp = true /\ empty_ack mp = false) ->
    ipaddr_ok S -> f2n_get (p_f2n p) (ip_addr src) = None -> fst src = p_client p -> S <> src ->
    p_sess p = Some i -> nth_error ss i = Some s ->
    find_region (s_regions s) (ip_addr S) = Some (k, r, c) ->
    let res := recv dec ss p (wrap S b) src in
    exists bs',
      rs_outcome res = OForward /\ rs_sends res = [(bs', S)] /\
      (lazy_view D touch m0 = m0 -> bs' = b) /\
      (forall mp, parse_body D m0 = Some mp -> deserialize D bs' = Some mp) /\
      rs_sessions res = upd_nth i (after_forward s mi k r) ss /\
      rs_proto res = set_f2n p (f2n_set (p_f2n p) (ip_addr S) src).
  Proof.
    intros b m0 mi ss p src S i s k r c Hb Hh Hdec Hk Hbf Hcons Hu Hpar. intros.
    apply (e1_any_datagram D current_dict_wf touch b m0 mi ss p src S i s k r c Hb Hh Hdec Hk Hbf Hcons Hu
             (parsed_side_conditions b m0 Hb Hh Hpar)); assumption.
  Qed.

  Theorem e2_any_current : forall b m0 mi ss p S v i s k r c,
    bytes_okb b = true -> parse_header D b = Some m0 -> dec b = Some mi ->
    ack_consistent m0 = true -> body_fine mi -> mi_consumed mi = false ->
    validate_udp_msg (name_of_ident (m_name m0)) = Some true ->
    (forall mp, parse_body D m0 = Some mp -> recode_within_cap D mp = true /\ empty_ack mp = false) ->
    f2n_get (p_f2n p) (ip_addr S) = Some v ->
    p_sess p = Some i -> nth_error ss i = Some s ->
    find_region (s_regions s) (ip_addr S) = Some (k, r, c) ->
    let res := recv dec ss p b S in
    exists bs',
      rs_outcome res = OForward /\ rs_sends res = [(wrap S bs', c_near c)] /\
      (lazy_view D touch m0 = m0 -> bs' = b) /\
      (forall mp, parse_body D m0 = Some mp -> deserialize D bs' = Some mp) /\
      rs_sessions res = upd_nth i (after_forward s mi k r) ss /\
      rs_proto res = p.
  Proof.
    intros b m0 mi ss p S v i s k r c Hb Hh Hdec Hk Hbf Hcons Hval Hpar. intros.
    apply (e2_any_datagram D current_dict_wf touch b m0 mi ss p S v i s k r c Hb Hh Hdec Hk Hbf Hcons Hval
             (parsed_side_conditions b m0 Hb Hh Hpar)); assumption.
  Qed.

  (* E3 inside a history: an undecodable datagram anywhere in a session's traffic changes no other
     delivery and not the final session state (C06_discard_isolated with the real decoder) *)
  Theorem e3_isolated : forall ss p h1 data src h2 pl,
    Inv ss p ->
    let '(ss1, p1, out1) := run dec ss p h1 in
    lludp_payload p1 data src = Some pl -> parse_header D pl = None ->
    one_viewer_address (p_client p) ((data, src) :: h2) ->
    let '(ssA, pA, outA) := run dec ss p (h1 ++ (data, src) :: h2) in
    let '(ssB, pB, outB) := run dec ss p (h1 ++ h2) in
    exists tail, outA = out1 ++ [] :: tail /\ outB = out1 ++ tail /\ ssA = ssB /\ p_sess pA = p_sess pB.
  Proof.
    intros ss p h1 data src h2 pl HI.
    pose proof (discard_isolated_one_viewer dec ss p h1 data src h2 HI) as X.
    destruct (run dec ss p h1) as [[ss1 p1] out1]. intros Hpl Hh Hone. apply X; [|exact Hone].
    exact (proj1 (proj2 (e3_undecodable D touch ss1 p1 data src pl Hpl Hh))).
  Qed.
End Current.
