Require Extraction.
Require Import ExtrOcamlBasic.
From HV Require Import Asset.Xfer Asset.Schema.
Extraction Language OCaml.
Extraction "c20_model.ml" xfer_packets xfer_step xinit cstep core_init reassemble tview xview
  is_space strip parse_stripped read_block render_block mstr_serialize mstr_deserialize key_ok val_ok mstr_ok.
