Require Extraction.
Require Import ExtrOcamlBasic.
From HV Require Import Asset.Xfer Asset.Schema Asset.Digits Asset.Record Asset.Llsd Asset.Anim Asset.MeshLayout Asset.InvModel.
From HVgen Require Import C20_records C20_llsd C20_invmodel.
Extraction Language OCaml.
Extraction "c20_model.ml" xfer_packets xfer_step xinit cstep core_init reassemble tview xview
  is_space strip parse_stripped read_block render_block mstr_serialize mstr_deserialize key_ok val_ok mstr_ok
  to_lines from_lines dom wf_schema live_schemas int_to_text int_of_text hex8_to_text hex_of_text uuid_to_text uuid_of_text
  to_llsd from_llsd dom_llsd live_llsd_schemas
  parse_anim write_anim wf_anim utf8_valid
  write_layout parse_segments known_segments rank sort_keys
  live_table to_writer from_reader model_to_llsd model_from_llsd model_eqb add_all empty_store node_key svalues consistent
  node_ok_text node_ok_llsd ids_distinct.
