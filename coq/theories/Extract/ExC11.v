Require Extraction.
Require Import ExtrOcamlBasic.
From HV Require Import Text.HumanText Text.PyLiteral.
Extraction Language OCaml.
Extraction "c11_model.ml" from_human to_human prep header expr_match block_name repl_match uuid_match vec_parts is_space is_word
  render_val read_lit c_present strip wf_val.
