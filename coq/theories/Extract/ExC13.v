Require Extraction.
Require Import ExtrOcamlBasic.
From HV Require Import Compressed.Model Compressed.Instance.
Extraction Language OCaml.
Extraction "c13_model.ml" m_decl m_fast m_write.
