Require Extraction.
Require Import ExtrOcamlBasic.
From HV Require Import ZC.ZeroCode.
Extraction Language OCaml.
Extraction "c03_model.ml" zc_compress zc_expand zc_ref canonical.
