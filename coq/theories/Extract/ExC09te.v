Require Extraction.
Require Import ExtrOcamlBasic.
From Coq Require Import NArith List.
From HV Require Import Spec.TexEntry Spec.ExtraParamsModel.
Extraction Language OCaml.
Extraction "c09te_model.ml" enc_bitfield dec_bitfield canonical_faces
  enc_te dec_te enc_te_greedy dec_te_greedy enc_te_u32 dec_te_u32 sub_enc_u32 sub_dec_u32
  raw_layout raw_layout_okb raw_te_ok realize_face
  dec_entries dec_dictcoll enc_dictcoll sub_dec_dictcoll sub_enc_dictcoll raw_entry_codec raw_dict_ok N.eqb.
