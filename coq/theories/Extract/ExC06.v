Require Extraction.
Require Import ExtrOcamlBasic.
From HV Require Import Proxy.Socks Proxy.UdpProxy.
Extraction Language OCaml.
Extraction "c06_model.ml" wstep recv parse_socks wrap validate_udp_msg.
