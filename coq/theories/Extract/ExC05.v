Require Extraction.
Require Import ExtrOcamlBasic.
From Coq Require Import ZArith.
From HV Require Import Inj.InjTracker Circuit.ProxCircuit.
Extraction Language OCaml.
Extraction "c05_model.ml" pc_init run_trace Z.to_N.
