Require Extraction.
Require Import ExtrOcamlBasic.
From HV Require Import Obj.SceneGraph.
Extraction Language OCaml.
Extraction "c14_model.ml" init step.
