Require Extraction.
Require Import ExtrOcamlBasic.
From HV Require Import Obj.SceneGraph Obj.SceneGraphRef.
Extraction Language OCaml.
Extraction "c14_model.ml" init step ref_init ref_step.
