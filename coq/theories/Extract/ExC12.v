Require Extraction.
Require Import ExtrOcamlBasic.
From Coq Require Import NArith.
From HV Require Import Llsd.Llsd Llsd.LlsdString Llsd.LlsdBinary Llsd.LlsdNotation Llsd.LlsdNotationParse Llsd.LlsdMsg.
Extraction Language OCaml.
Extraction "c12_model.ml" format_binary bin_ok parse_binary parse_bin_rest fmt_not_string parse_not_string
  fmt_not utf8_valid canon wf keys_uris_nl_free parse_not_rest scan_real to_llsd_var of_llsd_var conforms N.add N.mul.
