Require Extraction.
Require Import ExtrOcamlBasic.
From HV Require Import Http.EventQueue.
Extraction Language OCaml.
Extraction "c17_model.ml" eq_trace eq_init Nat.pred.
