Require Extraction.
Require Import ExtrOcamlBasic.
From HV Require Import Http.FlowOwner Http.CapData.
Extraction Language OCaml.
Extraction "c15_model.ml" pump run_late fresh callbacks proxy_pump serialize deserialize.
