Require Extraction.
Require Import ExtrOcamlBasic.
From Coq Require Import ZArith List.
From HV Require Import Subfield.IntAdapters Subfield.Literal.
From HVgen Require Import C09_gen.
Extraction Language OCaml.
Extraction "c09_model.ml" s_deserialize s_serialize registered_ok registered_fits registry
  print_plit parse_plit lit_of_value value_of_lit safe_plit
  Z.add Z.mul Z.opp Z.div_eucl Z.eqb Z.ltb Z.to_nat Z.to_N.
