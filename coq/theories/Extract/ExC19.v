Require Extraction.
Require Import ExtrOcamlBasic.
From HV Require Import Circuit.ClientCircuit.
Extraction Language OCaml.
Extraction "c19_model.ml" step init.
