Require Extraction.
Require Import ExtrOcamlBasic.
From HV Require Import Spec.Spec.
Extraction Language OCaml.
Extraction "c08_model.ml" ser de calc_size wf delimited min_size domb utf8_ok.
