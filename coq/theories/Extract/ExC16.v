Require Extraction.
Require Import ExtrOcamlBasic.
From HV Require Import Http.Caps.
Extraction Language OCaml.
Extraction "c16_model.ml" run_trace init_manager step seed_request seed_response cap_url md_getall get_region.
