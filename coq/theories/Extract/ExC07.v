Require Extraction.
Require Import ExtrOcamlBasic.
From Coq Require Import NArith.
From HV Require Import Proxy.Ownership Proxy.Hooks.
Extraction Language OCaml.
(* N.of_nat only so that the shared driver prelude (positive / n converters) type-checks *)
Extraction "c07_model.ml" run_history handle_packet calm_cfg cfg_unclaimed apply_ops wire_msg N.of_nat.
