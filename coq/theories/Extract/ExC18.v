Require Extraction.
Require Import ExtrOcamlBasic.
From Coq Require Import NArith.
From HV Require Import Log.Filter Log.LogView Log.FilterSyntax.
From HV Require Import Llsd.Llsd Llsd.LlsdNotation Llsd.LlsdNotationParse Log.Export.
Extraction Language OCaml.
Extraction "c18_model.ml" eval ctrace init parse compile print wf_syntax
  to_dict from_dict norm tree_of pv_of notation of_notation wf_msg plain_msg norm_msg msg_tree wfn plain
  entry_to_dict entry_from_dict norm_entry entry_ok std_meta export_payload restore_msg deser_classes
  u_init u_msg u_freeze u_touch u_get_name u_get_method u_get_seq N.add N.mul.
