Require Extraction.
Require Import ExtrOcamlBasic.
From HV Require Import Log.Filter Log.LogView Log.FilterSyntax.
Extraction Language OCaml.
Extraction "c18_model.ml" eval ctrace init parse compile print wf_syntax.
