Require Extraction.
Require Import ExtrOcamlBasic.
From Coq Require Import ZArith.
From HV Require Import Inj.InjTracker.
Extraction Language OCaml.
Extraction "c04_model.ml" init run_outs eff orig was_injected was_dropped Z.to_N.
