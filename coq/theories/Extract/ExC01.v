(* extraction of the template codec model (used by the C01 and C02 checks) together
   with the generated dictionary it is run on *)
Require Extraction.
Require Import ExtrOcamlBasic.
From HV Require Import Tmpl.Template Tmpl.Codec.
From HVgen Require Import Template_gen.
Extraction Language OCaml.
Extraction "c01_model.ml" current_dict wf_dict serialize deserialize parse_header parse_body parse_body_rest_q lstep normalize conforms present utf8_valid.
