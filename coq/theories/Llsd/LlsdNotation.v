(* Notation formatter for whole values: llsd/serde_notation.py
   LLSDNotationFormatter (UNDEF BOOLEAN INTEGER REAL UUID BINARY STRING URI DATE
   ARRAY MAP) as subclassed by hippolyzer/lib/base/llsd.py
   HippoLLSDNotationFormatter (STRING override, vectors as ARRAY).

   repr(float) and datetime.isoformat() are library functions and are not
   modelled: the formatter takes their results as the two functions [rreal]
   (bits of the float -> bytes of repr) and [rdate] (bits of the timestamp ->
   bytes of _format_datestr).  Definitions only. *)
From Coq Require Import NArith ZArith List Bool.
From HV Require Import Llsd.Llsd Llsd.LlsdString.
Import ListNotations.
Open Scope N_scope.

(* b','.join(parts) *)
Fixpoint join (sep : N) (parts : list (list N)) : list N :=
  match parts with
  | [] => []
  | [p] => p
  | p :: r => p ++ sep :: join sep r
  end.

(* '%d' *)
Fixpoint uint_bytes (d : Decimal.uint) : list N :=
  match d with
  | Decimal.Nil => []
  | Decimal.D0 r => 48 :: uint_bytes r
  | Decimal.D1 r => 49 :: uint_bytes r
  | Decimal.D2 r => 50 :: uint_bytes r
  | Decimal.D3 r => 51 :: uint_bytes r
  | Decimal.D4 r => 52 :: uint_bytes r
  | Decimal.D5 r => 53 :: uint_bytes r
  | Decimal.D6 r => 54 :: uint_bytes r
  | Decimal.D7 r => 55 :: uint_bytes r
  | Decimal.D8 r => 56 :: uint_bytes r
  | Decimal.D9 r => 57 :: uint_bytes r
  end.

Definition dec_z (z : Z) : list N :=
  match z with
  | Z0 => [48]
  | Zpos p => uint_bytes (Pos.to_uint p)
  | Zneg p => 45 :: uint_bytes (Pos.to_uint p)
  end.

(* str(uuid): lower-case hex, 8-4-4-4-12 *)
Definition hexd (n : N) : N := if n <? 10 then 48 + n else 87 + n.
Definition hex2 (b : N) : list N := [hexd (b / 16); hexd (b mod 16)].
Definition uuid_text (u : list N) : list N :=
  flat_map hex2 (firstn 4 u) ++ [45]
  ++ flat_map hex2 (firstn 2 (skipn 4 u)) ++ [45]
  ++ flat_map hex2 (firstn 2 (skipn 6 u)) ++ [45]
  ++ flat_map hex2 (firstn 2 (skipn 8 u)) ++ [45]
  ++ flat_map hex2 (skipn 10 u).

(* base64.b64encode *)
Definition b64c (n : N) : N :=
  if n <? 26 then 65 + n else if n <? 52 then 71 + n else if n <? 62 then n - 4
  else if n =? 62 then 43 else 47.

Fixpoint b64 (s : list N) : list N :=
  match s with
  | [] => []
  | [a] => [b64c (a / 4); b64c ((a mod 4) * 16); 61; 61]
  | [a; b] => [b64c (a / 4); b64c ((a mod 4) * 16 + b / 16); b64c ((b mod 16) * 4); 61]
  | a :: b :: c :: r =>
      b64c (a / 4) :: b64c ((a mod 4) * 16 + b / 16)
        :: b64c ((b mod 16) * 4 + c / 64) :: b64c (c mod 64) :: b64 r
  end.

Section Fmt.
  Variable rreal : N -> list N.
  Variable rdate : N -> list N.

  Fixpoint fmt_not (v : llsd) : list N :=
    match v with
    | Undef => [33]
    | Bool true => [116; 114; 117; 101]
    | Bool false => [102; 97; 108; 115; 101]
    | Int z => 105 :: dec_z z
    | Real b => 114 :: rreal b
    | Str s => fmt_not_string s
    | Uuid u => 117 :: uuid_text u
    | Date b => [100; DQ] ++ rdate b ++ [DQ]
    | Uri s => fmt_not_uri s
    | Bin s => [98; 54; 52; DQ] ++ b64 s ++ [DQ]
    | Arr l => [91] ++ join 44 (map fmt_not l) ++ [93]
    | Map m =>
        [123] ++ join 44 (map (fun kv => match kv with
                                        | (k, x) => fmt_not_key k ++ 58 :: fmt_not x
                                        end) m) ++ [125]
    end.
End Fmt.

(* the part of a value the newline statement does not speak about: map keys and URIs *)
Definition nl_free (s : list N) : bool := forallb (fun c => negb (c =? NL)) s.

Fixpoint keys_uris_nl_free (v : llsd) : bool :=
  match v with
  | Uri s => nl_free s
  | Arr l => forallb keys_uris_nl_free l
  | Map m => forallb (fun kv => nl_free (fst kv) && keys_uris_nl_free (snd kv)) m
  | _ => true
  end.
