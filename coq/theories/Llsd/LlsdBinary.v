(* Binary LLSD exactly as coded:
     formatter  hippolyzer/lib/base/llsd.py: format_binary, _format_binary_recurse
     parser     hippolyzer/lib/base/llsd.py: parse_binary, HippoLLSDBinaryParser
                + llsd/serde_binary.py: LLSDBinaryParser (_parse, _parse_map, _parse_array,
                  _parse_string_raw) + llsd/base.py: _peek/_getc/_parse_string_delim
   Definitions only; proofs in LlsdBinaryProofs.v. *)
From Coq Require Import NArith ZArith List Bool.
From HV Require Import Base.Bytes Llsd.Llsd Llsd.LlsdString.
Import ListNotations.
Open Scope N_scope.

(* struct.pack('!i', z) *)
Definition i32 (z : Z) : list N := be_bytes 4 (of_signed 4 z).
Definition len32 {A} (l : list A) : list N := i32 (Z.of_nat (length l)).

(* _format_binary_recurse.  Branch order matters: is_string() is tested before
   isinstance(something, uri) and uri is a str subclass, so a URI is written
   with the 's' tag and the 'l' branch is unreachable: that is [ut] = false
   (see Llsd.canon); [ut] = true is the repaired order. *)
Fixpoint fmt_bin (ut : bool) (v : llsd) : list N :=
  match v with
  | Undef => [33]
  | Bool true => [49]
  | Bool false => [48]
  | Int z => 105 :: i32 z
  | Real b => 114 :: be_bytes 8 b
  | Uuid u => 117 :: u
  | Bin s => 98 :: len32 s ++ s
  | Str s => 115 :: len32 s ++ s
  | Uri s => (if ut then 108 else 115) :: len32 s ++ s
  | Date b => 100 :: le_bytes 8 b
  | Arr l => 91 :: len32 l ++ flat_map (fmt_bin ut) l ++ [93]
  | Map m =>
      123 :: len32 m
        ++ flat_map (fun kv => match kv with
                               | (k, x) => 107 :: len32 k ++ k ++ fmt_bin ut x
                               end) m
        ++ [125]
  end.

(* when the formatter does not raise (struct.error / LLSDSerializationError /
   UUIDs always have 16 bytes).  Lengths of 2^31 and more cannot be tested. *)
Fixpoint bin_ok (v : llsd) : bool :=
  match v with
  | Int z => S32_ok z
  | Uuid u => (length u =? 16)%nat
  | Str s | Uri s | Bin s => len_ok s
  | Arr l => len_ok l && forallb bin_ok l
  | Map m => len_ok m && forallb (fun kv => len_ok (fst kv) && bin_ok (snd kv)) m
  | _ => true
  end.

Definition HDR_PY : list N :=   (* b'<?llsd/binary?>' *)
  [60; 63; 108; 108; 115; 100; 47; 98; 105; 110; 97; 114; 121; 63; 62].
Definition HDR_CPP : list N :=  (* b'<? LLSD/Binary ?>' *)
  [60; 63; 32; 76; 76; 83; 68; 47; 66; 105; 110; 97; 114; 121; 32; 63; 62].

Definition format_binary (ut with_header : bool) (v : llsd) : list N :=
  if with_header then HDR_PY ++ [10] ++ fmt_bin ut v else fmt_bin ut v.

(* ---------- parser ---------- *)

(* _getc(n) for a length read from the stream: error when negative or past the
   end; the comparison is done in Z so that no large nat is ever built *)
Definition takez (n : Z) (l : list N) : option (list N * list N) :=
  if (n <? 0)%Z then None
  else if (Z.of_nat (length l) <? n)%Z then None
  else Some (firstn (Z.to_nat n) l, skipn (Z.to_nat n) l).

(* struct.unpack(''!i'', self._getc(4))[0] *)
Definition rd_i32 (bs : list N) : option (Z * list N) :=
  match take 4 bs with
  | Some (a, r) => Some (to_signed 4 (of_be a), r)
  | None => None
  end.

(* _parse_string_raw *)
Definition rd_sized (bs : list N) : option (list N * list N) :=
  match rd_i32 bs with
  | Some (n, r) => takez n r
  | None => None
  end.

(* repr(bytes), needed because uri(<bytes>) is str(<bytes>) *)
Definition hexdig (n : N) : N := if n <? 10 then 48 + n else 87 + n.
Definition py_repr_byte (q c : N) : list N :=
  if (c =? q) || (c =? 92) then [92; c]
  else if c =? 9 then [92; 116]
  else if c =? 10 then [92; 110]
  else if c =? 13 then [92; 114]
  else if (c <? 32) || (127 <=? c) then [92; 120; hexdig (c / 16); hexdig (c mod 16)]
  else [c].
Definition py_bytes_repr (s : list N) : list N :=
  let q := if existsb (N.eqb 39) s && negb (existsb (N.eqb 34) s) then 34 else 39 in
  98 :: q :: flat_map (py_repr_byte q) s ++ [q].

(* HippoLLSDBinaryParser._parse_string on the raw bytes: str if UTF-8, else bytes *)
Definition str_or_bin (s : list N) : llsd := if utf8_valid s then Str s else Bin s.

(* One unit of fuel per call; [parse_items]/[parse_entries] are the while loops
   of _parse_array/_parse_map ([count], [size] as in the code, [acc] = rv). *)
Fixpoint parse_val (fuel : nat) (bs : list N) : option (llsd * list N) :=
  match fuel with
  | O => None
  | S f =>
      match bs with
      | [] => None
      | c :: r =>
          if c =? 123 then
            match rd_i32 r with
            | Some (size, r1) => parse_entries f size 0%Z [] r1
            | None => None
            end
          else if c =? 91 then
            match rd_i32 r with
            | Some (size, r1) => parse_items f size 0%Z [] r1
            | None => None
            end
          else if c =? 33 then Some (Undef, r)
          else if c =? 48 then Some (Bool false, r)
          else if c =? 49 then Some (Bool true, r)
          else if c =? 105 then
            match rd_i32 r with
            | Some (z, r1) => Some (Int z, r1)
            | None => None
            end
          else if c =? 114 then
            match take 8 r with
            | Some (a, r1) => Some (Real (of_be a), r1)
            | None => None
            end
          else if c =? 117 then
            match take 16 r with
            | Some (a, r1) => Some (Uuid a, r1)
            | None => None
            end
          else if c =? 115 then
            match rd_sized r with
            | Some (s, r1) => Some (str_or_bin s, r1)
            | None => None
            end
          else if (c =? 39) || (c =? 34) then
            match parse_delim_utf8 c r with
            | Some (s, r1) => Some (Str s, r1)
            | None => None
            end
          else if c =? 108 then
            match rd_sized r with
            | Some (s, r1) => Some (Uri (if utf8_valid s then s else py_bytes_repr s), r1)
            | None => None
            end
          else if c =? 100 then
            match take 8 r with
            | Some (a, r1) => Some (Date (of_le a), r1)
            | None => None
            end
          else if c =? 98 then
            match rd_sized r with
            | Some (s, r1) => Some (Bin s, r1)
            | None => None
            end
          else None
      end
  end
with parse_items (fuel : nat) (size count : Z) (acc : list llsd) (bs : list N)
  : option (llsd * list N) :=
  match fuel with
  | O => None
  | S f =>
      match bs with
      | [] => None                                   (* _peek past the end *)
      | c :: r =>
          if negb (c =? 93) && (count <? size)%Z then
            match parse_val f bs with
            | Some (v, r1) => parse_items f size (count + 1)%Z (acc ++ [v]) r1
            | None => None
            end
          else if c =? 93 then Some (Arr acc, r)
          else None                                  (* invalid array close token *)
      end
  end
with parse_entries (fuel : nat) (size count : Z) (acc : list (list N * llsd)) (bs : list N)
  : option (llsd * list N) :=
  match fuel with
  | O => None
  | S f =>
      match bs with
      | [] => None                                   (* _getc past the end *)
      | c :: r =>
          if negb (c =? 125) && (count <? size)%Z then
            match (if c =? 107 then rd_sized r
                   else if (c =? 39) || (c =? 34) then parse_delim_utf8 c r
                   else None) with                   (* invalid map key *)
            | Some (k, r1) =>
                match parse_val f r1 with
                | Some (v, r2) => parse_entries f size (count + 1)%Z (map_set k v acc) r2
                | None => None
                end
            | None => None
            end
          else if c =? 125 then Some (Map acc, r)
          else None                                  (* invalid map close token *)
      end
  end.

Definition fuel_of (bs : list N) : nat := 2 * length bs + 2.

(* LLSDBinaryParser.parse: value and the unread rest (self._index) *)
Definition parse_bin_rest (bs : list N) : option (llsd * list N) := parse_val (fuel_of bs) bs.

Definition parse_bin (bs : list N) : option llsd :=
  match parse_bin_rest bs with
  | Some (v, _) => Some v
  | None => None
  end.

Fixpoint starts_with (p bs : list N) : bool :=
  match p, bs with
  | [], _ => true
  | x :: p', y :: bs' => (x =? y) && starts_with p' bs'
  | _ :: _, [] => false
  end.

(* data.split(b'\n', 1)[1]; None = IndexError (no newline) *)
Fixpoint after_nl (bs : list N) : option (list N) :=
  match bs with
  | [] => None
  | c :: r => if c =? 10 then Some r else after_nl r
  end.

(* llsd.parse_binary *)
Definition parse_binary (data : list N) : option llsd :=
  if starts_with HDR_CPP data || starts_with HDR_PY data then
    match after_nl data with
    | Some d => parse_bin d
    | None => None
    end
  else parse_bin data.
