(* Proofs about notation strings: the three chained replace() calls are a
   per-byte escape; the escape machine inverts it; no raw newline survives. *)
From Coq Require Import NArith List Bool Lia ZifyBool ZifyN.
From HV Require Import Llsd.Llsd Llsd.LlsdString.
Import ListNotations.
Open Scope N_scope.

Lemma replace_byte_app p r a b :
  replace_byte p r (a ++ b) = replace_byte p r a ++ replace_byte p r b.
Proof. unfold replace_byte. apply flat_map_app. Qed.

Lemma replace_byte_flat_map p r (f : N -> list N) s :
  replace_byte p r (flat_map f s) = flat_map (fun c => replace_byte p r (f c)) s.
Proof.
  induction s as [|c s IH]; [reflexivity|].
  cbn [flat_map]. rewrite replace_byte_app, IH. reflexivity.
Qed.

(* the per-byte view of HippoLLSDNotationFormatter.STRING *)
Definition esc_byte (c : N) : list N :=
  if c =? BSL then [BSL; BSL]
  else if c =? SQ then [BSL; SQ]
  else if c =? NL then [BSL; 110]
  else [c].

Lemma esc_byte_spec c :
  replace_byte NL [BSL; 110] (replace_byte SQ [BSL; SQ] (replace_byte BSL [BSL; BSL] [c]))
  = esc_byte c.
Proof.
  unfold esc_byte, replace_byte, BSL, SQ, NL. cbn [flat_map app].
  destruct (c =? 92) eqn:E1.
  - reflexivity.
  - cbn [flat_map app]. destruct (c =? 39) eqn:E2.
    + reflexivity.
    + cbn [flat_map app]. destruct (c =? 10) eqn:E3; reflexivity.
Qed.

Lemma fmt_not_string_esc s :
  fmt_not_string s = SQ :: flat_map esc_byte s ++ [SQ].
Proof.
  unfold fmt_not_string, base_not_string.
  rewrite !replace_byte_app.
  change (replace_byte NL [BSL; 110] [SQ]) with [SQ].
  cbn [app]. f_equal. f_equal.
  assert (H : forall t, replace_byte BSL [BSL; BSL] t = flat_map (fun c => replace_byte BSL [BSL; BSL] [c]) t).
  { intros t. unfold replace_byte. apply flat_map_ext. intros a. cbn. now rewrite app_nil_r. }
  rewrite H, !replace_byte_flat_map.
  apply flat_map_ext. intros c. apply esc_byte_spec.
Qed.

(* ---------- no raw newline ---------- *)

Lemma esc_byte_no_nl c : ~ In NL (esc_byte c).
Proof.
  unfold esc_byte, BSL, SQ, NL.
  destruct (c =? 92) eqn:E1; [cbn; intros [H|[H|[]]]; discriminate|].
  destruct (c =? 39) eqn:E2; [cbn; intros [H|[H|[]]]; discriminate|].
  destruct (c =? 10) eqn:E3; [cbn; intros [H|[H|[]]]; discriminate|].
  cbn. intros [H|[]]. subst c. discriminate.
Qed.

Lemma flat_map_no_nl (f : N -> list N) s :
  (forall c, In c s -> ~ In NL (f c)) -> ~ In NL (flat_map f s).
Proof.
  intros H Hin. apply in_flat_map in Hin as [c [Hc Hn]]. exact (H c Hc Hn).
Qed.

Lemma fmt_not_string_no_nl s : ~ In NL (fmt_not_string s).
Proof.
  rewrite fmt_not_string_esc. intros [H|H]; [discriminate|].
  apply in_app_or in H as [H|[H|[]]]; [|discriminate].
  revert H. apply flat_map_no_nl. intros c _. apply esc_byte_no_nl.
Qed.

(* ---------- the escape machine inverts the escaping ---------- *)

Lemma parse_esc_byte c s :
  parse_delim_st SQ ENone (esc_byte c ++ s) = push c (parse_delim_st SQ ENone s).
Proof.
  unfold esc_byte, BSL, SQ, NL.
  destruct (c =? 92) eqn:E1.
  - apply N.eqb_eq in E1. subst c. reflexivity.
  - destruct (c =? 39) eqn:E2.
    + apply N.eqb_eq in E2. subst c. reflexivity.
    + destruct (c =? 10) eqn:E3.
      * apply N.eqb_eq in E3. subst c. reflexivity.
      * cbn [app parse_delim_st]. unfold BSL. rewrite E1, E2. reflexivity.
Qed.

Lemma parse_delim_esc s rest :
  parse_delim SQ (flat_map esc_byte s ++ SQ :: rest) = Some (s, rest).
Proof.
  unfold parse_delim.
  induction s as [|c s IH].
  - reflexivity.
  - cbn [flat_map]. rewrite <- app_assoc, parse_esc_byte, IH. reflexivity.
Qed.

(* any byte string at all comes back from the escape machine *)
Lemma not_string_machine_roundtrip s rest :
  match fmt_not_string s ++ rest with
  | q :: body => q = SQ /\ parse_delim q body = Some (s, rest)
  | [] => False
  end.
Proof.
  rewrite fmt_not_string_esc. cbn [app]. split; [reflexivity|].
  rewrite <- app_assoc. apply parse_delim_esc.
Qed.

(* a str (UTF-8) comes back as the same str, and the parser stops exactly at the end *)
Lemma not_string_roundtrip s rest :
  utf8_valid s = true -> parse_not_string (fmt_not_string s ++ rest) = Some (s, rest).
Proof.
  intros Hu. rewrite fmt_not_string_esc. cbn [app parse_not_string].
  change (SQ =? SQ) with true. cbn [orb].
  unfold parse_delim_utf8. rewrite <- app_assoc. cbn [app].
  rewrite parse_delim_esc, Hu. reflexivity.
Qed.
