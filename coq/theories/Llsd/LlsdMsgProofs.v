(* unpack inverts pack on every value a template variable can hold; lifted to
   blocks and message bodies. *)
From Coq Require Import NArith ZArith List Bool Lia ZifyBool ZifyNat ZifyN.
From HV Require Import Base.Bytes Llsd.Llsd Llsd.LlsdMsg.
Import ListNotations.
Open Scope N_scope.

Lemma reals_map l : reals (map Real l) = Some l.
Proof. induction l as [|b l IH]; [reflexivity|]. cbn. now rewrite IH. Qed.

Lemma unsigned_rt n z :
  (0 < n)%nat -> (0 <= z < 2 ^ (8 * Z.of_nat n))%Z ->
  exists a, pack_unsigned n z = Some (Bin a) /\ length a = n /\ Z.of_N (of_be a) = z.
Proof.
  intros Hn Hz. unfold pack_unsigned.
  replace ((0 <=? z) && (z <? 2 ^ (8 * Z.of_nat n)))%Z with true by lia.
  eexists. split; [reflexivity|]. split; [apply be_bytes_length|].
  rewrite of_be_be_bytes; [lia|].
  rewrite pow256_pow2. apply N2Z.inj_lt. rewrite Z2N.id by lia.
  rewrite N2Z.inj_pow. replace (Z.of_N (8 * N.of_nat n)) with (8 * Z.of_nat n)%Z by lia.
  change (Z.of_N 2) with 2%Z. lia.
Qed.

Lemma signed_rt n z :
  (0 < n)%nat -> signed_range n z ->
  exists a, pack_signed n z = Some (Bin a) /\ length a = n /\ to_signed n (of_be a) = z.
Proof.
  intros Hn Hz. unfold pack_signed. destruct Hz as [H1 H2].
  replace ((- 2 ^ (8 * Z.of_nat n - 1) <=? z) && (z <? 2 ^ (8 * Z.of_nat n - 1)))%Z with true by lia.
  eexists. split; [reflexivity|]. split; [apply be_bytes_length|].
  rewrite of_be_be_bytes by now apply of_signed_lt.
  apply to_of_signed; [exact Hn|split; assumption].
Qed.

Theorem unpack_pack t v :
  in_specs t = true -> conforms t v = true ->
  exists x, pack t v = Some x /\ unpack t x = Some v.
Proof.
  intros Hs Hc.
  destruct t; try discriminate; destruct v; try discriminate; cbn [pack unpack conforms] in *.
  - (* U32 *)
    destruct (unsigned_rt 4 z ltac:(lia) ltac:(cbn; lia)) as [a [Hp [Hl Hv]]].
    rewrite Hp. eexists. split; [reflexivity|]. cbn [unpack]. rewrite Hl. cbn. now rewrite Hv.
  - (* U64 *)
    destruct (unsigned_rt 8 z ltac:(lia) ltac:(cbn; lia)) as [a [Hp [Hl Hv]]].
    rewrite Hp. eexists. split; [reflexivity|]. cbn [unpack]. rewrite Hl. cbn. now rewrite Hv.
  - (* S64 *)
    destruct (signed_rt 8 z ltac:(lia) ltac:(unfold signed_range; cbn; lia)) as [a [Hp [Hl Hv]]].
    rewrite Hp. eexists. split; [reflexivity|]. cbn [unpack]. rewrite Hl. cbn [Nat.eqb]. now rewrite Hv.
  - eexists. split; [reflexivity|]. cbn [unpack]. rewrite map_length, Hc, reals_map. reflexivity.
  - eexists. split; [reflexivity|]. cbn [unpack]. rewrite map_length, Hc, reals_map. reflexivity.
  - eexists. split; [reflexivity|]. cbn [unpack]. rewrite map_length, Hc, reals_map. reflexivity.
  - eexists. split; reflexivity.
  - rewrite Hc. eexists. split; [reflexivity|]. cbn [unpack]. now rewrite Hc.
Qed.

Theorem var_roundtrip t v :
  conforms t v = true -> exists x, to_llsd_var t v = Some x /\ of_llsd_var t x = Some v.
Proof.
  intros Hc. unfold to_llsd_var, of_llsd_var.
  destruct (in_specs t) eqn:Hs; [now apply unpack_pack|].
  destruct t; try discriminate; destruct v; try discriminate; eexists; split; reflexivity.
Qed.

Definition block_conforms (b : list (mvt * mval)) : bool := forallb (fun tv => conforms (fst tv) (snd tv)) b.

Theorem block_roundtrip b :
  block_conforms b = true -> exists d, to_llsd_block b = Some d /\ of_llsd_block d = Some b.
Proof.
  unfold to_llsd_block, of_llsd_block.
  induction b as [|[t v] b IH]; intros Hc; [exists []; split; reflexivity|].
  cbn [block_conforms forallb fst snd] in Hc. apply andb_prop in Hc as [H1 H2].
  destruct (var_roundtrip t v H1) as [x [Hx Hy]]. destruct (IH H2) as [d [Hd He]].
  exists ((t, x) :: d). cbn [mapM2]. rewrite Hx, Hd, Hy, He. split; reflexivity.
Qed.

Theorem msg_roundtrip m :
  forallb block_conforms m = true -> exists d, to_llsd_msg m = Some d /\ of_llsd_msg d = Some m.
Proof.
  unfold to_llsd_msg, of_llsd_msg.
  induction m as [|b m IH]; intros Hc; [exists []; split; reflexivity|].
  cbn [forallb] in Hc. apply andb_prop in Hc as [H1 H2].
  destruct (block_roundtrip b H1) as [x [Hx Hy]]. destruct (IH H2) as [d [Hd He]].
  exists (x :: d). cbn [mapM]. rewrite Hx, Hd, Hy, He. split; reflexivity.
Qed.
