(* LLSD values as the Python library represents them, abstracted to bytes.

     Undef        None
     Bool b       bool
     Int z        int                       (LLSD integers are S32; other ints make the formatters raise)
     Real bits    float, as the 64 IEEE-754 bits (an N below 2^64); no float arithmetic is modelled
     Str s        str, as its UTF-8 encoding
     Uuid u       uuid.UUID / datatypes.UUID, as its 16 bytes
     Date bits    datetime, as the IEEE-754 bits of its POSIX timestamp in seconds
                  (datetime.timestamp()/fromtimestamp() are library functions: trusted, checked by the
                   impl-level oracle under several process time zones)
     Uri s        llsd.uri (a str subclass), as its UTF-8 encoding
     Bin s        bytes (and the bytes subclasses JankStringyBytes/RawBytes)
     Arr l        list / tuple / Vector2,3,4 / Quaternion (these format as arrays of reals)
     Map m        dict in insertion order; a key is the UTF-8 encoding of a str key
                  (the binary parser returns a bytes key exactly when those bytes are not UTF-8)

   The type is a nested inductive; the useful induction principle is written
   by hand below.  Definitions only. *)
From Coq Require Import NArith ZArith List Bool.
Import ListNotations.
Open Scope N_scope.

Inductive llsd : Type :=
| Undef
| Bool (b : bool)
| Int (z : Z)
| Real (bits : N)
| Str (s : list N)
| Uuid (u : list N)
| Date (bits : N)
| Uri (s : list N)
| Bin (s : list N)
| Arr (l : list llsd)
| Map (m : list (list N * llsd)).

Section LlsdInd.
  Variable P : llsd -> Prop.
  Hypothesis HUndef : P Undef.
  Hypothesis HBool : forall b, P (Bool b).
  Hypothesis HInt : forall z, P (Int z).
  Hypothesis HReal : forall b, P (Real b).
  Hypothesis HStr : forall s, P (Str s).
  Hypothesis HUuid : forall u, P (Uuid u).
  Hypothesis HDate : forall b, P (Date b).
  Hypothesis HUri : forall s, P (Uri s).
  Hypothesis HBin : forall s, P (Bin s).
  Hypothesis HArr : forall l, Forall P l -> P (Arr l).
  Hypothesis HMap : forall m, Forall (fun kv => P (snd kv)) m -> P (Map m).

  Fixpoint llsd_rect' (v : llsd) : P v :=
    match v with
    | Undef => HUndef
    | Bool b => HBool b
    | Int z => HInt z
    | Real b => HReal b
    | Str s => HStr s
    | Uuid u => HUuid u
    | Date b => HDate b
    | Uri s => HUri s
    | Bin s => HBin s
    | Arr l =>
        HArr l ((fix go (l : list llsd) : Forall P l :=
                   match l with
                   | [] => Forall_nil _
                   | x :: r => Forall_cons x (llsd_rect' x) (go r)
                   end) l)
    | Map m =>
        HMap m ((fix go (m : list (list N * llsd)) : Forall (fun kv => P (snd kv)) m :=
                   match m with
                   | [] => Forall_nil _
                   | kv :: r => Forall_cons kv (llsd_rect' (snd kv)) (go r)
                   end) m)
    end.
End LlsdInd.

(* ---------- byte-list equality, association lists in dict order ---------- *)

Fixpoint beq (a b : list N) : bool :=
  match a, b with
  | [], [] => true
  | x :: a', y :: b' => (x =? y) && beq a' b'
  | _, _ => false
  end.

(* rv[key] = value on an insertion-ordered dict: an existing key keeps its
   position and takes the new value, a new key goes to the end *)
Fixpoint map_set (k : list N) (v : llsd) (m : list (list N * llsd)) : list (list N * llsd) :=
  match m with
  | [] => [(k, v)]
  | (k', v') :: r => if beq k k' then (k, v) :: r else (k', v') :: map_set k v r
  end.

Fixpoint key_in (k : list N) (ks : list (list N)) : bool :=
  match ks with
  | [] => false
  | k' :: r => beq k k' || key_in k r
  end.

Fixpoint keys_nodup (ks : list (list N)) : bool :=
  match ks with
  | [] => true
  | k :: r => negb (key_in k r) && keys_nodup r
  end.

(* ---------- strict UTF-8 (what bytes.decode('utf-8') accepts) ---------- *)

Definition in_rng (lo hi x : N) : bool := (lo <=? x) && (x <=? hi).
Definition cont (x : N) : bool := in_rng 128 191 x.

Fixpoint utf8_valid (s : list N) : bool :=
  match s with
  | [] => true
  | a :: r =>
      if a <? 128 then utf8_valid r
      else
        match r with
        | [] => false
        | b :: r2 =>
            if in_rng 194 223 a then cont b && utf8_valid r2
            else
              match r2 with
              | [] => false
              | c :: r3 =>
                  if a =? 224 then in_rng 160 191 b && cont c && utf8_valid r3
                  else if in_rng 225 236 a || in_rng 238 239 a then cont b && cont c && utf8_valid r3
                  else if a =? 237 then in_rng 128 159 b && cont c && utf8_valid r3
                  else
                    match r3 with
                    | [] => false
                    | d :: r4 =>
                        if a =? 240 then in_rng 144 191 b && cont c && cont d && utf8_valid r4
                        else if in_rng 241 243 a then cont b && cont c && cont d && utf8_valid r4
                        else if a =? 244 then in_rng 128 143 b && cont c && cont d && utf8_valid r4
                        else false
                    end
              end
        end
  end.

(* ---------- well-formed values: what the formatters accept without raising
   and LLSD can carry ---------- *)

Definition S32_ok (z : Z) : bool := ((-2147483648 <=? z) && (z <=? 2147483647))%Z.
Definition len_ok {A} (l : list A) : bool := (Z.of_nat (length l) <? 2147483648)%Z.

Fixpoint wf (v : llsd) : bool :=
  match v with
  | Undef | Bool _ => true
  | Int z => S32_ok z
  | Real b | Date b => b <? 18446744073709551616
  | Str s | Uri s => len_ok s && utf8_valid s
  | Uuid u => (length u =? 16)%nat
  | Bin s => len_ok s
  | Arr l => len_ok l && forallb wf l
  | Map m => len_ok m && keys_nodup (map fst m)
             && forallb (fun kv => len_ok (fst kv) && wf (snd kv)) m
  end.

(* what comes back from the binary codec.  [ut] = "URIs are written with their
   own tag".  In the code as it stands ut = false: is_string() is tested before
   isinstance(uri) and uri is a str subclass, so a URI is written as a string
   and returns as one.  The flag is probed on the live code by the harness
   (harness/props/c12.py: uri_tagged) so that model and theorems follow the
   code if the branch order is repaired. *)
Fixpoint canon (ut : bool) (v : llsd) : llsd :=
  match v with
  | Uri s => if ut then Uri s else Str s
  | Arr l => Arr (map (canon ut) l)
  | Map m => Map (map (fun kv => (fst kv, canon ut (snd kv))) m)
  | x => x
  end.

Fixpoint no_uri (v : llsd) : bool :=
  match v with
  | Uri _ => false
  | Arr l => forallb no_uri l
  | Map m => forallb (fun kv => no_uri (snd kv)) m
  | _ => true
  end.

(* LLSD type tag of a value *)
Definition tag (v : llsd) : N :=
  match v with
  | Undef => 0 | Bool _ => 1 | Int _ => 2 | Real _ => 3 | Str _ => 4 | Uuid _ => 5
  | Date _ => 6 | Uri _ => 7 | Bin _ => 8 | Arr _ => 9 | Map _ => 10
  end.
