(* Proofs about the binary codec: parse_binary (format_binary v) = canon v for
   every well-formed value, with exact consumption of the input. *)
From Coq Require Import NArith ZArith List Bool Lia ZifyBool ZifyNat ZifyN.
From HV Require Import Base.Bytes Llsd.Llsd Llsd.LlsdString Llsd.LlsdBinary.
Import ListNotations.
Open Scope N_scope.

(* ---------- readers invert writers ---------- *)

Lemma S32_signed_range z : S32_ok z = true -> signed_range 4 z.
Proof. unfold S32_ok, signed_range. cbn. lia. Qed.

Lemma rd_i32_i32 z r : S32_ok z = true -> rd_i32 (i32 z ++ r) = Some (z, r).
Proof.
  intros Hz. unfold rd_i32, i32.
  rewrite (take_app_n 4) by apply be_bytes_length.
  rewrite of_be_be_bytes by (apply of_signed_lt; lia).
  rewrite to_of_signed by (try lia; now apply S32_signed_range).
  reflexivity.
Qed.

Lemma len_S32 {A} (l : list A) : len_ok l = true -> S32_ok (Z.of_nat (length l)) = true.
Proof. unfold len_ok, S32_ok. lia. Qed.

Lemma takez_app s r : takez (Z.of_nat (length s)) (s ++ r) = Some (s, r).
Proof.
  unfold takez.
  replace (Z.of_nat (length s) <? 0)%Z with false by lia.
  rewrite app_length.
  replace (Z.of_nat (length s + length r) <? Z.of_nat (length s))%Z with false by lia.
  rewrite Nat2Z.id.
  rewrite firstn_app, Nat.sub_diag, firstn_all, skipn_app, Nat.sub_diag, skipn_all. cbn.
  now rewrite app_nil_r.
Qed.

Lemma rd_sized_ok s r : len_ok s = true -> rd_sized (len32 s ++ s ++ r) = Some (s, r).
Proof.
  intros H. unfold rd_sized, len32. rewrite rd_i32_i32 by now apply len_S32.
  apply takez_app.
Qed.

Lemma pow64 : 256 ^ N.of_nat 8 = 18446744073709551616.
Proof. reflexivity. Qed.

Lemma take8_be b r : take 8 (be_bytes 8 b ++ r) = Some (be_bytes 8 b, r).
Proof. apply take_app_n, be_bytes_length. Qed.

Lemma take8_le b r : take 8 (le_bytes 8 b ++ r) = Some (le_bytes 8 b, r).
Proof. apply take_app_n, le_bytes_length. Qed.

(* ---------- one-step equations of the parser (all by computation) ---------- *)

Lemma pv_undef f r : parse_val (S f) (33 :: r) = Some (Undef, r).
Proof. reflexivity. Qed.
Lemma pv_false f r : parse_val (S f) (48 :: r) = Some (Bool false, r).
Proof. reflexivity. Qed.
Lemma pv_true f r : parse_val (S f) (49 :: r) = Some (Bool true, r).
Proof. reflexivity. Qed.
Lemma pv_int f r : parse_val (S f) (105 :: r) =
  match rd_i32 r with Some (z, r1) => Some (Int z, r1) | None => None end.
Proof. reflexivity. Qed.
Lemma pv_real f r : parse_val (S f) (114 :: r) =
  match take 8 r with Some (a, r1) => Some (Real (of_be a), r1) | None => None end.
Proof. reflexivity. Qed.
Lemma pv_uuid f r : parse_val (S f) (117 :: r) =
  match take 16 r with Some (a, r1) => Some (Uuid a, r1) | None => None end.
Proof. reflexivity. Qed.
Lemma pv_str f r : parse_val (S f) (115 :: r) =
  match rd_sized r with Some (s, r1) => Some (str_or_bin s, r1) | None => None end.
Proof. reflexivity. Qed.
Lemma pv_uri f r : parse_val (S f) (108 :: r) =
  match rd_sized r with
  | Some (s, r1) => Some (Uri (if utf8_valid s then s else py_bytes_repr s), r1)
  | None => None end.
Proof. reflexivity. Qed.
Lemma pv_date f r : parse_val (S f) (100 :: r) =
  match take 8 r with Some (a, r1) => Some (Date (of_le a), r1) | None => None end.
Proof. reflexivity. Qed.
Lemma pv_bin f r : parse_val (S f) (98 :: r) =
  match rd_sized r with Some (s, r1) => Some (Bin s, r1) | None => None end.
Proof. reflexivity. Qed.
Lemma pv_arr f r : parse_val (S f) (91 :: r) =
  match rd_i32 r with Some (size, r1) => parse_items f size 0%Z [] r1 | None => None end.
Proof. reflexivity. Qed.
Lemma pv_map f r : parse_val (S f) (123 :: r) =
  match rd_i32 r with Some (size, r1) => parse_entries f size 0%Z [] r1 | None => None end.
Proof. reflexivity. Qed.

Lemma pi_step f size count acc c r :
  parse_items (S f) size count acc (c :: r) =
  if negb (c =? 93) && (count <? size)%Z then
    match parse_val f (c :: r) with
    | Some (v, r1) => parse_items f size (count + 1)%Z (acc ++ [v]) r1
    | None => None
    end
  else if c =? 93 then Some (Arr acc, r) else None.
Proof. reflexivity. Qed.

Lemma pe_key f size count acc r :
  (count <? size)%Z = true ->
  parse_entries (S f) size count acc (107 :: r) =
  match rd_sized r with
  | Some (k, r1) =>
      match parse_val f r1 with
      | Some (v, r2) => parse_entries f size (count + 1)%Z (map_set k v acc) r2
      | None => None
      end
  | None => None
  end.
Proof. intros H. cbn [parse_entries]. change (107 =? 125) with false. rewrite H. reflexivity. Qed.

Lemma pe_close f size count acc r :
  parse_entries (S f) size count acc (125 :: r) = Some (Map acc, r).
Proof. reflexivity. Qed.

(* ---------- every formatted value starts with a tag that is not a closer ---------- *)

Lemma fmt_bin_head ut v : exists t tl, fmt_bin ut v = t :: tl /\ (t =? 93) = false.
Proof.
  destruct v as [| [|] | z | b | s | u | b | s | s | l | m]; cbn [fmt_bin];
    try (eexists; eexists; split; [reflexivity|reflexivity]).
  destruct ut; eexists; eexists; split; reflexivity.
Qed.

(* ---------- fuel ---------- *)

Fixpoint sz (v : llsd) : nat :=
  match v with
  | Arr l => 2 + fold_right (fun x a => 1 + sz x + a)%nat 0%nat l
  | Map m => 2 + fold_right (fun kv a => match kv with (_, x) => 1 + sz x + a end)%nat 0%nat m
  | _ => 1
  end.

Definition items_sz (l : list llsd) : nat := fold_right (fun x a => 1 + sz x + a)%nat 0%nat l.
Definition entries_sz (m : list (list N * llsd)) : nat :=
  fold_right (fun kv a => match kv with (_, x) => 1 + sz x + a end)%nat 0%nat m.

Lemma sz_pos v : (1 <= sz v)%nat.
Proof. destruct v; cbn; lia. Qed.

(* the statement proved for one value, as used in the induction *)
Definition rt_at (ut : bool) (v : llsd) : Prop :=
  wf v = true -> forall fuel rest, (sz v <= fuel)%nat ->
  parse_val fuel (fmt_bin ut v ++ rest) = Some (canon ut v, rest).

Lemma items_rt ut l :
  Forall (rt_at ut) l -> forallb wf l = true ->
  forall fuel size count acc rest,
    size = (count + Z.of_nat (length l))%Z -> (1 + items_sz l <= fuel)%nat ->
    parse_items fuel size count acc (flat_map (fmt_bin ut) l ++ 93 :: rest)
    = Some (Arr (acc ++ map (canon ut) l), rest).
Proof.
  induction 1 as [|x l Hx Hl IH]; intros Hwf fuel size count acc rest Hs Hf.
  - destruct fuel as [|f]; [cbn in Hf; lia|].
    cbn [flat_map app map]. rewrite pi_step. change (93 =? 93) with true. cbn [negb andb].
    now rewrite app_nil_r.
  - cbn [forallb] in Hwf. apply andb_prop in Hwf as [Hwx Hwl].
    destruct fuel as [|f]; [cbn in Hf; lia|].
    cbn [flat_map map]. rewrite <- app_assoc.
    destruct (fmt_bin_head ut x) as [t [tl [Ht Ht93]]].
    rewrite Ht. cbn [app]. rewrite pi_step, Ht93.
    replace (count <? size)%Z with true by (cbn [length] in Hs; lia).
    cbn [negb andb].
    change (t :: tl ++ flat_map (fmt_bin ut) l ++ 93 :: rest)
      with ((t :: tl) ++ flat_map (fmt_bin ut) l ++ 93 :: rest).
    rewrite <- Ht.
    unfold items_sz in Hf. cbn [fold_right] in Hf. fold (items_sz l) in Hf.
    rewrite (Hx Hwx) by lia.
    rewrite (IH Hwl) by (cbn [length] in Hs; lia).
    rewrite <- app_assoc. reflexivity.
Qed.

(* dict semantics: inserting fresh keys in order just appends *)
Lemma beq_eq a b : beq a b = true <-> a = b.
Proof.
  revert b; induction a as [|x a IH]; intros [|y b]; cbn; split; intros H; try discriminate; try reflexivity.
  - apply andb_prop in H as [H1 H2]. apply N.eqb_eq in H1. apply IH in H2. now subst.
  - injection H as -> ->. rewrite N.eqb_refl. cbn. now apply IH.
Qed.

Lemma map_set_fresh k v m :
  key_in k (map fst m) = false -> map_set k v m = m ++ [(k, v)].
Proof.
  induction m as [|[k' v'] m IH]; intros H; [reflexivity|].
  cbn [map fst key_in] in H. apply orb_false_elim in H as [H1 H2].
  cbn [map_set]. rewrite H1. cbn [app]. now rewrite IH.
Qed.

Lemma key_in_app k a b : key_in k (a ++ b) = key_in k a || key_in k b.
Proof. induction a as [|x a IH]; [reflexivity|]. cbn. rewrite IH. now rewrite orb_assoc. Qed.

Lemma beq_sym a b : beq a b = beq b a.
Proof.
  destruct (beq a b) eqn:E.
  - apply beq_eq in E. subst. symmetry. now apply beq_eq.
  - destruct (beq b a) eqn:E2; [|reflexivity]. apply beq_eq in E2. subst.
    assert (beq a a = true) by now apply beq_eq. congruence.
Qed.

Definition fmt_entry (ut : bool) (kv : list N * llsd) : list N :=
  match kv with (k, x) => 107 :: len32 k ++ k ++ fmt_bin ut x end.

Lemma entries_rt ut m :
  Forall (fun kv => rt_at ut (snd kv)) m ->
  forallb (fun kv => len_ok (fst kv) && wf (snd kv)) m = true ->
  forall fuel size count acc rest,
    size = (count + Z.of_nat (length m))%Z -> (1 + entries_sz m <= fuel)%nat ->
    keys_nodup (map fst acc ++ map fst m) = true ->
    parse_entries fuel size count acc (flat_map (fmt_entry ut) m ++ 125 :: rest)
    = Some (Map (acc ++ map (fun kv => (fst kv, canon ut (snd kv))) m), rest).
Proof.
  induction 1 as [|[k x] m Hx Hm IH]; intros Hwf fuel size count acc rest Hs Hf Hnd.
  - destruct fuel as [|f]; [cbn in Hf; lia|].
    cbn [flat_map app map]. rewrite pe_close. now rewrite app_nil_r.
  - cbn [forallb fst snd] in Hwf. apply andb_prop in Hwf as [Hw1 Hwm].
    apply andb_prop in Hw1 as [Hlk Hwx].
    destruct fuel as [|f]; [cbn in Hf; lia|].
    cbn [flat_map fmt_entry map fst snd]. rewrite <- !app_assoc. cbn [app].
    rewrite pe_key by (cbn [length] in Hs; lia).
    rewrite <- !app_assoc.
    rewrite rd_sized_ok by exact Hlk.
    unfold entries_sz in Hf. cbn [fold_right] in Hf. fold (entries_sz m) in Hf.
    cbn [snd] in Hx.
    rewrite (Hx Hwx) by lia.
    (* the key is fresh in acc *)
    assert (Hfresh : key_in k (map fst acc) = false /\ keys_nodup (map fst (acc ++ [(k, canon ut x)]) ++ map fst m) = true).
    { clear - Hnd. cbn [map fst] in Hnd. revert Hnd.
      induction acc as [|[k0 v0] acc IHa]; intros Hnd.
      - cbn in *. split; [reflexivity|exact Hnd].
      - cbn [map fst app keys_nodup] in Hnd. apply andb_prop in Hnd as [H1 H2].
        destruct (IHa H2) as [Ha Hb]. split.
        + cbn [map fst key_in]. rewrite Ha.
          rewrite key_in_app in H1. cbn [key_in] in H1.
          rewrite beq_sym.
          destruct (beq k0 k); [|reflexivity].
          cbn in H1. rewrite orb_true_r in H1. discriminate.
        + cbn [map fst app keys_nodup]. rewrite Hb, andb_true_r.
          rewrite key_in_app in H1 |- *. rewrite map_app, key_in_app. cbn [map fst key_in] in *.
          destruct (key_in k0 (map fst acc)); [discriminate|].
          cbn [orb] in *. destruct (beq k0 k); [discriminate|]. cbn [orb] in *. exact H1. }
    destruct Hfresh as [Hfr Hnd'].
    rewrite map_set_fresh by exact Hfr.
    rewrite (IH Hwm) by (try exact Hnd'; cbn [length] in Hs; lia).
    rewrite <- app_assoc. reflexivity.
Qed.

Lemma flat_map_fmt_entry ut m :
  flat_map (fun kv => match kv with (k, x) => 107 :: len32 k ++ k ++ fmt_bin ut x end) m
  = flat_map (fmt_entry ut) m.
Proof. reflexivity. Qed.

Theorem parse_fmt ut v : rt_at ut v.
Proof.
  induction v using llsd_rect'; unfold rt_at; intros Hwf fuel rest Hf;
    (destruct fuel as [|f]; [pose proof (sz_pos Undef); cbn in Hf; lia|]).
  - reflexivity.
  - destruct b; reflexivity.
  - cbn [fmt_bin app wf] in *. rewrite pv_int, rd_i32_i32 by exact Hwf. reflexivity.
  - cbn [fmt_bin app wf] in *. rewrite pv_real, take8_be.
    rewrite of_be_be_bytes by (rewrite pow64; lia). reflexivity.
  - cbn [fmt_bin app wf] in *. apply andb_prop in Hwf as [Hl Hu].
    rewrite pv_str. rewrite <- app_assoc, rd_sized_ok by exact Hl.
    unfold str_or_bin. rewrite Hu. reflexivity.
  - cbn [fmt_bin app wf] in *. rewrite pv_uuid.
    rewrite (take_app_n 16) by (now apply Nat.eqb_eq). reflexivity.
  - cbn [fmt_bin app wf] in *. rewrite pv_date, take8_le.
    rewrite of_le_le_bytes by (rewrite pow64; lia). reflexivity.
  - cbn [fmt_bin app wf canon] in *. apply andb_prop in Hwf as [Hl Hu].
    destruct ut.
    + rewrite pv_uri. rewrite <- app_assoc, rd_sized_ok by exact Hl. rewrite Hu. reflexivity.
    + rewrite pv_str. rewrite <- app_assoc, rd_sized_ok by exact Hl.
      unfold str_or_bin. rewrite Hu. reflexivity.
  - cbn [fmt_bin app wf] in *. rewrite pv_bin.
    rewrite <- app_assoc, rd_sized_ok by exact Hwf. reflexivity.
  - (* Arr *)
    cbn [fmt_bin app wf canon] in *. apply andb_prop in Hwf as [Hl Hw].
    rewrite pv_arr. unfold len32. rewrite <- !app_assoc.
    rewrite rd_i32_i32 by now apply len_S32.
    cbn [app].
    rewrite (items_rt ut l H Hw) by (try reflexivity; cbn [sz] in Hf; unfold items_sz; lia).
    reflexivity.
  - (* Map *)
    cbn [fmt_bin app wf canon] in *.
    apply andb_prop in Hwf as [Hl Hw]. apply andb_prop in Hl as [Hl Hnd].
    rewrite pv_map. unfold len32. rewrite <- !app_assoc.
    rewrite rd_i32_i32 by now apply len_S32.
    cbn [app]. rewrite flat_map_fmt_entry.
    rewrite (entries_rt ut m H Hw) by (try reflexivity; try exact Hnd; cbn [sz] in Hf; unfold entries_sz; lia).
    reflexivity.
Qed.

(* ---------- the fuel computed from the input length is enough ---------- *)

Lemma flat_map_length_ge {A} (f : A -> list N) (g : A -> nat) l :
  Forall (fun x => (g x <= length (f x))%nat) l ->
  (fold_right (fun x a => g x + a)%nat 0%nat l <= length (flat_map f l))%nat.
Proof.
  induction 1 as [|x l Hx Hl IH]; [cbn; lia|].
  cbn [fold_right flat_map]. rewrite app_length. lia.
Qed.

Lemma sz_le_len ut v : (sz v + 1 <= 2 * length (fmt_bin ut v))%nat.
Proof.
  induction v using llsd_rect'; try (cbn; lia).
  - destruct b; cbn; lia.
  - cbn [fmt_bin sz length]. rewrite !app_length. cbn [length].
    assert (Hs : (fold_right (fun x a => 1 + sz x + a) 0 l <= 2 * length (flat_map (fmt_bin ut) l))%nat).
    { clear - H. induction H as [|x l Hx Hl IH]; [cbn; lia|].
      cbn [fold_right flat_map]. rewrite app_length. lia. }
    unfold len32, i32. rewrite be_bytes_length. lia.
  - cbn [fmt_bin sz length]. rewrite !app_length. cbn [length].
    rewrite flat_map_fmt_entry.
    assert (Hs : (fold_right (fun kv a => match kv with (_, x) => 1 + sz x + a end) 0 m
                  <= 2 * length (flat_map (fmt_entry ut) m))%nat).
    { clear - H. induction H as [|[k x] m Hx Hm IH]; [cbn; lia|].
      cbn [fold_right flat_map fmt_entry snd] in *. rewrite app_length. cbn [length].
      rewrite !app_length. lia. }
    unfold len32, i32. rewrite be_bytes_length. lia.
Qed.

Theorem parse_bin_rest_fmt ut v rest :
  wf v = true -> parse_bin_rest (fmt_bin ut v ++ rest) = Some (canon ut v, rest).
Proof.
  intros Hwf. unfold parse_bin_rest, fuel_of. apply parse_fmt; [exact Hwf|].
  rewrite app_length. pose proof (sz_le_len ut v). lia.
Qed.

Theorem parse_bin_fmt ut v : wf v = true -> parse_bin (fmt_bin ut v) = Some (canon ut v).
Proof.
  intros Hwf. unfold parse_bin.
  rewrite <- (app_nil_r (fmt_bin ut v)), parse_bin_rest_fmt by exact Hwf. reflexivity.
Qed.

(* ---------- llsd.parse_binary (llsd.format_binary v, with_header) ---------- *)

Lemma fmt_bin_not_header ut v :
  starts_with HDR_CPP (fmt_bin ut v) = false /\ starts_with HDR_PY (fmt_bin ut v) = false.
Proof.
  destruct v as [| [|] | z | b | s | u | b | s | s | l | m]; cbn [fmt_bin]; try (split; reflexivity).
  destruct ut; split; reflexivity.
Qed.

Theorem parse_binary_format ut hdr v :
  wf v = true -> parse_binary (format_binary ut hdr v) = Some (canon ut v).
Proof.
  intros Hwf. unfold parse_binary, format_binary. destruct hdr.
  - change (starts_with HDR_PY (HDR_PY ++ [10] ++ fmt_bin ut v)) with true.
    rewrite orb_true_r.
    change (after_nl (HDR_PY ++ [10] ++ fmt_bin ut v)) with (Some (fmt_bin ut v)).
    now apply parse_bin_fmt.
  - destruct (fmt_bin_not_header ut v) as [-> ->]. cbn [orb]. now apply parse_bin_fmt.
Qed.

(* ---------- what canon changes ---------- *)

Lemma canon_no_uri ut v : no_uri v = true -> canon ut v = v.
Proof.
  induction v using llsd_rect'; intros Hn; try reflexivity; try discriminate.
  - cbn [canon no_uri] in *. f_equal.
    induction H as [|x l Hx Hl IH]; [reflexivity|].
    cbn [forallb map] in *. apply andb_prop in Hn as [H1 H2]. now rewrite Hx, IH.
  - cbn [canon no_uri] in *. f_equal.
    induction H as [|[k x] m Hx Hm IH]; [reflexivity|].
    cbn [forallb map fst snd] in *. apply andb_prop in Hn as [H1 H2]. now rewrite Hx, IH.
Qed.

Lemma canon_tagged v : canon true v = v.
Proof.
  induction v using llsd_rect'; try reflexivity.
  - cbn [canon]. f_equal. induction H as [|x l Hx Hl IH]; [reflexivity|]. cbn [map]. now rewrite Hx, IH.
  - cbn [canon]. f_equal. induction H as [|[k x] m Hx Hm IH]; [reflexivity|].
    cbn [map fst snd] in *. now rewrite Hx, IH.
Qed.

Theorem bin_roundtrip_exact hdr v :
  wf v = true -> no_uri v = true -> parse_binary (format_binary false hdr v) = Some v.
Proof. intros Hw Hn. rewrite parse_binary_format by exact Hw. now rewrite canon_no_uri. Qed.

Theorem bin_roundtrip_tagged hdr v :
  wf v = true -> parse_binary (format_binary true hdr v) = Some v.
Proof. intros Hw. rewrite parse_binary_format by exact Hw. now rewrite canon_tagged. Qed.

(* the full-strength statement (every well-formed value returns unchanged) is
   false of the code as it stands: a URI comes back as a string *)
Theorem bin_uri_refuted :
  exists v, wf v = true /\ parse_binary (format_binary false false v) = Some (Str [97]) /\ v = Uri [97].
Proof. exists (Uri [97]). repeat split. Qed.

(* the LLSD type changes for URIs only (ut = false), never otherwise *)
Lemma tag_canon ut v : tag (canon ut v) = if negb ut && (tag v =? 7) then 4 else tag v.
Proof. destruct v, ut; reflexivity. Qed.

(* zip_llsd / unzip_llsd: zlib is an oracle, assumed lossless *)
Theorem zip_roundtrip (zc zd : list N -> list N) :
  (forall x, zd (zc x) = x) ->
  forall ut v, wf v = true -> parse_binary (zd (zc (format_binary ut false v))) = Some (canon ut v).
Proof. intros Hz ut v Hw. rewrite Hz. now apply parse_binary_format. Qed.

(* the code as it stands (URIs tagged): exact consumption, value unchanged *)
Theorem parse_bin_rest_tagged v rest :
  wf v = true -> parse_bin_rest (fmt_bin true v ++ rest) = Some (v, rest).
Proof. intros Hw. rewrite parse_bin_rest_fmt by exact Hw. now rewrite canon_tagged. Qed.

Theorem zip_roundtrip_tagged (zc zd : list N -> list N) :
  (forall x, zd (zc x) = x) ->
  forall v, wf v = true -> parse_binary (zd (zc (format_binary true false v))) = Some v.
Proof. intros Hz v Hw. rewrite (zip_roundtrip zc zd Hz) by exact Hw. now rewrite canon_tagged. Qed.
