(* Delimited strings: LLSDBaseParser._parse_string_delim (llsd/base.py), shared
   by the notation parser and by the binary parser (tokens ' and ''), and the
   notation STRING/URI/key formatters (llsd/serde_notation.py) with
   Hippolyzer's extra newline rule (HippoLLSDNotationFormatter.STRING).
   Definitions only. *)
From Coq Require Import NArith List Bool.
From HV Require Import Llsd.Llsd.
Import ListNotations.
Open Scope N_scope.

(* bytes.replace(bytes([p]), r) for a one-byte pattern *)
Definition replace_byte (p : N) (r : list N) (s : list N) : list N :=
  flat_map (fun c => if c =? p then r else [c]) s.

Definition BSL : N := 92.  (* \ *)
Definition SQ : N := 39.   (* ' *)
Definition DQ : N := 34.   (* '' *)
Definition NL : N := 10.

(* LLSDNotationFormatter.STRING:  B('''%s''') % s.replace(b''\\'', b''\\\\'').replace(b''''', b''\\''') *)
Definition base_not_string (s : list N) : list N :=
  [SQ] ++ replace_byte SQ [BSL; SQ] (replace_byte BSL [BSL; BSL] s) ++ [SQ].

(* HippoLLSDNotationFormatter.STRING:  super().STRING(v).replace(b''\n'', b''\\n'') *)
Definition fmt_not_string (s : list N) : list N :=
  replace_byte NL [BSL; 110] (base_not_string s).

(* map keys use the base escaping only (no newline rule) *)
Definition fmt_not_key (k : list N) : list N := base_not_string k.

(* LLSDNotationFormatter.URI:  B('l''%s''') % s.replace(b''\\'', b''\\\\'').replace(b'''', b'\\''') *)
Definition fmt_not_uri (s : list N) : list N :=
  [108; DQ] ++ replace_byte DQ [BSL; DQ] (replace_byte BSL [BSL; BSL] s) ++ [DQ].

(* ---------- _parse_string_delim ---------- *)

(* _hex_as_nybble; None = LLSDParseError('Invalid hex character') *)
Definition hex_nyb (c : N) : option N :=
  if in_rng 48 57 c then Some (c - 48)
  else if in_rng 97 102 c then Some (10 + c - 97)
  else if in_rng 65 70 c then Some (10 + c - 65)
  else None.

(* self._escaped.get(cc, cc) *)
Definition unescape (c : N) : N :=
  if c =? 97 then 7 else if c =? 98 then 8 else if c =? 102 then 12
  else if c =? 110 then 10 else if c =? 114 then 13 else if c =? 116 then 9
  else if c =? 118 then 11 else c.

(* (found_escape, found_hex, found_digit, byte):
   ENone = (F,F,F,0)  EEsc = (T,F,F,0)  EHex = (T,T,F,0)  EHexD hi = (T,T,T,hi) *)
Inductive est := ENone | EEsc | EHex | EHexD (hi : N).

Definition push (c : N) (r : option (list N * list N)) : option (list N * list N) :=
  match r with
  | Some (p, rest) => Some (c :: p, rest)
  | None => None
  end.

(* returns (parts, unread input after the closing delimiter);
   None = LLSDParseError (read past end of buffer / bad hex digit) *)
Fixpoint parse_delim_st (delim : N) (st : est) (bs : list N) : option (list N * list N) :=
  match bs with
  | [] => None
  | c :: r =>
      match st with
      | EHexD hi =>
          match hex_nyb c with
          | Some lo => push (hi * 16 + lo) (parse_delim_st delim ENone r)
          | None => None
          end
      | EHex =>
          match hex_nyb c with
          | Some hi => parse_delim_st delim (EHexD hi) r
          | None => None
          end
      | EEsc =>
          if c =? 120 then parse_delim_st delim EHex r
          else push (unescape c) (parse_delim_st delim ENone r)
      | ENone =>
          if c =? BSL then parse_delim_st delim EEsc r
          else if c =? delim then Some ([], r)
          else push c (parse_delim_st delim ENone r)
      end
  end.

Definition parse_delim (delim : N) (bs : list N) : option (list N * list N) :=
  parse_delim_st delim ENone bs.

(* ... followed by parts.decode('utf-8'); a decode error is a parse error *)
Definition parse_delim_utf8 (delim : N) (bs : list N) : option (list N * list N) :=
  match parse_delim delim bs with
  | Some (p, r) => if utf8_valid p then Some (p, r) else None
  | None => None
  end.

(* LLSDNotationParser._parse_string on a quote-delimited string *)
Definition parse_not_string (bs : list N) : option (list N * list N) :=
  match bs with
  | c :: r => if (c =? SQ) || (c =? DQ) then parse_delim_utf8 c r else None
  | [] => None
  end.
