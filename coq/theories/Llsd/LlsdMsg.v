(* The packing table between template variables and LLSD:
   hippolyzer/lib/base/message/data_packer.py LLSDDataPacker.SPECS, applied by
   llsd_msg_serializer.py LLSDMessageSerializer.serialize/deserialize to every
   variable whose template type is in SPECS (all other variables are passed
   through unchanged).

   Message-side values:
     VInt z      int                  VReal b     float (64 IEEE bits)
     VVec l      Vector3 / Vector4    (component bits; the class is fixed by the template type)
     VQuat x y z Quaternion in wire form: W is derived from X,Y,Z by the constructor
                 (float arithmetic, not modelled); only X,Y,Z travel
     VUuid u     UUID                 VIp a       dotted-quad str, as its 4 octets
                                                  (socket.inet_aton/inet_ntoa are library functions)
     VBytes s    bytes                VText s     str (UTF-8)      VBool b   bool
   unpack is modelled on the shapes pack produces (and struct-level length
   checks); the Vector constructor called with the wrong number of components is outside
   the model.  Definitions only. *)
From Coq Require Import NArith ZArith List Bool.
From HV Require Import Base.Bytes Llsd.Llsd.
Import ListNotations.
Open Scope N_scope.

Inductive mvt :=
| MVT_FIXED | MVT_VARIABLE | MVT_U8 | MVT_U16 | MVT_U32 | MVT_U64 | MVT_S8 | MVT_S16 | MVT_S32 | MVT_S64
| MVT_F32 | MVT_F64 | MVT_LLVector3 | MVT_LLVector3d | MVT_LLVector4 | MVT_LLQuaternion | MVT_LLUUID
| MVT_BOOL | MVT_IP_ADDR | MVT_IP_PORT.

Inductive mval :=
| VInt (z : Z) | VReal (b : N) | VVec (l : list N) | VQuat (x y z : N) | VUuid (u : list N)
| VIp (a : list N) | VBytes (s : list N) | VText (s : list N) | VBool (b : bool).

(* tmpl_var.type in LLSDDataPacker.SPECS *)
Definition in_specs (t : mvt) : bool :=
  match t with
  | MVT_IP_ADDR | MVT_U32 | MVT_U64 | MVT_S64
  | MVT_LLVector3 | MVT_LLVector3d | MVT_LLVector4 | MVT_LLQuaternion => true
  | _ => false
  end.

(* a message value as the LLSD value it already is (no packing) *)
Definition embed (v : mval) : option llsd :=
  match v with
  | VInt z => Some (Int z)
  | VReal b => Some (Real b)
  | VUuid u => Some (Uuid u)
  | VBytes s => Some (Bin s)
  | VText s => Some (Str s)
  | VBool b => Some (Bool b)
  | VVec l => None
  | VQuat x y z => None
  | VIp a => None
  end.

(* struct.Struct(fmt).pack: None = struct.error *)
Definition pack_unsigned (n : nat) (z : Z) : option llsd :=
  if ((0 <=? z) && (z <? 2 ^ (8 * Z.of_nat n)))%Z then Some (Bin (be_bytes n (Z.to_N z))) else None.
Definition pack_signed (n : nat) (z : Z) : option llsd :=
  if ((- 2 ^ (8 * Z.of_nat n - 1) <=? z) && (z <? 2 ^ (8 * Z.of_nat n - 1)))%Z
  then Some (Bin (be_bytes n (of_signed n z))) else None.

(* LLSDDataPacker.pack(val, type) for type in SPECS *)
Definition pack (t : mvt) (v : mval) : option llsd :=
  match t, v with
  | MVT_IP_ADDR, VIp a => if (length a =? 4)%nat then Some (Bin a) else None
  | MVT_U32, VInt z => pack_unsigned 4 z
  | MVT_U64, VInt z => pack_unsigned 8 z
  | MVT_S64, VInt z => pack_signed 8 z
  | (MVT_LLVector3 | MVT_LLVector3d | MVT_LLVector4), VVec l => Some (Arr (map Real l))     (* list(x) *)
  | MVT_LLQuaternion, VQuat x y z => Some (Arr [Real x; Real y; Real z])                    (* list(x.data()[:3]) *)
  | _, _ => None
  end.

Fixpoint reals (l : list llsd) : option (list N) :=
  match l with
  | [] => Some []
  | Real b :: r => match reals r with Some bs => Some (b :: bs) | None => None end
  | _ :: _ => None
  end.

(* LLSDDataPacker.unpack(val, type) for type in SPECS *)
Definition unpack (t : mvt) (x : llsd) : option mval :=
  match t, x with
  | MVT_IP_ADDR, Bin a => if (length a =? 4)%nat then Some (VIp a) else None
  | MVT_U32, Bin a => if (length a =? 4)%nat then Some (VInt (Z.of_N (of_be a))) else None
  | MVT_U64, Bin a => if (length a =? 8)%nat then Some (VInt (Z.of_N (of_be a))) else None
  | MVT_S64, Bin a => if (length a =? 8)%nat then Some (VInt (to_signed 8 (of_be a))) else None
  | (MVT_LLVector3 | MVT_LLVector3d), Arr l =>
      if (length l =? 3)%nat then match reals l with Some bs => Some (VVec bs) | None => None end else None
  | MVT_LLVector4, Arr l =>
      if (length l =? 4)%nat then match reals l with Some bs => Some (VVec bs) | None => None end else None
  | MVT_LLQuaternion, Arr [Real x; Real y; Real z] => Some (VQuat x y z)
  | _, _ => None
  end.

(* the LLSD values the dict form carries back unchanged *)
Definition unembed (x : llsd) : option mval :=
  match x with
  | Int z => Some (VInt z)
  | Real b => Some (VReal b)
  | Uuid u => Some (VUuid u)
  | Bin s => Some (VBytes s)
  | Str s => Some (VText s)
  | Bool b => Some (VBool b)
  | _ => None
  end.

(* serialize / deserialize, one variable *)
Definition to_llsd_var (t : mvt) (v : mval) : option llsd :=
  if in_specs t then pack t v else embed v.
Definition of_llsd_var (t : mvt) (x : llsd) : option mval :=
  if in_specs t then unpack t x else unembed x.

(* a block: its variables in template order; a message body: its blocks *)
Fixpoint mapM2 {A B C} (f : A -> B -> option C) (l : list (A * B)) : option (list (A * C)) :=
  match l with
  | [] => Some []
  | (a, b) :: r =>
      match f a b, mapM2 f r with
      | Some c, Some cs => Some ((a, c) :: cs)
      | _, _ => None
      end
  end.

Definition to_llsd_block (b : list (mvt * mval)) : option (list (mvt * llsd)) := mapM2 to_llsd_var b.
Definition of_llsd_block (b : list (mvt * llsd)) : option (list (mvt * mval)) := mapM2 of_llsd_var b.

Fixpoint mapM {A B} (f : A -> option B) (l : list A) : option (list B) :=
  match l with
  | [] => Some []
  | a :: r => match f a, mapM f r with Some b, Some bs => Some (b :: bs) | _, _ => None end
  end.

Definition to_llsd_msg (m : list (list (mvt * mval))) := mapM to_llsd_block m.
Definition of_llsd_msg (m : list (list (mvt * llsd))) := mapM of_llsd_block m.

(* values a variable of the given template type holds (what the UDP codec
   produces and accepts) and that LLSD can carry *)
Definition conforms (t : mvt) (v : mval) : bool :=
  match t, v with
  | (MVT_FIXED | MVT_VARIABLE), (VBytes _ | VText _) => true
  | MVT_U8, VInt z => ((0 <=? z) && (z <? 256))%Z
  | MVT_U16, VInt z => ((0 <=? z) && (z <? 65536))%Z
  | MVT_IP_PORT, VInt z => ((0 <=? z) && (z <? 65536))%Z
  | MVT_U32, VInt z => ((0 <=? z) && (z <? 4294967296))%Z
  | MVT_U64, VInt z => ((0 <=? z) && (z <? 18446744073709551616))%Z
  | MVT_S8, VInt z => ((-128 <=? z) && (z <? 128))%Z
  | MVT_S16, VInt z => ((-32768 <=? z) && (z <? 32768))%Z
  | MVT_S32, VInt z => ((-2147483648 <=? z) && (z <? 2147483648))%Z
  | MVT_S64, VInt z => ((-9223372036854775808 <=? z) && (z <? 9223372036854775808))%Z
  | (MVT_F32 | MVT_F64), VReal _ => true
  | (MVT_LLVector3 | MVT_LLVector3d), VVec l => (length l =? 3)%nat
  | MVT_LLVector4, VVec l => (length l =? 4)%nat
  | MVT_LLQuaternion, VQuat _ _ _ => true
  | MVT_LLUUID, VUuid _ => true
  | MVT_BOOL, (VInt _ | VBool _) => true
  | MVT_IP_ADDR, VIp a => (length a =? 4)%nat
  | _, _ => false
  end.
