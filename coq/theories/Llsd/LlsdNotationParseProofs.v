(* parse_not (fmt_not v) = v for every well-formed value, with exact
   consumption.  Token-level inversions first, then the nested induction. *)
From Coq Require Import NArith ZArith List Bool Lia ZifyBool ZifyNat ZifyN DecimalPos.
From HV Require Import Base.Bytes Llsd.Llsd Llsd.LlsdString Llsd.LlsdStringProofs Llsd.LlsdBinary
  Llsd.LlsdBinaryProofs Llsd.LlsdNotation Llsd.LlsdNotationParse.
Import ListNotations.
Open Scope N_scope.

Ltac ndm := zify; Z.to_euclidean_division_equations; lia.

(* ---------- quoting: keys and URIs ---------- *)

Definition esc_q (d c : N) : list N :=
  if c =? BSL then [BSL; BSL] else if c =? d then [BSL; d] else [c].

Lemma esc_q_spec d c :
  (d =? 92) = false ->
  replace_byte d [BSL; d] (replace_byte BSL [BSL; BSL] [c]) = esc_q d c.
Proof.
  intros Hd. unfold esc_q, replace_byte, BSL. cbn [flat_map app].
  destruct (c =? 92) eqn:E1.
  - cbn [flat_map app]. rewrite N.eqb_sym, Hd. reflexivity.
  - cbn [flat_map app]. destruct (c =? d); reflexivity.
Qed.

Lemma quoted_esc d s :
  (d =? 92) = false ->
  replace_byte d [BSL; d] (replace_byte BSL [BSL; BSL] s) = flat_map (esc_q d) s.
Proof.
  intros Hd.
  assert (H : forall t, replace_byte BSL [BSL; BSL] t = flat_map (fun c => replace_byte BSL [BSL; BSL] [c]) t).
  { intros t. unfold replace_byte. apply flat_map_ext. intros a. cbn. now rewrite app_nil_r. }
  rewrite H, replace_byte_flat_map. apply flat_map_ext. intros c. now apply esc_q_spec.
Qed.

Lemma parse_esc_q d c s :
  d = 34 \/ d = 39 ->
  parse_delim_st d ENone (esc_q d c ++ s) = push c (parse_delim_st d ENone s).
Proof.
  intros Hd. unfold esc_q, BSL.
  destruct (c =? 92) eqn:E1.
  - apply N.eqb_eq in E1. subst c. destruct Hd; subst d; reflexivity.
  - destruct (c =? d) eqn:E2.
    + apply N.eqb_eq in E2. subst c. destruct Hd; subst d; reflexivity.
    + cbn [app parse_delim_st]. unfold BSL. rewrite E1, E2. reflexivity.
Qed.

Lemma parse_delim_esc_q d s rest :
  d = 34 \/ d = 39 ->
  parse_delim d (flat_map (esc_q d) s ++ d :: rest) = Some (s, rest).
Proof.
  intros Hd. unfold parse_delim.
  induction s as [|c s IH].
  - cbn [flat_map app parse_delim_st]. unfold BSL.
    replace (d =? 92) with false by (destruct Hd; subst d; reflexivity).
    now rewrite N.eqb_refl.
  - cbn [flat_map]. rewrite <- app_assoc, parse_esc_q, IH by exact Hd. reflexivity.
Qed.

Lemma key_roundtrip k rest :
  utf8_valid k = true -> parse_not_string (fmt_not_key k ++ rest) = Some (k, rest).
Proof.
  intros Hu. unfold fmt_not_key, base_not_string.
  rewrite quoted_esc by reflexivity.
  rewrite <- !app_assoc. cbn [app parse_not_string]. change (SQ =? SQ) with true. cbn [orb].
  unfold parse_delim_utf8.
  rewrite parse_delim_esc_q by (now right). now rewrite Hu.
Qed.

Lemma uri_body_roundtrip s rest :
  utf8_valid s = true ->
  exists body, fmt_not_uri s ++ rest = 108 :: body /\ parse_not_string body = Some (s, rest).
Proof.
  intros Hu. unfold fmt_not_uri. rewrite quoted_esc by reflexivity.
  rewrite <- !app_assoc. cbn [app].
  eexists. split; [reflexivity|].
  cbn [parse_not_string]. change (DQ =? SQ) with false. change (DQ =? DQ) with true. cbn [orb].
  unfold parse_delim_utf8.
  rewrite parse_delim_esc_q by (now left). now rewrite Hu.
Qed.

(* ---------- plain text (the date string) passes through the escape machine ---------- *)

Lemma plain_utf8 t : forallb plain_byte t = true -> utf8_valid t = true.
Proof.
  induction t as [|c t IH]; [reflexivity|].
  cbn [forallb]. intros H. apply andb_prop in H as [Hc Ht].
  unfold plain_byte in Hc. cbn [utf8_valid].
  replace (c <? 128) with true by lia. now apply IH.
Qed.

Lemma plain_delim t rest :
  forallb plain_byte t = true -> parse_delim DQ (t ++ DQ :: rest) = Some (t, rest).
Proof.
  unfold parse_delim. induction t as [|c t IH]; intros H.
  - reflexivity.
  - cbn [forallb] in H. apply andb_prop in H as [Hc Ht]. unfold plain_byte in Hc.
    cbn [app parse_delim_st]. unfold BSL, DQ in *.
    replace (c =? 92) with false by lia. replace (c =? 34) with false by lia.
    rewrite (IH Ht). reflexivity.
Qed.

Lemma date_body_roundtrip t rest :
  forallb plain_byte t = true -> parse_not_string (DQ :: t ++ DQ :: rest) = Some (t, rest).
Proof.
  intros H. cbn [parse_not_string]. change (DQ =? SQ) with false. change (DQ =? DQ) with true. cbn [orb].
  unfold parse_delim_utf8. rewrite plain_delim by exact H. now rewrite plain_utf8.
Qed.

(* ---------- what may follow a token ---------- *)

Lemma stop_not_digit rest : stopb rest = true ->
  match rest with [] => True | c :: _ => is_digit c = false end.
Proof. destruct rest as [|c r]; [trivial|]. unfold stopb, is_digit, in_rng. lia. Qed.

(* ---------- integers ---------- *)

Lemma span_uint_bytes d rest :
  match rest with [] => True | c :: _ => is_digit c = false end ->
  span_uint (uint_bytes d ++ rest) = (d, rest).
Proof.
  intros Hr. induction d; cbn [uint_bytes app span_uint];
    try (change (is_digit 48) with true; change (is_digit 49) with true; change (is_digit 50) with true;
         change (is_digit 51) with true; change (is_digit 52) with true; change (is_digit 53) with true;
         change (is_digit 54) with true; change (is_digit 55) with true; change (is_digit 56) with true;
         change (is_digit 57) with true; rewrite IHd; reflexivity).
  destruct rest as [|c r]; [reflexivity|]. cbn [span_uint]. now rewrite Hr.
Qed.

Lemma uint_bytes_head d : d <> Decimal.Nil ->
  exists c tl, uint_bytes d = c :: tl /\ is_digit c = true.
Proof. destruct d; intros H; try congruence; cbn [uint_bytes]; eexists; eexists; split; reflexivity. Qed.

Lemma to_uint_not_nil p : Pos.to_uint p <> Decimal.Nil.
Proof.
  intros H. pose proof (Unsigned.of_to p) as E. rewrite H in E. discriminate.
Qed.

Lemma scan_int_dec z rest :
  stopb rest = true -> scan_int (dec_z z ++ rest) = Some (z, rest).
Proof.
  intros Hs. apply stop_not_digit in Hs.
  destruct z as [|p|p]; cbn [dec_z].
  - unfold scan_int. cbn [app scan_sign]. change ((48 =? 43) || (48 =? 45)) with false. cbn iota.
    change (48 :: rest) with (uint_bytes (Decimal.D0 Decimal.Nil) ++ rest).
    rewrite span_uint_bytes by exact Hs. reflexivity.
  - unfold scan_int.
    destruct (uint_bytes_head _ (to_uint_not_nil p)) as [c [tl [Hc Hd]]].
    assert (Hsg : scan_sign (uint_bytes (Pos.to_uint p) ++ rest) = ([], uint_bytes (Pos.to_uint p) ++ rest)).
    { rewrite Hc. cbn [app scan_sign]. unfold is_digit, in_rng in Hd.
      replace ((c =? 43) || (c =? 45)) with false by lia. reflexivity. }
    rewrite Hsg, span_uint_bytes by exact Hs.
    pose proof (to_uint_not_nil p) as Hn. pose proof (Unsigned.of_to p) as E.
    destruct (Pos.to_uint p) eqn:Eu; try congruence;
      unfold N.of_uint; rewrite E; reflexivity.
  - unfold scan_int. cbn [app scan_sign]. change ((45 =? 43) || (45 =? 45)) with true. cbn iota.
    rewrite span_uint_bytes by exact Hs.
    pose proof (to_uint_not_nil p) as Hn. pose proof (Unsigned.of_to p) as E.
    destruct (Pos.to_uint p) eqn:Eu; try congruence;
      unfold N.of_uint; rewrite E; reflexivity.
Qed.

(* ---------- finite checks lifted to all bytes ---------- *)

Lemma forall_below (P : N -> bool) k :
  forallb P (map N.of_nat (seq 0 k)) = true -> forall n, n < N.of_nat k -> P n = true.
Proof.
  intros H n Hn. rewrite forallb_forall in H. apply H.
  apply in_map_iff. exists (N.to_nat n). split; [lia|]. apply in_seq. lia.
Qed.

(* ---------- uuid ---------- *)

Lemma hex_pair_ok b : b < 256 ->
  hex_nyb (hexd (b / 16)) = Some (b / 16) /\ hex_nyb (hexd (b mod 16)) = Some (b mod 16).
Proof.
  intros Hb.
  assert (H := forall_below
    (fun b => match hex_nyb (hexd (b / 16)), hex_nyb (hexd (b mod 16)) with
              | Some x, Some y => (x =? b / 16) && (y =? b mod 16)
              | _, _ => false end) 256 ltac:(vm_compute; reflexivity) b Hb).
  cbv beta in H.
  destruct (hex_nyb (hexd (b / 16))) as [x|]; [|discriminate].
  destruct (hex_nyb (hexd (b mod 16))) as [y|]; [|discriminate].
  apply andb_prop in H as [H1 H2]. apply N.eqb_eq in H1, H2. now subst.
Qed.

Lemma unhex_hex2 l : bytes_okb l = true -> unhex (flat_map hex2 l) = Some l.
Proof.
  induction l as [|b l IH]; intros H; [reflexivity|].
  rewrite bytes_okb_cons in H. apply andb_prop in H as [Hb Hl].
  assert (Hb' : b < 256) by lia.
  cbn [flat_map hex2 app unhex].
  destruct (hex_pair_ok b Hb') as [-> ->]. rewrite (IH Hl).
  f_equal. f_equal. pose proof (N.div_mod b 16 ltac:(lia)). lia.
Qed.

Lemma uuid_text_roundtrip u :
  length u = 16%nat -> bytes_okb u = true -> length (uuid_text u) = 36%nat /\ parse_uuid_text (uuid_text u) = Some u.
Proof.
  intros Hl Hb.
  do 16 (destruct u as [|? u]; [discriminate Hl|]). destruct u; [|discriminate Hl].
  split; [reflexivity|].
  unfold parse_uuid_text, uuid_text.
  cbn [firstn skipn flat_map hex2 app nth].
  change (45 =? 45) with true. cbn [andb].
  match goal with |- unhex ?t = _ =>
    change t with (flat_map hex2 [n; n0; n1; n2; n3; n4; n5; n6; n7; n8; n9; n10; n11; n12; n13; n14])
  end.
  now apply unhex_hex2.
Qed.

(* ---------- base64 ---------- *)

Lemma b64v_b64c n : n < 64 -> b64v (b64c n) = Some n /\ (b64c n =? 61) = false /\ (b64c n =? 34) = false.
Proof.
  intros Hn.
  assert (H := forall_below
    (fun n => match b64v (b64c n) with Some x => (x =? n) && negb (b64c n =? 61) && negb (b64c n =? 34) | None => false end)
    64 ltac:(vm_compute; reflexivity) n Hn).
  cbv beta in H. destruct (b64v (b64c n)) as [x|]; [|discriminate].
  apply andb_prop in H as [H H3]. apply andb_prop in H as [H1 H2].
  apply N.eqb_eq in H1. subst x. repeat split; lia.
Qed.

Lemma b64dec_b64_len k : forall s, (length s <= k)%nat -> bytes_okb s = true -> b64dec (b64 s) = Some s.
Proof.
  induction k as [|k IH]; intros s Hl Hb.
  - destruct s; [reflexivity|cbn in Hl; lia].
  - destruct s as [|a [|b [|c r]]].
    + reflexivity.
    + rewrite bytes_okb_cons in Hb. apply andb_prop in Hb as [Ha _]. assert (a < 256) by lia.
      cbn [b64 b64dec].
      destruct (b64v_b64c (a / 4) ltac:(ndm)) as [-> _].
      destruct (b64v_b64c (a mod 4 * 16) ltac:(ndm)) as [-> _].
      change ((61 =? 61) && (61 =? 61)) with true. cbn iota.
      f_equal. f_equal. ndm.
    + rewrite !bytes_okb_cons in Hb. apply andb_prop in Hb as [Ha Hb]. apply andb_prop in Hb as [Hb _].
      assert (a < 256) by lia. assert (b < 256) by lia.
      cbn [b64 b64dec].
      destruct (b64v_b64c (a / 4) ltac:(ndm)) as [-> _].
      destruct (b64v_b64c (a mod 4 * 16 + b / 16) ltac:(ndm)) as [-> _].
      destruct (b64v_b64c (b mod 16 * 4) ltac:(ndm)) as [-> [E61 _]].
      rewrite E61. cbn [andb]. change (61 =? 61) with true. cbn iota.
      f_equal. f_equal; [ndm|]. f_equal. ndm.
    + rewrite !bytes_okb_cons in Hb. apply andb_prop in Hb as [Ha Hb]. apply andb_prop in Hb as [Hb Hc].
      apply andb_prop in Hc as [Hc Hr].
      assert (a < 256) by lia. assert (b < 256) by lia. assert (c < 256) by lia.
      cbn [b64 b64dec].
      destruct (b64v_b64c (a / 4) ltac:(ndm)) as [-> _].
      destruct (b64v_b64c (a mod 4 * 16 + b / 16) ltac:(ndm)) as [-> _].
      destruct (b64v_b64c (b mod 16 * 4 + c / 64) ltac:(ndm)) as [-> [E61 _]].
      destruct (b64v_b64c (c mod 64) ltac:(ndm)) as [-> [E61' _]].
      rewrite E61. cbn [andb]. rewrite E61'.
      rewrite (IH r) by (try exact Hr; cbn [length] in Hl; lia).
      f_equal. f_equal; [ndm|]. f_equal; [ndm|]. f_equal. ndm.
Qed.

Lemma b64dec_b64 s : bytes_okb s = true -> b64dec (b64 s) = Some s.
Proof. apply (b64dec_b64_len (length s)). lia. Qed.

Lemma b64c_all n : exists m, m < 64 /\ b64c n = b64c m.
Proof.
  destruct (n <? 64) eqn:E; [exists n; split; [lia|reflexivity]|].
  exists 63. split; [lia|]. unfold b64c.
  replace (n <? 26) with false by lia. replace (n <? 52) with false by lia.
  replace (n <? 62) with false by lia. replace (n =? 62) with false by lia. reflexivity.
Qed.

Lemma b64_no_dq_len k : forall s, (length s <= k)%nat -> ~ In 34 (b64 s).
Proof.
  assert (Hc : forall n, b64c n <> 34).
  { intros n. destruct (b64c_all n) as [m [Hm ->]]. destruct (b64v_b64c m Hm) as [_ [_ H]]. lia. }
  induction k as [|k IH]; intros s Hl.
  - destruct s; [intros []|cbn in Hl; lia].
  - destruct s as [|a [|b [|c r]]]; cbn [b64]; intros H.
    + destruct H.
    + destruct H as [H|[H|[H|[H|[]]]]]; try discriminate; now apply Hc in H.
    + destruct H as [H|[H|[H|[H|[]]]]]; try discriminate; now apply Hc in H.
    + destruct H as [H|[H|[H|[H|H]]]]; try (now apply Hc in H).
      revert H. apply IH. cbn [length] in Hl. lia.
Qed.

Lemma get_until_app d t rest : ~ In d t -> get_until d (t ++ d :: rest) = Some (t, rest).
Proof.
  induction t as [|c t IH]; intros H.
  - cbn. now rewrite N.eqb_refl.
  - cbn [app get_until]. destruct (c =? d) eqn:E.
    + apply N.eqb_eq in E. subst. exfalso. apply H. now left.
    + rewrite IH; [reflexivity|]. intros Hi. apply H. now right.
Qed.

(* ---------- dict order: inserting fresh keys appends ---------- *)

Lemma nodup_step (acc : list (list N * llsd)) k v ks :
  keys_nodup (map fst acc ++ k :: ks) = true ->
  key_in k (map fst acc) = false /\ keys_nodup (map fst (acc ++ [(k, v)]) ++ ks) = true.
Proof.
  induction acc as [|[k0 v0] acc IHa]; intros Hnd.
  - cbn in *. split; [reflexivity|exact Hnd].
  - cbn [map fst app keys_nodup] in Hnd. apply andb_prop in Hnd as [H1 H2].
    destruct (IHa H2) as [Ha Hb]. split.
    + cbn [map fst key_in]. rewrite Ha.
      rewrite key_in_app in H1. cbn [key_in] in H1.
      rewrite beq_sym.
      destruct (beq k0 k); [|reflexivity].
      cbn in H1. rewrite orb_true_r in H1. discriminate.
    + cbn [map fst app keys_nodup]. rewrite Hb, andb_true_r.
      rewrite key_in_app in H1 |- *. rewrite map_app, key_in_app. cbn [map fst key_in] in *.
      destruct (key_in k0 (map fst acc)); [discriminate|].
      cbn [orb] in *. destruct (beq k0 k); [discriminate|]. cbn [orb] in *. exact H1.
Qed.

Lemma join_one sep (p : list N) : join sep [p] = p.
Proof. reflexivity. Qed.
Lemma join_more sep (p q : list N) r : join sep (p :: q :: r) = p ++ sep :: join sep (q :: r).
Proof. reflexivity. Qed.

Section RoundTrip.
  Variable rreal : N -> list N.
  Variable rdate : N -> list N.
  Variable preal : list N -> option N.
  Variable pdate : list N -> option N.
  (* lexical shape of the two library renderings *)
  Hypothesis real_scan : forall b rest, stopb rest = true -> scan_real (rreal b ++ rest) = Some (rreal b, rest).
  Hypothesis date_plain : forall b, forallb plain_byte (rdate b) = true.

  Notation fmt := (fmt_not rreal rdate).
  Notation pval := (parse_nval preal pdate).
  Notation pitems := (parse_nitems preal pdate).
  Notation pentries := (parse_nentries preal pdate).
  Notation ook := (oracles_ok rreal rdate preal pdate).

  (* one-step equations *)
  Lemma ni_close f acc r : pitems (S f) acc (93 :: r) = Some (Arr acc, r).
  Proof. reflexivity. Qed.
  Lemma ni_sep f acc r : pitems (S f) acc (44 :: r) = pitems f acc r.
  Proof. reflexivity. Qed.
  Lemma ni_val f acc c r :
    (c =? 93) = false -> (is_space c || (c =? 44)) = false ->
    pitems (S f) acc (c :: r) =
    match pval f (c :: r) with Some (v, r1) => pitems f (acc ++ [v]) r1 | None => None end.
  Proof. intros H1 H2. cbn [parse_nitems]. now rewrite H1, H2. Qed.
  Lemma ne_close f key acc r : pentries (S f) key acc (125 :: r) = Some (Map acc, r).
  Proof. reflexivity. Qed.
  Lemma ne_sep f acc r : pentries (S f) None acc (44 :: r) = pentries f None acc r.
  Proof. reflexivity. Qed.
  Lemma ne_key f acc r :
    pentries (S f) None acc (39 :: r) =
    match parse_not_string (39 :: r) with Some (k, r1) => pentries f (Some k) acc r1 | None => None end.
  Proof. reflexivity. Qed.
  Lemma ne_colon f k acc r :
    pentries (S f) (Some k) acc (58 :: r) =
    match pval f r with Some (v, r1) => pentries f None (map_set k v acc) r1 | None => None end.
  Proof. reflexivity. Qed.

  Lemma fmt_head v : exists t tl, fmt v = t :: tl
    /\ (t =? 93) = false /\ (is_space t || (t =? 44)) = false.
  Proof.
    destruct v as [| [|] | z | b | s | u | b | s | s | l | m]; cbn [fmt_not];
      try (eexists; eexists; split; [reflexivity|split; reflexivity]).
    all: try rewrite fmt_not_string_esc; try (unfold fmt_not_uri; cbn [app]);
      eexists; eexists; split; [reflexivity|split; reflexivity].
  Qed.

  Fixpoint nsz (v : llsd) : nat :=
    match v with
    | Arr l => 2 + fold_right (fun x a => 2 + nsz x + a)%nat 0%nat l
    | Map m => 2 + fold_right (fun kv a => match kv with (_, x) => 4 + nsz x + a end)%nat 0%nat m
    | _ => 1
    end.
  Definition items_n (l : list llsd) : nat := fold_right (fun x a => 2 + nsz x + a)%nat 0%nat l.
  Definition entries_n (m : list (list N * llsd)) : nat :=
    fold_right (fun kv a => match kv with (_, x) => 4 + nsz x + a end)%nat 0%nat m.

  Definition nrt_at (v : llsd) : Prop :=
    wfn v = true -> ook v = true -> forall fuel rest, stopb rest = true -> (nsz v <= fuel)%nat ->
    pval fuel (fmt v ++ rest) = Some (v, rest).

  Lemma nitems_rt l :
    Forall nrt_at l -> forallb wfn l = true -> forallb ook l = true ->
    forall fuel acc rest, (1 + items_n l <= fuel)%nat ->
      pitems fuel acc (join 44 (map fmt l) ++ 93 :: rest) = Some (Arr (acc ++ l), rest).
  Proof.
    induction 1 as [|x l Hx Hl IH]; intros Hwf Hok fuel acc rest Hf.
    - destruct fuel as [|f]; [cbn in Hf; lia|]. cbn [map join app]. rewrite ni_close. now rewrite app_nil_r.
    - cbn [forallb] in Hwf, Hok. apply andb_prop in Hwf as [Hwx Hwl]. apply andb_prop in Hok as [Hox Hol].
      unfold items_n in Hf. cbn [fold_right] in Hf. fold (items_n l) in Hf.
      destruct fuel as [|f]; [lia|].
      destruct (fmt_head x) as [t [tl [Ht [H93 Hsp]]]].
      cbn [map]. destruct l as [|y l'].
      + cbn [map]. rewrite join_one, Ht. cbn [app]. rewrite ni_val by assumption.
        change (t :: tl ++ 93 :: rest) with ((t :: tl) ++ 93 :: rest). rewrite <- Ht.
        rewrite (Hx Hwx Hox) by (try reflexivity; lia).
        destruct f as [|f']; [lia|]. rewrite ni_close. reflexivity.
      + cbn [map]. rewrite join_more, <- app_assoc, Ht. cbn [app]. rewrite ni_val by assumption.
        change (t :: tl ++ 44 :: ?z) with ((t :: tl) ++ 44 :: z). rewrite <- Ht.
        rewrite (Hx Hwx Hox) by (try reflexivity; lia).
        destruct f as [|f']; [lia|]. rewrite ni_sep.
        change (fmt y :: map fmt l') with (map fmt (y :: l')).
        rewrite (IH Hwl Hol) by lia. now rewrite <- app_assoc.
  Qed.

  Definition fmt_nentry (kv : list N * llsd) : list N :=
    match kv with (k, x) => fmt_not_key k ++ 58 :: fmt x end.

  Lemma fmt_not_key_head k : exists tl, fmt_not_key k = 39 :: tl.
  Proof. unfold fmt_not_key, base_not_string. cbn [app]. eexists. reflexivity. Qed.

  Lemma nentries_rt m :
    Forall (fun kv => nrt_at (snd kv)) m ->
    forallb (fun kv => utf8_valid (fst kv) && wfn (snd kv)) m = true ->
    forallb (fun kv => ook (snd kv)) m = true ->
    forall fuel acc rest, (1 + entries_n m <= fuel)%nat ->
      keys_nodup (map fst acc ++ map fst m) = true ->
      pentries fuel None acc (join 44 (map fmt_nentry m) ++ 125 :: rest) = Some (Map (acc ++ m), rest).
  Proof.
    induction 1 as [|[k x] m Hx Hm IH]; intros Hwf Hok fuel acc rest Hf Hnd.
    - destruct fuel as [|f]; [cbn in Hf; lia|]. cbn [map join app]. rewrite ne_close. now rewrite app_nil_r.
    - cbn [forallb fst snd] in Hwf, Hok. apply andb_prop in Hwf as [Hw1 Hwm]. apply andb_prop in Hw1 as [Huk Hwx].
      apply andb_prop in Hok as [Hox Hom]. cbn [snd] in Hx.
      unfold entries_n in Hf. cbn [fold_right] in Hf. fold (entries_n m) in Hf.
      cbn [map fst] in Hnd.
      destruct (nodup_step acc k x _ Hnd) as [Hfr Hnd'].
      destruct fuel as [|f]; [lia|]. destruct f as [|f1]; [lia|]. destruct f1 as [|f2]; [lia|].
      destruct (fmt_not_key_head k) as [ktl Hk].
      assert (Hstep : forall tail, stopb tail = true ->
                pentries (S (S (S f2))) None acc (fmt_nentry (k, x) ++ tail)
                = pentries (S f2) None (acc ++ [(k, x)]) tail).
      { intros tail Hst. cbn [fmt_nentry]. rewrite <- app_assoc. rewrite Hk. cbn [app]. rewrite ne_key.
        change (39 :: ktl ++ 58 :: fmt x ++ tail) with ((39 :: ktl) ++ 58 :: fmt x ++ tail).
        rewrite <- Hk. rewrite key_roundtrip by exact Huk.
        rewrite ne_colon.
        rewrite (Hx Hwx Hox) by (try exact Hst; lia).
        now rewrite map_set_fresh by exact Hfr. }
      cbn [map]. destruct m as [|kv' m'].
      + cbn [map]. rewrite join_one, Hstep by reflexivity. rewrite ne_close. reflexivity.
      + cbn [map]. rewrite join_more, <- app_assoc, Hstep by reflexivity.
        cbn [app]. destruct f2 as [|f3]; [lia|]. rewrite ne_sep.
        change (fmt_nentry kv' :: map fmt_nentry m') with (map fmt_nentry (kv' :: m')).
        rewrite (IH Hwm Hom) by (try exact Hnd'; lia). now rewrite <- app_assoc.
  Qed.

  Lemma map_fmt_nentry m :
    map (fun kv => match kv with (k, x) => fmt_not_key k ++ 58 :: fmt x end) m = map fmt_nentry m.
  Proof. reflexivity. Qed.

  Theorem parse_fmt_not v : nrt_at v.
  Proof.
    induction v using llsd_rect'; unfold nrt_at; intros Hwf Hok fuel rest Hst Hf;
      (destruct fuel as [|f]; [cbn in Hf; lia|]); cbn [fmt_not].
    - reflexivity.
    - destruct b; reflexivity.
    - cbn [app]. cbn [parse_nval]. change (105 =? 123) with false.
      cbv beta iota. change (parse_nval preal pdate (S f) (105 :: dec_z z ++ rest))
        with (match scan_int (dec_z z ++ rest) with Some (z0, r1) => Some (Int z0, r1) | None => None end).
      now rewrite scan_int_dec.
    - cbn [app].
      change (pval (S f) (114 :: rreal b ++ rest))
        with (match scan_real (rreal b ++ rest) with
              | Some (t, r1) => match preal t with Some b0 => Some (Real b0, r1) | None => None end
              | None => None end).
      rewrite real_scan by exact Hst. cbn [oracles_ok] in Hok.
      destruct (preal (rreal b)) as [b'|]; [|discriminate]. apply N.eqb_eq in Hok. now subst.
    - change (pval (S f) (fmt_not_string s ++ rest))
        with (match fmt_not_string s ++ rest with
              | [] => None
              | c :: r => pval (S f) (c :: r) end).
      rewrite fmt_not_string_esc. cbn [app].
      change (pval (S f) (SQ :: (flat_map esc_byte s ++ [SQ]) ++ rest))
        with (match parse_not_string (SQ :: (flat_map esc_byte s ++ [SQ]) ++ rest) with
              | Some (s0, r1) => Some (Str s0, r1) | None => None end).
      change (SQ :: (flat_map esc_byte s ++ [SQ]) ++ rest) with ((SQ :: flat_map esc_byte s ++ [SQ]) ++ rest).
      rewrite <- fmt_not_string_esc. cbn [wfn] in Hwf. now rewrite not_string_roundtrip.
    - cbn [app wfn] in *. apply andb_prop in Hwf as [Hl Hb]. apply Nat.eqb_eq in Hl.
      destruct (uuid_text_roundtrip u Hl Hb) as [Hlen Hp].
      change (pval (S f) (117 :: uuid_text u ++ rest))
        with (match take 36 (uuid_text u ++ rest) with
              | Some (t, r1) => match parse_uuid_text t with Some u0 => Some (Uuid u0, r1) | None => None end
              | None => None end).
      rewrite (take_app_n 36) by exact Hlen. now rewrite Hp.
    - rewrite <- !app_assoc. cbn [app].
      change (pval (S f) (100 :: DQ :: rdate b ++ DQ :: rest))
        with (match parse_not_string (DQ :: rdate b ++ DQ :: rest) with
              | Some (s, r1) => match pdate s with Some b0 => Some (Date b0, r1) | None => None end
              | None => None end).
      rewrite date_body_roundtrip by apply date_plain. cbn [oracles_ok] in Hok.
      destruct (pdate (rdate b)) as [b'|]; [|discriminate]. apply N.eqb_eq in Hok. now subst.
    - cbn [wfn] in Hwf. destruct (uri_body_roundtrip s rest Hwf) as [body [Hb Hp]].
      rewrite Hb.
      change (pval (S f) (108 :: body))
        with (match parse_not_string body with Some (s0, r1) => Some (Uri s0, r1) | None => None end).
      now rewrite Hp.
    - rewrite <- !app_assoc. cbn [app wfn] in *.
      change (pval (S f) (98 :: 54 :: 52 :: DQ :: b64 s ++ DQ :: rest))
        with (match get_until 34 (b64 s ++ 34 :: rest) with
              | Some (enc, r2) => match b64dec enc with Some s0 => Some (Bin s0, r2) | None => None end
              | None => None end).
      rewrite get_until_app by (apply (b64_no_dq_len (length s)); lia).
      now rewrite b64dec_b64.
    - (* Arr *)
      rewrite <- !app_assoc. cbn [app wfn oracles_ok nsz] in *.
      change (pval (S f) (91 :: join 44 (map fmt l) ++ 93 :: rest))
        with (pitems f [] (join 44 (map fmt l) ++ 93 :: rest)).
      rewrite (nitems_rt l H Hwf Hok) by (unfold items_n; lia). reflexivity.
    - (* Map *)
      rewrite <- !app_assoc. cbn [app wfn oracles_ok nsz] in *.
      apply andb_prop in Hwf as [Hnd Hwf].
      rewrite map_fmt_nentry.
      change (pval (S f) (123 :: join 44 (map fmt_nentry m) ++ 125 :: rest))
        with (pentries f None [] (join 44 (map fmt_nentry m) ++ 125 :: rest)).
      rewrite (nentries_rt m H Hwf Hok) by (try exact Hnd; unfold entries_n; lia). reflexivity.
  Qed.
  (* ---------- the fuel computed from the input length is enough ---------- *)

  Lemma join_len_ge sep (parts : list (list N)) :
    (fold_right (fun p a => length p + a) 0 parts <= length (join sep parts))%nat.
  Proof.
    induction parts as [|p r IH]; [cbn; lia|].
    destruct r as [|q r].
    - cbn. lia.
    - rewrite join_more, app_length. cbn [fold_right length] in *. lia.
  Qed.

  Lemma nsz_le_len v : (nsz v + 2 <= 4 * length (fmt v))%nat.
  Proof.
    induction v using llsd_rect';
      try (match goal with |- (nsz ?w + 2 <= _)%nat =>
             destruct (fmt_head w) as [t [tl [Ht _]]]; rewrite Ht; cbn [nsz length]; lia end).
    - cbn [fmt_not nsz]. rewrite !app_length. cbn [length].
      pose proof (join_len_ge 44 (map fmt l)) as Hj.
      assert (Hs : (fold_right (fun x a => 2 + nsz x + a) 0 l
                    <= 4 * fold_right (fun p a => length p + a) 0 (map fmt l))%nat).
      { clear Hj. induction H as [|x l Hx Hl IH]; [cbn; lia|]. cbn [fold_right map]. lia. }
      lia.
    - cbn [fmt_not nsz]. rewrite !app_length. cbn [length]. rewrite map_fmt_nentry.
      pose proof (join_len_ge 44 (map fmt_nentry m)) as Hj.
      assert (Hs : (fold_right (fun kv a => match kv with (_, x) => 4 + nsz x + a end) 0 m
                    <= 4 * fold_right (fun p a => length p + a) 0 (map fmt_nentry m))%nat).
      { clear Hj. induction H as [|[k x] m Hx Hm IH]; [cbn; lia|].
        cbn [fold_right map fmt_nentry snd] in *. rewrite app_length. cbn [length].
        destruct (fmt_not_key_head k) as [ktl ->]. cbn [length]. lia. }
      lia.
  Qed.

  Theorem parse_not_rest_fmt v rest :
    wfn v = true -> ook v = true -> stopb rest = true ->
    parse_not_rest preal pdate (fmt v ++ rest) = Some (v, rest).
  Proof.
    intros Hw Ho Hs. unfold parse_not_rest.
    destruct (fmt_head v) as [t [tl [Ht _]]].
    destruct (fmt v ++ rest) as [|c r] eqn:E; [rewrite Ht in E; discriminate|].
    rewrite <- E. apply parse_fmt_not; try assumption.
    unfold nfuel_of. rewrite app_length. pose proof (nsz_le_len v). lia.
  Qed.

  Theorem parse_not_fmt v :
    wfn v = true -> ook v = true -> parse_not preal pdate (fmt v) = Some v.
  Proof.
    intros Hw Ho. unfold parse_not.
    rewrite <- (app_nil_r (fmt v)), parse_not_rest_fmt by (try assumption; reflexivity). reflexivity.
  Qed.
End RoundTrip.
