(* The notation parser: llsd/serde_notation.py LLSDNotationParser (Hippolyzer's
   parse_notation calls it unchanged): parse, _parse, _parse_map, _parse_array,
   _parse_uuid, _parse_uri, _parse_date, _parse_real, _parse_integer,
   _parse_string, _parse_binary, _get_re, _get_until, _skip_then.

   The model is a *partial* function refined by the implementation: a result
   Some (v, rest) means the implementation returns v and has consumed all but
   rest; None means either LLSDParseError or an input form left outside the
   model.  Outside the model (the formatter never emits them):
     - the sized forms s(size)'...' and b(size)''...'',
     - UUID spellings other than 8-4-4-4-12 hex digits (uuid.UUID(hex=) also
       accepts braces, urn:uuid:, underscores ...),
     - base64/base16 text that is not canonical (b64decode silently skips
       foreign characters), a missing closing quote of b64''...
   float(text) and _parse_datestr(text) are library functions: the parser takes
   them as the two functions [preal] (bytes matched by _real_regex -> float
   bits) and [pdate] (date string -> timestamp bits).  The lexers (which bytes
   _int_regex / _real_regex / _true_regex / _false_regex match) are modelled
   exactly.  Definitions only. *)
From Coq Require Import NArith ZArith List Bool.
From HV Require Import Base.Bytes Llsd.Llsd Llsd.LlsdString Llsd.LlsdBinary.
Import ListNotations.
Open Scope N_scope.

Definition is_digit (c : N) : bool := in_rng 48 57 c.
Definition is_space (c : N) : bool := (c =? 32) || in_rng 9 13 c.     (* bytes.isspace() *)
Definition is_word (c : N) : bool :=                                   (* \w for bytes patterns *)
  is_digit c || in_rng 65 90 c || in_rng 97 122 c || (c =? 95).

(* ---------- lexers ---------- *)

Fixpoint span_digits (bs : list N) : list N * list N :=
  match bs with
  | c :: r => if is_digit c then let (d, r') := span_digits r in (c :: d, r') else ([], bs)
  | [] => ([], [])
  end.

(* [-+]? *)
Definition scan_sign (bs : list N) : list N * list N :=
  match bs with
  | c :: r => if (c =? 43) || (c =? 45) then ([c], r) else ([], bs)
  | [] => ([], [])
  end.

Definition digit_cons (c : N) (u : Decimal.uint) : Decimal.uint :=
  if c =? 48 then Decimal.D0 u else if c =? 49 then Decimal.D1 u else if c =? 50 then Decimal.D2 u
  else if c =? 51 then Decimal.D3 u else if c =? 52 then Decimal.D4 u else if c =? 53 then Decimal.D5 u
  else if c =? 54 then Decimal.D6 u else if c =? 55 then Decimal.D7 u else if c =? 56 then Decimal.D8 u
  else Decimal.D9 u.

(* a run of digits read as a decimal numeral *)
Fixpoint span_uint (bs : list N) : Decimal.uint * list N :=
  match bs with
  | c :: r => if is_digit c then let (u, r') := span_uint r in (digit_cons c u, r') else (Decimal.Nil, bs)
  | [] => (Decimal.Nil, [])
  end.

(* int(_get_re(_int_regex)): optional sign, at least one digit *)
Definition scan_int (bs : list N) : option (Z * list N) :=
  let (s, r) := scan_sign bs in
  let (u, r1) := span_uint r in
  match u with
  | Decimal.Nil => None
  | _ => let n := Z.of_N (N.of_uint u) in
         Some (match s with [45] => (- n)%Z | _ => n end, r1)
  end.

(* mantissa of _real_regex: digits with an optional fraction, or a fraction with at least one digit *)
Definition scan_mant (bs : list N) : option (list N * list N) :=
  let (d, r) := span_digits bs in
  match d with
  | _ :: _ =>
      match r with
      | c :: r1 => if c =? 46 then let (d2, r2) := span_digits r1 in Some (d ++ 46 :: d2, r2) else Some (d, r)
      | [] => Some (d, r)
      end
  | [] =>
      match r with
      | c :: r1 =>
          if c =? 46 then
            let (d2, r2) := span_digits r1 in
            match d2 with [] => None | _ => Some (46 :: d2, r2) end
          else None
      | [] => None
      end
  end.

(* optional exponent of _real_regex: e or E, optional sign, at least one digit *)
Definition scan_exp (bs : list N) : list N * list N :=
  match bs with
  | c :: r =>
      if (c =? 101) || (c =? 69) then
        let (s, r1) := scan_sign r in
        let (d, r2) := span_digits r1 in
        match d with [] => ([], bs) | _ => (c :: s ++ d, r2) end
      else ([], bs)
  | [] => ([], [])
  end.

(* _real_regex: sign? mantissa exponent?  |  sign? inf  |  sign? nan : the bytes re.match consumes *)
Definition scan_real (bs : list N) : option (list N * list N) :=
  let (s, r) := scan_sign bs in
  match scan_mant r with
  | Some (m, r1) => let (e, r2) := scan_exp r1 in Some (s ++ m ++ e, r2)
  | None =>
      if starts_with [105; 110; 102] r then Some (s ++ [105; 110; 102], skipn 3 r)
      else if starts_with [110; 97; 110] r then Some (s ++ [110; 97; 110], skipn 3 r)
      else None
  end.

(* _get_re with _true_regex = TRUE|true|\b[Tt]\b (resp. false); the first byte is
   already known to be T/t (F/f) from the dispatch; returns the unread rest *)
Definition scan_kw (upper lower : list N) (bs : list N) : option (list N) :=
  if starts_with upper bs then Some (skipn (length upper) bs)
  else if starts_with lower bs then Some (skipn (length lower) bs)
  else match bs with
       | _ :: r => match r with
                   | [] => Some r
                   | c2 :: _ => if is_word c2 then None else Some r
                   end
       | [] => None
       end.

Definition KW_TRUE_U : list N := [84; 82; 85; 69].
Definition KW_TRUE_L : list N := [116; 114; 117; 101].
Definition KW_FALSE_U : list N := [70; 65; 76; 83; 69].
Definition KW_FALSE_L : list N := [102; 97; 108; 115; 101].

(* _get_until(delim): None when the delimiter does not occur *)
Fixpoint get_until (d : N) (bs : list N) : option (list N * list N) :=
  match bs with
  | [] => None
  | c :: r => if c =? d then Some ([], r)
              else match get_until d r with Some (t, r') => Some (c :: t, r') | None => None end
  end.

(* ---------- uuid, base16, base64 ---------- *)

Fixpoint unhex (bs : list N) : option (list N) :=
  match bs with
  | [] => Some []
  | h :: l :: r =>
      match hex_nyb h, hex_nyb l, unhex r with
      | Some a, Some b, Some t => Some (a * 16 + b :: t)
      | _, _, _ => None
      end
  | _ => None
  end.

(* the 36 bytes after 'u', canonical 8-4-4-4-12 spelling only *)
Definition parse_uuid_text (t : list N) : option (list N) :=
  if (nth 8 t 0 =? 45) && (nth 13 t 0 =? 45) && (nth 18 t 0 =? 45) && (nth 23 t 0 =? 45) then
    unhex (firstn 8 t ++ firstn 4 (skipn 9 t) ++ firstn 4 (skipn 14 t) ++ firstn 4 (skipn 19 t) ++ skipn 24 t)
  else None.

(* base64.b16decode: upper-case digits only *)
Definition hex_nyb_upper (c : N) : option N :=
  if in_rng 48 57 c then Some (c - 48) else if in_rng 65 70 c then Some (10 + c - 65) else None.
Fixpoint b16dec (bs : list N) : option (list N) :=
  match bs with
  | [] => Some []
  | h :: l :: r =>
      match hex_nyb_upper h, hex_nyb_upper l, b16dec r with
      | Some a, Some b, Some t => Some (a * 16 + b :: t)
      | _, _, _ => None
      end
  | _ => None
  end.

Definition b64v (c : N) : option N :=
  if in_rng 65 90 c then Some (c - 65)
  else if in_rng 97 122 c then Some (c - 71)
  else if in_rng 48 57 c then Some (c + 4)
  else if c =? 43 then Some 62
  else if c =? 47 then Some 63
  else None.

(* canonical base64: full quads of alphabet characters, padding in the last quad only *)
Fixpoint b64dec (s : list N) : option (list N) :=
  match s with
  | [] => Some []
  | a :: b :: c :: d :: r =>
      match b64v a, b64v b with
      | Some x0, Some x1 =>
          if (c =? 61) && (d =? 61) then
            match r with [] => Some [x0 * 4 + x1 / 16] | _ => None end
          else
            match b64v c with
            | Some x2 =>
                if d =? 61 then
                  match r with [] => Some [x0 * 4 + x1 / 16; (x1 mod 16) * 16 + x2 / 4] | _ => None end
                else
                  match b64v d, b64dec r with
                  | Some x3, Some t =>
                      Some (x0 * 4 + x1 / 16 :: (x1 mod 16) * 16 + x2 / 4 :: (x2 mod 4) * 64 + x3 :: t)
                  | _, _ => None
                  end
            | None => None
            end
      | _, _ => None
      end
  | _ => None
  end.

(* ---------- the parser ---------- *)

Section Parse.
  Variable preal : list N -> option N.
  Variable pdate : list N -> option N.

  (* _parse_binary after the 'b' *)
  Definition parse_nbin (r : list N) : option (llsd * list N) :=
    match r with
    | b1 :: b2 :: q :: r1 =>
        if b1 =? 40 then None                                  (* b(size): outside the model *)
        else if q =? 34 then
          match get_until 34 r1 with
          | Some (enc, r2) =>
              if (b1 =? 54) && (b2 =? 52) then
                match b64dec enc with Some s => Some (Bin s, r2) | None => None end
              else if (b1 =? 49) && (b2 =? 54) then
                match b16dec enc with Some s => Some (Bin s, r2) | None => None end
              else None
          | None => None
          end
        else None
    | _ => None
    end.

  (* One unit of fuel per call.  [parse_nitems] is the loop of _parse_array
     ([acc] = rv); [parse_nentries] the loop of _parse_map ([key] = Some k iff
     found_key, [acc] = rv). *)
  Fixpoint parse_nval (fuel : nat) (bs : list N) : option (llsd * list N) :=
    match fuel with
    | O => None
    | S f =>
        match bs with
        | [] => None
        | c :: r =>
            if c =? 123 then parse_nentries f None [] r
            else if c =? 91 then parse_nitems f [] r
            else if c =? 33 then Some (Undef, r)
            else if c =? 48 then Some (Bool false, r)
            else if c =? 49 then Some (Bool true, r)
            else if (c =? 70) || (c =? 102) then
              match scan_kw KW_FALSE_U KW_FALSE_L bs with Some r1 => Some (Bool false, r1) | None => None end
            else if (c =? 84) || (c =? 116) then
              match scan_kw KW_TRUE_U KW_TRUE_L bs with Some r1 => Some (Bool true, r1) | None => None end
            else if c =? 105 then
              match scan_int r with Some (z, r1) => Some (Int z, r1) | None => None end
            else if c =? 114 then
              match scan_real r with
              | Some (t, r1) => match preal t with Some b => Some (Real b, r1) | None => None end
              | None => None
              end
            else if c =? 117 then
              match take 36 r with
              | Some (t, r1) => match parse_uuid_text t with Some u => Some (Uuid u, r1) | None => None end
              | None => None
              end
            else if (c =? 39) || (c =? 34) then
              match parse_not_string bs with Some (s, r1) => Some (Str s, r1) | None => None end
            else if c =? 108 then
              match parse_not_string r with Some (s, r1) => Some (Uri s, r1) | None => None end
            else if c =? 100 then
              match parse_not_string r with
              | Some (s, r1) => match pdate s with Some b => Some (Date b, r1) | None => None end
              | None => None
              end
            else if c =? 98 then parse_nbin r
            else None                 (* 's' sized strings: outside the model; anything else: invalid token *)
        end
    end
  with parse_nitems (fuel : nat) (acc : list llsd) (bs : list N) : option (llsd * list N) :=
    match fuel with
    | O => None
    | S f =>
        match bs with
        | [] => None
        | c :: r =>
            if c =? 93 then Some (Arr acc, r)
            else if is_space c || (c =? 44) then parse_nitems f acc r
            else match parse_nval f bs with
                 | Some (v, r1) => parse_nitems f (acc ++ [v]) r1
                 | None => None
                 end
        end
    end
  with parse_nentries (fuel : nat) (key : option (list N)) (acc : list (list N * llsd)) (bs : list N)
    : option (llsd * list N) :=
    match fuel with
    | O => None
    | S f =>
        match bs with
        | [] => None
        | c :: r =>
            if c =? 125 then Some (Map acc, r)
            else
              match key with
              | None =>
                  if (c =? 39) || (c =? 34) then
                    match parse_not_string bs with
                    | Some (k, r1) => parse_nentries f (Some k) acc r1
                    | None => None
                    end
                  else if c =? 115 then None                 (* s(size) key: outside the model *)
                  else if is_space c || (c =? 44) then parse_nentries f None acc r
                  else None                                  (* Invalid map key *)
              | Some k =>
                  if is_space c then parse_nentries f key acc r
                  else if c =? 58 then
                    match parse_nval f r with
                    | Some (v, r1) => parse_nentries f None (map_set k v acc) r1
                    | None => None
                    end
                  else None                                  (* missing separator *)
              end
        end
    end.

  Definition nfuel_of (bs : list N) : nat := 4 * length bs + 4.

  (* LLSDNotationParser.parse: value and unread rest *)
  Definition parse_not_rest (bs : list N) : option (llsd * list N) :=
    match bs with
    | [] => Some (Bool false, [])          (* if buffer == b'': return False *)
    | _ => parse_nval (nfuel_of bs) bs
    end.

  Definition parse_not (bs : list N) : option llsd :=
    match parse_not_rest bs with Some (v, _) => Some v | None => None end.
End Parse.

(* well-formed for notation: what the formatter accepts and the text can carry
   (integers are unbounded in notation) *)
Fixpoint wfn (v : llsd) : bool :=
  match v with
  | Str s | Uri s => utf8_valid s
  | Uuid u => (length u =? 16)%nat && bytes_okb u
  | Bin s => bytes_okb s
  | Arr l => forallb wfn l
  | Map m => keys_nodup (map fst m) && forallb (fun kv => utf8_valid (fst kv) && wfn (snd kv)) m
  | _ => true
  end.

(* the library oracles agree on the reals and dates of this value:
   float(repr(x)) == x bit for bit (false for NaN payloads) and
   _parse_datestr(_format_datestr(d)) == d (false for the microsecond
   truncation recorded as a known finding) *)
Section Oracles.
  Variable rreal : N -> list N.
  Variable rdate : N -> list N.
  Variable preal : list N -> option N.
  Variable pdate : list N -> option N.

  Fixpoint oracles_ok (v : llsd) : bool :=
    match v with
    | Real b => match preal (rreal b) with Some b' => b' =? b | None => false end
    | Date b => match pdate (rdate b) with Some b' => b' =? b | None => false end
    | Arr l => forallb oracles_ok l
    | Map m => forallb (fun kv => oracles_ok (snd kv)) m
    | _ => true
    end.
End Oracles.

(* vocabulary of the round-trip theorem *)

(* the date string contains ASCII only and neither quote nor backslash *)
Definition plain_byte (c : N) : bool := (c <? 128) && negb (c =? 34) && negb (c =? 92).

(* what may follow a value for the parser to stop exactly there: nothing, or a
   separator / closer (a digit after i5 would extend the integer) *)
Definition stopb (rest : list N) : bool :=
  match rest with
  | [] => true
  | c :: _ => (c =? 44) || (c =? 93) || (c =? 125)
  end.
