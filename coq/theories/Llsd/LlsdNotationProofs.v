(* No raw newline in notation output: for every value whose map keys and URIs
   are newline-free (whatever its strings contain), under the assumption that
   the two library renderings repr(float) and isoformat() contain none. *)
From Coq Require Import NArith ZArith List Bool Lia ZifyBool ZifyNat ZifyN.
From HV Require Import Llsd.Llsd Llsd.LlsdString Llsd.LlsdStringProofs Llsd.LlsdNotation.
Import ListNotations.
Open Scope N_scope.

Lemma in_replace_byte x p r s : In x (replace_byte p r s) -> In x r \/ In x s.
Proof.
  unfold replace_byte. intros H. apply in_flat_map in H as [c [Hc Hx]].
  destruct (c =? p); [now left|]. destruct Hx as [<-|[]]. now right.
Qed.

Lemma nl_free_in s : nl_free s = true -> ~ In NL s.
Proof.
  unfold nl_free. intros H Hin. rewrite forallb_forall in H. specialize (H _ Hin).
  unfold NL in *. cbn in H. discriminate.
Qed.

Lemma fmt_not_key_no_nl k : nl_free k = true -> ~ In NL (fmt_not_key k).
Proof.
  intros Hk Hin. apply nl_free_in in Hk.
  unfold fmt_not_key, base_not_string in Hin.
  apply in_app_or in Hin as [[H|[]]|Hin]; [discriminate|].
  apply in_app_or in Hin as [Hin|[H|[]]]; [|discriminate].
  apply in_replace_byte in Hin as [[H|[H|[]]]|Hin]; try discriminate.
  apply in_replace_byte in Hin as [[H|[H|[]]]|Hin]; try discriminate.
  now apply Hk.
Qed.

Lemma fmt_not_uri_no_nl s : nl_free s = true -> ~ In NL (fmt_not_uri s).
Proof.
  intros Hk Hin. apply nl_free_in in Hk.
  unfold fmt_not_uri in Hin.
  apply in_app_or in Hin as [[H|[H|[]]]|Hin]; try discriminate.
  apply in_app_or in Hin as [Hin|[H|[]]]; [|discriminate].
  apply in_replace_byte in Hin as [[H|[H|[]]]|Hin]; try discriminate.
  apply in_replace_byte in Hin as [[H|[H|[]]]|Hin]; try discriminate.
  now apply Hk.
Qed.

Lemma uint_bytes_digits d c : In c (uint_bytes d) -> 48 <= c <= 57.
Proof.
  induction d; cbn [uint_bytes]; intros H; try (destruct H as [<-|H]; [lia|now apply IHd]).
  destruct H.
Qed.

Lemma dec_z_no_nl z : ~ In NL (dec_z z).
Proof.
  unfold NL. destruct z as [|p|p]; cbn [dec_z]; intros H.
  - destruct H as [H|[]]. discriminate.
  - apply uint_bytes_digits in H. lia.
  - destruct H as [H|H]; [discriminate|]. apply uint_bytes_digits in H. lia.
Qed.

Lemma hexd_ne n : hexd n <> NL.
Proof. unfold hexd, NL. destruct (n <? 10) eqn:E; lia. Qed.

Lemma hex2_no_nl l : ~ In NL (flat_map hex2 l).
Proof.
  intros H. apply in_flat_map in H as [b [_ H]].
  destruct H as [H|[H|[]]]; now apply hexd_ne in H.
Qed.

Lemma uuid_text_no_nl u : ~ In NL (uuid_text u).
Proof.
  unfold uuid_text. intros H.
  repeat (apply in_app_or in H as [H|H]; [now apply hex2_no_nl in H|];
          cbn [app] in H; destruct H as [H|H]; [discriminate|]).
  now apply hex2_no_nl in H.
Qed.

Lemma b64c_ne n : b64c n <> NL.
Proof.
  unfold b64c, NL.
  destruct (n <? 26) eqn:E1; [lia|].
  destruct (n <? 52) eqn:E2; [lia|].
  destruct (n <? 62) eqn:E3; [lia|].
  destruct (n =? 62); lia.
Qed.

Lemma b64_no_nl_len n : forall s, (length s <= n)%nat -> ~ In NL (b64 s).
Proof.
  induction n as [|n IH]; intros s Hl.
  - destruct s; [intros []|cbn in Hl; lia].
  - destruct s as [|a [|b [|c r]]]; cbn [b64]; intros H.
    + destruct H.
    + destruct H as [H|[H|[H|[H|[]]]]]; try discriminate; now apply b64c_ne in H.
    + destruct H as [H|[H|[H|[H|[]]]]]; try discriminate; now apply b64c_ne in H.
    + destruct H as [H|[H|[H|[H|H]]]]; try (now apply b64c_ne in H).
      revert H. apply IH. cbn [length] in Hl. lia.
Qed.

Lemma b64_no_nl s : ~ In NL (b64 s).
Proof. apply (b64_no_nl_len (length s)). lia. Qed.

Lemma in_join x sep parts : In x (join sep parts) -> x = sep \/ exists p, In p parts /\ In x p.
Proof.
  induction parts as [|p r IH]; [intros []|].
  destruct r as [|q r].
  - cbn [join]. intros H. right. exists p. split; [now left|exact H].
  - change (join sep (p :: q :: r)) with (p ++ sep :: join sep (q :: r)).
    intros H. apply in_app_or in H as [H|[H|H]].
    + right. exists p. split; [now left|exact H].
    + now left.
    + destruct (IH H) as [->|[p' [Hp Hx]]]; [now left|].
      right. exists p'. split; [now right|exact Hx].
Qed.

Section NoNewline.
  Variable rreal : N -> list N.
  Variable rdate : N -> list N.
  Hypothesis rreal_nl : forall b, ~ In NL (rreal b).
  Hypothesis rdate_nl : forall b, ~ In NL (rdate b).

  Theorem fmt_not_no_nl v :
    keys_uris_nl_free v = true -> ~ In NL (fmt_not rreal rdate v).
  Proof.
    induction v using llsd_rect'; intros Hk Hin; cbn [fmt_not keys_uris_nl_free] in *.
    - destruct Hin as [H|[]]. discriminate.
    - destruct b; cbn in Hin; repeat (destruct Hin as [Hin|Hin]; [discriminate|]); destruct Hin.
    - destruct Hin as [H|H]; [discriminate|]. now apply dec_z_no_nl in H.
    - destruct Hin as [H|H]; [discriminate|]. now apply rreal_nl in H.
    - now apply fmt_not_string_no_nl in Hin.
    - destruct Hin as [H|H]; [discriminate|]. now apply uuid_text_no_nl in H.
    - apply in_app_or in Hin as [[H|[H|[]]]|Hin]; try discriminate.
      apply in_app_or in Hin as [H|[H|[]]]; [|discriminate]. now apply rdate_nl in H.
    - now apply fmt_not_uri_no_nl in Hin.
    - apply in_app_or in Hin as [[H|[H|[H|[H|[]]]]]|Hin]; try discriminate.
      apply in_app_or in Hin as [H|[H|[]]]; [|discriminate]. now apply b64_no_nl in H.
    - (* Arr *)
      apply in_app_or in Hin as [[Hd|[]]|Hin]; [discriminate|].
      apply in_app_or in Hin as [Hin|[Hd|[]]]; [|discriminate].
      apply in_join in Hin as [Hd|[p [Hp Hx]]]; [discriminate|].
      apply in_map_iff in Hp as [x [<- Hxl]].
      rewrite Forall_forall in H. rewrite forallb_forall in Hk.
      exact (H x Hxl (Hk x Hxl) Hx).
    - (* Map *)
      apply in_app_or in Hin as [[Hd|[]]|Hin]; [discriminate|].
      apply in_app_or in Hin as [Hin|[Hd|[]]]; [|discriminate].
      apply in_join in Hin as [Hd|[p [Hp Hx]]]; [discriminate|].
      apply in_map_iff in Hp as [[k x] [<- Hxl]].
      rewrite Forall_forall in H. rewrite forallb_forall in Hk.
      specialize (H _ Hxl). specialize (Hk _ Hxl). cbn [fst snd] in *.
      apply andb_prop in Hk as [Hk1 Hk2].
      apply in_app_or in Hx as [Hx|[Hd|Hx]].
      + now apply fmt_not_key_no_nl in Hx.
      + discriminate.
      + exact (H Hk2 Hx).
  Qed.
End NoNewline.

(* keys and URIs are genuinely outside: they do leak a raw newline *)
Lemma key_leaks_nl rreal rdate : In NL (fmt_not rreal rdate (Map [([97; 10; 98], Undef)])).
Proof. cbn. unfold NL. tauto. Qed.

Lemma uri_leaks_nl rreal rdate : In NL (fmt_not rreal rdate (Uri [104; 10])).
Proof. cbn. unfold NL. tauto. Qed.
