(* Proofs about Log/Export.v: the dict form of a message, its LLSD tree, the notation
   leg (through C12's parse_not_fmt), entry export / import, freeze / thaw. *)
From Coq Require Import NArith ZArith List Bool Lia.
From HV Require Import Base.Bytes Llsd.Llsd Llsd.LlsdString Llsd.LlsdNotation Llsd.LlsdNotationParse
  Llsd.LlsdNotationParseProofs Log.Export.
Import ListNotations.
Open Scope N_scope.

Lemma forallb_map' {A B} (f : B -> bool) (g : A -> B) l : forallb f (map g l) = forallb (fun x => f (g x)) l.
Proof. induction l as [|x l IH]; [reflexivity|]. cbn [map forallb]. rewrite IH. reflexivity. Qed.

Lemma forallb_ext' {A} (f g : A -> bool) l : (forall x, f x = g x) -> forallb f l = forallb g l.
Proof. intros H. induction l as [|x l IH]; [reflexivity|]. cbn [forallb]. rewrite H, IH. reflexivity. Qed.

(* ---------- byte-string keys ---------- *)

Lemma beq_refl k : beq k k = true.
Proof. induction k as [|x k IH]; [reflexivity|]. cbn [beq]. rewrite N.eqb_refl. exact IH. Qed.

Lemma beq_eq a b : beq a b = true -> a = b.
Proof.
  revert b; induction a as [|x a IH]; intros [|y b] H; try reflexivity; try discriminate H.
  cbn [beq] in H. apply andb_prop in H as [H1 H2]. apply N.eqb_eq in H1. subst y. f_equal. apply IH, H2.
Qed.

Lemma beq_sym a b : beq a b = beq b a.
Proof.
  revert b; induction a as [|x a IH]; intros [|y b]; try reflexivity.
  cbn [beq]. rewrite N.eqb_sym, IH. reflexivity.
Qed.

(* ---------- tree_of / pv_of / norm ---------- *)

Lemma tree_of_pv_of t : tree_of (pv_of t) = t.
Proof.
  induction t using llsd_rect'; try reflexivity.
  - cbn [pv_of tree_of]. f_equal. rewrite map_map.
    induction H as [|x l Hx Hl IH]; [reflexivity|]. cbn [map]. rewrite Hx, IH. reflexivity.
  - cbn [pv_of tree_of]. f_equal. rewrite map_map.
    induction H as [|[k x] l Hx Hl IH]; [reflexivity|]. cbn [map fst snd] in *. rewrite Hx, IH. reflexivity.
Qed.

Lemma tree_of_norm v : tree_of (norm v) = tree_of v.
Proof. unfold norm. apply tree_of_pv_of. Qed.

Lemma norm_idem v : norm (norm v) = norm v.
Proof. unfold norm. rewrite tree_of_pv_of. reflexivity. Qed.

Lemma norm_seq c l : norm (YSeq c l) = YSeq SList (map norm l).
Proof. unfold norm. cbn [tree_of pv_of]. rewrite map_map. reflexivity. Qed.

Lemma norm_dict m : norm (YDict m) = YDict (norm_vars m).
Proof. unfold norm, norm_vars. cbn [tree_of pv_of]. rewrite map_map. reflexivity. Qed.

Lemma norm_coord k xs : norm (YCoord k xs) = YSeq SList (map YFloat xs).
Proof. unfold norm. cbn [tree_of pv_of]. rewrite map_map. reflexivity. Qed.

Lemma norm_bytearray s : norm (YBytes BArray s) = YSeq SList (map (fun b => YInt (Z.of_N b)) s).
Proof. unfold norm. cbn [tree_of pv_of]. rewrite map_map. reflexivity. Qed.

Lemma norm_bytes c s : c <> BArray -> norm (YBytes c s) = YBytes BPlain s.
Proof. intros H. destruct c; try reflexivity. contradiction. Qed.

Lemma norm_uuid c u : norm (YUuid c u) = YUuid UStd u.
Proof. reflexivity. Qed.

(* nothing is lost exactly on the plain values *)
Lemma plain_norm v : plain v = true -> norm v = v.
Proof.
  induction v using yv_rect'; intros Hp; try reflexivity.
  - destruct c; try discriminate Hp. reflexivity.
  - destruct c; try discriminate Hp. reflexivity.
  - discriminate Hp.
  - destruct c; [|discriminate Hp]. rewrite norm_seq. f_equal. cbn [plain] in Hp.
    induction H as [|x l Hx Hl IH]; [reflexivity|]. cbn [forallb] in Hp. apply andb_prop in Hp as [H1 H2].
    cbn [map]. rewrite Hx, IH by assumption. reflexivity.
  - rewrite norm_dict. f_equal. cbn [plain] in Hp. unfold norm_vars.
    induction H as [|[k x] l Hx Hl IH]; [reflexivity|]. cbn [forallb snd] in Hp. apply andb_prop in Hp as [H1 H2].
    cbn [map fst snd] in *. rewrite Hx, IH by assumption. reflexivity.
Qed.

Lemma pv_of_plain t : plain (pv_of t) = true.
Proof.
  induction t using llsd_rect'; try reflexivity.
  - cbn [pv_of plain]. induction H as [|x l Hx Hl IH]; [reflexivity|]. cbn [map forallb]. rewrite Hx, IH. reflexivity.
  - cbn [pv_of plain]. induction H as [|[k x] l Hx Hl IH]; [reflexivity|]. cbn [map forallb fst snd] in *. rewrite Hx, IH. reflexivity.
Qed.

Lemma norm_plain v : plain (norm v) = true.
Proof. apply pv_of_plain. Qed.

Lemma norm_fixed_iff v : norm v = v <-> plain v = true.
Proof. split; [intros H; rewrite <- H; apply norm_plain | apply plain_norm]. Qed.

(* ---------- dict helpers ---------- *)

Lemma yget_hd k v m : yget k ((k, v) :: m) = Some v.
Proof. cbn [yget]. rewrite beq_refl. reflexivity. Qed.

Lemma yget_tl k k' v m : beq k k' = false -> yget k ((k', v) :: m) = yget k m.
Proof. intros H. cbn [yget]. rewrite H. reflexivity. Qed.

Lemma yget_norm_vars k m : yget k (norm_vars m) = option_map norm (yget k m).
Proof.
  induction m as [|[k' v] m IH]; [reflexivity|]. cbn [norm_vars map yget fst snd].
  destruct (beq k k'); [reflexivity|]. exact IH.
Qed.

Lemma yget_yset_same k v m : yget k (yset k v m) = Some v.
Proof.
  induction m as [|[k' v'] m IH]; cbn [yset yget]; [rewrite beq_refl; reflexivity|].
  destruct (beq k k') eqn:E; cbn [yget]; [rewrite beq_refl; reflexivity|]. rewrite E. exact IH.
Qed.

Lemma yget_yset_other k k' v m : beq k' k = false -> yget k' (yset k v m) = yget k' m.
Proof.
  intros H. induction m as [|[k2 v2] m IH]; cbn [yset yget]; [rewrite H; reflexivity|].
  destruct (beq k k2) eqn:E.
  - apply beq_eq in E. subst k2. cbn [yget]. rewrite H. reflexivity.
  - cbn [yget]. destruct (beq k' k2); [reflexivity|]. exact IH.
Qed.

Lemma map_fst_keep {A B C} (f : A * B -> A * C) (l : list (A * B)) :
  (forall x, fst (f x) = fst x) -> map fst (map f l) = map fst l.
Proof. intros H. rewrite map_map. apply map_ext. exact H. Qed.

Lemma map_fst_norm_vars m : map fst (norm_vars m) = map fst m.
Proof. unfold norm_vars. rewrite map_map. reflexivity. Qed.

Lemma mapM_map {A B C} (f : B -> option C) (g : A -> B) l : mapM f (map g l) = mapM (fun x => f (g x)) l.
Proof. induction l as [|x l IH]; [reflexivity|]. cbn [map mapM]. rewrite IH. reflexivity. Qed.

Lemma mapM_ext_in {A B} (f g : A -> option B) l : (forall x, In x l -> f x = g x) -> mapM f l = mapM g l.
Proof.
  induction l as [|x l IH]; intros H; [reflexivity|]. cbn [mapM].
  rewrite (H x (or_introl eq_refl)), IH; [reflexivity|]. intros y Hy. apply H. right. exact Hy.
Qed.

Lemma mapM_some {A B} (f : A -> B) l : mapM (fun x => Some (f x)) l = Some (map f l).
Proof. induction l as [|x l IH]; [reflexivity|]. cbn [mapM map]. rewrite IH. reflexivity. Qed.

Lemma mapM_length {A B} (f : A -> option B) l r : mapM f l = Some r -> length r = length l.
Proof.
  revert r; induction l as [|x l IH]; intros r H; cbn [mapM] in H.
  - injection H as <-. reflexivity.
  - destruct (f x); [|discriminate H]. destruct (mapM f l); [|discriminate H]. injection H as <-.
    cbn [length]. f_equal. apply IH. reflexivity.
Qed.

(* ---------- Message.to_dict / from_dict ---------- *)

Lemma block_of_dict (g : yv -> yv) b :
  wf_block b = true -> block_of (YDict (map (fun kv => (fst kv, g (snd kv))) b)) = Some (map (fun kv => (fst kv, g (snd kv))) b).
Proof.
  intros H. unfold wf_block in H. cbn [block_of]. rewrite map_fst_keep by reflexivity. rewrite forallb_map'. cbn [fst].
  rewrite H. reflexivity.
Qed.

Lemma map_id_pairs (b : ydict) : map (fun kv => (fst kv, snd kv)) b = b.
Proof. induction b as [|[k v] b IH]; [reflexivity|]. cbn [map fst snd]. rewrite IH. reflexivity. Qed.

Lemma block_of_plain b : wf_block b = true -> block_of (YDict b) = Some b.
Proof. intros H. pose proof (block_of_dict (fun v => v) b H) as E. rewrite map_id_pairs in E. exact E. Qed.

Lemma block_of_norm b : wf_block b = true -> block_of (norm (YDict b)) = Some (norm_vars b).
Proof. intros H. rewrite norm_dict. apply (block_of_dict norm b H). Qed.

Lemma blocklist_plain c bl : forallb wf_block bl = true -> blocklist_of (YSeq c (map YDict bl)) = Some bl.
Proof.
  intros H. cbn [blocklist_of]. rewrite mapM_map.
  rewrite (mapM_ext_in _ (fun b => Some b)).
  - rewrite (mapM_some (fun b => b)). rewrite map_id. reflexivity.
  - intros b Hb. apply block_of_plain. rewrite forallb_forall in H. apply H, Hb.
Qed.

Lemma blocklist_norm c bl :
  forallb wf_block bl = true -> blocklist_of (norm (YSeq c (map YDict bl))) = Some (map norm_vars bl).
Proof.
  intros H. rewrite norm_seq. cbn [blocklist_of]. rewrite !mapM_map.
  rewrite (mapM_ext_in _ (fun b => Some (norm_vars b))).
  - apply mapM_some.
  - intros b Hb. apply block_of_norm. rewrite forallb_forall in H. apply H, Hb.
Qed.

Lemma body_of_plain m : wf_msg m = true -> body_of (YDict (body_dict m)) = Some (m_blocks m).
Proof.
  intros H. unfold wf_msg in H. apply andb_prop in H as [Hk Hb].
  unfold body_dict. cbn [body_of]. rewrite map_fst_keep by reflexivity. rewrite Hk.
  rewrite mapM_map. cbn [fst snd].
  rewrite (mapM_ext_in _ (fun bl => Some bl)).
  - rewrite (mapM_some (fun bl => bl)), map_id. reflexivity.
  - intros [k bl] Hin. cbn [fst snd]. rewrite blocklist_plain; [reflexivity|].
    rewrite forallb_forall in Hb. apply (Hb _ Hin).
Qed.

Lemma body_of_norm m :
  wf_msg m = true ->
  body_of (norm (YDict (body_dict m))) = Some (map (fun bl => (fst bl, map norm_vars (snd bl))) (m_blocks m)).
Proof.
  intros H. unfold wf_msg in H. apply andb_prop in H as [Hk Hb].
  rewrite norm_dict. unfold body_dict. cbn [body_of]. rewrite map_fst_norm_vars, map_fst_keep by reflexivity. rewrite Hk.
  unfold norm_vars. rewrite !mapM_map. cbn [fst snd].
  rewrite (mapM_ext_in _ (fun bl => Some (fst bl, map norm_vars (snd bl)))).
  - apply mapM_some.
  - intros [k bl] Hin. cbn [fst snd]. rewrite blocklist_norm; [reflexivity|].
    rewrite forallb_forall in Hb. apply (Hb _ Hin).
Qed.

Lemma dir_of_name d : dir_of (dir_name d) = Some d.
Proof. destruct d; reflexivity. Qed.

(* the dict form loses only the class of `extra` (bytes(self.extra)) *)
Theorem from_dict_to_dict m : wf_msg m = true -> from_dict (to_dict true m) = Some (plain_extra m).
Proof.
  intros H. unfold to_dict, from_dict. cbn [app].
  rewrite yget_hd. rewrite (yget_tl K_body K_message) by reflexivity. rewrite yget_hd.
  rewrite (body_of_plain m H).
  repeat (first [rewrite yget_hd | rewrite yget_tl by reflexivity]).
  destruct m as [nm bl [p|] me dr sy [|] fl ec ex ac al]; reflexivity.
Qed.

(* the short form (what from_eq_event / LLSDMessageSerializer use): name and blocks *)
Theorem from_dict_to_dict_short m :
  wf_msg m = true ->
  from_dict (to_dict false m) = Some (mkMsg (m_name m) (m_blocks m) None [] false true DOut 0%Z BPlain [] STuple []).
Proof.
  intros H. unfold to_dict, from_dict. cbn [app].
  rewrite yget_hd. rewrite (yget_tl K_body K_message) by reflexivity. rewrite yget_hd.
  rewrite (body_of_plain m H). reflexivity.
Qed.

(* through the LLSD tree *)
Theorem from_dict_norm_to_dict m : wf_msg m = true -> from_dict (norm (to_dict true m)) = Some (norm_msg m).
Proof.
  intros H. unfold to_dict. rewrite norm_dict. cbn [app norm_vars map fst snd]. unfold from_dict.
  rewrite yget_hd. rewrite (yget_tl K_body K_message) by reflexivity. rewrite yget_hd.
  change (norm (YStr (m_name m))) with (YStr (m_name m)).
  rewrite (body_of_norm m H).
  repeat (first [rewrite yget_hd | rewrite yget_tl by reflexivity]).
  rewrite norm_dict, norm_seq.
  destruct m as [nm bl [p|] me dr sy [|] fl ec ex ac al]; reflexivity.
Qed.

(* ---------- what normalisation does to a message ---------- *)

Lemma norm_vars_idem d : norm_vars (norm_vars d) = norm_vars d.
Proof.
  unfold norm_vars. rewrite map_map. apply map_ext. intros [k v]. cbn [fst snd]. rewrite norm_idem. reflexivity.
Qed.

Lemma norm_msg_idem m : norm_msg (norm_msg m) = norm_msg m.
Proof.
  unfold norm_msg. cbn [m_name m_blocks m_packet_id m_meta m_dropped m_synthetic m_direction m_flags m_extra m_acks].
  f_equal.
  - rewrite map_map. apply map_ext. intros [k bl]. cbn [fst snd]. f_equal.
    rewrite map_map. apply map_ext. intros b. apply norm_vars_idem.
  - apply norm_vars_idem.
  - rewrite map_map. apply map_ext. intros v. apply norm_idem.
Qed.

Lemma tree_vars_norm (d : ydict) :
  map (fun kv => (fst kv, tree_of (snd kv))) (norm_vars d) = map (fun kv => (fst kv, tree_of (snd kv))) d.
Proof.
  unfold norm_vars. rewrite map_map. apply map_ext. intros [k v]. cbn [fst snd]. rewrite tree_of_norm. reflexivity.
Qed.

Lemma body_tree_norm m :
  map (fun kv => (fst kv, tree_of (snd kv))) (body_dict (norm_msg m))
  = map (fun kv => (fst kv, tree_of (snd kv))) (body_dict m).
Proof.
  unfold body_dict, norm_msg. cbn [m_blocks]. rewrite !map_map. apply map_ext. intros [k bl].
  cbn [fst snd tree_of]. f_equal. f_equal. rewrite !map_map. apply map_ext. intros b.
  cbn [tree_of]. f_equal. apply tree_vars_norm.
Qed.

Lemma acks_tree_norm l : map tree_of (map norm l) = map tree_of l.
Proof. rewrite map_map. apply map_ext. intros v. apply tree_of_norm. Qed.

(* a message and its normal form export to the same LLSD tree *)
Theorem msg_tree_norm m : msg_tree (norm_msg m) = msg_tree m.
Proof.
  unfold msg_tree, to_dict.
  cbn [app tree_of map fst snd]. rewrite body_tree_norm.
  unfold norm_msg.
  cbn [m_name m_blocks m_packet_id m_meta m_dropped m_synthetic m_direction m_flags m_extra m_acks m_acks_cls m_extra_cls].
  rewrite tree_vars_norm, acks_tree_norm. reflexivity.
Qed.

Lemma plain_vars_norm (d : ydict) : forallb (fun kv => plain (snd kv)) d = true -> norm_vars d = d.
Proof.
  intros H. unfold norm_vars. induction d as [|[k v] d IH]; [reflexivity|].
  cbn [forallb snd] in H. apply andb_prop in H as [H1 H2]. cbn [map fst snd]. rewrite plain_norm, IH by assumption. reflexivity.
Qed.

(* nothing is lost on a message whose values are all plain *)
Theorem norm_msg_plain m : plain_msg m = true -> norm_msg m = m.
Proof.
  intros H. unfold plain_msg in H.
  apply andb_prop in H as [H Ha]. apply andb_prop in H as [H Hac]. apply andb_prop in H as [H Hec].
  apply andb_prop in H as [Hb Hm].
  destruct m as [nm bl p me dr sy di fl ec ex ac al]. unfold norm_msg.
  cbn [m_name m_blocks m_packet_id m_meta m_dropped m_synthetic m_direction m_flags m_extra m_acks m_acks_cls m_extra_cls] in *.
  destruct ec; try discriminate Hec. destruct ac; try discriminate Hac.
  f_equal.
  - induction bl as [|[k l] bl IH]; [reflexivity|]. cbn [forallb snd] in Hb. apply andb_prop in Hb as [H1 H2].
    cbn [map fst snd]. rewrite IH by assumption. f_equal. f_equal.
    induction l as [|b l IHl]; [reflexivity|]. cbn [forallb] in H1. apply andb_prop in H1 as [H3 H4].
    cbn [map]. rewrite plain_vars_norm, IHl by assumption. reflexivity.
  - apply plain_vars_norm, Hm.
  - induction al as [|v al IH]; [reflexivity|]. cbn [forallb] in Ha. apply andb_prop in Ha as [H1 H2].
    cbn [map]. rewrite plain_norm, IH by assumption. reflexivity.
Qed.

Lemma wf_block_norm b : wf_block (norm_vars b) = wf_block b.
Proof.
  unfold wf_block. rewrite map_fst_norm_vars. f_equal. unfold norm_vars. rewrite forallb_map'. reflexivity.
Qed.

Lemma wf_msg_norm m : wf_msg (norm_msg m) = wf_msg m.
Proof.
  unfold wf_msg, norm_msg. cbn [m_blocks]. rewrite map_map. cbn [fst]. f_equal.
  rewrite forallb_map'. apply forallb_ext'. intros [k bl]. cbn [snd]. rewrite forallb_map'.
  apply forallb_ext'. intros b. apply wf_block_norm.
Qed.

(* ---------- _restore_value_classes ---------- *)

Lemma mapM_float_of xs : mapM float_of (map YFloat xs) = Some xs.
Proof. induction xs as [|x xs IH]; [reflexivity|]. cbn [map mapM float_of]. rewrite IH. reflexivity. Qed.

Lemma ccls_eqb_eq a b : ccls_eqb a b = true -> a = b.
Proof. destruct a, b; try discriminate; reflexivity. Qed.

Lemma skipn_defaults k : skipn (coord_arity k) (coord_defaults k) = [].
Proof. destruct k; reflexivity. Qed.

(* a value with the class the deserializer gives it comes back as itself *)
Lemma restore_val_deser tv v : deser_val tv v = true -> restore_val tv (norm v) = Some v.
Proof.
  destruct v as [| b | z | b | s | c s | c u | k xs | c l | m | b | s]; intros H; cbn [deser_val] in H.
  - destruct tv as [[k|]|]; reflexivity.
  - destruct tv as [[k|]|]; reflexivity.
  - destruct tv as [[k|]|]; reflexivity.
  - destruct tv as [[k|]|]; reflexivity.
  - destruct tv as [[k|]|]; reflexivity.
  - destruct c; try discriminate H.
    + destruct tv as [[k|]|]; try discriminate H; reflexivity.
    + destruct tv as [[k|]|]; try discriminate H. reflexivity.
  - destruct c; [|discriminate H]. reflexivity.
  - destruct tv as [[k'|]|]; try discriminate H. apply andb_prop in H as [Hk Hl].
    apply ccls_eqb_eq in Hk. subst k'. apply Nat.eqb_eq in Hl.
    rewrite norm_coord. cbn [restore_val]. rewrite mapM_float_of, Hl, skipn_defaults, app_nil_r.
    destruct k; reflexivity.
  - destruct c; [|discriminate H]. apply andb_prop in H as [Hc Hp].
    assert (E : norm (YSeq SList l) = YSeq SList l) by (apply plain_norm; exact Hp). rewrite E.
    destruct tv as [[k|]|]; try discriminate Hc; reflexivity.
  - assert (E : norm (YDict m) = YDict m) by (apply plain_norm; exact H). rewrite E.
    destruct tv as [[k|]|]; reflexivity.
  - destruct tv as [[k|]|]; reflexivity.
  - destruct tv as [[k|]|]; reflexivity.
Qed.

Lemma restore_vars_deser tb b :
  forallb (fun kv => deser_val (tb (fst kv)) (snd kv)) b = true -> restore_vars tb (norm_vars b) = Some b.
Proof.
  unfold restore_vars, norm_vars. induction b as [|[k v] b IH]; intros H; [reflexivity|].
  cbn [forallb fst snd] in H. apply andb_prop in H as [H1 H2].
  cbn [map mapM fst snd]. rewrite (restore_val_deser _ _ H1), (IH H2). reflexivity.
Qed.

Lemma restore_blocks_deser tb bl :
  forallb (fun b => forallb (fun kv => deser_val (tb (fst kv)) (snd kv)) b) bl = true ->
  mapM (restore_vars tb) (map norm_vars bl) = Some bl.
Proof.
  induction bl as [|b bl IH]; intros H; [reflexivity|]. cbn [forallb] in H. apply andb_prop in H as [H1 H2].
  cbn [map mapM]. rewrite (restore_vars_deser _ _ H1), (IH H2). reflexivity.
Qed.

(* Message level: for a message with the deserializer's classes the restoration undoes the
   normalisation, up to the class of extra and of acks *)
Theorem restore_exact tk m : deser_classes tk m = true -> restore_msg tk (norm_msg m) = Some (flat m).
Proof.
  intros H. unfold deser_classes in H. apply andb_prop in H as [H Ha]. apply andb_prop in H as [Hb Hm].
  destruct m as [nm bl p me dr sy di fl ec ex ac al]. unfold restore_msg, norm_msg, flat.
  cbn [m_name m_blocks m_packet_id m_meta m_dropped m_synthetic m_direction m_flags m_extra m_acks m_acks_cls m_extra_cls] in *.
  assert (E : mapM (fun b0 : list N * list (list (list N * yv)) =>
                      match mapM (restore_vars (tk nm (fst b0))) (snd b0) with
                      | Some l => Some (fst b0, l)
                      | None => None
                      end) (map (fun b0 => (fst b0, map norm_vars (snd b0))) bl) = Some bl).
  { induction bl as [|[k l] bl IH]; [reflexivity|]. cbn [forallb fst snd] in Hb. apply andb_prop in Hb as [H1 H2].
    cbn [map mapM fst snd]. rewrite (restore_blocks_deser _ _ H1), (IH H2). reflexivity. }
  rewrite E. rewrite (plain_vars_norm _ Hm).
  assert (Eal : map norm al = al).
  { induction al as [|v al IH]; [reflexivity|]. cbn [forallb] in Ha. apply andb_prop in Ha as [H1 H2].
    cbn [map]. rewrite plain_norm, IH by assumption. reflexivity. }
  rewrite Eal. reflexivity.
Qed.

Lemma restore_fields tk m m' :
  restore_msg tk m = Some m' -> m_direction m' = m_direction m /\ m_name m' = m_name m.
Proof.
  unfold restore_msg. destruct (mapM _ (m_blocks m)); [|discriminate]. intros H. injection H as <-. split; reflexivity.
Qed.

(* flat keeps everything Message.__eq__ and the exported tree read *)
Lemma flat_facts tk m :
  to_dict false (flat m) = to_dict false m /\ msg_tree (flat m) = msg_tree m /\ wf_msg (flat m) = wf_msg m
  /\ deser_classes tk (flat m) = deser_classes tk m /\ flat (flat m) = flat m
  /\ m_name (flat m) = m_name m /\ m_blocks (flat m) = m_blocks m.
Proof. repeat split. Qed.

(* ---------- the notation leg (C12) ---------- *)

Section Entries.
  Variable rreal : N -> list N.
  Variable rdate : N -> list N.
  Variable preal : list N -> option N.
  Variable pdate : list N -> option N.
  Variable summ : payload -> list N.
  Variable tk : tmpl.
  Variable pyrepr : yv -> list N.
  Variable pyeval : list N -> option yv.
  Variable gz : list N -> list N.
  Variable gunz : list N -> option (list N).
  (* lexical shape of repr(float) and of the date string: C12_not_roundtrip's two hypotheses *)
  Hypothesis real_scan : forall b rest, stopb rest = true -> scan_real (rreal b ++ rest) = Some (rreal b, rest).
  Hypothesis date_plain : forall b, forallb plain_byte (rdate b) = true.

  Notation notation := (notation rreal rdate).
  Notation of_notation := (of_notation preal pdate).
  Notation ook := (oracles_ok rreal rdate preal pdate).

  (* parse_notation(format_notation(v)) for a Python value v *)
  Lemma of_notation_notation v :
    wfn (tree_of v) = true -> ook (tree_of v) = true -> of_notation (notation v) = Some (norm v).
  Proof.
    intros Hw Ho. unfold Export.of_notation, Export.notation.
    rewrite (parse_not_fmt rreal rdate preal pdate real_scan date_plain _ Hw Ho). reflexivity.
  Qed.

  (* Message.from_dict(parse_notation(format_notation(m.to_dict(extended=True)))) *)
  Theorem msg_notation_roundtrip m :
    wf_msg m = true -> wfn (msg_tree m) = true -> ook (msg_tree m) = true ->
    bind (of_notation (notation (to_dict true m))) from_dict = Some (norm_msg m).
  Proof.
    intros Hm Hw Ho. rewrite of_notation_notation by assumption. cbn [bind].
    apply from_dict_norm_to_dict, Hm.
  Qed.

  (* ... followed by _restore_value_classes: a message with the deserializer's classes comes
     back as itself (up to the class of extra and acks), and compares equal under Message.__eq__ *)
  Theorem msg_import_exact m :
    wf_msg m = true -> wfn (msg_tree m) = true -> ook (msg_tree m) = true -> deser_classes tk m = true ->
    bind (bind (of_notation (notation (to_dict true m))) from_dict) (restore_msg tk) = Some (flat m)
    /\ to_dict false (flat m) = to_dict false m.
  Proof.
    intros Hm Hw Ho Hd. rewrite msg_notation_roundtrip by assumption. cbn [bind].
    split; [apply restore_exact, Hd|reflexivity].
  Qed.

  (* ---------- meta: UUIDs to text and back ---------- *)

  Definition dehy_val (v : yv) : yv := match v with YUuid _ u => YStr (uuid_text u) | x => x end.
  Definition hyd_val (v : yv) : yv := match v with YUuid _ u => YUuid UHippo u | x => x end.

  Lemma yset_same_val k v m : yget k m = Some v -> yset k v m = m.
  Proof.
    induction m as [|[k' v'] m IH]; intros H; [discriminate H|]. cbn [yget yset] in *.
    destruct (beq k k') eqn:E.
    - injection H as ->. apply beq_eq in E. subst k'. reflexivity.
    - rewrite IH by exact H. reflexivity.
  Qed.

  Lemma yset_yset_same k a b m : yset k a (yset k b m) = yset k a m.
  Proof.
    induction m as [|[k' v'] m IH]; cbn [yset]; [rewrite beq_refl; reflexivity|].
    destruct (beq k k') eqn:E; cbn [yset]; [rewrite beq_refl; reflexivity|]. rewrite E, IH. reflexivity.
  Qed.

  Lemma uuid_text_nonempty u : length u = 16%nat -> bytes_okb u = true -> y_nonempty (uuid_text u) = true.
  Proof.
    intros Hl Hb. destruct (uuid_text_roundtrip u Hl Hb) as [H36 _].
    destruct (uuid_text u); [discriminate H36|reflexivity].
  Qed.

  Lemma uuid_of_str_text u : uuid_ok u = true -> uuid_of_str (uuid_text u) = Some u /\ y_nonempty (uuid_text u) = true.
  Proof.
    intros H. unfold uuid_ok in H. apply andb_prop in H as [Hl Hb]. apply Nat.eqb_eq in Hl.
    destruct (uuid_text_roundtrip u Hl Hb) as [H36 Hp]. split.
    - unfold uuid_of_str. rewrite H36. exact Hp.
    - apply uuid_text_nonempty; assumption.
  Qed.

  Definition uuid_val_ok (v : yv) : Prop := v = YNone \/ exists c u, v = YUuid c u /\ uuid_ok u = true.

  Lemma meta_uuid_ok_spec k meta :
    meta_uuid_ok k meta = true -> exists v, yget k meta = Some v /\ uuid_val_ok v.
  Proof.
    unfold meta_uuid_ok. destruct (yget k meta) as [v|]; [|discriminate].
    intros H. exists v. split; [reflexivity|]. destruct v; try discriminate H.
    - left. reflexivity.
    - right. exists c, u. split; [reflexivity|exact H].
  Qed.

  Lemma dehydrate_ok k meta v :
    yget k meta = Some v -> uuid_val_ok v -> dehydrate k meta = Some (yset k (dehy_val v) meta).
  Proof.
    intros Hg [->|[c [u [-> Hu]]]]; unfold dehydrate; rewrite Hg; cbn [y_truthy dehy_val].
    - rewrite yset_same_val by exact Hg. reflexivity.
    - reflexivity.
  Qed.

  Lemma hydrate_ok k meta v :
    yget k meta = Some (dehy_val v) -> uuid_val_ok v -> hydrate k meta = Some (yset k (hyd_val v) meta).
  Proof.
    intros Hg [->|[c [u [-> Hu]]]]; unfold hydrate; rewrite Hg; cbn [y_truthy dehy_val hyd_val] in *.
    - rewrite yset_same_val by exact Hg. reflexivity.
    - destruct (uuid_of_str_text u Hu) as [H1 H2]. rewrite H2, H1. reflexivity.
  Qed.

  Lemma uuid_val_ok_dehy v : uuid_val_ok v -> dehy_val (hyd_val v) = dehy_val v /\ uuid_val_ok (hyd_val v).
  Proof.
    intros [->|[c [u [-> Hu]]]]; split; try reflexivity.
    - left. reflexivity.
    - right. exists UHippo, u. split; [reflexivity|exact Hu].
  Qed.

  (* the three keys, in the order the code visits them *)
  Lemma meta_roundtrip meta :
    meta_uuid_ok K_AgentID meta = true -> meta_uuid_ok K_SelectedFull meta = true -> meta_uuid_ok K_SessionID meta = true ->
    exists m1 m2, dehydrate_all meta = Some m1 /\ hydrate_all m1 = Some m2.
  Proof.
    intros H1 H2 H3.
    apply meta_uuid_ok_spec in H1 as [v1 [G1 O1]].
    apply meta_uuid_ok_spec in H2 as [v2 [G2 O2]].
    apply meta_uuid_ok_spec in H3 as [v3 [G3 O3]].
    unfold dehydrate_all, hydrate_all.
    rewrite (dehydrate_ok _ _ _ G1 O1). cbn [bind].
    rewrite (dehydrate_ok K_SelectedFull _ v2) by (try assumption; rewrite yget_yset_other by reflexivity; exact G2).
    cbn [bind].
    rewrite (dehydrate_ok K_SessionID _ v3)
      by (try assumption; rewrite !yget_yset_other by reflexivity; exact G3).
    eexists. eexists. split; [reflexivity|].
    rewrite (hydrate_ok K_AgentID _ v1)
      by (try assumption; rewrite !yget_yset_other by reflexivity; apply yget_yset_same).
    cbn [bind].
    rewrite (hydrate_ok K_SelectedFull _ v2)
      by (try assumption; rewrite !yget_yset_other by reflexivity; apply yget_yset_same).
    cbn [bind].
    rewrite (hydrate_ok K_SessionID _ v3)
      by (try assumption; rewrite !yget_yset_other by reflexivity; apply yget_yset_same).
    reflexivity.
  Qed.

  (* ---------- one entry ---------- *)

  Notation entry_to_dict := (entry_to_dict rreal rdate summ).
  Notation entry_from_dict := (entry_from_dict preal pdate tk).
  Notation norm_entry := (norm_entry summ tk).
  Notation entry_ok := (entry_ok rreal rdate preal pdate tk).

  Theorem entry_roundtrip e :
    entry_ok e = true ->
    exists d e', entry_to_dict e = Some d /\ norm_entry e = Some e' /\ entry_from_dict d = Some e'.
  Proof.
    intros H. unfold Export.entry_ok in H.
    apply andb_prop in H as [H Ha]. apply andb_prop in H as [H H3]. apply andb_prop in H as [H H2].
    apply andb_prop in H as [Hp H1].
    destruct (meta_roundtrip _ H1 H2 H3) as [m1 [m2 [D1 D2]]].
    unfold Export.payload_ok in Hp. apply andb_prop in Hp as [Hp Hwf]. apply andb_prop in Hp as [Hw Ho].
    unfold Export.entry_to_dict, Export.norm_entry, Export.imported_meta. rewrite D1. cbn [bind]. rewrite D2.
    assert (Haid :
      (if y_truthy match le_agent_id e with Some a => YStr (uuid_text a) | None => YNone end
       then match match le_agent_id e with Some a => YStr (uuid_text a) | None => YNone end with
            | YStr s => match uuid_of_str s with Some u => Some (Some u) | None => None end
            | _ => None end
       else Some None) = Some (le_agent_id e)).
    { destruct (le_agent_id e) as [a|]; [|reflexivity].
      destruct (uuid_of_str_text a Ha) as [G1 G2]. cbn [y_truthy]. rewrite G2, G1. reflexivity. }
    destruct e as [rn aid sm meta [m|ev]];
      cbn [le_payload le_meta le_agent_id le_summary le_region_name type_name payload_tree norm_payload] in *.
    - apply andb_prop in Hwf as [Hwf Hr].
      destruct (restore_msg tk (norm_msg m)) as [m'|] eqn:Er; [|discriminate Hr].
      destruct (restore_fields _ _ _ Er) as [Hdir _]. cbn [norm_msg m_direction] in Hdir.
      eexists. eexists. split; [reflexivity|]. split; [reflexivity|].
      unfold Export.entry_from_dict.
      rewrite yget_hd. change (beq K_LLUDP K_LLUDP) with true. cbn match.
      repeat (first [rewrite yget_hd | rewrite yget_tl by reflexivity]).
      fold (Export.notation rreal rdate (to_dict true m)).
      rewrite (of_notation_notation _ Hw Ho). rewrite (from_dict_norm_to_dict m Hwf). rewrite Er.
      unfold Export.apply_dict.
      repeat (first [rewrite yget_hd | rewrite yget_tl by reflexivity]).
      rewrite Haid, D2. unfold base_meta. cbn [method_name type_name]. rewrite Hdir. reflexivity.
    - eexists. eexists. split; [reflexivity|]. split; [reflexivity|].
      unfold Export.entry_from_dict.
      rewrite yget_hd. change (beq K_EQ K_LLUDP) with false. change (beq K_EQ K_EQ) with true. cbn match.
      repeat (first [rewrite yget_hd | rewrite yget_tl by reflexivity]).
      fold (Export.notation rreal rdate ev).
      rewrite (of_notation_notation _ Hw Ho).
      unfold Export.apply_dict.
      repeat (first [rewrite yget_hd | rewrite yget_tl by reflexivity]).
      rewrite Haid, D2. reflexivity.
  Qed.

  (* ---------- lists of entries: export_log_entries / import_log_entries ---------- *)

  Lemma entries_roundtrip es :
    forallb entry_ok es = true ->
    exists ds es', mapM entry_to_dict es = Some ds /\ mapM norm_entry es = Some es' /\ mapM entry_from_dict ds = Some es'.
  Proof.
    induction es as [|e es IH]; intros H.
    - exists [], []. repeat split.
    - cbn [forallb] in H. apply andb_prop in H as [He Hes].
      destruct (entry_roundtrip e He) as [d [e' [E1 [E2 E3]]]].
      destruct (IH Hes) as [ds [es' [F1 [F2 F3]]]].
      exists (d :: ds), (e' :: es'). cbn [mapM]. rewrite E1, F1, E2, F2, E3, F3. repeat split.
  Qed.

  Notation export_payload := (export_payload rreal rdate summ).
  Notation export_log_entries := (export_log_entries rreal rdate summ pyrepr gz).
  Notation import_log_entries := (import_log_entries preal pdate tk pyeval gunz).

  (* import_log_entries(export_log_entries(es)) = the normal forms of es, in order.
     repr / literal_eval and gzip are assumed inverse on the exported value only. *)
  Theorem export_import es :
    forallb entry_ok es = true ->
    exists v es',
      export_payload es = Some v /\ mapM norm_entry es = Some es' /\ length es' = length es /\
      (gunz (gz (pyrepr v)) = Some (pyrepr v) -> pyeval (pyrepr v) = Some v ->
       export_log_entries es = Some (gz (pyrepr v)) /\ import_log_entries (gz (pyrepr v)) = Some es').
  Proof.
    intros H. destruct (entries_roundtrip es H) as [ds [es' [F1 [F2 F3]]]].
    exists (YSeq SList ds), es'. unfold Export.export_payload. rewrite F1.
    split; [reflexivity|]. split; [exact F2|]. split; [apply (mapM_length _ _ _ F2)|].
    intros G1 G2. unfold Export.export_log_entries, Export.export_payload, Export.import_log_entries.
    rewrite F1, G1, G2. split; [reflexivity|exact F3].
  Qed.

  (* ---------- standard entries: the meta comes back exactly ---------- *)

  Lemma hyd_val_std v : is_none_or is_huuid v = true -> hyd_val v = v /\ uuid_val_ok v.
  Proof.
    destruct v; try discriminate; intros H.
    - split; [reflexivity|left; reflexivity].
    - destruct c; [|discriminate H]. split; [reflexivity|]. right. exists UHippo, u. split; [reflexivity|exact H].
  Qed.

  Theorem norm_entry_std e :
    std_meta (le_payload e) (le_meta e) = true ->
    norm_entry e = match norm_payload tk (le_payload e) with
                   | Some p' => Some (mkLE (Some (region_name e)) (le_agent_id e) (Some (summary summ e)) (le_meta e) p')
                   | None => None
                   end.
  Proof.
    destruct e as [rn aid sm meta p]. cbn [le_payload le_meta le_agent_id le_summary le_region_name].
    intros H. unfold std_meta in H.
    destruct meta as [|[k1 v1] [|[k2 a] [|[k3 s] [|[k4 al] [|[k5 v5] [|[k6 v6] [|[k7 sl] [|[k8 sf] [|? ?]]]]]]]]]; try discriminate H.
    repeat (apply andb_prop in H as [H ?]).
    destruct v1 as [| | | |rnv| | | | | | |]; try discriminate.
    destruct v5 as [| | | |me| | | | | | |]; try discriminate.
    destruct v6 as [| | | |ty| | | | | | |]; try discriminate.
    unfold str_is in *.
    repeat match goal with E : beq _ _ = true |- _ => apply beq_eq in E; subst end.
    destruct (hyd_val_std a) as [Ea Oa]; [assumption|].
    destruct (hyd_val_std s) as [Es Os]; [assumption|].
    destruct (hyd_val_std sf) as [Ef Of]; [assumption|].
    unfold Export.norm_entry, Export.imported_meta. cbn [le_payload le_meta le_agent_id le_summary le_region_name].
    unfold dehydrate_all, hydrate_all.
    rewrite (dehydrate_ok K_AgentID _ a) by (try assumption; reflexivity). cbn [bind].
    rewrite (dehydrate_ok K_SelectedFull _ sf) by (try assumption; reflexivity). cbn [bind].
    rewrite (dehydrate_ok K_SessionID _ s) by (try assumption; reflexivity). cbn [bind].
    rewrite (hydrate_ok K_AgentID _ a) by (try assumption; reflexivity). cbn [bind].
    rewrite (hydrate_ok K_SelectedFull _ sf) by (try assumption; reflexivity). cbn [bind].
    rewrite (hydrate_ok K_SessionID _ s) by (try assumption; reflexivity).
    rewrite Ea, Es, Ef. reflexivity.
  Qed.

  (* ---------- exactness and stability ---------- *)

  (* the payload has the classes the deserializer / the llsd parser gives it *)
  Definition exact_payload (p : payload) : bool :=
    match p with PUdp m => deser_classes tk m | PEq ev => plain ev end.
  Definition flat_payload (p : payload) : payload :=
    match p with PUdp m => PUdp (flat m) | PEq ev => PEq ev end.

  Lemma norm_payload_exact p : exact_payload p = true -> norm_payload tk p = Some (flat_payload p).
  Proof.
    destruct p as [m|ev]; cbn [exact_payload norm_payload flat_payload]; intros H.
    - rewrite (restore_exact tk m H). reflexivity.
    - rewrite (plain_norm ev H). reflexivity.
  Qed.

  (* a standard entry around a message with the deserializer's classes (every entry the
     proxy logs from the wire): export / import gives the entry back EXACTLY - same region
     name, agent id, summary, meta, and the same message: name, block lists, variables,
     values and their classes, packet id, meta, flags, direction; extra as bytes, acks as a list *)
  Theorem export_import_exact e :
    std_meta (le_payload e) (le_meta e) = true -> exact_payload (le_payload e) = true ->
    norm_entry e = Some (mkLE (Some (region_name e)) (le_agent_id e) (Some (summary summ e)) (le_meta e)
                               (flat_payload (le_payload e))).
  Proof. intros Hs Hx. rewrite (norm_entry_std e Hs), (norm_payload_exact _ Hx). reflexivity. Qed.

  Lemma flat_payload_facts p :
    exact_payload (flat_payload p) = exact_payload p /\ flat_payload (flat_payload p) = flat_payload p
    /\ payload_tree (flat_payload p) = payload_tree p /\ std_meta (flat_payload p) = std_meta p.
  Proof. destruct p; repeat split. Qed.

  Lemma is_huuid_ok v : is_none_or is_huuid v = true ->
    match v with YNone => true | YUuid _ u => uuid_ok u | _ => false end = true.
  Proof. destruct v; try discriminate; [reflexivity|]. destruct c; [|discriminate]. exact (fun H => H). Qed.

  Lemma std_meta_uuid_ok p meta :
    std_meta p meta = true ->
    meta_uuid_ok K_AgentID meta = true /\ meta_uuid_ok K_SelectedFull meta = true /\ meta_uuid_ok K_SessionID meta = true.
  Proof.
    intros H. unfold std_meta in H.
    destruct meta as [|[k1 v1] [|[k2 a] [|[k3 s] [|[k4 al] [|[k5 v5] [|[k6 v6] [|[k7 sl] [|[k8 sf] [|? ?]]]]]]]]]; try discriminate H.
    repeat (apply andb_prop in H as [H ?]).
    repeat match goal with E : beq _ _ = true |- _ => apply beq_eq in E; subst end.
    unfold meta_uuid_ok.
    repeat split; repeat (first [rewrite yget_hd | rewrite yget_tl by reflexivity]); apply is_huuid_ok; assumption.
  Qed.

  Lemma payload_ok_flat p :
    exact_payload p = true ->
    payload_ok rreal rdate preal pdate tk p = true -> payload_ok rreal rdate preal pdate tk (flat_payload p) = true.
  Proof.
    intros Hx. unfold payload_ok. destruct (flat_payload_facts p) as [_ [_ [Ht _]]]. rewrite Ht.
    intros H. apply andb_prop in H as [H1 H2]. rewrite H1. cbn [andb].
    destruct p as [m|ev]; cbn [flat_payload exact_payload] in *; [|reflexivity].
    apply andb_prop in H2 as [H2 _]. change (wf_msg (flat m)) with (wf_msg m). rewrite H2. cbn [andb].
    rewrite (restore_exact tk (flat m)); [reflexivity|exact Hx].
  Qed.

  (* ... and the imported entry is standard, exact and well formed again, and a fixed point:
     exporting and importing an imported log reproduces it *)
  Theorem export_import_stable e e' :
    entry_ok e = true -> std_meta (le_payload e) (le_meta e) = true -> exact_payload (le_payload e) = true ->
    norm_entry e = Some e' ->
    entry_ok e' = true /\ std_meta (le_payload e') (le_meta e') = true /\ exact_payload (le_payload e') = true
    /\ norm_entry e' = Some e'.
  Proof.
    intros Hok Hstd Hx Hn. rewrite (export_import_exact e Hstd Hx) in Hn. injection Hn as <-.
    cbn [le_payload le_meta le_agent_id].
    destruct (flat_payload_facts (le_payload e)) as [F1 [F2 [F3 F4]]].
    assert (Hstd' : std_meta (flat_payload (le_payload e)) (le_meta e) = true) by (rewrite F4; exact Hstd).
    assert (Hx' : exact_payload (flat_payload (le_payload e)) = true) by (rewrite F1; exact Hx).
    split; [|split; [exact Hstd'|split; [exact Hx'|]]].
    - unfold Export.entry_ok in *. cbn [le_payload le_meta le_agent_id].
      apply andb_prop in Hok as [Hok Ha]. apply andb_prop in Hok as [Hok H3]. apply andb_prop in Hok as [Hok H2].
      apply andb_prop in Hok as [Hp H1].
      rewrite (payload_ok_flat _ Hx Hp), H1, H2, H3, Ha. reflexivity.
    - rewrite export_import_exact by assumption.
      cbn [le_payload le_meta le_agent_id]. unfold region_name, summary. cbn [le_region_name le_summary].
      rewrite F2. reflexivity.
  Qed.
End Entries.

(* ---------- freeze / thaw ---------- *)

Section Freeze.
  Variable pk : option msg -> list N.
  Variable unpk : list N -> option (option msg).

  (* pickle.loads(pickle.dumps(x)) == x and the pickle is not empty - assumed of the
     objects that are actually pickled only *)
  Definition pickles (x : option msg) : Prop := unpk (pk x) = Some x /\ y_nonempty (pk x) = true.

  (* a live entry aliases the message: it shows whatever the message holds now *)
  Lemma live_aliases h r :
    forall h', u_msg unpk h' (u_init h r) = Some (h' r)
               /\ u_get_name h' (u_init h r) = m_name (h' r)
               /\ u_get_seq h' (u_init h r) = m_packet_id (h' r).
  Proof. intros h'. repeat split. Qed.

  Lemma freeze_live rp h u r :
    u_message u = Some r ->
    u_freeze rp pk unpk h u = Some (mkU None (Some (pk (Some (h r)))) (u_name u) (u_direction u) (u_seq u)).
  Proof. intros Hr. unfold u_freeze, u_msg. rewrite Hr. destruct rp; reflexivity. Qed.

  (* thaw(freeze) is the message at the time of the freeze, whatever happens to the live
     object afterwards: the frozen entry no longer references it *)
  Theorem freeze_thaw rp h u r :
    u_message u = Some r -> pickles (Some (h r)) ->
    exists u', u_freeze rp pk unpk h u = Some u'
               /\ u_message u' = None
               /\ forall h', u_msg unpk h' u' = Some (h r).
  Proof.
    intros Hr [P1 P2]. rewrite (freeze_live rp h u r Hr).
    eexists. split; [reflexivity|]. split; [reflexivity|]. intros h'.
    unfold u_msg. cbn [u_message u_frozen]. rewrite P2, P1. reflexivity.
  Qed.

  (* with the properties read at freeze time (as a filter does), the cached name, method
     and seq are those of the frozen message *)
  Theorem freeze_caches rp h u r u' :
    u_message u = Some r -> u_freeze rp pk unpk h (u_touch h u) = Some u' ->
    forall h', u_get_name h' u' = m_name (h r)
               /\ u_get_method h' u' = dir_name (m_direction (h r))
               /\ u_get_seq h' u' = m_packet_id (h r).
  Proof.
    intros Hr Hf h'. unfold u_touch in Hf. rewrite Hr in Hf.
    rewrite (freeze_live rp h _ r) in Hf by reflexivity.
    cbn [u_message u_frozen u_name u_direction u_seq] in Hf. injection Hf as <-. repeat split.
  Qed.

  (* ... and without such a read the caches can be stale *)
  Definition stale_m0 : msg := mkMsg [] [] (Some 1%Z) [] false false DOut 0%Z BPlain [] STuple [].
  Definition stale_m1 : msg := mkMsg [] [] (Some 2%Z) [] false false DOut 0%Z BPlain [] STuple [].

  Lemma stale_seq_possible rp :
    pickles (Some stale_m1) ->
    exists u', u_freeze rp pk unpk (fun _ => stale_m1) (u_init (fun _ => stale_m0) O) = Some u'
      /\ u_msg unpk (fun _ => stale_m1) u' = Some stale_m1
      /\ u_get_seq (fun _ => stale_m1) u' = Some 1%Z /\ m_packet_id stale_m1 = Some 2%Z.
  Proof.
    intros [P1 P2]. rewrite (freeze_live rp _ _ O) by reflexivity.
    eexists. split; [reflexivity|]. unfold u_msg. cbn [u_message u_frozen]. rewrite P2, P1. repeat split.
  Qed.

  (* freeze() as it stands pickles self._message: a second freeze() stores the pickle of
     None and the entry is lost *)
  Theorem freeze_twice_refuted h u r :
    u_message u = Some r -> pickles (Some (h r)) -> pickles None ->
    exists u2, u_freeze_n false pk unpk 2 h u = Some u2
               /\ u_msg unpk h u2 = None /\ u_freeze false pk unpk h u2 = None.
  Proof.
    intros Hr [P1 P2] [Q1 Q2]. cbn [u_freeze_n]. rewrite (freeze_live false h u r Hr).
    unfold u_freeze, u_msg. cbn [u_message u_frozen u_name u_direction u_seq].
    rewrite P2, P1. eexists. split; [reflexivity|].
    cbn [u_message u_frozen]. rewrite Q2, Q1. split; reflexivity.
  Qed.

  (* pickling the resolved message instead makes freeze() idempotent *)
  Lemma freeze_frozen_fixed h u m :
    pickles (Some m) ->
    u_message u = None -> u_frozen u = Some (pk (Some m)) ->
    u_freeze true pk unpk h u = Some u /\ forall h', u_msg unpk h' u = Some m.
  Proof.
    intros [P1 P2] H1 H2. unfold u_freeze, u_msg. rewrite H1, H2, P2, P1.
    split; [|reflexivity]. destruct u as [a b c d e]. cbn in *. subst. reflexivity.
  Qed.

  Theorem freeze_idempotent h u r n :
    u_message u = Some r -> pickles (Some (h r)) ->
    exists u', u_freeze_n true pk unpk (S n) h u = Some u' /\ forall h', u_msg unpk h' u' = Some (h r).
  Proof.
    intros Hr P. cbn [u_freeze_n]. rewrite (freeze_live true h u r Hr).
    set (u1 := mkU None (Some (pk (Some (h r)))) (u_name u) (u_direction u) (u_seq u)).
    assert (F : u_freeze true pk unpk h u1 = Some u1 /\ forall h', u_msg unpk h' u1 = Some (h r))
      by (apply freeze_frozen_fixed; [exact P|reflexivity|reflexivity]).
    exists u1. split; [|apply F].
    induction n as [|n IH]; [reflexivity|]. cbn [u_freeze_n]. rewrite (proj1 F). exact IH.
  Qed.

  (* export of a frozen entry is export of the snapshot *)
  Lemma resolve_frozen rp h u r u' rn aid sm meta :
    u_message u = Some r -> pickles (Some (h r)) -> u_freeze rp pk unpk h u = Some u' ->
    forall h', resolve unpk h' u' rn aid sm meta = Some (mkLE rn aid sm meta (PUdp (h r))).
  Proof.
    intros Hr P Hf h'. destruct (freeze_thaw rp h u r Hr P) as [u'' [F [_ T]]].
    rewrite F in Hf. injection Hf as <-. unfold resolve. rewrite T. reflexivity.
  Qed.
End Freeze.

(* ---------- statements as used by Props/C18.v ---------- *)

Theorem dict_roundtrip m :
  wf_msg m = true ->
  from_dict (to_dict true m) = Some (plain_extra m)
  /\ from_dict (norm (to_dict true m)) = Some (norm_msg m)
  /\ msg_tree (norm_msg m) = msg_tree m
  /\ norm_msg (norm_msg m) = norm_msg m
  /\ wf_msg (norm_msg m) = true.
Proof.
  intros H. split; [apply from_dict_to_dict, H|]. split; [apply from_dict_norm_to_dict, H|].
  split; [apply msg_tree_norm|]. split; [apply norm_msg_idem|]. rewrite wf_msg_norm. exact H.
Qed.

Theorem dict_roundtrip_plain m :
  wf_msg m = true -> plain_msg m = true -> from_dict (norm (to_dict true m)) = Some m.
Proof. intros H Hp. rewrite from_dict_norm_to_dict by exact H. rewrite norm_msg_plain by exact Hp. reflexivity. Qed.

(* what the tree cannot carry: the class of a coordinate, of stringy bytes, of a UUID, tuple
   vs list, bytearray *)
Definition lossy_msg : msg :=
  mkMsg [70] [([66], [[([86], YCoord CVec3 [0; 0; 0]); ([74], YBytes BJank [97; 0]);
                       ([85], YUuid UHippo [0;0;0;0;0;0;0;0;0;0;0;0;0;0;0;5]); ([84], YSeq STuple [YInt 1]);
                       ([65], YBytes BArray [120; 121])]])]
        (Some 1%Z) [] false false DOut 0%Z BArray [1] STuple [YInt 2].

Theorem classes_lost :
  wf_msg lossy_msg = true
  /\ norm_msg lossy_msg =
     mkMsg [70] [([66], [[([86], YSeq SList [YFloat 0; YFloat 0; YFloat 0]); ([74], YBytes BPlain [97; 0]);
                          ([85], YUuid UStd [0;0;0;0;0;0;0;0;0;0;0;0;0;0;0;5]); ([84], YSeq SList [YInt 1]);
                          ([65], YSeq SList [YInt 120; YInt 121])]])]
           (Some 1%Z) [] false false DOut 0%Z BPlain [1] SList [YInt 2]
  /\ norm_msg lossy_msg <> lossy_msg.
Proof. split; [reflexivity|]. split; [reflexivity|]. discriminate. Qed.

(* ---------- a concrete instance (non-vacuity) ---------- *)

Definition ex_rreal (b : N) : list N := if b =? 4609434218613702656 then [49; 46; 53] else [45; 49; 101; 45; 51; 48].
Definition ex_preal (t : list N) : option N :=
  match t with [49; 46; 53] => Some 4609434218613702656 | _ => Some 13165911115232485376 end.
Definition ex_rdate (b : N) : list N := [50; 48; 50; 48; 45; 48; 49; 45; 48; 50; 84; 48; 51; 58; 48; 52; 58; 48; 53; 90].
Definition ex_pdate (t : list N) : option N := Some 4743174593368195072.

Lemma ex_real_scan : forall b rest, stopb rest = true -> scan_real (ex_rreal b ++ rest) = Some (ex_rreal b, rest).
Proof.
  intros b [|c r] H; unfold ex_rreal; destruct (b =? 4609434218613702656); try reflexivity;
    cbn [stopb] in H; apply orb_prop in H as [H|H]; [apply orb_prop in H as [H|H]| | apply orb_prop in H as [H|H]|];
    apply N.eqb_eq in H; subst c; reflexivity.
Qed.

Lemma ex_date_plain : forall b, forallb plain_byte (ex_rdate b) = true.
Proof. reflexivity. Qed.

Definition ex_uuid : list N := [0; 1; 2; 3; 4; 5; 6; 7; 8; 9; 10; 11; 12; 13; 14; 255].
Definition F15 : N := 4609434218613702656.

(* message "Foo": block list Bar with two blocks (a Vector3, stringy bytes, a UUID, a str with a
   quote and a newline, a negative int, a list holding None and True; a float), a
   present-but-empty block list E, packet id 7, meta, direction IN, flags 0x40, a bytearray
   extra, two acks in a tuple *)
Definition ex_msg : msg :=
  mkMsg [70; 111; 111]
        [([66; 97; 114],
          [[([86], YCoord CVec3 [F15; F15; F15]); ([74], YBytes BJank [97; 0]); ([85], YUuid UHippo ex_uuid);
            ([83], YStr [104; 39; 10]); ([73], YInt (-5)); ([84], YSeq SList [YInt 1; YNone; YBool true])];
           [([86], YFloat F15)]]);
         ([69], [])]
        (Some 7%Z) [([107], YInt 3)] false false DIn 64%Z BArray [1; 2] STuple [YInt 1; YInt 2].

(* the template facts about it: Foo.Bar.V is an LLVector3, Foo.Bar.J a Variable that is not
   probably_binary *)
Definition ex_tk : tmpl := fun mn bn vn =>
  if beq mn [70; 111; 111] && beq bn [66; 97; 114] then
    if beq vn [86] then Some (KCoord CVec3) else if beq vn [74] then Some KStringy else None
  else None.

Definition ex_meta (ty me : list N) : list (list N * yv) :=
  [(K_RegionName, YStr [82]); (K_AgentID, YUuid UHippo ex_uuid); (K_SessionID, YNone); (K_AgentLocal, YInt 9);
   (K_Method, YStr me); (K_Type, YStr ty); (K_SelectedLocal, YNone); (K_SelectedFull, YUuid UHippo ex_uuid)].

Definition ex_entry : lentry := mkLE (Some [82]) (Some ex_uuid) None (ex_meta K_LLUDP K_IN) (PUdp ex_msg).
Definition ex_eq_entry : lentry :=
  mkLE None None (Some [115]) (ex_meta K_EQ [])
          (PEq (YDict [(K_message, YStr [88]); (K_body, YDict [([97], YSeq SList [YInt 1; YUuid UStd ex_uuid])])])).
Definition ex_summ (p : payload) : list N := [115; 117; 109].

Lemma ex_entries_ok :
  wf_msg ex_msg = true /\ plain_msg ex_msg = false /\ deser_classes ex_tk ex_msg = true
  /\ forallb (entry_ok ex_rreal ex_rdate ex_preal ex_pdate ex_tk) [ex_entry; ex_eq_entry] = true
  /\ std_meta (le_payload ex_entry) (le_meta ex_entry) = true
  /\ std_meta (le_payload ex_eq_entry) (le_meta ex_eq_entry) = true.
Proof. vm_compute. repeat split. Qed.

(* repr / literal_eval instantiated with a genuine serialisation (LLSD notation itself: the
   exported value is plain), gzip with the identity *)
Definition ex_payload : yv :=
  match export_payload ex_rreal ex_rdate ex_summ [ex_entry; ex_eq_entry] with Some v => v | None => YNone end.

Lemma ex_export_import :
  let pyrepr := notation ex_rreal ex_rdate in
  let pyeval := of_notation ex_preal ex_pdate in
  let gz := fun x : list N => x in
  let gunz := fun x : list N => Some x in
  export_payload ex_rreal ex_rdate ex_summ [ex_entry; ex_eq_entry] = Some ex_payload
  /\ gunz (gz (pyrepr ex_payload)) = Some (pyrepr ex_payload) /\ pyeval (pyrepr ex_payload) = Some ex_payload
  /\ bind (export_log_entries ex_rreal ex_rdate ex_summ pyrepr gz [ex_entry; ex_eq_entry])
          (import_log_entries ex_preal ex_pdate ex_tk pyeval gunz)
     = Some [mkLE (Some [82]) (Some ex_uuid) (Some [115; 117; 109]) (ex_meta K_LLUDP K_IN) (PUdp (flat ex_msg));
             mkLE (Some []) None (Some [115]) (ex_meta K_EQ []) (le_payload ex_eq_entry)]
  /\ m_blocks (flat ex_msg) = m_blocks ex_msg
  (* without the template facts the same message comes back in normal form only *)
  /\ restore_msg (fun _ _ _ => None) (norm_msg ex_msg) <> Some (flat ex_msg).
Proof.
  vm_compute. split; [reflexivity|]. split; [reflexivity|]. split; [reflexivity|]. split; [reflexivity|].
  split; [reflexivity|]. discriminate.
Qed.

Definition ex_pk (x : option msg) : list N := match x with None => [78] | Some _ => [1] end.
Definition ex_unpk (b : list N) : option (option msg) :=
  match b with [78] => Some None | _ => Some (Some ex_msg) end.

Lemma ex_freeze :
  pickles ex_pk ex_unpk (Some ex_msg) /\ pickles ex_pk ex_unpk None
  /\ u_message (u_init (fun _ => ex_msg) 3) = Some 3%nat
  /\ (exists u', u_freeze false ex_pk ex_unpk (fun _ => ex_msg) (u_init (fun _ => ex_msg) 3) = Some u'
                 /\ u_msg ex_unpk (fun _ => lossy_msg) u' = Some ex_msg).
Proof. repeat split. eexists. split; reflexivity. Qed.
