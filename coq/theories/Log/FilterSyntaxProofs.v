(* Proofs about the concrete syntax of the filter language (Log/FilterSyntax.v):
   the parser reads back every rendering (the printed text up to whitespace between
   tokens and redundant parentheses) of every well-formed filter. *)
From Coq Require Import NArith ZArith List Bool Ascii Lia ZifyBool ZifyNat ZifyN.
From HV Require Import Log.Filter Log.FilterSyntax.
Import ListNotations.
Local Open Scope char_scope.
Local Open Scope list_scope.

(* ------------------------------------------------------------------ *)
(* characters *)

Ltac all_chars c := destruct c as [[] [] [] [] [] [] [] []].

Lemma code_chr : forall n, small n = true -> code (chr n) = n.
Proof.
  intros n H. unfold code, chr, small in *. apply N_ascii_embedding. lia.
Qed.

Lemma chr_code : forall c, chr (code c) = c.
Proof. intros c. apply ascii_N_embedding. Qed.

Lemma map_code_chr : forall l, forallb small l = true -> map code (map chr l) = l.
Proof.
  induction l as [|a l IH]; cbn; intros H; [reflexivity|].
  apply andb_true_iff in H as [H1 H2]. now rewrite code_chr, IH.
Qed.

(* the characters that may follow a complete token of a rendering *)
Definition follow_char (c : ascii) : bool :=
  (is_ws c || Ascii.eqb c ")" || Ascii.eqb c "&" || Ascii.eqb c "|" || Ascii.eqb c ",")%bool.

Definition stops (P : ascii -> bool) (x : text) : Prop :=
  match x with [] => True | c :: _ => P c = false end.

Definition fstop (x : text) : Prop :=
  match x with [] => True | c :: _ => follow_char c = true end.

Definition forall_bool (f : bool -> bool) : bool := (f true && f false)%bool.
Definition forall_ascii (P : ascii -> bool) : bool :=
  forall_bool (fun b0 => forall_bool (fun b1 => forall_bool (fun b2 => forall_bool (fun b3 =>
  forall_bool (fun b4 => forall_bool (fun b5 => forall_bool (fun b6 => forall_bool (fun b7 =>
    P (Ascii b0 b1 b2 b3 b4 b5 b6 b7))))))))).

Lemma forall_bool_spec : forall f, forall_bool f = true -> forall b, f b = true.
Proof. intros f H b. unfold forall_bool in H. apply andb_true_iff in H as [H1 H2]. now destruct b. Qed.

Lemma forall_ascii_spec : forall P, forall_ascii P = true -> forall c, P c = true.
Proof.
  intros P H [b0 b1 b2 b3 b4 b5 b6 b7]. unfold forall_ascii in H.
  pose proof (forall_bool_spec _ H b0) as H0. cbv beta in H0.
  pose proof (forall_bool_spec _ H0 b1) as H1. cbv beta in H1.
  pose proof (forall_bool_spec _ H1 b2) as H2. cbv beta in H2.
  pose proof (forall_bool_spec _ H2 b3) as H3. cbv beta in H3.
  pose proof (forall_bool_spec _ H3 b4) as H4. cbv beta in H4.
  pose proof (forall_bool_spec _ H4 b5) as H5. cbv beta in H5.
  pose proof (forall_bool_spec _ H5 b6) as H6. cbv beta in H6.
  exact (forall_bool_spec _ H6 b7).
Qed.

(* A c = true -> B c = false for all 256 characters, by computation *)
Lemma chars_excl : forall A B : ascii -> bool,
  forall_ascii (fun c => implb (A c) (negb (B c))) = true -> forall c, A c = true -> B c = false.
Proof.
  intros A B H c Ha. pose proof (forall_ascii_spec _ H c) as Hc. cbv beta in Hc.
  rewrite Ha in Hc. cbn in Hc. now apply negb_true_iff.
Qed.
Lemma chars_incl : forall A B : ascii -> bool,
  forall_ascii (fun c => implb (A c) (B c)) = true -> forall c, A c = true -> B c = true.
Proof.
  intros A B H c Ha. pose proof (forall_ascii_spec _ H c) as Hc. cbv beta in Hc.
  now rewrite Ha in Hc.
Qed.
Ltac excl A B := exact (chars_excl A B ltac:(vm_compute; reflexivity)).
Ltac incl A B := exact (chars_incl A B ltac:(vm_compute; reflexivity)).

Lemma follow_not_idrest : forall c, follow_char c = true -> is_idrest c = false.
Proof. excl follow_char is_idrest. Qed.
Lemma follow_not_digit : forall c, follow_char c = true -> is_digit c = false.
Proof. excl follow_char is_digit. Qed.
Lemma follow_not_dot : forall c, follow_char c = true -> Ascii.eqb c "." = false.
Proof. excl follow_char (fun c => Ascii.eqb c "."). Qed.
Lemma follow_not_x : forall c, follow_char c = true -> Ascii.eqb c "x" = false.
Proof. excl follow_char (fun c => Ascii.eqb c "x"). Qed.
Lemma ws_follow : forall c, is_ws c = true -> follow_char c = true.
Proof. intros c H. unfold follow_char. now rewrite H. Qed.
Lemma idstart_not_ws : forall c, is_idstart c = true -> is_ws c = false.
Proof. excl is_idstart is_ws. Qed.
Lemma idstart_idrest : forall c, is_idstart c = true -> is_idrest c = true.
Proof. incl is_idstart is_idrest. Qed.
Lemma idrest_not_ws : forall c, is_idrest c = true -> is_ws c = false.
Proof. excl is_idrest is_ws. Qed.
Lemma idrest_not_dot : forall c, is_idrest c = true -> Ascii.eqb "." c = false.
Proof. excl is_idrest (fun c => Ascii.eqb "." c). Qed.
Lemma idrest_not_quote : forall c, is_idrest c = true -> is_quote c = false.
Proof. excl is_idrest is_quote. Qed.
Lemma ws_not_quote : forall c, is_ws c = true -> is_quote c = false.
Proof. excl is_ws is_quote. Qed.
Lemma idstart_not_digit : forall c, is_idstart c = true -> is_digit c = false.
Proof. excl is_idstart is_digit. Qed.
Lemma digit_not_ws : forall c, is_digit c = true -> is_ws c = false.
Proof. excl is_digit is_ws. Qed.
Lemma digit_not_quote : forall c, is_digit c = true -> is_quote c = false.
Proof. excl is_digit is_quote. Qed.
Lemma digit_not_b : forall c, is_digit c = true -> Ascii.eqb c "b" = false.
Proof. excl is_digit (fun c => Ascii.eqb c "b"). Qed.
Lemma digit_not_x : forall c, is_digit c = true -> Ascii.eqb c "x" = false.
Proof. excl is_digit (fun c => Ascii.eqb c "x"). Qed.
Lemma digit_not_dot : forall c, is_digit c = true -> Ascii.eqb c "." = false.
Proof. excl is_digit (fun c => Ascii.eqb c "."). Qed.

Lemma eqb_false_of : forall (P : ascii -> bool) a c, P a = true -> P c = false -> Ascii.eqb a c = false.
Proof.
  intros P a c Ha Hc. destruct (Ascii.eqb_spec a c) as [->|]; [congruence|reflexivity].
Qed.

(* ------------------------------------------------------------------ *)
(* whitespace, prefixes, spans *)

Lemma ws_only_app : forall a b, ws_only a -> ws_only b -> ws_only (a ++ b).
Proof. unfold ws_only. intros a b Ha Hb. now rewrite forallb_app, Ha, Hb. Qed.

Lemma ws_only_nil : ws_only [].
Proof. reflexivity. Qed.

Lemma skip_ws_app : forall w x, ws_only w -> skip_ws (w ++ x) = skip_ws x.
Proof.
  induction w as [|c w IH]; intros x H; [reflexivity|].
  unfold ws_only in H. cbn in H. apply andb_true_iff in H as [H1 H2].
  cbn [app skip_ws]. rewrite H1. now apply IH.
Qed.

Lemma skip_ws_cons : forall c r, is_ws c = false -> skip_ws (c :: r) = c :: r.
Proof. intros c r H. cbn. now rewrite H. Qed.

Lemma skip_ws_head : forall x, match skip_ws x with [] => True | c :: _ => is_ws c = false end.
Proof.
  induction x as [|c x IH]; cbn; [exact I|].
  destruct (is_ws c) eqn:E; [exact IH|exact E].
Qed.

Lemma skip_ws_idem : forall x, skip_ws (skip_ws x) = skip_ws x.
Proof.
  intros x. pose proof (skip_ws_head x) as H. destruct (skip_ws x) as [|c r]; [reflexivity|].
  now apply skip_ws_cons.
Qed.

Lemma prefix_app : forall p x, prefix p (p ++ x) = Some x.
Proof.
  induction p as [|c p IH]; intros x; [reflexivity|].
  cbn. now rewrite Ascii.eqb_refl.
Qed.

Lemma tok_ok : forall c p w x, ws_only w -> is_ws c = false -> tok (c :: p) (w ++ c :: p ++ x) = Some x.
Proof.
  intros c p w x Hw Hc. unfold tok. rewrite skip_ws_app by exact Hw.
  rewrite skip_ws_cons by exact Hc. exact (prefix_app (c :: p) x).
Qed.

Lemma tok_skip : forall p x, tok p (skip_ws x) = tok p x.
Proof. intros. unfold tok. now rewrite skip_ws_idem. Qed.

Lemma span_app : forall P a x, forallb P a = true -> stops P x -> span P (a ++ x) = (a, x).
Proof.
  induction a as [|c a IH]; intros x Ha Hx.
  - cbn. destruct x as [|d x]; [reflexivity|]. cbn in Hx. cbn. now rewrite Hx.
  - cbn in Ha. apply andb_true_iff in Ha as [H1 H2]. cbn. rewrite H1, IH; auto.
Qed.

(* ------------------------------------------------------------------ *)
(* identifiers and dotted selectors *)

Lemma wf_ident_inv : forall i, wf_ident i = true ->
  forallb small i = true /\ exists c r, print_id i = c :: r /\ is_idstart c = true /\ forallb is_idrest r = true.
Proof.
  intros i H. unfold wf_ident in H. apply andb_true_iff in H as [H1 H2]. split; [exact H1|].
  unfold print_id. destruct (map chr i) as [|c r]; [discriminate|].
  apply andb_true_iff in H2 as [H2 H3]. eauto.
Qed.

Lemma identifier_ok : forall i w x, wf_ident i = true -> ws_only w -> stops is_idrest x ->
  identifier (w ++ print_id i ++ x) = Some (i, x).
Proof.
  intros i w x Hi Hw Hx. destruct (wf_ident_inv i Hi) as (Hs & c & r & E & Hc & Hr).
  unfold identifier. rewrite skip_ws_app by exact Hw. rewrite E. cbn [app].
  rewrite skip_ws_cons by (now apply idstart_not_ws). rewrite Hc.
  rewrite span_app by assumption. rewrite <- E. unfold print_id. now rewrite map_code_chr.
Qed.

Lemma identifier_none : forall w c x, ws_only w -> is_ws c = false -> is_idstart c = false ->
  identifier (w ++ c :: x) = None.
Proof.
  intros w c x Hw H1 H2. unfold identifier. rewrite skip_ws_app by exact Hw.
  rewrite skip_ws_cons by exact H1. now rewrite H2.
Qed.

Lemma print_id_stops : forall i x, wf_ident i = true -> exists c r, print_id i ++ x = c :: r /\ is_idstart c = true.
Proof.
  intros i x Hi. destruct (wf_ident_inv i Hi) as (_ & c & r & E & Hc & _).
  exists c, (r ++ x). now rewrite E.
Qed.

Lemma stops_ws_dot : forall w x, ws_only w -> stops is_idrest (w ++ "." :: x).
Proof.
  intros [|c w] x H; cbn; [reflexivity|].
  unfold ws_only in H. cbn in H. apply andb_true_iff in H as [H _].
  destruct (is_idrest c) eqn:E; [|reflexivity]. apply idrest_not_ws in E. congruence.
Qed.

Lemma r_dots_stops : forall l t x, r_dots l t -> stops is_idrest x -> stops is_idrest (t ++ x).
Proof.
  intros l t x H Hx. destruct H as [|i l t w1 w2 H1 H2 H]; [exact Hx|].
  rewrite <- app_assoc. cbn [app]. now apply stops_ws_dot.
Qed.

Lemma r_dots_len : forall l t, r_dots l t -> length l <= length t.
Proof.
  induction 1 as [|i l t w1 w2 H1 H2 H IH]; [cbn; lia|].
  rewrite app_length. cbn [length]. rewrite !app_length. cbn [length]. lia.
Qed.

(* what may follow a selector: no identifier character, and after whitespace no dot *)
Definition sel_stop (x : text) : Prop := stops is_idrest x /\ tok ["."] x = None.

Lemma dotted_ok : forall l t, r_dots l t -> forallb wf_ident l = true ->
  forall n x, length l <= n -> sel_stop x -> dotted n (t ++ x) = (l, x).
Proof.
  induction 1 as [|i l t w1 w2 H1 H2 H IH]; intros Hl n x Hn [Hx1 Hx2].
  - cbn [app]. destruct n; cbn [dotted]; [reflexivity|]. now rewrite Hx2.
  - cbn in Hl. apply andb_true_iff in Hl as [Hi Hl].
    destruct n as [|n]; [cbn in Hn; lia|]. cbn [dotted].
    rewrite <- app_assoc. cbn [app].
    replace (w1 ++ "." :: (w2 ++ print_id i ++ t) ++ x) with (w1 ++ "." :: [] ++ ((w2 ++ print_id i ++ t) ++ x)) by reflexivity.
    rewrite tok_ok by (auto; reflexivity).
    rewrite <- !app_assoc.
    rewrite identifier_ok; auto.
    + rewrite IH; auto. cbn in Hn. lia. split; assumption.
    + eapply r_dots_stops; eauto.
Qed.

Lemma field_specifier_ok : forall s0 rest t w x, r_dots rest t ->
  wf_ident s0 = true -> forallb wf_ident rest = true -> ws_only w -> sel_stop x ->
  field_specifier (w ++ print_id s0 ++ t ++ x) = Some (s0, rest, x).
Proof.
  intros s0 rest t w x Hd H0 Hr Hw Hx. unfold field_specifier.
  rewrite identifier_ok; auto.
  - rewrite (dotted_ok rest t Hd Hr); auto.
    rewrite app_length. pose proof (r_dots_len _ _ Hd). lia.
  - eapply r_dots_stops; eauto. apply Hx.
Qed.

Lemma field_specifier_none : forall w c x, ws_only w -> is_ws c = false -> is_idstart c = false ->
  field_specifier (w ++ c :: x) = None.
Proof. intros. unfold field_specifier. now rewrite identifier_none. Qed.

(* ------------------------------------------------------------------ *)
(* operators and connectives *)

Definition not_eq_head (x : text) : Prop :=
  match x with [] => True | c :: _ => Ascii.eqb "=" c = false end.

Lemma operator_ok : forall o w x, ws_only w -> not_eq_head x ->
  operator (w ++ print_op o ++ x) = Some (o, x).
Proof.
  intros o w x Hw Hx. unfold operator. rewrite skip_ws_app by exact Hw.
  destruct o; cbn; try reflexivity.
  - destruct x as [|c x]; [reflexivity|]. cbn in Hx. now rewrite Hx.
  - destruct x as [|c x]; [reflexivity|]. cbn in Hx. now rewrite Hx.
Qed.

Lemma connective_and : forall w x, ws_only w -> connective (w ++ "&" :: "&" :: x) = Some (true, x).
Proof. intros w x Hw. unfold connective. now rewrite skip_ws_app. Qed.

Lemma connective_or : forall w x, ws_only w -> connective (w ++ "|" :: "|" :: x) = Some (false, x).
Proof. intros w x Hw. unfold connective. now rewrite skip_ws_app. Qed.

(* what may follow a term / an expression of a rendering *)
Definition ft (x : text) : Prop :=
  skip_ws x = [] \/ (exists z, skip_ws x = ")" :: z) \/
  (exists z, skip_ws x = "&" :: "&" :: z) \/ (exists z, skip_ws x = "|" :: "|" :: z).
Definition fe (x : text) : Prop := skip_ws x = [] \/ (exists z, skip_ws x = ")" :: z).

Lemma fe_ft : forall x, fe x -> ft x.
Proof. intros x [H|H]; [left|right; left]; exact H. Qed.

Lemma ft_fstop : forall x, ft x -> fstop x.
Proof.
  intros [|c x] H; [exact I|]. cbn. destruct (is_ws c) eqn:E; [now apply ws_follow|].
  unfold ft in H. rewrite skip_ws_cons in H by exact E.
  destruct H as [H|[[z H]|[[z H]|[z H]]]]; inversion H; reflexivity.
Qed.

Lemma fstop_idrest : forall x, fstop x -> stops is_idrest x.
Proof. intros [|c x] H; [exact I|]. cbn in *. now apply follow_not_idrest. Qed.

Lemma ft_sel_stop : forall x, ft x -> sel_stop x.
Proof.
  intros x H. split; [now apply fstop_idrest, ft_fstop|].
  unfold tok. destruct H as [H|[[z H]|[[z H]|[z H]]]]; rewrite H; reflexivity.
Qed.

Lemma ft_ws : forall w x, ws_only w -> ft x -> ft (w ++ x).
Proof. intros w x Hw H. unfold ft in *. now rewrite skip_ws_app. Qed.

Lemma connective_none : forall x, fe x -> connective x = None.
Proof. intros x [H|[z H]]; unfold connective; rewrite H; reflexivity. Qed.

(* ------------------------------------------------------------------ *)
(* decimal numbers *)

Lemma digit_cases : forall d : N, (d < 10)%N ->
  d = 0%N \/ d = 1%N \/ d = 2%N \/ d = 3%N \/ d = 4%N \/ d = 5%N \/ d = 6%N \/ d = 7%N \/ d = 8%N \/ d = 9%N.
Proof. intros d H. lia. Qed.

Lemma digit_is_digit : forall d, (d < 10)%N -> is_digit (digit d) = true.
Proof. intros d H. destruct (digit_cases d H) as [->|[->|[->|[->|[->|[->|[->|[->|[->| ->]]]]]]]]]; reflexivity. Qed.

Lemma dig_digit : forall d, (d < 10)%N -> dig (digit d) = d.
Proof. intros d H. destruct (digit_cases d H) as [->|[->|[->|[->|[->|[->|[->|[->|[->| ->]]]]]]]]]; reflexivity. Qed.

Lemma digit_nonzero : forall d, (0 < d < 10)%N -> Ascii.eqb (digit d) "0" = false.
Proof.
  intros d [H0 H]. destruct (digit_cases d H) as [->|[->|[->|[->|[->|[->|[->|[->|[->| ->]]]]]]]]]; try reflexivity. lia.
Qed.

Lemma dval_snoc : forall l c, dval (l ++ [c]) = (10 * dval l + dig c)%N.
Proof. intros l c. unfold dval. now rewrite fold_left_app. Qed.

Lemma pN_acc : forall f n acc, pN f n acc = pN f n [] ++ acc.
Proof.
  induction f as [|f IH]; intros n acc; [reflexivity|].
  cbn [pN]. destruct (n <? 10)%N; [reflexivity|].
  rewrite (IH _ (digit (n mod 10) :: acc)), (IH _ [digit (n mod 10)]).
  now rewrite <- app_assoc.
Qed.

Lemma pN_S : forall f n, pN (S f) n [] =
  if (n <? 10)%N then [digit (n mod 10)] else pN f (n / 10) [] ++ [digit (n mod 10)].
Proof. intros f n. cbn [pN]. destruct (n <? 10)%N; [reflexivity|]. apply pN_acc. Qed.

Lemma pN_digits : forall f n, forallb is_digit (pN f n []) = true.
Proof.
  induction f as [|f IH]; intros n; [reflexivity|]. rewrite pN_S.
  assert (Hd : is_digit (digit (n mod 10)) = true) by (apply digit_is_digit; apply N.mod_lt; lia).
  destruct (n <? 10)%N; cbn; [now rewrite Hd|].
  rewrite forallb_app, IH. cbn. now rewrite Hd.
Qed.

Lemma pN_val : forall f n, (n < 2 ^ N.of_nat f)%N -> dval (pN f n []) = n.
Proof.
  induction f as [|f IH]; intros n H.
  - cbn in H. assert (n = 0%N) by lia. subst. reflexivity.
  - rewrite pN_S. destruct (n <? 10)%N eqn:E.
    + apply N.ltb_lt in E. cbn. rewrite dig_digit by (apply N.mod_lt; lia).
      rewrite N.mod_small by exact E. reflexivity.
    + apply N.ltb_ge in E.
      assert (Hb : (n / 10 < 2 ^ N.of_nat f)%N).
      { rewrite Nat2N.inj_succ, N.pow_succ_r' in H.
        assert (n / 10 <= n / 2)%N by (apply N.div_le_compat_l; lia).
        assert (n / 2 < 2 ^ N.of_nat f)%N by (apply N.div_lt_upper_bound; lia). lia. }
      rewrite dval_snoc, IH by exact Hb. rewrite dig_digit by (apply N.mod_lt; lia).
      pose proof (N.div_mod n 10). lia.
Qed.

Lemma pN_head : forall f n, (0 < n)%N -> (n < 2 ^ N.of_nat f)%N ->
  exists c r, pN f n [] = c :: r /\ Ascii.eqb c "0" = false.
Proof.
  induction f as [|f IH]; intros n H0 H.
  - cbn in H. lia.
  - rewrite pN_S. destruct (n <? 10)%N eqn:E.
    + apply N.ltb_lt in E. exists (digit (n mod 10)), []. split; [reflexivity|].
      apply digit_nonzero. rewrite N.mod_small by exact E. lia.
    + apply N.ltb_ge in E.
      destruct (IH (n / 10)%N) as (c & r & E1 & E2).
      * assert (1 <= n / 10)%N by (apply N.div_le_lower_bound; lia). lia.
      * rewrite Nat2N.inj_succ, N.pow_succ_r' in H.
        assert (n / 10 <= n / 2)%N by (apply N.div_le_compat_l; lia).
        assert (n / 2 < 2 ^ N.of_nat f)%N by (apply N.div_lt_upper_bound; lia). lia.
      * rewrite E1. exists c, (r ++ [digit (n mod 10)]). split; [reflexivity|exact E2].
Qed.

Lemma print_N_fuel : forall n, (n < 2 ^ N.of_nat (S (N.to_nat (N.log2 n))))%N.
Proof.
  intros n. rewrite Nat2N.inj_succ, N2Nat.id.
  destruct n as [|p]; [cbn; lia|]. apply N.log2_spec. lia.
Qed.

Lemma print_N_digits : forall n, forallb is_digit (print_N n) = true.
Proof. intros. apply pN_digits. Qed.

Lemma print_N_val : forall n, dval (print_N n) = n.
Proof. intros. apply pN_val, print_N_fuel. Qed.

Lemma print_N_cons : forall n, exists c r, print_N n = c :: r /\ is_digit c = true.
Proof.
  intros n. pose proof (print_N_digits n) as H. unfold print_N in *. rewrite pN_S in *.
  destruct (n <? 10)%N.
  - eexists _, _. split; [reflexivity|]. cbn in H. now apply andb_true_iff in H as [H _].
  - destruct (pN _ _ []) as [|c r] eqn:E; cbn in *.
    + eexists _, _. split; [reflexivity|]. now apply andb_true_iff in H as [H _].
    + eexists _, _. split; [reflexivity|]. now apply andb_true_iff in H as [H _].
Qed.

Lemma eval_dec_int : forall n, eval_dec (print_N n) None = Some (mkNum KI (Z.of_N n) 1).
Proof.
  intros n. unfold eval_dec. rewrite print_N_val.
  destruct (N.eq_dec n 0) as [->|Hn]; [reflexivity|].
  destruct (pN_head _ n ltac:(lia) (print_N_fuel n)) as (c & r & E1 & E2).
  unfold print_N. rewrite E1. destruct r; [reflexivity|]. now rewrite E2.
Qed.

Definition num_stop (x : text) : Prop :=
  match x with [] => True | c :: _ => is_digit c = false /\ Ascii.eqb c "." = false end.

Lemma fstop_num_stop : forall x, fstop x -> num_stop x.
Proof. intros [|c x] H; [exact I|]. cbn in *. split; [now apply follow_not_digit|now apply follow_not_dot]. Qed.

Lemma lex_dec_int : forall ds x, forallb is_digit ds = true -> ds <> [] -> num_stop x ->
  lex_dec (ds ++ x) = Some (ds, None, x).
Proof.
  intros ds x Hd Hn Hx. unfold lex_dec. rewrite span_app; auto.
  - destruct ds; [congruence|]. destruct x as [|c x]; [reflexivity|]. cbn in Hx. destruct Hx as [_ Hx]. now rewrite Hx.
  - destruct x; cbn in *; tauto.
Qed.

Lemma lex_dec_frac : forall ds fs x, forallb is_digit ds = true -> ds <> [] ->
  forallb is_digit fs = true -> fs <> [] -> stops is_digit x ->
  lex_dec (ds ++ "." :: fs ++ x) = Some (ds, Some fs, x).
Proof.
  intros ds fs x Hd Hn Hf Hfn Hx. unfold lex_dec. rewrite span_app; auto; [|reflexivity].
  destruct ds; [congruence|]. cbn [Ascii.eqb Bool.eqb]. cbn. rewrite span_app; auto.
  destruct fs; [congruence|reflexivity].
Qed.

Lemma fixd_digits : forall j v, forallb is_digit (fixd j v) = true.
Proof.
  induction j as [|j IH]; intros v; [reflexivity|]. cbn [fixd].
  rewrite forallb_app, IH. cbn. rewrite digit_is_digit; [reflexivity|]. apply N.mod_lt. lia.
Qed.

Lemma fixd_length : forall j v, length (fixd j v) = j.
Proof.
  induction j as [|j IH]; intros v; [reflexivity|]. cbn [fixd]. rewrite app_length, IH. cbn. lia.
Qed.

Lemma num_same_eq : forall x y, num_same x y = true -> x = y.
Proof.
  intros [k1 n1 d1] [k2 n2 d2] H. unfold num_same in H. cbn in H.
  apply andb_true_iff in H as [H H3]. apply andb_true_iff in H as [H1 H2].
  apply Z.eqb_eq in H2. apply Pos.eqb_eq in H3. subst.
  destruct k1, k2; try discriminate; reflexivity.
Qed.

Lemma find_frac_spec : forall fuel j x ds fs, 1 <= j -> find_frac fuel j x = Some (ds, fs) ->
  forallb is_digit ds = true /\ ds <> [] /\ forallb is_digit fs = true /\ fs <> [] /\
  eval_dec ds (Some fs) = Some x.
Proof.
  induction fuel as [|fuel IH]; intros j x ds fs Hj H; [discriminate|].
  cbn [find_frac] in H.
  set (n := round_div _ _) in H.
  destruct (eval_dec (print_N (n / N.pos (pow10 j))) (Some (fixd j (n mod N.pos (pow10 j))))) as [y|] eqn:E.
  - destruct (num_same x y) eqn:Es.
    + inversion H; subst ds fs. apply num_same_eq in Es. subst y.
      repeat split.
      * apply print_N_digits.
      * destruct (print_N_cons (n / N.pos (pow10 j))) as (c & r & -> & _). discriminate.
      * apply fixd_digits.
      * intros Hnil. apply (f_equal (@length _)) in Hnil. rewrite fixd_length in Hnil. cbn in Hnil. lia.
      * exact E.
    + apply (IH (S j)); [lia|exact H].
  - apply (IH (S j)); [lia|exact H].
Qed.

(* conversion must unfold float_digits to find_frac and stop there *)
Local Strategy 1000 [find_frac].

Lemma float_digits_spec : forall x ds fs, float_digits x = Some (ds, fs) ->
  forallb is_digit ds = true /\ ds <> [] /\ forallb is_digit fs = true /\ fs <> [] /\
  eval_dec ds (Some fs) = Some x.
Proof. intros x ds fs H. unfold float_digits in H. apply find_frac_spec in H; [exact H|lia]. Qed.

Opaque float_digits print_N.

(* the numbers that can be elements of a literal: non-negative ints and printable floats *)
Definition wf_elem (x : num) : bool := (wf_int x || wf_float x)%bool.

Lemma wf_int_inv : forall x, wf_int x = true -> x = mkNum KI (Z.of_N (Z.to_N (nnum x))) 1 /\ nkind x = KI.
Proof.
  intros [k n d] H. unfold wf_int in H. cbn [nkind nnum nden] in *.
  apply andb_true_iff in H as [H H3]. apply andb_true_iff in H as [H1 H2].
  apply Pos.eqb_eq in H3. apply Z.leb_le in H2. subst d. rewrite Z2N.id by exact H2.
  destruct k; try discriminate. split; reflexivity.
Qed.

Lemma print_num_elem : forall x, wf_elem x = true ->
  exists c r, print_num x = c :: r /\ is_digit c = true.
Proof.
  intros x H. unfold wf_elem in H. apply orb_true_iff in H as [H|H].
  - destruct (wf_int_inv x H) as [_ Hk]. unfold print_num. rewrite Hk. apply print_N_cons.
  - unfold wf_float in H. apply andb_true_iff in H as [Hk H].
    unfold print_num. destruct (nkind x); [discriminate Hk|discriminate Hk|].
    destruct (float_digits x) as [[ds fs]|] eqn:E; [|discriminate H].
    apply float_digits_spec in E as (H1 & H2 & _).
    destruct ds as [|c ds]; [congruence|]. cbn in H1. apply andb_true_iff in H1 as [H1 _].
    exists c, (ds ++ "." :: fs). split; [reflexivity|exact H1].
Qed.

Lemma number_ok : forall x y, wf_elem x = true -> fstop y -> number (print_num x ++ y) = Some (x, y).
Proof.
  intros x y H Hy. unfold wf_elem in H. apply orb_true_iff in H as [H|H].
  - destruct (wf_int_inv x H) as [Ex Hk]. unfold print_num. rewrite Hk. unfold number.
    destruct (print_N_cons (Z.to_N (nnum x))) as (c & r & Ec & _).
    rewrite lex_dec_int.
    + rewrite eval_dec_int. now rewrite <- Ex.
    + apply print_N_digits.
    + rewrite Ec. discriminate.
    + now apply fstop_num_stop.
  - unfold wf_float in H. apply andb_true_iff in H as [Hk H].
    unfold print_num. destruct (nkind x); [discriminate Hk|discriminate Hk|].
    destruct (float_digits x) as [[ds fs]|] eqn:E; [|discriminate H].
    apply float_digits_spec in E as (H1 & H2 & H3 & H4 & H5).
    unfold number. rewrite <- app_assoc. cbn [app]. rewrite lex_dec_frac; auto.
    + change (match eval_dec ds (Some fs) with Some x0 => Some (x0, y) | None => None end = Some (x, y)).
      now rewrite H5.
    + destruct y as [|c y]; [exact I|]. cbn in *. now apply follow_not_digit.
Qed.

(* ------------------------------------------------------------------ *)
(* str / bytes literals *)

Lemma sbody_eq : forall bm q c r, sbody bm q (c :: r) =

      if Ascii.eqb c q then Some ([], r)
      else if (N.eqb (code c) 10 || N.eqb (code c) 13)%bool then None
      else if N.eqb (code c) 92 then
        match r with
        | [] => None
        | e :: r1 =>
            match simple_escape e with
            | Some v => cons1 v (sbody bm q r1)
            | None =>
                if is_octal e then
                  match r1 with
                  | e2 :: r2 =>
                      if is_octal e2 then
                        match r2 with
                        | e3 :: r3 =>
                            if is_octal e3
                            then cons1 (octv bm (64 * dig e + 8 * dig e2 + dig e3)) (sbody bm q r3)
                            else cons1 (8 * dig e + dig e2)%N (sbody bm q r2)
                        | [] => None
                        end
                      else cons1 (dig e) (sbody bm q r1)
                  | [] => None
                  end
                else if Ascii.eqb e "x" then
                  match r1 with
                  | h1 :: h2 :: r3 =>
                      if (is_hex h1 && is_hex h2)%bool
                      then cons1 (16 * hexdig h1 + hexdig h2)%N (sbody bm q r3)
                      else None
                  | _ => None
                  end
                else if (negb bm && Ascii.eqb e "N")%bool then None
                else if (negb bm && Ascii.eqb e "u")%bool then
                  match r1 with
                  | h1 :: h2 :: h3 :: h4 :: r5 =>
                      if forallb is_hex [h1; h2; h3; h4]
                      then cons1 (hval [h1; h2; h3; h4]) (sbody bm q r5)
                      else None
                  | _ => None
                  end
                else if (negb bm && Ascii.eqb e "U")%bool then
                  match r1 with
                  | h1 :: h2 :: h3 :: h4 :: h5 :: h6 :: h7 :: h8 :: r9 =>
                      if (forallb is_hex [h1; h2; h3; h4; h5; h6; h7; h8]
                          && N.leb (hval [h1; h2; h3; h4; h5; h6; h7; h8]) 1114111)%bool
                      then cons1 (hval [h1; h2; h3; h4; h5; h6; h7; h8]) (sbody bm q r9)
                      else None
                  | _ => None
                  end
                else if (N.eqb (code e) 10 || N.eqb (code e) 13)%bool then None
                else if (bm && N.leb 128 (code e))%bool then None
                else cons2 92 (code e) (sbody bm q r1)   
            end
        end
      else if (bm && N.leb 128 (code c))%bool then None   
      else cons1 (code c) (sbody bm q r).
Proof. reflexivity. Qed.

Lemma sbody_esc_char : forall bm q a tl, (q = chr 34 \/ q = chr 39) ->
  sbody bm q (esc_char bm q a ++ tl) = cons1 (code a) (sbody bm q tl).
Proof.
  intros bm q a tl [-> | ->]; destruct bm; all_chars a;
    match goal with |- sbody ?b ?q (?e ++ _) = _ =>
      let e' := eval vm_compute in e in change e with e' end;
    cbn [app]; rewrite sbody_eq;
    match goal with |- context [sbody ?b ?q] => set (R := sbody b q); clearbody R end;
    vm_compute; reflexivity.
Qed.

Lemma sbody_ok : forall bm q s x, (q = chr 34 \/ q = chr 39) -> forallb small s = true ->
  sbody bm q (flat_map (fun c => esc_char bm q (chr c)) s ++ q :: x) = Some (s, x).
Proof.
  intros bm q s x Hq. induction s as [|c s IH]; intros Hs.
  - cbn [flat_map app sbody]. now rewrite Ascii.eqb_refl.
  - cbn in Hs. apply andb_true_iff in Hs as [Hc Hs].
    cbn [flat_map]. rewrite <- app_assoc, sbody_esc_char by exact Hq.
    rewrite IH by exact Hs. cbn. now rewrite code_chr.
Qed.

Lemma pick_quote_cases : forall s, pick_quote s = chr 34 \/ pick_quote s = chr 39.
Proof. intros s. unfold pick_quote. destruct (_ && _)%bool; [left|right]; reflexivity. Qed.

Lemma lit_string_str : forall s x, forallb small s = true ->
  lit_string (print_quoted false s ++ x) = Some (PStr s, x).
Proof.
  intros s x Hs. unfold print_quoted.
  destruct (pick_quote_cases s) as [E|E]; rewrite E; cbn [app]; rewrite <- app_assoc; cbn [app];
    unfold lit_string; cbn [is_quote code chr ascii_of_N ascii_of_pos N_of_ascii N_of_digits N.eqb Pos.eqb orb N.add N.mul];
    (rewrite sbody_ok; [reflexivity|auto|exact Hs]).
Qed.

Lemma lit_string_bytes : forall s x, forallb small s = true ->
  lit_string ("b" :: print_quoted true s ++ x) = Some (PBytes None s, x).
Proof.
  intros s x Hs. unfold print_quoted.
  destruct (pick_quote_cases s) as [E|E]; rewrite E; cbn [app]; rewrite <- app_assoc; cbn [app];
    unfold lit_string; cbn [is_quote code chr ascii_of_N ascii_of_pos N_of_ascii N_of_digits N.eqb Pos.eqb orb N.add N.mul Ascii.eqb Bool.eqb andb];
    (rewrite sbody_ok; [reflexivity|auto|exact Hs]).
Qed.

(* ------------------------------------------------------------------ *)
(* literals *)

Lemma number_head : forall s v y, number s = Some (v, y) -> exists c r, s = c :: r /\ is_digit c = true.
Proof.
  intros s v y H. unfold number, lex_dec in H. destruct s as [|c r]; [discriminate|].
  cbn [span] in H. destruct (is_digit c) eqn:E; [eauto|discriminate].
Qed.

Lemma number_not_hex : forall s v y, number s = Some (v, y) -> fstop y -> lit_hex s = None.
Proof.
  intros s v y H Hy. unfold lit_hex. destruct s as [|z r0]; [reflexivity|].
  destruct (Ascii.eqb_spec z "0") as [->|]; [|reflexivity].
  destruct r0 as [|c r]; [reflexivity|].
  destruct (Ascii.eqb_spec c "x") as [->|]; [|reflexivity].
  cbn in H. inversion H; subst. cbn in Hy. discriminate.
Qed.

Lemma number_not_string : forall s v y, number s = Some (v, y) -> lit_string s = None.
Proof.
  intros s v y H. destruct (number_head _ _ _ H) as (c & r & -> & Hc).
  unfold lit_string. now rewrite digit_not_quote, digit_not_b.
Qed.

Lemma literal_num : forall a w y, wf_elem a = true -> ws_only w -> fstop y ->
  literal (w ++ print_num a ++ y) = Some (PNum a, y).
Proof.
  intros a w y Ha Hw Hy. unfold literal. rewrite skip_ws_app by exact Hw.
  pose proof (number_ok a y Ha Hy) as Hn.
  destruct (print_num_elem a Ha) as (c & r & E & Hc).
  assert (Es : skip_ws (print_num a ++ y) = print_num a ++ y).
  { rewrite E. cbn [app]. apply skip_ws_cons. now apply digit_not_ws. }
  rewrite Es. rewrite (number_not_string _ _ _ Hn), (number_not_hex _ _ _ Hn Hy).
  unfold lit_dec. now rewrite Hn.
Qed.

Lemma vec_nums_step : forall k a w y, wf_elem a = true -> ws_only w -> fstop y ->
  vec_nums (S k) (w ++ print_num a ++ y) =
  match skip_ws y with
  | c :: r =>
      match k with
      | O => if Ascii.eqb c ")" then Some ([a], r) else None
      | S _ => if Ascii.eqb c "," then
                 match vec_nums k r with Some (l, r') => Some (a :: l, r') | None => None end
               else None
      end
  | [] => None
  end.
Proof.
  intros k a w y Ha Hw Hy. cbn [vec_nums]. rewrite skip_ws_app by exact Hw.
  destruct (print_num_elem a Ha) as (c & r & E & Hc).
  assert (Es : skip_ws (print_num a ++ y) = print_num a ++ y).
  { rewrite E. cbn [app]. apply skip_ws_cons. now apply digit_not_ws. }
  rewrite Es, (number_ok a y Ha Hy). reflexivity.
Qed.

Definition tup_text (l : list num) : text := sep_by [","; " "] (map print_num l).

Lemma vec_nums_ok : forall l w x, l <> [] -> forallb wf_elem l = true -> ws_only w ->
  vec_nums (length l) (w ++ tup_text l ++ ")" :: x) = Some (l, x).
Proof.
  induction l as [|a l IH]; intros w x Hn Hl Hw; [congruence|].
  cbn in Hl. apply andb_true_iff in Hl as [Ha Hl].
  destruct l as [|b l].
  - unfold tup_text. cbn [map sep_by length]. rewrite vec_nums_step; auto; reflexivity.
  - pose proof (IH [" "] x ltac:(discriminate) Hl eq_refl) as E. cbn [app] in E.
    unfold tup_text in *.
    change (sep_by [","; " "] (map print_num (a :: b :: l)))
      with (print_num a ++ [","; " "] ++ sep_by [","; " "] (map print_num (b :: l))).
    set (T := sep_by [","; " "] (map print_num (b :: l))) in *.
    cbn [length] in *. rewrite <- !app_assoc. cbn [app].
    rewrite vec_nums_step; auto; [|reflexivity].
    rewrite skip_ws_cons by reflexivity. rewrite Ascii.eqb_refl. now rewrite E.
Qed.

Lemma vec3_of_4 : forall a b c d x, forallb wf_elem [a; b; c; d] = true ->
  vec_nums 3 (tup_text [a; b; c; d] ++ ")" :: x) = None.
Proof.
  intros a b c d x H. cbn in H.
  apply andb_true_iff in H as [Ha H]. apply andb_true_iff in H as [Hb H]. apply andb_true_iff in H as [Hc _].
  unfold tup_text.
  change (sep_by [","; " "] (map print_num [a; b; c; d]))
    with (print_num a ++ [","; " "] ++ print_num b ++ [","; " "] ++ print_num c ++ [","; " "] ++ print_num d).
  rewrite <- !app_assoc. cbn [app].
  change (vec_nums 3 (print_num a ++ ?z)) with (vec_nums 3 ([] ++ print_num a ++ z)).
  rewrite (vec_nums_step 2 a []) by (try assumption; reflexivity).
  rewrite skip_ws_cons by reflexivity. rewrite Ascii.eqb_refl.
  change (vec_nums 2 (" " :: print_num b ++ ?z)) with (vec_nums 2 ([" "] ++ print_num b ++ z)).
  rewrite (vec_nums_step 1 b [" "]) by (try assumption; reflexivity).
  rewrite skip_ws_cons by reflexivity. rewrite Ascii.eqb_refl.
  change (vec_nums 1 (" " :: print_num c ++ ?z)) with (vec_nums 1 ([" "] ++ print_num c ++ z)).
  rewrite (vec_nums_step 0 c [" "]) by (try assumption; reflexivity).
  rewrite skip_ws_cons by reflexivity. reflexivity.
Qed.

Lemma wf_bool_inv : forall x, wf_bool x = true -> x = mkNum KB 0 1 \/ x = mkNum KB 1 1.
Proof.
  intros [k n d] H. unfold wf_bool in H. cbn [nkind nnum nden] in H.
  apply andb_true_iff in H as [H H3]. apply andb_true_iff in H as [H1 H2].
  apply Pos.eqb_eq in H3. subst d. destruct k; try discriminate.
  apply orb_true_iff in H2 as [H2|H2]; apply Z.eqb_eq in H2; subst; auto.
Qed.

Lemma tup_text_head : forall l, l <> [] -> forallb wf_elem l = true ->
  exists c r, tup_text l = c :: r /\ is_digit c = true.
Proof.
  intros [|a l] Hn Hl; [congruence|]. cbn in Hl. apply andb_true_iff in Hl as [Ha _].
  destruct (print_num_elem a Ha) as (c & r & E & Hc). unfold tup_text. cbn [map sep_by].
  destruct (map print_num l); rewrite E; cbn [app]; eauto.
Qed.

Lemma literal_ok : forall v w x, wf_lit v = true -> ws_only w -> fstop x ->
  literal (w ++ print_pv v ++ x) = Some (v, x).
Proof.
  intros v w x Hv Hw Hx. destruct v as [|a|s|[j|] b|l| |]; try discriminate Hv; cbn [wf_lit print_pv] in *.
  - unfold literal. rewrite skip_ws_app by exact Hw. reflexivity.
  - apply orb_true_iff in Hv as [Hv|Hv]; [apply orb_true_iff in Hv as [Hv|Hv]|].
    + unfold literal. rewrite skip_ws_app by exact Hw.
      destruct (wf_bool_inv a Hv) as [-> | ->]; reflexivity.
    + apply literal_num; auto. unfold wf_elem. now rewrite Hv.
    + apply literal_num; auto. unfold wf_elem. rewrite Hv. now rewrite orb_true_r.
  - unfold literal. rewrite skip_ws_app by exact Hw.
    assert (Es : skip_ws (print_quoted false s ++ x) = print_quoted false s ++ x).
    { unfold print_quoted. destruct (pick_quote_cases s) as [E|E]; rewrite E; reflexivity. }
    rewrite Es, lit_string_str by exact Hv. reflexivity.
  - unfold literal. rewrite skip_ws_app by exact Hw. cbn [app].
    rewrite skip_ws_cons by reflexivity. rewrite lit_string_bytes by exact Hv. reflexivity.
  - unfold literal. rewrite skip_ws_app by exact Hw. cbn [app].
    rewrite skip_ws_cons by reflexivity.
    apply andb_true_iff in Hv as [Hlen Hl].
    assert (Hl' : forallb wf_elem l = true) by exact Hl.
    change (sep_by [","; " "] (map print_num l)) with (tup_text l). rewrite <- app_assoc. cbn [app].
    assert (Hne : l <> []) by (intros ->; discriminate Hlen).
    destruct (tup_text_head l Hne Hl') as (c & r & E & Hc).
    set (body := tup_text l ++ ")" :: x).
    assert (Hs : lit_string ("(" :: body) = None) by reflexivity.
    assert (Hh : lit_hex ("(" :: body) = None) by reflexivity.
    assert (Hd : lit_dec ("(" :: body) = None) by reflexivity.
    rewrite Hs, Hh, Hd.
    change (kw kw_None PNone ("(" :: body)) with (@None (pv * text)).
    change (kw kw_True (bool_ true) ("(" :: body)) with (@None (pv * text)).
    change (kw kw_False (bool_ false) ("(" :: body)) with (@None (pv * text)).
    unfold lit_vec. cbn [Ascii.eqb Bool.eqb]. cbn match. unfold body.
    apply orb_true_iff in Hlen as [Hlen|Hlen]; apply Nat.eqb_eq in Hlen.
    + pose proof (vec_nums_ok l [] x Hne Hl' eq_refl) as V. cbn [app] in V. rewrite Hlen in V.
      rewrite V. reflexivity.
    + destruct l as [|a1 [|a2 [|a3 [|a4 [|a5 l]]]]]; try discriminate Hlen.
      pose proof (vec_nums_ok [a1; a2; a3; a4] [] x Hne Hl' eq_refl) as V. cbn [app length] in V.
      rewrite (vec3_of_4 a1 a2 a3 a4 x Hl'). rewrite V. reflexivity.
Qed.
