(* Proofs about the concrete syntax of the filter language (Log/FilterSyntax.v):
   the parser reads back every rendering (the printed text up to whitespace between
   tokens and redundant parentheses) of every well-formed filter. *)
From Coq Require Import NArith ZArith List Bool Ascii Lia ZifyBool ZifyNat ZifyN.
From HV Require Import Log.Filter Log.FilterSyntax.
Import ListNotations.
Local Open Scope char_scope.
Local Open Scope list_scope.

(* ------------------------------------------------------------------ *)
(* characters *)

Ltac all_chars c := destruct c as [[] [] [] [] [] [] [] []].

Lemma code_chr : forall n, small n = true -> code (chr n) = n.
Proof.
  intros n H. unfold code, chr, small in *. apply N_ascii_embedding. lia.
Qed.

Lemma chr_code : forall c, chr (code c) = c.
Proof. intros c. apply ascii_N_embedding. Qed.

Lemma map_code_chr : forall l, forallb small l = true -> map code (map chr l) = l.
Proof.
  induction l as [|a l IH]; cbn; intros H; [reflexivity|].
  apply andb_true_iff in H as [H1 H2]. now rewrite code_chr, IH.
Qed.

(* the characters that may follow a complete token of a rendering *)
Definition follow_char (c : ascii) : bool :=
  (is_ws c || Ascii.eqb c ")" || Ascii.eqb c "&" || Ascii.eqb c "|" || Ascii.eqb c ",")%bool.

Definition stops (P : ascii -> bool) (x : text) : Prop :=
  match x with [] => True | c :: _ => P c = false end.

Definition fstop (x : text) : Prop :=
  match x with [] => True | c :: _ => follow_char c = true end.

Lemma follow_not_idrest : forall c, follow_char c = true -> is_idrest c = false.
Proof. intros c; all_chars c; cbn; intros H; try reflexivity; discriminate H. Qed.
Lemma follow_not_digit : forall c, follow_char c = true -> is_digit c = false.
Proof. intros c; all_chars c; cbn; intros H; try reflexivity; discriminate H. Qed.
Lemma follow_not_dot : forall c, follow_char c = true -> Ascii.eqb c "." = false.
Proof. intros c; all_chars c; cbn; intros H; try reflexivity; discriminate H. Qed.
Lemma follow_not_x : forall c, follow_char c = true -> Ascii.eqb c "x" = false.
Proof. intros c; all_chars c; cbn; intros H; try reflexivity; discriminate H. Qed.
Lemma ws_follow : forall c, is_ws c = true -> follow_char c = true.
Proof. intros c H. unfold follow_char. now rewrite H. Qed.
Lemma idstart_not_ws : forall c, is_idstart c = true -> is_ws c = false.
Proof. intros c; all_chars c; cbn; intros H; try reflexivity; discriminate H. Qed.
Lemma idstart_idrest : forall c, is_idstart c = true -> is_idrest c = true.
Proof. intros c; all_chars c; cbn; intros H; try reflexivity; discriminate H. Qed.
Lemma idrest_not_ws : forall c, is_idrest c = true -> is_ws c = false.
Proof. intros c; all_chars c; cbn; intros H; try reflexivity; discriminate H. Qed.
Lemma idrest_not_dot : forall c, is_idrest c = true -> Ascii.eqb "." c = false.
Proof. intros c; all_chars c; cbn; intros H; try reflexivity; discriminate H. Qed.
Lemma idrest_not_quote : forall c, is_idrest c = true -> is_quote c = false.
Proof. intros c; all_chars c; cbn; intros H; try reflexivity; discriminate H. Qed.
Lemma ws_not_quote : forall c, is_ws c = true -> is_quote c = false.
Proof. intros c; all_chars c; cbn; intros H; try reflexivity; discriminate H. Qed.
Lemma idstart_not_digit : forall c, is_idstart c = true -> is_digit c = false.
Proof. intros c; all_chars c; cbn; intros H; try reflexivity; discriminate H. Qed.
Lemma digit_not_ws : forall c, is_digit c = true -> is_ws c = false.
Proof. intros c; all_chars c; cbn; intros H; try reflexivity; discriminate H. Qed.
Lemma digit_not_quote : forall c, is_digit c = true -> is_quote c = false.
Proof. intros c; all_chars c; cbn; intros H; try reflexivity; discriminate H. Qed.
Lemma digit_not_b : forall c, is_digit c = true -> Ascii.eqb c "b" = false.
Proof. intros c; all_chars c; cbn; intros H; try reflexivity; discriminate H. Qed.
Lemma digit_not_x : forall c, is_digit c = true -> Ascii.eqb c "x" = false.
Proof. intros c; all_chars c; cbn; intros H; try reflexivity; discriminate H. Qed.
Lemma digit_not_dot : forall c, is_digit c = true -> Ascii.eqb c "." = false.
Proof. intros c; all_chars c; cbn; intros H; try reflexivity; discriminate H. Qed.

Lemma eqb_false_of : forall (P : ascii -> bool) a c, P a = true -> P c = false -> Ascii.eqb a c = false.
Proof.
  intros P a c Ha Hc. destruct (Ascii.eqb_spec a c) as [->|]; [congruence|reflexivity].
Qed.

(* ------------------------------------------------------------------ *)
(* whitespace, prefixes, spans *)

Lemma ws_only_app : forall a b, ws_only a -> ws_only b -> ws_only (a ++ b).
Proof. unfold ws_only. intros a b Ha Hb. now rewrite forallb_app, Ha, Hb. Qed.

Lemma ws_only_nil : ws_only [].
Proof. reflexivity. Qed.

Lemma skip_ws_app : forall w x, ws_only w -> skip_ws (w ++ x) = skip_ws x.
Proof.
  induction w as [|c w IH]; intros x H; [reflexivity|].
  unfold ws_only in H. cbn in H. apply andb_true_iff in H as [H1 H2].
  cbn [app skip_ws]. rewrite H1. now apply IH.
Qed.

Lemma skip_ws_cons : forall c r, is_ws c = false -> skip_ws (c :: r) = c :: r.
Proof. intros c r H. cbn. now rewrite H. Qed.

Lemma skip_ws_head : forall x, match skip_ws x with [] => True | c :: _ => is_ws c = false end.
Proof.
  induction x as [|c x IH]; cbn; [exact I|].
  destruct (is_ws c) eqn:E; [exact IH|exact E].
Qed.

Lemma skip_ws_idem : forall x, skip_ws (skip_ws x) = skip_ws x.
Proof.
  intros x. pose proof (skip_ws_head x) as H. destruct (skip_ws x) as [|c r]; [reflexivity|].
  now apply skip_ws_cons.
Qed.

Lemma prefix_app : forall p x, prefix p (p ++ x) = Some x.
Proof.
  induction p as [|c p IH]; intros x; [reflexivity|].
  cbn. now rewrite Ascii.eqb_refl.
Qed.

Lemma tok_ok : forall c p w x, ws_only w -> is_ws c = false -> tok (c :: p) (w ++ c :: p ++ x) = Some x.
Proof.
  intros c p w x Hw Hc. unfold tok. rewrite skip_ws_app by exact Hw.
  rewrite skip_ws_cons by exact Hc. exact (prefix_app (c :: p) x).
Qed.

Lemma tok_skip : forall p x, tok p (skip_ws x) = tok p x.
Proof. intros. unfold tok. now rewrite skip_ws_idem. Qed.

Lemma span_app : forall P a x, forallb P a = true -> stops P x -> span P (a ++ x) = (a, x).
Proof.
  induction a as [|c a IH]; intros x Ha Hx.
  - cbn. destruct x as [|d x]; [reflexivity|]. cbn in Hx. cbn. now rewrite Hx.
  - cbn in Ha. apply andb_true_iff in Ha as [H1 H2]. cbn. rewrite H1, IH; auto.
Qed.

(* ------------------------------------------------------------------ *)
(* identifiers and dotted selectors *)

Lemma wf_ident_inv : forall i, wf_ident i = true ->
  forallb small i = true /\ exists c r, print_id i = c :: r /\ is_idstart c = true /\ forallb is_idrest r = true.
Proof.
  intros i H. unfold wf_ident in H. apply andb_true_iff in H as [H1 H2]. split; [exact H1|].
  unfold print_id. destruct (map chr i) as [|c r]; [discriminate|].
  apply andb_true_iff in H2 as [H2 H3]. eauto.
Qed.

Lemma identifier_ok : forall i w x, wf_ident i = true -> ws_only w -> stops is_idrest x ->
  identifier (w ++ print_id i ++ x) = Some (i, x).
Proof.
  intros i w x Hi Hw Hx. destruct (wf_ident_inv i Hi) as (Hs & c & r & E & Hc & Hr).
  unfold identifier. rewrite skip_ws_app by exact Hw. rewrite E. cbn [app].
  rewrite skip_ws_cons by (now apply idstart_not_ws). rewrite Hc.
  rewrite span_app by assumption. rewrite <- E. unfold print_id. now rewrite map_code_chr.
Qed.

Lemma identifier_none : forall w c x, ws_only w -> is_ws c = false -> is_idstart c = false ->
  identifier (w ++ c :: x) = None.
Proof.
  intros w c x Hw H1 H2. unfold identifier. rewrite skip_ws_app by exact Hw.
  rewrite skip_ws_cons by exact H1. now rewrite H2.
Qed.

Lemma print_id_stops : forall i x, wf_ident i = true -> exists c r, print_id i ++ x = c :: r /\ is_idstart c = true.
Proof.
  intros i x Hi. destruct (wf_ident_inv i Hi) as (_ & c & r & E & Hc & _).
  exists c, (r ++ x). now rewrite E.
Qed.

Lemma stops_ws_dot : forall w x, ws_only w -> stops is_idrest (w ++ "." :: x).
Proof.
  intros [|c w] x H; cbn; [reflexivity|].
  unfold ws_only in H. cbn in H. apply andb_true_iff in H as [H _].
  destruct (is_idrest c) eqn:E; [|reflexivity]. apply idrest_not_ws in E. congruence.
Qed.

Lemma r_dots_stops : forall l t x, r_dots l t -> stops is_idrest x -> stops is_idrest (t ++ x).
Proof.
  intros l t x H Hx. destruct H as [|i l t w1 w2 H1 H2 H]; [exact Hx|].
  rewrite <- app_assoc. cbn [app]. now apply stops_ws_dot.
Qed.

Lemma r_dots_len : forall l t, r_dots l t -> length l <= length t.
Proof.
  induction 1 as [|i l t w1 w2 H1 H2 H IH]; [cbn; lia|].
  rewrite app_length. cbn [length]. rewrite !app_length. cbn [length]. lia.
Qed.

(* what may follow a selector: no identifier character, and after whitespace no dot *)
Definition sel_stop (x : text) : Prop := stops is_idrest x /\ tok ["."] x = None.

Lemma dotted_ok : forall l t, r_dots l t -> forallb wf_ident l = true ->
  forall n x, length l <= n -> sel_stop x -> dotted n (t ++ x) = (l, x).
Proof.
  induction 1 as [|i l t w1 w2 H1 H2 H IH]; intros Hl n x Hn [Hx1 Hx2].
  - cbn [app]. destruct n; cbn [dotted]; [reflexivity|]. now rewrite Hx2.
  - cbn in Hl. apply andb_true_iff in Hl as [Hi Hl].
    destruct n as [|n]; [cbn in Hn; lia|]. cbn [dotted].
    rewrite <- app_assoc. cbn [app].
    replace (w1 ++ "." :: (w2 ++ print_id i ++ t) ++ x) with (w1 ++ "." :: [] ++ ((w2 ++ print_id i ++ t) ++ x)) by reflexivity.
    rewrite tok_ok by (auto; reflexivity).
    rewrite <- !app_assoc.
    rewrite identifier_ok; auto.
    + rewrite IH; auto. cbn in Hn. lia. split; assumption.
    + eapply r_dots_stops; eauto.
Qed.

Lemma field_specifier_ok : forall s0 rest t w x, r_dots rest t ->
  wf_ident s0 = true -> forallb wf_ident rest = true -> ws_only w -> sel_stop x ->
  field_specifier (w ++ print_id s0 ++ t ++ x) = Some (s0, rest, x).
Proof.
  intros s0 rest t w x Hd H0 Hr Hw Hx. unfold field_specifier.
  rewrite identifier_ok; auto.
  - rewrite (dotted_ok rest t Hd Hr); auto.
    rewrite app_length. pose proof (r_dots_len _ _ Hd). lia.
  - eapply r_dots_stops; eauto. apply Hx.
Qed.

Lemma field_specifier_none : forall w c x, ws_only w -> is_ws c = false -> is_idstart c = false ->
  field_specifier (w ++ c :: x) = None.
Proof. intros. unfold field_specifier. now rewrite identifier_none. Qed.
